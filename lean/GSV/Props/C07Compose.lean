/-
  C07 — end-to-end composition: the conditioning formula of `CondSRF.__call__` (Model/Cond.lean) fed with the
  output of the kriging call it actually makes (`krigeCall`: chunk loop around the generated kernel, on the
  assembled system of Model/Krige.lean, `post_process=False`, `return_var=True`), followed by the field
  post-processing (`postCell`: mean, normaliser, trend).

  * `cond_honours_data`      — at a target that coincides with conditioning point `j`, whose kriging-matrix
                               diagonal reaches the sill, the conditioned value IS the datum `val j`: every raw
                               field value, every nugget noise (every seed), every kriging variant (layout),
                               every chunk size and schedule, every normaliser/mean/trend.
  * `cond_at_data_nugget_residual` / `not_honours_data_zero_err_nugget`
                             — the hypothesis on the diagonal is necessary: with a positive model nugget and
                               measurement error 0 in non-exact mode (`K_jj = var < sill`) the conditioned value
                               is `datum + nugget noise`, not the datum.
  * `cond_far_field_simple`  — simple kriging, all covariances between the data and the target vanish:
                               value = post(raw (+ nugget noise)), i.e. `mean + raw` for the identity normaliser.
-/
import GSV.Props.C06
import GSV.Props.C07
namespace GSV.Props.C07
open GSV GSV.Props GSV.Props.C05 GSV.Model.Krige GSV.Model.Cond Finset Matrix

/-! ## at the data -/

/-- clipped variance when the diagonal reaches the sill -/
theorem clipVar_of_sill_le (sill d : ℝ) (h : sill ≤ d) : clipVar sill d = 0 := by
  unfold clipVar
  by_cases h2 : sill - d < ((0:Nat):ℝ)
  · rw [if_pos h2]; simp
  · rw [if_neg h2]
    simp only [Nat.cast_zero, not_lt] at h2
    linarith

/-- **the kriging call at a datum**: both outputs of the call `CondSRF` makes (`krigeCall`, any chunk size,
    any admissible schedule), at a target `p` that coincides with conditioning point `j`, when `M` inverts the
    assembled matrix: raw estimate = prepared datum, variance = `max(sill − K_jj, 0)`. -/
theorem krigeCall_at_data (sched : Sched) (hs : sched.Admissible)
    (L : Layout) (C : Nat → Nat → ℝ) (err : Nat → ℝ) (F E : Nat → Nat → ℝ)
    (c f e : Nat → Nat → ℝ) (M : Nat → Nat → ℝ)
    (hMK : toMat L.size M * toMat L.size (assembleK L C err F E) = 1)
    (valn mean : Nat → ℝ) (j p : Nat) (hj : j < L.n)
    (hc : ∀ i, i < L.n → c i p = if i = j then C i j + err i else C i j)
    (hf : ∀ r, f r p = F r j) (he : ∀ r, e r p = E r j) (sill : ℝ)
    (pnt cs : Nat) (hcs : 0 < cs) (hp : p < pnt) :
    (krigeCall sched L M (assembleRHS L false c f e) (krigeCond L valn mean) sill pnt cs).1 p = valn j - mean j ∧
    (krigeCall sched L M (assembleRHS L false c f e) (krigeCond L valn mean) sill pnt cs).2 p =
      clipVar sill (C j j + err j) := by
  rw [krigeCall_field sched hs _ _ _ _ _ _ _ _ hcs hp, krigeCall_var sched hs _ _ _ _ _ _ _ _ hcs hp]
  exact C06.exact_at_data_model L C err F E c f e M hMK valn mean j p hj hc hf he sill

/-- **C07 end to end: the conditioned field honours the data.**
    Setting: any kriging variant (`L`: with/without unbiasedness row, functional and external drifts), `M` an
    inverse of the assembled kriging matrix, target `p` coinciding with conditioning point `j` (`hc`, `hf`, `he`:
    the right-hand side entries at `p` are the matrix entries of column `j` — zero measurement error, or `exact`
    mode with the nugget-aware covariance), the diagonal entry `K_jj = C j j + err j` reaches the sill
    (`hsill`: nugget-free model with zero error, `C j j = var = sill`; or exact mode, `C j j + err j = var + nugget`),
    the normaliser round-trips on the detrended datum (`hnorm`, C18).
    Then for EVERY unconditional field value `raw`, EVERY nugget noise value (i.e. every seed), every `var`,
    `nugget`, every chunk size and admissible schedule, the value `CondSRF.__call__` returns at `p`,
    `post_field(rawkrige + var_scale·rawfield + nug_scale·noise)`, is the conditioning value `val j`. -/
theorem cond_honours_data (sched : Sched) (hs : sched.Admissible)
    (L : Layout) (C : Nat → Nat → ℝ) (err : Nat → ℝ) (F E : Nat → Nat → ℝ)
    (c f e : Nat → Nat → ℝ) (M : Nat → Nat → ℝ)
    (hMK : toMat L.size M * toMat L.size (assembleK L C err F E) = 1)
    (norm denorm : ℝ → ℝ) (val trend mean : Nat → ℝ) (j p : Nat) (hj : j < L.n)
    (hc : ∀ i, i < L.n → c i p = if i = j then C i j + err i else C i j)
    (hf : ∀ r, f r p = F r j) (he : ∀ r, e r p = E r j)
    (sill : ℝ) (hsill : sill ≤ C j j + err j)
    (hnorm : denorm (norm (val j - trend j)) = val j - trend j)
    (pnt cs : Nat) (hcs : 0 < cs) (hp : p < pnt)
    (raw var nugget noise : ℝ) :
    postCell denorm (mean j) (trend j)
      (condValue
        ((krigeCall sched L M (assembleRHS L false c f e) (prepCond L norm val trend mean) sill pnt cs).1 p)
        ((krigeCall sched L M (assembleRHS L false c f e) (prepCond L norm val trend mean) sill pnt cs).2 p)
        raw var nugget noise) = val j := by
  have h2 : prepCond L norm val trend mean = krigeCond L (fun i => norm (val i - trend i)) mean := rfl
  obtain ⟨hf1, hv1⟩ := krigeCall_at_data sched hs L C err F E c f e M hMK (fun i => norm (val i - trend i)) mean
    j p hj hc hf he sill pnt cs hcs hp
  rw [h2, hf1, hv1, clipVar_of_sill_le sill _ hsill, honours_data]
  unfold postCell
  have h3 : norm (val j - trend j) - mean j + mean j = norm (val j - trend j) := by ring
  rw [h3, hnorm]; ring

/-- the raw (un-post-processed) form: the conditioned raw value is the prepared datum -/
theorem cond_honours_data_raw (sched : Sched) (hs : sched.Admissible)
    (L : Layout) (C : Nat → Nat → ℝ) (err : Nat → ℝ) (F E : Nat → Nat → ℝ)
    (c f e : Nat → Nat → ℝ) (M : Nat → Nat → ℝ)
    (hMK : toMat L.size M * toMat L.size (assembleK L C err F E) = 1)
    (valn mean : Nat → ℝ) (j p : Nat) (hj : j < L.n)
    (hc : ∀ i, i < L.n → c i p = if i = j then C i j + err i else C i j)
    (hf : ∀ r, f r p = F r j) (he : ∀ r, e r p = E r j)
    (sill : ℝ) (hsill : sill ≤ C j j + err j)
    (pnt cs : Nat) (hcs : 0 < cs) (hp : p < pnt)
    (raw var nugget noise : ℝ) :
    condValue
        ((krigeCall sched L M (assembleRHS L false c f e) (krigeCond L valn mean) sill pnt cs).1 p)
        ((krigeCall sched L M (assembleRHS L false c f e) (krigeCond L valn mean) sill pnt cs).2 p)
        raw var nugget noise = valn j - mean j := by
  obtain ⟨hf1, hv1⟩ := krigeCall_at_data sched hs L C err F E c f e M hMK valn mean
    j p hj hc hf he sill pnt cs hcs hp
  rw [hf1, hv1, clipVar_of_sill_le sill _ hsill, honours_data]

/-- **the diagonal hypothesis is necessary** — positive model nugget, the diagonal entry `K_jj` equal to
    `sill − nugget` (= `var`: measurement error 0 with the plain covariance, `Krige(cond_err=0.0, exact=False)`),
    everything else as in `cond_honours_data_raw`: the conditioned raw value is the prepared datum PLUS the
    full nugget noise of the generator. -/
theorem cond_at_data_nugget_residual (sched : Sched) (hs : sched.Admissible)
    (L : Layout) (C : Nat → Nat → ℝ) (err : Nat → ℝ) (F E : Nat → Nat → ℝ)
    (c f e : Nat → Nat → ℝ) (M : Nat → Nat → ℝ)
    (hMK : toMat L.size M * toMat L.size (assembleK L C err F E) = 1)
    (valn mean : Nat → ℝ) (j p : Nat) (hj : j < L.n)
    (hc : ∀ i, i < L.n → c i p = if i = j then C i j + err i else C i j)
    (hf : ∀ r, f r p = F r j) (he : ∀ r, e r p = E r j)
    (sill nugget : ℝ) (hn : 0 < nugget) (hdiag : C j j + err j = sill - nugget)
    (pnt cs : Nat) (hcs : 0 < cs) (hp : p < pnt)
    (raw var noise : ℝ) :
    condValue
        ((krigeCall sched L M (assembleRHS L false c f e) (krigeCond L valn mean) sill pnt cs).1 p)
        ((krigeCall sched L M (assembleRHS L false c f e) (krigeCond L valn mean) sill pnt cs).2 p)
        raw var nugget noise = valn j - mean j + noise := by
  obtain ⟨hf1, hv1⟩ := krigeCall_at_data sched hs L C err F E c f e M hMK valn mean
    j p hj hc hf he sill pnt cs hcs hp
  have hk : clipVar sill (C j j + err j) = nugget := by
    rw [hdiag]; unfold clipVar
    have : ¬ (sill - (sill - nugget) < ((0:Nat):ℝ)) := by
      simp only [Nat.cast_zero, not_lt]; linarith
    simp only [this, if_false]; ring
  rw [hf1, hv1, hk, formula_nugget _ nugget raw var nugget noise hn (le_refl _)]
  simp

/-- concrete witness (replayed on the real package: `Krige(Gaussian(var=.5, nugget=.3), …, cond_err=0.0)` in a
    `CondSRF` misses its data by the nugget noise): one conditioning point, simple kriging, `var = 1/2`,
    `nugget = 3/10`, zero measurement error, datum `1`, nugget noise `1`: the conditioned value is `2`. -/
theorem not_honours_data_zero_err_nugget :
    ∃ (L : Layout) (C : Nat → Nat → ℝ) (err : Nat → ℝ) (M : Nat → Nat → ℝ) (c : Nat → Nat → ℝ)
      (valn : Nat → ℝ) (var nugget noise : ℝ),
      toMat L.size M * toMat L.size (assembleK L C err (fun _ _ => 0) (fun _ _ => 0)) = 1 ∧
      (∀ i, i < L.n → c i 0 = if i = 0 then C i 0 + err i else C i 0) ∧ err 0 = 0 ∧ 0 < L.n ∧
      condValue
        ((krigeCall id L M (assembleRHS L false c (fun _ _ => 0) (fun _ _ => 0)) (krigeCond L valn (fun _ => 0))
            (var + nugget) 1 1).1 0)
        ((krigeCall id L M (assembleRHS L false c (fun _ _ => 0) (fun _ _ => 0)) (krigeCond L valn (fun _ => 0))
            (var + nugget) 1 1).2 0)
        0 var nugget noise ≠ valn 0 := by
  refine ⟨⟨1, false, 0, 0⟩, fun _ _ => 1/2, fun _ => 0, fun _ _ => 2, fun _ _ => 1/2, fun _ => 1, 1/2, 3/10, 1,
    ?_, ?_, rfl, by decide, ?_⟩
  · show toMat 1 _ * toMat 1 _ = 1
    ext i j
    fin_cases i; fin_cases j
    simp [toMat, assembleK, Matrix.mul_apply]
  · intro i hi
    have : i = 0 := by simp at hi; omega
    subst this; simp
  · have hMK : toMat (Layout.size ⟨1, false, 0, 0⟩) (fun _ _ => (2:ℝ)) *
        toMat (Layout.size ⟨1, false, 0, 0⟩) (assembleK ⟨1, false, 0, 0⟩ (fun _ _ => (1/2:ℝ)) (fun _ => 0)
          (fun _ _ => 0) (fun _ _ => 0)) = 1 := by
      show toMat 1 _ * toMat 1 _ = 1
      ext i j
      fin_cases i; fin_cases j
      simp [toMat, assembleK, Matrix.mul_apply]
    have := cond_at_data_nugget_residual id sched_id_admissible ⟨1, false, 0, 0⟩ (fun _ _ => (1/2:ℝ)) (fun _ => 0)
      (fun _ _ => 0) (fun _ _ => 0) (fun _ _ => (1/2:ℝ)) (fun _ _ => 0) (fun _ _ => 0) (fun _ _ => (2:ℝ)) hMK
      (fun _ => 1) (fun _ => 0) 0 0 (by decide)
      (by intro i hi; have : i = 0 := by simp at hi; omega
          subst this; simp)
      (fun _ => rfl) (fun _ => rfl) (1/2 + 3/10) (3/10) (by norm_num) (by norm_num) 1 1 (by decide) (by decide)
      0 (1/2) 1
    rw [this]; norm_num

/-! ## far from the data, simple kriging -/

/-- a zero right-hand-side column gives zero estimate and zero variance reduction, whatever the matrix -/
theorem cells_of_zero_column (M rhs : Nat → Nat → ℝ) (cond : Nat → ℝ) (s p : Nat)
    (h0 : ∀ i, i < s → rhs i p = 0) :
    krigeFieldCell M rhs cond s p ((0:Nat):ℝ) = 0 ∧ krigeErrCell M rhs s p ((0:Nat):ℝ) = 0 := by
  have hmv : ∀ i, matVec M rhs s i p = 0 := by
    intro i
    rw [matVec_eq]
    apply Finset.sum_eq_zero
    intro k _
    rw [h0 k k.2]; ring
  constructor
  · unfold krigeFieldCell
    rw [forRange_cast_zero_add_eq_sum]
    apply Finset.sum_eq_zero
    intro i _; rw [hmv i]; ring
  · unfold krigeErrCell
    rw [forRange_cast_zero_add_eq_sum]
    apply Finset.sum_eq_zero
    intro i _; rw [hmv i]; ring

/-- **C07 far field, simple kriging, end to end**: layout of simple kriging (no unbiasedness row, no drifts), all
    covariances between the conditioning points and the target `p` vanish (`hc`), `sill = var + nugget`, `var > 0`,
    `nugget ≥ 0`.  Then — for ANY stored matrix `M`, any data, any chunk size and admissible schedule — the raw
    conditioned value is the unconditional field value plus (for a positive nugget) its unscaled nugget noise, so
    the returned value is `post(raw (+ noise))`: `mean + raw (+ noise)` for the identity normaliser and no trend. -/
theorem cond_far_field_simple (sched : Sched) (hs : sched.Admissible)
    (L : Layout) (hunb : L.unb = false) (hnf : L.nf = 0) (hne : L.ne = 0)
    (c f e : Nat → Nat → ℝ) (M : Nat → Nat → ℝ) (cond : Nat → ℝ) (p : Nat)
    (hc : ∀ i, i < L.n → c i p = 0)
    (var nugget : ℝ) (hv : 0 < var) (hn : 0 ≤ nugget)
    (pnt cs : Nat) (hcs : 0 < cs) (hp : p < pnt) (raw noise : ℝ) :
    condValue
        ((krigeCall sched L M (assembleRHS L false c f e) cond (var + nugget) pnt cs).1 p)
        ((krigeCall sched L M (assembleRHS L false c f e) cond (var + nugget) pnt cs).2 p)
        raw var nugget noise = raw + (if 0 < nugget then noise else 0) := by
  rw [krigeCall_field sched hs _ _ _ _ _ _ _ _ hcs hp, krigeCall_var sched hs _ _ _ _ _ _ _ _ hcs hp]
  have hsz : L.size = L.n := by unfold Layout.size Layout.u; simp [hunb, hnf, hne]
  have h0 : ∀ i, i < L.size → assembleRHS L false c f e i p = 0 := by
    intro i hi
    have hi' : i < L.n := by omega
    unfold assembleRHS
    simp [hi', hc i hi']
  obtain ⟨h1, h2⟩ := cells_of_zero_column M (assembleRHS L false c f e) cond L.size p h0
  rw [h1, h2]
  have hk : clipVar (var + nugget) 0 = var + nugget := by
    unfold clipVar
    have : ¬ (var + nugget - 0 < ((0:Nat):ℝ)) := by
      simp only [Nat.cast_zero, not_lt]; linarith
    simp only [this, if_false]; ring
  rw [hk]
  exact far_field_simple raw var nugget noise hv hn

/-- the same after `post_field`: identity normaliser and zero trend give `mean + raw (+ noise)` -/
theorem cond_far_field_simple_post (sched : Sched) (hs : sched.Admissible)
    (L : Layout) (hunb : L.unb = false) (hnf : L.nf = 0) (hne : L.ne = 0)
    (c f e : Nat → Nat → ℝ) (M : Nat → Nat → ℝ) (cond : Nat → ℝ) (p : Nat)
    (hc : ∀ i, i < L.n → c i p = 0)
    (var nugget : ℝ) (hv : 0 < var) (hn : 0 ≤ nugget)
    (pnt cs : Nat) (hcs : 0 < cs) (hp : p < pnt) (raw noise meanT : ℝ) :
    postCell id meanT 0
      (condValue
        ((krigeCall sched L M (assembleRHS L false c f e) cond (var + nugget) pnt cs).1 p)
        ((krigeCall sched L M (assembleRHS L false c f e) cond (var + nugget) pnt cs).2 p)
        raw var nugget noise) = meanT + raw + (if 0 < nugget then noise else 0) := by
  rw [cond_far_field_simple sched hs L hunb hnf hne c f e M cond p hc var nugget hv hn pnt cs hcs hp]
  unfold postCell; simp; ring

/-! ## the hypotheses are satisfiable by non-trivial objects -/

/-- ordinary kriging with two data (3×3 system with unbiasedness row), covariances `C = [[1, 1/2], [1/2, 1]]`,
    zero measurement error, an explicit inverse `M`; target = conditioning point 1; sill = 1 = `C 1 1`.
    Instance of `cond_honours_data`: whatever `raw`/`noise`, the conditioned value is `val 1 = 7`. -/
example (raw noise : ℝ) :
    let L : Layout := ⟨2, true, 0, 0⟩
    let C : Nat → Nat → ℝ := fun i j => if i = j then 1 else 1/2
    let M : Nat → Nat → ℝ := fun i j =>
      if i < 2 ∧ j < 2 then (if i = j then 1 else -1) else if i = 2 ∧ j = 2 then -3/4 else 1/2
    postCell id 0 0
      (condValue
        ((krigeCall id L M (assembleRHS L false (fun i _ => C i 1) (fun _ _ => 0) (fun _ _ => 0))
            (prepCond L id (fun i => if i = 1 then 7 else 3) (fun _ => 0) (fun _ => 0)) 1 1 1).1 0)
        ((krigeCall id L M (assembleRHS L false (fun i _ => C i 1) (fun _ _ => 0) (fun _ _ => 0))
            (prepCond L id (fun i => if i = 1 then 7 else 3) (fun _ => 0) (fun _ => 0)) 1 1 1).2 0)
        raw 1 0 noise) = 7 := by
  intro L C M
  have hMK : toMat L.size M * toMat L.size (assembleK L C (fun _ => 0) (fun _ _ => 0) (fun _ _ => 0)) = 1 := by
    show toMat 3 _ * toMat 3 _ = 1
    ext i j
    fin_cases i <;> fin_cases j <;>
      simp [L, C, M, toMat, assembleK, border, Matrix.mul_apply, Layout.size, Layout.u, Layout.fStart, Layout.eStart,
        Fin.sum_univ_three] <;> norm_num
  have := cond_honours_data id sched_id_admissible L C (fun _ => 0) (fun _ _ => 0) (fun _ _ => 0)
    (fun i _ => C i 1) (fun _ _ => 0) (fun _ _ => 0) M hMK id id (fun i => if i = 1 then 7 else 3) (fun _ => 0)
    (fun _ => 0) 1 0 (by decide)
    (by intro i _; by_cases h : i = 1 <;> simp [h])
    (fun _ => rfl) (fun _ => rfl) 1 (by simp [C]) (by simp) 1 1 (by decide) (by decide) raw 1 0 noise
  simpa using this

/-- far field: a simple-kriging layout with two data and a target whose covariances to both vanish -/
example (raw noise : ℝ) (M : Nat → Nat → ℝ) (cond : Nat → ℝ) :
    condValue
        ((krigeCall id ⟨2, false, 0, 0⟩ M (assembleRHS ⟨2, false, 0, 0⟩ false (fun _ _ => 0) (fun _ _ => 0) (fun _ _ => 0))
            cond ((2:ℝ) + 1/4) 1 1).1 0)
        ((krigeCall id ⟨2, false, 0, 0⟩ M (assembleRHS ⟨2, false, 0, 0⟩ false (fun _ _ => 0) (fun _ _ => 0) (fun _ _ => 0))
            cond ((2:ℝ) + 1/4) 1 1).2 0)
        raw 2 (1/4) noise = raw + noise := by
  have := cond_far_field_simple id sched_id_admissible ⟨2, false, 0, 0⟩ rfl rfl rfl (fun _ _ => 0) (fun _ _ => 0)
    (fun _ _ => 0) M cond 0 (fun _ _ => rfl) 2 (1/4) (by norm_num) (by norm_num) 1 1 (by decide) (by decide) raw noise
  rw [this]; norm_num

end GSV.Props.C07
