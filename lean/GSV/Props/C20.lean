/-
  C20 — Operations never modify caller arrays or previously stored results.

  Statements are about the heap model of GSV/Model/Heap.lean (buffers, views, in-place writes, the
  data flow of every public entry point that reaches an in-place operator).  They are law-free, so
  they hold verbatim for the definitions the driver executes.

  * `safe_sound`               — generic: ANY straight-line program accepted by the ownership analysis, run on ANY heap,
                                  leaves every pre-existing buffer unwritten and unchanged.
  * `structured_safe_sound(_params)` — the same for programs with branches and loops (every execution); this is the
                                  form the static scan applies to the data flow it extracts from the python source.
  * `all_entry_points_safe`    — the analysis accepts every modelled entry point in every configuration.
  * `no_caller_write`, `caller_object_unchanged`, `reachable_unchanged`, `outputs_well_formed`
                               — hence: for every entry point, configuration and heap (arbitrary caller arrays with
                                  arbitrary mutual aliasing, arbitrary stored fields) nothing that existed / was reachable
                                  before the call is written; what comes out references existing buffers only.
  * `store_new_name_keeps_old`, `restore_keeps_old_array`, `new_name_does_not_touch_field`,
    `transform_new_name_keeps_field` — storing under a name never rebinds or changes what other names hold.
  * `history_no_write`, `earlier_results_survive` — the same along arbitrary sequences of calls with re-bound arguments.
  * `fieldCall_aliases_without_writing` — non-vacuity: outputs really alias inputs in the model, and in-place
                                  arithmetic really happens (in owned memory).
  * `*_old_*`                  — the data flow the code had before the repairs (D2 84a0bfc, D3 da1c68c, axis mask 7b774f4,
                                  anis 9340584) is rejected by the analysis AND really writes a caller buffer (witnesses);
                                  `fieldCall_old_harmless_without_alias`: it was harmless exactly when aliasing was impossible.
-/
import GSV.Lemmas.Heap
namespace GSV.Props.C20
open GSV.Model.Heap

/-! ### the generic theorem -/

/-- **Soundness.**  For every program `p` the analysis accepts and every heap `σ`: each buffer id that
    existed before the run (`b < σ.next`) keeps its contents, and no such id is added to the write log. -/
theorem safe_sound (p : List Op) (hp : safe p = true) (σ : St) :
    (∀ b, b < σ.next → (run σ p).ver b = σ.ver b) ∧
    (∀ b, b ∈ (run σ p).written → b ∈ σ.written ∨ σ.next ≤ b) ∧ σ.next ≤ (run σ p).next :=
  have h := safe_frame hp σ
  ⟨h.ver, h.written, h.next_le⟩

/-- "a fresh buffer id is not in the caller set": whatever the heap, the id handed out by an allocation
    is different from every id that existed -/
theorem fresh_not_preexisting (σ : St) (x : Var) (m : Bool) (b : BufId)
    (hb : b ∈ (get (σ.alloc x m).env x).all) : σ.next ≤ b := by
  cases m
  · have : b = σ.next := by simpa [St.alloc] using hb
    exact Nat.le_of_eq this.symm
  · have : b = σ.next ∨ b = σ.next + 1 := by simpa [St.alloc] using hb
    rcases this with h | h <;> rw [h]
    · exact Nat.le_refl _
    · exact Nat.le_succ _

-- the hypothesis of `safe_sound` is satisfiable by a program that does write (into its own copy)
example : safe [.asarray V.f V.field, .copy V.f V.f, .setItem V.f, .ret V.f] = true := by decide
-- and is not satisfied by the same program without the copy
example : safe [.asarray V.f V.field, .setItem V.f, .ret V.f] = false := by decide

/-! ### structured programs (what the static scan extracts from the python source) -/

/-- **Soundness with branches and loops.**  If the ownership analysis accepts a structured program starting
    from no owned variable, then EVERY execution (any choice of branches, any number of loop iterations)
    from ANY heap leaves every pre-existing buffer unwritten and unchanged. -/
theorem structured_safe_sound (b : List Stmt) (hb : safeB [] b = true) (σ σ' : St) (he : ExecL b σ σ') :
    (∀ i, i < σ.next → σ'.ver i = σ.ver i) ∧ (∀ i, i ∈ σ'.written → i ∈ σ.written ∨ σ.next ≤ i) :=
  have h := safeB_sound hb (owned_nil σ) he
  ⟨h.ver, h.written⟩

/-- the conditional form used for internal helpers that write into a parameter (`Krige._summate`): accepted
    when the listed parameters are owned ⇒ harmless whenever the caller passes arrays it allocated itself -/
theorem structured_safe_sound_params (A0 : List Var) (b : List Stmt) (hb : safeB A0 b = true) (n0 : Nat) (σ σ' : St)
    (hn : n0 ≤ σ.next) (hA : ∀ x, x ∈ A0 → ∀ i, i ∈ (get σ.env x).all → n0 ≤ i) (he : ExecL b σ σ') :
    ∀ i, i < n0 → σ'.ver i = σ.ver i :=
  (safeB_sound hb ⟨hn, hA⟩ he).ver

-- a loop that keeps writing into its own accumulator is accepted; the same loop on an argument is not
example : safeB [] [.op (.fresh V.res), .loop [.op (.view V.tmp V.res true), .op (.setItem V.tmp)],
    .ite [.op (.ret V.res)] [.op (.asarray V.f V.field)]] = true := by decide
example : safeB [] [.op (.asarray V.res V.field), .loop [.op (.view V.tmp V.res true), .op (.setItem V.tmp)]] = false := by
  decide
-- a variable that is owned on one branch only is not owned after the join
example : safeB [] [.ite [.op (.fresh V.f)] [.op (.asarray V.f V.field)], .op (.setItem V.f)] = false := by decide
-- …and such a program really has an execution that writes the caller's buffer
example : ∃ σ σ' : St, ExecL [.ite [.op (.fresh V.f)] [.op (.asarray V.f V.field)], .op (.setItem V.f)] σ σ' ∧
    σ'.ver 0 ≠ σ.ver 0 ∧ 0 < σ.next :=
  ⟨{ next := 1, env := [(V.field, Obj.arr 0)], attrs := [], rets := [], written := [], ver := fun _ => 0 }, _,
   .cons (.iteR (.cons (.op _ _) .nil)) (.cons (.op _ _) .nil), by decide, by decide⟩

/-! ### every modelled entry point, every configuration -/

theorem safe_applyMNT : ∀ a b, safe (pApplyMNT a b) = true := by decide
theorem safe_removeTNM : ∀ a b, safe (pRemoveTNM a b) = true := by decide
theorem safe_normCall : safe pNormCall = true := by decide
theorem safe_normFit : safe pNormFit = true := by decide
theorem safe_fieldCall : ∀ a b c d, safe (pFieldCall a b c d) = true := by decide
theorem safe_srfCall : ∀ a b c d, safe (pSrfCall a b c d) = true := by decide
theorem safe_krigeCall : ∀ a b c d e, safe (pKrigeCall a b c d e) = true := by decide
theorem safe_condSrf : ∀ a b c d e, safe (pCondSrf a b c d e) = true := by decide
theorem safe_krigeSetCond : ∀ a b c d, safe (pKrigeSetCond a b c d) = true := by decide
theorem safe_varioEstimate : ∀ a b c d e f g h i, safe (pVarioEstimate a b c d e f g h i) = true := by decide
theorem safe_varioAxis : ∀ a b, safe (pVarioAxis a b) = true := by decide
theorem safe_standardBins : ∀ a b, safe (pStandardBins a b) = true := by decide
theorem safe_fitVariogram : ∀ a b c, safe (pFitVariogram a b c) = true := by decide
theorem safe_transform : ∀ a b c d, safe (pTransform a b c d) = true := by decide
theorem safe_pureFn : safe pPureFn = true := by decide
theorem safe_covModelInit : ∀ a b, safe (pCovModelInit a b) = true := by decide

/-- the ownership analysis accepts every modelled entry point under every aliasing-enabling configuration -/
theorem all_entry_points_safe (ep : EP) (c : Cfg) : safe (prog ep c) = true := by
  cases ep
  · exact safe_applyMNT ..
  · exact safe_removeTNM ..
  · exact safe_normCall
  · exact safe_normFit
  · exact safe_fieldCall ..
  · exact safe_srfCall ..
  · exact safe_condSrf ..
  · exact safe_krigeCall ..
  · exact safe_krigeSetCond ..
  · exact safe_varioEstimate ..
  · exact safe_varioAxis ..
  · exact safe_standardBins ..
  · exact safe_fitVariogram ..
  · exact safe_transform ..
  · exact safe_pureFn
  · exact safe_covModelInit ..

/-- **C20, first half.**  For every entry point, every configuration and every heap — whatever arrays
    the caller passes (any dtype/layout flags, any aliasing between the arguments) and whatever is stored
    in attributes — no buffer that existed before the call is written or changed by the call. -/
theorem no_caller_write (ep : EP) (c : Cfg) (σ : St) :
    (∀ b, b < σ.next → (run σ (prog ep c)).ver b = σ.ver b) ∧
    (∀ b, b ∈ (run σ (prog ep c)).written → b ∈ σ.written ∨ σ.next ≤ b) :=
  have h := safe_sound _ (all_entry_points_safe ep c) σ
  ⟨h.1, h.2.1⟩

/-- the same in terms of objects: an argument (or any other variable) the caller holds, all of whose
    buffers exist, has the same contents after the call, data and mask alike -/
theorem caller_object_unchanged (ep : EP) (c : Cfg) (σ : St) (x : Var)
    (hwf : ∀ b, b ∈ (get σ.env x).all → b < σ.next) :
    ∀ b, b ∈ (get σ.env x).all → (run σ (prog ep c)).ver b = σ.ver b :=
  fun b hb => (no_caller_write ep c σ).1 b (hwf b hb)

-- non-trivial instance: `field` and `pos` are the SAME float64 buffer, a stored field shares it too
example : let σ : St := { next := 3, env := [(V.field, Obj.arr 0), (V.pos, Obj.arr 0), (V.bins, Obj.arr 1)],
                          attrs := [(N.field, Obj.arr 0), (N.rawField, Obj.marr 1 2)], rets := [], written := [],
                          ver := fun _ => 0 }
    ((run σ (prog .fieldCall { fieldGiven := true, process := true, save := true })).written.filter (· < 3) = [])
    ∧ (run σ (prog .fieldCall { fieldGiven := true, process := true, save := true })).written ≠ [] := by
  decide

/-- what comes out of a call references only buffers that exist: the returned arrays, the stored fields and
    the variables are well formed again (so "every id below `next`" really is "everything reachable") -/
theorem outputs_well_formed (ep : EP) (c : Cfg) (σ : St) (h : WF σ) : WF (run σ (prog ep c)) := run_wf _ h

/-- **C20 by reachability.**  In a well-formed heap every array the caller can reach — through an argument,
    through an attribute (stored field, condition, …) or through an earlier return value — has the same
    contents after the call. -/
theorem reachable_unchanged (ep : EP) (c : Cfg) (σ : St) (h : WF σ) :
    (∀ x b, b ∈ (get σ.env x).all → (run σ (prog ep c)).ver b = σ.ver b) ∧
    (∀ n b, b ∈ (get σ.attrs n).all → (run σ (prog ep c)).ver b = σ.ver b) ∧
    (∀ o, o ∈ σ.rets → ∀ b, b ∈ o.all → (run σ (prog ep c)).ver b = σ.ver b) :=
  have hw := (no_caller_write ep c σ).1
  ⟨fun x b hb => hw b (h.env x b hb), fun n b hb => hw b (h.attrs n b hb), fun o ho b hb => hw b (h.rets o ho b hb)⟩

/-- the statement is not vacuous: aliasing is real in the model.  `Field.__call__(pos, field=a, post_process=False)`
    hands the caller's own buffer back and stores it — and with `post_process=True` (mean, normalizer, trend)
    it does in-place arithmetic, in its own copy -/
theorem fieldCall_aliases_without_writing :
    ∃ σ : St, WF σ ∧ (get σ.env V.field).bufs = [0] ∧
      (let σ' := run σ (prog .fieldCall { fieldGiven := true, save := true })
       σ'.rets.map (·.bufs) = [[0]] ∧ (get σ'.attrs N.field).bufs = [0] ∧ σ'.written = []) ∧
      (let σ' := run σ (prog .fieldCall { fieldGiven := true, save := true, process := true })
       σ'.written ≠ [] ∧ (∀ b, b ∈ σ'.written → 2 ≤ b) ∧ σ'.rets.map (·.bufs) ≠ [[0]]) := by
  refine ⟨{ next := 2, env := [(V.field, Obj.arr 0), (V.pos, Obj.arr 1)], attrs := [], rets := [], written := [],
            ver := fun _ => 0 }, ⟨?_, ?_, ?_⟩, rfl, by decide, by decide⟩
  · intro x b hb
    simp only [get_cons, get_nil] at hb
    split at hb
    · simp at hb; subst hb; decide
    · split at hb
      · simp at hb; subst hb; decide
      · simp at hb
  · intro n b hb; simp at hb
  · intro o ho; cases ho

/-! ### stored results -/

/-- **C20, second half.**  Running an entry point rebinds only the attribute names it stores under: any
    other name still refers to the same object, and that object's buffers have the same contents. -/
theorem store_new_name_keeps_old (ep : EP) (c : Cfg) (σ : St) (n : Name)
    (hn : n ∉ storesOf (prog ep c)) (hwf : ∀ b, b ∈ (get σ.attrs n).all → b < σ.next) :
    get (run σ (prog ep c)).attrs n = get σ.attrs n ∧
    ∀ b, b ∈ (get σ.attrs n).all → (run σ (prog ep c)).ver b = σ.ver b :=
  ⟨run_attrs_other _ σ n hn, fun b hb => (no_caller_write ep c σ).1 b (hwf b hb)⟩

/-- even a name that IS re-stored ("in place", `store=True`) only gets re-bound: the array that was
    stored there before (and that the caller may still hold) keeps its contents -/
theorem restore_keeps_old_array (ep : EP) (c : Cfg) (σ : St) (n : Name)
    (hwf : ∀ b, b ∈ (get σ.attrs n).all → b < σ.next) :
    ∀ b, b ∈ (get σ.attrs n).all → (run σ (prog ep c)).ver b = σ.ver b :=
  fun b hb => (no_caller_write ep c σ).1 b (hwf b hb)

/-- `fld.transform(..., store="new")`, `fld(pos, field=…, store="new")`, `srf(pos, store="new")` do not
    store under "field", in any configuration -/
theorem new_name_does_not_touch_field (c : Cfg) (h : c.storeNew = true) :
    N.field ∉ storesOf (prog .transform c) ∧ N.field ∉ storesOf (prog .fieldCall c) ∧
    N.field ∉ storesOf (prog .srfCall c) := by
  have h1 : ∀ a b d, N.field ∉ storesOf (pTransform a b true d) := by decide
  have h2 : ∀ a b d, N.field ∉ storesOf (pFieldCall a true b d) := by decide
  have h3 : ∀ a b d, N.field ∉ storesOf (pSrfCall a true b d) := by decide
  refine ⟨?_, ?_, ?_⟩
  · show N.field ∉ storesOf (pTransform c.process c.fnIdentity c.storeNew c.save)
    rw [h]; exact h1 _ _ _
  · show N.field ∉ storesOf (pFieldCall c.fieldGiven c.storeNew c.process c.save)
    rw [h]; exact h2 _ _ _
  · show N.field ∉ storesOf (pSrfCall c.upscale c.storeNew c.process c.save)
    rw [h]; exact h3 _ _ _

/-- so the field stored under "field" survives a transform stored under a new name: same object, same contents -/
theorem transform_new_name_keeps_field (c : Cfg) (h : c.storeNew = true) (σ : St)
    (hwf : ∀ b, b ∈ (get σ.attrs N.field).all → b < σ.next) :
    get (run σ (prog .transform c)).attrs N.field = get σ.attrs N.field ∧
    ∀ b, b ∈ (get σ.attrs N.field).all → (run σ (prog .transform c)).ver b = σ.ver b :=
  store_new_name_keeps_old .transform c σ N.field (new_name_does_not_touch_field c h).1 hwf

-- the hypotheses are met by a heap holding a stored field; and the new name really is created
example : let σ : St := { next := 1, env := [], attrs := [(N.field, Obj.arr 0)], rets := [], written := [],
                          ver := fun _ => 7 }
    let σ' := run σ (prog .transform { storeNew := true, save := true, process := true })
    get σ'.attrs N.field = Obj.arr 0 ∧ (get σ'.attrs N.new).bufs ≠ [0] ∧ (get σ'.attrs N.new).bufs ≠ [] := by
  decide

/-! ### histories -/

/-- **Sequences of calls.**  Any sequence of modelled entry points in any configurations, the caller
    re-binding the arguments to anything before each call: every buffer that existed at the start
    (caller arrays, earlier results) has the same contents at the end. -/
theorem history_no_write (args : St → List (Var × Obj)) (calls : List (EP × Cfg)) (σ : St) :
    (∀ b, b < σ.next → (runCalls args σ (calls.map fun ec => prog ec.1 ec.2)).ver b = σ.ver b) ∧
    (∀ b, b ∈ (runCalls args σ (calls.map fun ec => prog ec.1 ec.2)).written → b ∈ σ.written ∨ σ.next ≤ b) := by
  have h := runCalls_frame args (calls.map fun ec => prog ec.1 ec.2) σ (by
    intro p hp
    obtain ⟨ec, _, rfl⟩ := List.mem_map.mp hp
    exact all_entry_points_safe ec.1 ec.2)
  exact ⟨h.ver, h.written⟩

theorem runCalls_append (args : St → List (Var × Obj)) (ps qs : List (List Op)) :
    ∀ σ, runCalls args σ (ps ++ qs) = runCalls args (runCalls args σ ps) qs := by
  induction ps with
  | nil => intro σ; rfl
  | cons p t ih => intro σ; exact ih _

/-- results produced (returned or stored) by an earlier part of a history are not altered by the rest -/
theorem earlier_results_survive (args : St → List (Var × Obj)) (before after : List (EP × Cfg)) (σ : St) :
    let σ₁ := runCalls args σ (before.map fun ec => prog ec.1 ec.2)
    ∀ b, b < σ₁.next →
      (runCalls args σ ((before ++ after).map fun ec => prog ec.1 ec.2)).ver b = σ₁.ver b := by
  intro σ₁ b hb
  rw [List.map_append, runCalls_append]
  exact (history_no_write args after σ₁).1 b hb

/-! ### regression witnesses: the data flow before the repairs -/

/-- D3 (before da1c68c): `Field.__call__(pos, field=a)` with a mean wrote into `a` -/
theorem fieldCall_old_writes_caller :
    safe (progOld .fieldCall { fieldGiven := true, process := true }) = false ∧
    ∃ σ : St, ∃ b, b < σ.next ∧ b ∈ (get σ.env V.field).all ∧
      (run σ (progOld .fieldCall { fieldGiven := true, process := true })).ver b ≠ σ.ver b :=
  ⟨by decide, ⟨{ next := 1, env := [(V.field, Obj.arr 0)], attrs := [], rets := [], written := [], ver := fun _ => 0 },
    0, by decide, by decide, by decide⟩⟩

/-- D3: `fld.transform(m, store="new", process=True)` rewrote the stored `field` -/
theorem transform_old_writes_stored_field :
    safe (progOld .transform { process := true, storeNew := true, save := true }) = false ∧
    ∃ σ : St, ∃ b, b < σ.next ∧ b ∈ (get σ.attrs N.field).all ∧
      (run σ (progOld .transform { process := true, storeNew := true, save := true })).ver b ≠ σ.ver b :=
  ⟨by decide, ⟨{ next := 1, env := [], attrs := [(N.field, Obj.arr 0)], rets := [], written := [], ver := fun _ => 0 },
    0, by decide, by decide, by decide⟩⟩

/-- D2 (before 84a0bfc): `vario_estimate(bin_edges=<float64>, latlon=True)` divided the caller's bin edges -/
theorem varioEstimate_old_writes_bins :
    safe (progOld .varioEstimate { binsGiven := true, latlon := true }) = false ∧
    ∃ σ : St, ∃ b, b < σ.next ∧ b ∈ (get σ.env V.bins).all ∧
      (run σ (progOld .varioEstimate { binsGiven := true, latlon := true })).ver b ≠ σ.ver b :=
  ⟨by decide, ⟨{ next := 3, env := [(V.bins, Obj.arr 0), (V.field, Obj.arr 1), (V.pos, Obj.arr 2)], attrs := [],
                 rets := [], written := [], ver := fun _ => 0 },
    0, by decide, by decide, by decide⟩⟩

/-- before 7b774f4: `vario_estimate_axis(<float64 MaskedArray with NaN / no_data hits>)` extended the caller's mask -/
theorem varioAxis_old_writes_mask :
    safe (progOld .varioAxis { masked := true, missing := true }) = false ∧
    ∃ σ : St, ∃ b, b < σ.next ∧ b ∈ (get σ.env V.field).mask ∧
      (run σ (progOld .varioAxis { masked := true, missing := true })).ver b ≠ σ.ver b :=
  ⟨by decide, ⟨{ next := 2, env := [(V.field, Obj.marr 0 1)], attrs := [], rets := [], written := [], ver := fun _ => 0 },
    1, by decide, by decide, by decide⟩⟩

/-- before 9340584: `gs.Gaussian(latlon=True, temporal=True, anis=<float64 array, long enough>)` (and the `anis`
    setter) set the first two entries of the caller's `anis` array to 1 -/
theorem covModelInit_old_writes_anis :
    safe (progOld .covModelInit { latlon := true }) = false ∧
    ∃ σ : St, ∃ b, b < σ.next ∧ b ∈ (get σ.env V.anis).all ∧
      (run σ (progOld .covModelInit { latlon := true })).ver b ≠ σ.ver b :=
  ⟨by decide, ⟨{ next := 1, env := [(V.anis, Obj.arr 0)], attrs := [], rets := [], written := [], ver := fun _ => 0 },
    0, by decide, by decide, by decide⟩⟩

/-- …and the old code was harmless exactly where aliasing was impossible: an int / float32 / list input
    (not `f64`) is converted to a new array first -/
theorem fieldCall_old_harmless_without_alias (σ : St) (h : (get σ.env V.field).f64 = false) (b : Nat)
    (hb : b < σ.next) :
    (run σ (progOld .fieldCall { fieldGiven := true, process := true })).ver b = σ.ver b := by
  -- split the program right after the conversion `np.asarray(field, dtype=double)`, which allocates here
  have hsplit : progOld .fieldCall { fieldGiven := true, process := true }
      = (setPos ++ [.asarray V.f V.field])
        ++ ([.reshape V.f V.f] ++ postField_old V.f N.field true false ++ [.ret V.f]) := by decide
  have hf1 : Frame σ.next σ (run σ setPos) := safe_frame (by decide) σ
  have hfield : get (run σ setPos).env V.field = get σ.env V.field :=
    run_env_other setPos σ V.field (by decide)
  have hσ2 : run σ (setPos ++ [.asarray V.f V.field]) = (run σ setPos).alloc V.f := by
    rw [run_append]
    show (if (get (run σ setPos).env V.field).f64 = true then _ else _) = _
    rw [hfield, h]; rfl
  rw [hsplit, run_append, hσ2]
  have hown : Owned σ.next [V.f] ((run σ setPos).alloc V.f) :=
    owned_alloc ⟨hf1.next_le, fun _ hx => by cases hx⟩ V.f false
  have hf2 := run_sound (n0 := σ.next)
    ([.reshape V.f V.f] ++ postField_old V.f N.field true false ++ [.ret V.f]) hown (by decide)
  have hf3 := frame_alloc σ.next (run σ setPos) V.f false
  exact ((hf2.ver b hb).trans (hf3.ver b hb)).trans (hf1.ver b hb)

end GSV.Props.C20
