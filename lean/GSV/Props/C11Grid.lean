/-
  C11 (continued) — mesh-type independence of the field kernels: the structured call evaluates the kernel on
  `generate_grid(axes)` (`Model.Grid.genGrid`, meshgrid `ij`, C order) and reshapes (C order); entry `is` of the
  reshaped field is the kernel's value at the grid point with axis coordinates `is`, hence equals the
  unstructured call on ANY point list at any position holding that point.  Law-free (bit-exact for doubles):
  `summate_local` / `summate_fourier_local` / `summate_incompr_local` composed with the mixed-radix round trip
  `Grid.decode_encode` (`Grid.genGrid_get`).
-/
import GSV.Props.C11
import GSV.Props.Grid
namespace GSV.Props.C11
open GSV GSV.Transc GSV.Summator GSV.Props GSV.Model.Grid

set_option linter.unusedSectionVars false

section grid
variable {α : Type} [Arith α] [Transc α] [DecidableLT α] [DecidableLE α] [Inhabited α]

/-- the `(dim, N)` position array of a structured call: row `d`, column `q` of `generate_grid(axes)` -/
def gridPos (axes : List (List α)) : Nat → Nat → α :=
  fun d q => ((genGrid axes).getD q default).getD d default

/-- column `encode dims is` of the expanded grid is the grid point with multi-index `is` -/
theorem gridPos_encode (axes : List (List α)) (is : List Nat) (h : Valid (axes.map List.length) is) (d : Nat) :
    gridPos axes d (encode (axes.map List.length) is) = (pointAt axes is).getD d default := by
  have hq : encode (axes.map List.length) is < (genGrid axes).length := by
    rw [Grid.genGrid_length]; exact Grid.encode_lt h
  unfold gridPos
  have hg : (genGrid axes).getD (encode (axes.map List.length) is) default = pointAt axes is := by
    rw [List.getD_eq_getElem?_getD, List.getElem?_eq_getElem hq, Option.getD_some,
      Grid.genGrid_get axes _ (Grid.encode_lt h), Grid.decode_encode h]
  rw [hg]

/-- **randomization method, structured = unstructured**: entry `is` of the reshaped structured field equals the
    unstructured evaluation on any point list `pos'` at any position `i'` holding the grid point `pointAt axes is`
    — every dimension, every axis length, any two admissible schedules -/
theorem summate_structured_eq_unstructured (s s' : Sched) (hs : s.Admissible) (hs' : s'.Admissible)
    (cov : Nat → Nat → α) (c0 c1 : Nat) (z1 : Nat → α) (n1 : Nat) (z2 : Nat → α) (n2 : Nat)
    (axes : List (List α)) (is : List Nat) (h : Valid (axes.map List.length) is)
    (pos' : Nat → Nat → α) (dim X' i' : Nat) (hi' : i' < X')
    (hpt : ∀ d, d < dim → pos' d i' = (pointAt axes is).getD d default) :
    summate s cov c0 c1 z1 n1 z2 n2 (gridPos axes) dim (genGrid axes).length (encode (axes.map List.length) is) =
      summate s' cov c0 c1 z1 n1 z2 n2 pos' dim X' i' := by
  have hq : encode (axes.map List.length) is < (genGrid axes).length := by
    rw [Grid.genGrid_length]; exact Grid.encode_lt h
  exact summate_local s s' hs hs' cov c0 c1 z1 n1 z2 n2 _ pos' dim _ X' _ i' hq hi'
    (fun d hd => by rw [gridPos_encode axes is h d, hpt d hd])

/-- **Fourier method, structured = unstructured** -/
theorem summate_fourier_structured_eq_unstructured (s s' : Sched) (hs : s.Admissible) (hs' : s'.Admissible)
    (sf : Nat → α) (f0 : Nat) (modes : Nat → Nat → α) (c0 c1 : Nat) (z1 : Nat → α) (n1 : Nat) (z2 : Nat → α) (n2 : Nat)
    (axes : List (List α)) (is : List Nat) (h : Valid (axes.map List.length) is)
    (pos' : Nat → Nat → α) (dim X' i' : Nat) (hi' : i' < X')
    (hpt : ∀ d, d < dim → pos' d i' = (pointAt axes is).getD d default) :
    summate_fourier s sf f0 modes c0 c1 z1 n1 z2 n2 (gridPos axes) dim (genGrid axes).length
        (encode (axes.map List.length) is) =
      summate_fourier s' sf f0 modes c0 c1 z1 n1 z2 n2 pos' dim X' i' := by
  have hq : encode (axes.map List.length) is < (genGrid axes).length := by
    rw [Grid.genGrid_length]; exact Grid.encode_lt h
  exact summate_fourier_local s s' hs hs' sf f0 modes c0 c1 z1 n1 z2 n2 _ pos' dim _ X' _ i' hq hi'
    (fun d hd => by rw [gridPos_encode axes is h d, hpt d hd])

/-- **incompressible vector fields, structured = unstructured** (every component `e`) -/
theorem summate_incompr_structured_eq_unstructured
    (cov : Nat → Nat → α) (c0 c1 : Nat) (z1 : Nat → α) (n1 : Nat) (z2 : Nat → α) (n2 : Nat)
    (axes : List (List α)) (is : List Nat) (h : Valid (axes.map List.length) is)
    (pos' : Nat → Nat → α) (dim X' e i' : Nat) (hi' : i' < X')
    (hpt : ∀ d, d < dim → pos' d i' = (pointAt axes is).getD d default) :
    summate_incompr cov c0 c1 z1 n1 z2 n2 (gridPos axes) dim (genGrid axes).length e
        (encode (axes.map List.length) is) =
      summate_incompr cov c0 c1 z1 n1 z2 n2 pos' dim X' e i' := by
  have hq : encode (axes.map List.length) is < (genGrid axes).length := by
    rw [Grid.genGrid_length]; exact Grid.encode_lt h
  exact summate_incompr_local cov c0 c1 z1 n1 z2 n2 _ pos' dim _ X' e _ i' hq hi'
    (fun d hd => by rw [gridPos_encode axes is h d, hpt d hd])

end grid

/-- non-vacuity: on the 2 × 3 grid with axes (10, 20) × (1, 2, 3) the multi-index (1, 2) is valid, sits at flat
    position 5, and the expanded position array carries the grid point (20, 3) there -/
example : Valid ([[10, 20], [1, 2, 3]].map List.length) [1, 2] ∧
    encode ([[10, 20], [1, 2, 3]].map List.length) [1, 2] = 5 ∧
    gridPos [[10, 20], [1, 2, 3]] 0 5 = 20 ∧ gridPos [[10, 20], [1, 2, 3]] 1 5 = 3 := by
  refine ⟨by simp [Valid], by simp [encode], by decide, by decide⟩

end GSV.Props.C11
