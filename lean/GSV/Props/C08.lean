/-
  C08 — empirical variogram estimates equal their mathematical definition.

  The kernel specifications of `KernelVario` (regenerated source = loop nest per cell, any schedule)
  are turned into the *definition by enumeration*: the list of qualifying (pair, field) triples in
  lexicographic order, its length (pair counts) and the fold of the estimator terms over it.
  These statements are law-free (hold for IEEE doubles); on `ℝ` the fold is the usual sum.
-/
import GSV.Props.KernelVario
import GSV.RealInst
import Mathlib.Algebra.BigOperators.Group.List.Basic
import Mathlib.Tactic.Ring
namespace GSV.Props.C08
open GSV GSV.Transc GSV.Estimator GSV.Props

set_option linter.unusedSectionVars false
variable {α : Type} [Arith α] [Transc α] [DecidableLT α] [DecidableLE α]

/-- all index pairs `j < k < np`, in the kernel's (lexicographic) order -/
def pairs (np : Nat) : List (Nat × Nat) :=
  (idxRange 0 (np - 1)).flatMap fun j => (idxRange (j + 1) np).map fun k => (j, k)

theorem mem_pairs {np : Nat} {p : Nat × Nat} : p ∈ pairs np ↔ p.1 < p.2 ∧ p.2 < np := by
  obtain ⟨j, k⟩ := p
  simp only [pairs, List.mem_flatMap, List.mem_map, mem_idxRange, Prod.mk.injEq]
  constructor
  · rintro ⟨a, ⟨_, ha⟩, b, ⟨hb1, hb2⟩, rfl, rfl⟩; exact ⟨by omega, hb2⟩
  · rintro ⟨h1, h2⟩; exact ⟨j, ⟨Nat.zero_le _, by omega⟩, k, ⟨by omega, h2⟩, rfl, rfl⟩

theorem nodup_pairs (np : Nat) : (pairs np).Nodup := by
  unfold pairs
  rw [List.nodup_flatMap]
  refine ⟨fun j _ => (nodup_idxRange _ _).map (fun a b h => by simpa using h), ?_⟩
  refine List.Pairwise.imp_of_mem ?_ (nodup_idxRange 0 (np - 1))
  intro a b _ _ hab x hx1 hx2
  simp only [List.mem_map] at hx1 hx2
  obtain ⟨_, _, rfl⟩ := hx1
  obtain ⟨_, _, h⟩ := hx2
  exact hab (by simpa using (congrArg Prod.fst h).symm)

/-- fields in which both values of the pair are present -/
def validFields (f : Nat → Nat → α) (nf j k : Nat) : List Nat :=
  (idxRange 0 nf).filter fun m => decide (¬ (isnan (f m k) = true ∨ isnan (f m j) = true))

/-- the (j, k, m) triples that enter a cell, given which pairs `sel` selects -/
def triples (f : Nat → Nat → α) (nf np : Nat) (sel : Nat × Nat → Bool) : List (Nat × Nat × Nat) :=
  ((pairs np).filter sel).flatMap fun p => (validFields f nf p.1 p.2).map fun m => (p.1, p.2, m)

/-- accumulate estimator terms and counts over a triple list -/
def accum (f : Nat → Nat → α) (est : α → α) (l : List (Nat × Nat × Nat)) (acc : α × Int) : α × Int :=
  l.foldl (fun a t => (a.1 + est (f t.2.2 t.2.1 - f t.2.2 t.1), a.2 + (1:Int))) acc

theorem accum_count (f : Nat → Nat → α) (est : α → α) (l : List (Nat × Nat × Nat)) (acc : α × Int) :
    (accum f est l acc).2 = acc.2 + (l.length : Int) := by
  unfold accum
  induction l generalizing acc with
  | nil => simp
  | cons t l ih => simp only [List.foldl_cons, ih, List.length_cons]; push_cast; ring

theorem accum_sum (f : Nat → Nat → α) (est : α → α) (l : List (Nat × Nat × Nat)) (acc : α × Int) :
    (accum f est l acc).1 = l.foldl (fun a t => a + est (f t.2.2 t.2.1 - f t.2.2 t.1)) acc.1 := by
  unfold accum
  induction l generalizing acc with
  | nil => simp
  | cons t l ih => simp only [List.foldl_cons, ih]

theorem accum_append (f : Nat → Nat → α) (est : α → α) (l₁ l₂ : List (Nat × Nat × Nat)) (acc : α × Int) :
    accum f est (l₁ ++ l₂) acc = accum f est l₂ (accum f est l₁ acc) := by
  simp [accum, List.foldl_append]

theorem pairAcc_eq_accum (f : Nat → Nat → α) (nf : Nat) (est : α → α) (j k : Nat) (acc : α × Int) :
    pairAcc f nf est j k acc = accum f est ((validFields f nf j k).map fun m => (j, k, m)) acc := by
  unfold pairAcc accum validFields forRange foldIdx
  rw [List.foldl_map, List.foldl_filter]
  congr 1
  funext a m
  simp only [decide_eq_true_eq]

/-- a generic pair loop nest with a per-pair selection equals accumulation over the triple list -/
theorem nest_eq_accum (f : Nat → Nat → α) (nf : Nat) (est : α → α) (np : Nat) (sel : Nat × Nat → Bool) (acc : α × Int) :
    (forRange 0 (np - 1) acc fun j acc =>
      forRange (j + 1) np acc fun k acc =>
        if sel (j, k) = true then pairAcc f nf est j k acc else acc) =
    accum f est (triples f nf np sel) acc := by
  have inner : ∀ (j : Nat) (K : List Nat) (a : α × Int),
      foldIdx K a (fun k acc => if sel (j, k) = true then pairAcc f nf est j k acc else acc) =
      accum f est ((((K.map fun k => (j, k)).filter sel).flatMap fun p => (validFields f nf p.1 p.2).map fun m => (p.1, p.2, m))) a := by
    intro j K
    induction K with
    | nil => intro a; rfl
    | cons k K ih =>
      intro a
      simp only [foldIdx_cons, List.map_cons, List.filter_cons]
      by_cases hs : sel (j, k) = true
      · simp only [hs, if_true, List.flatMap_cons, accum_append]
        rw [ih, pairAcc_eq_accum]
      · simp only [hs, if_false, ih]; rfl
  have outer : ∀ (J : List Nat) (a : α × Int),
      foldIdx J a (fun j acc => forRange (j + 1) np acc fun k acc =>
        if sel (j, k) = true then pairAcc f nf est j k acc else acc) =
      accum f est ((((J.flatMap fun j => (idxRange (j + 1) np).map fun k => (j, k)).filter sel).flatMap
        fun p => (validFields f nf p.1 p.2).map fun m => (p.1, p.2, m))) a := by
    intro J
    induction J with
    | nil => intro a; rfl
    | cons j J ih =>
      intro a
      simp only [foldIdx_cons, List.flatMap_cons, List.filter_append, List.flatMap_append, accum_append, ih]
      congr 1
      exact inner j _ a
  exact outer _ acc

/-! ### `unstructured` -/

/-- pair `(j,k)` falls into the half-open bin `[bins i, bins (i+1))` -/
def inBin (dist : Nat → Nat → α) (bins : Nat → α) (i : Nat) (p : Nat × Nat) : Bool :=
  decide (¬ (dist p.1 p.2 < bins i ∨ dist p.1 p.2 ≥ bins (i + 1)))

theorem binCell_eq_accum (f : Nat → Nat → α) (nf : Nat) (est : α → α) (dist : Nat → Nat → α) (bins : Nat → α)
    (np i : Nat) (acc : α × Int) :
    binCell f nf est dist bins np i acc = accum f est (triples f nf np (inBin dist bins i)) acc := by
  rw [← nest_eq_accum]
  unfold binCell inBin
  congr 1; funext j acc; congr 1; funext k acc
  simp only [decide_eq_true_eq]
  by_cases h : (dist j k < bins i ∨ dist j k ≥ bins (i + 1)) <;> simp [h]

/-- **C08 (isotropic, law-free)**: for every admissible schedule, bin `i` of `unstructured` holds
    (a) as count the number of qualifying (pair, field) triples — pairs `j<k` whose distance lies in
    `[edge_i, edge_{i+1})`, fields where neither value is NaN — and (b) as value the normalisation of the
    estimator terms folded over exactly those triples. -/
theorem unstructured_eq_definition (sched : Sched) (hs : sched.Admissible)
    (f : Nat → Nat → α) (nf f1 : Nat) (bins : Nat → α) (nb : Nat) (pos : Nat → Nat → α) (dim np : Nat)
    (et dt : String) (i : Nat) (hi : i < nb - 1) :
    let T := triples f nf np (inBin (distOf dt dim pos dim np) bins i)
    (unstructured sched f nf f1 bins nb pos dim np et dt).2 i = (T.length : Int) ∧
    (unstructured sched f nf f1 bins nb pos dim np et dt).1 i =
      normOf et (T.foldl (fun a t => a + choose_estimator_func et (f t.2.2 t.2.1 - f t.2.2 t.1)) ((0:Nat):α)) (T.length : Int) := by
  intro T
  have h := unstructured_spec sched hs f nf f1 bins nb pos dim np et dt i
  simp only [hi, if_true] at h
  have h1 := congrArg Prod.fst h
  have h2 := congrArg Prod.snd h
  simp only [] at h1 h2
  rw [h1, h2, binCell_eq_accum, accum_count, accum_sum]
  simp [T]

/-- cells beyond the last bin are never written -/
theorem unstructured_outside (sched : Sched) (hs : sched.Admissible)
    (f : Nat → Nat → α) (nf f1 : Nat) (bins : Nat → α) (nb : Nat) (pos : Nat → Nat → α) (dim np : Nat)
    (et dt : String) (i : Nat) (hi : ¬ i < nb - 1) :
    (unstructured sched f nf f1 bins nb pos dim np et dt).2 i = 0 := by
  have h := unstructured_spec sched hs f nf f1 bins nb pos dim np et dt i
  simp only [hi, if_false] at h
  exact congrArg Prod.snd h

/-! ### `directional` -/

/-- pair selected for direction `d`, bin `i` -/
def inDirBin (dim : Nat) (pos : Nat → Nat → α) (np : Nat) (bins : Nat → α) (direction : Nat → Nat → α) (nd dc : Nat)
    (tol bw : α) (sep : Bool) (d i : Nat) (p : Nat × Nat) : Bool :=
  inBin (dist_euclid dim pos dim np) bins i p &&
  decide (d < nd ∧ dirOK dim pos np direction nd dc tol bw (dist_euclid dim pos dim np p.1 p.2) p.1 p.2 d ∧
    (sep = true → ∀ d', d' < d → ¬ dirOK dim pos np direction nd dc tol bw (dist_euclid dim pos dim np p.1 p.2) p.1 p.2 d'))

theorem dirCell_eq_accum (f : Nat → Nat → α) (nf : Nat) (est : α → α) (dim : Nat) (pos : Nat → Nat → α) (np : Nat)
    (bins : Nat → α) (direction : Nat → Nat → α) (nd dc : Nat) (tol bw : α) (sep : Bool) (d i : Nat) (acc : α × Int) :
    dirCell f nf est dim pos np bins direction nd dc tol bw sep d i acc =
      accum f est (triples f nf np (inDirBin dim pos np bins direction nd dc tol bw sep d i)) acc := by
  rw [← nest_eq_accum]
  unfold dirCell inDirBin inBin
  congr 1; funext j acc; congr 1; funext k acc
  simp only [Bool.and_eq_true, decide_eq_true_eq]
  by_cases h : (dist_euclid dim pos dim np j k < bins i ∨ dist_euclid dim pos dim np j k ≥ bins (i + 1))
  · simp [h]
  · simp only [h, if_false, not_false_eq_true, true_and]

/-- **C08 (directional, law-free)**: cell `(d, i)` counts / accumulates exactly the triples whose pair
    lies in bin `i`, passes the direction test for `d`, and — with separated directions — passes it for
    no earlier listed direction. -/
theorem directional_eq_definition (sched : Sched) (hs : sched.Admissible)
    (f : Nat → Nat → α) (nf f1 : Nat) (bins : Nat → α) (nb : Nat) (pos : Nat → Nat → α) (dim np : Nat)
    (direction : Nat → Nat → α) (nd dc : Nat) (tol bw : α) (sep : Bool) (et : String) (d i : Nat)
    (hi : i < nb - 1) (hd : d < nd) :
    let T := triples f nf np (inDirBin dim pos np bins direction nd dc tol bw sep d i)
    (directional sched f nf f1 bins nb pos dim np direction nd dc tol bw sep et).2 d i = (T.length : Int) ∧
    (directional sched f nf f1 bins nb pos dim np direction nd dc tol bw sep et).1 d i =
      normOf et (T.foldl (fun a t => a + choose_estimator_func et (f t.2.2 t.2.1 - f t.2.2 t.1)) ((0:Nat):α)) (T.length : Int) := by
  intro T
  have h := directional_spec sched hs f nf f1 bins nb pos dim np direction nd dc tol bw sep et d i
  simp only [hi, hd, if_true] at h
  have h1 := congrArg Prod.fst h
  have h2 := congrArg Prod.snd h
  simp only [] at h1 h2
  rw [h1, h2, dirCell_eq_accum, accum_count, accum_sum]
  simp [T]

/-- if at most one direction accepts a pair, crediting only the first accepting direction (`sep`)
    selects the same pairs as crediting every accepting direction -/
theorem separate_dirs_sound (dim : Nat) (pos : Nat → Nat → α) (np : Nat) (bins : Nat → α) (direction : Nat → Nat → α)
    (nd dc : Nat) (tol bw : α) (d i : Nat) (p : Nat × Nat)
    (huniq : ∀ d₁ d₂, d₁ < nd → d₂ < nd →
      dirOK dim pos np direction nd dc tol bw (dist_euclid dim pos dim np p.1 p.2) p.1 p.2 d₁ →
      dirOK dim pos np direction nd dc tol bw (dist_euclid dim pos dim np p.1 p.2) p.1 p.2 d₂ → d₁ = d₂) :
    inDirBin dim pos np bins direction nd dc tol bw true d i p = inDirBin dim pos np bins direction nd dc tol bw false d i p := by
  unfold inDirBin
  congr 1
  apply decide_eq_decide.mpr
  constructor
  · rintro ⟨h1, h2, _⟩; exact ⟨h1, h2, by simp⟩
  · rintro ⟨h1, h2, _⟩
    refine ⟨h1, h2, fun _ d' hd' hok => ?_⟩
    have := huniq d' d (by omega) h1 hok h2
    omega


/-! ### along-axis estimator -/

/-- grid cells `(i, j)` that have a partner `(i + k, j)` -/
def gridPairs (n0 n1 k : Nat) (ok : Nat × Nat → Bool) : List (Nat × Nat) :=
  ((idxRange 0 (n0 - 1)).flatMap fun i => (idxRange 0 n1).map fun j => (i, j)).filter
    fun p => decide (1 ≤ k ∧ k < n0 - 1 + 1 - p.1) && ok p

def accumGrid (f : Nat → Nat → α) (est : α → α) (k : Nat) (l : List (Nat × Nat)) (acc : α × Int) : α × Int :=
  l.foldl (fun a p => (a.1 + est (f p.1 p.2 - f (p.1 + k) p.2), a.2 + (1:Int))) acc

theorem accumGrid_count (f : Nat → Nat → α) (est : α → α) (k : Nat) (l : List (Nat × Nat)) (acc : α × Int) :
    (accumGrid f est k l acc).2 = acc.2 + (l.length : Int) := by
  unfold accumGrid
  induction l generalizing acc with
  | nil => simp
  | cons t l ih => simp only [List.foldl_cons, ih, List.length_cons]; push_cast; ring

theorem accumGrid_sum (f : Nat → Nat → α) (est : α → α) (k : Nat) (l : List (Nat × Nat)) (acc : α × Int) :
    (accumGrid f est k l acc).1 = l.foldl (fun a p => a + est (f p.1 p.2 - f (p.1 + k) p.2)) acc.1 := by
  unfold accumGrid
  induction l generalizing acc with
  | nil => simp
  | cons t l ih => simp only [List.foldl_cons, ih]

theorem gridNest_eq (f : Nat → Nat → α) (est : α → α) (n0 n1 k : Nat) (ok : Nat × Nat → Bool) (acc : α × Int) :
    (forRange 0 (n0 - 1) acc fun i acc =>
      forRange 0 n1 acc fun j acc =>
        if (decide (1 ≤ k ∧ k < n0 - 1 + 1 - i) && ok (i, j)) = true
        then (acc.1 + est (f i j - f (i + k) j), acc.2 + (1:Int)) else acc) =
    accumGrid f est k (gridPairs n0 n1 k ok) acc := by
  have inner : ∀ (i : Nat) (J : List Nat) (a : α × Int),
      foldIdx J a (fun j acc => if (decide (1 ≤ k ∧ k < n0 - 1 + 1 - i) && ok (i, j)) = true
        then (acc.1 + est (f i j - f (i + k) j), acc.2 + (1:Int)) else acc) =
      accumGrid f est k ((J.map fun j => (i, j)).filter fun p => decide (1 ≤ k ∧ k < n0 - 1 + 1 - p.1) && ok p) a := by
    intro i J
    induction J with
    | nil => intro a; rfl
    | cons j J ih =>
      intro a
      simp only [foldIdx_cons, List.map_cons, List.filter_cons]
      by_cases hs : (decide (1 ≤ k ∧ k < n0 - 1 + 1 - i) && ok (i, j)) = true
      · simp only [hs, if_true]
        rw [ih]; rfl
      · simp only [hs]; rw [ih]; rfl
  have outer : ∀ (I : List Nat) (a : α × Int),
      foldIdx I a (fun i acc => forRange 0 n1 acc fun j acc =>
        if (decide (1 ≤ k ∧ k < n0 - 1 + 1 - i) && ok (i, j)) = true
        then (acc.1 + est (f i j - f (i + k) j), acc.2 + (1:Int)) else acc) =
      accumGrid f est k ((I.flatMap fun i => (idxRange 0 n1).map fun j => (i, j)).filter
        fun p => decide (1 ≤ k ∧ k < n0 - 1 + 1 - p.1) && ok p) a := by
    intro I
    induction I with
    | nil => intro a; rfl
    | cons i I ih =>
      intro a
      simp only [foldIdx_cons, List.flatMap_cons, List.filter_append]
      unfold accumGrid at ih ⊢
      rw [List.foldl_append, ← ih]
      congr 1
      exact inner i _ a
  exact outer _ acc

/-- **C08 (along-axis)**: lag `k` of `structured` pairs every cell `(i, j)` with `(i+k, j)`; the count is
    the number of such cells and the value the normalised fold of the estimator terms. -/
theorem structured_eq_definition (sched : Sched) (hs : sched.Admissible)
    (f : Nat → Nat → α) (n0 n1 : Nat) (et : String) (k : Nat) (hk : k < n0 - 1 + 1) :
    let T := gridPairs n0 n1 k (fun _ => true)
    structured sched f n0 n1 et k =
      normOf et (T.foldl (fun a p => a + choose_estimator_func et (f p.1 p.2 - f (p.1 + k) p.2)) ((0:Nat):α)) (T.length : Int) := by
  intro T
  rw [structured_spec sched hs]
  simp only [hk, if_true]
  have : structCell f (choose_estimator_func et) n0 n1 k (((0:Nat):α), (0:Int)) =
      accumGrid f (choose_estimator_func et) k T (((0:Nat):α), (0:Int)) := by
    rw [← gridNest_eq]
    unfold structCell
    congr 1; funext i acc; congr 1; funext j acc
    simp only [Bool.and_true, decide_eq_true_eq]
  rw [this, accumGrid_count, accumGrid_sum]
  simp

/-- **C08 (along-axis, masked)**: masked cells are skipped, i.e. a pair enters iff both ends are unmasked. -/
theorem ma_structured_eq_definition (sched : Sched) (hs : sched.Admissible)
    (f : Nat → Nat → α) (n0 n1 : Nat) (mask : Nat → Nat → Nat) (m0 m1 : Nat) (et : String) (k : Nat) (hk : k < n0 - 1 + 1) :
    let T := gridPairs n0 n1 k (fun p => decide (mask p.1 p.2 = 0 ∧ mask (p.1 + k) p.2 = 0))
    ma_structured sched f n0 n1 mask m0 m1 et k =
      normOf et (T.foldl (fun a p => a + choose_estimator_func et (f p.1 p.2 - f (p.1 + k) p.2)) ((0:Nat):α)) (T.length : Int) := by
  intro T
  rw [ma_structured_spec sched hs]
  simp only [hk, if_true]
  have : maStructCell f mask (choose_estimator_func et) n0 n1 k (((0:Nat):α), (0:Int)) =
      accumGrid f (choose_estimator_func et) k T (((0:Nat):α), (0:Int)) := by
    rw [← gridNest_eq]
    unfold maStructCell
    congr 1; funext i acc; congr 1; funext j acc
    by_cases h1 : (1 ≤ k ∧ k < n0 - 1 + 1 - i)
    · by_cases h2 : (mask i j = 0 ∧ mask (i + k) j = 0) <;> simp [h1, h2]
    · simp [h1]
  rw [this, accumGrid_count, accumGrid_sum]
  simp

/-! ### the normalisations on the reals -/

/-- Matheron: `γ = Σ (Δf)² / (2 N)` (with the `max(N, 1)` guard against empty bins) -/
theorem matheron_real (v : ℝ) (c : Int) : normOf "m" v c = v / (2 * (max c 1 : Int)) := by
  simp [normOf, normMatheron]

theorem matheron_estimator_real (x : ℝ) : (choose_estimator_func "m" : ℝ → ℝ) x = x ^ 2 := by
  simp [choose_estimator_func, estimator_matheron]; ring

/-- Cressie–Hawkins: `γ = ½ (Σ |Δf|^½ / N)⁴ / (0.457 + 0.494/N + 0.045/N²)` -/
theorem cressie_real (v : ℝ) (c : Int) :
    normOf "c" v c = (1/2) * ((1 / ((max c 1 : Int) : ℝ)) * v) ^ 4 /
      (0.457 + 0.494 / ((max c 1 : Int) : ℝ) + 0.045 / (((max c 1 : Int) : ℝ)) ^ 2) := by
  simp [normOf, normCressie]
  norm_num

theorem cressie_estimator_real (x : ℝ) : (choose_estimator_func "c" : ℝ → ℝ) x = Real.sqrt |x| := by
  simp [choose_estimator_func, estimator_cressie]

end GSV.Props.C08
