/-
  Tie A for the analytic spectral closed forms (C04), EXACT form — informative, not an obligation of `./check C04`.

  The functions of `GSV.Model.Spectral` are equal to the definitions regenerated from `covmodel/models.py`
  (`GSV/Gen/SpectralFormulas.lean`) on EVERY carrier `α` (hence on `Float`): same operator tree, the
  `if self.dim == 1 … return None` chains are the model's `match`.  Brittle by design: a behaviour-preserving regrouping
  of a source formula breaks these proofs.  The registered obligations are the `ℝ`-level theorems
  `GSV.Props.GenTieSpectral.*_eq_model_real`; the theorems of this file are audited on every run and reported under
  `coverage.informative` of the evidence.
-/
import GSV.Props.GenTieSpectral

set_option linter.unusedSectionVars false

namespace GSV.Props.GenTieSpectralExact
open GSV GSV.Transc GSV.PyExpr GSV.Model.Spectral GSV.Gen.SpectralFormulas GSV.Props.GenTieSpectral

variable {α : Type} [Arith α] [Transc α] [DecidableLT α] [DecidableLE α]

/-! ### Gaussian -/

theorem Gaussian_spectral_density_eq_model (d : Nat) (ℓ k : α) :
    Gaussian.spectral_density d ℓ k = gauDensity d ℓ k := rfl

theorem Gaussian_spectral_rad_cdf_eq_model (sps : Sps α) (d : Nat) (ℓ r : α) :
    Gaussian.spectral_rad_cdf sps d ℓ r = gauCdf (specialOf sps) d ℓ r := by
  rcases d with _ | _ | _ | _ | d <;> rfl

theorem Gaussian_spectral_rad_ppf_eq_model (sps : Sps α) (d : Nat) (ℓ u : α) :
    Gaussian.spectral_rad_ppf sps d ℓ u = gauPpf (specialOf sps) d ℓ u := by
  rcases d with _ | _ | _ | d <;> rfl

/-! ### Exponential -/

theorem Exponential_spectral_density_eq_model (sps : Sps α) (d : Nat) (ℓ k : α)
    (H : ∀ n : Nat, sps.gamma (((n:Nat):α) / ((2:Nat):α)) = gammaHalf n) :
    Exponential.spectral_density sps d ℓ k = expDensity d ℓ k := by
  simp only [Exponential.spectral_density, expDensity, H]

theorem Exponential_spectral_rad_cdf_eq_model (d : Nat) (ℓ r : α) :
    Exponential.spectral_rad_cdf d ℓ r = expCdf d ℓ r := by
  rcases d with _ | _ | _ | _ | d <;> rfl

/-! ### Matern -/

theorem Matern_spectral_density_eq_model (sps : Sps α) (d : Nat) (ℓ ν k : α) :
    Matern.spectral_density sps d ℓ ν k = maternDensity (specialOf sps) d ℓ ν k := rfl

end GSV.Props.GenTieSpectralExact
