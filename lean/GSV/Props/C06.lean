/-
  C06 — kriging interpolates exactly; its variance is non-negative and bounded.
  Built on the model and algebra of C05.
-/
import GSV.Props.C05
namespace GSV.Props.C06
open GSV GSV.Props GSV.Props.C05 GSV.Model.Krige Finset Matrix

/-- when a target coincides with conditioning point `j`, its right-hand side is column `j` of the
    assembled matrix — provided the covariance entries agree, which is the case
    (a) for zero measurement error: `c i p = C i j` and `err j = 0`, or
    (b) in `exact` mode: the nugget-aware covariance returns `C j j + err j` at zero lag. -/
theorem rhs_is_column (L : Layout) (C : Nat → Nat → ℝ) (err : Nat → ℝ) (F E : Nat → Nat → ℝ)
    (c f e : Nat → Nat → ℝ) (j p : Nat) (hj : j < L.n)
    (hc : ∀ i, i < L.n → c i p = if i = j then C i j + err i else C i j)
    (hf : ∀ r, f r p = F r j) (he : ∀ r, e r p = E r j) (i : Nat) (hi : i < L.size) :
    assembleRHS L false c f e i p = assembleK L C err F E i j := by
  unfold assembleRHS assembleK border
  by_cases h : i < L.n
  · simp [h, hj, hc i h]
  · have h2 : L.n ≤ i := by omega
    have h3 : ¬ L.n ≤ j := by omega
    simp [h, h2, h3, hj, hf, he]

/-- **exact interpolation on the model's arrays**: with `M` inverting the assembled matrix, the raw
    kriging field at a target that coincides with conditioning point `j` is the (normalised, detrended,
    mean-free) datum, and the returned variance is `max(sill − K_jj, 0)`, i.e. `0` when `K_jj = sill`
    (no nugget, or exact mode where `K_jj = var + nugget`). -/
theorem exact_at_data_model (L : Layout) (C : Nat → Nat → ℝ) (err : Nat → ℝ) (F E : Nat → Nat → ℝ)
    (c f e : Nat → Nat → ℝ) (M : Nat → Nat → ℝ)
    (hMK : toMat L.size M * toMat L.size (assembleK L C err F E) = 1)
    (valn mean : Nat → ℝ) (j p : Nat) (hj : j < L.n)
    (hc : ∀ i, i < L.n → c i p = if i = j then C i j + err i else C i j)
    (hf : ∀ r, f r p = F r j) (he : ∀ r, e r p = E r j) (sill : ℝ) :
    krigeFieldCell M (assembleRHS L false c f e) (krigeCond L valn mean) L.size p ((0:Nat):ℝ) = valn j - mean j ∧
    clipVar sill (krigeErrCell M (assembleRHS L false c f e) L.size p ((0:Nat):ℝ)) = clipVar sill (C j j + err j) := by
  have hjs : j < L.size := by unfold Layout.size; omega
  have hcol : col L.size (assembleRHS L false c f e) p = fun i => toMat L.size (assembleK L C err F E) i ⟨j, hjs⟩ := by
    funext i
    exact rhs_is_column L C err F E c f e j p hj hc hf he i i.2
  have := exact_at_data (toMat L.size (assembleK L C err F E)) (toMat L.size M)
    (toVec L.size (krigeCond L valn mean)) (col L.size (assembleRHS L false c f e) p) hMK ⟨j, hjs⟩ hcol
  rw [field_eq_bilinear, err_eq_quadratic, this.1, this.2]
  constructor
  · simp [toVec, krigeCond, hj]
  · simp [toMat, assembleK, hj]

/-- zero variance at the data when the diagonal entry equals the sill -/
theorem zero_variance_at_data (sill d : ℝ) (h : d = sill) : clipVar sill d = 0 := by
  unfold clipVar; subst h; simp

/-- **round trip of the post-processing**: for any normaliser pair with `denorm ∘ norm = id` on the data,
    `trend + denorm(mean + (norm(z − trend) − mean)) = z` -/
theorem roundtrip_post (norm denorm : ℝ → ℝ) (z trend mean : ℝ) (h : denorm (norm (z - trend)) = z - trend) :
    trend + denorm (mean + (norm (z - trend) - mean)) = z := by
  have : mean + (norm (z - trend) - mean) = norm (z - trend) := by ring
  rw [this, h]; ring

/-- the round trip on the model's own definitions: post-processing (`postCell`) undoes the data preparation
    (`prepCond`) at datum `j`, whatever the mean and trend are, given `denorm ∘ norm = id` on the detrended datum -/
theorem roundtrip_post_model (L : Layout) (norm denorm : ℝ → ℝ) (val trend mean : Nat → ℝ) (j : Nat) (hj : j < L.n)
    (h : denorm (norm (val j - trend j)) = val j - trend j) :
    postCell denorm (mean j) (trend j) (prepCond L norm val trend mean j) = val j := by
  rw [C05.prepCond_data L norm val trend mean j hj]
  unfold postCell
  have : norm (val j - trend j) - mean j + mean j = norm (val j - trend j) := by ring
  rw [this, h]; ring

/-- **exact interpolation through mean, normaliser and trend**: with `M` inverting the assembled matrix and a
    target coinciding with conditioning point `j` (so that mean and trend at the target are those at `j`), the
    post-processed kriging field returns the conditioning value itself -/
theorem exact_at_data_post (L : Layout) (C : Nat → Nat → ℝ) (err : Nat → ℝ) (F E : Nat → Nat → ℝ)
    (c f e : Nat → Nat → ℝ) (M : Nat → Nat → ℝ)
    (hMK : toMat L.size M * toMat L.size (assembleK L C err F E) = 1)
    (norm denorm : ℝ → ℝ) (val trend mean : Nat → ℝ) (j p : Nat) (hj : j < L.n)
    (hc : ∀ i, i < L.n → c i p = if i = j then C i j + err i else C i j)
    (hf : ∀ r, f r p = F r j) (he : ∀ r, e r p = E r j)
    (h : denorm (norm (val j - trend j)) = val j - trend j) :
    postCell denorm (mean j) (trend j)
      (krigeFieldCell M (assembleRHS L false c f e) (prepCond L norm val trend mean) L.size p ((0:Nat):ℝ)) = val j := by
  have := (exact_at_data_model L C err F E c f e M hMK (fun i => norm (val i - trend i)) mean j p hj hc hf he 0).1
  have h2 : prepCond L norm val trend mean = krigeCond L (fun i => norm (val i - trend i)) mean := rfl
  rw [h2, this]
  unfold postCell
  have h3 : norm (val j - trend j) - mean j + mean j = norm (val j - trend j) := by ring
  rw [h3, h]; ring

/-- premises satisfiable with a genuinely non-linear pair: squaring and the positive root on a positive datum -/
example : (fun y : ℝ => Real.sqrt y) ((fun x : ℝ => x * x) (3 - 1)) = 3 - 1 :=
  Real.sqrt_mul_self (by norm_num : (0:ℝ) ≤ 3 - 1)

/-- the returned variance is never negative -/
theorem var_nonneg (sill q : ℝ) : 0 ≤ clipVar sill q := clipVar_nonneg sill q

/-- simple kriging (positive definite `K`, `M` its inverse): variance in `[0, sill]` -/
theorem var_le_sill_simple {s : Nat} (K M : Matrix (Fin s) (Fin s) ℝ) (k : Fin s → ℝ) (hMK : M * K = 1)
    (hK : K.PosDef) (sill : ℝ) (hs : 0 ≤ sill) :
    0 ≤ clipVar sill (k ⬝ᵥ (M *ᵥ k)) ∧ clipVar sill (k ⬝ᵥ (M *ᵥ k)) ≤ sill :=
  clipVar_bounds sill _ (C05.var_le_sill_simple K M k hMK hK sill).1 hs

/-- premises satisfiable: identity normaliser, concrete numbers -/
example : (0:ℝ) + id (1 + (id (3 - 0) - 1)) = 3 := by norm_num

end GSV.Props.C06
