/-
  Tie A at `ℝ`, shared part: the vocabulary of `GSV/PyExpr.lean` in Mathlib's terms and the tactic `tie_real` that proves
  `generated definition = hand-written model function` over the reals in a way that SURVIVES real-equal rewrites of the
  source formula (regrouping `a * b / c`, `x ** 2` -> `x * x`, hoisting a prefactor, division -> multiplication by the
  reciprocal, `sqrt(2 * var)` -> `sqrt(2) * sqrt(var)`, `sqrt(b) ** n` -> `b ** (n / 2)` on `b ≥ 0` …) but not semantic ones.

  `tie_real [defs]`:
    1. unfolds the listed definitions (both sides) and turns the scalar interface / numpy vocabulary into Mathlib's
       functions, casts of literals into numerals (`tie_vocab`);
    2. normalises roots and powers with side goals discharged by `positivity` / hypotheses in the context
       (`tie_pow`: `√(a b) = √a √b`, `(a b)^r = a^r b^r`, `(√b)^r = b^(r/2)`, `(b^r)^s = b^(r s)`,
       `exp a * exp b = exp (a + b)`);
    3. normalises every commutative-ring subterm, also inside function arguments and branch conditions (`ring_nf`),
       and the argument order of `min` / `max`;
    4. splits the remaining `if`s / `match`es and closes every case by `rfl | ring1 | ring_nf | field_simp; ring1`;
       a case whose branch conditions contradict each other is closed by `linarith` / `omega`.
  No step uses anything about the particular formula; a goal that is not an identity of commutative rings / fields
  modulo the listed root / power / exp laws stays open, i.e. a semantic edit still breaks the theorem.
-/
import GSV.RealInst
import GSV.PyExpr
import Mathlib.Tactic.Ring
import Mathlib.Tactic.FieldSimp
import Mathlib.Tactic.Positivity
import Mathlib.Tactic.Linarith
import Mathlib.Tactic.SplitIfs
import Mathlib.Tactic.NormNum.OfScientific

namespace GSV.Props.GenTieReal
open GSV GSV.Transc GSV.PyExpr

/-! ### the numpy vocabulary at `ℝ` -/

theorem log1p_real (x : ℝ) : log1p x = Real.log (1 + x) := by simp [log1p]
theorem expm1_real (x : ℝ) : expm1 x = Real.exp x - 1 := by simp [expm1]
theorem minimum_real (a b : ℝ) : minimum a b = min a b := by
  unfold minimum; split <;> rename_i h
  · exact (min_eq_left h.le).symm
  · exact (min_eq_right (not_lt.mp h)).symm
theorem maximum_real (a b : ℝ) : maximum a b = max a b := by
  unfold maximum; split <;> rename_i h
  · exact (max_eq_right h.le).symm
  · exact (max_eq_left (not_lt.mp h)).symm
/-- the `if` forms of `min` / `max` (the model writes a clip as a nested `if`; a source may write `np.where`) -/
theorem ite_lt_min (a b : ℝ) [Decidable (a < b)] : (if a < b then a else b) = min a b := by
  split <;> rename_i h
  · exact (min_eq_left h.le).symm
  · exact (min_eq_right (not_lt.mp h)).symm
theorem ite_lt_max (a b : ℝ) [Decidable (a < b)] : (if a < b then b else a) = max a b := by
  split <;> rename_i h
  · exact (max_eq_right h.le).symm
  · exact (max_eq_left (not_lt.mp h)).symm
theorem tan_real (x : ℝ) : PyExpr.tan x = Real.sin x / Real.cos x := rfl
theorem arctan_real (x : ℝ) : PyExpr.arctan x = Complex.arg ⟨1, x⟩ := by simp [PyExpr.arctan]

/-! ### roots and powers (side conditions are discharged by `positivity` or from the context) -/

theorem sqrt_rpow {b : ℝ} (hb : 0 ≤ b) (r : ℝ) : Real.sqrt b ^ r = b ^ (r / 2) := by
  rw [Real.sqrt_eq_rpow, ← Real.rpow_mul hb]; congr 1; ring
theorem sqrt_npow {b : ℝ} (hb : 0 ≤ b) (n : ℕ) : Real.sqrt b ^ n = b ^ ((n:ℝ) / 2) := by
  rw [← Real.rpow_natCast, sqrt_rpow hb]
theorem rpow_rpow {b : ℝ} (hb : 0 ≤ b) (r s : ℝ) : (b ^ r) ^ s = b ^ (r * s) := (Real.rpow_mul hb r s).symm
theorem rpow_npow {b : ℝ} (hb : 0 ≤ b) (r : ℝ) (n : ℕ) : (b ^ r) ^ n = b ^ (r * n) := by
  rw [← Real.rpow_natCast, rpow_rpow hb]
theorem inv_rpow_neg {b : ℝ} (hb : 0 ≤ b) (r : ℝ) : (b ^ r)⁻¹ = b ^ (-r) := (Real.rpow_neg hb r).symm
theorem div_rpow_neg {b : ℝ} (hb : 0 ≤ b) (a r : ℝ) : a / b ^ r = a * b ^ (-r) := by
  rw [Real.rpow_neg hb, div_eq_mul_inv]
theorem div_exp_neg (a b : ℝ) : a / Real.exp b = a * Real.exp (-b) := by rw [Real.exp_neg, div_eq_mul_inv]
theorem sqrt_mul_pos {a : ℝ} (ha : 0 ≤ a) (b : ℝ) : Real.sqrt (a * b) = Real.sqrt a * Real.sqrt b :=
  Real.sqrt_mul ha b
theorem sqrt_mul_pos' (a : ℝ) {b : ℝ} (hb : 0 ≤ b) : Real.sqrt (a * b) = Real.sqrt a * Real.sqrt b :=
  Real.sqrt_mul' a hb
theorem sqrt_div_pos {a : ℝ} (ha : 0 ≤ a) (b : ℝ) : Real.sqrt (a / b) = Real.sqrt a / Real.sqrt b :=
  Real.sqrt_div ha b
theorem sqrt_div_pos' (a : ℝ) {b : ℝ} (hb : 0 ≤ b) : Real.sqrt (a / b) = Real.sqrt a / Real.sqrt b :=
  Real.sqrt_div' a hb

/-- turn the scalar interface and the numpy vocabulary into Mathlib's functions, literal casts into numerals.
    `norm_num1` evaluates the scientific literals (`2.0`, `0.5`, `1e-8`) to rational numerals BEFORE `ring` sees them:
    `ring` of this Mathlib mis-translates integer-valued scientific literals such as `1.0` (the kernel rejects the proof
    term, so nothing unsound is accepted, but the tactic would fail). -/
macro "tie_vocab" : tactic => `(tactic|
  (try simp only [sqrt_real, exp_real, log_real, sin_real, cos_real, acos_real, rpow_real, npow_real, fabs_real,
      pi_real, atan2_real, log1p_real, expm1_real, minimum_real, maximum_real, tan_real, arctan_real,
      ite_lt_min, ite_lt_max, ge_iff_le, gt_iff_lt]
   try push_cast
   try norm_num1))

/-- normal form of roots / powers / exponentials: powers and roots are distributed over products and quotients, a power
    of a root or of a power becomes one real power, a division by a real power a negative exponent, products of
    exponentials one exponential -/
macro "tie_pow" : tactic => `(tactic|
  (try simp (disch := first | positivity | assumption) only
      [sqrt_mul_pos, sqrt_mul_pos', sqrt_div_pos, sqrt_div_pos', Real.sqrt_inv, mul_pow, div_pow, inv_pow,
       Real.mul_rpow, Real.div_rpow, Real.inv_rpow, sqrt_rpow, sqrt_npow, rpow_rpow, rpow_npow, ← Real.sqrt_eq_rpow,
       inv_rpow_neg, div_rpow_neg, div_exp_neg, ← Real.exp_add, ← Real.exp_sub, ← Real.exp_neg]
   try push_cast))

/-- `ring_nf`, then a canonical argument order for `min` / `max` (ordered rewriting with the commutativity lemmas) -/
macro "tie_ring" : tactic => `(tactic| ((try ring_nf); (try simp only [min_comm, max_comm])))

/-- close one branch -/
macro "tie_close" : tactic => `(tactic|
  first
  | with_reducible rfl
  | ring1
  | (ring_nf; done)
  | (field_simp; ring1)
  | (exfalso; first | contradiction | linarith | omega | (ring_nf at *; first | contradiction | linarith)))

/-- split every `if` / `match` of the goal and close the cases -/
macro "tie_cases" : tactic => `(tactic|
  first
  | tie_close
  | (split_ifs <;> tie_close)
  | (repeat' split) <;> tie_close)

syntax (name := tieReal) "tie_real" " [" Lean.Parser.Tactic.simpLemma,* "]" : tactic
macro_rules
  | `(tactic| tie_real [$ls,*]) =>
    `(tactic| (simp only [$ls,*]
               all_goals (tie_vocab; try tie_close)
               all_goals (tie_pow; tie_ring)
               all_goals tie_cases))

/-- the same relative to a hypothesis `H` about an uninterpreted scipy function (`∀ x, sps.f … x = …`): `H` goes through the
    same normalisation as the goal (so that it still matches after a regrouping of the arguments of `sps.f`), then rewrites it -/
syntax (name := tieRealUsing) "tie_real_using " ident " [" Lean.Parser.Tactic.simpLemma,* "]" : tactic
macro_rules
  | `(tactic| tie_real_using $H:ident [$ls,*]) =>
    `(tactic| (revert $H:ident
               simp only [$ls,*]
               all_goals (tie_vocab; tie_pow; tie_ring; (try intro $H:ident); (try simp only [$H:ident]))
               all_goals tie_cases))

end GSV.Props.GenTieReal
