/-
  C17 — periodicity of Fourier-generated fields along the rotated main axes, in EVERY dimension.

  `GSV/Props/C17.lean` proves periodicity for an arbitrary derotation matrix `Q` with orthonormal rows
  (`periodic_srf`) and instantiates it with its own model `Fourier.derot` of `matrix_derotate`, which is written
  out for `dim ≤ 3`.  Here the general rotation algebra of C12 (`GSV/Props/C12.lean`: `rotate_orthogonal`,
  `derotate_eq_transpose`, all dimensions, all angle lists) is plugged in:

  * `derotate_rows_orthonormal`   — rows of `Geo.matrixDerotate d angles` are orthonormal, every `d`, every list;
  * `derot_eq_geo`                — for `dim ≤ 3` C17's `Fourier.derot` IS C12's `Geo.matrixDerotate` entry by entry
                                    (the two hand-written models of the same function agree);
  * `derotate_row_is_main_axis`   — row `i` of the derotation is the `i`-th main axis (`rotated_main_axes`);
  * `periodic_srf_any_dim`, `srf_after_updates_periodic_any_dim`
                                  — the property at SRF level, with and without update histories, for every dimension.
-/
import GSV.Props.C17
import GSV.Props.C12
namespace GSV.Props.C17
open GSV GSV.Props GSV.Model.Fourier GSV.Fourier Finset
open GSV.Lemmas.Geo (toM toV)

/-- **row-orthonormality of `matrix_derotate` for every dimension and every angle list** (too short, too long
    or empty lists included), in the form `periodic_srf` consumes -/
theorem derotate_rows_orthonormal (d : Nat) (angles : List ℝ) :
    RowsON d (Model.Geo.matrixDerotate d angles) := by
  intro i hi i' hi'
  have h := (C12.rotate_orthogonal d angles).2.1
  have hD := C12.derotate_eq_transpose d angles
  have h2 : toM d (Model.Geo.matrixDerotate d angles) * (toM d (Model.Geo.matrixDerotate d angles)).transpose = 1 := by
    rw [hD, Matrix.transpose_transpose]; exact h
  have h3 := congrFun (congrFun h2 ⟨i, hi⟩) ⟨i', hi'⟩
  rw [Finset.sum_range]
  simpa [Matrix.mul_apply, Matrix.one_apply, toM, Fin.ext_iff] using h3

/-- row `i` of the derotation is the `i`-th rotated main axis of the model (`rotated_main_axes(dim, angles)[i]`) -/
theorem derotate_row_is_main_axis (d : Nat) (angles : List ℝ) (i e : Nat) (hi : i < d) (he : e < d) :
    Model.Geo.matrixDerotate d angles i e = Model.Geo.mainAxes d angles i e := by
  have hD := C12.derotate_eq_transpose d angles
  have := congrFun (congrFun hD ⟨i, hi⟩) ⟨e, he⟩
  simpa [toM, Model.Geo.mainAxes, Model.Geo.transpose] using this

/-! ### the two models of `matrix_derotate` agree where both are defined (`dim ≤ 3`) -/

private theorem planes1 : Model.Geo.rotationPlanes 1 = [] := by decide
private theorem planes2 : Model.Geo.rotationPlanes 2 = [(0, 1)] := by decide
private theorem planes3 : Model.Geo.rotationPlanes 3 = [(0, 1), (0, 2), (1, 2)] := by decide

private theorem seq2 (a : ℝ) (rest : List ℝ) :
    Model.Geo.signedSeq 2 (Model.Geo.setAngles 2 (a :: rest)) = [((0, 1), a)] := by
  simp [Model.Geo.signedSeq, Model.Geo.setAngles, Model.Geo.noOfAngles, planes2, List.zipIdx]

private theorem seq2_nil :
    Model.Geo.signedSeq 2 (Model.Geo.setAngles 2 ([] : List ℝ)) = [((0, 1), 0)] := by
  simp [Model.Geo.signedSeq, Model.Geo.setAngles, Model.Geo.noOfAngles, planes2, List.zipIdx]

private theorem seq3 (a b c : ℝ) (rest : List ℝ) :
    Model.Geo.signedSeq 3 (Model.Geo.setAngles 3 (a :: b :: c :: rest)) = [((0, 1), a), ((0, 2), -b), ((1, 2), c)] := by
  simp [Model.Geo.signedSeq, Model.Geo.setAngles, Model.Geo.noOfAngles, planes3, List.zipIdx]

private theorem setAngles3_pad (angles : List ℝ) :
    Model.Geo.setAngles 3 angles = Model.Geo.setAngles 3 [angles.getD 0 0, angles.getD 1 0, angles.getD 2 0] := by
  rcases angles with _ | ⟨a, _ | ⟨b, _ | ⟨c, rest⟩⟩⟩ <;>
    simp [Model.Geo.setAngles, Model.Geo.noOfAngles]

private theorem setAngles2_pad (angles : List ℝ) :
    Model.Geo.setAngles 2 angles = Model.Geo.setAngles 2 [angles.getD 0 0] := by
  rcases angles with _ | ⟨a, rest⟩ <;> simp [Model.Geo.setAngles, Model.Geo.noOfAngles]

private theorem matrixDerotate_congr (d : Nat) (as bs : List ℝ)
    (h : Model.Geo.setAngles d as = Model.Geo.setAngles d bs) :
    Model.Geo.matrixDerotate d as = Model.Geo.matrixDerotate d bs := by
  unfold Model.Geo.matrixDerotate; rw [h]

set_option linter.unusedSimpArgs false in
/-- **C17's model of the derotation (`Fourier.derot`, the matrix product written out for `dim ≤ 3`) and C12's
    (`Geo.matrixDerotate`, the loop over `rotation_planes(dim)` with alternating signs, any dimension) are the same
    matrix** for `dim = 1, 2, 3`, every angle list (missing angles count as `0`, surplus ones are ignored) -/
theorem derot_eq_geo (dim : Nat) (h1 : 1 ≤ dim) (h3 : dim ≤ 3) (angles : List ℝ) (d e : Nat) (hd : d < dim) (he : e < dim) :
    derot dim (fun i => angles.getD i 0) d e = Model.Geo.matrixDerotate dim angles d e := by
  have key : ∀ (A : Nat → Nat → ℝ) (M : Matrix (Fin dim) (Fin dim) ℝ),
      toM dim A = M → A d e = M ⟨d, hd⟩ ⟨e, he⟩ := by
    intro A M hAM; rw [← hAM]; rfl
  interval_cases dim
  · -- 1-D: both are the identity
    have hp := C12.derotate_eq_prod 1 angles
    have hs : Model.Geo.signedSeq 1 (Model.Geo.setAngles 1 angles) = [] := by
      simp [Model.Geo.signedSeq, planes1]
    rw [hs] at hp
    rw [key _ _ hp]
    have hd0 : d = 0 := by omega
    have he0 : e = 0 := by omega
    subst hd0; subst he0
    simp [derot]
  · -- 2-D: one Givens rotation by `-angle`
    rw [matrixDerotate_congr 2 angles _ (setAngles2_pad angles)]
    have hp := C12.derotate_eq_prod 2 [angles.getD 0 0]
    rw [seq2] at hp
    rw [key _ _ hp]
    interval_cases d <;> interval_cases e <;>
      simp [derot, givens, toM, Model.Geo.givens, upd2, Model.Geo.eye]
  · -- 3-D: `G₀₁(−α) · G₀₂(β) · G₁₂(−γ)`
    rw [matrixDerotate_congr 3 angles _ (setAngles3_pad angles)]
    have hp := C12.derotate_eq_prod 3 [angles.getD 0 0, angles.getD 1 0, angles.getD 2 0]
    rw [seq3] at hp
    rw [key _ _ hp]
    simp only [List.map_cons, List.map_nil, List.prod_cons, List.prod_nil, mul_one, neg_neg]
    interval_cases d <;> interval_cases e <;>
      simp [derot, mulM_real, givens, toM, Model.Geo.givens, upd2, Model.Geo.eye, Matrix.mul_apply, Fin.sum_univ_three,
        Finset.sum_range_succ] <;> ring

/-- consequently the `dim ≤ 3` row-orthonormality of C17 (`derot_rows_orthonormal`) is the `dim ≤ 3` instance of
    the general one: the fields computed with either model of the derotation coincide -/
theorem srfField_derot_eq_geo (sched : Sched) (hs : sched.Admissible) (dim : Nat) (h1 : 1 ≤ dim) (h3 : dim ≤ 3)
    (angles : List ℝ) (anis : Nat → ℝ) (sf : Nat → ℝ) (modes : Nat → Nat → ℝ) (z1 z2 : Nat → ℝ) (N : Nat)
    (x : Nat → Nat → ℝ) (X i : Nat) :
    srfField sched (derot dim (fun k => angles.getD k 0)) anis sf modes z1 z2 N x dim X i =
      srfField sched (Model.Geo.matrixDerotate dim angles) anis sf modes z1 z2 N x dim X i := by
  unfold srfField genField
  rw [summate_fourier_spec sched hs, summate_fourier_spec sched hs]
  split
  · unfold fourierCell
    apply forRange_congr
    intro j _ _ acc
    have hph : phaseOf modes (isometrize (derot dim (fun k => angles.getD k 0)) anis dim x) dim j i =
        phaseOf modes (isometrize (Model.Geo.matrixDerotate dim angles) anis dim x) dim j i := by
      rw [phaseOf_real, phaseOf_real]
      refine sum_congr rfl fun d hd => ?_
      rw [isometrize_real, isometrize_real]
      congr 1
      refine sum_congr rfl fun e he => ?_
      rw [derot_eq_geo dim h1 h3 angles d e (mem_range.mp hd) (mem_range.mp he)]
    rw [hph]
  · rfl

/-! ### the property at SRF level, every dimension -/

/-- **C17 at SRF level for EVERY dimension, any anisotropy, any rotation angles** (any length of the angle list):
    with the derotation `matrix_derotate(dim, angles)` the code builds, the field repeats when every point `i` is
    moved by an integer multiple `c_i · L_{d₀}` of the period given for axis `d₀` along the `d₀`-th main axis of the
    model (row `d₀` of the derotation = `rotated_main_axes(dim, angles)[d₀]`, see `derotate_row_is_main_axis`). -/
theorem periodic_srf_any_dim (sched : Sched) (hs : sched.Admissible) (dim : Nat) (angles : List ℝ)
    (mreq : Nat → Nat) (period anis : Nat → ℝ) (sf z1 z2 : Nat → ℝ) (N X : Nat) (x x' : Nat → Nat → ℝ)
    (d₀ : Nat) (hd₀ : d₀ < dim) (c : Nat → ℤ)
    (hL : ∀ d < dim, period d ≠ 0) (ha : ∀ d < dim, anisP anis d ≠ 0)
    (hshift : ∀ e < dim, ∀ i < X, x' e i = x e i + (c i : ℝ) * period d₀ * Model.Geo.matrixDerotate dim angles d₀ e)
    (i : Nat) :
    srfField sched (Model.Geo.matrixDerotate dim angles) anis sf (modesGrid mreq (deltaK period anis) dim) z1 z2 N x' dim X i =
      srfField sched (Model.Geo.matrixDerotate dim angles) anis sf (modesGrid mreq (deltaK period anis) dim) z1 z2 N x dim X i :=
  periodic_srf sched hs (Model.Geo.matrixDerotate dim angles) mreq period anis sf z1 z2 N dim X x x' d₀ c hL ha
    (fun d hd => derotate_rows_orthonormal dim angles d hd d₀ hd₀) hshift i

/-- the same with the shift written along `rotated_main_axes(dim, angles)[d₀]` -/
theorem periodic_srf_main_axis (sched : Sched) (hs : sched.Admissible) (dim : Nat) (angles : List ℝ)
    (mreq : Nat → Nat) (period anis : Nat → ℝ) (sf z1 z2 : Nat → ℝ) (N X : Nat) (x x' : Nat → Nat → ℝ)
    (d₀ : Nat) (hd₀ : d₀ < dim) (c : Nat → ℤ)
    (hL : ∀ d < dim, period d ≠ 0) (ha : ∀ d < dim, anisP anis d ≠ 0)
    (hshift : ∀ e < dim, ∀ i < X, x' e i = x e i + (c i : ℝ) * period d₀ * Model.Geo.mainAxes dim angles d₀ e)
    (i : Nat) :
    srfField sched (Model.Geo.matrixDerotate dim angles) anis sf (modesGrid mreq (deltaK period anis) dim) z1 z2 N x' dim X i =
      srfField sched (Model.Geo.matrixDerotate dim angles) anis sf (modesGrid mreq (deltaK period anis) dim) z1 z2 N x dim X i :=
  periodic_srf_any_dim sched hs dim angles mreq period anis sf z1 z2 N X x x' d₀ hd₀ c hL ha
    (fun e he i hi => by rw [hshift e he i hi, derotate_row_is_main_axis dim angles d₀ e hd₀ he]) i

/-- **C17 over histories, every dimension**: constructor, any setter / update calls, then an SRF call with a model
    of any dimension, anisotropy and rotation: the field repeats along the model's main axes by the stored periods -/
theorem srf_after_updates_periodic_any_dim (eqv : Mdl ℝ → Mdl ℝ → Bool) (heq : EqvExact eqv) (us : List (Upd ℝ))
    (m : Mdl ℝ) (angles : List ℝ) (seed : Option Nat)
    (sched : Sched) (hs : sched.Admissible) (sf z1 z2 : Nat → ℝ) (N X : Nat) (x x' : Nat → Nat → ℝ)
    (d₀ : Nat) (hd₀ : d₀ < m.dim) (c : Nat → ℤ) :
    let st0 := run eqv blank us
    let st := (update eqv st0 ⟨some m, seed, none, none⟩).1
    st0.hasPeriod = true → m.dim = st0.model.dim →
    (∀ d < m.dim, st.period d ≠ 0) → (∀ d < m.dim, anisP m.anis d ≠ 0) →
    (∀ e < m.dim, ∀ i < X, x' e i = x e i + (c i : ℝ) * st.period d₀ * Model.Geo.matrixDerotate m.dim angles d₀ e) →
    ∀ i, srfField sched (Model.Geo.matrixDerotate m.dim angles) m.anis sf st.modes z1 z2 N x' m.dim X i =
      srfField sched (Model.Geo.matrixDerotate m.dim angles) m.anis sf st.modes z1 z2 N x m.dim X i := by
  intro st0 st hp hdim hL ha hshift i
  exact srf_after_updates_periodic eqv heq us m seed (Model.Geo.matrixDerotate m.dim angles) sched hs sf z1 z2 N X x x' d₀ c
    hp hdim hL ha (fun d hd => derotate_rows_orthonormal m.dim angles d hd d₀ hd₀) hshift i

/-- the hypotheses of `periodic_srf_any_dim` are satisfiable by a non-trivial object in a dimension the old theorem
    did not reach: 4-D, six angles, periods `10, 4, 6, 8`, anisotropy `1/2`; the shifted point differs from the
    original one because the main axis is a unit vector -/
example : ∃ (angles : List ℝ) (period anis : Nat → ℝ) (x x' : Nat → Nat → ℝ) (c : Nat → ℤ),
    (∀ d < 4, period d ≠ 0) ∧ (∀ d < 4, anisP anis d ≠ 0) ∧
    (∀ e < 4, ∀ i < 1, x' e i = x e i + (c i : ℝ) * period 1 * Model.Geo.matrixDerotate 4 angles 1 e) ∧
    (∃ e < 4, x' e 0 ≠ x e 0) := by
  refine ⟨[0.3, -1.2, 0.7, 2.1, -0.4, 1.9], fun d => if d = 0 then 10 else if d = 1 then 4 else if d = 2 then 6 else 8,
    fun _ => 1 / 2, fun _ _ => 0, fun e _ => 1 * 4 * Model.Geo.matrixDerotate 4 [0.3, -1.2, 0.7, 2.1, -0.4, 1.9] 1 e,
    fun _ => 1, ?_, ?_, ?_, ?_⟩
  · intro d hd; interval_cases d <;> norm_num
  · intro d hd; interval_cases d <;> norm_num [anisP]
  · intro e _ i _; simp
  · -- a unit row has a non-zero entry
    by_contra hcon
    push Not at hcon
    have hrow := derotate_rows_orthonormal 4 [0.3, -1.2, 0.7, 2.1, -0.4, 1.9] 1 (by norm_num) 1 (by norm_num)
    have hz : ∀ e ∈ range 4, Model.Geo.matrixDerotate 4 ([0.3, -1.2, 0.7, 2.1, -0.4, 1.9] : List ℝ) 1 e *
        Model.Geo.matrixDerotate 4 [0.3, -1.2, 0.7, 2.1, -0.4, 1.9] 1 e = 0 := by
      intro e he
      have := hcon e (mem_range.mp he)
      have h0 : Model.Geo.matrixDerotate 4 ([0.3, -1.2, 0.7, 2.1, -0.4, 1.9] : List ℝ) 1 e = 0 := by
        have h4 : (1:ℝ) * 4 * Model.Geo.matrixDerotate 4 ([0.3, -1.2, 0.7, 2.1, -0.4, 1.9] : List ℝ) 1 e = 0 := this
        linarith
      rw [h0]; ring
    rw [Finset.sum_eq_zero hz] at hrow
    norm_num at hrow

/-! ### in-place setter histories of the MODEL object — `anis`, `angles`, `dim`, scalar `len_scale`, and per-axis
`len_scale` LISTS, which redefine the anisotropy ratios as `l_i / l_0` (`GSV.Model.Geo.mStep`)

`SRF.__call__` hands the model object as it is NOW to `Fourier.update` and isometrizes the positions (given or stored)
with the same object; the mode grid is rebuilt from the CURRENT ratios, the main axes are the rows of the derotation of
the CURRENT angles. -/

/-- what the Fourier generator reads of a plain model object in setter state `s`: the dimension and the CURRENT ratios
    (`tag` stands for everything else the comparison and the spectrum use) -/
def mdlOfState (s : Model.Geo.MState ℝ) (tag : Nat) : Mdl ℝ := ⟨s.dim, fun d => s.anis.getD d 1, tag⟩

/-- a model object that went through the constructor and any setters has non-zero (positive) ratios on every axis -/
theorem anisP_mdlOfState_pos {s : Model.Geo.MState ℝ} (hv : C12.MValid s) (tag : Nat) :
    ∀ d < s.dim, 0 < anisP (mdlOfState s tag).anis d := by
  intro d hd
  obtain ⟨_, hlen, _, hpos⟩ := hv
  unfold anisP mdlOfState
  by_cases h0 : d = 0
  · simp [h0]
  · rw [if_neg h0]
    have hlt : d - 1 < s.anis.length := by omega
    simp only [List.getD_eq_getElem?_getD, List.getElem?_eq_getElem hlt, Option.getD_some]
    exact hpos _ (List.getElem_mem hlt)

/-- **C17 after in-place changes of the model object, every dimension**: constructor of the model, ANY history of
    `dim` / `len_scale` (one value or one per axis) / `anis` / `angles` assignments (accepted or rejected), any history of
    generator updates, then an SRF call: the field repeats when every point is moved by an integer multiple of the
    stored period of axis `d₀` along the `d₀`-th main axis of the model AS IT IS NOW (row `d₀` of the derotation of the
    current angles), the grid being built from the CURRENT ratios. -/
theorem srf_after_model_setters_periodic (eqv : Mdl ℝ → Mdl ℝ → Bool) (heq : EqvExact eqv) (us : List (Upd ℝ))
    {d : Nat} {ls an ag : List ℝ} {s0 : Model.Geo.MState ℝ} (h0 : Model.Geo.mInit d ls an ag = .ok s0)
    (mops : List (Model.Geo.MOp ℝ)) (tag : Nat) (seed : Option Nat)
    (sched : Sched) (hs : sched.Admissible) (sf z1 z2 : Nat → ℝ) (N X : Nat) (x x' : Nat → Nat → ℝ)
    (d₀ : Nat) (c : Nat → ℤ) :
    let s := Model.Geo.mFinal s0 mops
    let m := mdlOfState s tag
    let st0 := run eqv blank us
    let st := (update eqv st0 ⟨some m, seed, none, none⟩).1
    d₀ < s.dim → st0.hasPeriod = true → s.dim = st0.model.dim →
    (∀ d < s.dim, st.period d ≠ 0) →
    (∀ e < s.dim, ∀ i < X, x' e i = x e i + (c i : ℝ) * st.period d₀ * Model.Geo.matrixDerotate s.dim s.angles d₀ e) →
    ∀ i, srfField sched (Model.Geo.matrixDerotate s.dim s.angles) m.anis sf st.modes z1 z2 N x' s.dim X i =
      srfField sched (Model.Geo.matrixDerotate s.dim s.angles) m.anis sf st.modes z1 z2 N x s.dim X i := by
  intro s m st0 st hd₀ hp hdim hL hshift i
  have hv : C12.MValid s := C12.mFinal_valid (C12.mInit_valid h0) mops
  exact srf_after_updates_periodic_any_dim eqv heq us m s.angles seed sched hs sf z1 z2 N X x x' d₀ hd₀ c hp hdim hL
    (fun d hd => ne_of_gt (anisP_mdlOfState_pos hv tag d hd)) hshift i

/-- **a per-axis `len_scale` list redefines the ratios the grid is built with**: after `model.len_scale = [l₀, l₁, …]`
    (one positive entry per axis) the generator reads the ratios `l_i / l₀` — the previous ratios are forgotten, the
    angles stay — so `delta_k` of axis `i ≥ 1` is `2π / L_i · l_i / l₀` -/
theorem lenlist_redefines_grid_ratios (s : Model.Geo.MState ℝ) (l0 l1 : ℝ) (ls : List ℝ) (hd : s.dim = ls.length + 2)
    (h0 : 0 < l0) (h : ∀ l ∈ l1 :: ls, 0 < l) (tag : Nat) (period : Nat → ℝ) :
    ∃ s', Model.Geo.mStep s (.setLenScale (l0 :: l1 :: ls)) = .ok s' ∧ s'.angles = s.angles ∧ s'.dim = s.dim ∧
      ∀ k, (hk : k < (l1 :: ls).length) →
        anisP (mdlOfState s' tag).anis (k + 1) = (l1 :: ls)[k] / l0 ∧
        deltaK period (mdlOfState s' tag).anis (k + 1) = 2 * Real.pi / period (k + 1) * ((l1 :: ls)[k] / l0) := by
  refine ⟨_, C12.setLenScale_list s l0 l1 ls hd h0 h, rfl, rfl, ?_⟩
  intro k hk
  have ha : anisP (mdlOfState { s with lenScale := l0, anis := (l1 :: ls).map fun l => l / l0 } tag).anis (k + 1) = (l1 :: ls)[k] / l0 := by
    have hk' : k < ((l1 :: ls).map fun l => l / l0).length := by simpa using hk
    simp only [anisP, mdlOfState, Nat.add_sub_cancel, Nat.succ_ne_zero, if_false, List.getD_eq_getElem?_getD,
      List.getElem?_eq_getElem hk', Option.getD_some, List.getElem_map]
  refine ⟨ha, ?_⟩
  unfold deltaK
  rw [ha]
  norm_num [Transc.pi]

example : ∃ s' : Model.Geo.MState ℝ, Model.Geo.mStep ⟨2, 3, [1 / 2], [0.4]⟩ (.setLenScale [4, 1]) = .ok s' ∧
    anisP (mdlOfState s' 0).anis 1 = 1 / 4 := by
  obtain ⟨s', h1, _, _, h4⟩ := lenlist_redefines_grid_ratios ⟨2, 3, [1 / 2], [0.4]⟩ 4 1 [] rfl (by norm_num) (by simp) 0 (fun _ => 1)
  exact ⟨s', h1, by simpa using (h4 0 (by simp)).1⟩

end GSV.Props.C17
