/-
  C02 — shipped covariance models are positive semi-definite where they claim validity.

  (1) decision logic: the code's acceptance predicate (`GSV.Model.Validity.accepts`: `check_dim` +
      bounds with the dimension at construction) implies the literature validity condition
      (`litValid`) — for every class, EVERY dimension and all parameter values of any ordered field.
  (2) closure: every way GSTools turns a valid isotropic correlation into a covariance matrix
      (variance, length scale, anisotropy + rotation, nugget, appended time axis, Yadrenko chordal
      distance on the sphere) preserves positive semi-definiteness of all finite matrices.
  (3) bounds: a PSD function satisfies `|ρ(r)| ≤ ρ(0)`.
  (4) families proved end to end: Gaussian (every dimension), Rational … see below.
  (6) the TPL classes as coded (truncation scales = rescaled lengths, two-term correlation) are the
      normalised superposition with non-negative weights that integrate to one; TPLGaussian end to end.
  `litValid ⇒ PSD` for the remaining families is classical analysis that is not in Mathlib (trusted).
-/
import GSV.Model.Validity
import GSV.RealInst
import GSV.Lemmas.Psd
import Mathlib.Tactic.Linarith
import Mathlib.Tactic.NormNum
import Mathlib.Tactic.FinCases
import Mathlib.Analysis.InnerProductSpace.PiL2
import Mathlib.Analysis.InnerProductSpace.ProdL2
import Mathlib.Geometry.Euclidean.Angle.Unoriented.Basic
import Mathlib.Analysis.SpecialFunctions.Gamma.Basic
import Mathlib.Analysis.SpecialFunctions.ImproperIntegrals
import Mathlib.Analysis.SpecialFunctions.Integrals.Basic
import Mathlib.Analysis.SpecialFunctions.Integrability.Basic
import Mathlib.MeasureTheory.Measure.Lebesgue.Basic
import Mathlib.MeasureTheory.Constructions.BorelSpace.Basic

namespace GSV.Props.C02
open GSV GSV.Model.Validity GSV.Lemmas.Psd

/-! ## (1) decision table -/

section table
variable {K : Type} [Field K] [LinearOrder K] [IsStrictOrderedRing K]

omit [IsStrictOrderedRing K] in
theorem errCase_eq_zero_iff (b : Bound K) (v : K) :
    errCase b v = 0 ↔
      (if b.iv.lowerClosed then b.lo ≤ v else b.lo < v) ∧
      (match b.hi with
       | none => True
       | some hi => if b.iv.upperClosed then v ≤ hi else v < hi) := by
  unfold errCase
  cases hhi : b.hi <;> cases hl : b.iv.lowerClosed <;> simp only []
  all_goals try (cases hu : b.iv.upperClosed)
  all_goals simp only [Bool.false_eq_true, if_true, if_false, and_true, gt_iff_lt, ge_iff_le]
  all_goals split_ifs <;> simp_all [not_lt, not_le]

theorem dbl01_pos : (0 : K) < dbl01 := by unfold dbl01; positivity
theorem dbl02_pos : (0 : K) < dbl02 := by unfold dbl02; positivity

/-- **C02 validity table.**  Whatever the class, the dimension (every `d`, not only 1…4 — so the
    lat-lon (3), lat-lon + time (4) and `spatial_dim + 1` cases are included) and the parameter
    values: a model that the code accepts without an invalid-dimension warning satisfies the literature
    validity condition of its family in that dimension. -/
theorem validity_table (c : Cls) (d : Nat) (p : Params K) (h : accepts c d p = true) : litValid c d p := by
  unfold accepts at h
  rw [Bool.and_eq_true, Option.isNone_iff_eq_none] at h
  obtain ⟨hd, hb⟩ := h
  unfold firstError allBounds at hb
  rw [List.findSome?_eq_none_iff] at hb
  have key : ∀ a b, (a, b) ∈ baseBounds (α := K) ++ optBounds c d → errCase b (p.get a) = 0 := by
    intro a b hab
    have := hb (a, b) hab
    simpa using this
  have hvar := (errCase_eq_zero_iff _ _).1 (key .var ⟨((0:Nat):K), none, .oo⟩ (by simp [baseBounds]))
  have hlen := (errCase_eq_zero_iff _ _).1 (key .lenScale ⟨((0:Nat):K), none, .oo⟩ (by simp [baseBounds]))
  have hnug := (errCase_eq_zero_iff _ _).1 (key .nugget ⟨((0:Nat):K), none, .co⟩ (by simp [baseBounds]))
  simp only [Iv.lowerClosed, Params.get, Bool.false_eq_true, if_false, if_true, and_true,
    Nat.cast_zero] at hvar hlen hnug
  refine ⟨by simpa using hvar.le, by simpa using hlen, by simpa using hnug, ?_⟩
  have h01 := dbl01_pos (K := K)
  have h02 := dbl02_pos (K := K)
  cases c <;> simp only [litValidShape, checkDim, decide_eq_true_eq] at hd ⊢ <;> try trivial
  all_goals try omega
  -- classes with optional arguments: read the relevant bounds off `key`
  case Matern =>
    have := (errCase_eq_zero_iff _ _).1 (key .nu ⟨dbl02, some ((30:Nat):K), .cc⟩ (by simp [optBounds]))
    simp only [Iv.lowerClosed, Iv.upperClosed, Params.get, if_true] at this
    push_cast; linarith [this.1]
  case Integral =>
    have := (errCase_eq_zero_iff _ _).1 (key .nu ⟨((0:Nat):K), some ((50:Nat):K), .oc⟩ (by simp [optBounds]))
    simp only [Iv.lowerClosed, Iv.upperClosed, Params.get, Bool.false_eq_true, if_false, if_true] at this
    exact this.1
  case Stable =>
    have := (errCase_eq_zero_iff _ _).1 (key .alpha ⟨((0:Nat):K), some ((2:Nat):K), .oc⟩ (by simp [optBounds]))
    simp only [Iv.lowerClosed, Iv.upperClosed, Params.get, Bool.false_eq_true, if_false, if_true] at this
    exact this
  case Rational =>
    have := (errCase_eq_zero_iff _ _).1
      (key .alpha ⟨((1:Nat):K) / ((2:Nat):K), some ((50:Nat):K), .cc⟩ (by simp [optBounds]))
    simp only [Iv.lowerClosed, Iv.upperClosed, Params.get, if_true] at this
    have h2 : (0:K) < ((1:Nat):K) / ((2:Nat):K) := by positivity
    push_cast at h2 ⊢; linarith [this.1]
  case SuperSpherical =>
    have := (errCase_eq_zero_iff _ _).1
      (key .nu ⟨(((d:Nat):K) - ((1:Nat):K)) / ((2:Nat):K), some ((50:Nat):K), .cc⟩ (by simp [optBounds]))
    simp only [Iv.lowerClosed, Iv.upperClosed, Params.get, if_true] at this
    exact this.1
  case JBessel =>
    have := (errCase_eq_zero_iff _ _).1
      (key .nu ⟨((d:Nat):K) / ((2:Nat):K) - ((1:Nat):K), some ((50:Nat):K), .cc⟩ (by simp [optBounds]))
    simp only [Iv.lowerClosed, Iv.upperClosed, Params.get, if_true] at this
    exact this.1
  case TPLSimple =>
    have := (errCase_eq_zero_iff _ _).1
      (key .nu ⟨(((d:Nat):K) + ((1:Nat):K)) / ((2:Nat):K), some ((50:Nat):K), .cc⟩ (by simp [optBounds]))
    simp only [Iv.lowerClosed, Iv.upperClosed, Params.get, if_true] at this
    exact this.1
  case TPLGaussian =>
    have hh := (errCase_eq_zero_iff _ _).1 (key .hurst ⟨dbl01, some ((1:Nat):K), .oo⟩ (by simp [optBounds]))
    have hl := (errCase_eq_zero_iff _ _).1 (key .lenLow ⟨((0:Nat):K), none, .co⟩ (by simp [optBounds]))
    simp only [Iv.lowerClosed, Iv.upperClosed, Params.get, Bool.false_eq_true, if_false, if_true, and_true] at hh hl
    exact ⟨by push_cast; linarith [hh.1], hh.2, hl⟩
  case TPLExponential =>
    have hh := (errCase_eq_zero_iff _ _).1 (key .hurst ⟨dbl01, some ((1:Nat):K), .oo⟩ (by simp [optBounds]))
    have hl := (errCase_eq_zero_iff _ _).1 (key .lenLow ⟨((0:Nat):K), none, .co⟩ (by simp [optBounds]))
    simp only [Iv.lowerClosed, Iv.upperClosed, Params.get, Bool.false_eq_true, if_false, if_true, and_true] at hh hl
    exact ⟨by push_cast; linarith [hh.1], hh.2, hl⟩
  case TPLStable =>
    have hh := (errCase_eq_zero_iff _ _).1 (key .hurst ⟨dbl01, some ((1:Nat):K), .oo⟩ (by simp [optBounds]))
    have ha := (errCase_eq_zero_iff _ _).1 (key .alpha ⟨((0:Nat):K), some ((2:Nat):K), .oc⟩ (by simp [optBounds]))
    have hl := (errCase_eq_zero_iff _ _).1 (key .lenLow ⟨((0:Nat):K), none, .co⟩ (by simp [optBounds]))
    simp only [Iv.lowerClosed, Iv.upperClosed, Params.get, Bool.false_eq_true, if_false, if_true, and_true]
      at hh ha hl
    exact ⟨by push_cast; linarith [hh.1], hh.2, hl, ha.1, ha.2⟩

/-- non-trivial instance of the hypothesis: the 3-D JBessel model at the edge of its bound -/
example : accepts (α := ℚ) .JBessel 3 ⟨1, 1, 0, 1/2, 0, 0, 0⟩ = true := by
  simp [accepts, checkDim, firstError, allBounds, baseBounds, optBounds, errCase, Iv.lowerClosed,
    Iv.upperClosed, Params.get]
  norm_num

/-- the defaults of every class are accepted wherever `check_dim` holds (so the table is not vacuous) -/
theorem defaults_accepted (c : Cls) (d : Nat) (hd : checkDim c d = true) (hd99 : d ≤ 99) :
    accepts (α := K) c d (defaultParams c d) = true := by
  have hd99K : (d : K) ≤ 99 := by exact_mod_cast hd99
  have h01 : (dbl01 : K) < 1 / 2 := by unfold dbl01; rw [div_lt_div_iff₀ (by positivity) (by positivity)]; norm_num
  have h01' : (dbl01 : K) < 1 / 4 := by unfold dbl01; rw [div_lt_div_iff₀ (by positivity) (by positivity)]; norm_num
  have h02 : (dbl02 : K) ≤ 1 := by unfold dbl02; rw [div_le_one (by positivity)]; norm_num
  have hdK : (0 : K) ≤ (d : K) := Nat.cast_nonneg d
  unfold accepts
  rw [hd, Bool.true_and, Option.isNone_iff_eq_none]
  cases c <;>
    simp [firstError, allBounds, baseBounds, optBounds, errCase, defaultParams, optDefaults, Params.get,
      Iv.lowerClosed, Iv.upperClosed, List.findSome?]
  all_goals
    (split_ifs <;> first | rfl | (exfalso; linarith) | (exfalso; norm_num at *))

/-! ### dimension changed after construction (finding D8) -/

/-- what one would like to hold after `model.dim = d1` -/
def setdim_validity_full : Prop :=
  ∀ (c : Cls) (d0 d1 : Nat) (p : Params ℚ), acceptsAfterSetDim c d0 d1 p = true → litValid c d1 p

/-- **The full statement is false of the current code**: `JBessel(dim=1, nu=0)` followed by
    `model.dim = 3` is accepted (bounds are frozen at construction) although `ν = 0 < 3/2 − 1`.
    The same witness is replayed on the implementation by the search (`stale-dim-dependent-bounds`). -/
theorem setdim_validity_full_false : ¬ setdim_validity_full := by
  intro h
  have hacc : acceptsAfterSetDim (α := ℚ) .JBessel 1 3 ⟨1, 1, 0, 0, 0, 0, 0⟩ = true := by
    simp [acceptsAfterSetDim, checkDim, firstError, allBounds, baseBounds, optBounds, errCase,
      Iv.lowerClosed, Iv.upperClosed, Params.get]
    norm_num
  have := (h .JBessel 1 3 ⟨1, 1, 0, 0, 0, 0, 0⟩ hacc).2.2.2
  simp only [litValidShape] at this
  norm_num at this

/-- what does hold: lowering the dimension (or keeping it) is safe, because every dimension-dependent
    lower bound is monotone in the dimension. -/
theorem setdim_validity_partial (c : Cls) (d0 d1 : Nat) (p : Params K) (hle : d1 ≤ d0)
    (h : acceptsAfterSetDim c d0 d1 p = true) : litValid c d1 p := by
  unfold acceptsAfterSetDim at h
  rw [Bool.and_eq_true] at h
  obtain ⟨hd1, hb⟩ := h
  -- the frozen bounds make the model acceptable in dimension d0 up to check_dim; use a class for which
  -- check_dim d0 may fail: validity in d0 is only used for the bound part
  have hcast : (d1 : K) ≤ (d0 : K) := Nat.cast_le.2 hle
  by_cases hd0 : checkDim c d0 = true
  · have hv := validity_table c d0 p (by unfold accepts; rw [hd0, hb]; rfl)
    obtain ⟨h1, h2, h3, h4⟩ := hv
    refine ⟨h1, h2, h3, ?_⟩
    cases c <;> simp only [litValidShape, checkDim, decide_eq_true_eq] at hd1 h4 ⊢ <;> try trivial
    all_goals try omega
    · have : (((d1:Nat):K) - ((1:Nat):K)) / ((2:Nat):K) ≤ (((d0:Nat):K) - ((1:Nat):K)) / ((2:Nat):K) := by
        push_cast; linarith
      exact this.trans h4
    · have : ((d1:Nat):K) / ((2:Nat):K) - ((1:Nat):K) ≤ ((d0:Nat):K) / ((2:Nat):K) - ((1:Nat):K) := by
        push_cast; linarith
      exact this.trans h4
    · have : (((d1:Nat):K) + ((1:Nat):K)) / ((2:Nat):K) ≤ (((d0:Nat):K) + ((1:Nat):K)) / ((2:Nat):K) := by
        push_cast; linarith
      exact this.trans h4
  · -- only Cubic/Linear/Circular/Spherical can fail check_dim; they have no optional bounds
    have hbase : accepts c d1 p = true := by
      unfold accepts; rw [hd1, Bool.true_and]
      cases c <;> simp_all [checkDim, allBounds, optBounds]
    exact validity_table c d1 p hbase

/-! ### in-place histories (evaluate, change through the setters, evaluate, …) -/

omit [IsStrictOrderedRing K] in
/-- no operation touches the class, the stored bounds or the lat-lon forcing -/
theorem hStep_invariants (s : HState K) (o : HOp K) :
    (hStep s o).1.cls = s.cls ∧ (hStep s o).1.boundsDim = s.boundsDim ∧ (hStep s o).1.forced = s.forced := by
  cases o <;> simp only [hStep] <;> (try split_ifs) <;> simp

omit [IsStrictOrderedRing K] in
theorem hRun_invariants (s : HState K) (ops : List (HOp K)) :
    (hRun s ops).cls = s.cls ∧ (hRun s ops).boundsDim = s.boundsDim ∧ (hRun s ops).forced = s.forced := by
  induction ops generalizing s with
  | nil => simp [hRun]
  | cons o os ih =>
    have h1 := hStep_invariants s o
    have h2 := ih (hStep s o).1
    simp only [hRun, List.foldl_cons] at h2 ⊢
    exact ⟨h2.1.trans h1.1, h2.2.1.trans h1.2.1, h2.2.2.trans h1.2.2⟩

omit [IsStrictOrderedRing K] in
/-- **Evaluations leave no trace**: the state reached by a history is the state reached by the same history with every
    read access removed — the model of "the code keeps no cache"; the correspondence compares the real object after the
    history with a freshly constructed one of the predicted (dimension, values). -/
theorem history_eval_irrelevant (s : HState K) (ops : List (HOp K)) :
    hRun s ops = hRun s (ops.filter fun o => !o.isEval) := by
  induction ops generalizing s with
  | nil => rfl
  | cons o os ih =>
    cases o with
    | eval => simpa [hRun, hStep, HOp.isEval] using ih s
    | setDim d => simpa [hRun, HOp.isEval] using ih (hStep s (.setDim d)).1
    | setArg a v => simpa [hRun, HOp.isEval] using ih (hStep s (.setArg a v)).1

/-- whatever the history: a state that a FRESH constructor accepts is valid in the current dimension (this is the
    classification the search applies after every history). -/
theorem history_validity_of_fresh (s0 : HState K) (ops : List (HOp K))
    (h : hFreshAccepted (hRun s0 ops) = true) :
    litValid (hRun s0 ops).cls (hRun s0 ops).dim (hRun s0 ops).p :=
  validity_table _ _ _ h

/-- **After any history** of evaluations, dimension changes and parameter changes on a model constructed in dimension
    `d0`: if the object accepts its current state (stored bounds + `check_dim` of the current dimension) and the current
    dimension does not exceed `d0`, the state is valid in the current dimension. -/
theorem history_validity_partial (c : Cls) (d0 : Nat) (forced : Option Nat) (p0 : Params K) (ops : List (HOp K))
    (hacc : hAccepted (hRun (hInit c d0 forced p0) ops) = true)
    (hle : (hRun (hInit c d0 forced p0) ops).dim ≤ d0) :
    litValid c (hRun (hInit c d0 forced p0) ops).dim (hRun (hInit c d0 forced p0) ops).p := by
  obtain ⟨hc, hb, _⟩ := hRun_invariants (hInit c d0 forced p0) ops
  have hc : (hRun (hInit c d0 forced p0) ops).cls = c := hc
  have hb : (hRun (hInit c d0 forced p0) ops).boundsDim = d0 := hb
  unfold hAccepted at hacc
  rw [hc, hb] at hacc
  exact setdim_validity_partial c d0 _ _ hle hacc

omit [IsStrictOrderedRing K] in
/-- for the 14 classes whose bounds do not depend on the dimension the stored bounds are the bounds of every dimension -/
theorem acceptsAfterSetDim_eq_accepts (c : Cls) (hc : dimIndepBounds c = true) (d0 d1 : Nat) (p : Params K) :
    acceptsAfterSetDim c d0 d1 p = accepts c d1 p := by
  cases c <;> simp_all [dimIndepBounds, acceptsAfterSetDim, accepts, allBounds, optBounds]

/-- **After any history, every dimension** (up or down): for the 14 classes without dimension-dependent bounds
    (HyperSpherical, Gaussian, …, the TPL classes except TPLSimple) a state the object accepts is valid in the current
    dimension.  The remaining three are finding D8 (`setdim_validity_full_false`). -/
theorem history_validity_dim_indep (c : Cls) (hc : dimIndepBounds c = true) (d0 : Nat) (forced : Option Nat)
    (p0 : Params K) (ops : List (HOp K)) (hacc : hAccepted (hRun (hInit c d0 forced p0) ops) = true) :
    litValid c (hRun (hInit c d0 forced p0) ops).dim (hRun (hInit c d0 forced p0) ops).p := by
  obtain ⟨hcl, hb, _⟩ := hRun_invariants (hInit c d0 forced p0) ops
  have hcl : (hRun (hInit c d0 forced p0) ops).cls = c := hcl
  have hb : (hRun (hInit c d0 forced p0) ops).boundsDim = d0 := hb
  unfold hAccepted at hacc
  rw [hcl, hb, acceptsAfterSetDim_eq_accepts c hc] at hacc
  exact validity_table c _ _ hacc

/-- non-trivial instance: a HyperSpherical model built in 1-D, evaluated, raised to 3-D, its variance changed, evaluated
    again — accepted, in dimension 3 -/
example : let s := hRun (hInit (α := ℚ) .HyperSpherical 1 none ⟨1, 1, 0, 0, 0, 0, 0⟩) [.eval, .setDim 3, .setArg .var 2, .eval]
    hAccepted s = true ∧ s.dim = 3 ∧ s.p.var = 2 := by
  simp [hRun, hStep, hInit, hAccepted, acceptsAfterSetDim, checkDim, firstError, allBounds, baseBounds, optBounds,
    errCase, Iv.lowerClosed, Iv.upperClosed, Params.get, Params.set]

/-- and of the partial statement: SuperSpherical built in 3-D (ν = 1), lowered to 2-D after an evaluation -/
example : let s := hRun (hInit (α := ℚ) .SuperSpherical 3 none ⟨1, 1, 0, 1, 0, 0, 0⟩) [.eval, .setDim 2, .eval]
    hAccepted s = true ∧ s.dim ≤ 3 := by
  simp [hRun, hStep, hInit, hAccepted, acceptsAfterSetDim, checkDim, firstError, allBounds, baseBounds, optBounds,
    errCase, Iv.lowerClosed, Iv.upperClosed, Params.get]
  norm_num

end table

/-! ## (2) closure: from a valid isotropic correlation to every covariance matrix GSTools builds -/

section closure
variable {E F : Type*}

/-- `var ≥ 0` times a PSD function is PSD (`covariance = var · correlation`). -/
theorem psd_scale [Sub E] {ρ : E → ℝ} (h : IsPSDFun ρ) {var : ℝ} (hv : 0 ≤ var) :
    IsPSDFun fun r => var * ρ r :=
  IsPSDKernel.smul h hv

/-- sums of PSD functions are PSD (nested structures, nugget as a model). -/
theorem psd_sum [Sub E] {ρ₁ ρ₂ : E → ℝ} (h₁ : IsPSDFun ρ₁) (h₂ : IsPSDFun ρ₂) :
    IsPSDFun fun r => ρ₁ r + ρ₂ r :=
  IsPSDKernel.add h₁ h₂

/-- finite sums -/
theorem psd_finset_sum [Sub E] {ι : Type*} (s : Finset ι) {ρ : ι → E → ℝ} (h : ∀ i ∈ s, IsPSDFun (ρ i)) :
    IsPSDFun fun r => ∑ i ∈ s, ρ i r :=
  IsPSDKernel.sum s h

/-- products of PSD functions are PSD (Schur). -/
theorem psd_mul [Sub E] {ρ₁ ρ₂ : E → ℝ} (h₁ : IsPSDFun ρ₁) (h₂ : IsPSDFun ρ₂) :
    IsPSDFun fun r => ρ₁ r * ρ₂ r :=
  IsPSDKernel.mul h₁ h₂

/-- **Linear images.**  If `ρ` is PSD on `F` then `ρ ∘ A` is PSD on `E` for every additive (in particular
    every linear) map `A : E → F` — `isometrize` = stretch ∘ rotate, division by the length scale,
    `rescale`, embedding of a lower-dimensional space.  No invertibility is needed. -/
theorem psd_linear_image [AddGroup E] [AddGroup F] {ρ : F → ℝ} (h : IsPSDFun ρ) (A : E →+ F) :
    IsPSDFun fun r => ρ (A r) := by
  have := IsPSDKernel.comp h (fun x : E => A x)
  simpa [IsPSDFun, map_sub] using this

/-- the same for `ℝ`-linear maps -/
theorem psd_linear_map [AddCommGroup E] [Module ℝ E] [AddCommGroup F] [Module ℝ F] {ρ : F → ℝ}
    (h : IsPSDFun ρ) (A : E →ₗ[ℝ] F) : IsPSDFun fun r => ρ (A r) :=
  psd_linear_image h A.toAddMonoidHom

/-- **Nugget as a function**: the zero-lag indicator is PSD on every group. -/
theorem psd_delta [AddGroup E] [DecidableEq E] : IsPSDFun fun r : E => if r = 0 then (1 : ℝ) else 0 := by
  have := IsPSDKernel.delta (X := E)
  simpa [IsPSDFun, sub_eq_zero] using this

/-- **Nugget / measurement error on a matrix**: adding a non-negative diagonal keeps a PSD matrix PSD
    (nugget on distinct points, per-point `cond_err` variances). -/
theorem psd_nugget {n : Type*} [Fintype n] [DecidableEq n] {M : Matrix n n ℝ} (hM : M.PosSemidef)
    {e : n → ℝ} (he : ∀ i, 0 ≤ e i) : (M + Matrix.diagonal e).PosSemidef :=
  hM.add (Matrix.PosSemidef.diagonal he)

/-- PSD radial profile on a normed group: `φ ∘ ‖·‖` is PSD -/
def IsPSDRadial (E : Type*) [NormedAddCommGroup E] (φ : ℝ → ℝ) : Prop := IsPSDFun fun v : E => φ ‖v‖

/-- **The spatial covariance of a GSTools model** (`cov_spatial` + nugget at zero lag): for a correlation
    profile valid on `F`, any `var ≥ 0`, `nugget ≥ 0`, any length scale `ℓ > 0` and any linear map `A`
    (anisotropy ∘ rotation), `var · φ(‖A(x − y)‖ / ℓ) + nugget · [A (x − y) = 0]` is PSD. -/
theorem psd_cov_spatial [NormedAddCommGroup E] [NormedSpace ℝ E] [NormedAddCommGroup F] [NormedSpace ℝ F]
    [DecidableEq F]
    {φ : ℝ → ℝ} (h : IsPSDRadial F φ) (A : E →ₗ[ℝ] F) {var nugget ℓ : ℝ} (hv : 0 ≤ var) (hn : 0 ≤ nugget)
    (hl : 0 < ℓ) :
    IsPSDFun fun r : E => var * φ (‖A r‖ / ℓ) + nugget * (if A r = 0 then 1 else 0) := by
  have h1 : IsPSDFun fun r : E => φ (‖A r‖ / ℓ) := by
    have := psd_linear_map h ((ℓ⁻¹ • A : E →ₗ[ℝ] F))
    simpa [IsPSDRadial, norm_smul, abs_of_pos hl, div_eq_inv_mul] using this
  have h2 : IsPSDFun fun r : E => (if A r = 0 then (1 : ℝ) else 0) :=
    psd_linear_map (psd_delta (E := F)) A
  exact psd_sum (psd_scale h1 hv) (psd_scale h2 hn)

end closure

/-! ### Yadrenko: lat-lon models through the chordal distance -/

section yadrenko
variable {V : Type*} [NormedAddCommGroup V] [InnerProductSpace ℝ V]

/-- On a sphere of radius `R` the Euclidean distance of two points is the chordal distance of their
    angle: `‖x − y‖ = 2 R sin(∠(x, y) / 2)`; with the great-circle distance `ζ = R·∠` this is
    `great_circle_to_chordal(ζ, R) = 2 R sin(ζ / (2 R))`. -/
theorem chordal_eq_dist {R : ℝ} (hR : 0 ≤ R) {x y : V} (hx : ‖x‖ = R) (hy : ‖y‖ = R) :
    ‖x - y‖ = 2 * R * Real.sin (InnerProductGeometry.angle x y / 2) := by
  have hθ0 := InnerProductGeometry.angle_nonneg x y
  have hθπ := InnerProductGeometry.angle_le_pi x y
  have hsin : 0 ≤ Real.sin (InnerProductGeometry.angle x y / 2) :=
    Real.sin_nonneg_of_nonneg_of_le_pi (by linarith) (by linarith)
  have hrhs : 0 ≤ 2 * R * Real.sin (InnerProductGeometry.angle x y / 2) := by positivity
  have hsq : ‖x - y‖ ^ 2 = (2 * R * Real.sin (InnerProductGeometry.angle x y / 2)) ^ 2 := by
    rw [@norm_sub_sq_real, ← InnerProductGeometry.cos_angle_mul_norm_mul_norm x y, hx, hy]
    have hc : Real.cos (InnerProductGeometry.angle x y)
        = 1 - 2 * Real.sin (InnerProductGeometry.angle x y / 2) ^ 2 := by
      have := Real.cos_two_mul (InnerProductGeometry.angle x y / 2)
      rw [show 2 * (InnerProductGeometry.angle x y / 2) = InnerProductGeometry.angle x y by ring] at this
      rw [this, Real.cos_sq']; ring
    rw [hc]; ring
  exact (sq_eq_sq₀ (norm_nonneg _) hrhs).1 hsq

/-- **Yadrenko construction.**  If the profile `φ` is valid in the ambient space `V` (= `ℝ³`), then for
    every family of points ON THE SPHERE of radius `R`, the matrix `[φ(2 R sin(∠(x_i, x_j)/2))]` — the
    model evaluated at the chordal distance of the great-circle lag, which is what `cov_yadrenko` does — is PSD. -/
theorem psd_yadrenko {φ : ℝ → ℝ} (h : IsPSDRadial V φ) {R : ℝ} (hR : 0 ≤ R) :
    IsPSDKernel fun a b : {x : V // ‖x‖ = R} =>
      φ (2 * R * Real.sin (InnerProductGeometry.angle (a : V) (b : V) / 2)) := by
  have h' : IsPSDKernel fun x y : V => φ ‖x - y‖ := h
  have := IsPSDKernel.comp h' (fun a : {x : V // ‖x‖ = R} => (a : V))
  convert this using 3 with a b
  rw [chordal_eq_dist hR a.2 b.2]

end yadrenko

/-! ### metric space–time models -/

section time
variable {E : Type*} [NormedAddCommGroup E]

/-- **Appended, scaled time axis.**  If the profile is valid on the `L²` product `E × ℝ` (= `ℝ^{d+1}` for
    `E = ℝ^d`; `ℝ⁴` for lat-lon + time), then for space–time points `(x, t)` the matrix of
    `φ(√(‖x_i − x_j‖² + (κ (t_i − t_j))²))` is PSD for every time scaling `κ`. -/
theorem psd_metric_time {φ : ℝ → ℝ} (h : IsPSDRadial (WithLp 2 (E × ℝ)) φ) (κ : ℝ) :
    IsPSDKernel fun a b : E × ℝ => φ (Real.sqrt (‖a.1 - b.1‖ ^ 2 + (κ * (a.2 - b.2)) ^ 2)) := by
  have h' : IsPSDKernel fun x y : WithLp 2 (E × ℝ) => φ ‖x - y‖ := h
  have := h'.comp (fun a : E × ℝ => (WithLp.toLp 2 (a.1, κ * a.2) : WithLp 2 (E × ℝ)))
  convert this using 3 with a b
  rw [WithLp.prod_norm_eq_of_L2]
  simp only [WithLp.sub_fst, WithLp.sub_snd, WithLp.toLp_fst, WithLp.toLp_snd, Real.norm_eq_abs, sq_abs]
  ring_nf

/-- lat-lon + time: points on the sphere of radius `R` in `V` with a time stamp -/
theorem psd_yadrenko_time {V : Type*} [NormedAddCommGroup V] [InnerProductSpace ℝ V] {φ : ℝ → ℝ}
    (h : IsPSDRadial (WithLp 2 (V × ℝ)) φ) {R : ℝ} (hR : 0 ≤ R) (κ : ℝ) :
    IsPSDKernel fun a b : {x : V // ‖x‖ = R} × ℝ =>
      φ (Real.sqrt ((2 * R * Real.sin (InnerProductGeometry.angle (a.1 : V) (b.1 : V) / 2)) ^ 2
        + (κ * (a.2 - b.2)) ^ 2)) := by
  have := (psd_metric_time h κ).comp (fun a : {x : V // ‖x‖ = R} × ℝ => ((a.1 : V), a.2))
  convert this using 3 with a b
  rw [chordal_eq_dist hR a.1.2 b.1.2]

end time

/-! ## (3) bounds -/

section bounds
variable {E : Type*} [AddGroup E]

/-- a PSD function is even -/
theorem psd_even {ρ : E → ℝ} (h : IsPSDFun ρ) (r : E) : ρ (-r) = ρ r := by
  have := IsPSDKernel.symm h 0 r
  simpa using this

/-- **`|ρ(r)| ≤ ρ(0)`** for every PSD function (2×2 minor). -/
theorem cor_le_one {ρ : E → ℝ} (h : IsPSDFun ρ) (r : E) : |ρ r| ≤ ρ 0 := by
  have h0 : 0 ≤ ρ 0 := by simpa using IsPSDKernel.diag_nonneg h (0 : E)
  have := IsPSDKernel.abs_le h r 0
  simp only [sub_zero, sub_self] at this
  rwa [← sq, Real.sqrt_sq h0] at this

/-- for a correlation (`ρ 0 = 1`): `−1 ≤ ρ r ≤ 1` -/
theorem cor_mem_Icc {ρ : E → ℝ} (h : IsPSDFun ρ) (h1 : ρ 0 = 1) (r : E) : -1 ≤ ρ r ∧ ρ r ≤ 1 := by
  have := cor_le_one h r
  rw [h1] at this
  exact abs_le.1 this

end bounds

/-! ## (4) families proved end to end -/

section families
variable {V : Type*} [NormedAddCommGroup V] [InnerProductSpace ℝ V]

/-- `exp(−‖x − y‖²) = e^{−‖x‖²} · e^{2⟨x,y⟩} · e^{−‖y‖²}`; the middle factor is the entrywise exponential
    of a Gram kernel. -/
theorem gaussian_psd : IsPSDRadial V fun r => Real.exp (-(r ^ 2)) := by
  have h1 : IsPSDKernel fun a b : V => Real.exp (2 * inner ℝ a b) :=
    (IsPSDKernel.inner.smul (by norm_num : (0:ℝ) ≤ 2)).exp
  have h2 := h1.conj (fun a => Real.exp (-‖a‖ ^ 2))
  unfold IsPSDRadial IsPSDFun
  convert h2 using 3 with a b
  rw [← Real.exp_add, ← Real.exp_add]
  show Real.exp (-‖a - b‖ ^ 2) = _
  rw [@norm_sub_sq_real]
  congr 1; ring

/-- rescaled profile: `φ(c · r)` is valid wherever `φ` is (`c = rescale / len_scale`) -/
theorem psd_radial_scale {φ : ℝ → ℝ} (h : IsPSDRadial V φ) {c : ℝ} (hc : 0 ≤ c) :
    IsPSDRadial V fun r => φ (c * r) := by
  have := psd_linear_map h (c • (LinearMap.id : V →ₗ[ℝ] V))
  simpa [IsPSDRadial, norm_smul, abs_of_nonneg hc] using this

/-- **The Gaussian model of GSTools** `ρ(r) = exp(−(s r / ℓ)²)` is a valid correlation in every
    dimension (every real inner-product space), for every rescale factor `s` and length `ℓ`. -/
theorem gaussian_model_psd (s ℓ : ℝ) : IsPSDRadial V fun r => Real.exp (-((s * r / ℓ) ^ 2)) := by
  have := psd_radial_scale (gaussian_psd (V := V)) (abs_nonneg (s / ℓ))
  convert this using 3 with r
  rw [mul_pow, sq_abs]; ring

theorem gaussian_cor_zero (s ℓ : ℝ) : Real.exp (-((s * 0 / ℓ) ^ 2)) = 1 := by simp

/-! ### non-negative spectrum ⇒ positive semi-definite (the direction of Bochner's theorem the property uses) -/

section spectral
open MeasureTheory

/-- a single wave: `cos⟨k, x − y⟩` is PSD (it is `cos a cos b + sin a sin b`) -/
theorem psd_cos (k : V) : IsPSDFun fun r : V => Real.cos (inner ℝ k r) := by
  have := IsPSDKernel.cos_sub (fun a : V => (inner ℝ k a : ℝ))
  unfold IsPSDFun
  convert this using 3 with a b
  show Real.cos (inner ℝ k (a - b)) = _
  rw [inner_sub_right]

/-- **Discrete spectrum.**  `ρ(r) = Σ_j w_j cos⟨k_j, r⟩` with non-negative weights is PSD — in particular
    the covariance `(var/N) Σ_j cos⟨k_j, x − y⟩` realised by the randomization method for ANY set of modes. -/
theorem psd_of_spectral_sum {ι : Type*} (s : Finset ι) (w : ι → ℝ) (k : ι → V) (hw : ∀ j ∈ s, 0 ≤ w j) :
    IsPSDFun fun r : V => ∑ j ∈ s, w j * Real.cos (inner ℝ (k j) r) :=
  psd_finset_sum s fun j hj => psd_scale (psd_cos (k j)) (hw j hj)

/-- **Non-negative spectral density ⇒ PSD.**  If `S ≥ 0` is integrable against a measure `μ` on the wave
    vectors (Lebesgue measure for a spectral density, any finite measure with `S = 1` for a spectral
    measure), then `ρ(r) = ∫ S(k) cos⟨k, r⟩ dμ(k)` is a positive semi-definite function. -/
theorem psd_of_spectral_density [MeasurableSpace V] [BorelSpace V] [SecondCountableTopology V]
    (μ : Measure V) {S : V → ℝ} (hS : ∀ k, 0 ≤ S k) (hint : Integrable S μ) :
    IsPSDFun fun r : V => ∫ k, S k * Real.cos (inner ℝ k r) ∂μ := by
  unfold IsPSDFun
  refine IsPSDKernel.integral μ (F := fun k a b => S k * Real.cos (inner ℝ k (a - b))) ?_ ?_
  · exact Filter.Eventually.of_forall fun k => psd_scale (psd_cos k) (hS k)
  · intro a b
    have hc : Continuous fun k : V => Real.cos (inner ℝ k (a - b)) :=
      Real.continuous_cos.comp (continuous_id.inner continuous_const)
    refine (hint.mul_bdd (c := 1) hc.aestronglyMeasurable ?_)
    exact Filter.Eventually.of_forall fun k => by simpa using Real.abs_cos_le_one _

/-- spectral *measure* version: `ρ(r) = ∫ cos⟨k, r⟩ dμ(k)` for a finite measure `μ` (e.g. the uniform
    measure on a sphere of wave vectors, whose transform is the J-Bessel model at `ν = d/2 − 1`). -/
theorem psd_of_spectral_measure [MeasurableSpace V] [BorelSpace V] [SecondCountableTopology V]
    (μ : Measure V) [IsFiniteMeasure μ] : IsPSDFun fun r : V => ∫ k, Real.cos (inner ℝ k r) ∂μ := by
  have := psd_of_spectral_density μ (S := fun _ => (1:ℝ)) (fun _ => zero_le_one) (integrable_const _)
  simpa using this

end spectral

/-! ### the Rational (rational-quadratic) family as a Gamma mixture of Gaussians -/

section rational
open MeasureTheory Set

/-- `(1 + u)^(−α) = Γ(α)⁻¹ ∫₀^∞ t^(α−1) e^{−(1+u) t} dt` -/
theorem rational_mixture {α u : ℝ} (hα : 0 < α) (hu : 0 ≤ u) :
    (1 + u) ^ (-α) = (Real.Gamma α)⁻¹ * ∫ t in Ioi (0:ℝ), t ^ (α - 1) * Real.exp (-((1 + u) * t)) := by
  have h1 : 0 < 1 + u := by linarith
  rw [Real.integral_rpow_mul_exp_neg_mul_Ioi hα h1]
  have hΓ : Real.Gamma α ≠ 0 := (Real.Gamma_pos_of_pos hα).ne'
  rw [one_div, Real.inv_rpow h1.le, ← Real.rpow_neg h1.le]
  field_simp

/-- **The Rational model** `ρ(r) = (1 + r²/α)^(−α)` is a valid correlation in every dimension for every
    `α > 0` (GSTools admits `0.5 ≤ α ≤ 50`). -/
theorem rational_psd {α : ℝ} (hα : 0 < α) : IsPSDRadial V fun r => (1 + r ^ 2 / α) ^ (-α) := by
  have hΓ : 0 < Real.Gamma α := Real.Gamma_pos_of_pos hα
  -- the mixture kernel
  have hmix : IsPSDKernel fun a b : V =>
      ∫ t in Ioi (0:ℝ), t ^ (α - 1) * Real.exp (-((1 + ‖a - b‖ ^ 2 / α) * t)) := by
    refine IsPSDKernel.integral _ ?_ ?_
    · refine (ae_restrict_iff' measurableSet_Ioi).2 (Filter.Eventually.of_forall fun t ht => ?_)
      have ht0 : (0:ℝ) < t := ht
      -- t^(α-1) e^{-t} · exp(−(√(t/α) ‖a−b‖)²)
      have hg := psd_scale (psd_radial_scale (gaussian_psd (V := V)) (Real.sqrt_nonneg (t / α)))
        (var := t ^ (α - 1) * Real.exp (-t)) (by positivity)
      unfold IsPSDRadial IsPSDFun at hg
      convert hg using 3 with a b
      show _ = t ^ (α - 1) * Real.exp (-t) * Real.exp (-(√(t / α) * ‖a - b‖) ^ 2)
      rw [mul_assoc, ← Real.exp_add, mul_pow, Real.sq_sqrt (by positivity)]
      congr 2; field_simp; ring
    · intro a b
      have h1 : 0 < 1 + ‖a - b‖ ^ 2 / α := by positivity
      refine Integrable.of_integral_ne_zero ?_
      rw [Real.integral_rpow_mul_exp_neg_mul_Ioi hα h1]
      positivity
  have := hmix.smul (inv_nonneg.2 hΓ.le)
  unfold IsPSDRadial IsPSDFun
  convert this using 3 with a b
  exact rational_mixture hα (by positivity)

/-- **The Rational model of GSTools** `ρ(r) = (1 + (s r/ℓ)²/α)^(−α)` -/
theorem rational_model_psd {α : ℝ} (hα : 0 < α) (s ℓ : ℝ) :
    IsPSDRadial V fun r => (1 + (s * r / ℓ) ^ 2 / α) ^ (-α) := by
  have := psd_radial_scale (rational_psd (V := V) hα) (abs_nonneg (s / ℓ))
  convert this using 3 with r
  rw [mul_pow, sq_abs]; ring

end rational

/-! ### scale mixtures: the Integral model and the truncated power-law (TPL) superpositions -/

section mixtures
open MeasureTheory Set

/-- **Scale mixtures.**  If the profile `φ` is valid on `V`, then so is every superposition
    `r ↦ ∫ w(t) φ(c(t) r) dμ(t)` with non-negative weights `w` and scalings `c`. -/
theorem psd_scale_mixture {T : Type*} [MeasurableSpace T] (μ : Measure T) {φ : ℝ → ℝ} (h : IsPSDRadial V φ)
    (w c : T → ℝ) (hw : ∀ᵐ t ∂μ, 0 ≤ w t) (hc : ∀ᵐ t ∂μ, 0 ≤ c t)
    (hint : ∀ r : ℝ, 0 ≤ r → Integrable (fun t => w t * φ (c t * r)) μ) :
    IsPSDRadial V fun r => ∫ t, w t * φ (c t * r) ∂μ := by
  unfold IsPSDRadial IsPSDFun
  refine IsPSDKernel.integral μ (F := fun t a b => w t * φ (c t * ‖a - b‖)) ?_ fun a b => hint _ (norm_nonneg _)
  filter_upwards [hw, hc] with t hwt hct
  exact psd_scale (psd_radial_scale h hct) hwt

/-- **The Integral model** `ρ(r) = (ν/2) E_{1+ν/2}(r²)`, with the generalised exponential integral in its
    defining form `E_s(x) = ∫₁^∞ t^{−s} e^{−x t} dt`, is a valid correlation in every dimension for `ν > 0`:
    it is a mixture of Gaussians. -/
theorem integral_model_psd {ν : ℝ} (hν : 0 < ν) :
    IsPSDRadial V fun r => ν / 2 * ∫ t in Ioi (1:ℝ), t ^ (-(1 + ν / 2)) * Real.exp (-(r ^ 2 * t)) := by
  have hmix := psd_scale_mixture (V := V) (volume.restrict (Ioi (1:ℝ))) (gaussian_psd (V := V))
    (fun t => t ^ (-(1 + ν / 2))) (fun t => Real.sqrt t) ?_ ?_ ?_
  · have := psd_scale hmix (var := ν / 2) (by positivity)
    unfold IsPSDRadial at this ⊢
    convert this using 3 with v
    show _ = ∫ (t : ℝ) in Ioi 1, t ^ (-(1 + ν / 2)) * Real.exp (-(√t * ‖v‖) ^ 2)
    refine setIntegral_congr_fun (measurableSet_Ioi (a := (1:ℝ))) fun t ht => ?_
    have ht0 : (0:ℝ) ≤ t := le_trans zero_le_one (le_of_lt ht)
    show _ = t ^ (-(1 + ν / 2)) * Real.exp (-(Real.sqrt t * ‖v‖) ^ 2)
    rw [mul_pow, Real.sq_sqrt ht0]; ring_nf
  · refine (ae_restrict_iff' measurableSet_Ioi).2 (Filter.Eventually.of_forall fun t ht => ?_)
    exact Real.rpow_nonneg (le_trans zero_le_one (le_of_lt ht)) _
  · exact Filter.Eventually.of_forall fun t => Real.sqrt_nonneg t
  · intro r _
    have hi : IntegrableOn (fun t : ℝ => t ^ (-(1 + ν / 2))) (Ioi 1) :=
      integrableOn_Ioi_rpow_of_lt (by linarith) zero_lt_one
    refine Integrable.mul_bdd (c := 1) hi ?_ (Filter.Eventually.of_forall fun t => ?_)
    · exact (Real.continuous_exp.comp ((Real.continuous_sqrt.mul continuous_const).pow 2).neg).aestronglyMeasurable
    · rw [Real.norm_eq_abs, abs_of_pos (Real.exp_pos _), Real.exp_le_one_iff]
      exact neg_nonpos.2 (sq_nonneg _)

/-- **Matérn model** in its Gamma-mixture form `ρ(r) = Γ(ν)⁻¹ ∫₀^∞ u^{ν−1} e^{−u} e^{−r²/(4u)} du`
    (`= 2^{1−ν}/Γ(ν) · r^ν K_ν(r)` by DLMF 10.32.10) is a valid correlation in every dimension for `ν > 0`. -/
theorem matern_mixture_psd {ν : ℝ} (hν : 0 < ν) :
    IsPSDRadial V fun r =>
      (Real.Gamma ν)⁻¹ * ∫ u in Ioi (0:ℝ), Real.exp (-u) * u ^ (ν - 1) * Real.exp (-(r ^ 2 / (4 * u))) := by
  have hmix := psd_scale_mixture (V := V) (volume.restrict (Ioi (0:ℝ))) (gaussian_psd (V := V))
    (fun u => Real.exp (-u) * u ^ (ν - 1)) (fun u => (2 * Real.sqrt u)⁻¹) ?_ ?_ ?_
  · have := psd_scale hmix (var := (Real.Gamma ν)⁻¹) (inv_nonneg.2 (Real.Gamma_pos_of_pos hν).le)
    unfold IsPSDRadial at this ⊢
    convert this using 3 with v
    show _ = ∫ u in Ioi (0:ℝ), Real.exp (-u) * u ^ (ν - 1) * Real.exp (-((2 * Real.sqrt u)⁻¹ * ‖v‖) ^ 2)
    refine setIntegral_congr_fun (measurableSet_Ioi (a := (0:ℝ))) fun u hu => ?_
    have hu0 : (0:ℝ) < u := hu
    show _ = Real.exp (-u) * u ^ (ν - 1) * Real.exp (-((2 * Real.sqrt u)⁻¹ * ‖v‖) ^ 2)
    congr 2
    rw [mul_pow, inv_pow, mul_pow, Real.sq_sqrt hu0.le]; ring
  · refine (ae_restrict_iff' measurableSet_Ioi).2 (Filter.Eventually.of_forall fun u hu => ?_)
    have hu0 : (0:ℝ) < u := hu
    positivity
  · exact Filter.Eventually.of_forall fun u => by positivity
  · intro r _
    have hi : IntegrableOn (fun u : ℝ => Real.exp (-u) * u ^ (ν - 1)) (Ioi 0) := Real.GammaIntegral_convergent hν
    refine Integrable.mul_bdd (c := 1) hi ?_ (Filter.Eventually.of_forall fun u => ?_)
    · refine Measurable.aestronglyMeasurable ?_
      exact Real.measurable_exp.comp
        ((((measurable_const.mul Real.continuous_sqrt.measurable).inv).mul measurable_const).pow_const 2).neg
    · rw [Real.norm_eq_abs, abs_of_pos (Real.exp_pos _), Real.exp_le_one_iff]
      exact neg_nonpos.2 (sq_nonneg _)

/-- **Truncated power-law superposition** (`TPLCovModel`): `C(r) = ∫_{ℓ_low}^{ℓ_up} λ^{2H−1} φ(r/λ) dλ`
    is valid wherever the mode profile `φ` is, for every Hurst exponent and `0 ≤ ℓ_low`
    (integrability is a hypothesis here; discharged for Gaussian modes below). -/
theorem tpl_psd_of_mode {φ : ℝ → ℝ} (h : IsPSDRadial V φ) (H lo up : ℝ) (hlo : 0 ≤ lo)
    (hint : ∀ r : ℝ, 0 ≤ r → IntegrableOn (fun lam : ℝ => lam ^ (2 * H - 1) * φ (lam⁻¹ * r)) (Ioc lo up)) :
    IsPSDRadial V fun r => ∫ lam in Ioc lo up, lam ^ (2 * H - 1) * φ (lam⁻¹ * r) := by
  refine psd_scale_mixture (volume.restrict (Ioc lo up)) h (fun lam => lam ^ (2 * H - 1)) (fun lam => lam⁻¹)
    ?_ ?_ hint
  · refine (ae_restrict_iff' measurableSet_Ioc).2 (Filter.Eventually.of_forall fun t ht => ?_)
    exact Real.rpow_nonneg (hlo.trans ht.1.le) _
  · refine (ae_restrict_iff' measurableSet_Ioc).2 (Filter.Eventually.of_forall fun t ht => ?_)
    exact inv_nonneg.2 (hlo.trans ht.1.le)

/-- **TPLGaussian** (unnormalised; the normalisation `2H / (ℓ_up^{2H} − ℓ_low^{2H})` is a positive factor):
    valid in every dimension for every `H > 0` and `0 ≤ ℓ_low ≤ ℓ_up`. -/
theorem tpl_gaussian_psd {H lo up : ℝ} (hH : 0 < H) (hlo : 0 ≤ lo) (hle : lo ≤ up) :
    IsPSDRadial V fun r => ∫ lam in Ioc lo up, lam ^ (2 * H - 1) * Real.exp (-((lam⁻¹ * r) ^ 2)) := by
  refine tpl_psd_of_mode (gaussian_psd (V := V)) H lo up hlo fun r _ => ?_
  have hi : IntegrableOn (fun lam : ℝ => lam ^ (2 * H - 1)) (Ioc lo up) := by
    have h0 : IntegrableOn (fun lam : ℝ => lam ^ (2 * H - 1)) (Ioc 0 up) :=
      (intervalIntegrable_iff_integrableOn_Ioc_of_le (hlo.trans hle)).1
        (intervalIntegral.intervalIntegrable_rpow' (by linarith))
    exact h0.mono_set (Ioc_subset_Ioc_left hlo)
  refine Integrable.mul_bdd (c := 1) hi ?_ (Filter.Eventually.of_forall fun t => ?_)
  · refine Measurable.aestronglyMeasurable ?_
    exact Real.measurable_exp.comp ((measurable_inv.mul measurable_const).pow_const 2).neg
  · rw [Real.norm_eq_abs, abs_of_pos (Real.exp_pos _), Real.exp_le_one_iff]
    exact neg_nonpos.2 (sq_nonneg _)

end mixtures

/-! ### the Linear (triangle) model on the line — and why `Linear.check_dim` stops at `d = 1` is literature -/

section triangle
open MeasureTheory Set

/-- **Linear model in 1-D** (= HyperSpherical in `d = 1`, SuperSpherical with `ν = 0`, TPLSimple with `ν = 1`):
    `max(1 − |r|, 0)` is the autocorrelation of the indicator of `[0, 1]`, hence PSD on `ℝ`. -/
theorem linear_psd_1d : IsPSDFun fun r : ℝ => max (1 - |r|) 0 := by
  have hF : ∀ t : ℝ, IsPSDKernel fun a b : ℝ =>
      (Icc (0:ℝ) 1).indicator (fun _ => (1:ℝ)) (t + a) * (Icc (0:ℝ) 1).indicator (fun _ => (1:ℝ)) (t + b) :=
    fun t => IsPSDKernel.of_feature fun a => (Icc (0:ℝ) 1).indicator (fun _ => (1:ℝ)) (t + a)
  have key : ∀ a b t : ℝ,
      (Icc (0:ℝ) 1).indicator (fun _ => (1:ℝ)) (t + a) * (Icc (0:ℝ) 1).indicator (fun _ => (1:ℝ)) (t + b)
        = (Icc (max (-a) (-b)) (min (1 - a) (1 - b))).indicator (fun _ => (1:ℝ)) t := by
    intro a b t
    simp only [indicator_apply, mem_Icc, max_le_iff, le_min_iff]
    by_cases h1 : 0 ≤ t + a ∧ t + a ≤ 1 <;> by_cases h2 : 0 ≤ t + b ∧ t + b ≤ 1
    · rw [if_pos h1, if_pos h2, if_pos ⟨⟨by linarith [h1.1], by linarith [h2.1]⟩, ⟨by linarith [h1.2], by linarith [h2.2]⟩⟩]
      norm_num
    · have hn : ¬ ((-a ≤ t ∧ -b ≤ t) ∧ (t ≤ 1 - a ∧ t ≤ 1 - b)) := by
        rintro ⟨⟨_, h3⟩, ⟨_, h4⟩⟩; exact h2 ⟨by linarith, by linarith⟩
      rw [if_pos h1, if_neg h2, if_neg hn]; norm_num
    · have hn : ¬ ((-a ≤ t ∧ -b ≤ t) ∧ (t ≤ 1 - a ∧ t ≤ 1 - b)) := by
        rintro ⟨⟨h3, _⟩, ⟨h4, _⟩⟩; exact h1 ⟨by linarith, by linarith⟩
      rw [if_neg h1, if_neg hn]; norm_num
    · have hn : ¬ ((-a ≤ t ∧ -b ≤ t) ∧ (t ≤ 1 - a ∧ t ≤ 1 - b)) := by
        rintro ⟨⟨h3, _⟩, ⟨h4, _⟩⟩; exact h1 ⟨by linarith, by linarith⟩
      rw [if_neg h1, if_neg hn]; norm_num
  have hmix := IsPSDKernel.integral (volume : Measure ℝ) (Filter.Eventually.of_forall hF) (fun a b => by
    simp_rw [key a b]
    exact (integrable_indicator_iff measurableSet_Icc).2 (integrableOn_const (by simp)))
  unfold IsPSDFun
  convert hmix using 3 with a b
  simp_rw [key a b]
  rw [integral_indicator measurableSet_Icc, setIntegral_const, Measure.real, Real.volume_Icc,
    ENNReal.toReal_ofReal', smul_eq_mul, mul_one]
  congr 1
  rcases le_total a b with h | h
  · rw [max_eq_left (by linarith), min_eq_right (by linarith), abs_of_nonpos (by linarith)]; ring
  · rw [max_eq_right (by linarith), min_eq_left (by linarith), abs_of_nonneg (by linarith)]; ring

end triangle

/-! ### the Stable (powered exponential) family, `0 < α ≤ 2`, and the Exponential model — every dimension -/

section stable
open MeasureTheory Set

/-- `‖a − b‖^α` is conditionally negative definite for `0 < α < 2`: Bernstein representation
    `s^β · I = ∫₀^∞ (1 − e^{−t s}) t^{−1−β} dt` of `s^β`, `β = α/2`, applied to `s = ‖a − b‖²`, each
    `1 − e^{−t‖a−b‖²}` being CND because the Gaussian kernel is PSD. -/
theorem norm_rpow_cnd {α : ℝ} (hα0 : 0 < α) (hα2 : α < 2) : IsCNDKernel fun a b : V => ‖a - b‖ ^ α := by
  have hβ0 : 0 < α / 2 := by positivity
  have hβ1 : α / 2 < 1 := by linarith
  have hF : ∀ᵐ t ∂(volume.restrict (Ioi (0:ℝ))), IsCNDKernel fun a b : V => bernsteinG (α / 2) (‖a - b‖ ^ 2) t := by
    refine (ae_restrict_iff' measurableSet_Ioi).2 (Filter.Eventually.of_forall fun t ht => ?_)
    have ht0 : (0:ℝ) < t := ht
    have hg : IsPSDKernel fun a b : V => Real.exp (-(t * ‖a - b‖ ^ 2)) := by
      have := psd_radial_scale (gaussian_psd (V := V)) (Real.sqrt_nonneg t)
      unfold IsPSDRadial IsPSDFun at this
      convert this using 3 with a b
      show _ = Real.exp (-(Real.sqrt t * ‖a - b‖) ^ 2)
      rw [mul_pow, Real.sq_sqrt ht0.le]
    exact hg.one_sub_cnd (Real.rpow_nonneg ht0.le _)
  have hI := IsCNDKernel.integral _ hF fun a b => bernsteinG_integrableOn hβ0 hβ1 (sq_nonneg ‖a - b‖)
  have hIpos := bernsteinI_pos hβ0 hβ1
  have h2 := hI.smul (inv_nonneg.2 hIpos.le)
  refine ⟨fun a b => by show ‖a - b‖ ^ α = ‖b - a‖ ^ α; rw [norm_sub_rev], fun n x c hc => ?_⟩
  have := h2.2 n x c hc
  convert this using 6 with i _ j _
  show ‖x i - x j‖ ^ α = (bernsteinI (α / 2))⁻¹ * ∫ (t : ℝ) in Ioi 0, bernsteinG (α / 2) (‖x i - x j‖ ^ 2) t
  rw [bernstein_integral hβ0 (sq_nonneg _), ← Real.rpow_natCast, ← Real.rpow_mul (norm_nonneg _)]
  have : ((2:ℕ):ℝ) * (α / 2) = α := by push_cast; ring
  rw [this]; field_simp

/-- **Stable model** `ρ(r) = exp(−r^α)`, `0 < α ≤ 2`, is a valid correlation in every dimension
    (Schoenberg: `exp(−ψ)` for the conditionally negative definite `ψ = ‖·‖^α`; `α = 2` is the Gaussian). -/
theorem stable_psd {α : ℝ} (hα0 : 0 < α) (hα2 : α ≤ 2) : IsPSDRadial V fun r => Real.exp (-(r ^ α)) := by
  rcases hα2.eq_or_lt with rfl | hlt
  · have := gaussian_psd (V := V)
    unfold IsPSDRadial at this ⊢
    convert this using 3 with v
    show Real.exp (-(‖v‖ ^ (2:ℝ))) = Real.exp (-(‖v‖ ^ 2))
    rw [Real.rpow_two]
  · exact (norm_rpow_cnd (V := V) hα0 hlt).exp_neg 0

/-- **Exponential model** `ρ(r) = exp(−r)` — every dimension. -/
theorem exponential_psd : IsPSDRadial V fun r => Real.exp (-r) := by
  have := stable_psd (V := V) (α := 1) one_pos one_le_two
  unfold IsPSDRadial at this ⊢
  convert this using 3 with v
  show ‖v‖ = ‖v‖ ^ (1:ℝ)
  rw [Real.rpow_one]

/-- GSTools' `Stable.cor(h) = exp(−h^α)` at `h = s r / ℓ` (`s, ℓ ≥ 0`) -/
theorem stable_model_psd {α : ℝ} (hα0 : 0 < α) (hα2 : α ≤ 2) {s ℓ : ℝ} (hs : 0 ≤ s) (hl : 0 ≤ ℓ) :
    IsPSDRadial V fun r => Real.exp (-((s / ℓ * r) ^ α)) :=
  psd_radial_scale (stable_psd (V := V) hα0 hα2) (div_nonneg hs hl)

/-- **TPLStable / TPLExponential** superpositions (unnormalised) are valid in every dimension, given
    integrability of the superposition integrand -/
theorem tpl_stable_psd {α : ℝ} (hα0 : 0 < α) (hα2 : α ≤ 2) (H lo up : ℝ) (hlo : 0 ≤ lo)
    (hint : ∀ r : ℝ, 0 ≤ r →
      IntegrableOn (fun lam : ℝ => lam ^ (2 * H - 1) * Real.exp (-((lam⁻¹ * r) ^ α))) (Ioc lo up)) :
    IsPSDRadial V fun r => ∫ lam in Ioc lo up, lam ^ (2 * H - 1) * Real.exp (-((lam⁻¹ * r) ^ α)) :=
  tpl_psd_of_mode (stable_psd (V := V) hα0 hα2) H lo up hlo hint

end stable

/-! ## (5) end to end: accepted by the code ⇒ every covariance matrix is PSD (Gaussian, Rational) -/

section endtoend
open Classical

/-- a profile valid on `V` is valid on every space that embeds isometrically into `V`
    ("valid in all lower dimensions") -/
theorem psd_radial_of_isometry {W : Type*} [NormedAddCommGroup W] [NormedSpace ℝ W] {φ : ℝ → ℝ}
    (h : IsPSDRadial V φ) (ι : W →ₗᵢ[ℝ] V) : IsPSDRadial W φ := by
  have := psd_linear_map h ι.toLinearMap
  simpa [IsPSDRadial, LinearIsometry.norm_map] using this

/-- **Gaussian, end to end.**  If the code accepts `Gaussian(dim=d, var, len_scale, nugget)` then, for every
    anisotropy/rotation matrix `A` and rescale factor `s`, the function
    `var · exp(−(s ‖A r‖ / len_scale)²) + nugget · [A r = 0]` is positive semi-definite on `ℝ^d`: every
    covariance matrix the model produces on finitely many points has no negative eigenvalue. -/
theorem accepted_gaussian_cov_psd (d : ℕ) (p : Params ℝ) (h : accepts .Gaussian d p = true) (s : ℝ)
    (A : EuclideanSpace ℝ (Fin d) →ₗ[ℝ] EuclideanSpace ℝ (Fin d)) :
    IsPSDFun fun r : EuclideanSpace ℝ (Fin d) =>
      p.var * Real.exp (-((s * (‖A r‖ / p.lenScale)) ^ 2)) + p.nugget * (if A r = 0 then 1 else 0) := by
  obtain ⟨hv, hl, hn, -⟩ := validity_table .Gaussian d p h
  have hφ : IsPSDRadial (EuclideanSpace ℝ (Fin d)) fun t => Real.exp (-((s * t) ^ 2)) := by
    have := gaussian_model_psd (V := EuclideanSpace ℝ (Fin d)) s 1
    simpa using this
  have := psd_cov_spatial hφ A (var := p.var) (nugget := p.nugget) (ℓ := p.lenScale)
    (by simpa using hv) (by simpa using hn) (by simpa using hl)
  exact this

/-- **Rational, end to end** (shape parameter `α` taken from the accepted parameter set). -/
theorem accepted_rational_cov_psd (d : ℕ) (p : Params ℝ) (h : accepts .Rational d p = true) (s : ℝ)
    (A : EuclideanSpace ℝ (Fin d) →ₗ[ℝ] EuclideanSpace ℝ (Fin d)) :
    IsPSDFun fun r : EuclideanSpace ℝ (Fin d) =>
      p.var * (1 + (s * (‖A r‖ / p.lenScale)) ^ 2 / p.alpha) ^ (-p.alpha)
        + p.nugget * (if A r = 0 then 1 else 0) := by
  obtain ⟨hv, hl, hn, hα⟩ := validity_table .Rational d p h
  have hα' : 0 < p.alpha := by simpa [litValidShape] using hα
  have hφ : IsPSDRadial (EuclideanSpace ℝ (Fin d)) fun t => (1 + (s * t) ^ 2 / p.alpha) ^ (-p.alpha) := by
    have := rational_model_psd (V := EuclideanSpace ℝ (Fin d)) hα' s 1
    simpa using this
  exact psd_cov_spatial hφ A (var := p.var) (nugget := p.nugget) (ℓ := p.lenScale)
    (by simpa using hv) (by simpa using hn) (by simpa using hl)

/-- **Exponential, end to end.** -/
theorem accepted_exponential_cov_psd (d : ℕ) (p : Params ℝ) (h : accepts .Exponential d p = true) {s : ℝ}
    (hs : 0 ≤ s) (A : EuclideanSpace ℝ (Fin d) →ₗ[ℝ] EuclideanSpace ℝ (Fin d)) :
    IsPSDFun fun r : EuclideanSpace ℝ (Fin d) =>
      p.var * Real.exp (-(s * (‖A r‖ / p.lenScale))) + p.nugget * (if A r = 0 then 1 else 0) := by
  obtain ⟨hv, hl, hn, -⟩ := validity_table .Exponential d p h
  have hφ : IsPSDRadial (EuclideanSpace ℝ (Fin d)) fun t => Real.exp (-(s * t)) :=
    psd_radial_scale (exponential_psd (V := EuclideanSpace ℝ (Fin d))) hs
  exact psd_cov_spatial hφ A (var := p.var) (nugget := p.nugget) (ℓ := p.lenScale)
    (by simpa using hv) (by simpa using hn) (by simpa using hl)

/-- **Stable, end to end** (`α` from the accepted parameter set: the code's `(0, 2]` interval is exactly the
    validity range). -/
theorem accepted_stable_cov_psd (d : ℕ) (p : Params ℝ) (h : accepts .Stable d p = true) {s : ℝ}
    (hs : 0 ≤ s) (A : EuclideanSpace ℝ (Fin d) →ₗ[ℝ] EuclideanSpace ℝ (Fin d)) :
    IsPSDFun fun r : EuclideanSpace ℝ (Fin d) =>
      p.var * Real.exp (-((s * (‖A r‖ / p.lenScale)) ^ p.alpha)) + p.nugget * (if A r = 0 then 1 else 0) := by
  obtain ⟨hv, hl, hn, hα⟩ := validity_table .Stable d p h
  have hα' : 0 < p.alpha ∧ p.alpha ≤ 2 := by simpa [litValidShape] using hα
  have hφ : IsPSDRadial (EuclideanSpace ℝ (Fin d)) fun t => Real.exp (-((s * t) ^ p.alpha)) :=
    psd_radial_scale (stable_psd (V := EuclideanSpace ℝ (Fin d)) hα'.1 hα'.2) hs
  exact psd_cov_spatial hφ A (var := p.var) (nugget := p.nugget) (ℓ := p.lenScale)
    (by simpa using hv) (by simpa using hn) (by simpa using hl)

/-- the hypotheses of the closure theorems are satisfiable by non-trivial objects: the Gaussian profile on
    `ℝ³`, on the sphere (Yadrenko) and in space–time -/
example : IsPSDKernel fun a b : {x : EuclideanSpace ℝ (Fin 3) // ‖x‖ = 6371} =>
    Real.exp (-((2 * 6371 * Real.sin (InnerProductGeometry.angle (a : EuclideanSpace ℝ (Fin 3)) b / 2)) ^ 2)) :=
  psd_yadrenko (gaussian_psd (V := EuclideanSpace ℝ (Fin 3))) (by norm_num)

example (κ : ℝ) : IsPSDKernel fun a b : EuclideanSpace ℝ (Fin 2) × ℝ =>
    Real.exp (-(Real.sqrt (‖a.1 - b.1‖ ^ 2 + (κ * (a.2 - b.2)) ^ 2) ^ 2)) :=
  psd_metric_time (gaussian_psd (V := WithLp 2 (EuclideanSpace ℝ (Fin 2) × ℝ))) κ

example (r : EuclideanSpace ℝ (Fin 3)) : -1 ≤ Real.exp (-(‖r‖ ^ 2)) ∧ Real.exp (-(‖r‖ ^ 2)) ≤ 1 :=
  cor_mem_Icc (gaussian_psd (V := EuclideanSpace ℝ (Fin 3))) (by simp) r

end endtoend

/-! ## (6) the TPL classes as coded: rescaled truncation scales, two-term form = normalised superposition

`GSV.Model.Validity.tplScales / tplCor / tplVarFactor` model which lengths (`len_low / rescale`,
`(len_low + len_scale) / rescale`, the `isclose` snap) and which weights `TPL*.correlation` combines the two
untruncated terms with; the correspondence harness compares them with the real classes for every `rescale`. -/

section tplmodel
open MeasureTheory Set

/-- the `len_low = 0` TPL model at upper scale `ℓ` with mode profile `φ`: what `tplstable_cor(r, ℓ, H, α)` stands for
    (`φ(h) = exp(−h^α)`), `2H/ℓ^{2H} ∫₀^ℓ λ^{2H−1} φ(r/λ) dλ` -/
noncomputable def tplMode (φ : ℝ → ℝ) (H ℓ r : ℝ) : ℝ :=
  2 * H / ℓ ^ (2 * H) * ∫ lam in Ioc (0:ℝ) ℓ, lam ^ (2 * H - 1) * φ (lam⁻¹ * r)

/-- the normalised superposition weight `w(λ) = 2H λ^{2H−1} / (up^{2H} − lo^{2H})` on `(lo, up]` -/
noncomputable def tplDensity (H lo up lam : ℝ) : ℝ := 2 * H * lam ^ (2 * H - 1) / (up ^ (2 * H) - lo ^ (2 * H))

theorem tpl_rpow_lt {H lo up : ℝ} (hH : 0 < H) (hlo : 0 ≤ lo) (hlt : lo < up) : lo ^ (2 * H) < up ^ (2 * H) :=
  Real.rpow_lt_rpow hlo hlt (by linarith)

/-- the weights are non-negative on the superposition interval -/
theorem tplDensity_nonneg {H lo up lam : ℝ} (hH : 0 < H) (hlo : 0 ≤ lo) (hlt : lo < up) (hlam : 0 ≤ lam) :
    0 ≤ tplDensity H lo up lam := by
  unfold tplDensity
  have := tpl_rpow_lt hH hlo hlt
  have h1 : 0 ≤ lam ^ (2 * H - 1) := Real.rpow_nonneg hlam _
  apply div_nonneg (by positivity) (by linarith)

/-- `∫_{lo}^{up} λ^{2H−1} dλ = (up^{2H} − lo^{2H}) / (2H)` (= `TPLCovModel.var_factor`) -/
theorem tpl_integral_rpow {H lo up : ℝ} (hH : 0 < H) (hle : lo ≤ up) :
    ∫ lam in Ioc lo up, lam ^ (2 * H - 1) = (up ^ (2 * H) - lo ^ (2 * H)) / (2 * H) := by
  rw [← intervalIntegral.integral_of_le hle, integral_rpow (Or.inl (by linarith))]
  congr 2 <;> ring_nf

/-- … and they integrate to one: the TPL correlation is a *normalised* mixture -/
theorem tplDensity_integral {H lo up : ℝ} (hH : 0 < H) (hlo : 0 ≤ lo) (hlt : lo < up) :
    ∫ lam in Ioc lo up, tplDensity H lo up lam = 1 := by
  have hd := tpl_rpow_lt hH hlo hlt
  have : (fun lam => tplDensity H lo up lam)
      = fun lam => 2 * H / (up ^ (2 * H) - lo ^ (2 * H)) * lam ^ (2 * H - 1) := by
    funext lam; unfold tplDensity; ring
  rw [this, integral_const_mul, tpl_integral_rpow hH hlt.le]
  have h1 : up ^ (2 * H) - lo ^ (2 * H) ≠ 0 := by linarith
  field_simp

/-- **Two-term form = superposition.**  What `TPL*.correlation` computes from the two untruncated models at the
    scales `lo < up`, `(up^{2H} T_up(r) − lo^{2H} T_lo(r)) / (up^{2H} − lo^{2H})`, is the normalised
    superposition of the modes `φ(r/λ)` over `λ ∈ (lo, up]` with the non-negative weight `tplDensity`. -/
theorem tplCor_eq_mixture (φ : ℝ → ℝ) {H lo up : ℝ} (hH : 0 < H) (hlo : 0 < lo) (hlt : lo < up) (r : ℝ)
    (hint : IntegrableOn (fun lam : ℝ => lam ^ (2 * H - 1) * φ (lam⁻¹ * r)) (Ioc 0 up)) :
    tplCor ⟨lo, up, false⟩ H (tplMode φ H up r) (tplMode φ H lo r)
      = ∫ lam in Ioc lo up, tplDensity H lo up lam * φ (lam⁻¹ * r) := by
  have hd := tpl_rpow_lt hH hlo.le hlt
  have ha : 0 < up ^ (2 * H) := Real.rpow_pos_of_pos (hlo.trans hlt) _
  have hb : 0 < lo ^ (2 * H) := Real.rpow_pos_of_pos hlo _
  have hsplit : Ioc (0:ℝ) lo ∪ Ioc lo up = Ioc 0 up := Ioc_union_Ioc_eq_Ioc hlo.le hlt.le
  have hI1 : IntegrableOn (fun lam : ℝ => lam ^ (2 * H - 1) * φ (lam⁻¹ * r)) (Ioc 0 lo) :=
    hint.mono_set (Ioc_subset_Ioc_right hlt.le)
  have hI2 : IntegrableOn (fun lam : ℝ => lam ^ (2 * H - 1) * φ (lam⁻¹ * r)) (Ioc lo up) :=
    hint.mono_set (Ioc_subset_Ioc_left hlo.le)
  have hadd : ∫ lam in Ioc (0:ℝ) up, lam ^ (2 * H - 1) * φ (lam⁻¹ * r)
      = (∫ lam in Ioc (0:ℝ) lo, lam ^ (2 * H - 1) * φ (lam⁻¹ * r))
        + ∫ lam in Ioc lo up, lam ^ (2 * H - 1) * φ (lam⁻¹ * r) := by
    rw [← hsplit]
    exact setIntegral_union (Ioc_disjoint_Ioc_of_le le_rfl) measurableSet_Ioc hI1 hI2
  have hrhs : (fun lam => tplDensity H lo up lam * φ (lam⁻¹ * r))
      = fun lam => 2 * H / (up ^ (2 * H) - lo ^ (2 * H)) * (lam ^ (2 * H - 1) * φ (lam⁻¹ * r)) := by
    funext lam; unfold tplDensity; ring
  rw [hrhs, integral_const_mul]
  simp only [tplCor, tplMode, rpow_real, Bool.false_eq_true, if_false]
  push_cast
  rw [hadd]
  have h1 : up ^ (2 * H) - lo ^ (2 * H) ≠ 0 := by linarith
  field_simp
  ring

/-- the untruncated model is the superposition over `(0, ℓ]` -/
theorem tplMode_eq_mixture (φ : ℝ → ℝ) {H ℓ : ℝ} (hH : 0 < H) (r : ℝ) :
    tplMode φ H ℓ r = ∫ lam in Ioc (0:ℝ) ℓ, tplDensity H 0 ℓ lam * φ (lam⁻¹ * r) := by
  have hrhs : (fun lam => tplDensity H 0 ℓ lam * φ (lam⁻¹ * r))
      = fun lam => 2 * H / ℓ ^ (2 * H) * (lam ^ (2 * H - 1) * φ (lam⁻¹ * r)) := by
    funext lam; unfold tplDensity
    rw [Real.zero_rpow (by linarith : 2 * H ≠ 0), sub_zero]; ring
  rw [hrhs, integral_const_mul, tplMode]

/-- the scales chosen by the code are the *rescaled* lengths and are ordered `0 ≤ lo < up` -/
theorem tplScales_spec {lenScale lenLow rescale : ℝ} (hls : 0 < lenScale) (hll : 0 ≤ lenLow) (hrs : 0 < rescale) :
    let s := tplScales lenScale lenLow rescale
    (s.snap = true → s.lo = 0 ∧ s.up = lenScale / rescale ∧ lenLow / rescale ≤ 1e-8) ∧
    (s.snap = false → s.lo = lenLow / rescale ∧ s.up = (lenLow + lenScale) / rescale ∧ 0 < s.lo) ∧
    0 ≤ s.lo ∧ s.lo < s.up := by
  have h0 : 0 ≤ lenLow / rescale := div_nonneg hll hrs.le
  have hup : 0 < lenScale / rescale := div_pos hls hrs
  simp only [tplScales, fabs_real, abs_of_nonneg h0]
  split_ifs with hc
  · refine ⟨fun _ => ⟨by simp, rfl, hc⟩, fun h => by simp at h, by simp, by simpa using hup⟩
  · have hpos : 0 < lenLow / rescale := by
      rw [not_le] at hc
      exact lt_trans (by norm_num) hc
    refine ⟨fun h => by simp at h, fun _ => ⟨rfl, rfl, hpos⟩, h0, ?_⟩
    show lenLow / rescale < (lenLow + lenScale) / rescale
    rw [div_lt_div_iff_of_pos_right hrs]; linarith

/-- **The correlation of a TPL class is the documented normalised mixture at the rescaled scales** — for every
    `len_scale > 0`, `len_low ≥ 0`, `rescale > 0`, `H > 0` and mode profile `φ`:
    `correlation(r) = ∫_{s.lo}^{s.up} w(λ) φ(r/λ) dλ` with `w = tplDensity ≥ 0`, `∫ w = 1`
    (`tplDensity_nonneg`, `tplDensity_integral`), `s = tplScales len_scale len_low rescale`. -/
theorem tpl_model_cor_eq_mixture (φ : ℝ → ℝ) {lenScale lenLow rescale H : ℝ} (hls : 0 < lenScale)
    (hll : 0 ≤ lenLow) (hrs : 0 < rescale) (hH : 0 < H) (r : ℝ)
    (hint : IntegrableOn (fun lam : ℝ => lam ^ (2 * H - 1) * φ (lam⁻¹ * r))
      (Ioc 0 (tplScales lenScale lenLow rescale).up)) :
    let s := tplScales lenScale lenLow rescale
    tplCor s H (tplMode φ H s.up r) (tplMode φ H s.lo r)
      = ∫ lam in Ioc s.lo s.up, tplDensity H s.lo s.up lam * φ (lam⁻¹ * r) := by
  intro s
  obtain ⟨h1, h2, h3, h4⟩ := tplScales_spec hls hll hrs
  cases hs : s.snap
  · obtain ⟨-, -, hpos⟩ := h2 hs
    have := tplCor_eq_mixture φ hH hpos h4 r hint
    have hs' : s = ⟨s.lo, s.up, false⟩ := by rw [← hs]
    rw [hs']; exact this
  · obtain ⟨hlo, -, -⟩ := h1 hs
    have : tplCor s H (tplMode φ H s.up r) (tplMode φ H s.lo r) = tplMode φ H s.up r := by
      simp [tplCor, hs]
    rw [this, hlo]
    exact tplMode_eq_mixture φ hH r

/-- validity of the model correlation wherever the mode is valid -/
theorem tpl_model_psd_of_mode {φ : ℝ → ℝ} (h : IsPSDRadial V φ) {lenScale lenLow rescale H : ℝ}
    (hls : 0 < lenScale) (hll : 0 ≤ lenLow) (hrs : 0 < rescale) (hH : 0 < H)
    (hint : ∀ r : ℝ, 0 ≤ r → IntegrableOn (fun lam : ℝ => lam ^ (2 * H - 1) * φ (lam⁻¹ * r))
      (Ioc 0 (tplScales lenScale lenLow rescale).up)) :
    IsPSDRadial V fun r =>
      tplCor (tplScales lenScale lenLow rescale) H
        (tplMode φ H (tplScales lenScale lenLow rescale).up r)
        (tplMode φ H (tplScales lenScale lenLow rescale).lo r) := by
  obtain ⟨-, -, h3, h4⟩ := tplScales_spec hls hll hrs
  set s := tplScales lenScale lenLow rescale with hs
  have hd := tpl_rpow_lt hH h3 h4
  have hbase := tpl_psd_of_mode (V := V) h H s.lo s.up h3 fun r hr =>
    (hint r hr).mono_set (Ioc_subset_Ioc_left h3)
  have hsc := psd_scale hbase (var := 2 * H / (s.up ^ (2 * H) - s.lo ^ (2 * H)))
    (div_nonneg (by positivity) (by linarith))
  unfold IsPSDRadial at hsc ⊢
  convert hsc using 3 with v
  have := tpl_model_cor_eq_mixture φ hls hll hrs hH ‖v‖ (hint _ (norm_nonneg _))
  simp only at this
  rw [← hs] at this
  show tplCor s H (tplMode φ H s.up ‖v‖) (tplMode φ H s.lo ‖v‖)
    = 2 * H / (s.up ^ (2 * H) - s.lo ^ (2 * H)) * ∫ lam in Ioc s.lo s.up, lam ^ (2 * H - 1) * φ (lam⁻¹ * ‖v‖)
  rw [this, ← integral_const_mul]
  congr 1
  funext lam; unfold tplDensity; ring

theorem tpl_gaussian_integrableOn (H up r : ℝ) (hH : 0 < H) (hup : 0 ≤ up) :
    IntegrableOn (fun lam : ℝ => lam ^ (2 * H - 1) * Real.exp (-((lam⁻¹ * r) ^ 2))) (Ioc 0 up) := by
  have hi : IntegrableOn (fun lam : ℝ => lam ^ (2 * H - 1)) (Ioc 0 up) :=
    (intervalIntegrable_iff_integrableOn_Ioc_of_le hup).1
      (intervalIntegral.intervalIntegrable_rpow' (by linarith))
  refine Integrable.mul_bdd (c := 1) hi ?_ (Filter.Eventually.of_forall fun t => ?_)
  · refine Measurable.aestronglyMeasurable ?_
    exact Real.measurable_exp.comp ((measurable_inv.mul measurable_const).pow_const 2).neg
  · rw [Real.norm_eq_abs, abs_of_pos (Real.exp_pos _), Real.exp_le_one_iff]
    exact neg_nonpos.2 (sq_nonneg _)

/-- **TPLGaussian, the model as coded** (scales = rescaled lengths, normalised two-term form): valid in every
    dimension for `len_scale > 0`, `len_low ≥ 0`, every `rescale > 0`, `H > 0`. -/
theorem tpl_gaussian_model_psd {lenScale lenLow rescale H : ℝ}
    (hls : 0 < lenScale) (hll : 0 ≤ lenLow) (hrs : 0 < rescale) (hH : 0 < H) :
    IsPSDRadial V fun r =>
      tplCor (tplScales lenScale lenLow rescale) H
        (tplMode (fun h => Real.exp (-(h ^ 2))) H (tplScales lenScale lenLow rescale).up r)
        (tplMode (fun h => Real.exp (-(h ^ 2))) H (tplScales lenScale lenLow rescale).lo r) := by
  obtain ⟨-, -, h3, h4⟩ := tplScales_spec hls hll hrs
  exact tpl_model_psd_of_mode (gaussian_psd (V := V)) hls hll hrs hH fun r _ =>
    tpl_gaussian_integrableOn H _ r hH (h3.trans h4.le)

/-- `TPLCovModel.var_factor` is the total (unnormalised) weight `∫ λ^{2H−1} dλ` over the rescaled truncation
    interval — the normalisation of `tplDensity` -/
theorem tplVarFactor_eq_integral {lenScale lenLow rescale H : ℝ} (hls : 0 < lenScale) (hrs : 0 < rescale)
    (hH : 0 < H) :
    tplVarFactor lenScale lenLow rescale H
      = ∫ lam in Ioc (lenLow / rescale) ((lenLow + lenScale) / rescale), lam ^ (2 * H - 1) := by
  have hle : lenLow / rescale ≤ (lenLow + lenScale) / rescale := by
    rw [div_le_div_iff_of_pos_right hrs]; linarith
  rw [tpl_integral_rpow hH hle]
  simp only [tplVarFactor, rpow_real]
  push_cast
  rfl

/-- non-trivial instance: `TPLGaussian(len_scale=9, len_low=1, rescale=2)` works with the scales `(1/2, 5]` -/
example : (tplScales (9:ℝ) 1 2).snap = false ∧ (tplScales (9:ℝ) 1 2).lo = 1 / 2 ∧ (tplScales (9:ℝ) 1 2).up = 5 := by
  have h : ¬ (|(1:ℝ) / 2| ≤ 1e-8) := by norm_num
  simp only [tplScales, fabs_real, h, if_false]
  norm_num

end tplmodel

section tplendtoend
open Classical

/-- **TPLGaussian, end to end**: accepted by the code ⇒ for every `rescale > 0` and every anisotropy/rotation
    matrix the covariance built from the coded two-term correlation at the rescaled scales is PSD on `ℝ^d`. -/
theorem accepted_tplgaussian_cov_psd (d : ℕ) (p : Params ℝ) (h : accepts .TPLGaussian d p = true) {s : ℝ}
    (hs : 0 < s) (A : EuclideanSpace ℝ (Fin d) →ₗ[ℝ] EuclideanSpace ℝ (Fin d)) :
    IsPSDFun fun r : EuclideanSpace ℝ (Fin d) =>
      p.var * tplCor (tplScales p.lenScale p.lenLow s) p.hurst
          (tplMode (fun h => Real.exp (-(h ^ 2))) p.hurst (tplScales p.lenScale p.lenLow s).up ‖A r‖)
          (tplMode (fun h => Real.exp (-(h ^ 2))) p.hurst (tplScales p.lenScale p.lenLow s).lo ‖A r‖)
        + p.nugget * (if A r = 0 then 1 else 0) := by
  obtain ⟨hv, hl, hn, hsh⟩ := validity_table .TPLGaussian d p h
  have hsh' : 0 < p.hurst ∧ p.hurst < 1 ∧ 0 ≤ p.lenLow := by simpa [litValidShape] using hsh
  have hφ := tpl_gaussian_model_psd (V := EuclideanSpace ℝ (Fin d)) (lenScale := p.lenScale)
    (lenLow := p.lenLow) (rescale := s) (H := p.hurst) (by simpa using hl) hsh'.2.2 hs hsh'.1
  have := psd_cov_spatial hφ A (var := p.var) (nugget := p.nugget) (ℓ := 1)
    (by simpa using hv) (by simpa using hn) one_pos
  simp only [div_one] at this
  exact this

end tplendtoend

end families

end GSV.Props.C02
