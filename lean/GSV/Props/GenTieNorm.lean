/-
  Tie A for the normalizer formulas (C18): the hand-written model `GSV.Model.Norm` that every C18 theorem
  talks about is EQUAL over `ℝ` (the carrier of the C18 theorems), for all parameters and all data, to the definitions
  that `vlib/pyexpr2lean.py` regenerates from the current text of `src/gstools/normalizer/methods.py` (and, for the
  inherited ranges and the identity base class, `normalizer/base.py`) on every run of `./check`
  (`GSV/Gen/NormFormulas.lean`).

  The theorems `*_eq_model_real` of this file are the registered obligations.  Each is proved by `tie_real`
  (`GSV/Props/GenTieReal.lean`): unfold both sides, rewrite the numpy vocabulary into Mathlib's, normalise roots / powers
  and every commutative-ring subterm, split the branch conditions, close by `ring1 | ring_nf | field_simp; ring1`.
  The script uses nothing about the particular formula, so it keeps checking when a maintainer rewrites a formula into
  a real-equal one (`log1p(x * l) / l` -> `log1p(x * l) * (1 / l)`), and stops checking on a semantic edit (a sign, a
  swapped range end, `>=` -> `>` in a mask, `log1p` -> `log`): the mutation self-test `vlib/selftest_pyexpr2lean.py` runs both.
  No side condition is needed: all 34 equalities hold for all real parameters and data.

  The carrier-polymorphic `rfl` form of the same equalities (the model text IS the source text, also on `Float`) lives in
  `GenTieNormExact.lean` and is reported as informative.

  Correspondence of the vocabulary: `np.isclose`, `np.sign` of `GSV/PyExpr.lean` are the model's `isclose`,
  `sgn` (`isclose_eq`, `sign_eq`); `np.log1p x` / `np.expm1 x` are `log (1 + x)` / `exp x - 1`
  (`log1p_eq`, `expm1_eq`; at `ℝ`: `log1p_real`, `expm1_real`); range tuples `(lo, hi)` with `∓np.inf`
  correspond to the model's `Rng` (`none` = infinite end) through `extRng`.
-/
import GSV.RealInst
import GSV.Props.GenTieReal
import GSV.Model.Norm
import GSV.Gen.NormFormulas

set_option linter.unusedSectionVars false

namespace GSV.Props.GenTieNorm
open GSV GSV.Transc GSV.PyExpr GSV.Model.Norm GSV.Gen.NormFormulas GSV.Props.GenTieReal

variable {α : Type} [Arith α] [Transc α] [DecidableLT α] [DecidableLE α]

/-! ### vocabulary -/

theorem isclose_eq (a b : α) : PyExpr.isclose a b = Model.Norm.isclose a b := rfl
theorem sign_eq (x : α) : PyExpr.sign x = sgn x := rfl
theorem log1p_eq (x : α) : log1p x = log (((1:Nat):α) + x) := rfl
theorem expm1_eq (x : α) : expm1 x = exp x - ((1:Nat):α) := rfl
theorem log1p_real (x : ℝ) : log1p x = Real.log (1 + x) := GenTieReal.log1p_real x
theorem expm1_real (x : ℝ) : expm1 x = Real.exp x - 1 := GenTieReal.expm1_real x

/-- lower end of a model range as a tuple entry: `none` is `-np.inf` -/
def extLo : Option α → Ext α
  | none => .negInf
  | some x => .fin x
/-- upper end of a model range as a tuple entry: `none` is `+np.inf` -/
def extHi : Option α → Ext α
  | none => .posInf
  | some x => .fin x
/-- the tuple `(lo, hi)` a model range stands for (injective: a swapped or sign-flipped end is a different tuple) -/
def extRng (r : Rng α) : Ext α × Ext α := (extLo r.lo, extHi r.hi)

theorem extRng_injective (r s : Rng α) (h : extRng r = extRng s) : r = s := by
  obtain ⟨rl, rh⟩ := r
  obtain ⟨sl, sh⟩ := s
  simp only [extRng, Prod.mk.injEq] at h
  obtain ⟨h1, h2⟩ := h
  cases rl <;> cases sl <;> cases rh <;> cases sh <;> simp_all [extLo, extHi]

/-! ### the obligations: equality over `ℝ`, robust against real-equal rewrites of the source

`tie_norm G, M` unfolds the generated definition `G`, the model function `M`, the `isclose` flags and the range
encoding, reads the model's `isclose` / `sgn` as numpy's, and runs `tie_real`. -/

local macro "tie_norm " g:ident ", " m:ident : tactic =>
  `(tactic| tie_real [$g:ident, $m:ident, c0, c2, ← isclose_eq, ← sign_eq, extRng, extLo, extHi])

/-! ### LogNormal -/
theorem LogNormal_normalize_range_eq_model_real (p : Par ℝ) :
    (LogNormal.normalize_range : Ext ℝ × Ext ℝ) = extRng (normRange .logNormal p) := by
  tie_norm LogNormal.normalize_range, normRange
theorem LogNormal_denormalize_range_eq_model_real (p : Par ℝ) :
    (LogNormal.denormalize_range : Ext ℝ × Ext ℝ) = extRng (denormRange .logNormal p) := by
  tie_norm LogNormal.denormalize_range, denormRange
theorem LogNormal_denormalize_eq_model_real (p : Par ℝ) (y : ℝ) :
    LogNormal._denormalize y = denormRaw .logNormal p y := by
  tie_norm LogNormal._denormalize, denormRaw
theorem LogNormal_normalize_eq_model_real (p : Par ℝ) (x : ℝ) :
    LogNormal._normalize x = normRaw .logNormal p x := by
  tie_norm LogNormal._normalize, normRaw
theorem LogNormal_derivative_eq_model_real (p : Par ℝ) (x : ℝ) :
    LogNormal._derivative x = derivRaw .logNormal p x := by
  tie_norm LogNormal._derivative, derivRaw

/-! ### BoxCox -/
theorem BoxCox_normalize_range_eq_model_real (p : Par ℝ) :
    (BoxCox.normalize_range : Ext ℝ × Ext ℝ) = extRng (normRange .boxCox p) := by
  tie_norm BoxCox.normalize_range, normRange
theorem BoxCox_denormalize_range_eq_model_real (p : Par ℝ) :
    BoxCox.denormalize_range p.lmbda = extRng (denormRange .boxCox p) := by
  tie_norm BoxCox.denormalize_range, denormRange
theorem BoxCox_denormalize_eq_model_real (p : Par ℝ) (y : ℝ) :
    BoxCox._denormalize p.lmbda y = denormRaw .boxCox p y := by
  tie_norm BoxCox._denormalize, denormRaw
theorem BoxCox_normalize_eq_model_real (p : Par ℝ) (x : ℝ) :
    BoxCox._normalize p.lmbda x = normRaw .boxCox p x := by
  tie_norm BoxCox._normalize, normRaw
theorem BoxCox_derivative_eq_model_real (p : Par ℝ) (x : ℝ) :
    BoxCox._derivative p.lmbda x = derivRaw .boxCox p x := by
  tie_norm BoxCox._derivative, derivRaw

/-! ### BoxCoxShift -/
theorem BoxCoxShift_normalize_range_eq_model_real (p : Par ℝ) :
    BoxCoxShift.normalize_range p.shift = extRng (normRange .boxCoxShift p) := by
  tie_norm BoxCoxShift.normalize_range, normRange
theorem BoxCoxShift_denormalize_range_eq_model_real (p : Par ℝ) :
    BoxCoxShift.denormalize_range p.lmbda = extRng (denormRange .boxCoxShift p) := by
  tie_norm BoxCoxShift.denormalize_range, denormRange
theorem BoxCoxShift_denormalize_eq_model_real (p : Par ℝ) (y : ℝ) :
    BoxCoxShift._denormalize p.lmbda p.shift y = denormRaw .boxCoxShift p y := by
  tie_norm BoxCoxShift._denormalize, denormRaw
theorem BoxCoxShift_normalize_eq_model_real (p : Par ℝ) (x : ℝ) :
    BoxCoxShift._normalize p.lmbda p.shift x = normRaw .boxCoxShift p x := by
  tie_norm BoxCoxShift._normalize, normRaw
theorem BoxCoxShift_derivative_eq_model_real (p : Par ℝ) (x : ℝ) :
    BoxCoxShift._derivative p.lmbda p.shift x = derivRaw .boxCoxShift p x := by
  tie_norm BoxCoxShift._derivative, derivRaw

/-! ### YeoJohnson -/
theorem YeoJohnson_normalize_range_eq_model_real (p : Par ℝ) :
    (YeoJohnson.normalize_range : Ext ℝ × Ext ℝ) = extRng (normRange .yeoJohnson p) := by
  tie_norm YeoJohnson.normalize_range, normRange
theorem YeoJohnson_denormalize_range_eq_model_real (p : Par ℝ) :
    (YeoJohnson.denormalize_range : Ext ℝ × Ext ℝ) = extRng (denormRange .yeoJohnson p) := by
  tie_norm YeoJohnson.denormalize_range, denormRange
theorem YeoJohnson_denormalize_eq_model_real (p : Par ℝ) (y : ℝ) :
    YeoJohnson._denormalize p.lmbda y = denormRaw .yeoJohnson p y := by
  tie_norm YeoJohnson._denormalize, denormRaw
theorem YeoJohnson_normalize_eq_model_real (p : Par ℝ) (x : ℝ) :
    YeoJohnson._normalize p.lmbda x = normRaw .yeoJohnson p x := by
  tie_norm YeoJohnson._normalize, normRaw
theorem YeoJohnson_derivative_eq_model_real (p : Par ℝ) (x : ℝ) :
    YeoJohnson._derivative p.lmbda x = derivRaw .yeoJohnson p x := by
  tie_norm YeoJohnson._derivative, derivRaw

/-! ### Modulus -/
theorem Modulus_normalize_range_eq_model_real (p : Par ℝ) :
    (Modulus.normalize_range : Ext ℝ × Ext ℝ) = extRng (normRange .modulus p) := by
  tie_norm Modulus.normalize_range, normRange
theorem Modulus_denormalize_range_eq_model_real (p : Par ℝ) :
    (Modulus.denormalize_range : Ext ℝ × Ext ℝ) = extRng (denormRange .modulus p) := by
  tie_norm Modulus.denormalize_range, denormRange
theorem Modulus_denormalize_eq_model_real (p : Par ℝ) (y : ℝ) :
    Modulus._denormalize p.lmbda y = denormRaw .modulus p y := by
  tie_norm Modulus._denormalize, denormRaw
theorem Modulus_normalize_eq_model_real (p : Par ℝ) (x : ℝ) :
    Modulus._normalize p.lmbda x = normRaw .modulus p x := by
  tie_norm Modulus._normalize, normRaw
theorem Modulus_derivative_eq_model_real (p : Par ℝ) (x : ℝ) :
    Modulus._derivative p.lmbda x = derivRaw .modulus p x := by
  tie_norm Modulus._derivative, derivRaw

/-! ### Manly -/
theorem Manly_normalize_range_eq_model_real (p : Par ℝ) :
    (Manly.normalize_range : Ext ℝ × Ext ℝ) = extRng (normRange .manly p) := by
  tie_norm Manly.normalize_range, normRange
theorem Manly_denormalize_range_eq_model_real (p : Par ℝ) :
    Manly.denormalize_range p.lmbda = extRng (denormRange .manly p) := by
  tie_norm Manly.denormalize_range, denormRange
theorem Manly_denormalize_eq_model_real (p : Par ℝ) (y : ℝ) :
    Manly._denormalize p.lmbda y = denormRaw .manly p y := by
  tie_norm Manly._denormalize, denormRaw
theorem Manly_normalize_eq_model_real (p : Par ℝ) (x : ℝ) :
    Manly._normalize p.lmbda x = normRaw .manly p x := by
  tie_norm Manly._normalize, normRaw
theorem Manly_derivative_eq_model_real (p : Par ℝ) (x : ℝ) :
    Manly._derivative p.lmbda x = derivRaw .manly p x := by
  tie_norm Manly._derivative, derivRaw

/-! ### Normalizer -/
theorem Normalizer_normalize_range_eq_model_real (p : Par ℝ) :
    (Normalizer.normalize_range : Ext ℝ × Ext ℝ) = extRng (normRange .identity p) := by
  tie_norm Normalizer.normalize_range, normRange
theorem Normalizer_denormalize_range_eq_model_real (p : Par ℝ) :
    (Normalizer.denormalize_range : Ext ℝ × Ext ℝ) = extRng (denormRange .identity p) := by
  tie_norm Normalizer.denormalize_range, denormRange
theorem Normalizer_denormalize_eq_model_real (p : Par ℝ) (y : ℝ) :
    Normalizer._denormalize y = denormRaw .identity p y := by
  tie_norm Normalizer._denormalize, denormRaw
theorem Normalizer_normalize_eq_model_real (p : Par ℝ) (x : ℝ) :
    Normalizer._normalize x = normRaw .identity p x := by
  tie_norm Normalizer._normalize, normRaw

/-- the hypotheses-free statements are about non-trivial objects: e.g. Box-Cox with `λ = 1/2` at `x = 4` is `2` on both sides -/
example : BoxCox._normalize (Par.mk (0.5:ℝ) 0).lmbda 4 = 2 ∧ normRaw .boxCox (Par.mk (0.5:ℝ) 0) 4 = 2 := by
  have h : BoxCox._normalize (0.5:ℝ) 4 = 2 := by
    have hc : ¬ (PyExpr.isclose (0.5:ℝ) ((0:Nat):ℝ) = true) := by
      simp only [PyExpr.isclose, decide_eq_true_eq, fabs_real]; norm_num [abs_of_pos]
    rw [BoxCox._normalize, if_neg hc]
    have : ((4:ℝ)) ^ (0.5:ℝ) = 2 := by
      rw [show (4:ℝ) = 2 ^ (2:ℝ) by norm_num, ← Real.rpow_mul (by norm_num)]; norm_num
    simp only [rpow_real, this]; norm_num
  exact ⟨h, (BoxCox_normalize_eq_model_real _ 4) ▸ h⟩

end GSV.Props.GenTieNorm
