/-
  C02 — why the ORDER handed to the exponential integral decides `|ρ| ≤ 1` for the models built on `E_s`.

  TPLStable / TPLExponential / TPLGaussian evaluate `ρ(r) = (2H/α) · E_{1+2H/α}((r/ℓ)^α)`, Integral
  `ρ(r) = (ν/2) · E_{1+ν/2}((r/ℓ)²)`: a prefactor `s - 1` times `E_s(x)`, `E_s(x) = ∫₁^∞ e^{-xt} t^{-s} dt`.
  * `mode_cor_mem_Icc`, `mode_cor_zero`: for every order `s > 1` and `x ≥ 0`, `0 ≤ (s-1) E_s(x) ≤ 1` with value
    `1` at `x = 0` — the prefactor and the order belong together;
  * `neighbouring_order_exceeds_one` / `truncated_integer_order_exceeds_one`: with the prefactor of order `s`
    but `E` of the next lower order (what `int(s)` instead of `int(np.around(s))` selects when `s` lies a few
    ulp below an integer) the value at the origin is `(s-1)/(s-2) > 1`;
  * `next_order_jump`: with the next higher order it is `(s-1)/s < 1` — still a valid covariance plus a nugget,
    so only continuity in the parameters reveals it (the reason `rounding_scan` of `vlib/props/C02.py` compares
    parameter sets a few ulp apart besides checking `|ρ| ≤ 1` and eigenvalues).
  The choice of the integer order by the code itself (`expIntPlan_of_integer_close`: every order inside the
  `np.isclose` band of an integer `m`, on either side, is evaluated as `expn(m, ·)`) is in `Props/C03`.
-/
import GSV.RealInst
import Mathlib.Analysis.SpecialFunctions.ImproperIntegrals
namespace GSV.Props.C02Order
open MeasureTheory Set

/-- the generalised exponential integral `E_s(x) = ∫₁^∞ e^{-x t} t^{-s} dt` -/
noncomputable def expIntegral (s x : ℝ) : ℝ := ∫ t in Ioi (1:ℝ), Real.exp (-(x * t)) * t ^ (-s)

theorem rpow_integrableOn {s : ℝ} (hs : 1 < s) : IntegrableOn (fun t : ℝ => t ^ (-s)) (Ioi 1) :=
  integrableOn_Ioi_rpow_of_lt (by linarith) zero_lt_one

theorem kernel_integrableOn {s x : ℝ} (hs : 1 < s) (hx : 0 ≤ x) :
    IntegrableOn (fun t : ℝ => Real.exp (-(x * t)) * t ^ (-s)) (Ioi 1) := by
  refine Integrable.mono' (rpow_integrableOn hs) ?_ ?_
  · refine ContinuousOn.aestronglyMeasurable ?_ measurableSet_Ioi
    refine ContinuousOn.mul (by fun_prop) ?_
    intro t ht
    exact (Real.continuousAt_rpow_const t (-s) (Or.inl (by
      have : (1:ℝ) < t := ht
      linarith))).continuousWithinAt
  · refine (ae_restrict_iff' measurableSet_Ioi).mpr (Filter.Eventually.of_forall fun t ht => ?_)
    have ht1 : (1:ℝ) < t := ht
    have hpow : 0 ≤ t ^ (-s) := Real.rpow_nonneg (by linarith) _
    have hexp : Real.exp (-(x * t)) ≤ 1 := by
      rw [Real.exp_le_one_iff]
      have : 0 ≤ x * t := mul_nonneg hx (by linarith)
      linarith
    rw [Real.norm_eq_abs, abs_of_nonneg (mul_nonneg (Real.exp_pos _).le hpow)]
    calc Real.exp (-(x * t)) * t ^ (-s) ≤ 1 * t ^ (-s) := mul_le_mul_of_nonneg_right hexp hpow
      _ = t ^ (-s) := one_mul _

/-- `E_s(0) = 1 / (s - 1)` for `s > 1` -/
theorem expIntegral_zero {s : ℝ} (hs : 1 < s) : expIntegral s 0 = 1 / (s - 1) := by
  have h := integral_Ioi_rpow_of_lt (a := -s) (by linarith) (zero_lt_one : (0:ℝ) < 1)
  simp only [expIntegral, zero_mul, neg_zero, Real.exp_zero, one_mul]
  rw [h, Real.one_rpow]
  have hne : s - 1 ≠ 0 := by linarith
  have hne' : -s + 1 ≠ 0 := by linarith
  field_simp
  ring

theorem expIntegral_nonneg (s x : ℝ) : 0 ≤ expIntegral s x := by
  refine setIntegral_nonneg measurableSet_Ioi fun t ht => ?_
  have ht1 : (1:ℝ) < t := ht
  exact mul_nonneg (Real.exp_pos _).le (Real.rpow_nonneg (by linarith) _)

/-- `E_s(x) ≤ E_s(0)` for `x ≥ 0` -/
theorem expIntegral_le {s x : ℝ} (hs : 1 < s) (hx : 0 ≤ x) : expIntegral s x ≤ 1 / (s - 1) := by
  rw [← expIntegral_zero hs]
  refine setIntegral_mono_on (kernel_integrableOn hs hx) (kernel_integrableOn hs le_rfl) measurableSet_Ioi
    fun t ht => ?_
  have ht1 : (1:ℝ) < t := ht
  have hpow : 0 ≤ t ^ (-s) := Real.rpow_nonneg (by linarith) _
  refine mul_le_mul_of_nonneg_right (Real.exp_le_exp.mpr ?_) hpow
  have : 0 ≤ x * t := mul_nonneg hx (by linarith)
  linarith

/-- the correlation of a power-law mode / of the Integral model at the origin: `(s - 1) E_s(0) = 1` -/
theorem mode_cor_zero {s : ℝ} (hs : 1 < s) : (s - 1) * expIntegral s 0 = 1 := by
  rw [expIntegral_zero hs]
  have : s - 1 ≠ 0 := by linarith
  field_simp

/-- ... and it never leaves `[0, 1]`: prefactor `s - 1` (`= 2H/α`, `ν/2`) with the exponential integral of the SAME order `s` -/
theorem mode_cor_mem_Icc {s x : ℝ} (hs : 1 < s) (hx : 0 ≤ x) :
    0 ≤ (s - 1) * expIntegral s x ∧ (s - 1) * expIntegral s x ≤ 1 := by
  have hpos : 0 < s - 1 := by linarith
  refine ⟨mul_nonneg hpos.le (expIntegral_nonneg s x), ?_⟩
  calc (s - 1) * expIntegral s x ≤ (s - 1) * (1 / (s - 1)) :=
        mul_le_mul_of_nonneg_left (expIntegral_le hs hx) hpos.le
    _ = 1 := by field_simp

/-- prefactor of order `s`, exponential integral of the next LOWER order: `(s-1)/(s-2) > 1` at the origin -/
theorem neighbouring_order_exceeds_one {s : ℝ} (hs : 2 < s) :
    (s - 1) * expIntegral (s - 1) 0 = (s - 1) / (s - 2) ∧ 1 < (s - 1) * expIntegral (s - 1) 0 := by
  have h1 : 1 < s - 1 := by linarith
  have hpos : 0 < s - 2 := by linarith
  have heq : (s - 1) * expIntegral (s - 1) 0 = (s - 1) / (s - 2) := by
    rw [expIntegral_zero h1, show s - 1 - 1 = s - 2 by ring]; ring
  refine ⟨heq, ?_⟩
  rw [heq, lt_div_iff₀ hpos]; linarith

/-- the integer instance: an order that is the integer `n ≥ 3` up to rounding, truncated to `n - 1` -/
theorem truncated_integer_order_exceeds_one (n : ℕ) (hn : 3 ≤ n) :
    1 < ((n:ℝ) - 1) * expIntegral ((n:ℝ) - 1) 0 := by
  have : (2:ℝ) < n := by
    have : (3:ℝ) ≤ n := by exact_mod_cast hn
    linarith
  exact (neighbouring_order_exceeds_one this).2

/-- prefactor of order `s`, exponential integral of the next HIGHER order: `(s-1)/s < 1` at the origin, although
    the documented value is `1` — invisible to `|ρ| ≤ 1`, visible to continuity in the parameters -/
theorem next_order_jump {s : ℝ} (hs : 1 < s) :
    (s - 1) * expIntegral (s + 1) 0 = (s - 1) / s ∧ (s - 1) * expIntegral (s + 1) 0 < 1 := by
  have h1 : 1 < s + 1 := by linarith
  have hpos : 0 < s := by linarith
  have heq : (s - 1) * expIntegral (s + 1) 0 = (s - 1) / s := by
    rw [expIntegral_zero h1, show s + 1 - 1 = s by ring]; ring
  refine ⟨heq, ?_⟩
  rw [heq, div_lt_one hpos]; linarith

/-! the hypotheses are satisfiable: TPLStable(hurst = 0.6, alpha = 0.4) has order `1 + 2·0.6/0.4 = 4` -/

example : (4 - 1) * expIntegral 4 0 = 1 := mode_cor_zero (by norm_num)
example : 0 ≤ (4 - 1) * expIntegral 4 0.3 ∧ (4 - 1) * expIntegral 4 0.3 ≤ 1 :=
  mode_cor_mem_Icc (by norm_num) (by norm_num)
example : (4 - 1) * expIntegral (4 - 1) 0 = 3 / 2 := by
  have := (neighbouring_order_exceeds_one (s := 4) (by norm_num)).1
  rw [this]; norm_num

end GSV.Props.C02Order
