/-
  C12 — functional drift terms (universal kriging) under the change of coordinates.

  The kriging theorems of `C12Compose` take the drift VALUES (`F` at the conditioning points, `f` at the targets) as given.
  Here the part of the code that produces them is modelled (`GSV/Model/Pipe.lean`: `driftMat`, `driftPos`, `driftRhs`):
  the matrix uses `f_k(*cond_pos)` on the raw conditioning positions, the right-hand sides use
  `f_k(*model.anisometrize(iso_pos)[:, chunk])` — the isometrized targets transformed BACK.

  Statements (every dimension, every angle list, every list of positive ratios — in particular the strata
  "anisotropic, all angles 0" and "rotated, all ratios 1", which are not special cases of the code):
  * `driftPos_raw`: the drift functions see the RAW target positions;
  * `driftRhs_raw`: the drift rows of the right-hand sides are `g_k(target)`;
  * `krige_drift_aniso_eq_iso`: universal kriging with drift functions `g` and the model with `(angles, anis)` at `x` equals
    universal kriging with the isotropic unrotated model on `isometrize x` and the drift functions `g ∘ anisometrize`
    (the same functions written in the isotropic coordinates) — estimate and variance, own inverse / chunk size / schedule each;
  * `drift_at_isometrized_pos_differs`: a witness that evaluating the drift at the isometrized targets instead (what a
    "skip the back-transformation for unrotated models" shortcut does) gives a different right-hand side for an
    anisotropic unrotated model, and `drift_at_rotated_pos_differs` the same for a rotated isotropic one.
-/
import GSV.Props.C12Compose
namespace GSV.Props.C12
open GSV GSV.Model.Geo GSV.Lemmas.Geo GSV.Model.Pipe GSV.Model.Krige Matrix

set_option linter.unusedSectionVars false

/-- a family of drift functions of a `d`-dimensional position: reads the first `d` coordinates only -/
def DriftLocal (d : Nat) (g : Nat → (Nat → ℝ) → ℝ) : Prop := ∀ k u v, toV d u = toV d v → g k u = g k v

/-- `anisometrize` reads the first `d` coordinates only -/
theorem toV_anisometrize_congr (d : Nat) (angles anis : List ℝ) (u v : Nat → ℝ) (h : toV d u = toV d v) :
    toV d (anisometrize d angles anis u) = toV d (anisometrize d angles anis v) := by
  simp only [anisometrize, toV_applyMat, h]

/-- **the drift functions of the right-hand sides see the RAW target positions**: `anisometrize(pre_pos(pos))[:, p] = pos[:, p]`
    for every dimension, every angle list and every list of positive ratios -/
theorem driftPos_raw (d : Nat) (angles anis : List ℝ) (h : ∀ a ∈ anis, 0 < a) (tpos : Nat → Nat → ℝ) (p : Nat) :
    toV d (colOf (driftPos d angles anis tpos) p) = toV d (colOf tpos p) :=
  (iso_aniso_roundtrip d angles anis h (colOf tpos p)).1

/-- the drift rows of the right-hand sides are the drift functions at the raw targets -/
theorem driftRhs_raw (d : Nat) (g : Nat → (Nat → ℝ) → ℝ) (hg : DriftLocal d g) (angles anis : List ℝ) (h : ∀ a ∈ anis, 0 < a)
    (tpos : Nat → Nat → ℝ) (k p : Nat) :
    driftRhs g d angles anis tpos k p = g k (colOf tpos p) :=
  hg k _ _ (driftPos_raw d angles anis h tpos p)

/-- the drift functions written in the isotropic coordinates: `g ∘ anisometrize` -/
noncomputable def driftInIso (d : Nat) (angles anis : List ℝ) (g : Nat → (Nat → ℝ) → ℝ) : Nat → (Nat → ℝ) → ℝ :=
  fun k y => g k (anisometrize d angles anis y)

theorem driftInIso_local (d : Nat) (angles anis : List ℝ) (g : Nat → (Nat → ℝ) → ℝ) (hg : DriftLocal d g) :
    DriftLocal d (driftInIso d angles anis g) :=
  fun k u v h => hg k _ _ (toV_anisometrize_congr d angles anis u v h)

/-- matrix side: the isotropic object's drift columns on `isometrize cpos` with `g ∘ anisometrize` are the anisotropic
    object's drift columns on `cpos` with `g` -/
theorem driftMat_iso (d : Nat) (g : Nat → (Nat → ℝ) → ℝ) (hg : DriftLocal d g) (angles anis : List ℝ) (h : ∀ a ∈ anis, 0 < a)
    (cpos : Nat → Nat → ℝ) :
    driftMat (driftInIso d angles anis g) (isoPos d angles anis cpos) = driftMat g cpos := by
  funext k i
  exact hg k _ _ (iso_aniso_roundtrip d angles anis h (colOf cpos i)).1

/-- right-hand sides: the isotropic unrotated object at `isometrize tpos` with `g ∘ anisometrize` evaluates the same drift values -/
theorem driftRhs_iso (d : Nat) (g : Nat → (Nat → ℝ) → ℝ) (hg : DriftLocal d g) (angles anis : List ℝ) (h : ∀ a ∈ anis, 0 < a)
    (tpos : Nat → Nat → ℝ) :
    driftRhs (driftInIso d angles anis g) d ([] : List ℝ) [] (isoPos d angles anis tpos) = driftRhs g d angles anis tpos := by
  funext k p
  rw [driftRhs_raw d _ (driftInIso_local d angles anis g hg) [] [] (by simp) _ k p,
    driftRhs_raw d g hg angles anis h tpos k p]
  exact hg k _ _ (iso_aniso_roundtrip d angles anis h (colOf tpos p)).1

/-- **C12 pipeline, universal kriging (functional drift), concrete**: the Krige object with drift functions `g` of a model
    with `(angles, anis)` on conditioning positions `cpos`, evaluated at `tpos`, and the Krige object of the ISOTROPIC
    UNROTATED model on `isometrize cpos` with the drift functions `g ∘ anisometrize`, evaluated at `isometrize tpos`, return
    the same estimate and the same kriging variance (each with its own inverse, chunk size and schedule).  No hypothesis on
    the angles: all zero, some zero, none zero alike; ratios positive (1 allowed). -/
theorem krige_drift_aniso_eq_iso (sched sched' : Sched) (hs : sched.Admissible) (hs' : sched'.Admissible)
    (L : Layout) (cov cf : ℝ → ℝ) (d : Nat) (angles anis : List ℝ) (ha : ∀ a ∈ anis, 0 < a) (cpos tpos : Nat → Nat → ℝ)
    (err : Nat → ℝ) (g : Nat → (Nat → ℝ) → ℝ) (hg : DriftLocal d g) (E e : Nat → Nat → ℝ) (M M' : Nat → Nat → ℝ)
    (hM : C05.toMat L.size M * C05.toMat L.size (krigeDriftMatAt L cov d angles anis cpos err g E) = 1)
    (hM' : C05.toMat L.size M' * C05.toMat L.size
      (krigeDriftMatAt L cov d ([] : List ℝ) [] (isoPos d angles anis cpos) err (driftInIso d angles anis g) E) = 1)
    (cond : Nat → ℝ) (sill : ℝ) (pnt cs cs' : Nat) (hcs : 0 < cs) (hcs' : 0 < cs') (p : Nat) (hp : p < pnt) :
    (krigeDriftAt sched L cf d angles anis cpos tpos g e M cond sill pnt cs).1 p =
      (krigeDriftAt sched' L cf d ([] : List ℝ) [] (isoPos d angles anis cpos) (isoPos d angles anis tpos)
        (driftInIso d angles anis g) e M' cond sill pnt cs').1 p ∧
    (krigeDriftAt sched L cf d angles anis cpos tpos g e M cond sill pnt cs).2 p =
      (krigeDriftAt sched' L cf d ([] : List ℝ) [] (isoPos d angles anis cpos) (isoPos d angles anis tpos)
        (driftInIso d angles anis g) e M' cond sill pnt cs').2 p := by
  unfold krigeDriftMatAt at hM hM'
  rw [driftMat_iso d g hg angles anis ha cpos] at hM'
  unfold krigeDriftAt
  rw [driftRhs_iso d g hg angles anis ha tpos]
  exact krige_aniso_eq_iso sched sched' hs hs' L cov cf d angles anis cpos tpos err (driftMat g cpos) E
    (driftRhs g d angles anis tpos) e M M' hM hM' cond sill pnt cs cs' hcs hcs' p hp


/-! ## why the back-transformation cannot be skipped in any stratum

A shortcut "evaluate the drift at `iso_pos` unless the model is rotated" (or "... unless it is anisotropic") is wrong exactly on
the strata the shortcut skips: the isometrized position differs from the raw one as soon as ONE ratio differs from 1 (whatever the
angles, also all zero) or the rotation matrix is not the identity (whatever the ratios, also all 1). -/

/-- **anisotropy alone moves positions**: if the ratio of main axis `i` is not 1, the unit vector along that axis is not
    a fixed point of `isometrize` — for every angle list, in particular `angles = 0` -/
theorem isometrize_moves_main_axis (d : Nat) (angles anis : List ℝ) (h : ∀ a ∈ anis, 0 < a) (i : Fin d)
    (hi : stretch d anis i ≠ 1) :
    toV d (isometrize d angles anis (fun k => 1 * mainAxes d angles i k)) ≠ toV d (fun k => 1 * mainAxes d angles i k) := by
  intro heq
  have h1 := main_axis_scale d angles anis h i 1
  rw [← stretch_eq_getElem, isoRad, norm2_eq, heq] at h1
  have hax : toV d (fun k => 1 * mainAxes d angles i k) = toV d (mainAxes d angles i) := by
    funext k; simp [toV]
  rw [hax, main_axes_orthonormal d angles i i] at h1
  simp only [if_true, Real.sqrt_one, abs_one] at h1
  have hs := stretch_pos h i
  have : stretch d anis i = 1 := by
    field_simp at h1
    linarith
  exact hi this

/-- the linear drift function `x ↦ x_k` therefore takes different values at the isometrized and at the raw position for some `k` -/
theorem drift_at_isometrized_pos_differs (d : Nat) (angles anis : List ℝ) (h : ∀ a ∈ anis, 0 < a) (i : Fin d)
    (hi : stretch d anis i ≠ 1) :
    ∃ (x : Nat → ℝ) (k : Fin d), isometrize d angles anis x k ≠ x k := by
  refine ⟨fun k => 1 * mainAxes d angles i k, ?_⟩
  have hne := isometrize_moves_main_axis d angles anis h i hi
  by_contra hall
  push Not at hall
  exact hne (funext fun k => hall k)

/-- **rotation alone moves positions**: with all ratios equal to 1 (no anisotropy), `isometrize` is the derotation, and it has a
    non-fixed point as soon as the rotation matrix is not the identity -/
theorem drift_at_rotated_pos_differs (d : Nat) (angles : List ℝ) (hR : toM d (matrixRotate d angles) ≠ 1) :
    ∃ (x : Nat → ℝ) (k : Fin d), isometrize d angles [] x k ≠ x k := by
  have hs : stretch d ([] : List ℝ) = fun _ => 1 := by
    funext i
    have hp := (pad_rules_anis d []).2.1 (Nat.zero_le _)
    have hi := i.2
    simp only [stretch, hp, List.append_nil, List.length_nil, Nat.sub_zero]
    rcases i with ⟨_ | k, hk⟩
    · simp
    · have : k < d - 1 := by omega
      simp [this]
  have hM : toM d (matrixIsometrize d angles []) = (toM d (matrixRotate d angles))ᵀ := by
    rw [(iso_aniso_factor d angles []).1, hs]
    simp
  by_contra hall
  push Not at hall
  apply hR
  have hT : (toM d (matrixRotate d angles))ᵀ = 1 := by
    ext a b
    have hx := hall (fun k => if k = (b : Nat) then 1 else 0) a
    have hv : toV d (fun k : Nat => if k = (b : Nat) then (1:ℝ) else 0) = Pi.single b 1 := by
      funext c
      by_cases hcb : c = b
      · subst hcb; simp [toV]
      · have : (c : Nat) ≠ (b : Nat) := fun hh => hcb (Fin.ext hh)
        simp [toV, this, hcb]
    have h2 : toV d (isometrize d angles [] (fun k => if k = (b : Nat) then 1 else 0)) a
        = (toM d (matrixRotate d angles))ᵀ a b := by
      rw [isometrize, toV_applyMat, hM, hv, Matrix.mulVec_single_one]
      rfl
    rw [← h2, toV_apply, hx, Matrix.one_apply]
    by_cases hab : a = b
    · subst hab; simp
    · have : (a : Nat) ≠ (b : Nat) := fun hh => hab (Fin.ext hh)
      simp [this, hab]
  have := congrArg Matrix.transpose hT
  simpa using this

/-- a 2-D rotation by an angle with `sin a ≠ 0` is not the identity: the hypothesis of `drift_at_rotated_pos_differs` is met by every
    2-D model with such an angle and ratio 1 -/
example (a : ℝ) (ha : Real.sin a ≠ 0) : toM 2 (matrixRotate 2 [a]) ≠ 1 := by
  rw [rot2d_ccw]
  intro h
  have := congrFun (congrFun h 1) 0
  simp at this
  exact ha this

/-- `anis = [2]` in 2-D: the second main axis has ratio 2 ≠ 1 — the hypothesis of `drift_at_isometrized_pos_differs` is met with all angles 0 -/
example : stretch 2 [2] (1 : Fin 2) ≠ 1 := by
  simp [stretch, setAnis]

/-- linear drift `g_k(x) = x_k` is local -/
example : DriftLocal 3 (fun k x => if k < 3 then x k else 0) := by
  intro k u v h
  by_cases hk : k < 3
  · simp only [hk, if_true]
    exact congrFun h ⟨k, hk⟩
  · simp [hk]

end GSV.Props.C12
