/-
  C13 — geographic and spatio-temporal coordinates are consistent across modules.

  All statements are about the executable model `GSV.Model.LatLon` (tied to gstools by differential
  execution) and about the *generated* haversine kernel `GSV.Estimator.dist_haversine`, instantiated at ℝ.
  Angles are in degrees on the lat-lon side, `R` is `geo_scale`.
-/
import GSV.RealInst
import GSV.Model.LatLon
import GSV.Lemmas.LatLon
import Mathlib.Algebra.BigOperators.Intervals
import Mathlib.Analysis.SpecialFunctions.Trigonometric.Complex
import Mathlib.Tactic.Ring
import Mathlib.Tactic.Linarith
import Mathlib.Tactic.LinearCombination
import Mathlib.Tactic.FieldSimp
import Mathlib.Tactic.Positivity
namespace GSV.Props.C13
open GSV GSV.Model.LatLon
open scoped Real

/-! ### positions lie on the sphere of radius `geo_scale` -/

/-- `‖latlon2pos R lat lon‖² = R²` for every latitude / longitude (no range restriction) -/
theorem on_sphere_sq (R lat lon : ℝ) : P3.normSq (latlon2pos R lat lon) = R * R := sphere_sq R lat lon

/-- `‖latlon2pos R lat lon‖ = R` for `R = geo_scale ≥ 0` -/
theorem on_sphere {R : ℝ} (hR : 0 ≤ R) (lat lon : ℝ) :
    Real.sqrt (P3.normSq (latlon2pos R lat lon)) = R := by
  rw [sphere_sq, Real.sqrt_mul_self hR]

example : (0:ℝ) ≤ 6371 := by norm_num

/-! ### chord ↔ haversine -/

/-- key identity: `‖p₁ − p₂‖² = 4R²·a`, `a` the argument of the haversine formula -/
theorem chord_is_haversine (R lat1 lon1 lat2 lon2 : ℝ) :
    P3.normSq (P3.sub (latlon2pos R lat1 lon1) (latlon2pos R lat2 lon2))
      = 4 * (R * R) * havArg lat1 lon1 lat2 lon2 := chord_sq R lat1 lon1 lat2 lon2

/-- `0 ≤ a ≤ 1` for all inputs (also for latitudes outside [−90, 90]) -/
theorem havArg_mem (lat1 lon1 lat2 lon2 : ℝ) :
    0 ≤ havArg lat1 lon1 lat2 lon2 ∧ havArg lat1 lon1 lat2 lon2 ≤ 1 := by
  have h := chord_sq 1 lat1 lon1 lat2 lon2
  have s1 := sphere_sq 1 lat1 lon1
  have s2 := sphere_sq 1 lat2 lon2
  set p := latlon2pos (1:ℝ) lat1 lon1
  set q := latlon2pos (1:ℝ) lat2 lon2
  simp only [P3.sub, P3.normSq] at h s1 s2
  constructor
  · nlinarith [mul_self_nonneg (p.x - q.x), mul_self_nonneg (p.y - q.y), mul_self_nonneg (p.z - q.z)]
  · nlinarith [mul_self_nonneg (p.x + q.x), mul_self_nonneg (p.y + q.y), mul_self_nonneg (p.z + q.z)]

/-- the generated estimator kernel returns the great-circle angle `2·arcsin √a` -/
theorem haversine_is_angle (lat1 lon1 lat2 lon2 : ℝ) :
    haversine lat1 lon1 lat2 lon2 = 2 * Real.arcsin (Real.sqrt (havArg lat1 lon1 lat2 lon2)) := by
  obtain ⟨h0, h1⟩ := havArg_mem lat1 lon1 lat2 lon2
  rw [haversine_eq, arg_unit h0 h1]

/-- the estimator's distances lie in `[0, π]` -/
theorem haversine_range (lat1 lon1 lat2 lon2 : ℝ) :
    0 ≤ haversine lat1 lon1 lat2 lon2 ∧ haversine lat1 lon1 lat2 lon2 ≤ π := by
  rw [haversine_is_angle]
  constructor
  · have := Real.arcsin_nonneg.mpr (Real.sqrt_nonneg (havArg lat1 lon1 lat2 lon2)); linarith
  · have := Real.arcsin_le_pi_div_two (Real.sqrt (havArg lat1 lon1 lat2 lon2)); linarith

/-- the chordal distance the models use is `2R·√a` -/
theorem chord_eq {R : ℝ} (hR : 0 ≤ R) (lat1 lon1 lat2 lon2 : ℝ) :
    chord (latlon2pos R lat1 lon1) (latlon2pos R lat2 lon2)
      = 2 * R * Real.sqrt (havArg lat1 lon1 lat2 lon2) := by
  obtain ⟨h0, _⟩ := havArg_mem lat1 lon1 lat2 lon2
  unfold chord
  rw [sqrt_real, chord_sq]
  have : 4 * (R * R) * havArg lat1 lon1 lat2 lon2 = (2 * R) * (2 * R) * havArg lat1 lon1 lat2 lon2 := by ring
  rw [this, Real.sqrt_mul (mul_self_nonneg _), Real.sqrt_mul_self (by linarith)]

/-! ### chordal ↔ great-circle conversions -/

theorem g2c_real (R d : ℝ) : great_circle_to_chordal R d = 2 * R * Real.sin (d / (2 * R)) := by
  simp [great_circle_to_chordal]

theorem c2g_real (R d : ℝ) : chordal_to_great_circle R d = 2 * R * Real.arcsin (clip 0 1 (d / (2 * R))) := by
  simp [chordal_to_great_circle]

/-- great-circle → chordal → great-circle is the identity on `[0, πR]` -/
theorem chordal_great_circle_inverse {R d : ℝ} (hR : 0 < R) (h0 : 0 ≤ d) (h1 : d ≤ π * R) :
    chordal_to_great_circle R (great_circle_to_chordal R d) = d := by
  rw [c2g_real, g2c_real]
  have h2R : (2 * R) ≠ 0 := by positivity
  have hx0 : 0 ≤ d / (2 * R) := by positivity
  have hx1 : d / (2 * R) ≤ π / 2 := by
    rw [div_le_div_iff₀ (by positivity) (by norm_num)]; nlinarith
  rw [mul_div_cancel_left₀ _ h2R]
  have hs0 : 0 ≤ Real.sin (d / (2 * R)) := Real.sin_nonneg_of_nonneg_of_le_pi hx0 (by linarith [Real.pi_pos])
  rw [clip_of_mem hs0 (Real.sin_le_one _), Real.arcsin_sin (by linarith [Real.pi_pos]) hx1]
  field_simp

/-- chordal → great-circle → chordal is the identity on `[0, 2R]` -/
theorem great_circle_chordal_inverse {R c : ℝ} (hR : 0 < R) (h0 : 0 ≤ c) (h1 : c ≤ 2 * R) :
    great_circle_to_chordal R (chordal_to_great_circle R c) = c := by
  rw [g2c_real, c2g_real]
  have h2R : (2 * R) ≠ 0 := by positivity
  have hx0 : 0 ≤ c / (2 * R) := by positivity
  have hx1 : c / (2 * R) ≤ 1 := by rw [div_le_one (by positivity)]; exact h1
  rw [clip_of_mem hx0 hx1, mul_div_cancel_left₀ _ h2R, Real.sin_arcsin (by linarith) hx1]
  field_simp

example : (0:ℝ) < 6371 ∧ (0:ℝ) ≤ 1000 ∧ (1000:ℝ) ≤ π * 6371 := by
  refine ⟨by norm_num, by norm_num, ?_⟩
  nlinarith [Real.two_le_pi]

/-- a great-circle distance never exceeds half the circumference (so `standard_bins` stays on the sphere);
    chordal distances outside `[0, 2R]` are truncated -/
theorem c2g_range {R : ℝ} (hR : 0 ≤ R) (d : ℝ) :
    0 ≤ chordal_to_great_circle R d ∧ chordal_to_great_circle R d ≤ π * R := by
  rw [c2g_real]
  obtain ⟨c0, c1⟩ := clip_mem (zero_le_one' ℝ) (d / (2 * R))
  have a0 := Real.arcsin_nonneg.mpr c0
  have a1 := Real.arcsin_le_pi_div_two (clip 0 1 (d / (2 * R)))
  constructor
  · positivity
  · nlinarith

/-! ### the covariance between two lat-lon points is the Yadrenko covariance of their great-circle distance -/

/-- the chord the models use is the chord of the estimator's great-circle distance `R · haversine` -/
theorem chord_of_haversine {R : ℝ} (hR : 0 < R) (lat1 lon1 lat2 lon2 : ℝ) :
    chord (latlon2pos R lat1 lon1) (latlon2pos R lat2 lon2)
      = great_circle_to_chordal R (R * haversine lat1 lon1 lat2 lon2) := by
  obtain ⟨h0, h1⟩ := havArg_mem lat1 lon1 lat2 lon2
  rw [chord_eq hR.le, g2c_real, haversine_is_angle]
  have : R * (2 * Real.arcsin (Real.sqrt (havArg lat1 lon1 lat2 lon2))) / (2 * R)
      = Real.arcsin (Real.sqrt (havArg lat1 lon1 lat2 lon2)) := by field_simp
  rw [this, Real.sin_arcsin (by linarith [Real.sqrt_nonneg (havArg lat1 lon1 lat2 lon2)])
    (Real.sqrt_le_one.mpr h1 |>.trans_eq rfl)]

/-- conversely the estimator's great-circle distance is the great-circle distance of the models' chord -/
theorem haversine_of_chord {R : ℝ} (hR : 0 < R) (lat1 lon1 lat2 lon2 : ℝ) :
    R * haversine lat1 lon1 lat2 lon2
      = chordal_to_great_circle R (chord (latlon2pos R lat1 lon1) (latlon2pos R lat2 lon2)) := by
  obtain ⟨hr0, hr1⟩ := haversine_range lat1 lon1 lat2 lon2
  rw [chord_of_haversine hR, chordal_great_circle_inverse hR (by positivity) (by nlinarith)]

/-- every entry of the covariance block of the kriging matrix of lat-lon data is the Yadrenko covariance
    of the great-circle distance (in `geo_scale` units) that the variogram estimator measures -/
theorem krige_entry_is_yadrenko (cov : ℝ → ℝ) {R : ℝ} (hR : 0 < R) (lat lon : ℕ → ℝ) (i j : ℕ) :
    krigeEntry cov R lat lon i j = cov_yadrenko cov R (R * haversine (lat i) (lon i) (lat j) (lon j)) := by
  unfold krigeEntry cov_yadrenko
  rw [chord_of_haversine hR]

theorem krige_rhs_is_yadrenko (cov : ℝ → ℝ) {R : ℝ} (hR : 0 < R) (lat lon : ℕ → ℝ) (tlat tlon : ℝ) (i : ℕ) :
    krigeRhs cov R lat lon tlat tlon i = cov_yadrenko cov R (R * haversine (lat i) (lon i) tlat tlon) := by
  unfold krigeRhs cov_yadrenko
  rw [chord_of_haversine hR]

/-- `fit_variogram` evaluates the model at the chord of the (great-circle) lag: a bin whose lag is the
    estimator distance of a pair is fitted at exactly that pair's chordal distance -/
theorem fit_uses_chord {R : ℝ} (hR : 0 < R) (lat1 lon1 lat2 lon2 : ℝ) :
    fitLag true R (R * haversine lat1 lon1 lat2 lon2)
      = chord (latlon2pos R lat1 lon1) (latlon2pos R lat2 lon2) := by
  simp only [fitLag, if_true]
  exact (chord_of_haversine hR ..).symm

/-! ### converting to 3-D and back -/

theorem pos2latlon_real (R : ℝ) (p : P3 ℝ) :
    pos2latlon R p = (rad2deg (Real.arcsin (clip (-1) 1 (p.z / R))), rad2deg (Complex.arg ⟨p.x, p.y⟩)) := by
  simp [pos2latlon]

/-- latitude survives latlon → 3-D → latlon on the whole closed range, poles included, for every longitude -/
theorem latlon_roundtrip_lat {R : ℝ} (hR : 0 < R) {lat : ℝ} (h1 : -90 ≤ lat) (h2 : lat ≤ 90) (lon : ℝ) :
    (pos2latlon R (latlon2pos R lat lon)).1 = lat := by
  rw [pos2latlon_real, latlon2pos_real]
  simp only
  have hz : R * Real.sin (deg2rad lat) * 1 / R = Real.sin (deg2rad lat) := by field_simp
  rw [hz, clip_of_mem (Real.neg_one_le_sin _) (Real.sin_le_one _)]
  have l1 : -(π / 2) ≤ deg2rad lat := by rw [← deg2rad_neg90]; exact deg2rad_le h1
  have l2 : deg2rad lat ≤ π / 2 := by rw [← deg2rad_90]; exact deg2rad_le h2
  rw [Real.arcsin_sin l1 l2, rad2deg_deg2rad]

theorem arg_polar {r θ : ℝ} (hr : 0 < r) (h1 : -π < θ) (h2 : θ ≤ π) :
    Complex.arg ⟨r * Real.cos θ, r * Real.sin θ⟩ = θ := by
  have := Complex.arg_mul_cos_add_sin_mul_I hr (θ := θ) ⟨h1, h2⟩
  have e : (⟨r * Real.cos θ, r * Real.sin θ⟩ : ℂ) = ↑r * (Complex.cos ↑θ + Complex.sin ↑θ * Complex.I) := by
    apply Complex.ext <;> simp [← Complex.ofReal_cos, ← Complex.ofReal_sin]
  rw [e]; exact this

/-- longitude survives away from the poles for `lon ∈ (−180, 180]` -/
theorem latlon_roundtrip_lon {R : ℝ} (hR : 0 < R) {lat lon : ℝ} (h1 : -90 < lat) (h2 : lat < 90)
    (h3 : -180 < lon) (h4 : lon ≤ 180) :
    (pos2latlon R (latlon2pos R lat lon)).2 = lon := by
  rw [pos2latlon_real, latlon2pos_real]
  simp only
  have l1 : -(π / 2) < deg2rad lat := by rw [← deg2rad_neg90]; exact deg2rad_lt h1
  have l2 : deg2rad lat < π / 2 := by rw [← deg2rad_90]; exact deg2rad_lt h2
  have hc : 0 < Real.cos (deg2rad lat) := Real.cos_pos_of_mem_Ioo ⟨l1, l2⟩
  have m1 : -π < deg2rad lon := by rw [← deg2rad_neg180]; exact deg2rad_lt h3
  have m2 : deg2rad lon ≤ π := by rw [← deg2rad_180]; exact deg2rad_le h4
  rw [arg_polar (mul_pos hR hc) m1 m2, rad2deg_deg2rad]

/-- longitudes are only meaningful modulo 360 -/
theorem latlon2pos_periodic (R lat lon : ℝ) (k : ℤ) :
    latlon2pos R lat (lon + 360 * (k : ℝ)) = latlon2pos R lat lon := by
  rw [latlon2pos_real, latlon2pos_real, deg2rad_add, deg2rad_360_mul,
    Real.cos_add_int_mul_two_pi, Real.sin_add_int_mul_two_pi]

/-- full statement of the round trip: any longitude comes back as its representative in `(−180, 180]` -/
theorem latlon_roundtrip {R : ℝ} (hR : 0 < R) {lat lon : ℝ} (h1 : -90 < lat) (h2 : lat < 90)
    (h3 : -180 < lon) (h4 : lon ≤ 180) (k : ℤ) :
    pos2latlon R (latlon2pos R lat (lon + 360 * (k : ℝ))) = (lat, lon) := by
  rw [latlon2pos_periodic]
  exact Prod.ext (latlon_roundtrip_lat hR h1.le h2.le lon) (latlon_roundtrip_lon hR h1 h2 h3 h4)

example : (0:ℝ) < 6371 ∧ (-90:ℝ) < 45 ∧ (45:ℝ) < 90 ∧ (-180:ℝ) < 180 ∧ (180:ℝ) ≤ 180 := by norm_num

/-- what is lost at the poles (over ℝ): the longitude comes back as 0 -/
theorem pole_longitude_lost (R lon : ℝ) :
    (pos2latlon R (latlon2pos R 90 lon)).2 = 0 ∧ (pos2latlon R (latlon2pos R (-90) lon)).2 = 0 := by
  constructor <;>
  · rw [pos2latlon_real, latlon2pos_real]
    simp only
    first
    | rw [deg2rad_90, Real.cos_pi_div_two]
    | rw [deg2rad_neg90, Real.cos_neg, Real.cos_pi_div_two]
    simp [rad2deg, Complex.arg]


/-- 3-D → latlon → 3-D is the identity on the whole sphere (poles and date line included) -/
theorem pos_roundtrip {R : ℝ} (hR : 0 < R) (p : P3 ℝ) (hp : P3.normSq p = R * R) :
    latlon2pos R (pos2latlon R p).1 (pos2latlon R p).2 = p := by
  obtain ⟨x, y, z⟩ := p
  simp only [P3.normSq] at hp
  rw [pos2latlon_real, latlon2pos_real]
  simp only [deg2rad_rad2deg]
  have hz2 : z * z ≤ R * R := by nlinarith [mul_self_nonneg x, mul_self_nonneg y]
  have hzR : |z| ≤ R := abs_le_of_sq_le_sq' (by nlinarith) hR.le |> fun h => abs_le.mpr h
  have hz1 : -1 ≤ z / R := by rw [le_div_iff₀ hR]; linarith [(abs_le.mp hzR).1]
  have hz3 : z / R ≤ 1 := by rw [div_le_one hR]; exact (abs_le.mp hzR).2
  rw [clip_of_mem hz1 hz3, Real.sin_arcsin hz1 hz3, Real.cos_arcsin]
  set w : ℂ := ⟨x, y⟩ with hw
  have hn : ‖w‖ = R * Real.sqrt (1 - (z / R) ^ 2) := by
    rw [Complex.norm_def, Complex.normSq_mk]
    have : x * x + y * y = (R * R) * (1 - (z / R) ^ 2) := by field_simp; linarith
    rw [this, Real.sqrt_mul (mul_self_nonneg R), Real.sqrt_mul_self hR.le]
  have hzz : R * (z / R) * 1 = z := by field_simp
  by_cases h0 : w = 0
  · have hx : x = 0 := by have := congrArg Complex.re h0; simpa [hw] using this
    have hy : y = 0 := by have := congrArg Complex.im h0; simpa [hw] using this
    have hs : Real.sqrt (1 - (z / R) ^ 2) = 0 := by
      have : ‖w‖ = 0 := by rw [h0]; simp
      rw [hn] at this
      exact (mul_eq_zero.mp this).resolve_left hR.ne'
    rw [hs, hx, hy, hzz]; simp
  · have hc := Complex.cos_arg h0
    have hs := Complex.sin_arg w
    have hn0 : ‖w‖ ≠ 0 := norm_ne_zero_iff.mpr h0
    rw [hc, hs, ← hn, hzz]
    have e1 : ‖w‖ * (w.re / ‖w‖) = x := by field_simp; rfl
    have e2 : ‖w‖ * (w.im / ‖w‖) = y := by field_simp; rfl
    rw [e1, e2]

example : P3.normSq (⟨0, 0, -2⟩ : P3 ℝ) = 2 * 2 := by simp [P3.normSq]

/-! ### time axis of lat-lon + temporal models -/

/-- constructor rule: spatial ratios forced to 1, the time ratio is kept -/
theorem latlon_temporal_anis (a b c : ℝ) : modelAnis true [a, b, c] = [1, 1, c] := by
  simp [modelAnis, List.zipIdx]

/-- the time axis is appended and divided by the last anisotropy ratio only; the spatial part is the sphere
    point and does not depend on the time or on any anisotropy / angle given by the user -/
theorem time_axis_latlon (R a b c lat lon t : ℝ) :
    isometrizeLL R true (modelAnis true [a, b, c]) lat lon t
      = (latlon2pos R lat lon).toList ++ [t / c] := by
  rw [latlon_temporal_anis]
  simp [isometrizeLL, latlon2posT, lastAnis]

/-- … and `anisometrize` gives the time back -/
theorem time_axis_roundtrip (R a b c : ℝ) (hc : c ≠ 0) (p : P3 ℝ) (t : ℝ) :
    anisometrizeLL R true (modelAnis true [a, b, c]) p (t / c)
      = [(pos2latlon R p).1, (pos2latlon R p).2, t] := by
  rw [latlon_temporal_anis]
  simp [anisometrizeLL, pos2latlonT, lastAnis, hc]

/-! ### kriging of lat-lon data is invariant under rotations of the sphere -/

/-- the covariance block of the kriging matrix depends on the chordal distances only: any distance-preserving
    map `Q` of 3-space (in particular every rotation of the sphere) applied to all points leaves it unchanged -/
theorem sphere_rotation_invariant (cov : ℝ → ℝ) (R : ℝ) (Q : P3 ℝ → P3 ℝ)
    (hQ : ∀ p q, P3.normSq (P3.sub (Q p) (Q q)) = P3.normSq (P3.sub p q))
    (lat lon lat' lon' : ℕ → ℝ)
    (h : ∀ i, latlon2pos R (lat' i) (lon' i) = Q (latlon2pos R (lat i) (lon i))) (i j : ℕ) :
    krigeEntry cov R lat' lon' i j = krigeEntry cov R lat lon i j := by
  simp only [krigeEntry, chord, h, hQ]

/-- … and so does the right-hand side for a target that is moved along -/
theorem sphere_rotation_invariant_rhs (cov : ℝ → ℝ) (R : ℝ) (Q : P3 ℝ → P3 ℝ)
    (hQ : ∀ p q, P3.normSq (P3.sub (Q p) (Q q)) = P3.normSq (P3.sub p q))
    (lat lon lat' lon' : ℕ → ℝ) (tlat tlon tlat' tlon' : ℝ)
    (h : ∀ i, latlon2pos R (lat' i) (lon' i) = Q (latlon2pos R (lat i) (lon i)))
    (ht : latlon2pos R tlat' tlon' = Q (latlon2pos R tlat tlon)) (i : ℕ) :
    krigeRhs cov R lat' lon' tlat' tlon' i = krigeRhs cov R lat lon tlat tlon i := by
  simp only [krigeRhs, chord, h, ht, hQ]

/-- every matrix with orthonormal columns (`QᵀQ = 1`: rotations and reflections) qualifies -/
theorem orthogonal_is_isometry {c1 c2 c3 : P3 ℝ} (h : Orthonormal3 c1 c2 c3) (p q : P3 ℝ) :
    P3.normSq (P3.sub (linMap c1 c2 c3 p) (linMap c1 c2 c3 q)) = P3.normSq (P3.sub p q) :=
  linMap_isometry h p q

/-- concrete instance (hypotheses satisfiable by a non-trivial rotation): shifting every longitude by the same
    `δ` degrees — across the date line or by several turns — changes neither the matrix nor the right-hand side -/
theorem krige_lon_shift_invariant (cov : ℝ → ℝ) (R δ : ℝ) (lat lon : ℕ → ℝ) (tlat tlon : ℝ) (i j : ℕ) :
    krigeEntry cov R lat (fun k => lon k + δ) i j = krigeEntry cov R lat lon i j ∧
    krigeRhs cov R lat (fun k => lon k + δ) tlat (tlon + δ) i = krigeRhs cov R lat lon tlat tlon i := by
  constructor
  · exact sphere_rotation_invariant cov R _ (linMap_isometry (rotZ_orthonormal δ)) lat lon lat _
      (fun k => latlon2pos_lon_shift R (lat k) (lon k) δ) i j
  · exact sphere_rotation_invariant_rhs cov R _ (linMap_isometry (rotZ_orthonormal δ)) lat lon lat _ tlat tlon tlat _
      (fun k => latlon2pos_lon_shift R (lat k) (lon k) δ) (latlon2pos_lon_shift R tlat tlon δ) i

/-! ### metric spatio-temporal models: the time axis is scaled by the last ratio only and never rotated into space

`m` is the spatial dimension, the model dimension is `m + 1`, axis `m` is time; `angles` is the full angle list
the user gave (`no_of_angles(m+1)` entries; only `noa m ≤ angles.length` is needed), `modelAngles false true`
is the rule of `set_model_angles`. -/

/-- the time row of the isometrize matrix is `(0, …, 0, 1/anis[-1])` -/
theorem time_axis_row {m : ℕ} (hm : 1 ≤ m) (angles anis : List ℝ) (hlen : noa m ≤ angles.length) {j : ℕ} (hj : j ≤ m) :
    matIsometrize (m + 1) (modelAngles false true (m + 1) angles) anis m j
      = if j = m then 1 / anis.getD (m - 1) 1 else 0 := by
  unfold matIsometrize
  rw [isotropify_matmul _ _ _ (Nat.lt_succ_self m), (timeFixed_derotate m angles hlen).1 j hj, isotropify_real]
  have : m ≠ 0 := by omega
  by_cases h : j = m <;> simp [h, this]

/-- no spatial coordinate of the isometrized point depends on time -/
theorem time_axis_col {m : ℕ} (angles anis : List ℝ) (hlen : noa m ≤ angles.length) {i : ℕ} (hi : i < m) :
    matIsometrize (m + 1) (modelAngles false true (m + 1) angles) anis i m = 0 := by
  unfold matIsometrize
  rw [isotropify_matmul _ _ _ (by omega), (timeFixed_derotate m angles hlen).2 i hi.le, if_neg (by omega), mul_zero]

/-- the spatial block is the isometrize matrix of the purely spatial `m`-dimensional model with the same
    leading angles and ratios -/
theorem time_axis_block {m : ℕ} (angles anis : List ℝ) (hlen : noa m ≤ angles.length) {i j : ℕ} (hi : i < m) (hj : j < m) :
    matIsometrize (m + 1) (modelAngles false true (m + 1) angles) anis i j
      = matIsometrize m (angles.take (noa m)) anis i j := by
  unfold matIsometrize
  rw [isotropify_matmul _ _ _ (by omega), isotropify_matmul _ _ _ hi, agree_derotate m angles hlen i j hi hj]

/-- `isometrize` of a spatio-temporal point: the time coordinate is `t / anis[-1]` -/
theorem time_axis_metric_time {m : ℕ} (hm : 1 ≤ m) (angles anis : List ℝ) (hlen : noa m ≤ angles.length) (x : ℕ → ℝ) :
    isometrizeMetric true (m + 1) angles anis x m = x m / anis.getD (m - 1) 1 := by
  unfold isometrizeMetric
  rw [applyMat_real, Finset.sum_eq_single m]
  · rw [time_axis_row hm angles anis hlen le_rfl, if_pos rfl]; ring
  · intro k hk hkm
    rw [time_axis_row hm angles anis hlen (by have := Finset.mem_range.mp hk; omega), if_neg hkm, zero_mul]
  · intro h; exact absurd (Finset.mem_range.mpr (Nat.lt_succ_self m)) h

/-- … and the spatial coordinates are those of the purely spatial model applied to the spatial part:
    they depend neither on the time nor on the time ratio -/
theorem time_axis_metric_space {m : ℕ} (angles anis : List ℝ) (hlen : noa m ≤ angles.length) (x : ℕ → ℝ)
    {i : ℕ} (hi : i < m) :
    isometrizeMetric true (m + 1) angles anis x i
      = applyMat m (matIsometrize m (angles.take (noa m)) anis) x i := by
  unfold isometrizeMetric
  rw [applyMat_real, applyMat_real, Finset.sum_range_succ, time_axis_col angles anis hlen hi, zero_mul, add_zero]
  exact Finset.sum_congr rfl fun k hk => by rw [time_axis_block angles anis hlen hi (Finset.mem_range.mp hk)]

example : (1:ℕ) ≤ 2 ∧ noa 2 ≤ ([0.3, 0.7, -1.2] : List ℝ).length := by simp [noa]

/-! ### the estimator kernel on arbitrary position arrays, bins in `geo_scale` units, `standard_bins` -/

/-- the generated kernel `dist_haversine` on any position array and index pair is the great-circle angle of
    the two points (rows 0 / 1 = latitude / longitude in degrees) -/
theorem dist_haversine_is_angle (dim : ℕ) (pos : ℕ → ℕ → ℝ) (s0 s1 i j : ℕ) :
    Estimator.dist_haversine dim pos s0 s1 i j
      = 2 * Real.arcsin (Real.sqrt (havArg (pos 0 i) (pos 1 i) (pos 0 j) (pos 1 j))) := by
  have h : Estimator.dist_haversine dim pos s0 s1 i j = haversine (pos 0 i) (pos 1 i) (pos 0 j) (pos 1 j) := by
    unfold haversine Estimator.dist_haversine
    simp
  rw [h, haversine_is_angle]

/-- `vario_estimate` divides the bin edges by `geo_scale` and compares them with the angle: a pair falls into
    the bin `[b, b')` given in `geo_scale` units iff its great-circle distance `R·angle` does -/
theorem bins_in_geo_scale {R : ℝ} (hR : 0 < R) (θ b b' : ℝ) :
    (¬ (θ < b / R ∨ θ ≥ b' / R)) ↔ (b ≤ R * θ ∧ R * θ < b') := by
  rw [not_or, not_lt, not_le, div_le_iff₀ hR, lt_div_iff₀ hR, mul_comm θ R]

/-- the largest edge of the lat-lon `standard_bins` is a great-circle distance of at most a third of half the
    circumference -/
theorem std_bins_range {R : ℝ} (hR : 0 ≤ R) (lats lons : List ℝ) :
    0 ≤ stdMaxDist R lats lons ∧ stdMaxDist R lats lons ≤ π * R / 3 := by
  have h : ∃ D, stdMaxDist R lats lons = chordal_to_great_circle R D / ((3:ℕ):ℝ) := ⟨_, rfl⟩
  obtain ⟨D, hD⟩ := h
  obtain ⟨h0, h1⟩ := c2g_range hR D
  rw [hD]
  push_cast
  constructor
  · positivity
  · linarith

/-! ### `standard_bins` with `bin_no` / `max_dist` given or not: every length is in `geo_scale` units -/

/-- a cut-off the caller gives is used as it is — for metric and lat-lon input, for every `geo_scale`, whether or not
    `bin_no` is given: the edges are `linspace(0, max_dist, n + 1)` with `n = bin_no` or Sturges' number -/
theorem standard_bins_given_max_dist (latlon : Bool) (R : ℝ) (axes : List (List ℝ)) (binNo : Option ℕ) (m : ℝ) :
    standardBins latlon R (some axes) binNo (some m)
      = .ok (linspace0 m (binNo.getD (sturges (axes.headD []).length))) := by
  cases binNo <;> simp [standardBins]

/-- with both given the position tuple is not looked at (it may be absent) -/
theorem standard_bins_both_given (latlon : Bool) (R : ℝ) (pos : Option (List (List ℝ))) (n : ℕ) (m : ℝ) :
    standardBins latlon R pos (some n) (some m) = .ok (linspace0 m n) := by
  simp [standardBins]

/-- the edges start at 0, end exactly at the cut-off and there are `n + 1` of them -/
theorem linspace0_ends (m : ℝ) {n : ℕ} (hn : 0 < n) :
    (linspace0 m n).length = n + 1 ∧ (linspace0 m n).head? = some 0 ∧ (linspace0 m n).getLast? = some m := by
  have h : n ≠ 0 := by omega
  refine ⟨by simp [linspace0, h], ?_, ?_⟩
  · simp [linspace0, h, List.range_succ_eq_map, Ne.symm h]
  · simp [linspace0, h, List.range_succ, List.getLast?_append]

/-- without a given cut-off the lat-lon edges end at a third of a great-circle distance on the sphere of radius
    `geo_scale`: in `[0, π R / 3]` (generalises `std_bins_range` to any `bin_no`) -/
theorem standard_bins_auto_cutoff {R : ℝ} (hR : 0 ≤ R) (axes : List (List ℝ)) (binNo : Option ℕ) :
    ∃ m n, standardBins true R (some axes) binNo none = .ok (linspace0 m n) ∧ 0 ≤ m ∧ m ≤ π * R / 3 := by
  refine ⟨stdDiam true R axes / ((3:ℕ):ℝ), binNo.getD (sturges (axes.headD []).length), ?_, ?_⟩
  · cases binNo <;> simp [standardBins]
  · obtain ⟨h0, h1⟩ := c2g_range hR (boxDiam (sphereAxes R axes))
    simp only [stdDiam, if_true]
    push_cast
    constructor
    · positivity
    · linarith

/-- the old fully automatic model is the general one with both arguments missing -/
theorem std_bins_auto_is_standard_bins (R : ℝ) (lats lons : List ℝ) :
    standardBins true R (some [lats, lons]) none none
      = .ok (linspace0 (stdMaxDist R lats lons) (sturges lats.length)) := by
  rw [stdMaxDist_eq]; simp [standardBins]

/-- **unit change**: the same lat-lon call in the unit `geo_scale = R > 0`, with the cut-off (if given) expressed in that
    unit, returns the radian edges multiplied by `R` — for all four combinations of `bin_no` / `max_dist` given or not -/
theorem standard_bins_unit_change {R : ℝ} (hR : 0 < R) (pos : Option (List (List ℝ))) (binNo : Option ℕ) (maxDist : Option ℝ) :
    standardBins true R pos binNo (maxDist.map (R * ·))
      = (standardBins true 1 pos binNo maxDist).map (fun e => e.map (R * ·)) :=
  standardBins_geo_scale hR pos binNo maxDist

/-- metric input: `geo_scale` is ignored -/
theorem standard_bins_metric_ignores_geo_scale (R R' : ℝ) (pos : Option (List (List ℝ))) (binNo : Option ℕ) (maxDist : Option ℝ) :
    standardBins false R pos binNo maxDist = standardBins false R' pos binNo maxDist := by
  cases binNo <;> cases maxDist <;> cases pos <;> simp [standardBins, stdDiam]

example : (0:ℝ) < 6371 ∧ (Option.map ((6371:ℝ) * ·) (some (0.5:ℝ))) = some (6371 * 0.5) := by
  constructor
  · norm_num
  · rfl

/-! ### kriging of lat-lon (+ time) data through `isometrize` -/

/-- without time the assembled entry is the chord entry (hence the Yadrenko covariance) -/
theorem krigeEntryLL_spatial (cov : ℝ → ℝ) (R : ℝ) (anis : List ℝ) (lat lon t : ℕ → ℝ) (i j : ℕ) :
    krigeEntryLL cov R false anis lat lon t i j = krigeEntry cov R lat lon i j := by
  simp [krigeEntryLL, krigeEntry, isometrizeLL, distSq, P3.toList, chord, P3.normSq, P3.sub]

/-- with time: `cov(√(chord² + (Δt / anis[-1])²))`, `chord² = 4R²·a` — the time difference enters only through
    the last anisotropy ratio, the spatial part only through the great-circle geometry -/
theorem krigeEntryLL_temporal (cov : ℝ → ℝ) (R a b c : ℝ) (lat lon t : ℕ → ℝ) (i j : ℕ) :
    krigeEntryLL cov R true (modelAnis true [a, b, c]) lat lon t i j
      = cov (Real.sqrt (4 * (R * R) * havArg (lat i) (lon i) (lat j) (lon j)
          + (t i / c - t j / c) * (t i / c - t j / c))) := by
  unfold krigeEntryLL
  rw [time_axis_latlon, time_axis_latlon, ← chord_is_haversine]
  simp [distSq, P3.toList, P3.normSq, P3.sub]

/-- any quantity computed from the covariance block and the right-hand side (weights, estimate, variance of
    simple / ordinary kriging) is unchanged when all points and targets are moved by a distance-preserving map -/
theorem krige_result_rotation_invariant {β : Type} (F : (ℕ → ℕ → ℝ) → (ℕ → ℝ) → β)
    (cov : ℝ → ℝ) (R : ℝ) (Q : P3 ℝ → P3 ℝ)
    (hQ : ∀ p q, P3.normSq (P3.sub (Q p) (Q q)) = P3.normSq (P3.sub p q))
    (lat lon lat' lon' : ℕ → ℝ) (tlat tlon tlat' tlon' : ℝ)
    (h : ∀ i, latlon2pos R (lat' i) (lon' i) = Q (latlon2pos R (lat i) (lon i)))
    (ht : latlon2pos R tlat' tlon' = Q (latlon2pos R tlat tlon)) :
    F (krigeEntry cov R lat' lon') (krigeRhs cov R lat' lon' tlat' tlon')
      = F (krigeEntry cov R lat lon) (krigeRhs cov R lat lon tlat tlon) := by
  have h1 : krigeEntry cov R lat' lon' = krigeEntry cov R lat lon := by
    funext i j; exact sphere_rotation_invariant cov R Q hQ lat lon lat' lon' h i j
  have h2 : krigeRhs cov R lat' lon' tlat' tlon' = krigeRhs cov R lat lon tlat tlon := by
    funext i; exact sphere_rotation_invariant_rhs cov R Q hQ lat lon lat' lon' tlat tlon tlat' tlon' h ht i
  rw [h1, h2]

/-! ### in-place histories: `dim`, `len_scale`, `anis`, `angles` assignments in any order

`msInit` is the constructor, `msStep` one setter, `msRun` / `msFinal` a whole history (a setter that raises leaves
the model as it was).  `MSValid` is what every reachable state satisfies; the theorems below turn it into the
time-axis statements for the state after ANY history. -/

/-- invariant of a model object -/
structure MSValid (s : MS ℝ) : Prop where
  dim_pos : 1 ≤ s.dim
  anis_len : s.anis.length = s.dim - 1
  anis_pos : ∀ a ∈ s.anis, 0 < a
  /-- the stored angles went through `set_model_angles` with the CURRENT dimension and flags -/
  angles_norm : ∃ v, s.angles = setModelAngles s.latlon s.temporal s.dim v
  latlon_dim : s.latlon = true → s.dim = 3 + (if s.temporal then 1 else 0)
  latlon_anis : s.latlon = true → s.anis.take 2 = [1, 1]

theorem msInit_valid {latlon temporal : Bool} {dim : ℕ} {ls an ag : List ℝ} {s : MS ℝ}
    (h : msInit latlon temporal dim ls an ag = .ok s) : MSValid s := by
  unfold msInit at h
  simp only at h
  by_cases hd : modelDim latlon temporal dim < 1
  · rw [if_pos hd] at h; exact absurd h (by simp)
  rw [if_neg hd] at h
  cases hok : setLenAnis latlon (modelDim latlon temporal dim) ls an with
  | error e => rw [hok] at h; exact absurd h (by simp)
  | ok r =>
    obtain ⟨l0, an'⟩ := r
    rw [hok] at h
    simp only [Except.ok.injEq] at h
    subst h
    have := setLenAnis_ok hok
    refine ⟨Nat.le_of_not_lt hd, this.1, this.2.1, ⟨ag, rfl⟩, ?_, ?_⟩
    · intro hl; simp only at hl; subst hl; simp [modelDim]
    · intro hl; simp only at hl; subst hl
      exact this.2.2 rfl (by simp [modelDim])

theorem msStep_valid {s s' : MS ℝ} (hs : MSValid s) (op : MOp ℝ) (h : msStep s op = .ok s') : MSValid s' := by
  obtain ⟨h1, h2, h3, h4, h5, h6⟩ := hs
  cases op with
  | setAnis v =>
    simp only [msStep] at h
    cases hok : setLenAnis s.latlon s.dim [s.lenScale] v with
    | error e => rw [hok] at h; exact absurd h (by simp)
    | ok r =>
      obtain ⟨l0, an⟩ := r
      rw [hok] at h
      simp only [Except.ok.injEq] at h; subst h
      have := setLenAnis_ok hok
      exact ⟨h1, this.1, this.2.1, h4, h5, fun hl => this.2.2 hl (by have := h5 hl; split at this <;> omega)⟩
  | setAngles v =>
    simp only [msStep, Except.ok.injEq] at h; subst h
    exact ⟨h1, h2, h3, ⟨v, rfl⟩, h5, h6⟩
  | setLenScale v =>
    simp only [msStep] at h
    cases hok : setLenAnis s.latlon s.dim v s.anis with
    | error e => rw [hok] at h; exact absurd h (by simp)
    | ok r =>
      obtain ⟨l0, an⟩ := r
      rw [hok] at h
      simp only [Except.ok.injEq] at h; subst h
      have := setLenAnis_ok hok
      exact ⟨h1, this.1, this.2.1, h4, h5, fun hl => this.2.2 hl (by have := h5 hl; split at this <;> omega)⟩
  | setDim d =>
    simp only [msStep] at h
    by_cases hd : modelDim s.latlon s.temporal d < 1
    · rw [if_pos hd] at h; exact absurd h (by simp)
    rw [if_neg hd] at h
    cases hok : setLenAnis false (modelDim s.latlon s.temporal d) [s.lenScale] s.anis with
    | error e => rw [hok] at h; exact absurd h (by simp)
    | ok r =>
      obtain ⟨l0, an⟩ := r
      rw [hok] at h
      simp only [Except.ok.injEq] at h; subst h
      have := setLenAnis_ok hok
      refine ⟨Nat.le_of_not_lt hd, this.1, this.2.1, ⟨s.angles, rfl⟩, ?_, ?_⟩
      · intro hl; simp only at hl; simp [modelDim, hl]
      · intro hl; simp only at hl
        -- the dimension of a lat-lon model does not change, so `set_len_anis` gives the ratios back
        have hdim : modelDim s.latlon s.temporal d = s.dim := by rw [h5 hl]; simp [modelDim, hl]
        rw [hdim, setLenAnis_single h1 s.lenScale h2 h3] at hok
        simp only [Except.ok.injEq, Prod.mk.injEq] at hok
        rw [← hok.2]; exact h6 hl

theorem msStepKeep_valid {s : MS ℝ} (hs : MSValid s) (op : MOp ℝ) : MSValid (msStepKeep s op).1 := by
  unfold msStepKeep
  split
  · rename_i s' h; exact msStep_valid hs op h
  · exact hs

/-- the flags cannot change -/
theorem msStepKeep_flags (s : MS ℝ) (op : MOp ℝ) :
    (msStepKeep s op).1.latlon = s.latlon ∧ (msStepKeep s op).1.temporal = s.temporal := by
  unfold msStepKeep
  split
  · rename_i s' h
    cases op <;> simp only [msStep] at h
    · split at h
      · exact absurd h (by simp)
      · simp only [Except.ok.injEq] at h; subst h; exact ⟨rfl, rfl⟩
    · simp only [Except.ok.injEq] at h; subst h; exact ⟨rfl, rfl⟩
    · split at h
      · exact absurd h (by simp)
      · simp only [Except.ok.injEq] at h; subst h; exact ⟨rfl, rfl⟩
    · split at h
      · exact absurd h (by simp)
      · split at h
        · exact absurd h (by simp)
        · simp only [Except.ok.injEq] at h; subst h; exact ⟨rfl, rfl⟩
  · exact ⟨rfl, rfl⟩

theorem msFinal_valid {s : MS ℝ} (hs : MSValid s) (ops : List (MOp ℝ)) : MSValid (msFinal s ops) := by
  induction ops generalizing s with
  | nil => exact hs
  | cons op rest ih => exact ih (msStepKeep_valid hs op)

theorem msFinal_flags (s : MS ℝ) (ops : List (MOp ℝ)) :
    (msFinal s ops).latlon = s.latlon ∧ (msFinal s ops).temporal = s.temporal := by
  induction ops generalizing s with
  | nil => exact ⟨rfl, rfl⟩
  | cons op rest ih =>
    have h1 := ih (msStepKeep s op).1
    have h2 := msStepKeep_flags s op
    exact ⟨h1.1.trans h2.1, h1.2.trans h2.2⟩

/-- every state a history walks through is valid -/
theorem msRun_valid {s : MS ℝ} (hs : MSValid s) (ops : List (MOp ℝ)) : ∀ r ∈ msRun s ops, MSValid r.1 := by
  induction ops generalizing s with
  | nil => intro r hr; simp [msRun] at hr
  | cons op rest ih =>
    intro r hr
    simp only [msRun, List.mem_cons] at hr
    rcases hr with rfl | hr
    · exact msStepKeep_valid hs op
    · exact ih (msStepKeep_valid hs op) r hr

/-- **lat-lon models after any history**: dimension `3 (+1)`, no rotation at all, spatial ratios 1 — so `isometrize`
    is the sphere point with the time divided by the last ratio (`time_axis_latlon`), whatever was assigned -/
theorem hist_latlon {temporal : Bool} {dim : ℕ} {ls an ag : List ℝ} {s0 : MS ℝ}
    (h0 : msInit true temporal dim ls an ag = .ok s0) (ops : List (MOp ℝ)) :
    let s := msFinal s0 ops
    s.dim = 3 + (if temporal then 1 else 0) ∧ (∀ a ∈ s.angles, a = 0) ∧ s.anis.take 2 = [1, 1] ∧
      s.anis.length = s.dim - 1 ∧ ∀ a ∈ s.anis, 0 < a := by
  have hv := msFinal_valid (msInit_valid h0) ops
  have hf := msFinal_flags s0 ops
  have hl0 : s0.latlon = true ∧ s0.temporal = temporal := by
    unfold msInit at h0
    simp only at h0
    split at h0
    · exact absurd h0 (by simp)
    · split at h0
      · exact absurd h0 (by simp)
      · simp only [Except.ok.injEq] at h0; subst h0; exact ⟨rfl, rfl⟩
  have hl : (msFinal s0 ops).latlon = true := hf.1.trans hl0.1
  have ht : (msFinal s0 ops).temporal = temporal := hf.2.trans hl0.2
  refine ⟨by rw [hv.latlon_dim hl, ht], ?_, hv.latlon_anis hl, hv.anis_len, hv.anis_pos⟩
  obtain ⟨v, hvv⟩ := hv.angles_norm
  rw [hvv, hl]
  exact setModelAngles_latlon _ _ v

/-- **metric spatio-temporal models after any history** (spatial dimension `m ≥ 1`, axis `m` is time): the stored
    angles of all planes containing the time axis are zero, and the isometrizing matrix — also in the materialised
    form the driver runs — has the time row `(0, …, 0, 1/anis[-1])`, a zero time column, and the spatial block of the
    purely spatial model.  In particular this holds after `model.dim = …` in both directions and after `angles` /
    `anis` / `len_scale` assignments in any order. -/
theorem hist_time_axis {dim : ℕ} {ls an ag : List ℝ} {s0 : MS ℝ}
    (h0 : msInit false true dim ls an ag = .ok s0) (ops : List (MOp ℝ)) {m : ℕ} (hm : 1 ≤ m)
    (hdim : (msFinal s0 ops).dim = m + 1) :
    let s := msFinal s0 ops
    (∀ k, noa m ≤ k → s.angles.getD k 0 = 0) ∧
    (∀ j, j ≤ m → matIsometrize (m + 1) s.angles s.anis m j = if j = m then 1 / s.anis.getD (m - 1) 1 else 0) ∧
    (∀ i, i < m → matIsometrize (m + 1) s.angles s.anis i m = 0) ∧
    (∀ i j, i < m → j < m → matIsometrize (m + 1) s.angles s.anis i j = matIsometrize m (s.angles.take (noa m)) s.anis i j) := by
  have hv := msFinal_valid (msInit_valid h0) ops
  have hf := msFinal_flags s0 ops
  have hl0 : s0.latlon = false ∧ s0.temporal = true := by
    unfold msInit at h0
    simp only at h0
    split at h0
    · exact absurd h0 (by simp)
    · split at h0
      · exact absurd h0 (by simp)
      · simp only [Except.ok.injEq] at h0; subst h0; exact ⟨rfl, rfl⟩
  have hl : (msFinal s0 ops).latlon = false := hf.1.trans hl0.1
  have ht : (msFinal s0 ops).temporal = true := hf.2.trans hl0.2
  obtain ⟨v, hvv⟩ := hv.angles_norm
  rw [hl, ht, hdim] at hvv
  intro s
  have hs : s.angles = modelAngles false true (m + 1) (setAngles (m + 1) v) := hvv
  have hlen : noa m ≤ (setAngles (m + 1) v).length := by
    rw [length_setAngles, noa_succ]; omega
  refine ⟨?_, ?_, ?_, ?_⟩
  · intro k hk
    rw [hs]
    exact setModelAngles_temporal_zero (m + 1) v (by simpa using hk)
  · intro j hj; rw [hs]; exact time_axis_row hm _ _ hlen hj
  · intro i hi; rw [hs]; exact time_axis_col _ _ hlen hi
  · intro i j hi hj
    rw [hs, time_axis_block _ _ hlen hi hj]
    have : (modelAngles false true (m + 1) (setAngles (m + 1) v)).take (noa m) = (setAngles (m + 1) v).take (noa m) := by
      rw [modelAngles_temporal, Nat.add_sub_cancel, List.take_left' (by rw [List.length_take]; omega)]
    rw [this]

/-- the same for positions, in the form the driver evaluates (`msIsometrize`, materialised matrices): the time
    coordinate of the isometrized point is `t / anis[-1]`, and the spatial coordinates are those of the purely spatial
    model applied to the spatial coordinates — they depend neither on `t` nor on the time ratio. -/
theorem hist_time_axis_pos {dim : ℕ} {ls an ag : List ℝ} {s0 : MS ℝ}
    (h0 : msInit false true dim ls an ag = .ok s0) (ops : List (MOp ℝ)) {m : ℕ} (hm : 1 ≤ m)
    (hdim : (msFinal s0 ops).dim = m + 1) (x : ℕ → ℝ) :
    let s := msFinal s0 ops
    let M := ofArr (m + 1) (matIsometrizeA (m + 1) s.angles s.anis)
    applyMat (m + 1) M x m = x m / s.anis.getD (m - 1) 1 ∧
    ∀ i, i < m → applyMat (m + 1) M x i = applyMat m (matIsometrize m (s.angles.take (noa m)) s.anis) x i := by
  obtain ⟨_, hrow, hcol, hblk⟩ := hist_time_axis h0 ops hm hdim
  intro s M
  have hA := agree_matIsometrizeA (m + 1) s.angles s.anis
  constructor
  · rw [applyMat_agree hA x (Nat.lt_succ_self m), applyMat_real, Finset.sum_eq_single m]
    · rw [hrow m le_rfl, if_pos rfl]; ring
    · intro k hk hkm
      rw [hrow k (by have := Finset.mem_range.mp hk; omega), if_neg hkm, zero_mul]
    · intro h; exact absurd (Finset.mem_range.mpr (Nat.lt_succ_self m)) h
  · intro i hi
    rw [applyMat_agree hA x (by omega : i < m + 1), applyMat_real, applyMat_real, Finset.sum_range_succ, hcol i hi,
      zero_mul, add_zero]
    exact Finset.sum_congr rfl fun k hk => by rw [hblk i k hi (Finset.mem_range.mp hk)]

/-- the hypotheses are satisfiable by a non-trivial history: a 3-D + time model with rotation, reduced to 2-D + time -/
example : ∃ s0 : MS ℝ, msInit false true 4 [2] [0.8, 0.6, 0.5] [0.4, 0.3, 0.2] = .ok s0 ∧
    (msFinal s0 [.setDim 3]).dim = 2 + 1 := by
  have h : ∃ s0 : MS ℝ, msInit false true 4 [2] [0.8, 0.6, 0.5] [0.4, 0.3, 0.2] = .ok s0 := by
    cases hh : msInit false true 4 ([2] : List ℝ) [0.8, 0.6, 0.5] [0.4, 0.3, 0.2] with
    | ok s => exact ⟨s, rfl⟩
    | error e =>
      exfalso
      simp [msInit, modelDim, setLenAnis, setAnis, modelAnis] at hh
      norm_num at hh
      cases hh
  obtain ⟨s0, hs0⟩ := h
  refine ⟨s0, hs0, ?_⟩
  have hv := msInit_valid hs0
  have hl0 : s0.latlon = false ∧ s0.temporal = true ∧ s0.dim = 4 := by
    simp only [msInit, modelDim, Bool.false_eq_true, if_false] at hs0
    split at hs0
    · exact absurd hs0 (by simp)
    · split at hs0
      · exact absurd hs0 (by simp)
      · simp only [Except.ok.injEq] at hs0; subst hs0; exact ⟨rfl, rfl, rfl⟩
  simp only [msFinal, List.foldl_cons, List.foldl_nil, msStepKeep, msStep, modelDim, hl0.1, Bool.false_eq_true, if_false]
  have hok := setLenAnis_single (d := 3) (by omega) s0.lenScale (anis := setAnis 3 s0.anis) (length_setAnis 3 _)
    (setAnis_pos hv.anis_pos)
  have h3 : setLenAnis false 3 [s0.lenScale] s0.anis = .ok (s0.lenScale, setAnis 3 s0.anis) := by
    have ht : List.take 3 [s0.lenScale] = [s0.lenScale] := by simp
    simp only [setLenAnis, ht, List.length_nil, if_true, modelAnis, Bool.false_eq_true, if_false]
    rw [if_pos]
    simp only [List.all_eq_true, decide_eq_true_eq, Nat.cast_zero]
    exact setAnis_pos hv.anis_pos
  rw [if_neg (by omega), h3]

/-! ### a kriging object between calls (`KS`, `ksStep`): the documented refresh puts conditions and targets into ONE
current geometry

`krige.model.anis = …` / `krige.model.len_scale = […]` change the model object in place, `krige.model = m` swaps it
(e.g. the same covariance expressed in another `geo_scale`); `set_condition()` recomputes `_krige_pos` with the model
of that moment, a call isometrizes its targets with the current model. -/

/-- after `set_condition()` (no arguments) `_krige_pos` is `isometrize` of the stored conditioning tuple under the CURRENT
    model and `geo_scale`; nothing else changes -/
theorem ks_refresh_current (s : KS ℝ) :
    let s1 := (ksStep s (.setCond none)).1
    s1.kpos = msIsometrize s.R s.model s.cond ∧ s1.model = s.model ∧ s1.R = s.R ∧ s1.cond = s.cond ∧ s1.pos = s.pos :=
  ⟨rfl, rfl, rfl, rfl, rfl⟩

/-- a call isometrizes the given (or, without argument, the stored) targets with the CURRENT model and `geo_scale` -/
theorem ks_call_current (s : KS ℝ) (p : List (ℕ → ℝ)) :
    (ksStep s (.call (some p))).2 = .iso (msIsometrize s.R s.model p) ∧
    (ksStep s (.call none)).2 = .iso (msIsometrize s.R s.model s.pos) := ⟨rfl, rfl⟩

/-- only `set_condition` writes `_krige_pos`: after in-place setters, a model replacement or calls it is still the tuple
    isometrized with the model of the last `set_condition` — the reason the refresh is documented -/
theorem ks_kpos_is_last_setCond (s : KS ℝ) (ops : List (KOp ℝ)) (h : ∀ op ∈ ops, ∀ c, op ≠ .setCond c) :
    (ksFinal s ops).kpos = s.kpos := by
  induction ops generalizing s with
  | nil => rfl
  | cons op rest ih =>
    show (ksFinal (ksStep s op).1 rest).kpos = s.kpos
    rw [ih _ (fun o ho => h o (List.mem_cons_of_mem _ ho))]
    cases op with
    | setCond c => exact absurd rfl (h _ List.mem_cons_self c)
    | setter o => rfl
    | replace R ll tm d ls an ag => simp only [ksStep]; cases msInit ll tm d ls an ag <;> rfl
    | call p => cases p <;> rfl

/-- a model object held by a kriging object stays valid through every operation -/
theorem ksStep_valid {s : KS ℝ} (hs : MSValid s.model) (op : KOp ℝ) : MSValid (ksStep s op).1.model := by
  cases op with
  | setter o => exact msStepKeep_valid hs o
  | replace R ll tm d ls an ag =>
    simp only [ksStep]
    cases h : msInit ll tm d ls an ag with
    | ok m => exact msInit_valid h
    | error e => exact hs
  | setCond c => cases c <;> exact hs
  | call p => cases p <;> exact hs

theorem ksFinal_valid {s : KS ℝ} (hs : MSValid s.model) (ops : List (KOp ℝ)) : MSValid (ksFinal s ops).model := by
  induction ops generalizing s with
  | nil => exact hs
  | cons op rest ih => exact ih (ksStep_valid hs op)

/-- **lat-lon (+ time) kriging after the refresh**: whatever the history, after `set_condition()` the conditioning points
    AND the targets of the next call (given or stored) are mapped by the same function: the sphere point of the CURRENT
    `geo_scale` with the time divided by the CURRENT last ratio -/
theorem ks_refresh_latlon (s : KS ℝ) (hl : s.model.latlon = true) (p : List (ℕ → ℝ)) :
    let s1 := (ksStep s (.setCond none)).1
    let f := fun x : ℕ → ℝ => isometrizeLL s.R s.model.temporal s.model.anis (x 0) (x 1) (x 2)
    s1.kpos = s.cond.map f ∧ (ksStep s1 (.call (some p))).2 = .iso (p.map f) ∧ (ksStep s1 (.call none)).2 = .iso (s.pos.map f) := by
  refine ⟨?_, ?_, ?_⟩ <;> simp [ksStep, msIsometrize, hl]

/-- the squared distance of two lat-lon + time points after `isometrize`: `chord² + (Δt / anis[-1])²` with
    `chord² = 4R²·a` (haversine argument `a`) — every list of ratios, every `geo_scale` -/
theorem distSq_latlon_temporal (R : ℝ) (anis : List ℝ) (lat1 lon1 t1 lat2 lon2 t2 : ℝ) :
    distSq (isometrizeLL R true anis lat1 lon1 t1) (isometrizeLL R true anis lat2 lon2 t2)
      = 4 * (R * R) * havArg lat1 lon1 lat2 lon2
        + (t1 / lastAnis anis - t2 / lastAnis anis) * (t1 / lastAnis anis - t2 / lastAnis anis) := by
  rw [← chord_is_haversine]
  simp [isometrizeLL, latlon2posT, distSq, P3.toList, P3.normSq, P3.sub]

/-- without time: `chord²` -/
theorem distSq_latlon (R : ℝ) (anis : List ℝ) (lat1 lon1 t1 lat2 lon2 t2 : ℝ) :
    distSq (isometrizeLL R false anis lat1 lon1 t1) (isometrizeLL R false anis lat2 lon2 t2)
      = 4 * (R * R) * havArg lat1 lon1 lat2 lon2 := by
  rw [← chord_is_haversine]
  simp [isometrizeLL, distSq, P3.toList, P3.normSq, P3.sub]

/-- **the same covariance in another unit**: replacing the model of radius `R`, length scale `l` and time ratio `κ` by
    the model of radius `c·R`, length scale `c·l` and time ratio `κ / c` (`c > 0`: km ↔ radian ↔ degree) multiplies
    every isometrized distance by `c`, so every covariance `g(r / len_scale)` between conditions and targets — hence
    the kriging matrix, the right-hand sides, estimate and variance of the refreshed object — is unchanged. -/
theorem unit_change_invariant (g : ℝ → ℝ) {c : ℝ} (hc : 0 < c) (R l : ℝ) (anis anis' : List ℝ)
    (hκ : lastAnis anis' = lastAnis anis / c) (temporal : Bool) (lat1 lon1 t1 lat2 lon2 t2 : ℝ) :
    g (Real.sqrt (distSq (isometrizeLL (c * R) temporal anis' lat1 lon1 t1) (isometrizeLL (c * R) temporal anis' lat2 lon2 t2)) / (c * l))
      = g (Real.sqrt (distSq (isometrizeLL R temporal anis lat1 lon1 t1) (isometrizeLL R temporal anis lat2 lon2 t2)) / l) := by
  have hc0 : c ≠ 0 := ne_of_gt hc
  have key : distSq (isometrizeLL (c * R) temporal anis' lat1 lon1 t1) (isometrizeLL (c * R) temporal anis' lat2 lon2 t2)
      = (c * c) * distSq (isometrizeLL R temporal anis lat1 lon1 t1) (isometrizeLL R temporal anis lat2 lon2 t2) := by
    cases temporal with
    | false => rw [distSq_latlon, distSq_latlon]; ring
    | true =>
      rw [distSq_latlon_temporal, distSq_latlon_temporal, hκ]
      have e : ∀ t : ℝ, t / (lastAnis anis / c) = c * (t / lastAnis anis) := fun t => by
        rw [div_div_eq_mul_div]; ring
      rw [e t1, e t2]; ring
  rw [key, Real.sqrt_mul (mul_self_nonneg c), Real.sqrt_mul_self (le_of_lt hc), mul_div_mul_left _ _ hc0]

example : (0:ℝ) < 6371 ∧ lastAnis ([1, 1, 0.002 / 6371] : List ℝ) = lastAnis ([1, 1, 0.002] : List ℝ) / 6371 := by
  constructor
  · norm_num
  · simp [lastAnis]

end GSV.Props.C13
