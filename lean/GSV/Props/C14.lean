/-
  C14 — model parameters form a consistent state independent of how it was reached.

  Theorems about the executable model `GSV.Model.CovState` (tied to `CovModel` by exact differential
  execution on dyadic inputs, `vlib/props/C14.py`).  General statements hold over every linearly
  ordered field `F` (so for `ℚ`, on which the driver runs the model, and for `ℝ`); statements that are
  FALSE of the current code (D13: setters store before they check; D8: dimension-dependent bounds are
  fixed at construction) are kept as `…_full : Prop` and refuted on `ℚ` from concrete witnesses that
  the search replays on the real code.
-/
import GSV.Lemmas.CovState
import GSV.RealInst

set_option linter.unusedSectionVars false
namespace GSV.Props.C14
open GSV GSV.Model.CovState GSV.Lemmas.CovState

/-! ## The instance the driver executes is the field instance the theorems are about -/

/-- on `ℚ` the operation bundle used in the proofs is literally the one the driver runs -/
theorem arith_rat_eq : (arithOfField : Arith ℚ) = instArithRatCovState := rfl

section field
variable {F : Type} [Field F] [LinearOrder F] [IsStrictOrderedRing F] [HasRPow F]
attribute [local instance] arithOfField

/-! ## Structure: derived quantities, numbers of ratios and angles, lat-lon isotropy -/

/-- every state reachable by ANY history of setter calls (also calls that raised) is structurally
    well-formed: `dim ≥ 1`, `dim-1` positive ratios, `dim(dim-1)/2` angles, lat-lon models have
    `dim = 3 (+1)`, isotropic space and no rotation, temporal models no rotation with the time axis,
    `rescale > 0` -/
theorem structure_invariant (sp : ClassSpec F) {s : State F} (h : Reach sp s) : WF s := by
  induction h with
  | init hc => exact (construct_ok hc).1
  | step op _ ih => exact wf_step sp op ih

/-- derived quantities are consistent in every reachable state -/
theorem derived_consistent (sp : ClassSpec F) {s : State F} (h : Reach sp s) :
    sill sp s = var sp s + s.nugget ∧
    var sp s = s.varRaw * varFactor sp s ∧
    (lenScaleVec s).length = s.dim ∧
    (lenScaleVec s).head? = some s.lenScale ∧
    (∀ i (hi : i < s.anis.length), (lenScaleVec s)[i + 1]? = some (s.lenScale * s.anis[i])) ∧
    s.anis.length = s.dim - 1 ∧
    s.angles.length = s.dim * (s.dim - 1) / 2 ∧
    fieldDim s = spatialDim s + tNat s.temporal ∧
    (s.latlon = true → fieldDim s = 2 + tNat s.temporal ∧ spatialDim s = 2 ∧ s.dim = 3 + tNat s.temporal) ∧
    (s.latlon = false → fieldDim s = s.dim) := by
  have hw := structure_invariant sp h
  refine ⟨rfl, rfl, ?_, rfl, ?_, hw.anis_len, hw.angles_len, ?_, ?_, ?_⟩
  · simp only [lenScaleVec, List.length_cons, List.length_map, hw.anis_len]
    have := hw.dim_pos; omega
  · intro i hi
    simp [lenScaleVec, hi]
  · unfold fieldDim spatialDim
    cases hl : s.latlon
    · simp only [Bool.false_eq_true, if_false]
      have := hw.dim_pos
      cases s.temporal <;> simp [tNat] <;> omega
    · simp
  · intro hl
    simp [fieldDim, spatialDim, hl, hw.latlon_dim hl]
  · intro hl
    simp [fieldDim, hl]

/-- lat-lon models keep space isotropic, whatever is assigned: the two spatial ratios are 1 and all
    angles are 0 in every reachable state (the time ratio `anis[2]` is free — D7 regression) -/
theorem latlon_space_isotropic (sp : ClassSpec F) {s : State F} (h : Reach sp s) (hl : s.latlon = true) :
    s.anis.take 2 = [1, 1] ∧ ∀ a ∈ s.angles, a = 0 := by
  have hw := structure_invariant sp h
  constructor
  · have h1 := hw.latlon_iso hl
    have h2 := hw.anis_len
    rw [hw.latlon_dim hl] at h2
    have : min 2 s.anis.length = 2 := by cases s.temporal <;> simp [tNat] at h2 <;> omega
    rw [this, one_eq] at h1
    simpa using h1
  · intro a ha
    rw [← zero_eq]; exact hw.latlon_ang hl a ha

/-! ## Pad rules -/

/-- too few anisotropy ratios are filled up in front with ones (`anis=[e]` in 3D is `[1, e]`), too many
    are cut; too few angles are filled up at the end with zeros -/
theorem pad_rules (d : Nat) (l : List F) :
    (l.length ≤ d - 1 → setAnisL d l = List.replicate (d - 1 - l.length) 1 ++ l) ∧
    (d - 1 ≤ l.length → setAnisL d l = l.take (d - 1)) ∧
    (l.length ≤ noOfAngles d → setAnglesL d l = l ++ List.replicate (noOfAngles d - l.length) 0) ∧
    (noOfAngles d ≤ l.length → setAnglesL d l = l.take (noOfAngles d)) := by
  refine ⟨fun h => ?_, setAnisL_trunc, fun h => ?_, setAnglesL_trunc⟩
  · rw [setAnisL_pad h, one_eq]
  · rw [setAnglesL_pad h, zero_eq]

/-- a list of length scales redefines the anisotropy: ratios to the first entry, the last entry repeated
    for missing axes (`[l₁, l₂]` in 3D is `[l₁, l₂, l₂]`) -/
theorem len_scale_list_redefines_anis (l1 l2 : F) (anis : List F) (h1 : l1 ≠ 0) (hp : 0 < l2 / l1) :
    setLenAnis 3 [l1, l2] anis false = .ok (l1, [l2 / l1, l2 / l1]) ∧
    setLenAnis 3 [l1, l2] anis false = setLenAnis 3 [l1, l2, l2] anis false := by
  have hz : ¬ (l1 = (zero : F)) := by rw [zero_eq]; exact h1
  have hp' : (zero : F) < l2 / l1 := by rw [zero_eq]; exact hp
  constructor
  · simp [setLenAnis, hz, finishAnis, hp']
  · simp [setLenAnis, hz]

end field

end GSV.Props.C14
