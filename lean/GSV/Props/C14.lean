/-
  C14 — model parameters form a consistent state independent of how it was reached.

  Theorems about the executable model `GSV.Model.CovState` (tied to `CovModel` by exact differential
  execution on dyadic inputs, `vlib/props/C14.py`).  General statements hold over every linearly
  ordered field `F` (so for `ℚ`, on which the driver runs the model, and for `ℝ`); statements that are
  FALSE of the current code (D13: setters store before they check; D8: dimension-dependent bounds are
  fixed at construction) are kept as `…_full : Prop` and refuted on `ℚ` from concrete witnesses that
  the search replays on the real code.
-/
import GSV.Lemmas.CovState
import GSV.RealInst

set_option linter.unusedSectionVars false
namespace GSV.Props.C14
open GSV GSV.Model.CovState GSV.Lemmas.CovState

/-! ## The instance the driver executes is the field instance the theorems are about -/

/-- on `ℚ` the operation bundle used in the proofs is literally the one the driver runs -/
theorem arith_rat_eq : (arithOfField : Arith ℚ) = instArithRatCovState := rfl

section field
variable {F : Type} [Field F] [LinearOrder F] [IsStrictOrderedRing F] [HasRPow F]
attribute [local instance] arithOfField

/-! ## Structure: derived quantities, numbers of ratios and angles, lat-lon isotropy -/

/-- every state reachable by ANY history of setter calls (also calls that raised) is structurally
    well-formed: `dim ≥ 1`, `dim-1` positive ratios, `dim(dim-1)/2` angles, lat-lon models have
    `dim = 3 (+1)`, isotropic space and no rotation, temporal models no rotation with the time axis,
    `rescale > 0` -/
theorem structure_invariant (sp : ClassSpec F) {s : State F} (h : Reach sp s) : WF s := by
  induction h with
  | init hc => exact (construct_ok hc).1
  | step op _ ih => exact wf_step sp op ih

/-- derived quantities are consistent in every reachable state -/
theorem derived_consistent (sp : ClassSpec F) {s : State F} (h : Reach sp s) :
    sill sp s = var sp s + s.nugget ∧
    var sp s = s.varRaw * varFactor sp s ∧
    (lenScaleVec s).length = s.dim ∧
    (lenScaleVec s).head? = some s.lenScale ∧
    (∀ i (hi : i < s.anis.length), (lenScaleVec s)[i + 1]? = some (s.lenScale * s.anis[i])) ∧
    s.anis.length = s.dim - 1 ∧
    s.angles.length = s.dim * (s.dim - 1) / 2 ∧
    fieldDim s = spatialDim s + tNat s.temporal ∧
    (s.latlon = true → fieldDim s = 2 + tNat s.temporal ∧ spatialDim s = 2 ∧ s.dim = 3 + tNat s.temporal) ∧
    (s.latlon = false → fieldDim s = s.dim) := by
  have hw := structure_invariant sp h
  refine ⟨rfl, rfl, ?_, rfl, ?_, hw.anis_len, hw.angles_len, ?_, ?_, ?_⟩
  · simp only [lenScaleVec, List.length_cons, List.length_map, hw.anis_len]
    have := hw.dim_pos; omega
  · intro i hi
    simp [lenScaleVec, hi]
  · unfold fieldDim spatialDim
    cases hl : s.latlon
    · simp only [Bool.false_eq_true, if_false]
      have := hw.dim_pos
      cases s.temporal <;> simp [tNat] <;> omega
    · simp
  · intro hl
    simp [fieldDim, spatialDim, hl, hw.latlon_dim hl]
  · intro hl
    simp [fieldDim, hl]

/-- lat-lon models keep space isotropic, whatever is assigned: the two spatial ratios are 1 and all
    angles are 0 in every reachable state (the time ratio `anis[2]` is free — D7 regression) -/
theorem latlon_space_isotropic (sp : ClassSpec F) {s : State F} (h : Reach sp s) (hl : s.latlon = true) :
    s.anis.take 2 = [1, 1] ∧ ∀ a ∈ s.angles, a = 0 := by
  have hw := structure_invariant sp h
  constructor
  · have h1 := hw.latlon_iso hl
    have h2 := hw.anis_len
    rw [hw.latlon_dim hl] at h2
    have : min 2 s.anis.length = 2 := by cases s.temporal <;> simp [tNat] at h2 <;> omega
    rw [this, one_eq] at h1
    simpa using h1
  · intro a ha
    rw [← zero_eq]; exact hw.latlon_ang hl a ha

/-! ## Pad rules -/

/-- too few anisotropy ratios are filled up in front with ones (`anis=[e]` in 3D is `[1, e]`), too many
    are cut; too few angles are filled up at the end with zeros -/
theorem pad_rules (d : Nat) (l : List F) :
    (l.length ≤ d - 1 → setAnisL d l = List.replicate (d - 1 - l.length) 1 ++ l) ∧
    (d - 1 ≤ l.length → setAnisL d l = l.take (d - 1)) ∧
    (l.length ≤ noOfAngles d → setAnglesL d l = l ++ List.replicate (noOfAngles d - l.length) 0) ∧
    (noOfAngles d ≤ l.length → setAnglesL d l = l.take (noOfAngles d)) := by
  refine ⟨fun h => ?_, setAnisL_trunc, fun h => ?_, setAnglesL_trunc⟩
  · rw [setAnisL_pad h, one_eq]
  · rw [setAnglesL_pad h, zero_eq]

/-- a list of length scales redefines the anisotropy: ratios to the first entry, the last entry repeated
    for missing axes (`[l₁, l₂]` in 3D is `[l₁, l₂, l₂]`) -/
theorem len_scale_list_redefines_anis (l1 l2 : F) (anis : List F) (h1 : l1 ≠ 0) (hp : 0 < l2 / l1) :
    setLenAnis 3 [l1, l2] anis false = .ok (l1, [l2 / l1, l2 / l1]) ∧
    setLenAnis 3 [l1, l2] anis false = setLenAnis 3 [l1, l2, l2] anis false := by
  have hz : ¬ (l1 = (zero : F)) := by rw [zero_eq]; exact h1
  have hp' : (zero : F) < l2 / l1 := by rw [zero_eq]; exact hp
  constructor
  · simp [setLenAnis, hz, finishAnis, hp']
  · simp [setLenAnis, hz]

/-! ## Bounds: rejection, and the invariant along non-raising histories -/

/-- interval reading of `InBnd` (the comparisons `check_arg_in_bounds` makes) -/
theorem inBnd_iff (b : Bnd F) (v : F) :
    InBnd b v ↔ (∀ l, b.lo = some l → if b.loC then l ≤ v else l < v) ∧
                (∀ h, b.hi = some h → if b.hiC then v ≤ h else v < h) := by
  obtain ⟨lo, hi, loC, hiC⟩ := b
  cases lo <;> cases hi <;> cases loC <;> cases hiC <;> simp [InBnd, not_lt, not_le]

/-- Values outside their bounds are always rejected: a plain setter (anything but the bounds
    operations and `rescale`) that does NOT raise leaves EVERY argument inside its bounds — in particular
    the assigned one.  (Contrapositive: an assignment that puts any argument outside its bounds raises.) -/
theorem accepted_in_bounds (sp : ClassSpec F) (s : State F) (op : Op F) (hp : Op.plain sp op = true)
    (hr : ∀ v, op ≠ .setRescale v) (h : (step sp s op).err = none) :
    InBounds sp (step sp s op).st :=
  step_ok_inBounds sp s op hp hr h

/-- the directly assigned value is what is checked: an out-of-bounds `nugget`, `len_scale`, optional
    argument or (raw) variance raises `ValueError` -/
theorem rejects_out_of_bounds (sp : ClassSpec F) (s : State F) (hw : WF s) (v : F) :
    (¬ InBnd s.nugB v → (step sp s (.setNugget v)).err ≠ none) ∧
    (¬ InBnd s.lenB v → (step sp s (.setLenScale [v])).err ≠ none) ∧
    (¬ InBnd s.varB (v * varFactor sp s) → (step sp s (.setVarRaw v)).err ≠ none) ∧
    (varFactor sp s ≠ 0 → ¬ InBnd s.varB v → (step sp s (.setVar v)).err ≠ none) ∧
    (∀ n b, (∃ x, (⟨n, x, b⟩ : OptArg F) ∈ s.opt) → ¬ InBnd b v → (step sp s (.setOpt n v)).err ≠ none) := by
  refine ⟨fun hv he => hv ?_, fun hv he => hv ?_, fun hv he => hv ?_, fun hvf hv he => hv ?_, ?_⟩
  · exact (accepted_in_bounds sp s _ rfl (fun _ h => by cases h) he).2.2.1
  · have h2 := (accepted_in_bounds sp s _ rfl (fun _ h => by cases h) he).2.1
    simp only [step, doSetLenScale, setLenAnis_scalar hw v] at h2
    exact h2
  · exact (accepted_in_bounds sp s _ rfl (fun _ h => by cases h) he).1
  · have h2 := (accepted_in_bounds sp s _ rfl (fun _ h => by cases h) he).1
    have hz : ¬ (varFactor sp s = (zero : F)) := by rw [zero_eq]; exact hvf
    simp only [step, doSetVar, if_neg hz, chk, var] at h2
    have hvf2 : varFactor sp ({ s with varRaw := v / varFactor sp s } : State F) = varFactor sp s := rfl
    rw [hvf2, div_mul_cancel₀ _ hvf] at h2
    exact h2
  · rintro n b ⟨x, hx⟩ hv he
    apply hv
    have h2 := (accepted_in_bounds sp s _ rfl (fun _ h => by cases h) he).2.2.2.2
    have hhas : hasOpt s n = true := by
      simp only [hasOpt, List.any_eq_true]; exact ⟨_, hx, by simp⟩
    simp only [step, doSetOpt, hhas, Bool.not_true, Bool.false_eq_true, if_false] at h2 he
    split at he
    · cases he
    · rename_i hh
      rw [if_neg hh] at h2
      have := h2 ⟨n, v, b⟩ (by
        simp only [chk, List.mem_map]
        exact ⟨_, hx, by simp⟩)
      exact this

/-- a successfully constructed model is inside its bounds -/
theorem constructed_in_bounds (sp : ClassSpec F) {cfg : Cfg F} {s : State F} {w : Bool}
    (h : construct sp cfg = .ok (s, w)) : InBounds sp s :=
  (checkArgBounds_eq_none_iff sp s).mp (construct_ok h).2

/-- FULL statement of the bounds clause (false of the current code, D13): every reachable state is inside
    its bounds and a rejected assignment leaves the state unchanged -/
def bounds_invariant_full (α : Type) [Arith α] [DecidableLT α] [DecidableLE α] [DecidableEq α] [HasRPow α] : Prop :=
  ∀ (sp : ClassSpec α) (s : State α), Reach sp s →
    checkArgBounds sp s = none ∧ ∀ op : Op α, (step sp s op).err ≠ none → (step sp s op).st = s

/-- PROVED part: along histories of plain setters none of which raised, every state is well-formed and
    inside its bounds (classes with dimension-independent bounds; for TPL classes `rescale` is not plain);
    together with `accepted_in_bounds` / `rejects_out_of_bounds` (rejection) and `constructed_in_bounds`.
    Missing w.r.t. the full statement: "a rejected assignment leaves the state unchanged" — false (D13). -/
theorem bounds_invariant_partial {sp : ClassSpec F} (hsp : SpecOK sp) {s : State F}
    (h : ReachOk sp s) : WF s ∧ InBounds sp s :=
  let ⟨hw, hin, _⟩ := reachOk_invariants hsp h
  ⟨hw, (checkArgBounds_eq_none_iff sp s).mp hin⟩

/-- `set_arg_bounds(check_args=True, …)` that does not raise, called on a model inside its bounds, leaves the
    model inside the NEW bounds: values outside new bounds are replaced by `default_arg_from_bounds` through
    the checking setters (`var` last) -/
theorem set_arg_bounds_keeps_in_bounds (sp : ClassSpec F) (s : State F) (bs : List (String × RawBnd F))
    (hok : OptNamesOK s) (hin : InBounds sp s) (h : (step sp s (.setArgBounds true bs)).err = none) :
    InBounds sp (step sp s (.setArgBounds true bs)).st :=
  argBoundsLoop_ok sp bs s none hok hin h

/-- bounds invariant along histories of non-raising plain setters (without `rescale`) AND non-raising
    `set_arg_bounds(check_args=True)` calls, for every class table with sane optional-argument names -/
theorem bounds_invariant_with_bounds_ops {sp : ClassSpec F} (hsp : SpecNamesOK sp) {s : State F}
    (h : ReachOkB sp s) : InBounds sp s :=
  (reachOkB_inBounds hsp h).2

/-- every class of the table has sane optional-argument names -/
theorem all_specs_namesOK (name : String) (sp : ClassSpec F) (hs : specOf name = some sp) : SpecNamesOK sp := by
  unfold specOf at hs
  split at hs
  all_goals first
    | (injection hs with hs; subst hs; unfold SpecNamesOK; intro d
       simp [plainSpec, tplHurst, tplLenLow, alphaArg])
    | cases hs

/-! ## Path independence -/

/-- FULL statement (false of the current code, D8): for every shipped class, after any history of plain
    setters none of which raised, the model equals one constructed directly with the resulting values -/
def path_independent_full (α : Type) [Arith α] [DecidableLT α] [DecidableLE α] [DecidableEq α] [HasRPow α] : Prop :=
  ∀ (name : String) (sp : ClassSpec α), specOf name = some sp → ∀ s : State α, ReachOk sp s →
    ∃ w, construct sp (cfgOf sp s) = .ok (s, w)

/-- PROVED core: a well-formed state that is inside its bounds and carries the default bounds of its
    dimension is a fixed point of the constructor: constructing a model directly with the values read
    off it (`dim, var, len_scale, anis, angles, nugget, rescale, optional arguments`) gives exactly this
    state.  (`var_factor ≠ 0`, `hurst ≠ 0` only matter for the truncated-power-law classes.) -/
theorem path_independent_partial {sp : ClassSpec F} {s : State F} (h : WF s)
    (hfix : sp.fixDim = none ∨ sp.fixDim = some s.dim) (hb : DefaultBounds sp s)
    (hin : InBounds sp s) (hvf : varFactor sp s ≠ 0) (hh : sp.tpl = true → optGet s "hurst" ≠ 0) :
    construct sp (cfgOf sp s) = .ok (s, !sp.checkDim s.dim || optWarn sp s) :=
  construct_cfgOf h hfix hb ((checkArgBounds_eq_none_iff sp s).mpr hin) hvf hh

/-- PROVED for histories: for a class without variance factor, without fixed dimension and with
    dimension-independent bounds, after ANY history of plain setters none of which raised the model equals
    one constructed directly with the resulting values. -/
theorem path_independent_history {sp : ClassSpec F} (hsp : SpecOK sp) (htpl : sp.tpl = false)
    (hfix : sp.fixDim = none) {s : State F} (h : ReachOk sp s) :
    construct sp (cfgOf sp s) = .ok (s, !sp.checkDim s.dim || optWarn sp s) := by
  obtain ⟨hw, hin, hdb⟩ := reachOk_invariants hsp h
  refine construct_cfgOf hw (Or.inl hfix) hdb hin ?_ (fun ht => by rw [htpl] at ht; cases ht)
  rw [varFactor_nontpl htpl]; exact one_ne_zero

/-- the same for truncated-power-law classes (histories without the unchecked `rescale` setter), provided the
    variance factor of the final state is defined and non-zero: the variance read off the model is divided by
    the factor again, which reproduces the stored intensity -/
theorem path_independent_history_tpl {sp : ClassSpec F} (hsp : SpecOK sp) (hfix : sp.fixDim = none)
    {s : State F} (h : ReachOk sp s) (hvf : varFactor sp s ≠ 0) (hh : optGet s "hurst" ≠ 0) :
    construct sp (cfgOf sp s) = .ok (s, !sp.checkDim s.dim || optWarn sp s) := by
  obtain ⟨hw, hin, hdb⟩ := reachOk_invariants hsp h
  exact construct_cfgOf hw (Or.inl hfix) hdb hin hvf (fun _ => hh)

/-- the three shipped truncated-power-law classes satisfy its hypotheses on the class -/
theorem shipped_tpl_specOK (name : String) (hn : name ∈ ["TPLGaussian", "TPLExponential", "TPLStable"])
    (sp : ClassSpec F) (hs : specOf name = some sp) : SpecOK sp ∧ sp.tpl = true ∧ sp.fixDim = none := by
  simp only [List.mem_cons, List.not_mem_nil, or_false] at hn
  rcases hn with h | h | h <;> subst h <;>
    simp only [specOf, Option.some.injEq] at hs <;> subst hs <;>
    (refine ⟨⟨fun _ _ => rfl, fun _ => ?_⟩, rfl, rfl⟩; simp [plainSpec, tplHurst, tplLenLow, alphaArg])

/-- the shipped classes without variance factor and with dimension-independent bounds satisfy the
    hypotheses of `path_independent_history` -/
theorem shipped_specOK (name : String)
    (hn : name ∈ ["Gaussian", "Exponential", "Stable", "Matern", "Integral", "Rational", "Cubic", "Linear",
      "Circular", "Spherical", "HyperSpherical"]) (sp : ClassSpec F) (hs : specOf name = some sp) :
    SpecOK sp ∧ sp.tpl = false ∧ sp.fixDim = none := by
  simp only [List.mem_cons, List.not_mem_nil, or_false] at hn
  rcases hn with h | h | h | h | h | h | h | h | h | h | h <;> subst h <;>
    simp only [specOf, Option.some.injEq] at hs <;> subst hs <;>
    (refine ⟨⟨fun _ _ => rfl, fun _ => ?_⟩, rfl, rfl⟩; simp [plainSpec])

/-- path independence for the shipped classes it holds for -/
theorem path_independent_shipped (name : String)
    (hn : name ∈ ["Gaussian", "Exponential", "Stable", "Matern", "Integral", "Rational", "Cubic", "Linear",
      "Circular", "Spherical", "HyperSpherical"]) (sp : ClassSpec F) (hs : specOf name = some sp)
    {s : State F} (h : ReachOk sp s) : ∃ w, construct sp (cfgOf sp s) = .ok (s, w) :=
  let ⟨h1, h2, h3⟩ := shipped_specOK name hn sp hs
  ⟨_, path_independent_history h1 h2 h3 h⟩

/-! ## Frame conditions and documented couplings -/

/-- assigning one parameter changes nothing else: scalar `len_scale` keeps the anisotropy (also the time
    ratio of lat-lon + temporal models, D7), `nugget`, `var_raw`, `angles` only touch their own field -/
theorem frame_conditions (sp : ClassSpec F) (s : State F) (hw : WF s) (v : F) (vs : List F) :
    (step sp s (.setLenScale [v])).st = { s with lenScale := v } ∧
    (step sp s (.setNugget v)).st = { s with nugget := v } ∧
    (step sp s (.setVarRaw v)).st = { s with varRaw := v } ∧
    (step sp s (.setAngles vs)).st = { s with angles := setModelAngles s.dim vs s.latlon s.temporal } ∧
    (∃ a, (step sp s (.setAnis vs)).st = { s with anis := a }) ∧
    (varFactor sp s ≠ 0 → (step sp s (.setVar v)).st = { s with varRaw := v / varFactor sp s }) := by
  refine ⟨?_, rfl, rfl, rfl, ?_, ?_⟩
  · simp only [step, doSetLenScale, setLenAnis_scalar hw v, chk]
  · simp only [step, doSetAnis]
    split
    · exact ⟨s.anis, rfl⟩
    · rename_i l a heq
      rw [setLenAnis_single hw.dim_pos] at heq
      obtain ⟨h1, _, _⟩ := finishAnis_ok heq
      exact ⟨a, by simp only [chk, h1]⟩
  · intro hvf
    have hz : ¬ (varFactor sp s = (zero : F)) := by rw [zero_eq]; exact hvf
    simp only [step, doSetVar, if_neg hz, chk]

/-- documented coupling: for truncated-power-law classes the stored quantity is the intensity
    `var_raw`; `len_scale`, `rescale` and the optional arguments leave it unchanged, so the variance
    `var = var_raw * var_factor` follows them -/
theorem tpl_variance_follows_intensity (sp : ClassSpec F) (s : State F) (ls : List F) (r : Option F)
    (n : String) (v : F) :
    (step sp s (.setLenScale ls)).st.varRaw = s.varRaw ∧
    (step sp s (.setRescale r)).st.varRaw = s.varRaw ∧
    (step sp s (.setOpt n v)).st.varRaw = s.varRaw ∧
    ∀ op, var sp (step sp s op).st = (step sp s op).st.varRaw * varFactor sp (step sp s op).st := by
  refine ⟨?_, ?_, ?_, fun _ => rfl⟩
  · simp only [step, doSetLenScale]; split <;> rfl
  · simp only [step, doSetRescale]; split
    · rfl
    · split <;> rfl
  · simp only [step, doSetOpt]; split
    · rfl
    · split <;> rfl

end field

/-! ## Refutations of the full statements on `ℚ` (the carrier the driver executes), from the witnesses
    the search replays on the real code -/

def expSpec : ClassSpec ℚ := (specOf "Exponential").get (by decide)
def jbSpec : ClassSpec ℚ := (specOf "JBessel").get (by decide)

/-- `Exponential(dim=2)` -/
def expCfg : Cfg ℚ :=
  { dim := 2, spatialDim := none, latlon := false, temporal := false, var := 1, varRaw := none,
    lenScale := [1], anis := [1], angles := [0], nugget := 0, rescale := none, opt := [],
    integralScale := none }

/-- `JBessel(dim=1, nu=0)` -/
def jbCfg : Cfg ℚ := { expCfg with dim := 1, opt := [("nu", 0)] }

/-- D13 witness: `m = Exponential(dim=2); m.var = -1` raises, yet `m.var == -1` afterwards and the state is
    out of bounds -/
def d13Witness : Bool :=
  match construct expSpec expCfg with
  | .ok (s, _) =>
    decide ((step expSpec s (.setVar (-1))).err = some (.bound "var" 2)) &&
    decide ((step expSpec s (.setVar (-1))).st ≠ s) &&
    decide (var expSpec (step expSpec s (.setVar (-1))).st = -1) &&
    decide (checkArgBounds expSpec (step expSpec s (.setVar (-1))).st ≠ none)
  | .error _ => false

theorem d13Witness_true : d13Witness = true := by decide +kernel

/-- the full bounds clause is false of the model of the current code (D13) -/
theorem not_bounds_invariant_full : ¬ bounds_invariant_full ℚ := by
  intro hfull
  have h := d13Witness_true
  unfold d13Witness at h
  split at h
  · rename_i s w heq
    simp only [Bool.and_eq_true, decide_eq_true_eq] at h
    obtain ⟨⟨⟨h1, h2⟩, _⟩, _⟩ := h
    have hr : Reach expSpec s := Reach.init heq
    exact h2 ((hfull expSpec s hr).2 (.setVar (-1)) (by rw [h1]; simp))
  · cases h

/-- … and so is "every reachable state is inside its bounds": the rejected value stays -/
theorem rejected_value_is_stored :
    ∃ (s : State ℚ), Reach expSpec s ∧ checkArgBounds expSpec s ≠ none ∧ var expSpec s = -1 := by
  have h := d13Witness_true
  unfold d13Witness at h
  split at h
  · rename_i s w heq
    simp only [Bool.and_eq_true, decide_eq_true_eq] at h
    exact ⟨_, Reach.step (.setVar (-1)) (Reach.init heq), h.2, h.1.2⟩
  · cases h

/-- D8 witness: `m = JBessel(dim=1, nu=0); m.dim = 3` is accepted, the state keeps the bounds `[-1/2, 50]`
    of `nu`, and `JBessel(dim=3, nu=0)` is rejected by the constructor -/
def d8Witness : Bool :=
  match construct jbSpec jbCfg with
  | .ok (s, _) =>
    decide ((step jbSpec s (.setDim 3)).err = none) &&
    decide ((step jbSpec s (.setDim 3)).st.dim = 3) &&
    (match construct jbSpec (cfgOf jbSpec (step jbSpec s (.setDim 3)).st) with
      | .error e => decide (e = .bound "nu" 1)
      | .ok _ => false)
  | .error _ => false

theorem d8Witness_true : d8Witness = true := by decide +kernel

/-- path independence is false of the model of the current code for the classes with dimension-dependent
    bounds (D8) -/
theorem not_path_independent_full : ¬ path_independent_full ℚ := by
  intro hfull
  have h := d8Witness_true
  unfold d8Witness at h
  split at h
  · rename_i s w heq
    simp only [Bool.and_eq_true, decide_eq_true_eq] at h
    obtain ⟨⟨h1, _⟩, h3⟩ := h
    have hr : ReachOk jbSpec (step jbSpec s (.setDim 3)).st :=
      ReachOk.step (.setDim 3) (ReachOk.init heq) rfl h1
    obtain ⟨w', hw'⟩ := hfull "JBessel" jbSpec (by simp [jbSpec]) _ hr
    rw [hw'] at h3
    cases h3
  · cases h

/-- why `rescale` is not a plain setter for truncated-power-law classes: it has no bounds check and moves the
    variance.  `m = TPLGaussian(dim=2, var=4, hurst=1/2); m.set_arg_bounds(var=[2, 6]); m.rescale = 1/4` is accepted
    and leaves `m.var == 16` outside `[2, 6]` (replayed on the real classes by the search) -/
def rescaleWitness : Bool :=
  match (specOf "TPLGaussian" : Option (ClassSpec ℚ)) with
  | none => false
  | some sp =>
    match construct sp { expCfg with var := 4, opt := [("hurst", 1 / 2)] } with
    | .ok (s0, _) =>
      let r1 := step sp s0 (.setArgBounds true [("var", ⟨some 2, some 6, ""⟩)])
      let r2 := step sp r1.st (.setRescale (some (1 / 4)))
      decide (r1.err = none) && decide (var sp r1.st = 4) && decide (r2.err = none) && decide (var sp r2.st = 16) &&
      decide (checkArgBounds sp r2.st = some (.bound "var" 3))
    | .error _ => false

theorem rescaleWitness_true : rescaleWitness = true := by decide +kernel

/-- a concrete non-trivial history satisfying the hypotheses of the history theorems (and on which their
    conclusion is re-checked by evaluation): `m = Exponential(dim=2); m.dim = 3; m.len_scale = [2, 4];
    m.anis = 1/2; m.nugget = 1/2; m.angles = [1, 1/4]` -/
def historyWitness : Bool :=
  match construct expSpec expCfg with
  | .ok (s0, _) =>
    let ops : List (Op ℚ) := [.setDim 3, .setLenScale [2, 4], .setAnis [1 / 2], .setNugget (1 / 2), .setAngles [1, 1 / 4]]
    let s := runOps expSpec s0 ops
    decide (s.dim = 3) && decide (s.lenScale = 2) && decide (s.anis = [1, 1 / 2]) && decide (s.angles = [1, 1 / 4, 0]) &&
    decide (lenScaleVec s = [2, 2, 1]) && decide (checkArgBounds expSpec s = none) &&
    (match construct expSpec (cfgOf expSpec s) with
      | .ok (s', _) => decide (s' = s)
      | .error _ => false)
  | .error _ => false

theorem historyWitness_true : historyWitness = true := by decide +kernel

theorem exists_reachOk : ∃ s : State ℚ, ReachOk expSpec s ∧ ReachOkB expSpec s := by
  have h := historyWitness_true
  unfold historyWitness at h
  split at h
  · rename_i s w heq; exact ⟨s, ReachOk.init heq, ReachOkB.init heq⟩
  · cases h

/-- the hypotheses of `path_independent_partial`, `bounds_invariant_partial`, `set_arg_bounds_keeps_in_bounds`,
    `bounds_invariant_with_bounds_ops` are satisfied by a concrete model state on `ℚ` -/
example : ∃ s : State ℚ, WF s ∧ DefaultBounds expSpec s ∧ InBounds expSpec s ∧ OptNamesOK s ∧
    varFactor expSpec s ≠ 0 ∧ (expSpec.fixDim = none ∨ expSpec.fixDim = some s.dim) := by
  obtain ⟨s, hs, hsB⟩ := exists_reachOk
  have hspec : specOf "Exponential" = some expSpec := by simp [expSpec]
  have hok := shipped_specOK (F := ℚ) "Exponential" (by simp) expSpec hspec
  obtain ⟨h1, h2, h3⟩ := reachOk_invariants (F := ℚ) hok.1 hs
  have h4 := reachOkB_inBounds (F := ℚ) (all_specs_namesOK "Exponential" expSpec hspec) hsB
  refine ⟨s, h1, h3, (checkArgBounds_eq_none_iff expSpec s).mp h2, h4.1, ?_, Or.inl hok.2.2⟩
  rw [varFactor_nontpl (F := ℚ) hok.2.1]; exact one_ne_zero

/-! ## The truncated-power-law variance factor on `ℝ` for `hurst = 1/2` -/

noncomputable instance instHasRPowReal : HasRPow ℝ := ⟨fun x y => x ^ y⟩

section real
attribute [local instance] arithOfField

/-- with `hurst = 1/2` the variance of a truncated-power-law model is `intensity * len_scale / rescale`:
    it follows the length scale and the rescale factor linearly -/
theorem tpl_var_hurst_half (sp : ClassSpec ℝ) (s : State ℝ) (ht : sp.tpl = true)
    (hh : optGet s "hurst" = 1 / 2) :
    var sp s = s.varRaw * (s.lenScale / s.rescale) := by
  unfold var varFactor
  rw [if_pos ht]
  simp only [hh, two_eq]
  show s.varRaw * ((((optGet s "len_low" + s.lenScale) / s.rescale) ^ ((2:ℝ) * (1 / 2))
    - (optGet s "len_low" / s.rescale) ^ ((2:ℝ) * (1 / 2))) / (2 * (1 / 2))) = _
  have : (2:ℝ) * (1 / 2) = 1 := by norm_num
  rw [this, Real.rpow_one, Real.rpow_one]
  ring

end real

end GSV.Props.C14
