/-
  Accumulating loops as finite sums (needs commutative-monoid laws, so: ℝ, ℚ, ℤ — not Float).
-/
import GSV.Lemmas.Ctl
import GSV.RealInst
import Mathlib.Algebra.BigOperators.Intervals
import Mathlib.Algebra.Order.BigOperators.Group.Finset
namespace GSV
open Finset

theorem forRange_add_eq_sum {M : Type} [AddCommMonoid M] (lo hi : Nat) (a : M) (g : Nat → M) :
    forRange lo hi a (fun i acc => acc + g i) = a + ∑ i ∈ Finset.Ico lo hi, g i := by
  by_cases h : lo ≤ hi
  · induction hi, h using Nat.le_induction with
    | base => simp [forRange_empty (Nat.le_refl lo)]
    | succ hi hle ih =>
      rw [forRange_succ hle, ih, Finset.sum_Ico_succ_top hle, add_assoc]
  · have h' : hi ≤ lo := by omega
    rw [forRange_empty h', Finset.Ico_eq_empty (by omega)]
    simp

theorem forRange_zero_add_eq_sum {M : Type} [AddCommMonoid M] (n : Nat) (g : Nat → M) :
    forRange 0 n (0 : M) (fun i acc => acc + g i) = ∑ i ∈ Finset.range n, g i := by
  rw [forRange_add_eq_sum, zero_add, Finset.range_eq_Ico]

/-- the same with the kernels' literal zero `((0:Nat):ℝ)` -/
theorem forRange_cast_zero_add_eq_sum (n : Nat) (g : Nat → ℝ) :
    forRange 0 n (((0:Nat):ℝ)) (fun i acc => acc + g i) = ∑ i ∈ Finset.range n, g i := by
  rw [Nat.cast_zero]; exact forRange_zero_add_eq_sum n g

end GSV
