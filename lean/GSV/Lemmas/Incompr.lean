/-
  Helper lemmas for C16 (incompressible vector fields): the generated kernel's accumulating loops as
  finite sums over ℝ, and the one-variable calculus of a single Fourier mode along a coordinate line.
-/
import GSV.Props.KernelSummate
import GSV.Lemmas.Sum
import GSV.RealInst
import Mathlib.Analysis.SpecialFunctions.Trigonometric.Deriv
import Mathlib.Algebra.BigOperators.Field
namespace GSV.Incompr
open GSV GSV.Props Finset

/-! ### the kernel's loops as sums -/

theorem phaseOf_real (k x : Nat → Nat → ℝ) (dim j i : Nat) :
    phaseOf k x dim j i = ∑ d ∈ range dim, k d j * x d i := by
  unfold phaseOf
  exact forRange_cast_zero_add_eq_sum dim (fun d => k d j * x d i)

theorem absSq_real (k : Nat → Nat → ℝ) (dim j : Nat) :
    absSq k dim j = ∑ d ∈ range dim, (k d j) ^ 2 := by
  unfold absSq
  exact forRange_cast_zero_add_eq_sum dim (fun d => (k d j) ^ 2)

theorem e1_real (d : Nat) : (e1 d : ℝ) = if d = 0 then 1 else 0 := by
  unfold e1; split <;> simp

theorem incomprCell_real (k : Nat → Nat → ℝ) (z1 z2 : Nat → ℝ) (x : Nat → Nat → ℝ) (c0 dim N d i : Nat) :
    incomprCell k z1 z2 x c0 dim N d i ((0:Nat):ℝ) =
      ∑ j ∈ range N, (e1 d - k d j * k 0 j / absSq k c0 j) *
        (z1 j * Real.cos (phaseOf k x dim j i) + z2 j * Real.sin (phaseOf k x dim j i)) := by
  unfold incomprCell
  exact forRange_cast_zero_add_eq_sum N _

theorem absSq_nonneg (k : Nat → Nat → ℝ) (dim j : Nat) : 0 ≤ absSq k dim j := by
  rw [absSq_real]; exact sum_nonneg fun d _ => sq_nonneg _

/-- `|k_j|² ≠ 0` iff some component of the wave vector is non-zero -/
theorem absSq_ne_zero_iff (k : Nat → Nat → ℝ) (dim j : Nat) :
    absSq k dim j ≠ 0 ↔ ∃ d < dim, k d j ≠ 0 := by
  rw [absSq_real, Ne, sum_eq_zero_iff_of_nonneg (fun d _ => sq_nonneg _)]
  simp

/-- `Σ_d e1_d f_d = f_0` as soon as the dimension is positive -/
theorem sum_e1_mul (f : Nat → ℝ) {dim : Nat} (h : 0 < dim) :
    ∑ d ∈ range dim, (e1 d : ℝ) * f d = f 0 := by
  rw [sum_eq_single 0]
  · simp [e1_real]
  · intro d _ hd; simp [e1_real, hd]
  · intro h0; exact absurd (mem_range.mpr h) h0

/-! ### one Fourier mode along a coordinate line -/

/-- the phase `⟨k, x⟩` as a function of coordinate `d` of `x` has derivative `k_d` -/
theorem hasDerivAt_phase (k : Nat → ℝ) (x : Nat → ℝ) {dim d : Nat} (hd : d < dim) (t : ℝ) :
    HasDerivAt (fun s => ∑ d' ∈ range dim, k d' * Function.update x d s d') (k d) t := by
  have h : ∀ d' ∈ range dim, HasDerivAt (fun s => k d' * Function.update x d s d')
      (if d' = d then k d else 0) t := by
    intro d' _
    by_cases hdd : d' = d
    · subst hdd
      simpa using (hasDerivAt_id t).const_mul (k d')
    · simpa [Function.update_of_ne hdd, hdd] using hasDerivAt_const t (k d' * x d')
  have := HasDerivAt.fun_sum h
  simpa [sum_ite_eq', mem_range.mpr hd] using this

/-- one mode `a (z₁ cos φ + z₂ sin φ)` differentiated through its phase -/
theorem hasDerivAt_mode (a z1 z2 : ℝ) {φ : ℝ → ℝ} {φ' t : ℝ} (h : HasDerivAt φ φ' t) :
    HasDerivAt (fun s => a * (z1 * Real.cos (φ s) + z2 * Real.sin (φ s)))
      (a * (z2 * Real.cos (φ t) - z1 * Real.sin (φ t)) * φ') t := by
  have := ((h.cos.const_mul z1).add (h.sin.const_mul z2)).const_mul a
  convert this using 1
  ring

end GSV.Incompr
