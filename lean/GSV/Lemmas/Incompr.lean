/-
  Helper lemmas for C16 (incompressible vector fields): the generated kernel's accumulating loops as
  finite sums over ℝ, and the one-variable calculus of a single Fourier mode along a coordinate line.
-/
import GSV.Props.KernelSummate
import GSV.Lemmas.Sum
import GSV.RealInst
import Mathlib.Analysis.SpecialFunctions.Trigonometric.Deriv
import Mathlib.Algebra.BigOperators.Field
import Mathlib.Analysis.SpecialFunctions.Integrals.Basic
import Mathlib.MeasureTheory.Integral.Bochner.Basic
namespace GSV.Incompr
open GSV GSV.Props Finset

/-! ### the kernel's loops as sums -/

theorem phaseOf_real (k x : Nat → Nat → ℝ) (dim j i : Nat) :
    phaseOf k x dim j i = ∑ d ∈ range dim, k d j * x d i := by
  unfold phaseOf
  exact forRange_cast_zero_add_eq_sum dim (fun d => k d j * x d i)

theorem absSq_real (k : Nat → Nat → ℝ) (dim j : Nat) :
    absSq k dim j = ∑ d ∈ range dim, (k d j) ^ 2 := by
  unfold absSq
  exact forRange_cast_zero_add_eq_sum dim (fun d => (k d j) ^ 2)

theorem e1_real (d : Nat) : (e1 d : ℝ) = if d = 0 then 1 else 0 := by
  unfold e1; split <;> simp

theorem incomprCell_real (k : Nat → Nat → ℝ) (z1 z2 : Nat → ℝ) (x : Nat → Nat → ℝ) (c0 dim N d i : Nat) :
    incomprCell k z1 z2 x c0 dim N d i ((0:Nat):ℝ) =
      ∑ j ∈ range N, (e1 d - k d j * k 0 j / absSq k c0 j) *
        (z1 j * Real.cos (phaseOf k x dim j i) + z2 j * Real.sin (phaseOf k x dim j i)) := by
  unfold incomprCell
  exact forRange_cast_zero_add_eq_sum N _

theorem absSq_nonneg (k : Nat → Nat → ℝ) (dim j : Nat) : 0 ≤ absSq k dim j := by
  rw [absSq_real]; exact sum_nonneg fun d _ => sq_nonneg _

/-- `|k_j|² ≠ 0` iff some component of the wave vector is non-zero -/
theorem absSq_ne_zero_iff (k : Nat → Nat → ℝ) (dim j : Nat) :
    absSq k dim j ≠ 0 ↔ ∃ d < dim, k d j ≠ 0 := by
  rw [absSq_real, Ne, sum_eq_zero_iff_of_nonneg (fun d _ => sq_nonneg _)]
  simp

/-- `Σ_d e1_d f_d = f_0` as soon as the dimension is positive -/
theorem sum_e1_mul (f : Nat → ℝ) {dim : Nat} (h : 0 < dim) :
    ∑ d ∈ range dim, (e1 d : ℝ) * f d = f 0 := by
  rw [sum_eq_single 0]
  · simp [e1_real]
  · intro d _ hd; simp [e1_real, hd]
  · intro h0; exact absurd (mem_range.mpr h) h0

/-! ### one Fourier mode along a coordinate line -/

/-- the phase `⟨k, x⟩` as a function of coordinate `d` of `x` has derivative `k_d` -/
theorem hasDerivAt_phase (k : Nat → ℝ) (x : Nat → ℝ) {dim d : Nat} (hd : d < dim) (t : ℝ) :
    HasDerivAt (fun s => ∑ d' ∈ range dim, k d' * Function.update x d s d') (k d) t := by
  have h : ∀ d' ∈ range dim, HasDerivAt (fun s => k d' * Function.update x d s d')
      (if d' = d then k d else 0) t := by
    intro d' _
    by_cases hdd : d' = d
    · subst hdd
      simpa using (hasDerivAt_id t).const_mul (k d')
    · simpa [Function.update_of_ne hdd, hdd] using hasDerivAt_const t (k d' * x d')
  have := HasDerivAt.fun_sum h
  simpa [sum_ite_eq', mem_range.mpr hd] using this

/-- one mode `a (z₁ cos φ + z₂ sin φ)` differentiated through its phase -/
theorem hasDerivAt_mode (a z1 z2 : ℝ) {φ : ℝ → ℝ} {φ' t : ℝ} (h : HasDerivAt φ φ' t) :
    HasDerivAt (fun s => a * (z1 * Real.cos (φ s) + z2 * Real.sin (φ s)))
      (a * (z2 * Real.cos (φ t) - z1 * Real.sin (φ t)) * φ') t := by
  have := ((h.cos.const_mul z1).add (h.sin.const_mul z2)).const_mul a
  refine HasDerivAt.congr_deriv this ?_
  ring

/-! ### elementary integrals used by the variance split -/

open intervalIntegral in
/-- `∫_{-1}^{1} (c₀ + c₂ w² + c₄ w⁴) dw` -/
theorem integral_even_quartic (c0 c2 c4 : ℝ) :
    ∫ w in (-1:ℝ)..1, (c0 + c2 * w ^ 2 + c4 * w ^ 4) = 2 * c0 + 2 / 3 * c2 + 2 / 5 * c4 := by
  have h0 : IntervalIntegrable (fun _ : ℝ => c0) MeasureTheory.volume (-1) 1 := intervalIntegrable_const
  have h2 : IntervalIntegrable (fun w : ℝ => c2 * w ^ 2) MeasureTheory.volume (-1) 1 :=
    (by fun_prop : Continuous fun w : ℝ => c2 * w ^ 2).intervalIntegrable _ _
  have h4 : IntervalIntegrable (fun w : ℝ => c4 * w ^ 4) MeasureTheory.volume (-1) 1 :=
    (by fun_prop : Continuous fun w : ℝ => c4 * w ^ 4).intervalIntegrable _ _
  rw [integral_add (h0.add h2) h4, integral_add h0 h2, integral_const, integral_const_mul,
    integral_const_mul, integral_pow, integral_pow]
  norm_num
  ring

theorem integral_cos_sq_two_pi : ∫ a in (0:ℝ)..(2 * Real.pi), Real.cos a ^ 2 = Real.pi := by
  rw [integral_cos_sq]
  simp only [Real.sin_zero, Real.sin_two_pi, Real.cos_zero, Real.cos_two_pi]
  ring

theorem integral_cos_pow_four_two_pi : ∫ a in (0:ℝ)..(2 * Real.pi), Real.cos a ^ 4 = 3 * Real.pi / 4 := by
  rw [show (4:ℕ) = 2 + 2 from rfl, integral_cos_pow, integral_cos_sq]
  simp only [Real.sin_zero, Real.sin_two_pi, Real.cos_zero, Real.cos_two_pi]
  norm_num
  ring

theorem integral_sin_pow_four_two_pi : ∫ a in (0:ℝ)..(2 * Real.pi), Real.sin a ^ 4 = 3 * Real.pi / 4 := by
  rw [show (4:ℕ) = 2 + 2 from rfl, integral_sin_pow, integral_sin_sq]
  simp only [Real.sin_zero, Real.sin_two_pi, Real.cos_zero, Real.cos_two_pi]
  norm_num
  ring

theorem integral_sin_sq_mul_cos_sq_two_pi :
    ∫ a in (0:ℝ)..(2 * Real.pi), Real.sin a ^ 2 * Real.cos a ^ 2 = Real.pi / 4 := by
  rw [integral_sin_sq_mul_cos_sq]
  have : Real.sin (4 * (2 * Real.pi)) = 0 := by
    rw [show 4 * (2 * Real.pi) = ((8:ℕ):ℝ) * Real.pi by push_cast; ring]
    exact Real.sin_nat_mul_pi 8
  rw [this]
  simp
  ring

open intervalIntegral in
/-- `∫_0^{2π} (A + B cos² a + C cos⁴ a) da` -/
theorem integral_cos_quartic_two_pi (A B C : ℝ) :
    ∫ a in (0:ℝ)..(2 * Real.pi), (A + B * Real.cos a ^ 2 + C * Real.cos a ^ 4)
      = 2 * Real.pi * A + Real.pi * B + 3 * Real.pi / 4 * C := by
  have h0 : IntervalIntegrable (fun _ : ℝ => A) MeasureTheory.volume 0 (2 * Real.pi) := intervalIntegrable_const
  have h2 : IntervalIntegrable (fun a : ℝ => B * Real.cos a ^ 2) MeasureTheory.volume 0 (2 * Real.pi) :=
    (by fun_prop : Continuous fun a : ℝ => B * Real.cos a ^ 2).intervalIntegrable _ _
  have h4 : IntervalIntegrable (fun a : ℝ => C * Real.cos a ^ 4) MeasureTheory.volume 0 (2 * Real.pi) :=
    (by fun_prop : Continuous fun a : ℝ => C * Real.cos a ^ 4).intervalIntegrable _ _
  rw [integral_add (h0.add h2) h4, integral_add h0 h2, integral_const, integral_const_mul,
    integral_const_mul, integral_cos_sq_two_pi, integral_cos_pow_four_two_pi]
  simp
  ring

/-! ### second moment of a combination of orthonormal random variables -/

open MeasureTheory in
theorem integral_sq_sum_orthonormal {Ω : Type} [MeasurableSpace Ω] (μ : Measure Ω) (N : Nat)
    (a : Nat → ℝ) (ξ : Nat → Ω → ℝ)
    (hint : ∀ i < N, ∀ j < N, Integrable (fun ω => ξ i ω * ξ j ω) μ)
    (horth : ∀ i < N, ∀ j < N, ∫ ω, ξ i ω * ξ j ω ∂μ = if i = j then 1 else 0) :
    ∫ ω, (∑ j ∈ range N, a j * ξ j ω) ^ 2 ∂μ = ∑ j ∈ range N, a j ^ 2 := by
  have hsq : ∀ ω, (∑ j ∈ range N, a j * ξ j ω) ^ 2 =
      ∑ i ∈ range N, ∑ j ∈ range N, (a i * a j) * (ξ i ω * ξ j ω) := by
    intro ω
    rw [sq, sum_mul_sum]
    exact sum_congr rfl fun i _ => sum_congr rfl fun j _ => by ring
  simp only [hsq]
  rw [integral_finsetSum _ fun i hi => integrable_finsetSum _ fun j hj =>
    (hint i (mem_range.mp hi) j (mem_range.mp hj)).const_mul _]
  refine sum_congr rfl fun i hi => ?_
  rw [integral_finsetSum _ fun j hj => (hint i (mem_range.mp hi) j (mem_range.mp hj)).const_mul _]
  have : ∀ j ∈ range N, ∫ ω, a i * a j * (ξ i ω * ξ j ω) ∂μ = if i = j then a i * a j else 0 := by
    intro j hj
    rw [integral_const_mul, horth i (mem_range.mp hi) j (mem_range.mp hj)]
    split <;> simp
  rw [sum_congr rfl this, sum_ite_eq, if_pos hi, sq]

end GSV.Incompr
