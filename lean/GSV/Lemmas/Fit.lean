/-
  Helper lemmas for C10 (variogram fitting, `GSV/Model/Fit.lean`).

  Part 1 is law-free (any carrier `α` with the operations): every setter either fails or returns "the state
  with that one field replaced" that passes `check_arg_bounds`; one curve evaluation / `_post_fitting` end in
  a state given by a closed formula (`curveTarget` / `postTarget`).
  Part 2 is at `ℝ` (field laws): `var = var_raw * factor` round trips, the residual sum of squares.
-/
import GSV.RealInst
import GSV.Model.Fit
import Mathlib.Tactic.Ring
import Mathlib.Tactic.FieldSimp
import Mathlib.Tactic.Linarith
import Mathlib.Algebra.BigOperators.Group.List.Basic
namespace GSV.Lemmas.Fit
open GSV GSV.Model.Fit

/-! ## Part 1: law-free -/

section generic
variable {α : Type} [Arith α] [DecidableLT α] [DecidableLE α]

theorem bind_ok {ε β γ : Type} {x : Except ε β} {f : β → Except ε γ} {b : γ} :
    x.bind f = .ok b ↔ ∃ a, x = .ok a ∧ f a = .ok b := by
  cases x <;> simp [Except.bind]

theorem ite_ok {ε β : Type} {p : Prop} [Decidable p] {x : Except ε β} {s b : β} :
    (if p then x else .ok s) = .ok b ↔ (p ∧ x = .ok b) ∨ (¬p ∧ s = b) := by
  by_cases h : p <;> simp [h]

theorem chk_ok {c : Cfg α} {s s' : St α} : chk c s = .ok s' ↔ s' = s ∧ checkAll c s = true := by
  unfold chk
  by_cases h : checkAll c s = true
  · simp [h, eq_comm]
  · simp [h]

/-- `set_anis` + the lat-lon override of `set_len_anis` -/
def normAnis (c : Cfg α) (a : List α) : List α :=
  if c.latlon then forceOnes 2 (padAnis c.dim a) else padAnis c.dim a

theorem setNug_ok {c : Cfg α} {s s' : St α} {v : α} (h : setNug c s v = .ok s') :
    s' = { s with nug := v } ∧ checkAll c s' = true := by
  unfold setNug at h
  obtain ⟨h1, h2⟩ := chk_ok.mp h
  exact ⟨h1, h1 ▸ h2⟩

theorem setVar_ok {c : Cfg α} {s s' : St α} {v : α} (h : setVar c s v = .ok s') :
    s' = { s with varRaw := v / c.fac s.len s.opt } ∧ checkAll c s' = true := by
  unfold setVar at h
  obtain ⟨h1, h2⟩ := chk_ok.mp h
  exact ⟨h1, h1 ▸ h2⟩

theorem setOpt_ok {c : Cfg α} {s s' : St α} {i : Nat} {v : α} (h : setOpt c s i v = .ok s') :
    s' = { s with opt := s.opt.set i v } ∧ checkAll c s' = true := by
  unfold setOpt at h
  obtain ⟨h1, h2⟩ := chk_ok.mp h
  exact ⟨h1, h1 ▸ h2⟩

theorem setLenAnis_ok {c : Cfg α} {s s' : St α} {l : α} {a : List α} (h : setLenAnis c s l a = .ok s') :
    s' = { s with len := l, anis := normAnis c a } ∧ checkAll c s' = true := by
  unfold setLenAnis at h
  simp only at h
  split at h
  · obtain ⟨h1, h2⟩ := chk_ok.mp h
    exact ⟨h1, h1 ▸ h2⟩
  · cases h

theorem setLen_ok {c : Cfg α} {s s' : St α} {v : α} (h : setLen c s v = .ok s') :
    s' = { s with len := v, anis := normAnis c s.anis } ∧ checkAll c s' = true := setLenAnis_ok h

theorem setAnis_ok {c : Cfg α} {s s' : St α} {a : List α} (h : setAnis c s a = .ok s') :
    s' = { s with anis := normAnis c a } ∧ checkAll c s' = true := by
  obtain ⟨h1, h2⟩ := setLenAnis_ok h
  exact ⟨h1, h2⟩

/-! ### optional arguments -/

/-- the optional-argument list after the loop `for opt in model.opt_arg: if para[opt]: setattr(...)` -/
def installOpts : List α → List Bool → Nat → List α → List α
  | o, [], _, _ => o
  | o, false :: fs, i, as => installOpts o fs (i + 1) as
  | o, true :: fs, i, as => installOpts (o.set i (as.headD zero)) fs (i + 1) as.tail

theorem installOpts_length (o : List α) (fs : List Bool) (i : Nat) (as : List α) :
    (installOpts o fs i as).length = o.length := by
  induction fs generalizing o i as with
  | nil => rfl
  | cons f fs ih => cases f <;> simp [installOpts, ih]

/-- positions below the loop counter are not touched -/
theorem installOpts_get_lt (o : List α) (fs : List Bool) (i : Nat) (as : List α) (j : Nat) (hj : j < i) :
    (installOpts o fs i as)[j]? = o[j]? := by
  induction fs generalizing o i as with
  | nil => rfl
  | cons f fs ih =>
    cases f
    · simp only [installOpts]; exact ih o (i + 1) as (by omega)
    · simp only [installOpts]
      rw [ih _ (i + 1) _ (by omega), List.getElem?_set_ne (by omega)]

/-- an optional argument that is not fitted keeps its value -/
theorem installOpts_get_unfit (o : List α) (fs : List Bool) (i : Nat) (as : List α) (j : Nat)
    (hj : fs.getD (j - i) true = false ∨ j < i ∨ i + fs.length ≤ j) :
    (installOpts o fs i as)[j]? = o[j]? := by
  induction fs generalizing o i as with
  | nil => rfl
  | cons f fs ih =>
    by_cases hlt : j < i
    · exact installOpts_get_lt o _ i as j hlt
    · by_cases hji : j = i
      · subst hji
        rcases hj with h | h | h
        · simp only [Nat.sub_self, List.getD_cons_zero] at h
          subst h
          simp only [installOpts]
          exact installOpts_get_lt o fs (j + 1) as j (by omega)
        · omega
        · simp at h
      · have hgt : i + 1 ≤ j := by omega
        have hj' : fs.getD (j - (i + 1)) true = false ∨ j < i + 1 ∨ i + 1 + fs.length ≤ j := by
          rcases hj with h | h | h
          · left
            have : j - i = (j - (i + 1)) + 1 := by omega
            rw [this, List.getD_cons_succ] at h
            exact h
          · omega
          · right; right; simp at h; omega
        cases f
        · simp only [installOpts]; exact ih o (i + 1) as hj'
        · simp only [installOpts]
          rw [ih _ (i + 1) _ hj', List.getElem?_set_ne (by omega)]

theorem installOpts_set_comm (o : List α) (fs : List Bool) (i j : Nat) (as : List α) (v : α) (hij : i < j) :
    (installOpts o fs j as).set i v = installOpts (o.set i v) fs j as := by
  induction fs generalizing o j as with
  | nil => rfl
  | cons f fs ih =>
    cases f
    · simp only [installOpts]; exact ih o (j + 1) as (by omega)
    · simp only [installOpts]
      rw [ih _ (j + 1) _ (by omega), List.set_comm _ _ (by omega)]

/-- installing the same values twice is installing them once -/
theorem installOpts_idem (o : List α) (fs : List Bool) (i : Nat) (as : List α) :
    installOpts (installOpts o fs i as) fs i as = installOpts o fs i as := by
  induction fs generalizing o i as with
  | nil => rfl
  | cons f fs ih =>
    cases f
    · simp only [installOpts]; exact ih o (i + 1) as
    · simp only [installOpts]
      rw [installOpts_set_comm _ _ _ _ _ _ (by omega), List.set_set, ih]

theorem setOpts_ok {c : Cfg α} {s s' : St α} {fs : List Bool} {i : Nat} {as : List α}
    (h : setOpts c s fs i as = .ok s') :
    s' = { s with opt := installOpts s.opt fs i as } ∧ (checkAll c s = true → checkAll c s' = true) := by
  induction fs generalizing s i as with
  | nil =>
    simp only [setOpts, Except.ok.injEq] at h
    subst h; exact ⟨rfl, id⟩
  | cons f fs ih =>
    cases f
    · simp only [setOpts] at h
      simpa [installOpts] using ih h
    · simp only [setOpts] at h
      obtain ⟨s1, h1, h2⟩ := bind_ok.mp h
      obtain ⟨e1, c1⟩ := setOpt_ok h1
      obtain ⟨e2, c2⟩ := ih h2
      subst e1
      refine ⟨by simpa [installOpts] using e2, fun _ => c2 c1⟩

/-! ### one curve evaluation -/

/-- the nugget after the sill step of `curve`: `sill - var` when the sill is constrained -/
def tiedNug (sill : Option α) (v d : α) : α :=
  match sill with
  | some sl => sl - v
  | none => d

/-- the model state after a successful, non-punished call `curve(x, *args)` from state `s` -/
def curveTarget (c : Cfg α) (pa : Para) (sill : Option α) (anisFit dir : Bool) (varSave : α)
    (s : St α) (args : List α) : St α :=
  let len' := if pa.len then args.getD pa.iLen zero else s.len
  let opt' := installOpts s.opt pa.opt 0 (args.drop pa.iOpt)
  { varRaw := (if pa.var then args.getD 0 zero else varSave) / c.fac len' opt'
    len := len'
    nug := if pa.nug then args.getD pa.iNug zero
           else if pa.var then tiedNug sill (args.getD 0 zero) s.nug else s.nug
    anis := if (dir && anisFit) = true then normAnis c (lastAnis c args)
            else if pa.len then normAnis c s.anis else s.anis
    opt := opt' }

theorem ite_setNug_ok {c : Cfg α} {s s' : St α} {b : Bool} {v : α}
    (h : (if b = true then setNug c s v else .ok s) = .ok s') :
    s' = { s with nug := if b then v else s.nug } ∧ (checkAll c s = true → checkAll c s' = true) := by
  cases b
  · simp only [Bool.false_eq_true, ↓reduceIte, Except.ok.injEq] at h; subst h; exact ⟨rfl, id⟩
  · simp only [↓reduceIte] at h; exact ⟨by simpa using (setNug_ok h).1, fun _ => (setNug_ok h).2⟩

theorem ite_setLen_ok {c : Cfg α} {s s' : St α} {b : Bool} {v : α}
    (h : (if b = true then setLen c s v else .ok s) = .ok s') :
    s' = { s with len := if b then v else s.len, anis := if b then normAnis c s.anis else s.anis } ∧
      (checkAll c s = true → checkAll c s' = true) := by
  cases b
  · simp only [Bool.false_eq_true, ↓reduceIte, Except.ok.injEq] at h; subst h; exact ⟨rfl, id⟩
  · simp only [↓reduceIte] at h; exact ⟨by simpa using (setLen_ok h).1, fun _ => (setLen_ok h).2⟩

theorem ite_setAnis_ok {c : Cfg α} {s s' : St α} {b : Bool} {a : List α}
    (h : (if b = true then setAnis c s a else .ok s) = .ok s') :
    s' = { s with anis := if b then normAnis c a else s.anis } ∧
      (checkAll c s = true → checkAll c s' = true) := by
  cases b
  · simp only [Bool.false_eq_true, ↓reduceIte, Except.ok.injEq] at h; subst h; exact ⟨rfl, id⟩
  · simp only [↓reduceIte] at h; exact ⟨by simpa using (setAnis_ok h).1, fun _ => (setAnis_ok h).2⟩

theorem ite_setVar_ok {c : Cfg α} {s s' : St α} {b : Bool} {v : α}
    (h : (if b = true then setVar c s v else .ok s) = .ok s') :
    s' = { s with varRaw := if b then v / c.fac s.len s.opt else s.varRaw } ∧
      (checkAll c s = true → checkAll c s' = true) := by
  cases b
  · simp only [Bool.false_eq_true, ↓reduceIte, Except.ok.injEq] at h; subst h; exact ⟨rfl, id⟩
  · simp only [↓reduceIte] at h; exact ⟨by simpa using (setVar_ok h).1, fun _ => (setVar_ok h).2⟩

/-- the nugget tied to the sill: first step of `curve` -/
theorem sillNug_ok {c : Cfg α} {s s' : St α} {b : Bool} {sill : Option α} {v : α}
    (h : (if b = true then (match sill with | some sl => setNug c s (sl - v) | none => .ok s) else .ok s) = .ok s') :
    s' = { s with nug := if b then tiedNug sill v s.nug else s.nug } ∧
      (checkAll c s = true → checkAll c s' = true) := by
  cases b
  · simp only [Bool.false_eq_true, ↓reduceIte, Except.ok.injEq] at h; subst h; exact ⟨rfl, id⟩
  · cases sill with
    | none => simp only [↓reduceIte, Except.ok.injEq] at h; subst h; exact ⟨rfl, id⟩
    | some sl => simp only [↓reduceIte] at h; exact ⟨by simpa [tiedNug] using (setNug_ok h).1, fun _ => (setNug_ok h).2⟩

theorem curveState_ok {c : Cfg α} {pa : Para} {sill : Option α} {anisFit dir : Bool} {varSave : α}
    {s s' : St α} {args : List α}
    (h : curveState c pa sill anisFit dir varSave s args = .ok (some s')) :
    s' = curveTarget c pa sill anisFit dir varSave s args ∧ checkAll c s' = true ∧
      punished c pa sill args = false := by
  unfold curveState at h
  split at h
  · cases h
  · rename_i hp
    have hpun : punished c pa sill args = false := by simpa using hp
    clear hp
    obtain ⟨s1, h1, h'⟩ := bind_ok.mp h; clear h
    obtain ⟨s2, h2, h⟩ := bind_ok.mp h'; clear h'
    obtain ⟨s3, h3, h'⟩ := bind_ok.mp h; clear h
    obtain ⟨s4, h4, h⟩ := bind_ok.mp h'; clear h'
    obtain ⟨s5, h5, h'⟩ := bind_ok.mp h; clear h
    obtain ⟨s6, h6, h⟩ := bind_ok.mp h'; clear h'
    simp only [Except.ok.injEq, Option.some.injEq] at h
    subst h
    obtain ⟨e1, _⟩ := sillNug_ok h1
    obtain ⟨e2, _⟩ := ite_setLen_ok h2
    obtain ⟨e3, _⟩ := ite_setNug_ok h3
    obtain ⟨e4, _⟩ := setOpts_ok h4
    obtain ⟨e5, c5⟩ := setVar_ok h5
    obtain ⟨e6, c6⟩ := ite_setAnis_ok h6
    refine ⟨?_, c6 c5, hpun⟩
    clear h1 h2 h3 h4 h5 h6 c5 c6 hpun
    subst e1 e2 e3 e4 e5
    rw [e6]
    unfold curveTarget
    cases pa.var <;> cases pa.len <;> cases pa.nug <;> cases (dir && anisFit) <;> simp

/-- the scripted optimiser preserves every property that each successful curve evaluation preserves -/
theorem runScript_induct {c : Cfg α} {pa : Para} {sill : Option α} {anisFit dir : Bool} {varSave : α}
    {x : List α} (P : St α → Prop)
    (hstep : ∀ s a s', curveState c pa sill anisFit dir varSave s a = .ok (some s') → P s → P s')
    {s s1 : St α} {script : List (List α)} {outs : List (Option (List α))}
    (h : runScript c pa sill anisFit dir varSave x s script = .ok (s1, outs)) (hs : P s) : P s1 := by
  induction script generalizing s outs with
  | nil =>
    simp only [runScript, Except.ok.injEq, Prod.mk.injEq] at h
    exact h.1 ▸ hs
  | cons a rest ih =>
    simp only [runScript] at h
    obtain ⟨r, hr, h⟩ := bind_ok.mp h
    cases r with
    | none =>
      obtain ⟨⟨s', o⟩, h', h''⟩ := bind_ok.mp h
      simp only [Except.ok.injEq, Prod.mk.injEq] at h''
      obtain ⟨h1, h2⟩ := h''
      subst h1 h2
      exact ih h' hs
    | some s2 =>
      obtain ⟨⟨s', o⟩, h', h''⟩ := bind_ok.mp h
      simp only [Except.ok.injEq, Prod.mk.injEq] at h''
      obtain ⟨h1, h2⟩ := h''
      subst h1 h2
      exact ih h' (hstep _ _ _ hr hs)

/-- when the last script point is evaluated without punishment, the optimiser leaves the model in the
    state of that evaluation, and the recorded curve values are those of that state -/
theorem runScript_last {c : Cfg α} {pa : Para} {sill : Option α} {anisFit dir : Bool} {varSave : α}
    {x : List α} {s s1 : St α} {init : List (List α)} {p : List α} {outs : List (Option (List α))}
    (h : runScript c pa sill anisFit dir varSave x s (init ++ [p]) = .ok (s1, outs))
    (hp : punished c pa sill p = false) :
    ∃ sp, s1 = curveTarget c pa sill anisFit dir varSave sp p ∧ checkAll c s1 = true ∧
      outs.getLast? = some (some (curveOut c dir x s1)) := by
  induction init generalizing s outs with
  | nil =>
    simp only [List.nil_append, runScript] at h
    obtain ⟨r, hr, h⟩ := bind_ok.mp h
    cases r with
    | none =>
      unfold curveState at hr
      simp [hp] at hr
      obtain ⟨_, _, hr⟩ := bind_ok.mp hr
      obtain ⟨_, _, hr⟩ := bind_ok.mp hr
      obtain ⟨_, _, hr⟩ := bind_ok.mp hr
      obtain ⟨_, _, hr⟩ := bind_ok.mp hr
      obtain ⟨_, _, hr⟩ := bind_ok.mp hr
      obtain ⟨_, _, hr⟩ := bind_ok.mp hr
      cases hr
    | some s2 =>
      simp only [runScript, Except.bind, Except.ok.injEq, Prod.mk.injEq] at h
      obtain ⟨e, c2, _⟩ := curveState_ok hr
      obtain ⟨h1, h2⟩ := h
      subst h1 h2
      exact ⟨s, e, c2, by simp⟩
  | cons a rest ih =>
    simp only [List.cons_append, runScript] at h
    obtain ⟨r, _, h⟩ := bind_ok.mp h
    cases r with
    | none =>
      obtain ⟨⟨s', o⟩, h', h''⟩ := bind_ok.mp h
      simp only [Except.ok.injEq, Prod.mk.injEq] at h''
      obtain ⟨h1, h2⟩ := h''
      subst h1 h2
      obtain ⟨sp, e1, e2, e3⟩ := ih h'
      refine ⟨sp, e1, e2, ?_⟩
      cases o with
      | nil => simp at e3
      | cons b o => simpa [List.getLast?_cons_cons] using e3
    | some s2 =>
      obtain ⟨⟨s', o⟩, h', h''⟩ := bind_ok.mp h
      simp only [Except.ok.injEq, Prod.mk.injEq] at h''
      obtain ⟨h1, h2⟩ := h''
      subst h1 h2
      obtain ⟨sp, e1, e2, e3⟩ := ih h'
      refine ⟨sp, e1, e2, ?_⟩
      cases o with
      | nil => simp at e3
      | cons b o => simpa [List.getLast?_cons_cons] using e3

/-! ### anisotropy normalisation -/

omit [DecidableLT α] [DecidableLE α] in
theorem padAnis_length (d : Nat) (a : List α) : (padAnis d a).length = d - 1 := by
  simp only [padAnis, List.length_append, List.length_replicate, List.length_take]
  omega

omit [DecidableLT α] [DecidableLE α] in
theorem padAnis_of_length {d : Nat} {a : List α} (h : a.length = d - 1) : padAnis d a = a := by
  simp [padAnis, h, List.take_of_length_le]

omit [DecidableLT α] [DecidableLE α] in
theorem forceOnes_length (n : Nat) (l : List α) : (forceOnes n l).length = l.length := by
  induction n generalizing l with
  | zero => rfl
  | succ n ih => cases l <;> simp [forceOnes, ih]

omit [DecidableLT α] [DecidableLE α] in
theorem forceOnes_idem (n : Nat) (l : List α) : forceOnes n (forceOnes n l) = forceOnes n l := by
  induction n generalizing l with
  | zero => rfl
  | succ n ih => cases l <;> simp [forceOnes, ih]

omit [DecidableLT α] [DecidableLE α] in
theorem normAnis_length (c : Cfg α) (a : List α) : (normAnis c a).length = c.dim - 1 := by
  unfold normAnis
  split
  · rw [forceOnes_length, padAnis_length]
  · exact padAnis_length _ _

omit [DecidableLT α] [DecidableLE α] in
theorem normAnis_idem (c : Cfg α) (a : List α) : normAnis c (normAnis c a) = normAnis c a := by
  unfold normAnis
  split
  · rw [padAnis_of_length (by rw [forceOnes_length, padAnis_length]), forceOnes_idem]
  · rw [padAnis_of_length (padAnis_length _ _)]

/-- an anisotropy list in the form every setter leaves it in (`dim - 1` entries, ones for lat-lon) -/
def AnisWF (c : Cfg α) (a : List α) : Prop := normAnis c a = a

omit [DecidableLT α] [DecidableLE α] in
theorem anisWF_normAnis (c : Cfg α) (a : List α) : AnisWF c (normAnis c a) := normAnis_idem c a

/-! ### `_post_fitting` -/

theorem postOpts_ok {c : Cfg α} {s s' : St α} {fs : List Bool} {i : Nat} {as d : List α}
    (h : postOpts c s fs i as = .ok (s', d)) (hlen : i + fs.length ≤ s.opt.length) :
    s' = { s with opt := installOpts s.opt fs i as } ∧ (checkAll c s = true → checkAll c s' = true) ∧
      d = (s'.opt.drop i).take fs.length := by
  induction fs generalizing s i as d with
  | nil =>
    simp only [postOpts, Except.ok.injEq, Prod.mk.injEq] at h
    obtain ⟨h1, h2⟩ := h
    subst h1 h2
    exact ⟨rfl, id, by simp⟩
  | cons f fs ih =>
    have hi : i < s.opt.length := by simp at hlen; omega
    cases f
    · simp only [postOpts] at h
      obtain ⟨⟨s2, d2⟩, h1, h2⟩ := bind_ok.mp h
      simp only [Except.ok.injEq, Prod.mk.injEq] at h2
      obtain ⟨h2a, h2b⟩ := h2
      subst h2a h2b
      obtain ⟨e, ck, ed⟩ := ih h1 (by simp at hlen; omega)
      refine ⟨by simpa [installOpts] using e, ck, ?_⟩
      have hl : i < s2.opt.length := by rw [e]; simpa [installOpts_length] using hi
      have eo : s2.opt = installOpts s.opt fs (i + 1) as := by rw [e]
      have hq : s2.opt[i]? = s.opt[i]? := by rw [eo]; exact installOpts_get_lt s.opt fs (i + 1) as i (by omega)
      have hget : s2.opt[i] = s.opt[i] := by
        rw [List.getElem?_eq_getElem hl, List.getElem?_eq_getElem hi] at hq
        exact Option.some.inj hq
      rw [List.length_cons, List.drop_eq_getElem_cons hl, List.take_succ_cons, ← ed, hget]
      congr 1
      simp [List.getD_eq_getElem?_getD, List.getElem?_eq_getElem hi]
    · simp only [postOpts] at h
      obtain ⟨s1, h0, h⟩ := bind_ok.mp h
      obtain ⟨⟨s2, d2⟩, h1, h2⟩ := bind_ok.mp h
      simp only [Except.ok.injEq, Prod.mk.injEq] at h2
      obtain ⟨h2a, h2b⟩ := h2
      subst h2a h2b
      obtain ⟨e0, c0⟩ := setOpt_ok h0
      obtain ⟨e, ck, ed⟩ := ih h1 (by rw [e0]; simp at hlen ⊢; omega)
      subst e0
      refine ⟨by simpa [installOpts] using e, fun _ => ck c0, ?_⟩
      have hl : i < s2.opt.length := by rw [e]; simpa [installOpts_length] using hi
      have eo : s2.opt = installOpts (s.opt.set i (as.headD zero)) fs (i + 1) as.tail := by rw [e]
      have hq : s2.opt[i]? = (s.opt.set i (as.headD zero))[i]? := by
        rw [eo]; exact installOpts_get_lt _ fs (i + 1) as.tail i (by omega)
      have hget : s2.opt[i] = as.headD zero := by
        rw [List.getElem?_eq_getElem hl, List.getElem?_eq_getElem (by simpa using hi)] at hq
        simpa using Option.some.inj hq
      rw [List.length_cons, List.drop_eq_getElem_cons hl, List.take_succ_cons, ← ed, hget]

/-- the model state after a successful `_post_fitting(model, para, popt, …)` from state `s` -/
def postTarget (c : Cfg α) (pa : Para) (anisFit dir : Bool) (s : St α) (popt : List α) : St α :=
  let len' := if pa.len then popt.getD pa.iLen zero else s.len
  let opt' := installOpts s.opt pa.opt 0 (popt.drop pa.iOpt)
  { varRaw := if pa.var then popt.getD 0 zero / c.fac len' opt' else s.varRaw
    len := len'
    nug := if pa.nug then popt.getD pa.iNug zero else s.nug
    anis := if (dir && anisFit) = true then normAnis c (lastAnis c popt)
            else if pa.len then normAnis c s.anis else s.anis
    opt := opt' }

/-- the dictionary `_post_fitting` returns, in terms of the state before (`s`) and after (`s'`) -/
def postDict (c : Cfg α) (pa : Para) (dir : Bool) (s s' : St α) (popt : List α) : Dict α :=
  { var := if pa.var then popt.getD 0 zero else s.var c
    len := s'.len
    nug := s'.nug
    opt := s'.opt
    anis := if dir then some s'.anis else none }

theorem postFitting_ok {c : Cfg α} {pa : Para} {anisFit dir : Bool} {s s' : St α} {popt : List α} {d : Dict α}
    (h : postFitting c pa anisFit dir s popt = .ok (s', d)) (hlen : pa.opt.length = s.opt.length) :
    s' = postTarget c pa anisFit dir s popt ∧ d = postDict c pa dir s s' popt ∧
      (checkAll c s = true → checkAll c s' = true) := by
  unfold postFitting at h
  simp only at h
  obtain ⟨s1, h1, h'⟩ := bind_ok.mp h; clear h
  obtain ⟨s2, h2, h⟩ := bind_ok.mp h'; clear h'
  obtain ⟨⟨s3, dOpt⟩, h3, h'⟩ := bind_ok.mp h; clear h
  obtain ⟨s4, h4, h⟩ := bind_ok.mp h'; clear h'
  obtain ⟨s5, h5, h'⟩ := bind_ok.mp h; clear h
  simp only [Except.ok.injEq, Prod.mk.injEq] at h'
  obtain ⟨hs, hd⟩ := h'
  subst hs
  obtain ⟨e1, c1⟩ := ite_setLen_ok h1
  obtain ⟨e2, c2⟩ := ite_setNug_ok h2
  obtain ⟨e3, c3, ed⟩ := postOpts_ok h3 (by rw [e2, e1]; simp [hlen])
  obtain ⟨e4, c4⟩ := ite_setAnis_ok h4
  obtain ⟨e5, c5⟩ := ite_setVar_ok h5
  have hopt : dOpt = s3.opt := by
    rw [ed, hlen, List.drop_zero]
    have : s3.opt.length = s.opt.length := by rw [e3, e2, e1]; simp [installOpts_length]
    rw [← this, List.take_length]
  refine ⟨?_, ?_, fun h0 => c5 (c4 (c3 (c2 (c1 h0))))⟩
  · clear h1 h2 h3 h4 h5 c1 c2 c3 c4 c5 ed hopt hd
    subst e1 e2 e3 e4
    rw [e5]
    unfold postTarget
    cases pa.var <;> cases pa.len <;> cases pa.nug <;> cases (dir && anisFit) <;> simp
  · rw [← hd, hopt]
    clear h1 h2 h3 h4 h5 c1 c2 c3 c4 c5 ed hopt hd
    subst e1 e2 e3 e4
    rw [e5]
    unfold postDict
    cases pa.var <;> cases pa.len <;> cases pa.nug <;> cases hd : (dir && anisFit) <;> cases dir <;> simp_all

/-- **fixpoint**: `_post_fitting` at `popt` does not move a model that is in the state of the curve
    evaluation at `popt` (up to `var_raw`, which needs `v / f * f = v`: see part 2) -/
theorem postTarget_curveTarget (c : Cfg α) (pa : Para) (sill : Option α) (anisFit dir : Bool) (varSave : α)
    (sp : St α) (p : List α) (hnug : sill.isSome = true → pa.nug = false) :
    let s1 := curveTarget c pa sill anisFit dir varSave sp p
    let s2 := postTarget c pa anisFit dir s1 p
    s2.len = s1.len ∧ s2.nug = s1.nug ∧ s2.opt = s1.opt ∧ s2.anis = s1.anis ∧
      (pa.var = true → s2.varRaw = s1.varRaw) ∧ (pa.var = false → s2.varRaw = s1.varRaw) := by
  simp only [curveTarget, postTarget, installOpts_idem, normAnis_idem]
  refine ⟨?_, ?_, trivial, ?_, ?_, ?_⟩
  · cases pa.len <;> simp
  · cases pa.nug <;> simp
  · cases (dir && anisFit) <;> cases pa.len <;> simp [normAnis_idem]
  · intro hv; simp [hv]; cases pa.len <;> simp
  · intro hv; simp [hv]

/-! ### `_pre_para` -/

theorem foldl_desel_var (des : List Par) (p : Para) :
    (des.foldl Para.desel p).var = (p.var && !des.contains .var) := by
  induction des generalizing p with
  | nil => simp
  | cons a des ih =>
    rw [List.foldl_cons, ih]
    cases a <;> simp [Para.desel, List.contains_cons] <;> cases p.var <;> simp

theorem foldl_desel_len (des : List Par) (p : Para) :
    (des.foldl Para.desel p).len = (p.len && !des.contains .len) := by
  induction des generalizing p with
  | nil => simp
  | cons a des ih =>
    rw [List.foldl_cons, ih]
    cases a <;> simp [Para.desel, List.contains_cons] <;> cases p.len <;> simp

theorem foldl_desel_nug (des : List Par) (p : Para) :
    (des.foldl Para.desel p).nug = (p.nug && !des.contains .nug) := by
  induction des generalizing p with
  | nil => simp
  | cons a des ih =>
    rw [List.foldl_cons, ih]
    cases a <;> simp [Para.desel, List.contains_cons] <;> cases p.nug <;> simp

theorem foldl_desel_opt_length (des : List Par) (p : Para) :
    (des.foldl Para.desel p).opt.length = p.opt.length := by
  induction des generalizing p with
  | nil => simp
  | cons a des ih =>
    rw [List.foldl_cons, ih]
    cases a <;> simp [Para.desel]

theorem foldl_desel_opt (des : List Par) (p : Para) (i : Nat) (h : des.contains (.opt i) = true) :
    (des.foldl Para.desel p).opt.getD i true = false ∨ p.opt.length ≤ i := by
  induction des generalizing p with
  | nil => simp at h
  | cons a des ih =>
    rw [List.foldl_cons]
    by_cases hi : i < p.opt.length
    · left
      by_cases hd : des.contains (.opt i) = true
      · rcases ih (Para.desel p a) hd with h1 | h1
        · exact h1
        · have : (Para.desel p a).opt.length = p.opt.length := by cases a <;> simp [Para.desel]
          omega
      · -- `a` is the entry; later entries keep a `false`
        have ha : a = .opt i := by
          simp only [List.contains_cons, Bool.or_eq_true, beq_iff_eq] at h
          rcases h with h | h
          · exact h.symm
          · exact absurd h hd
        subst ha
        have key : ∀ (des : List Par) (q : Para), q.opt.getD i true = false →
            (des.foldl Para.desel q).opt.getD i true = false := by
          intro des
          induction des with
          | nil => intro q hq; exact hq
          | cons b des ihd =>
            intro q hq
            rw [List.foldl_cons]
            apply ihd
            cases b with
            | opt j =>
              simp only [Para.desel]
              by_cases hj : j = i
              · subst hj
                by_cases hjl : j < q.opt.length
                · simp [List.getD_eq_getElem?_getD, List.getElem?_set_self hjl]
                · rw [List.set_eq_of_length_le (by omega)]; exact hq
              · simp only [List.getD_eq_getElem?_getD] at hq ⊢
                rw [List.getElem?_set_ne hj]; exact hq
            | _ => simpa [Para.desel] using hq
        apply key
        simp [Para.desel, List.getD_eq_getElem?_getD, List.getElem?_set_self hi]
    · right; omega

/-- frame of the setters used by `_pre_para`'s first loop -/
theorem setPar_frame {c : Cfg α} {s s' : St α} {p : Par} {v : α} (h : setPar c s p v = .ok s') :
    checkAll c s' = true ∧ s'.opt.length = s.opt.length := by
  cases p with
  | var => obtain ⟨e, ck⟩ := setVar_ok h; exact ⟨ck, by rw [e]⟩
  | len => obtain ⟨e, ck⟩ := setLen_ok h; exact ⟨ck, by rw [e]⟩
  | nug => obtain ⟨e, ck⟩ := setNug_ok h; exact ⟨ck, by rw [e]⟩
  | opt i => obtain ⟨e, ck⟩ := setOpt_ok h; exact ⟨ck, by rw [e]; simp⟩
  | unknown => cases h

theorem preLoop_frame {c : Cfg α} {s s' : St α} {vl vl' : Option α} {sel : List (Par × Sel α)}
    (h : preLoop c s vl sel = .ok (s', vl')) :
    (checkAll c s = true → checkAll c s' = true) ∧ s'.opt.length = s.opt.length := by
  induction sel generalizing s vl with
  | nil =>
    simp only [preLoop, Except.ok.injEq, Prod.mk.injEq] at h
    obtain ⟨h1, _⟩ := h; subst h1; exact ⟨id, rfl⟩
  | cons a rest ih =>
    obtain ⟨p, sl⟩ := a
    simp only [preLoop] at h
    split at h
    · cases sl with
      | flag b => exact ih h
      | fix v =>
        cases p with
        | var => exact ih h
        | len =>
          simp only at h
          obtain ⟨s1, h1, h2⟩ := bind_ok.mp h
          obtain ⟨c1, l1⟩ := setPar_frame h1
          obtain ⟨c2, l2⟩ := ih h2
          exact ⟨fun _ => c2 c1, by rw [l2, l1]⟩
        | nug =>
          simp only at h
          obtain ⟨s1, h1, h2⟩ := bind_ok.mp h
          obtain ⟨c1, l1⟩ := setPar_frame h1
          obtain ⟨c2, l2⟩ := ih h2
          exact ⟨fun _ => c2 c1, by rw [l2, l1]⟩
        | opt i =>
          simp only at h
          obtain ⟨s1, h1, h2⟩ := bind_ok.mp h
          obtain ⟨c1, l1⟩ := setPar_frame h1
          obtain ⟨c2, l2⟩ := ih h2
          exact ⟨fun _ => c2 c1, by rw [l2, l1]⟩
        | unknown =>
          simp only at h
          obtain ⟨s1, h1, h2⟩ := bind_ok.mp h
          cases h1
    · cases h

/-- the sill step: what it deselects and what it leaves alone -/
theorem preSill_frame {c : Cfg α} {s s' : St α} {des des' : List Par} {sl : α}
    (h : preSill c s des sl = .ok (s', des')) :
    (checkAll c s = true → checkAll c s' = true) ∧ s'.opt = s.opt ∧ s'.len = s.len ∧ s'.anis = s.anis ∧
      des'.contains .nug = true ∧ (∀ p, des.contains p = true → des'.contains p = true) := by
  unfold preSill at h
  split at h
  · split at h
    · rename_i hb
      simp only [Bool.and_eq_true] at hb
      split at h
      · split at h
        · obtain ⟨s1, h1, h⟩ := bind_ok.mp h
          obtain ⟨s2, h2, h⟩ := bind_ok.mp h
          simp only [Except.ok.injEq, Prod.mk.injEq] at h
          obtain ⟨ha, hb'⟩ := h; subst ha hb'
          obtain ⟨e1, c1⟩ := setNug_ok h1
          obtain ⟨e2, c2⟩ := setVar_ok h2
          subst e1
          exact ⟨fun _ => c2, by rw [e2], by rw [e2], by rw [e2], hb.2, fun _ hp => hp⟩
        · cases h
      · obtain ⟨s1, h1, h⟩ := bind_ok.mp h
        simp only [Except.ok.injEq, Prod.mk.injEq] at h
        obtain ⟨ha, hb'⟩ := h; subst ha hb'
        obtain ⟨e1, c1⟩ := setNug_ok h1
        exact ⟨fun _ => c1, by rw [e1], by rw [e1], by rw [e1], hb.2, fun _ hp => hp⟩
    · split at h
      · split at h
        · cases h
        · obtain ⟨s1, h1, h⟩ := bind_ok.mp h
          simp only [Except.ok.injEq, Prod.mk.injEq] at h
          obtain ⟨ha, hb'⟩ := h; subst ha hb'
          obtain ⟨e1, c1⟩ := setNug_ok h1
          exact ⟨fun _ => c1, by rw [e1], by rw [e1], by rw [e1], by simp,
            fun p hp => by simp only [List.contains_eq_mem, decide_eq_true_eq] at hp; simp [hp]⟩
      · split at h
        · split at h
          · cases h
          · obtain ⟨s1, h1, h⟩ := bind_ok.mp h
            simp only [Except.ok.injEq, Prod.mk.injEq] at h
            obtain ⟨ha, hb'⟩ := h; subst ha hb'
            obtain ⟨e1, c1⟩ := setVar_ok h1
            rename_i hn _
            refine ⟨fun _ => c1, by rw [e1], by rw [e1], by rw [e1], ?_,
              fun p hp => by simp only [List.contains_eq_mem, decide_eq_true_eq] at hp; simp [hp]⟩
            simp only [List.contains_eq_mem, decide_eq_true_eq] at hn
            simp [hn]
        · simp only [Except.ok.injEq, Prod.mk.injEq] at h
          obtain ⟨ha, hb'⟩ := h; subst ha hb'
          exact ⟨id, rfl, rfl, rfl, by simp,
            fun p hp => by simp only [List.contains_eq_mem, decide_eq_true_eq] at hp; simp [hp]⟩
  · cases h

/-- is the parameter fitted? -/
def paraGet (pa : Para) : Par → Bool
  | .var => pa.var
  | .len => pa.len
  | .nug => pa.nug
  | .opt i => pa.opt.getD i true
  | .unknown => true

theorem preLoop_valid {c : Cfg α} {s s' : St α} {vl vl' : Option α} {sel : List (Par × Sel α)}
    (h : preLoop c s vl sel = .ok (s', vl')) : ∀ ps ∈ sel, validPar s ps.1 = true := by
  induction sel generalizing s vl with
  | nil => intro ps hps; cases hps
  | cons a rest ih =>
    obtain ⟨p, sl⟩ := a
    simp only [preLoop] at h
    split at h
    · rename_i hv
      have hrest : ∃ s1 vl1, preLoop c s1 vl1 rest = .ok (s', vl') ∧ s1.opt.length = s.opt.length := by
        cases sl with
        | flag b => exact ⟨s, vl, h, rfl⟩
        | fix v =>
          cases p with
          | var => exact ⟨s, some v, h, rfl⟩
          | len =>
            simp only at h
            obtain ⟨s1, h1, h2⟩ := bind_ok.mp h
            exact ⟨s1, vl, h2, (setPar_frame h1).2⟩
          | nug =>
            simp only at h
            obtain ⟨s1, h1, h2⟩ := bind_ok.mp h
            exact ⟨s1, vl, h2, (setPar_frame h1).2⟩
          | opt i =>
            simp only at h
            obtain ⟨s1, h1, h2⟩ := bind_ok.mp h
            exact ⟨s1, vl, h2, (setPar_frame h1).2⟩
          | unknown =>
            simp only at h
            obtain ⟨s1, h1, h2⟩ := bind_ok.mp h
            cases h1
      obtain ⟨s1, vl1, hr, hl⟩ := hrest
      intro ps hps
      rcases List.mem_cons.mp hps with h0 | h0
      · subst h0; exact hv
      · have := ih hr ps h0
        cases hp : ps.1 <;> simp_all [validPar]
    · cases h

/-- **`_pre_para`, summary**: bounds are respected, the `para` flags line up with the optional arguments,
    a constrained sill always deselects the nugget, and everything the caller deselected or fixed is
    deselected -/
theorem prePara_ok {c : Cfg α} {s0 : St α} {sel : List (Par × Sel α)} {sill : SillArg α} {anis : AnisArg α}
    {pre : Pre α} (h : prePara c s0 sel sill anis = .ok pre) :
    (checkAll c s0 = true → checkAll c pre.st = true) ∧
    pre.para.opt.length = pre.st.opt.length ∧
    (pre.sill.isSome = true → pre.para.nug = false) ∧
    (∀ p, (deselected sel).contains p = true → paraGet pre.para p = false) := by
  unfold prePara at h
  obtain ⟨⟨s1, vl⟩, h1, h'⟩ := bind_ok.mp h; clear h
  obtain ⟨s2, h2, h⟩ := bind_ok.mp h'; clear h'
  simp only at h
  obtain ⟨⟨s3, des'⟩, h3, h'⟩ := bind_ok.mp h; clear h
  simp only at h'
  obtain ⟨c1, l1⟩ := preLoop_frame h1
  have hvalid := preLoop_valid h1
  have c2 : checkAll c s1 = true → checkAll c s2 = true := by
    cases vl with
    | none => simp only [Except.ok.injEq] at h2; subst h2; exact id
    | some v => exact fun _ => (setVar_ok h2).2
  have l2 : s2.opt = s1.opt := by
    cases vl with
    | none => simp only [Except.ok.injEq] at h2; subst h2; rfl
    | some v => rw [(setVar_ok h2).1]
  -- the sill step
  have h3' : (checkAll c s2 = true → checkAll c s3 = true) ∧ s3.opt = s2.opt ∧
      (∀ p, (deselected sel).contains p = true → des'.contains p = true) ∧
      ((sillValue sill (s2.var c + s2.nug)).isSome = true →
        des'.contains .nug = true) := by
    cases sill with
    | none =>
      simp only [sillValue, Except.ok.injEq, Prod.mk.injEq] at h3
      obtain ⟨ha, hb⟩ := h3; subst ha hb
      exact ⟨id, rfl, fun _ hp => hp, by simp [sillValue]⟩
    | current =>
      simp only [sillValue] at h3
      obtain ⟨f1, f2, _, _, f5, f6⟩ := preSill_frame h3
      exact ⟨f1, f2, f6, fun _ => f5⟩
    | value v =>
      simp only [sillValue] at h3
      obtain ⟨f1, f2, _, _, f5, f6⟩ := preSill_frame h3
      exact ⟨f1, f2, f6, fun _ => f5⟩
  obtain ⟨c3, l3, hdes, hnug⟩ := h3'
  have hfinal : ∀ (s4 : St α) (b : Bool), s4.opt = s3.opt → (checkAll c s3 = true → checkAll c s4 = true) →
      pre = { st := s4, para := des'.foldl Para.desel { var := true, len := true, nug := true, opt := s3.opt.map fun _ => true },
              sill := (sillValue sill (s2.var c + s2.nug)),
              anisFit := b } →
      (checkAll c s0 = true → checkAll c pre.st = true) ∧
      pre.para.opt.length = pre.st.opt.length ∧
      (pre.sill.isSome = true → pre.para.nug = false) ∧
      (∀ p, (deselected sel).contains p = true → paraGet pre.para p = false) := by
    intro s4 b l4 c4 hpre
    subst hpre
    refine ⟨fun h0 => c4 (c3 (c2 (c1 h0))), ?_, ?_, ?_⟩
    · simp [foldl_desel_opt_length, l4]
    · intro hs
      simp only
      rw [foldl_desel_nug, hnug hs]; rfl
    · intro p hp
      have hd := hdes p hp
      cases p with
      | var => simp only [paraGet]; rw [foldl_desel_var, hd]; rfl
      | len => simp only [paraGet]; rw [foldl_desel_len, hd]; rfl
      | nug => simp only [paraGet]; rw [foldl_desel_nug, hd]; rfl
      | opt i =>
        simp only [paraGet]
        rcases foldl_desel_opt des' { var := true, len := true, nug := true, opt := s3.opt.map fun _ => true } i hd with h | h
        · exact h
        · exfalso
          -- the name was validated by the first loop
          have hmem : ∃ ps ∈ sel, ps.1 = Par.opt i := by
            simp only [deselected, List.contains_eq_mem, decide_eq_true_eq, List.mem_filterMap] at hp
            obtain ⟨ps, hps, hq⟩ := hp
            refine ⟨ps, hps, ?_⟩
            split at hq
            · cases hq
            · exact Option.some.inj hq
          obtain ⟨ps, hps, hq⟩ := hmem
          have hv := hvalid ps hps
          rw [hq] at hv
          simp only [validPar, decide_eq_true_eq] at hv
          simp only [List.length_map] at h
          rw [l3, l2, l1] at h
          omega
      | unknown =>
        exfalso
        have hmem : ∃ ps ∈ sel, ps.1 = Par.unknown := by
          simp only [deselected, List.contains_eq_mem, decide_eq_true_eq, List.mem_filterMap] at hp
          obtain ⟨ps, hps, hq⟩ := hp
          refine ⟨ps, hps, ?_⟩
          split at hq
          · cases hq
          · exact Option.some.inj hq
        obtain ⟨ps, hps, hq⟩ := hmem
        have hv := hvalid ps hps
        rw [hq] at hv
        simp [validPar] at hv
  cases anis with
  | flag b =>
    simp only [Except.ok.injEq] at h'
    exact hfinal s3 b rfl id h'.symm
  | fix a =>
    simp only at h'
    obtain ⟨s4, h4, h5⟩ := bind_ok.mp h'
    simp only [Except.ok.injEq] at h5
    obtain ⟨e4, c4⟩ := setAnis_ok h4
    exact hfinal s4 false (by rw [e4]) (fun _ => c4) h5.symm

/-- **decomposition of a successful `fit_variogram`** (with or without the final evaluation at `popt`) into its
    phases; `s1` = state after the optimiser's evaluations, `s1'` = state `_post_fitting` starts from -/
theorem fitCore_ok {ev : Bool} {c : Cfg α} {s0 : St α} {sel : List (Par × Sel α)} {sill : SillArg α}
    {anis : AnisArg α} {ig : IG α} {w : Weights α} {methodOk : Bool} {x y : List α} {script : List (List α)}
    {popt : List α} {r : Result α}
    (h : fitCore ev c s0 sel sill anis ig w methodOk x y script popt = .ok r) :
    ∃ pre dir s1 outs s1',
      prePara c s0 sel sill anis = .ok pre ∧ methodOk = true ∧ checkVario c x.length y.length = .ok dir ∧
      runScript c pre.para pre.sill (pre.anisFit && dir) dir (pre.st.var c) (if dir then tile c.dim x else x)
        pre.st script = .ok (s1, outs) ∧
      (if ev then ∃ o2, runScript c pre.para pre.sill (pre.anisFit && dir) dir (pre.st.var c)
          (if dir then tile c.dim x else x) s1 [popt] = .ok (s1', o2) else s1' = s1) ∧
      postFitting c pre.para (pre.anisFit && dir) dir s1' popt = .ok (r.st, r.dict) ∧
      r.para = pre.para ∧ r.sill = pre.sill ∧ r.dir = dir ∧ r.anisFit = (pre.anisFit && dir) ∧ r.outs = outs ∧
      r.xdata = (if dir then tile c.dim x else x) ∧
      r.r2 = r2Score c dir (if dir then tile c.dim x else x) y r.st := by
  unfold fitCore at h
  obtain ⟨pre, h1, h'⟩ := bind_ok.mp h; clear h
  split at h'
  · cases h'
  · rename_i hm
    obtain ⟨dir, h2, h⟩ := bind_ok.mp h'; clear h'
    simp only at h
    obtain ⟨g, h3, h'⟩ := bind_ok.mp h; clear h
    obtain ⟨⟨s1, outs⟩, h4, h⟩ := bind_ok.mp h'; clear h'
    simp only at h
    obtain ⟨⟨s1', o2⟩, h5, h'⟩ := bind_ok.mp h; clear h
    simp only at h'
    obtain ⟨⟨s2, d⟩, h6, h⟩ := bind_ok.mp h'; clear h'
    simp only [Except.ok.injEq] at h
    subst h
    refine ⟨pre, dir, s1, outs, s1', h1, by simpa using hm, h2, h4, ?_, h6, rfl, rfl, rfl, rfl, rfl, rfl, rfl⟩
    cases ev
    · simp only [Bool.false_eq_true, ↓reduceIte, Except.ok.injEq, Prod.mk.injEq] at h5 ⊢
      exact h5.1.symm
    · simp only [↓reduceIte] at h5 ⊢
      split at h5
      · cases h5
      · exact ⟨o2, h5⟩

/-- the scripted optimiser run on `a ++ b` is the run on `a` followed by the run on `b` -/
theorem runScript_append {c : Cfg α} {pa : Para} {sill : Option α} {anisFit dir : Bool} {varSave : α}
    {x : List α} {s s1 : St α} {a b : List (List α)} {outs : List (Option (List α))}
    (h : runScript c pa sill anisFit dir varSave x s (a ++ b) = .ok (s1, outs)) :
    ∃ sm o1 o2, runScript c pa sill anisFit dir varSave x s a = .ok (sm, o1) ∧
      runScript c pa sill anisFit dir varSave x sm b = .ok (s1, o2) ∧ outs = o1 ++ o2 := by
  induction a generalizing s outs with
  | nil => exact ⟨s, [], outs, rfl, h, rfl⟩
  | cons p rest ih =>
    simp only [List.cons_append, runScript] at h
    obtain ⟨r, hr, h⟩ := bind_ok.mp h
    cases r with
    | none =>
      obtain ⟨⟨s', o⟩, h', h''⟩ := bind_ok.mp h
      simp only [Except.ok.injEq, Prod.mk.injEq] at h''
      obtain ⟨h1, h2⟩ := h''
      subst h1 h2
      obtain ⟨sm, o1, o2, r1, r2, r3⟩ := ih h'
      refine ⟨sm, none :: o1, o2, ?_, r2, by simp [r3]⟩
      simp only [runScript, hr, Except.bind, r1]
    | some s2 =>
      obtain ⟨⟨s', o⟩, h', h''⟩ := bind_ok.mp h
      simp only [Except.ok.injEq, Prod.mk.injEq] at h''
      obtain ⟨h1, h2⟩ := h''
      subst h1 h2
      obtain ⟨sm, o1, o2, r1, r2, r3⟩ := ih h'
      refine ⟨sm, some (curveOut c dir x s2) :: o1, o2, ?_, r2, by simp [r3]⟩
      simp only [runScript, hr, Except.bind, r1]

/-- a single, non-punished evaluation -/
theorem runScript_single {c : Cfg α} {pa : Para} {sill : Option α} {anisFit dir : Bool} {varSave : α}
    {x : List α} {s s1 : St α} {p : List α} {outs : List (Option (List α))}
    (h : runScript c pa sill anisFit dir varSave x s [p] = .ok (s1, outs))
    (hp : punished c pa sill p = false) :
    s1 = curveTarget c pa sill anisFit dir varSave s p ∧ checkAll c s1 = true ∧
      outs = [some (curveOut c dir x s1)] := by
  obtain ⟨sp, e1, e2, e3⟩ := runScript_last (init := []) h hp
  simp only [runScript] at h
  obtain ⟨r, hr, h⟩ := bind_ok.mp h
  cases r with
  | none =>
    exfalso
    unfold curveState at hr
    simp only [hp, Bool.false_eq_true, ↓reduceIte] at hr
    obtain ⟨_, _, hr⟩ := bind_ok.mp hr
    obtain ⟨_, _, hr⟩ := bind_ok.mp hr
    obtain ⟨_, _, hr⟩ := bind_ok.mp hr
    obtain ⟨_, _, hr⟩ := bind_ok.mp hr
    obtain ⟨_, _, hr⟩ := bind_ok.mp hr
    obtain ⟨_, _, hr⟩ := bind_ok.mp hr
    cases hr
  | some s2 =>
    simp only [runScript, Except.bind, Except.ok.injEq, Prod.mk.injEq] at h
    obtain ⟨h1, h2⟩ := h
    subst h1 h2
    obtain ⟨e, ck, _⟩ := curveState_ok hr
    exact ⟨e, ck, rfl⟩

/-- a single evaluation: either the punishment branch (model untouched) or the arguments get installed -/
theorem runScript_single' {c : Cfg α} {pa : Para} {sill : Option α} {anisFit dir : Bool} {varSave : α}
    {x : List α} {s s1 : St α} {p : List α} {outs : List (Option (List α))}
    (h : runScript c pa sill anisFit dir varSave x s [p] = .ok (s1, outs)) :
    (punished c pa sill p = true ∧ s1 = s) ∨
    (punished c pa sill p = false ∧ s1 = curveTarget c pa sill anisFit dir varSave s p ∧ checkAll c s1 = true) := by
  cases hp : punished c pa sill p
  · right
    obtain ⟨e, ck, _⟩ := runScript_single h hp
    exact ⟨rfl, e, ck⟩
  · left
    refine ⟨rfl, ?_⟩
    simp only [runScript] at h
    obtain ⟨r, hr, h⟩ := bind_ok.mp h
    unfold curveState at hr
    simp only [hp, ↓reduceIte, Except.ok.injEq] at hr
    subst hr
    simp only [Except.bind, Except.ok.injEq, Prod.mk.injEq] at h
    exact h.1.symm

/-- the punishment branch needs a fitted variance and a constrained sill -/
theorem punished_false_of_var {c : Cfg α} {pa : Para} {sill : Option α} {p : List α} (h : pa.var = false) :
    punished c pa sill p = false := by
  simp [punished, h]

theorem punished_false_of_sill {c : Cfg α} {pa : Para} {p : List α} : punished c pa none p = false := by
  simp [punished]

/-- `_post_fitting` at `popt` leaves a model that is in the state of the curve evaluation at `popt` there -/
theorem postTarget_fix (c : Cfg α) (pa : Para) (sill : Option α) (anisFit dir : Bool) (varSave : α)
    (sp : St α) (p : List α) :
    postTarget c pa anisFit dir (curveTarget c pa sill anisFit dir varSave sp p) p =
      curveTarget c pa sill anisFit dir varSave sp p := by
  simp only [curveTarget, postTarget, installOpts_idem, normAnis_idem]
  cases pa.var <;> cases pa.len <;> cases pa.nug <;> cases (dir && anisFit) <;> simp [normAnis_idem]

end generic

/-! ## Part 2: at `ℝ` -/

section real

@[simp] theorem zero_real : (zero : ℝ) = 0 := Nat.cast_zero
@[simp] theorem one_real : (one : ℝ) = 1 := Nat.cast_one

theorem var_div_mul {v f : ℝ} (hf : f ≠ 0) : v / f * f = v := div_mul_cancel₀ v hf

theorem foldl_add_eq (l : List ℝ) (a : ℝ) : l.foldl (· + ·) a = a + l.sum := by
  induction l generalizing a with
  | nil => simp
  | cons x l ih => simp [ih, add_assoc]

theorem sumL_eq (l : List ℝ) : sumL l = l.sum := by
  unfold sumL; rw [foldl_add_eq]; simp

theorem ssRes_self (y : List ℝ) : ssRes y y = 0 := by
  unfold ssRes
  rw [sumL_eq]
  apply List.sum_eq_zero
  intro a ha
  simp only [List.mem_map] at ha
  obtain ⟨p, hp, rfl⟩ := ha
  have : p.1 = p.2 := by
    have := List.of_mem_zip hp
    induction y with
    | nil => simp at hp
    | cons b y ih =>
      simp only [List.zip_cons_cons, List.mem_cons] at hp
      rcases hp with h | h
      · rw [h]
      · exact ih h (List.of_mem_zip h)
  rw [this]; ring

/-- on data produced by the curve itself the r2 score is 1 -/
theorem r2_self (c : Cfg ℝ) (dir : Bool) (x : List ℝ) (s : St ℝ) :
    r2Score c dir x (curveOut c dir x s) s = 1 := by
  unfold r2Score
  rw [ssRes_self]
  simp

/-- the sill step of `_pre_para` leaves `var + nugget = sill` whenever the variance is not fitted afterwards -/
theorem preSill_sum {c : Cfg ℝ} {s s' : St ℝ} {des des' : List Par} {sl : ℝ} (hf : ∀ l o, c.fac l o ≠ 0)
    (h : preSill c s des sl = .ok (s', des')) (hv : des'.contains .var = true) :
    s'.var c + s'.nug = sl := by
  unfold preSill at h
  split at h
  · split at h
    · split at h
      · split at h
        · obtain ⟨s1, h1, h⟩ := bind_ok.mp h
          obtain ⟨s2, h2, h⟩ := bind_ok.mp h
          simp only [Except.ok.injEq, Prod.mk.injEq] at h
          obtain ⟨ha, hb'⟩ := h; subst ha hb'
          obtain ⟨e1, _⟩ := setNug_ok h1
          obtain ⟨e2, _⟩ := setVar_ok h2
          subst e1
          rw [e2]
          simp only [St.var]
          rw [var_div_mul (hf _ _)]; ring
        · cases h
      · obtain ⟨s1, h1, h⟩ := bind_ok.mp h
        simp only [Except.ok.injEq, Prod.mk.injEq] at h
        obtain ⟨ha, hb'⟩ := h; subst ha hb'
        obtain ⟨e1, _⟩ := setNug_ok h1
        rw [e1]; simp only [St.var]; ring
    · split at h
      · split at h
        · cases h
        · obtain ⟨s1, h1, h⟩ := bind_ok.mp h
          simp only [Except.ok.injEq, Prod.mk.injEq] at h
          obtain ⟨ha, hb'⟩ := h; subst ha hb'
          obtain ⟨e1, _⟩ := setNug_ok h1
          rw [e1]; simp only [St.var]; ring
      · split at h
        · split at h
          · cases h
          · obtain ⟨s1, h1, h⟩ := bind_ok.mp h
            simp only [Except.ok.injEq, Prod.mk.injEq] at h
            obtain ⟨ha, hb'⟩ := h; subst ha hb'
            obtain ⟨e1, _⟩ := setVar_ok h1
            rw [e1]; simp only [St.var]
            rw [var_div_mul (hf _ _)]; ring
        · exfalso
          rename_i h1 h2 h3
          simp only [Except.ok.injEq, Prod.mk.injEq] at h
          obtain ⟨ha, hb'⟩ := h; subst ha hb'
          simp only [List.contains_eq_mem, decide_eq_true_eq, List.mem_append, List.mem_singleton,
            reduceCtorEq, or_false] at hv
          simp only [List.contains_eq_mem, decide_eq_true_eq] at h2
          exact h2 hv
  · cases h

/-- after `_pre_para`: a constrained sill with the variance not fitted means `var + nugget = sill` already -/
theorem prePara_sill_sum {c : Cfg ℝ} {s0 : St ℝ} {sel : List (Par × Sel ℝ)} {sill : SillArg ℝ}
    {anis : AnisArg ℝ} {pre : Pre ℝ} {sl : ℝ} (hf : ∀ l o, c.fac l o ≠ 0)
    (h : prePara c s0 sel sill anis = .ok pre) (hs : pre.sill = some sl) (hv : pre.para.var = false) :
    pre.st.var c + pre.st.nug = sl := by
  unfold prePara at h
  obtain ⟨⟨s1, vl⟩, h1, h'⟩ := bind_ok.mp h; clear h
  obtain ⟨s2, h2, h⟩ := bind_ok.mp h'; clear h'
  simp only at h
  obtain ⟨⟨s3, des'⟩, h3, h'⟩ := bind_ok.mp h; clear h
  simp only at h'
  have key : ∀ (s4 : St ℝ) (b : Bool), s4.var c = s3.var c → s4.nug = s3.nug →
      pre = { st := s4, para := des'.foldl Para.desel { var := true, len := true, nug := true, opt := s3.opt.map fun _ => true },
              sill := sillValue sill (s2.var c + s2.nug), anisFit := b } →
      pre.st.var c + pre.st.nug = sl := by
    intro s4 b e1 e2 hpre
    subst hpre
    simp only at hs hv ⊢
    rw [e1, e2]
    rw [hs] at h3
    simp only at h3
    apply preSill_sum hf h3
    rw [foldl_desel_var] at hv
    simpa using hv
  cases anis with
  | flag b =>
    simp only [Except.ok.injEq] at h'
    exact key s3 b rfl rfl h'.symm
  | fix a =>
    simp only at h'
    obtain ⟨s4, h4, h5⟩ := bind_ok.mp h'
    simp only [Except.ok.injEq] at h5
    obtain ⟨e4, _⟩ := setAnis_ok h4
    exact key s4 false (by rw [e4]; rfl) (by rw [e4]) h5.symm

end real

end GSV.Lemmas.Fit
