/-
  Positive semi-definite kernels and functions: the closure toolkit behind C02.

  `IsPSDKernel K` : every finite matrix `[K (x i) (x j)]` is `Matrix.PosSemidef` (Mathlib), for point
  families of every size.  `IsPSDFun ρ := IsPSDKernel fun x y => ρ (x - y)` (stationary case).
  Closure under: pull-back along any map, non-negative scaling, sums, products (Schur), pointwise limits,
  entrywise `exp`; basic examples (rank one, Gram, Kronecker delta, cosine); consequences (symmetry,
  non-negative diagonal, Cauchy–Schwarz for the 2×2 minor).
-/
import Mathlib.LinearAlgebra.Matrix.PosDef
import Mathlib.Analysis.Matrix.Order
import Mathlib.Analysis.InnerProductSpace.GramMatrix
import Mathlib.Analysis.SpecialFunctions.Exponential
import Mathlib.Analysis.SpecialFunctions.Trigonometric.Basic
import Mathlib.Topology.Algebra.Order.LiminfLimsup
import Mathlib.MeasureTheory.Integral.Bochner.Basic

namespace GSV.Lemmas.Psd
open Matrix

/-- `K` is a positive semi-definite kernel on `X`: all its finite matrices are PSD. -/
def IsPSDKernel {X : Type*} (K : X → X → ℝ) : Prop :=
  ∀ (n : ℕ) (x : Fin n → X), (Matrix.of fun i j => K (x i) (x j)).PosSemidef

/-- `ρ` is a positive semi-definite (stationary covariance) function: `[ρ (x i - x j)]` is PSD for every
    finite family of points. -/
def IsPSDFun {E : Type*} [Sub E] (ρ : E → ℝ) : Prop := IsPSDKernel fun x y => ρ (x - y)

section kernel
variable {X Y : Type*} {K L : X → X → ℝ}

/-- quadratic-form characterisation -/
theorem isPSDKernel_iff :
    IsPSDKernel K ↔ (∀ a b, K a b = K b a) ∧
      ∀ (n : ℕ) (x : Fin n → X) (c : Fin n → ℝ), 0 ≤ ∑ i, ∑ j, c i * K (x i) (x j) * c j := by
  constructor
  · intro h
    refine ⟨fun a b => ?_, fun n x c => ?_⟩
    · have := (h 2 ![a, b]).isHermitian
      have h01 := congrFun (congrFun this 0) 1
      simpa using h01.symm
    · have := (h n x).dotProduct_mulVec_nonneg c
      simpa [dotProduct, mulVec, Finset.mul_sum, mul_assoc] using this
  · rintro ⟨hs, hq⟩ n x
    refine PosSemidef.of_dotProduct_mulVec_nonneg ?_ fun c => ?_
    · ext i j; simp [hs (x j) (x i)]
    · have := hq n x c
      simpa [dotProduct, mulVec, Finset.mul_sum, mul_assoc] using this

theorem IsPSDKernel.symm (h : IsPSDKernel K) (a b : X) : K a b = K b a := (isPSDKernel_iff.1 h).1 a b

theorem IsPSDKernel.quad_nonneg (h : IsPSDKernel K) {n : ℕ} (x : Fin n → X) (c : Fin n → ℝ) :
    0 ≤ ∑ i, ∑ j, c i * K (x i) (x j) * c j := (isPSDKernel_iff.1 h).2 n x c

/-- matrices over any finite index type -/
theorem IsPSDKernel.posSemidef (h : IsPSDKernel K) {ι : Type*} [Finite ι] (x : ι → X) :
    (Matrix.of fun i j => K (x i) (x j)).PosSemidef := by
  obtain ⟨n, ⟨e⟩⟩ := Finite.exists_equiv_fin ι
  have := (h n (x ∘ e.symm)).submatrix e
  convert this using 1
  ext i j; simp

/-- pull-back along an arbitrary map (re-indexing of the points) -/
theorem IsPSDKernel.comp (h : IsPSDKernel K) (f : Y → X) : IsPSDKernel fun a b => K (f a) (f b) :=
  fun n x => h n (f ∘ x)

theorem IsPSDKernel.zero : IsPSDKernel fun (_ _ : X) => (0 : ℝ) := fun n x => by
  convert PosSemidef.zero (n := Fin n) (R := ℝ) using 1
  ext i j; simp

theorem IsPSDKernel.smul (h : IsPSDKernel K) {c : ℝ} (hc : 0 ≤ c) : IsPSDKernel fun a b => c * K a b :=
  fun n x => by
    convert (h n x).smul hc using 1
    ext i j; simp

theorem IsPSDKernel.add (h : IsPSDKernel K) (h' : IsPSDKernel L) : IsPSDKernel fun a b => K a b + L a b :=
  fun n x => by
    convert (h n x).add (h' n x) using 1
    ext i j; simp

theorem IsPSDKernel.sum {ι : Type*} (s : Finset ι) {F : ι → X → X → ℝ} (h : ∀ i ∈ s, IsPSDKernel (F i)) :
    IsPSDKernel fun a b => ∑ i ∈ s, F i a b := by
  classical
  induction s using Finset.induction_on with
  | empty => simpa using IsPSDKernel.zero
  | insert i s hi ih =>
    have h1 := h i (Finset.mem_insert_self i s)
    have h2 := ih fun j hj => h j (Finset.mem_insert_of_mem hj)
    simpa [Finset.sum_insert hi] using h1.add h2

/-- Schur product theorem for kernels -/
theorem IsPSDKernel.mul (h : IsPSDKernel K) (h' : IsPSDKernel L) : IsPSDKernel fun a b => K a b * L a b :=
  fun n x => by
    have H := PosSemidef.hadamard (𝕜 := ℝ) (h n x) (h' n x)
    have e : (Matrix.of fun i j => K (x i) (x j) * L (x i) (x j))
        = (Matrix.of fun i j => K (x i) (x j)) ⊙ (Matrix.of fun i j => L (x i) (x j)) := by
      ext i j; simp [hadamard_apply]
    show (Matrix.of fun i j => K (x i) (x j) * L (x i) (x j)).PosSemidef
    rw [e]; exact H

theorem IsPSDKernel.one : IsPSDKernel fun (_ _ : X) => (1 : ℝ) := fun n x => by
  convert posSemidef_vecMulVec_self_star (fun _ : Fin n => (1 : ℝ)) using 1
  ext i j; simp [vecMulVec_apply]

theorem IsPSDKernel.pow (h : IsPSDKernel K) (k : ℕ) : IsPSDKernel fun a b => K a b ^ k := by
  induction k with
  | zero => simpa using IsPSDKernel.one
  | succ k ih => simpa [pow_succ] using ih.mul h

/-- rank-one kernels -/
theorem IsPSDKernel.of_feature (φ : X → ℝ) : IsPSDKernel fun a b => φ a * φ b := fun n x => by
  convert posSemidef_vecMulVec_self_star (fun i : Fin n => φ (x i)) using 1
  ext i j; simp [vecMulVec_apply]

/-- conjugation by a diagonal: `φ a · K a b · φ b` -/
theorem IsPSDKernel.conj (h : IsPSDKernel K) (φ : X → ℝ) : IsPSDKernel fun a b => φ a * K a b * φ b := by
  have := (IsPSDKernel.of_feature φ).mul h
  convert this using 3
  ring

/-- Gram kernels -/
theorem IsPSDKernel.inner {E : Type*} [SeminormedAddCommGroup E] [InnerProductSpace ℝ E] :
    IsPSDKernel fun a b : E => (inner ℝ a b : ℝ) := fun n x => by
  exact posSemidef_gram (𝕜 := ℝ) x

/-- pointwise limits of PSD kernels are PSD -/
theorem IsPSDKernel.of_tendsto {F : ℕ → X → X → ℝ} (h : ∀ m, IsPSDKernel (F m))
    (hl : ∀ a b, Filter.Tendsto (fun m => F m a b) Filter.atTop (nhds (K a b))) : IsPSDKernel K := by
  rw [isPSDKernel_iff]
  refine ⟨fun a b => ?_, fun n x c => ?_⟩
  · refine tendsto_nhds_unique (hl a b) ?_
    simpa [fun m => (h m).symm b a] using hl b a
  · refine ge_of_tendsto' (x := Filter.atTop) (f := fun m => ∑ i, ∑ j, c i * F m (x i) (x j) * c j) ?_
      fun m => (h m).quad_nonneg x c
    refine tendsto_finsetSum _ fun i _ => tendsto_finsetSum _ fun j _ => ?_
    exact ((hl (x i) (x j)).const_mul (c i)).mul_const (c j)

/-- entrywise exponential of a PSD kernel is PSD (power series + Schur products + limit) -/
theorem IsPSDKernel.exp (h : IsPSDKernel K) : IsPSDKernel fun a b => Real.exp (K a b) := by
  refine IsPSDKernel.of_tendsto
    (F := fun m a b => ∑ k ∈ Finset.range m, (1 / (k.factorial : ℝ)) * K a b ^ k) (fun m => ?_) fun a b => ?_
  · exact IsPSDKernel.sum _ fun k _ => (h.pow k).smul (by positivity)
  · have := (NormedSpace.expSeries_div_hasSum_exp (K a b)).tendsto_sum_nat
    rw [← Real.exp_eq_exp_ℝ] at this
    simpa [div_eq_inv_mul] using this

/-- 2×2 minor: Cauchy–Schwarz -/
theorem IsPSDKernel.diag_nonneg (h : IsPSDKernel K) (a : X) : 0 ≤ K a a := by
  have := (h 1 ![a]).diag_nonneg (i := 0)
  simpa using this

theorem IsPSDKernel.sq_le (h : IsPSDKernel K) (a b : X) : K a b ^ 2 ≤ K a a * K b b := by
  have hs := h.symm a b
  have haa := h.diag_nonneg a
  have hbb := h.diag_nonneg b
  have q := fun (s t : ℝ) => h.quad_nonneg ![a, b] ![s, t]
  simp only [Fin.sum_univ_two, Matrix.cons_val_zero, Matrix.cons_val_one] at q
  by_cases hb : K b b = 0
  · -- then K a b = 0
    have h1 := q (K a b) (-(K a a + 1))
    rw [hb]
    have : K a b = 0 := by
      by_contra hne
      have hpos : 0 < K a b ^ 2 := by positivity
      rw [← hs, hb] at h1
      nlinarith
    simp [this]
  · have hbpos : 0 < K b b := lt_of_le_of_ne hbb (Ne.symm hb)
    have h1 := q (K b b) (-(K a b))
    rw [← hs] at h1
    have : 0 ≤ K b b * (K a a * K b b - K a b ^ 2) := by nlinarith
    have := nonneg_of_mul_nonneg_right this hbpos
    linarith

theorem IsPSDKernel.abs_le (h : IsPSDKernel K) (a b : X) : |K a b| ≤ Real.sqrt (K a a * K b b) :=
  Real.abs_le_sqrt (h.sq_le a b)

/-- Kronecker delta (the nugget kernel) -/
theorem IsPSDKernel.delta [DecidableEq X] : IsPSDKernel fun a b : X => if a = b then (1 : ℝ) else 0 := by
  intro n x
  have : (Matrix.of fun i j => if x i = x j then (1 : ℝ) else 0)
      = ∑ e ∈ Finset.univ.image x, vecMulVec (fun i => if x i = e then (1 : ℝ) else 0)
          (star fun i => if x i = e then (1 : ℝ) else 0) := by
    ext i j
    simp only [of_apply, Matrix.sum_apply, vecMulVec_apply, star_trivial]
    rw [Finset.sum_eq_single (x i)]
    · by_cases hij : x i = x j
      · simp [hij]
      · simp [hij, Ne.symm hij]
    · intro e _ he; simp [Ne.symm he]
    · intro hni; exact absurd (Finset.mem_image_of_mem x (Finset.mem_univ i)) hni
  rw [this]
  exact posSemidef_sum _ fun e _ => posSemidef_vecMulVec_self_star _

/-- cosine of a difference of "phases": `cos (ω a − ω b) = cos ω a · cos ω b + sin ω a · sin ω b` -/
theorem IsPSDKernel.cos_sub (ω : X → ℝ) : IsPSDKernel fun a b => Real.cos (ω a - ω b) := by
  have := (IsPSDKernel.of_feature fun a => Real.cos (ω a)).add (IsPSDKernel.of_feature fun a => Real.sin (ω a))
  convert this using 3 with a b
  exact Real.cos_sub _ _

open MeasureTheory in
/-- **Mixtures**: an integral of PSD kernels against a (positive) measure is PSD. -/
theorem IsPSDKernel.integral {T : Type*} [MeasurableSpace T] (μ : Measure T) {F : T → X → X → ℝ}
    (hF : ∀ᵐ t ∂μ, IsPSDKernel (F t)) (hint : ∀ a b, Integrable (fun t => F t a b) μ) :
    IsPSDKernel fun a b => ∫ t, F t a b ∂μ := by
  rw [isPSDKernel_iff]
  refine ⟨fun a b => ?_, fun n x c => ?_⟩
  · refine integral_congr_ae ?_
    filter_upwards [hF] with t ht using ht.symm a b
  · have e : ∑ i, ∑ j, c i * (∫ t, F t (x i) (x j) ∂μ) * c j
        = ∫ t, ∑ i, ∑ j, c i * F t (x i) (x j) * c j ∂μ := by
      rw [integral_finsetSum _ fun i _ => integrable_finsetSum _ fun j _ =>
        ((hint (x i) (x j)).const_mul (c i)).mul_const (c j)]
      refine Finset.sum_congr rfl fun i _ => ?_
      rw [integral_finsetSum _ fun j _ => ((hint (x i) (x j)).const_mul (c i)).mul_const (c j)]
      refine Finset.sum_congr rfl fun j _ => ?_
      rw [integral_mul_const, integral_const_mul]
    rw [e]
    refine integral_nonneg_of_ae ?_
    filter_upwards [hF] with t ht using ht.quad_nonneg x c

end kernel

end GSV.Lemmas.Psd
