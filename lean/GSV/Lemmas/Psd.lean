/-
  Positive semi-definite kernels and functions: the closure toolkit behind C02.

  `IsPSDKernel K` : every finite matrix `[K (x i) (x j)]` is `Matrix.PosSemidef` (Mathlib), for point
  families of every size.  `IsPSDFun ρ := IsPSDKernel fun x y => ρ (x - y)` (stationary case).
  Closure under: pull-back along any map, non-negative scaling, sums, products (Schur), pointwise limits,
  entrywise `exp`; basic examples (rank one, Gram, Kronecker delta, cosine); consequences (symmetry,
  non-negative diagonal, Cauchy–Schwarz for the 2×2 minor).
-/
import Mathlib.LinearAlgebra.Matrix.PosDef
import Mathlib.Analysis.Matrix.Order
import Mathlib.Analysis.InnerProductSpace.GramMatrix
import Mathlib.Analysis.SpecialFunctions.Exponential
import Mathlib.Analysis.SpecialFunctions.Trigonometric.Basic
import Mathlib.Topology.Algebra.Order.LiminfLimsup
import Mathlib.MeasureTheory.Integral.Bochner.Basic
import Mathlib.MeasureTheory.Integral.IntegralEqImproper
import Mathlib.Analysis.SpecialFunctions.ImproperIntegrals
import Mathlib.Analysis.SpecialFunctions.Integrability.Basic

namespace GSV.Lemmas.Psd
open Matrix

/-- `K` is a positive semi-definite kernel on `X`: all its finite matrices are PSD. -/
def IsPSDKernel {X : Type*} (K : X → X → ℝ) : Prop :=
  ∀ (n : ℕ) (x : Fin n → X), (Matrix.of fun i j => K (x i) (x j)).PosSemidef

/-- `ρ` is a positive semi-definite (stationary covariance) function: `[ρ (x i - x j)]` is PSD for every
    finite family of points. -/
def IsPSDFun {E : Type*} [Sub E] (ρ : E → ℝ) : Prop := IsPSDKernel fun x y => ρ (x - y)

section kernel
variable {X Y : Type*} {K L : X → X → ℝ}

/-- quadratic-form characterisation -/
theorem isPSDKernel_iff :
    IsPSDKernel K ↔ (∀ a b, K a b = K b a) ∧
      ∀ (n : ℕ) (x : Fin n → X) (c : Fin n → ℝ), 0 ≤ ∑ i, ∑ j, c i * K (x i) (x j) * c j := by
  constructor
  · intro h
    refine ⟨fun a b => ?_, fun n x c => ?_⟩
    · have := (h 2 ![a, b]).isHermitian
      have h01 := congrFun (congrFun this 0) 1
      simpa using h01.symm
    · have := (h n x).dotProduct_mulVec_nonneg c
      simpa [dotProduct, mulVec, Finset.mul_sum, mul_assoc] using this
  · rintro ⟨hs, hq⟩ n x
    refine PosSemidef.of_dotProduct_mulVec_nonneg ?_ fun c => ?_
    · ext i j; simp [hs (x j) (x i)]
    · have := hq n x c
      simpa [dotProduct, mulVec, Finset.mul_sum, mul_assoc] using this

theorem IsPSDKernel.symm (h : IsPSDKernel K) (a b : X) : K a b = K b a := (isPSDKernel_iff.1 h).1 a b

theorem IsPSDKernel.quad_nonneg (h : IsPSDKernel K) {n : ℕ} (x : Fin n → X) (c : Fin n → ℝ) :
    0 ≤ ∑ i, ∑ j, c i * K (x i) (x j) * c j := (isPSDKernel_iff.1 h).2 n x c

/-- matrices over any finite index type -/
theorem IsPSDKernel.posSemidef (h : IsPSDKernel K) {ι : Type*} [Finite ι] (x : ι → X) :
    (Matrix.of fun i j => K (x i) (x j)).PosSemidef := by
  obtain ⟨n, ⟨e⟩⟩ := Finite.exists_equiv_fin ι
  have := (h n (x ∘ e.symm)).submatrix e
  convert this using 1
  ext i j; simp

/-- pull-back along an arbitrary map (re-indexing of the points) -/
theorem IsPSDKernel.comp (h : IsPSDKernel K) (f : Y → X) : IsPSDKernel fun a b => K (f a) (f b) :=
  fun n x => h n (f ∘ x)

theorem IsPSDKernel.zero : IsPSDKernel fun (_ _ : X) => (0 : ℝ) := fun n x => by
  convert PosSemidef.zero (n := Fin n) (R := ℝ) using 1
  ext i j; simp

theorem IsPSDKernel.smul (h : IsPSDKernel K) {c : ℝ} (hc : 0 ≤ c) : IsPSDKernel fun a b => c * K a b :=
  fun n x => by
    convert (h n x).smul hc using 1
    ext i j; simp

theorem IsPSDKernel.add (h : IsPSDKernel K) (h' : IsPSDKernel L) : IsPSDKernel fun a b => K a b + L a b :=
  fun n x => by
    convert (h n x).add (h' n x) using 1
    ext i j; simp

theorem IsPSDKernel.sum {ι : Type*} (s : Finset ι) {F : ι → X → X → ℝ} (h : ∀ i ∈ s, IsPSDKernel (F i)) :
    IsPSDKernel fun a b => ∑ i ∈ s, F i a b := by
  classical
  induction s using Finset.induction_on with
  | empty => simpa using IsPSDKernel.zero
  | insert i s hi ih =>
    have h1 := h i (Finset.mem_insert_self i s)
    have h2 := ih fun j hj => h j (Finset.mem_insert_of_mem hj)
    simpa [Finset.sum_insert hi] using h1.add h2

/-- Schur product theorem for kernels -/
theorem IsPSDKernel.mul (h : IsPSDKernel K) (h' : IsPSDKernel L) : IsPSDKernel fun a b => K a b * L a b :=
  fun n x => by
    have H := PosSemidef.hadamard (𝕜 := ℝ) (h n x) (h' n x)
    have e : (Matrix.of fun i j => K (x i) (x j) * L (x i) (x j))
        = (Matrix.of fun i j => K (x i) (x j)) ⊙ (Matrix.of fun i j => L (x i) (x j)) := by
      ext i j; simp [hadamard_apply]
    show (Matrix.of fun i j => K (x i) (x j) * L (x i) (x j)).PosSemidef
    rw [e]; exact H

theorem IsPSDKernel.one : IsPSDKernel fun (_ _ : X) => (1 : ℝ) := fun n x => by
  convert posSemidef_vecMulVec_self_star (fun _ : Fin n => (1 : ℝ)) using 1
  ext i j; simp [vecMulVec_apply]

theorem IsPSDKernel.pow (h : IsPSDKernel K) (k : ℕ) : IsPSDKernel fun a b => K a b ^ k := by
  induction k with
  | zero => simpa using IsPSDKernel.one
  | succ k ih => simpa [pow_succ] using ih.mul h

/-- rank-one kernels -/
theorem IsPSDKernel.of_feature (φ : X → ℝ) : IsPSDKernel fun a b => φ a * φ b := fun n x => by
  convert posSemidef_vecMulVec_self_star (fun i : Fin n => φ (x i)) using 1
  ext i j; simp [vecMulVec_apply]

/-- conjugation by a diagonal: `φ a · K a b · φ b` -/
theorem IsPSDKernel.conj (h : IsPSDKernel K) (φ : X → ℝ) : IsPSDKernel fun a b => φ a * K a b * φ b := by
  have := (IsPSDKernel.of_feature φ).mul h
  convert this using 3
  ring

/-- Gram kernels -/
theorem IsPSDKernel.inner {E : Type*} [SeminormedAddCommGroup E] [InnerProductSpace ℝ E] :
    IsPSDKernel fun a b : E => (inner ℝ a b : ℝ) := fun n x => by
  exact posSemidef_gram (𝕜 := ℝ) x

/-- pointwise limits of PSD kernels are PSD -/
theorem IsPSDKernel.of_tendsto {F : ℕ → X → X → ℝ} (h : ∀ m, IsPSDKernel (F m))
    (hl : ∀ a b, Filter.Tendsto (fun m => F m a b) Filter.atTop (nhds (K a b))) : IsPSDKernel K := by
  rw [isPSDKernel_iff]
  refine ⟨fun a b => ?_, fun n x c => ?_⟩
  · refine tendsto_nhds_unique (hl a b) ?_
    simpa [fun m => (h m).symm b a] using hl b a
  · refine ge_of_tendsto' (x := Filter.atTop) (f := fun m => ∑ i, ∑ j, c i * F m (x i) (x j) * c j) ?_
      fun m => (h m).quad_nonneg x c
    refine tendsto_finsetSum _ fun i _ => tendsto_finsetSum _ fun j _ => ?_
    exact ((hl (x i) (x j)).const_mul (c i)).mul_const (c j)

/-- entrywise exponential of a PSD kernel is PSD (power series + Schur products + limit) -/
theorem IsPSDKernel.exp (h : IsPSDKernel K) : IsPSDKernel fun a b => Real.exp (K a b) := by
  refine IsPSDKernel.of_tendsto
    (F := fun m a b => ∑ k ∈ Finset.range m, (1 / (k.factorial : ℝ)) * K a b ^ k) (fun m => ?_) fun a b => ?_
  · exact IsPSDKernel.sum _ fun k _ => (h.pow k).smul (by positivity)
  · have := (NormedSpace.expSeries_div_hasSum_exp (K a b)).tendsto_sum_nat
    rw [← Real.exp_eq_exp_ℝ] at this
    simpa [div_eq_inv_mul] using this

/-- 2×2 minor: Cauchy–Schwarz -/
theorem IsPSDKernel.diag_nonneg (h : IsPSDKernel K) (a : X) : 0 ≤ K a a := by
  have := (h 1 ![a]).diag_nonneg (i := 0)
  simpa using this

theorem IsPSDKernel.sq_le (h : IsPSDKernel K) (a b : X) : K a b ^ 2 ≤ K a a * K b b := by
  have hs := h.symm a b
  have haa := h.diag_nonneg a
  have hbb := h.diag_nonneg b
  have q := fun (s t : ℝ) => h.quad_nonneg ![a, b] ![s, t]
  simp only [Fin.sum_univ_two, Matrix.cons_val_zero, Matrix.cons_val_one] at q
  by_cases hb : K b b = 0
  · -- then K a b = 0
    have h1 := q (K a b) (-(K a a + 1))
    rw [hb]
    have : K a b = 0 := by
      by_contra hne
      have hpos : 0 < K a b ^ 2 := by positivity
      rw [← hs, hb] at h1
      nlinarith
    simp [this]
  · have hbpos : 0 < K b b := lt_of_le_of_ne hbb (Ne.symm hb)
    have h1 := q (K b b) (-(K a b))
    rw [← hs] at h1
    have : 0 ≤ K b b * (K a a * K b b - K a b ^ 2) := by nlinarith
    have := nonneg_of_mul_nonneg_right this hbpos
    linarith

theorem IsPSDKernel.abs_le (h : IsPSDKernel K) (a b : X) : |K a b| ≤ Real.sqrt (K a a * K b b) :=
  Real.abs_le_sqrt (h.sq_le a b)

/-- Kronecker delta (the nugget kernel) -/
theorem IsPSDKernel.delta [DecidableEq X] : IsPSDKernel fun a b : X => if a = b then (1 : ℝ) else 0 := by
  intro n x
  have : (Matrix.of fun i j => if x i = x j then (1 : ℝ) else 0)
      = ∑ e ∈ Finset.univ.image x, vecMulVec (fun i => if x i = e then (1 : ℝ) else 0)
          (star fun i => if x i = e then (1 : ℝ) else 0) := by
    ext i j
    simp only [of_apply, Matrix.sum_apply, vecMulVec_apply, star_trivial]
    rw [Finset.sum_eq_single (x i)]
    · by_cases hij : x i = x j
      · simp [hij]
      · simp [hij, Ne.symm hij]
    · intro e _ he; simp [Ne.symm he]
    · intro hni; exact absurd (Finset.mem_image_of_mem x (Finset.mem_univ i)) hni
  rw [this]
  exact posSemidef_sum _ fun e _ => posSemidef_vecMulVec_self_star _

/-- cosine of a difference of "phases": `cos (ω a − ω b) = cos ω a · cos ω b + sin ω a · sin ω b` -/
theorem IsPSDKernel.cos_sub (ω : X → ℝ) : IsPSDKernel fun a b => Real.cos (ω a - ω b) := by
  have := (IsPSDKernel.of_feature fun a => Real.cos (ω a)).add (IsPSDKernel.of_feature fun a => Real.sin (ω a))
  convert this using 3 with a b
  exact Real.cos_sub _ _

open MeasureTheory in
/-- **Mixtures**: an integral of PSD kernels against a (positive) measure is PSD. -/
theorem IsPSDKernel.integral {T : Type*} [MeasurableSpace T] (μ : Measure T) {F : T → X → X → ℝ}
    (hF : ∀ᵐ t ∂μ, IsPSDKernel (F t)) (hint : ∀ a b, Integrable (fun t => F t a b) μ) :
    IsPSDKernel fun a b => ∫ t, F t a b ∂μ := by
  rw [isPSDKernel_iff]
  refine ⟨fun a b => ?_, fun n x c => ?_⟩
  · refine integral_congr_ae ?_
    filter_upwards [hF] with t ht using ht.symm a b
  · have e : ∑ i, ∑ j, c i * (∫ t, F t (x i) (x j) ∂μ) * c j
        = ∫ t, ∑ i, ∑ j, c i * F t (x i) (x j) * c j ∂μ := by
      rw [integral_finsetSum _ fun i _ => integrable_finsetSum _ fun j _ =>
        ((hint (x i) (x j)).const_mul (c i)).mul_const (c j)]
      refine Finset.sum_congr rfl fun i _ => ?_
      rw [integral_finsetSum _ fun j _ => ((hint (x i) (x j)).const_mul (c i)).mul_const (c j)]
      refine Finset.sum_congr rfl fun j _ => ?_
      rw [integral_mul_const, integral_const_mul]
    rw [e]
    refine integral_nonneg_of_ae ?_
    filter_upwards [hF] with t ht using ht.quad_nonneg x c

end kernel

/-! ### conditionally negative definite kernels and Schoenberg's `exp (−ψ)` -/

/-- `ψ` is conditionally negative definite: symmetric, and `Σ c_i ψ(x_i, x_j) c_j ≤ 0` whenever `Σ c_i = 0`. -/
def IsCNDKernel {X : Type*} (ψ : X → X → ℝ) : Prop :=
  (∀ a b, ψ a b = ψ b a) ∧
    ∀ (n : ℕ) (x : Fin n → X) (c : Fin n → ℝ), ∑ i, c i = 0 → ∑ i, ∑ j, c i * ψ (x i) (x j) * c j ≤ 0

section cnd
variable {X : Type*} {ψ : X → X → ℝ}

/-- the kernel centred at `x0` is PSD -/
theorem IsCNDKernel.psd_centered (h : IsCNDKernel ψ) (x0 : X) :
    IsPSDKernel fun a b => ψ a x0 + ψ x0 b - ψ a b - ψ x0 x0 := by
  rw [isPSDKernel_iff]
  refine ⟨fun a b => by rw [h.1 a x0, h.1 x0 b, h.1 a b]; ring, fun n x c => ?_⟩
  have hc := h.2 (n + 1) (Fin.cons x0 x) (Fin.cons (-(∑ i, c i)) c) (by simp [Fin.sum_univ_succ])
  simp only [Fin.sum_univ_succ, Fin.cons_zero, Fin.cons_succ] at hc
  set S := ∑ i, c i with hS
  have e1 : ∑ j, -S * ψ x0 (x j) * c j = -S * ∑ j, ψ x0 (x j) * c j := by
    rw [Finset.mul_sum]; exact Finset.sum_congr rfl fun j _ => by ring
  have e2 : ∑ i, (c i * ψ (x i) x0 * -S + ∑ j, c i * ψ (x i) (x j) * c j)
      = -S * ∑ i, c i * ψ (x i) x0 + ∑ i, ∑ j, c i * ψ (x i) (x j) * c j := by
    rw [Finset.sum_add_distrib, Finset.mul_sum]
    congr 1; exact Finset.sum_congr rfl fun i _ => by ring
  rw [e1, e2] at hc
  have g : ∑ i, ∑ j, c i * (ψ (x i) x0 + ψ x0 (x j) - ψ (x i) (x j) - ψ x0 x0) * c j
      = (∑ i, c i * ψ (x i) x0) * S + S * (∑ j, ψ x0 (x j) * c j)
        - ∑ i, ∑ j, c i * ψ (x i) (x j) * c j - ψ x0 x0 * (S * S) := by
    rw [hS, Finset.sum_mul_sum, Finset.sum_mul_sum, Finset.sum_mul_sum, Finset.mul_sum,
      ← Finset.sum_add_distrib, ← Finset.sum_sub_distrib, ← Finset.sum_sub_distrib]
    refine Finset.sum_congr rfl fun i _ => ?_
    rw [Finset.mul_sum, ← Finset.sum_add_distrib, ← Finset.sum_sub_distrib, ← Finset.sum_sub_distrib]
    exact Finset.sum_congr rfl fun j _ => by ring
  rw [g]
  linarith

/-- **Schoenberg**: `exp (−ψ)` is PSD for a conditionally negative definite `ψ`. -/
theorem IsCNDKernel.exp_neg (h : IsCNDKernel ψ) (x0 : X) : IsPSDKernel fun a b => Real.exp (-ψ a b) := by
  have h1 := (h.psd_centered x0).exp
  have h2 := (h1.conj (fun a => Real.exp (-ψ a x0))).smul (Real.exp_pos (ψ x0 x0)).le
  convert h2 using 3 with a b
  rw [← Real.exp_add, ← Real.exp_add, ← Real.exp_add]
  congr 1
  rw [h.1 x0 b]; ring

theorem IsCNDKernel.smul (h : IsCNDKernel ψ) {t : ℝ} (ht : 0 ≤ t) : IsCNDKernel fun a b => t * ψ a b := by
  refine ⟨fun a b => by show t * ψ a b = t * ψ b a; rw [h.1 a b], fun n x c hc => ?_⟩
  have := h.2 n x c hc
  have e : ∑ i, ∑ j, c i * (t * ψ (x i) (x j)) * c j = t * ∑ i, ∑ j, c i * ψ (x i) (x j) * c j := by
    rw [Finset.mul_sum]; refine Finset.sum_congr rfl fun i _ => ?_
    rw [Finset.mul_sum]; exact Finset.sum_congr rfl fun j _ => by ring
  rw [e]; exact mul_nonpos_of_nonneg_of_nonpos ht this

/-- `w · (1 − K)` is CND for a PSD kernel `K` and `w ≥ 0` -/
theorem IsPSDKernel.one_sub_cnd {K : X → X → ℝ} (h : IsPSDKernel K) {w : ℝ} (hw : 0 ≤ w) :
    IsCNDKernel fun a b => (1 - K a b) * w := by
  refine ⟨fun a b => by show (1 - K a b) * w = (1 - K b a) * w; rw [h.symm a b], fun n x c hc => ?_⟩
  have hq := h.quad_nonneg x c
  have e : ∑ i, ∑ j, c i * ((1 - K (x i) (x j)) * w) * c j
      = w * ((∑ i, c i) * (∑ j, c j) - ∑ i, ∑ j, c i * K (x i) (x j) * c j) := by
    rw [Finset.sum_mul_sum, ← Finset.sum_sub_distrib, Finset.mul_sum]
    refine Finset.sum_congr rfl fun i _ => ?_
    rw [← Finset.sum_sub_distrib, Finset.mul_sum]
    exact Finset.sum_congr rfl fun j _ => by ring
  rw [e, hc]
  have : w * (0 * 0 - ∑ i, ∑ j, c i * K (x i) (x j) * c j) = -(w * ∑ i, ∑ j, c i * K (x i) (x j) * c j) := by ring
  rw [this]
  exact neg_nonpos.2 (mul_nonneg hw hq)

open MeasureTheory in
/-- integrals of CND kernels are CND -/
theorem IsCNDKernel.integral {T : Type*} [MeasurableSpace T] (μ : Measure T) {F : T → X → X → ℝ}
    (hF : ∀ᵐ t ∂μ, IsCNDKernel (F t)) (hint : ∀ a b, Integrable (fun t => F t a b) μ) :
    IsCNDKernel fun a b => ∫ t, F t a b ∂μ := by
  refine ⟨fun a b => ?_, fun n x c hc => ?_⟩
  · refine integral_congr_ae ?_
    filter_upwards [hF] with t ht using ht.1 a b
  · have e : ∑ i, ∑ j, c i * (∫ t, F t (x i) (x j) ∂μ) * c j
        = ∫ t, ∑ i, ∑ j, c i * F t (x i) (x j) * c j ∂μ := by
      rw [integral_finsetSum _ fun i _ => integrable_finsetSum _ fun j _ =>
        ((hint (x i) (x j)).const_mul (c i)).mul_const (c j)]
      refine Finset.sum_congr rfl fun i _ => ?_
      rw [integral_finsetSum _ fun j _ => ((hint (x i) (x j)).const_mul (c i)).mul_const (c j)]
      refine Finset.sum_congr rfl fun j _ => ?_
      rw [integral_mul_const, integral_const_mul]
    rw [e]
    refine integral_nonpos_of_ae ?_
    filter_upwards [hF] with t ht using ht.2 n x c hc

end cnd

/-! ### Bernstein representation of `s ^ β`, `0 < β < 1`:  `s^β · I = ∫₀^∞ (1 − e^{−t s}) t^{−1−β} dt` with `I > 0` -/

section bernstein
open MeasureTheory Set

/-- the integrand `(1 − e^{−t s}) t^{−1−β}` -/
noncomputable def bernsteinG (β s t : ℝ) : ℝ := (1 - Real.exp (-(t * s))) * t ^ (-1 - β)

theorem bernsteinG_nonneg {β s t : ℝ} (hs : 0 ≤ s) (ht : 0 ≤ t) : 0 ≤ bernsteinG β s t := by
  unfold bernsteinG
  refine mul_nonneg ?_ (Real.rpow_nonneg ht _)
  have : Real.exp (-(t * s)) ≤ 1 := Real.exp_le_one_iff.2 (neg_nonpos.2 (mul_nonneg ht hs))
  linarith

theorem measurable_bernsteinG (β s : ℝ) : Measurable (bernsteinG β s) := by
  unfold bernsteinG
  exact (measurable_const.sub (Real.measurable_exp.comp (measurable_id.mul_const s).neg)).mul
    (measurable_id.pow_const _)

theorem bernsteinG_integrableOn {β s : ℝ} (hβ0 : 0 < β) (hβ1 : β < 1) (hs : 0 ≤ s) :
    IntegrableOn (bernsteinG β s) (Ioi 0) := by
  have hsplit : Ioi (0:ℝ) = Ioc 0 1 ∪ Ioi 1 := (Ioc_union_Ioi_eq_Ioi zero_le_one).symm
  rw [hsplit]
  refine IntegrableOn.union ?_ ?_
  · -- near 0: bounded by s t^{-β}
    have hi : IntegrableOn (fun t : ℝ => s * t ^ (-β)) (Ioc 0 1) :=
      ((intervalIntegrable_iff_integrableOn_Ioc_of_le zero_le_one).1
        (intervalIntegral.intervalIntegrable_rpow' (by linarith))).const_mul s
    refine Integrable.mono' hi (measurable_bernsteinG β s).aestronglyMeasurable ?_
    refine (ae_restrict_iff' measurableSet_Ioc).2 (Filter.Eventually.of_forall fun t ht => ?_)
    have ht0 : 0 < t := ht.1
    rw [Real.norm_eq_abs, abs_of_nonneg (bernsteinG_nonneg hs ht0.le)]
    unfold bernsteinG
    have h1 : 1 - Real.exp (-(t * s)) ≤ t * s := by
      have := Real.add_one_le_exp (-(t * s)); linarith
    have h2 : t ^ (-1 - β) = t⁻¹ * t ^ (-β) := by
      rw [show (-1 - β) = -1 + -β by ring, Real.rpow_add ht0, Real.rpow_neg_one]
    rw [h2]
    have h3 : 0 ≤ t⁻¹ * t ^ (-β) := by positivity
    calc (1 - Real.exp (-(t * s))) * (t⁻¹ * t ^ (-β)) ≤ (t * s) * (t⁻¹ * t ^ (-β)) :=
          mul_le_mul_of_nonneg_right h1 h3
      _ = s * t ^ (-β) := by field_simp
  · -- near ∞: bounded by t^{-1-β}
    have hi : IntegrableOn (fun t : ℝ => t ^ (-1 - β)) (Ioi 1) :=
      integrableOn_Ioi_rpow_of_lt (by linarith) zero_lt_one
    refine Integrable.mono' hi (measurable_bernsteinG β s).aestronglyMeasurable ?_
    refine (ae_restrict_iff' measurableSet_Ioi).2 (Filter.Eventually.of_forall fun t ht => ?_)
    have ht0 : 0 < t := lt_trans zero_lt_one ht
    rw [Real.norm_eq_abs, abs_of_nonneg (bernsteinG_nonneg hs ht0.le)]
    unfold bernsteinG
    have h1 : 1 - Real.exp (-(t * s)) ≤ 1 := by linarith [Real.exp_pos (-(t * s))]
    calc (1 - Real.exp (-(t * s))) * t ^ (-1 - β) ≤ 1 * t ^ (-1 - β) :=
          mul_le_mul_of_nonneg_right h1 (Real.rpow_nonneg ht0.le _)
      _ = t ^ (-1 - β) := one_mul _

/-- the constant `I(β) = ∫₀^∞ (1 − e^{−t}) t^{−1−β} dt` -/
noncomputable def bernsteinI (β : ℝ) : ℝ := ∫ t in Ioi (0:ℝ), bernsteinG β 1 t

theorem bernsteinI_pos {β : ℝ} (hβ0 : 0 < β) (hβ1 : β < 1) : 0 < bernsteinI β := by
  unfold bernsteinI
  have hint := bernsteinG_integrableOn hβ0 hβ1 zero_le_one
  rw [setIntegral_pos_iff_support_of_nonneg_ae ?_ hint]
  · -- the support contains Ioi 0
    have hsub : Ioi (0:ℝ) ⊆ Function.support (bernsteinG β 1) ∩ Ioi 0 := by
      intro t ht
      refine ⟨?_, ht⟩
      have ht0 : (0:ℝ) < t := ht
      have : 0 < bernsteinG β 1 t := by
        unfold bernsteinG
        refine mul_pos ?_ (Real.rpow_pos_of_pos ht0 _)
        have : Real.exp (-(t * 1)) < 1 := Real.exp_lt_one_iff.2 (by linarith)
        linarith
      exact this.ne'
    refine lt_of_lt_of_le ?_ (measure_mono hsub)
    simp
  · refine (ae_restrict_iff' measurableSet_Ioi).2 (Filter.Eventually.of_forall fun t ht => ?_)
    exact bernsteinG_nonneg zero_le_one (le_of_lt ht)

/-- scaling: `∫₀^∞ (1 − e^{−t s}) t^{−1−β} dt = s^β · I(β)` for `s ≥ 0` -/
theorem bernstein_integral {β s : ℝ} (hβ0 : 0 < β) (hs : 0 ≤ s) :
    ∫ t in Ioi (0:ℝ), bernsteinG β s t = s ^ β * bernsteinI β := by
  rcases hs.eq_or_lt with rfl | hs0
  · simp [bernsteinG, Real.zero_rpow hβ0.ne']
  · have h := integral_comp_mul_left_Ioi (fun u => bernsteinG β 1 u) 0 hs0
    simp only [mul_zero, smul_eq_mul] at h
    -- bernsteinG β 1 (s t) = s^(-1-β) · bernsteinG β s t  on t > 0
    have hcongr : ∫ t in Ioi (0:ℝ), bernsteinG β 1 (s * t) = ∫ t in Ioi (0:ℝ), s ^ (-1 - β) * bernsteinG β s t := by
      refine setIntegral_congr_fun measurableSet_Ioi fun t ht => ?_
      have ht0 : (0:ℝ) < t := ht
      unfold bernsteinG
      rw [Real.mul_rpow hs0.le ht0.le, mul_one, mul_comm s t]; ring
    rw [hcongr, integral_const_mul] at h
    unfold bernsteinI
    have hs1 : s ^ (-1 - β) ≠ 0 := (Real.rpow_pos_of_pos hs0 _).ne'
    have : ∫ t in Ioi (0:ℝ), bernsteinG β s t = (s ^ (-1 - β))⁻¹ * (s⁻¹ * ∫ t in Ioi (0:ℝ), bernsteinG β 1 t) := by
      rw [← h]; field_simp
    rw [this, ← mul_assoc]
    congr 1
    rw [← Real.rpow_neg hs0.le, ← Real.rpow_neg_one s, ← Real.rpow_add hs0]
    congr 1; ring

end bernstein

end GSV.Lemmas.Psd
