/-
  Lemmas about the control combinators (core Lean only).
-/
import GSV.Ctl
namespace GSV

variable {σ τ β : Type}

@[simp] theorem foldIdx_nil (st : σ) (body : Nat → σ → σ) : foldIdx [] st body = st := rfl

@[simp] theorem foldIdx_cons (i : Nat) (l : List Nat) (st : σ) (body : Nat → σ → σ) :
    foldIdx (i :: l) st body = foldIdx l (body i st) body := rfl

theorem foldIdx_append (l₁ l₂ : List Nat) (st : σ) (body : Nat → σ → σ) :
    foldIdx (l₁ ++ l₂) st body = foldIdx l₂ (foldIdx l₁ st body) body := by
  simp [foldIdx, List.foldl_append]

theorem idxRange_succ {lo hi : Nat} (h : lo ≤ hi) : idxRange lo (hi + 1) = idxRange lo hi ++ [hi] := by
  unfold idxRange
  have : hi + 1 - lo = (hi - lo) + 1 := by omega
  rw [this, List.range'_concat]
  congr 2; omega

theorem idxRange_empty {lo hi : Nat} (h : hi ≤ lo) : idxRange lo hi = [] := by
  unfold idxRange
  have : hi - lo = 0 := by omega
  simp [this]

theorem mem_idxRange {lo hi k : Nat} : k ∈ idxRange lo hi ↔ lo ≤ k ∧ k < hi := by
  unfold idxRange
  rw [List.mem_range'_1]
  omega

theorem nodup_idxRange (lo hi : Nat) : (idxRange lo hi).Nodup := by
  unfold idxRange; exact List.nodup_range' ..

@[simp] theorem forRange_empty {lo hi : Nat} (h : hi ≤ lo) (st : σ) (body : Nat → σ → σ) :
    forRange lo hi st body = st := by
  simp [forRange, idxRange_empty h]

theorem forRange_succ {lo hi : Nat} (h : lo ≤ hi) (st : σ) (body : Nat → σ → σ) :
    forRange lo (hi + 1) st body = body hi (forRange lo hi st body) := by
  simp [forRange, idxRange_succ h, foldIdx_append]

/-- projection rule: if `π` commutes with every iteration, it commutes with the loop -/
theorem foldIdx_proj (π : σ → τ) (body : Nat → σ → σ) (body' : Nat → τ → τ)
    (h : ∀ i s, π (body i s) = body' i (π s)) (l : List Nat) (st : σ) :
    π (foldIdx l st body) = foldIdx l (π st) body' := by
  induction l generalizing st with
  | nil => rfl
  | cons i l ih => simp [ih, h]

theorem forRange_proj (π : σ → τ) (body : Nat → σ → σ) (body' : Nat → τ → τ)
    (h : ∀ i s, π (body i s) = body' i (π s)) (lo hi : Nat) (st : σ) :
    π (forRange lo hi st body) = forRange lo hi (π st) body' :=
  foldIdx_proj π body body' h _ st

/-- projection rule restricted to the indices actually visited -/
theorem foldIdx_proj_mem (π : σ → τ) (body : Nat → σ → σ) (body' : Nat → τ → τ) (l : List Nat)
    (h : ∀ i ∈ l, ∀ s, π (body i s) = body' i (π s)) (st : σ) :
    π (foldIdx l st body) = foldIdx l (π st) body' := by
  induction l generalizing st with
  | nil => rfl
  | cons i l ih =>
    simp only [foldIdx_cons]
    rw [ih (fun j hj s => h j (List.mem_cons_of_mem _ hj) s), h i (List.mem_cons_self ..)]

theorem forRange_proj_mem (π : σ → τ) (body : Nat → σ → σ) (body' : Nat → τ → τ) (lo hi : Nat)
    (h : ∀ i, lo ≤ i → i < hi → ∀ s, π (body i s) = body' i (π s)) (st : σ) :
    π (forRange lo hi st body) = forRange lo hi (π st) body' :=
  foldIdx_proj_mem π body body' _ (fun i hi' s => h i (mem_idxRange.1 hi').1 (mem_idxRange.1 hi').2 s) st

/-- a component no iteration changes is unchanged by the loop -/
theorem foldIdx_keep (π : σ → τ) (body : Nat → σ → σ) (h : ∀ i s, π (body i s) = π s)
    (l : List Nat) (st : σ) : π (foldIdx l st body) = π st := by
  induction l generalizing st with
  | nil => rfl
  | cons i l ih => simp [ih, h]

theorem forRange_keep (π : σ → τ) (body : Nat → σ → σ) (h : ∀ i s, π (body i s) = π s)
    (lo hi : Nat) (st : σ) : π (forRange lo hi st body) = π st :=
  foldIdx_keep π body h _ st

theorem foldIdx_congr (l : List Nat) (body body' : Nat → σ → σ) (h : ∀ i ∈ l, ∀ s, body i s = body' i s)
    (st : σ) : foldIdx l st body = foldIdx l st body' := by
  induction l generalizing st with
  | nil => rfl
  | cons i l ih =>
    simp only [foldIdx_cons]
    rw [h i (List.mem_cons_self ..), ih (fun j hj s => h j (List.mem_cons_of_mem _ hj) s)]

theorem forRange_congr (lo hi : Nat) (body body' : Nat → σ → σ)
    (h : ∀ i, lo ≤ i → i < hi → ∀ s, body i s = body' i s) (st : σ) :
    forRange lo hi st body = forRange lo hi st body' :=
  foldIdx_congr _ body body' (fun i hi' s => h i (mem_idxRange.1 hi').1 (mem_idxRange.1 hi').2 s) st

/-- invariant rule -/
theorem foldIdx_inv (P : σ → Prop) (body : Nat → σ → σ) (l : List Nat)
    (h : ∀ i ∈ l, ∀ s, P s → P (body i s)) (st : σ) (h0 : P st) : P (foldIdx l st body) := by
  induction l generalizing st with
  | nil => exact h0
  | cons i l ih =>
    exact ih (fun j hj s => h j (List.mem_cons_of_mem _ hj) s) _ (h i (List.mem_cons_self ..) _ h0)

/-! ### Ownership: the heart of schedule independence (C15)

  If iteration `i` changes only cell `i` of the observed array, and the new value of that cell is a
  function `g i` of its old value alone (not of any other part of the state — in particular not of
  the scalars inherited from the previous iteration), then running the iterations of a duplicate-free
  index list *in any order* yields the same array.  No law of `+` or `*` is used: the conclusion is
  bit-identity on `Float`. -/

theorem foldIdx_owned (get : σ → Nat → β) (g : Nat → β → β) (body : Nat → σ → σ)
    (hother : ∀ i s k, k ≠ i → get (body i s) k = get s k)
    (hown : ∀ i s, get (body i s) i = g i (get s i))
    (l : List Nat) (hl : l.Nodup) (st : σ) (k : Nat) :
    get (foldIdx l st body) k = if k ∈ l then g k (get st k) else get st k := by
  induction l generalizing st with
  | nil => simp
  | cons i l ih =>
    have hnd := List.nodup_cons.1 hl
    simp only [foldIdx_cons]
    rw [ih hnd.2]
    by_cases hki : k = i
    · subst hki
      simp [hnd.1, hown]
    · have : k ≠ i := hki
      simp [hki, hother _ _ _ this]

/-- the same with the ownership facts required only for visited indices -/
theorem foldIdx_owned_mem (get : σ → Nat → β) (g : Nat → β → β) (body : Nat → σ → σ)
    (l : List Nat)
    (hother : ∀ i ∈ l, ∀ s k, k ≠ i → get (body i s) k = get s k)
    (hown : ∀ i ∈ l, ∀ s, get (body i s) i = g i (get s i))
    (hl : l.Nodup) (st : σ) (k : Nat) :
    get (foldIdx l st body) k = if k ∈ l then g k (get st k) else get st k := by
  induction l generalizing st with
  | nil => simp
  | cons i l ih =>
    have hnd := List.nodup_cons.1 hl
    simp only [foldIdx_cons]
    rw [ih (fun j hj => hother j (List.mem_cons_of_mem _ hj)) (fun j hj => hown j (List.mem_cons_of_mem _ hj)) hnd.2]
    by_cases hki : k = i
    · subst hki
      simp [hnd.1, hown k (List.mem_cons_self ..)]
    · have : k ≠ i := hki
      simp [hki, hother i (List.mem_cons_self ..) _ _ this]

theorem parRange_owned (get : σ → Nat → β) (g : Nat → β → β) (body : Nat → σ → σ)
    (hother : ∀ i s k, k ≠ i → get (body i s) k = get s k)
    (hown : ∀ i s, get (body i s) i = g i (get s i))
    (sched : Sched) (hs : sched.Admissible) (lo hi : Nat) (st : σ) (k : Nat) :
    get (parRange sched lo hi st body) k = if lo ≤ k ∧ k < hi then g k (get st k) else get st k := by
  unfold parRange
  have hp := hs (idxRange lo hi)
  rw [foldIdx_owned get g body hother hown _ (hp.nodup_iff.2 (nodup_idxRange lo hi))]
  have : k ∈ sched (idxRange lo hi) ↔ lo ≤ k ∧ k < hi := by rw [hp.mem_iff, mem_idxRange]
  simp only [this]

theorem sched_id_admissible : Sched.Admissible (id : Sched) := fun _ => List.Perm.refl _

/-- **schedule independence**: under ownership, every admissible schedule gives the sequential result -/
theorem parRange_sched_indep (get : σ → Nat → β) (g : Nat → β → β) (body : Nat → σ → σ)
    (hother : ∀ i s k, k ≠ i → get (body i s) k = get s k)
    (hown : ∀ i s, get (body i s) i = g i (get s i))
    (sched : Sched) (hs : sched.Admissible) (lo hi : Nat) (st : σ) :
    get (parRange sched lo hi st body) = get (parRange id lo hi st body) := by
  funext k
  rw [parRange_owned get g body hother hown sched hs, parRange_owned get g body hother hown id sched_id_admissible]

@[simp] theorem upd_same (a : Nat → β) (i : Nat) (v : β) : upd a i v i = v := by simp [upd]
theorem upd_other (a : Nat → β) {i k : Nat} (v : β) (h : k ≠ i) : upd a i v k = a k := by simp [upd, h]
theorem upd_apply (a : Nat → β) (i k : Nat) (v : β) : upd a i v k = if k = i then v else a k := rfl
theorem upd2_apply (a : Nat → Nat → β) (i j i' j' : Nat) (v : β) :
    upd2 a i j v i' j' = if i' = i ∧ j' = j then v else a i' j' := rfl
theorem setRow_apply (a : Nat → Nat → β) (i i' : Nat) (r : Nat → β) :
    setRow a i r i' = if i' = i then r else a i' := rfl

end GSV
