/-
  Lemmas about the control combinators (core Lean only).
-/
import GSV.Ctl
namespace GSV

variable {σ τ β : Type}

@[simp] theorem foldIdx_nil (st : σ) (body : Nat → σ → σ) : foldIdx [] st body = st := rfl

@[simp] theorem foldIdx_cons (i : Nat) (l : List Nat) (st : σ) (body : Nat → σ → σ) :
    foldIdx (i :: l) st body = foldIdx l (body i st) body := rfl

theorem foldIdx_append (l₁ l₂ : List Nat) (st : σ) (body : Nat → σ → σ) :
    foldIdx (l₁ ++ l₂) st body = foldIdx l₂ (foldIdx l₁ st body) body := by
  simp [foldIdx, List.foldl_append]

theorem idxRange_succ {lo hi : Nat} (h : lo ≤ hi) : idxRange lo (hi + 1) = idxRange lo hi ++ [hi] := by
  unfold idxRange
  have : hi + 1 - lo = (hi - lo) + 1 := by omega
  rw [this, List.range'_concat]
  congr 2; omega

theorem idxRange_empty {lo hi : Nat} (h : hi ≤ lo) : idxRange lo hi = [] := by
  unfold idxRange
  have : hi - lo = 0 := by omega
  simp [this]

theorem mem_idxRange {lo hi k : Nat} : k ∈ idxRange lo hi ↔ lo ≤ k ∧ k < hi := by
  unfold idxRange
  rw [List.mem_range'_1]
  omega

theorem nodup_idxRange (lo hi : Nat) : (idxRange lo hi).Nodup := by
  unfold idxRange; exact List.nodup_range' ..

@[simp] theorem forRange_empty {lo hi : Nat} (h : hi ≤ lo) (st : σ) (body : Nat → σ → σ) :
    forRange lo hi st body = st := by
  simp [forRange, idxRange_empty h]

theorem forRange_succ {lo hi : Nat} (h : lo ≤ hi) (st : σ) (body : Nat → σ → σ) :
    forRange lo (hi + 1) st body = body hi (forRange lo hi st body) := by
  simp [forRange, idxRange_succ h, foldIdx_append]

/-- projection rule: if `π` commutes with every iteration, it commutes with the loop -/
theorem foldIdx_proj (π : σ → τ) (body : Nat → σ → σ) (body' : Nat → τ → τ)
    (h : ∀ i s, π (body i s) = body' i (π s)) (l : List Nat) (st : σ) :
    π (foldIdx l st body) = foldIdx l (π st) body' := by
  induction l generalizing st with
  | nil => rfl
  | cons i l ih => simp [ih, h]

theorem forRange_proj (π : σ → τ) (body : Nat → σ → σ) (body' : Nat → τ → τ)
    (h : ∀ i s, π (body i s) = body' i (π s)) (lo hi : Nat) (st : σ) :
    π (forRange lo hi st body) = forRange lo hi (π st) body' :=
  foldIdx_proj π body body' h _ st

/-- projection rule restricted to the indices actually visited -/
theorem foldIdx_proj_mem (π : σ → τ) (body : Nat → σ → σ) (body' : Nat → τ → τ) (l : List Nat)
    (h : ∀ i ∈ l, ∀ s, π (body i s) = body' i (π s)) (st : σ) :
    π (foldIdx l st body) = foldIdx l (π st) body' := by
  induction l generalizing st with
  | nil => rfl
  | cons i l ih =>
    simp only [foldIdx_cons]
    rw [ih (fun j hj s => h j (List.mem_cons_of_mem _ hj) s), h i (List.mem_cons_self ..)]

theorem forRange_proj_mem (π : σ → τ) (body : Nat → σ → σ) (body' : Nat → τ → τ) (lo hi : Nat)
    (h : ∀ i, lo ≤ i → i < hi → ∀ s, π (body i s) = body' i (π s)) (st : σ) :
    π (forRange lo hi st body) = forRange lo hi (π st) body' :=
  foldIdx_proj_mem π body body' _ (fun i hi' s => h i (mem_idxRange.1 hi').1 (mem_idxRange.1 hi').2 s) st

/-- a component no iteration changes is unchanged by the loop -/
theorem foldIdx_keep (π : σ → τ) (body : Nat → σ → σ) (h : ∀ i s, π (body i s) = π s)
    (l : List Nat) (st : σ) : π (foldIdx l st body) = π st := by
  induction l generalizing st with
  | nil => rfl
  | cons i l ih => simp [ih, h]

theorem forRange_keep (π : σ → τ) (body : Nat → σ → σ) (h : ∀ i s, π (body i s) = π s)
    (lo hi : Nat) (st : σ) : π (forRange lo hi st body) = π st :=
  foldIdx_keep π body h _ st

theorem foldIdx_congr (l : List Nat) (body body' : Nat → σ → σ) (h : ∀ i ∈ l, ∀ s, body i s = body' i s)
    (st : σ) : foldIdx l st body = foldIdx l st body' := by
  induction l generalizing st with
  | nil => rfl
  | cons i l ih =>
    simp only [foldIdx_cons]
    rw [h i (List.mem_cons_self ..), ih (fun j hj s => h j (List.mem_cons_of_mem _ hj) s)]

theorem forRange_congr (lo hi : Nat) (body body' : Nat → σ → σ)
    (h : ∀ i, lo ≤ i → i < hi → ∀ s, body i s = body' i s) (st : σ) :
    forRange lo hi st body = forRange lo hi st body' :=
  foldIdx_congr _ body body' (fun i hi' s => h i (mem_idxRange.1 hi').1 (mem_idxRange.1 hi').2 s) st

/-- invariant rule -/
theorem foldIdx_inv (P : σ → Prop) (body : Nat → σ → σ) (l : List Nat)
    (h : ∀ i ∈ l, ∀ s, P s → P (body i s)) (st : σ) (h0 : P st) : P (foldIdx l st body) := by
  induction l generalizing st with
  | nil => exact h0
  | cons i l ih =>
    exact ih (fun j hj s => h j (List.mem_cons_of_mem _ hj) s) _ (h i (List.mem_cons_self ..) _ h0)

/-! ### Ownership: the heart of schedule independence (C15)

  If iteration `i` changes only cell `i` of the observed array, and the new value of that cell is a
  function `g i` of its old value alone (not of any other part of the state — in particular not of
  the scalars inherited from the previous iteration), then running the iterations of a duplicate-free
  index list *in any order* yields the same array.  No law of `+` or `*` is used: the conclusion is
  bit-identity on `Float`. -/

theorem foldIdx_owned (get : σ → Nat → β) (g : Nat → β → β) (body : Nat → σ → σ)
    (hother : ∀ i s k, k ≠ i → get (body i s) k = get s k)
    (hown : ∀ i s, get (body i s) i = g i (get s i))
    (l : List Nat) (hl : l.Nodup) (st : σ) (k : Nat) :
    get (foldIdx l st body) k = if k ∈ l then g k (get st k) else get st k := by
  induction l generalizing st with
  | nil => simp
  | cons i l ih =>
    have hnd := List.nodup_cons.1 hl
    simp only [foldIdx_cons]
    rw [ih hnd.2]
    by_cases hki : k = i
    · subst hki
      simp [hnd.1, hown]
    · have : k ≠ i := hki
      simp [hki, hother _ _ _ this]

/-- the same with the ownership facts required only for visited indices -/
theorem foldIdx_owned_mem (get : σ → Nat → β) (g : Nat → β → β) (body : Nat → σ → σ)
    (l : List Nat)
    (hother : ∀ i ∈ l, ∀ s k, k ≠ i → get (body i s) k = get s k)
    (hown : ∀ i ∈ l, ∀ s, get (body i s) i = g i (get s i))
    (hl : l.Nodup) (st : σ) (k : Nat) :
    get (foldIdx l st body) k = if k ∈ l then g k (get st k) else get st k := by
  induction l generalizing st with
  | nil => simp
  | cons i l ih =>
    have hnd := List.nodup_cons.1 hl
    simp only [foldIdx_cons]
    rw [ih (fun j hj => hother j (List.mem_cons_of_mem _ hj)) (fun j hj => hown j (List.mem_cons_of_mem _ hj)) hnd.2]
    by_cases hki : k = i
    · subst hki
      simp [hnd.1, hown k (List.mem_cons_self ..)]
    · have : k ≠ i := hki
      simp [hki, hother i (List.mem_cons_self ..) _ _ this]

theorem parRange_owned (get : σ → Nat → β) (g : Nat → β → β) (body : Nat → σ → σ)
    (hother : ∀ i s k, k ≠ i → get (body i s) k = get s k)
    (hown : ∀ i s, get (body i s) i = g i (get s i))
    (sched : Sched) (hs : sched.Admissible) (lo hi : Nat) (st : σ) (k : Nat) :
    get (parRange sched lo hi st body) k = if lo ≤ k ∧ k < hi then g k (get st k) else get st k := by
  unfold parRange
  have hp := hs (idxRange lo hi)
  rw [foldIdx_owned get g body hother hown _ (hp.nodup_iff.2 (nodup_idxRange lo hi))]
  have : k ∈ sched (idxRange lo hi) ↔ lo ≤ k ∧ k < hi := by rw [hp.mem_iff, mem_idxRange]
  simp only [this]

theorem sched_id_admissible : Sched.Admissible (id : Sched) := fun _ => List.Perm.refl _

/-- **schedule independence**: under ownership, every admissible schedule gives the sequential result -/
theorem parRange_sched_indep (get : σ → Nat → β) (g : Nat → β → β) (body : Nat → σ → σ)
    (hother : ∀ i s k, k ≠ i → get (body i s) k = get s k)
    (hown : ∀ i s, get (body i s) i = g i (get s i))
    (sched : Sched) (hs : sched.Admissible) (lo hi : Nat) (st : σ) :
    get (parRange sched lo hi st body) = get (parRange id lo hi st body) := by
  funext k
  rw [parRange_owned get g body hother hown sched hs, parRange_owned get g body hother hown id sched_id_admissible]

@[simp] theorem upd_same (a : Nat → β) (i : Nat) (v : β) : upd a i v i = v := by simp [upd]
theorem upd_other (a : Nat → β) {i k : Nat} (v : β) (h : k ≠ i) : upd a i v k = a k := by simp [upd, h]
theorem upd_apply (a : Nat → β) (i k : Nat) (v : β) : upd a i v k = if k = i then v else a k := rfl
theorem upd2_apply (a : Nat → Nat → β) (i j i' j' : Nat) (v : β) :
    upd2 a i j v i' j' = if i' = i ∧ j' = j then v else a i' j' := rfl
theorem setRow_apply (a : Nat → Nat → β) (i i' : Nat) (r : Nat → β) :
    setRow a i r i' = if i' = i then r else a i' := rfl


/-! ### loops with `break` -/

theorem ite_iff_congr {p q : Prop} [Decidable p] [Decidable q] {a b : β} (h : p ↔ q) :
    (if p then a else b) = if q then a else b := by
  by_cases hq : q
  · simp [hq, h.mpr hq]
  · simp [hq, mt h.mp hq]


/-- the (state, broken) pair after the loop -/
def forRangeBrkAux (lo hi : Nat) (st : σ) (body : Nat → σ → σ × Bool) : σ × Bool :=
  (idxRange lo hi).foldl (fun (sb : σ × Bool) i => if sb.2 then sb else body i sb.1) (st, false)

theorem forRangeBrk_eq (lo hi : Nat) (st : σ) (body : Nat → σ → σ × Bool) :
    forRangeBrk lo hi st body = (forRangeBrkAux lo hi st body).1 := rfl

theorem forRangeBrkAux_zero (lo : Nat) (st : σ) (body : Nat → σ → σ × Bool) :
    forRangeBrkAux lo lo st body = (st, false) := by
  simp [forRangeBrkAux, idxRange_empty (Nat.le_refl lo)]

theorem forRangeBrkAux_succ {lo hi : Nat} (h : lo ≤ hi) (st : σ) (body : Nat → σ → σ × Bool) :
    forRangeBrkAux lo (hi + 1) st body =
      if (forRangeBrkAux lo hi st body).2 then forRangeBrkAux lo hi st body
      else body hi (forRangeBrkAux lo hi st body).1 := by
  unfold forRangeBrkAux
  rw [idxRange_succ h, List.foldl_append]
  rfl

/-- "first hit" semantics of the direction loop: iteration `d` runs `B d` iff `P · d` holds, and after a
    hit the loop stops when `sep` is set.  `P` may read the state, but only parts no `B` changes.  If
    `B d` owns cell `d`, cell `k` is updated iff `P k` and (when `sep`) no earlier index satisfied `P`. -/
theorem forRangeBrk_first_hit (get : σ → Nat → β) (P : σ → Nat → Prop) [∀ s, DecidablePred (P s)] (sep : Bool)
    (B : Nat → σ → σ) (g : Nat → β → β)
    (hother : ∀ d s k, k ≠ d → get (B d s) k = get s k)
    (hown : ∀ d s, get (B d s) d = g d (get s d))
    (hP : ∀ d s d', P (B d s) d' ↔ P s d') (D : Nat) (st : σ) (k : Nat) :
    get (forRangeBrk 0 D st (fun d st => if ¬ P st d then (st, false) else (B d st, sep))) k =
      if k < D ∧ P st k ∧ (sep = true → ∀ d', d' < k → ¬ P st d') then g k (get st k) else get st k := by
  rw [forRangeBrk_eq]
  suffices H : ∀ D,
      (forRangeBrkAux 0 D st (fun d st => if ¬ P st d then (st, false) else (B d st, sep))).2 = (sep && decide (∃ d, d < D ∧ P st d)) ∧
      (∀ d', P (forRangeBrkAux 0 D st (fun d st => if ¬ P st d then (st, false) else (B d st, sep))).1 d' ↔ P st d') ∧
      ∀ k, get (forRangeBrkAux 0 D st (fun d st => if ¬ P st d then (st, false) else (B d st, sep))).1 k =
        if k < D ∧ P st k ∧ (sep = true → ∀ d', d' < k → ¬ P st d') then g k (get st k) else get st k from (H D).2.2 k
  intro D
  induction D with
  | zero =>
    rw [forRangeBrkAux_zero]
    simp
  | succ D ih =>
    rw [forRangeBrkAux_succ (Nat.zero_le D)]
    obtain ⟨ihb, ihp, ihg⟩ := ih
    by_cases hb : (forRangeBrkAux 0 D st (fun d st => if ¬ P st d then (st, false) else (B d st, sep))).2 = true
    · -- already broken: sep = true and some earlier hit
      simp only [hb, if_true]
      rw [ihb] at hb
      simp only [Bool.and_eq_true, decide_eq_true_eq] at hb
      obtain ⟨hsep, d0, hd0, hP0⟩ := hb
      refine ⟨?_, ihp, fun k => ?_⟩
      · simp only [hsep, Bool.true_and]
        symm
        rw [decide_eq_true_eq]
        exact ⟨d0, by omega, hP0⟩
      · rw [ihg k]
        by_cases hkD : k = D
        · subst hkD
          have : ¬ (sep = true → ∀ d', d' < k → ¬ P st d') := fun h => h hsep d0 hd0 hP0
          simp [this]
        · exact ite_iff_congr (by constructor <;> (rintro ⟨h1, h2⟩; exact ⟨by omega, h2⟩))
    · simp only [hb, Bool.false_eq_true, if_false]
      have hb' : (forRangeBrkAux 0 D st (fun d st => if ¬ P st d then (st, false) else (B d st, sep))).2 = false := by
        simpa using hb
      rw [ihb] at hb'
      by_cases hPD : P st D
      · have hPD' := (ihp D).mpr hPD
        simp only [hPD', not_true_eq_false, if_false]
        refine ⟨?_, fun d' => (hP _ _ _).trans (ihp d'), fun k => ?_⟩
        · cases sep with
          | false => simp
          | true =>
            simp only [Bool.true_and]
            symm
            rw [decide_eq_true_eq]
            exact ⟨D, by omega, hPD⟩
        · by_cases hkD : k = D
          · subst hkD
            rw [hown, ihg k]
            have hno : (sep = true → ∀ d', d' < k → ¬ P st d') := by
              intro hs d' hd' hp
              rw [hs] at hb'
              simp only [Bool.true_and, decide_eq_false_iff_not] at hb'
              exact hb' ⟨d', hd', hp⟩
            have h1 : ¬ (k < k ∧ P st k ∧ (sep = true → ∀ d', d' < k → ¬ P st d')) := fun h => Nat.lt_irrefl _ h.1
            rw [if_neg h1, if_pos ⟨Nat.lt_succ_self k, hPD, hno⟩]
          · rw [hother _ _ _ hkD, ihg k]
            exact ite_iff_congr (by constructor <;> (rintro ⟨h1, h2⟩; exact ⟨by omega, h2⟩))
      · have hPD' : ¬ P _ D := fun h => hPD ((ihp D).mp h)
        simp only [hPD', not_false_eq_true, if_true]
        refine ⟨?_, ihp, fun k => ?_⟩
        · cases sep with
          | false => simp
          | true =>
            simp only [Bool.true_and, decide_eq_false_iff_not] at hb'
            simp only [Bool.true_and]
            symm
            rw [decide_eq_false_iff_not]
            rintro ⟨d, hd, hp⟩
            by_cases hdD : d = D
            · subst hdD; exact hPD hp
            · exact hb' ⟨d, by omega, hp⟩
        · rw [ihg k]
          by_cases hkD : k = D
          · subst hkD; simp [hPD]
          · exact ite_iff_congr (by constructor <;> (rintro ⟨h1, h2⟩; exact ⟨by omega, h2⟩))

/-- a component the `break` loop's iterations do not change -/
theorem forRangeBrk_keep (π : σ → τ) (body : Nat → σ → σ × Bool) (h : ∀ i s, π (body i s).1 = π s)
    (lo hi : Nat) (st : σ) : π (forRangeBrk lo hi st body) = π st := by
  unfold forRangeBrk
  generalize idxRange lo hi = l
  suffices H : ∀ (sb : σ × Bool), π (l.foldl (fun (sb : σ × Bool) i => if sb.2 then sb else body i sb.1) sb).1 = π sb.1 from H (st, false)
  induction l with
  | nil => intro sb; rfl
  | cons i l ih =>
    intro sb
    simp only [List.foldl_cons]
    rw [ih]
    split
    · rfl
    · exact h i sb.1

end GSV
