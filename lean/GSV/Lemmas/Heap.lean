/-
  Soundness of the ownership analysis `safeFrom` of GSV/Model/Heap.lean:
  for EVERY program and EVERY heap, if the analysis accepts the program then every buffer written
  was allocated during the run — so no buffer that existed before (caller arrays, stored fields,
  anything reachable or not) changes.  Law-free: holds verbatim for the executed model.
-/
import GSV.Model.Heap
namespace GSV.Model.Heap

/-! ### association lists and the abstract owned-set -/

@[simp] theorem get_nil (x : Nat) : get [] x = Obj.scalar := rfl
@[simp] theorem get_cons (k : Nat) (o : Obj) (t : List (Nat × Obj)) (x : Nat) :
    get ((k, o) :: t) x = if x = k then o else get t x := rfl

@[simp] theorem scalar_all : Obj.scalar.all = [] := rfl
@[simp] theorem arr_all (b : BufId) : (Obj.arr b).all = [b] := rfl
@[simp] theorem marr_all (b m : BufId) : (Obj.marr b m).all = [b, m] := rfl

theorem mem_drop {A : List Var} {d x : Var} : x ∈ drop A d ↔ x ∈ A ∧ x ≠ d := by
  simp [drop, List.mem_filter]

/-- `A` is a set of variables all of whose buffers were allocated at or after `n0` -/
def Owned (n0 : Nat) (A : List Var) (σ : St) : Prop :=
  n0 ≤ σ.next ∧ ∀ x, x ∈ A → ∀ b, b ∈ (get σ.env x).all → n0 ≤ b

/-- `σ'` differs from `σ` on no buffer below `n0` -/
structure Frame (n0 : Nat) (σ σ' : St) : Prop where
  next_le : σ.next ≤ σ'.next
  written : ∀ b, b ∈ σ'.written → b ∈ σ.written ∨ n0 ≤ b
  ver : ∀ b, b < n0 → σ'.ver b = σ.ver b

theorem Frame.refl (n0 : Nat) (σ : St) : Frame n0 σ σ :=
  ⟨Nat.le_refl _, fun _ h => Or.inl h, fun _ _ => rfl⟩

theorem Frame.trans {n0 : Nat} {a b c : St} (h1 : Frame n0 a b) (h2 : Frame n0 b c) : Frame n0 a c :=
  ⟨Nat.le_trans h1.next_le h2.next_le,
   fun x hx => (h2.written x hx).elim (fun h => h1.written x h) Or.inr,
   fun x hx => (h2.ver x hx).trans (h1.ver x hx)⟩

/-! ### the three kinds of state change -/

theorem frame_bind (n0 : Nat) (σ : St) (x : Var) (o : Obj) : Frame n0 σ (σ.bind x o) :=
  ⟨Nat.le_refl _, fun _ h => Or.inl h, fun _ _ => rfl⟩

theorem frame_alloc (n0 : Nat) (σ : St) (x : Var) (m : Bool) : Frame n0 σ (σ.alloc x m) := by
  cases m <;> exact ⟨by simp [St.alloc], fun _ h => Or.inl (by simpa [St.alloc] using h), fun _ _ => by simp [St.alloc]⟩

theorem frame_write {n0 : Nat} (σ : St) (bs : List BufId) (h : ∀ b, b ∈ bs → n0 ≤ b) :
    Frame n0 σ (σ.write bs) := by
  refine ⟨Nat.le_refl _, ?_, ?_⟩
  · intro b hb
    simp only [St.write, List.mem_append] at hb
    exact hb.elim (fun hb => Or.inr (h b hb)) Or.inl
  · intro b hb
    have : b ∉ bs := fun hmem => by have := h b hmem; omega
    simp [St.write, this]

/-- binding `d` to an object whose buffers are all new keeps `d :: A` owned -/
theorem owned_bind_new {n0 : Nat} {A : List Var} {σ : St} (h : Owned n0 A σ) (d : Var) (o : Obj)
    (ho : ∀ b, b ∈ o.all → n0 ≤ b) : Owned n0 (d :: A) (σ.bind d o) := by
  refine ⟨h.1, ?_⟩
  intro x hx b hb
  simp only [St.bind, get_cons] at hb
  by_cases hxd : x = d
  · rw [if_pos hxd] at hb; exact ho b hb
  · rw [if_neg hxd] at hb
    have hxA : x ∈ A := by
      rcases List.mem_cons.mp hx with h' | h'
      · exact absurd h' hxd
      · exact h'
    exact h.2 x hxA b hb

/-- binding `d` to anything is fine once `d` is removed from the owned set -/
theorem owned_bind_drop {n0 : Nat} {A : List Var} {σ : St} (h : Owned n0 A σ) (d : Var) (o : Obj) :
    Owned n0 (drop A d) (σ.bind d o) := by
  refine ⟨h.1, ?_⟩
  intro x hx b hb
  have ⟨hxA, hxd⟩ := mem_drop.mp hx
  simp only [St.bind, get_cons, if_neg hxd] at hb
  exact h.2 x hxA b hb

theorem owned_alloc {n0 : Nat} {A : List Var} {σ : St} (h : Owned n0 A σ) (d : Var) (m : Bool) :
    Owned n0 (d :: A) (σ.alloc d m) := by
  have hn := h.1
  cases m
  · have := owned_bind_new (σ := { σ with next := σ.next + 1 }) (A := A) (n0 := n0)
      ⟨by simp; omega, h.2⟩ d (Obj.arr σ.next) (by simp; omega)
    simpa [St.alloc, St.bind] using this
  · have := owned_bind_new (σ := { σ with next := σ.next + 2 }) (A := A) (n0 := n0)
      ⟨by simp; omega, h.2⟩ d (Obj.marr σ.next (σ.next + 1)) (by simp; omega)
    simpa [St.alloc, St.bind] using this

/-- weakening: a smaller owned set is still owned -/
theorem owned_mono {n0 : Nat} {A B : List Var} {σ : St} (h : Owned n0 A σ) (hBA : ∀ x, x ∈ B → x ∈ A) :
    Owned n0 B σ := ⟨h.1, fun x hx => h.2 x (hBA x hx)⟩

theorem owned_alloc_drop {n0 : Nat} {A : List Var} {σ : St} (h : Owned n0 A σ) (d : Var) (m : Bool) :
    Owned n0 (drop A d) (σ.alloc d m) :=
  owned_mono (owned_alloc h d m) fun _ hx => List.mem_cons_of_mem _ (mem_drop.mp hx).1

theorem owned_write {n0 : Nat} {A : List Var} {σ : St} (h : Owned n0 A σ) (bs : List BufId) :
    Owned n0 A (σ.write bs) := ⟨h.1, h.2⟩

theorem owned_of_env_eq {n0 : Nat} {A : List Var} {σ σ' : St} (h : Owned n0 A σ)
    (he : σ'.env = σ.env) (hn : σ.next ≤ σ'.next) : Owned n0 A σ' :=
  ⟨Nat.le_trans h.1 hn, by rw [he]; exact h.2⟩

/-- the conversion/view family: `d` inherits ownership from `s`; the new object references a subset of
    the buffers of `s` -/
theorem owned_inherit {n0 : Nat} {A : List Var} {σ : St} (h : Owned n0 A σ) (d s : Var) (o : Obj)
    (ho : ∀ b, b ∈ o.all → b ∈ (get σ.env s).all) :
    Owned n0 (if A.contains s then d :: A else drop A d) (σ.bind d o) := by
  by_cases hs : A.contains s = true
  · rw [if_pos hs]
    have hsA : s ∈ A := by simpa using hs
    exact owned_bind_new h d o fun b hb => h.2 s hsA b (ho b hb)
  · rw [if_neg hs]; exact owned_bind_drop h d o

theorem owned_inherit_alloc {n0 : Nat} {A : List Var} {σ : St} (h : Owned n0 A σ) (d s : Var) (m : Bool) :
    Owned n0 (if A.contains s then d :: A else drop A d) (σ.alloc d m) := by
  by_cases hs : A.contains s = true
  · rw [if_pos hs]; exact owned_alloc h d m
  · rw [if_neg hs]; exact owned_alloc_drop h d m

/-! ### one step, then whole programs -/

theorem owned_ite {n0 : Nat} {A : List Var} {σ : St} (h : Owned n0 A σ) (d s : Var) (c : Bool) (o : Obj) (m : Bool)
    (ho : ∀ b, b ∈ o.all → b ∈ (get σ.env s).all) :
    Owned n0 (if A.contains s then d :: A else drop A d) (if c = true then σ.bind d o else σ.alloc d m) := by
  cases c
  · exact owned_inherit_alloc h d s m
  · exact owned_inherit h d s o ho

theorem frame_ite (n0 : Nat) (σ : St) (d : Var) (c : Bool) (o : Obj) (m : Bool) :
    Frame n0 σ (if c = true then σ.bind d o else σ.alloc d m) := by
  cases c
  · exact frame_alloc ..
  · exact frame_bind ..

theorem frame_env (n0 : Nat) (σ σ' : St) (hn : σ.next ≤ σ'.next) (hw : σ'.written = σ.written)
    (hv : σ'.ver = σ.ver) : Frame n0 σ σ' :=
  ⟨hn, fun _ hb => Or.inl (hw ▸ hb), fun _ _ => by rw [hv]⟩

/-- one accepted operation keeps the invariant (with the analysis' next owned-set) and touches nothing below `n0` -/
theorem transfer_sound {n0 : Nat} {A A' : List Var} {σ : St} (op : Op)
    (h : Owned n0 A σ) (hs : transfer A op = some A') :
    Owned n0 A' (step σ op) ∧ Frame n0 σ (step σ op) := by
  cases op with
  | asarray d s =>
    cases hs
    exact ⟨owned_ite h d s _ _ _ (by intro b hb; simp only [Obj.all, List.mem_append] at hb ⊢; simp at hb; exact Or.inl hb),
      frame_ite ..⟩
  | reshape d s => cases hs; exact ⟨owned_ite h d s _ _ _ (fun _ hb => hb), frame_ite ..⟩
  | view d s c => cases hs; exact ⟨owned_inherit h d s _ (fun _ hb => hb), frame_bind ..⟩
  | copy d s => cases hs; exact ⟨owned_alloc h d _, frame_alloc ..⟩
  | fresh d => cases hs; exact ⟨owned_alloc h d _, frame_alloc ..⟩
  | scalar d => cases hs; exact ⟨owned_bind_new h d _ (by simp), frame_bind ..⟩
  | wrapList d s => cases hs; exact ⟨owned_inherit h d s _ (fun _ hb => hb), frame_bind ..⟩
  | maArray d s => cases hs; exact ⟨owned_ite h d s _ _ _ (fun _ hb => hb), frame_ite ..⟩
  | maCopy d s => cases hs; exact ⟨owned_alloc h d _, frame_alloc ..⟩
  | filled d s => cases hs; exact ⟨owned_ite h d s _ _ _ (fun _ hb => hb), frame_ite ..⟩
  | augName x =>
    simp only [transfer] at hs
    split at hs
    case isFalse => cases hs
    case isTrue hc =>
    cases hs
    have hxA : x ∈ A := by simpa using hc
    refine ⟨?_, ?_⟩
    · show Owned n0 A (if (get σ.env x).all.isEmpty = true then σ.alloc x else σ.write (get σ.env x).bufs)
      cases (get σ.env x).all.isEmpty
      · rw [if_neg (by decide)]; exact owned_write h _
      · rw [if_pos rfl]; exact owned_mono (owned_alloc h x false) fun y hy => List.mem_cons_of_mem _ hy
    · show Frame n0 σ (if (get σ.env x).all.isEmpty = true then σ.alloc x else σ.write (get σ.env x).bufs)
      cases (get σ.env x).all.isEmpty
      · rw [if_neg (by decide)]; exact frame_write _ _ fun b hb => h.2 x hxA b (by simp [Obj.all, hb])
      · rw [if_pos rfl]; exact frame_alloc ..
  | setItem x =>
    simp only [transfer] at hs
    split at hs
    case isFalse => cases hs
    case isTrue hc =>
    cases hs
    have hxA : x ∈ A := by simpa using hc
    exact ⟨owned_write h _, frame_write _ _ fun b hb => h.2 x hxA b (by simp [Obj.all, hb])⟩
  | setMask x =>
    simp only [transfer] at hs
    split at hs
    case isFalse => cases hs
    case isTrue hc =>
    cases hs
    have hxA : x ∈ A := by simpa using hc
    have hn := h.1
    refine ⟨?_, ?_⟩
    · show Owned n0 A (if (get σ.env x).mask.isEmpty = true then
          { σ with next := σ.next + 1, env := (x, { get σ.env x with mask := [σ.next] }) :: σ.env }
        else σ.write (get σ.env x).mask)
      cases (get σ.env x).mask.isEmpty
      · rw [if_neg (by decide)]; exact owned_write h _
      · rw [if_pos rfl]
        refine ⟨Nat.le_succ_of_le hn, ?_⟩
        intro y hy b hb
        simp only [get_cons] at hb
        by_cases hyx : y = x
        · rw [if_pos hyx] at hb
          have hb' : b ∈ (get σ.env x).bufs ∨ b = σ.next := by simpa [Obj.all] using hb
          rcases hb' with hb' | hb'
          · exact h.2 x hxA b (by simp [Obj.all, hb'])
          · rw [hb']; exact hn
        · rw [if_neg hyx] at hb; exact h.2 y hy b hb
    · show Frame n0 σ (if (get σ.env x).mask.isEmpty = true then
          { σ with next := σ.next + 1, env := (x, { get σ.env x with mask := [σ.next] }) :: σ.env }
        else σ.write (get σ.env x).mask)
      cases (get σ.env x).mask.isEmpty
      · rw [if_neg (by decide)]; exact frame_write _ _ fun b hb => h.2 x hxA b (by simp [Obj.all, hb])
      · rw [if_pos rfl]; exact frame_env _ _ _ (Nat.le_succ _) rfl rfl
  | store n s => cases hs; exact ⟨owned_of_env_eq h rfl (Nat.le_refl _), frame_env _ _ _ (Nat.le_refl _) rfl rfl⟩
  | load d n => cases hs; exact ⟨owned_bind_drop h d _, frame_bind ..⟩
  | ret s => cases hs; exact ⟨owned_of_env_eq h rfl (Nat.le_refl _), frame_env _ _ _ (Nat.le_refl _) rfl rfl⟩

theorem step_sound {n0 : Nat} {A : List Var} {σ : St} (op : Op) (t : List Op)
    (h : Owned n0 A σ) (hs : safeFrom A (op :: t) = true) :
    ∃ A', safeFrom A' t = true ∧ Owned n0 A' (step σ op) ∧ Frame n0 σ (step σ op) := by
  simp only [safeFrom] at hs
  split at hs
  case h_2 => cases hs
  case h_1 A' ht =>
    have := transfer_sound op h ht
    exact ⟨A', hs, this.1, this.2⟩

theorem run_cons (σ : St) (op : Op) (t : List Op) : run σ (op :: t) = run (step σ op) t := rfl
@[simp] theorem run_nil (σ : St) : run σ [] = σ := rfl
theorem run_append (σ : St) (p q : List Op) : run σ (p ++ q) = run (run σ p) q := by
  simp [run, List.foldl_append]

/-- **Soundness of the ownership analysis**, generic in the program, the heap and the owned set -/
theorem run_sound {n0 : Nat} (p : List Op) : ∀ {A : List Var} {σ : St},
    Owned n0 A σ → safeFrom A p = true → Frame n0 σ (run σ p) := by
  induction p with
  | nil => intro A σ _ _; exact Frame.refl _ _
  | cons op t ih =>
    intro A σ h hs
    obtain ⟨A', hs', h', hf⟩ := step_sound op t h hs
    rw [run_cons]
    exact hf.trans (ih h' hs')

theorem owned_nil (σ : St) : Owned σ.next [] σ := ⟨Nat.le_refl _, fun _ hx => by cases hx⟩

/-- a safe program leaves every pre-existing buffer untouched -/
theorem safe_frame {p : List Op} (hp : safe p = true) (σ : St) : Frame σ.next σ (run σ p) :=
  run_sound p (owned_nil σ) hp

/-! ### attributes: only `store` changes them, and only under its own name -/

theorem step_attrs_other (σ : St) (op : Op) (n : Name) (h : n ∉ storesOf [op]) :
    get (step σ op).attrs n = get σ.attrs n := by
  cases op <;> simp only [step, St.bind, St.alloc, St.write] <;> try (repeat' split) <;> try rfl
  case store m s =>
    have : n ≠ m := by simpa [storesOf] using h
    simp [this]

theorem storesOf_cons (op : Op) (t : List Op) : storesOf (op :: t) = storesOf [op] ++ storesOf t := by
  cases op <;> simp [storesOf]

theorem run_attrs_other (p : List Op) : ∀ (σ : St) (n : Name), n ∉ storesOf p →
    get (run σ p).attrs n = get σ.attrs n := by
  induction p with
  | nil => intro σ n _; rfl
  | cons op t ih =>
    intro σ n h
    rw [storesOf_cons, List.mem_append, not_or] at h
    rw [run_cons, ih _ _ h.2, step_attrs_other _ _ _ h.1]

/-! ### variables a program does not assign keep their binding -/

/-- the variable (re)bound by an operation, if any -/
def dstOf : Op → List Var
  | .asarray d _ | .reshape d _ | .view d _ _ | .copy d _ | .fresh d | .scalar d | .wrapList d _
  | .maArray d _ | .maCopy d _ | .filled d _ | .load d _ => [d]
  | .augName x | .setMask x => [x]
  | .setItem _ | .store _ _ | .ret _ => []

def dstsOf (p : List Op) : List Var := p.flatMap dstOf

theorem get_bind_other (σ : St) (d x : Var) (o : Obj) (h : x ≠ d) : get (σ.bind d o).env x = get σ.env x := by
  simp [St.bind, h]

theorem get_alloc_other (σ : St) (d x : Var) (m : Bool) (h : x ≠ d) : get (σ.alloc d m).env x = get σ.env x := by
  cases m <;> simp [St.alloc, h]

theorem get_ite_other (σ : St) (d x : Var) (c : Bool) (o : Obj) (m : Bool) (h : x ≠ d) :
    get (if c = true then σ.bind d o else σ.alloc d m).env x = get σ.env x := by
  cases c
  · exact get_alloc_other σ d x m h
  · exact get_bind_other σ d x o h

theorem step_env_other (σ : St) (op : Op) (x : Var) (h : x ∉ dstOf op) :
    get (step σ op).env x = get σ.env x := by
  cases op with
  | asarray d s => exact get_ite_other σ d x _ _ _ (by simpa [dstOf] using h)
  | reshape d s => exact get_ite_other σ d x _ _ _ (by simpa [dstOf] using h)
  | view d s c => exact get_bind_other σ d x _ (by simpa [dstOf] using h)
  | copy d s => exact get_alloc_other σ d x _ (by simpa [dstOf] using h)
  | fresh d => exact get_alloc_other σ d x _ (by simpa [dstOf] using h)
  | scalar d => exact get_bind_other σ d x _ (by simpa [dstOf] using h)
  | wrapList d s => exact get_bind_other σ d x _ (by simpa [dstOf] using h)
  | maArray d s => exact get_ite_other σ d x _ _ _ (by simpa [dstOf] using h)
  | maCopy d s => exact get_alloc_other σ d x _ (by simpa [dstOf] using h)
  | filled d s => exact get_ite_other σ d x _ _ _ (by simpa [dstOf] using h)
  | augName y =>
    have hxy : x ≠ y := by simpa [dstOf] using h
    show get (if (get σ.env y).all.isEmpty = true then σ.alloc y else σ.write (get σ.env y).bufs).env x = _
    cases (get σ.env y).all.isEmpty
    · rfl
    · exact get_alloc_other σ y x false hxy
  | setItem y => rfl
  | setMask y =>
    have hxy : x ≠ y := by simpa [dstOf] using h
    show get (if (get σ.env y).mask.isEmpty = true then
          { σ with next := σ.next + 1, env := (y, { get σ.env y with mask := [σ.next] }) :: σ.env }
        else σ.write (get σ.env y).mask).env x = _
    cases (get σ.env y).mask.isEmpty
    · rfl
    · simp [hxy]
  | store n s => rfl
  | load d n => exact get_bind_other σ d x _ (by simpa [dstOf] using h)
  | ret s => rfl

theorem run_env_other (p : List Op) : ∀ (σ : St) (x : Var), x ∉ dstsOf p → get (run σ p).env x = get σ.env x := by
  induction p with
  | nil => intro σ x _; rfl
  | cons op t ih =>
    intro σ x h
    have h' : x ∉ dstOf op ∧ x ∉ dstsOf t := by simpa [dstsOf, not_or] using h
    rw [run_cons, ih _ _ h'.2, step_env_other _ _ _ h'.1]

/-! ### structured programs: the analysis is sound for every execution -/

theorem mem_inter {A B : List Var} {x : Var} : x ∈ inter A B ↔ x ∈ A ∧ x ∈ B := by
  simp [inter, List.mem_filter]

theorem subsetB_mem {A B : List Var} (h : subsetB A B = true) {x : Var} (hx : x ∈ A) : x ∈ B := by
  have := List.all_eq_true.mp h x hx
  simpa using this

/-- a loop whose body maps the invariant `I` back into (a superset of) `I` keeps `I` -/
theorem loop_sound {n0 : Nat} {b : List Stmt} {I A2 : List Var}
    (hb : ∀ {σ σ' : St}, ExecL b σ σ' → Owned n0 I σ → Owned n0 A2 σ' ∧ Frame n0 σ σ')
    (hsub : ∀ x, x ∈ I → x ∈ A2) {p : Stmt ⊕ List Stmt} {σ σ' : St} (he : Exec p σ σ') :
    p = .inl (.loop b) → Owned n0 I σ → Owned n0 I σ' ∧ Frame n0 σ σ' := by
  induction he with
  | op o σ => intro hp; cases hp
  | iteL _ _ => intro hp; cases hp
  | iteR _ _ => intro hp; cases hp
  | loopDone => intro _ h; exact ⟨h, Frame.refl _ _⟩
  | loopStep h1 _ _ ih2 =>
    intro hp h
    cases hp
    have r1 := hb h1 h
    have r2 := ih2 rfl (owned_mono r1.1 hsub)
    exact ⟨r2.1, r1.2.trans r2.2⟩
  | nil => intro hp; cases hp
  | cons _ _ _ _ => intro hp; cases hp

mutual
theorem anaS_sound {n0 : Nat} : ∀ (s : Stmt) {A A' : List Var} {σ σ' : St},
    anaS A s = some A' → Owned n0 A σ → ExecS s σ σ' → Owned n0 A' σ' ∧ Frame n0 σ σ'
  | .op o, A, A', σ, σ', hs, h, he => by
    cases he
    simp only [anaS] at hs
    exact transfer_sound o h hs
  | .ite a b, A, A', σ, σ', hs, h, he => by
    simp only [anaS] at hs
    split at hs
    case h_2 => cases hs
    case h_1 A1 A2 h1 h2 =>
      cases hs
      cases he with
      | iteL hl =>
        have r := anaL_sound a h1 h hl
        exact ⟨owned_mono r.1 fun x hx => (mem_inter.mp hx).1, r.2⟩
      | iteR hr =>
        have r := anaL_sound b h2 h hr
        exact ⟨owned_mono r.1 fun x hx => (mem_inter.mp hx).2, r.2⟩
  | .loop b, A, A', σ, σ', hs, h, he => by
    simp only [anaS] at hs
    split at hs
    case h_1 => cases hs
    case h_2 A1 h1 =>
      split at hs
      case h_1 => cases hs
      case h_2 A2 h2 =>
        split at hs
        case isTrue hsub =>
          cases hs
          exact loop_sound (fun hl hI => anaL_sound b h2 hI hl) (fun x hx => subsetB_mem hsub hx) he rfl
            (owned_mono h fun x hx => (mem_inter.mp hx).1)
        case isFalse =>
          split at hs
          case h_2 => cases hs
          case h_1 A3 h3 =>
            cases hs
            exact loop_sound (I := []) (fun hl hI => anaL_sound b h3 hI hl) (fun x hx => by cases hx) he rfl
              (owned_mono h fun x hx => by cases hx)
theorem anaL_sound {n0 : Nat} : ∀ (l : List Stmt) {A A' : List Var} {σ σ' : St},
    anaL A l = some A' → Owned n0 A σ → ExecL l σ σ' → Owned n0 A' σ' ∧ Frame n0 σ σ'
  | [], A, A', σ, σ', hs, h, he => by
    cases he
    simp only [anaL] at hs
    cases hs
    exact ⟨h, Frame.refl _ _⟩
  | s :: t, A, A', σ, σ', hs, h, he => by
    simp only [anaL] at hs
    split at hs
    case h_2 => cases hs
    case h_1 A1 h1 =>
      cases he with
      | cons hs1 hl =>
        have r1 := anaS_sound s h1 h hs1
        have r2 := anaL_sound t hs r1.1 hl
        exact ⟨r2.1, r1.2.trans r2.2⟩
end

/-- **Soundness for structured programs**: accepted from the owned set `A0` ⇒ no execution writes below `n0` -/
theorem safeB_sound {n0 : Nat} {A0 : List Var} {b : List Stmt} (hb : safeB A0 b = true) {σ σ' : St}
    (h : Owned n0 A0 σ) (he : ExecL b σ σ') : Frame n0 σ σ' := by
  simp only [safeB, Option.isSome_iff_exists] at hb
  obtain ⟨A', hA⟩ := hb
  exact (anaL_sound b hA h he).2

/-! ### well-formed heaps: everything reachable exists -/

/-- every buffer referenced by a variable, an attribute or a returned value has been allocated -/
structure WF (σ : St) : Prop where
  env : ∀ x b, b ∈ (get σ.env x).all → b < σ.next
  attrs : ∀ n b, b ∈ (get σ.attrs n).all → b < σ.next
  rets : ∀ o, o ∈ σ.rets → ∀ b, b ∈ o.all → b < σ.next

theorem wf_bind {σ : St} (h : WF σ) (x : Var) (o : Obj) (ho : ∀ b, b ∈ o.all → b < σ.next) : WF (σ.bind x o) := by
  refine ⟨?_, h.attrs, h.rets⟩
  intro y b hb
  simp only [St.bind, get_cons] at hb
  by_cases hy : y = x
  · rw [if_pos hy] at hb; exact ho b hb
  · rw [if_neg hy] at hb; exact h.env y b hb

theorem wf_grow {σ : St} (h : WF σ) (k : Nat) : WF { σ with next := σ.next + k } :=
  ⟨fun x b hb => Nat.lt_of_lt_of_le (h.env x b hb) (Nat.le_add_right _ _),
   fun n b hb => Nat.lt_of_lt_of_le (h.attrs n b hb) (Nat.le_add_right _ _),
   fun o ho b hb => Nat.lt_of_lt_of_le (h.rets o ho b hb) (Nat.le_add_right _ _)⟩

theorem wf_alloc {σ : St} (h : WF σ) (x : Var) (m : Bool) : WF (σ.alloc x m) := by
  cases m
  · have := wf_bind (wf_grow h 1) x (Obj.arr σ.next) (by intro b hb; simp at hb; simp [hb])
    simpa [St.alloc, St.bind] using this
  · have := wf_bind (wf_grow h 2) x (Obj.marr σ.next (σ.next + 1)) (by
      intro b hb
      have : b = σ.next ∨ b = σ.next + 1 := by simpa using hb
      rcases this with e | e <;> simp [e])
    simpa [St.alloc, St.bind] using this

theorem wf_write {σ : St} (h : WF σ) (bs : List BufId) : WF (σ.write bs) := ⟨h.env, h.attrs, h.rets⟩

theorem wf_ite {σ : St} (h : WF σ) (d : Var) (c : Bool) (o : Obj) (m : Bool) (ho : ∀ b, b ∈ o.all → b < σ.next) :
    WF (if c = true then σ.bind d o else σ.alloc d m) := by
  cases c
  · exact wf_alloc h d m
  · exact wf_bind h d o ho

theorem step_wf {σ : St} (h : WF σ) (op : Op) : WF (step σ op) := by
  cases op with
  | asarray d s =>
    exact wf_ite h d _ _ _ fun b hb => h.env s b (by
      simp only [Obj.all, List.mem_append] at hb ⊢; simp at hb; exact Or.inl hb)
  | reshape d s => exact wf_ite h d _ _ _ (h.env s)
  | view d s c => exact wf_bind h d _ (h.env s)
  | copy d s => exact wf_alloc h d _
  | fresh d => exact wf_alloc h d _
  | scalar d => exact wf_bind h d _ (by simp)
  | wrapList d s => exact wf_bind h d _ (h.env s)
  | maArray d s => exact wf_ite h d _ _ _ (h.env s)
  | maCopy d s => exact wf_alloc h d _
  | filled d s => exact wf_ite h d _ _ _ (h.env s)
  | augName x =>
    show WF (if (get σ.env x).all.isEmpty = true then σ.alloc x else σ.write (get σ.env x).bufs)
    cases (get σ.env x).all.isEmpty
    · exact wf_write h _
    · exact wf_alloc h x false
  | setItem x => exact wf_write h _
  | setMask x =>
    show WF (if (get σ.env x).mask.isEmpty = true then
          { σ with next := σ.next + 1, env := (x, { get σ.env x with mask := [σ.next] }) :: σ.env }
        else σ.write (get σ.env x).mask)
    cases (get σ.env x).mask.isEmpty
    · exact wf_write h _
    · have := wf_bind (wf_grow h 1) x { get σ.env x with mask := [σ.next] } (by
        intro b hb
        have hb' : b ∈ (get σ.env x).bufs ∨ b = σ.next := by simpa [Obj.all] using hb
        rcases hb' with e | e
        · exact Nat.lt_succ_of_lt (h.env x b (by simp [Obj.all, e]))
        · simp [e])
      simpa [St.bind] using this
  | store n s =>
    refine ⟨h.env, ?_, h.rets⟩
    intro m b hb
    simp only [step, get_cons] at hb
    by_cases hm : m = n
    · rw [if_pos hm] at hb; exact h.env s b hb
    · rw [if_neg hm] at hb; exact h.attrs m b hb
  | load d n => exact wf_bind h d _ (h.attrs n)
  | ret s =>
    refine ⟨h.env, h.attrs, ?_⟩
    intro o ho b hb
    simp only [step, List.mem_cons] at ho
    rcases ho with e | e
    · rw [e] at hb; exact h.env s b hb
    · exact h.rets o e b hb

theorem run_wf (p : List Op) : ∀ {σ : St}, WF σ → WF (run σ p) := by
  induction p with
  | nil => intro σ h; exact h
  | cons op t ih => intro σ h; rw [run_cons]; exact ih (step_wf h op)

/-! ### histories: a sequence of calls, the caller re-binding arguments in between -/

/-- run a list of calls; before each call the caller chooses the argument binding from what exists -/
def runCalls (args : St → List (Var × Obj)) (σ : St) : List (List Op) → St
  | [] => σ
  | p :: ps => runCalls args (run { σ with env := args σ } p) ps

theorem runCalls_frame (args : St → List (Var × Obj)) (ps : List (List Op)) :
    ∀ (σ : St), (∀ p, p ∈ ps → safe p = true) → Frame σ.next σ (runCalls args σ ps) := by
  induction ps with
  | nil => intro σ _; exact Frame.refl _ _
  | cons p t ih =>
    intro σ h
    have h1 : Frame σ.next { σ with env := args σ } (run { σ with env := args σ } p) :=
      safe_frame (h p (List.mem_cons_self ..)) { σ with env := args σ }
    have h1' : Frame σ.next σ (run { σ with env := args σ } p) :=
      ⟨h1.next_le, h1.written, h1.ver⟩
    have h2 := ih (run { σ with env := args σ } p) fun q hq => h q (List.mem_cons_of_mem _ hq)
    have h2' : Frame σ.next (run { σ with env := args σ } p) (runCalls args (run { σ with env := args σ } p) t) :=
      ⟨h2.next_le, fun b hb => (h2.written b hb).imp id fun hle => Nat.le_trans h1.next_le hle,
       fun b hb => h2.ver b (Nat.lt_of_lt_of_le hb h1.next_le)⟩
    exact h1'.trans h2'

end GSV.Model.Heap
