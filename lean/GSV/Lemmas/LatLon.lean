/-
  Helper lemmas for C13 (lat-lon / spatio-temporal geometry): the ℝ instance of the local `Asin`
  operation, clipping, degree/radian conversion, the pure-trigonometric cores of the sphere identities
  and the reduction of the generated haversine kernel to `2·arcsin √a`.
-/
import GSV.RealInst
import GSV.Model.LatLon
import GSV.Lemmas.Sum
import Mathlib.Analysis.SpecialFunctions.Trigonometric.Complex
import Mathlib.Tactic.Ring
import Mathlib.Tactic.Linarith
import Mathlib.Tactic.LinearCombination
import Mathlib.Tactic.FieldSimp
import Mathlib.Tactic.Positivity
namespace GSV.Model.LatLon
open scoped Real

noncomputable instance instAsinReal : Asin ℝ := ⟨Real.arcsin⟩
@[simp] theorem asin_real (x : ℝ) : Asin.asin x = Real.arcsin x := rfl

/-! ### clipping -/

theorem clip_eq (lo hi x : ℝ) : clip lo hi x = max (min x hi) lo := by
  unfold clip
  simp only
  split_ifs with h1 h2 h2
  · rw [min_eq_right h1.le, max_eq_right h2.le]
  · rw [min_eq_right h1.le, max_eq_left (not_lt.mp h2)]
  · rw [min_eq_left (not_lt.mp h1), max_eq_right h2.le]
  · rw [min_eq_left (not_lt.mp h1), max_eq_left (not_lt.mp h2)]

theorem clip_of_mem {lo hi x : ℝ} (h1 : lo ≤ x) (h2 : x ≤ hi) : clip lo hi x = x := by
  rw [clip_eq, min_eq_left h2, max_eq_left h1]

theorem clip_mem {lo hi : ℝ} (h : lo ≤ hi) (x : ℝ) : lo ≤ clip lo hi x ∧ clip lo hi x ≤ hi := by
  rw [clip_eq]
  exact ⟨le_max_right _ _, max_le (min_le_right _ _) h⟩

/-! ### degrees and radians -/

theorem deg2rad_real (x : ℝ) : deg2rad x = x * (π / 180) := by
  simp [deg2rad]

theorem deg2rad_sub (x y : ℝ) : deg2rad (x - y) = deg2rad x - deg2rad y := by
  simp only [deg2rad]; ring

theorem deg2rad_add (x y : ℝ) : deg2rad (x + y) = deg2rad x + deg2rad y := by
  simp only [deg2rad]; ring

theorem rad2deg_deg2rad (x : ℝ) : rad2deg (deg2rad x) = x := by
  simp only [deg2rad, rad2deg, pi_real]
  have := Real.pi_ne_zero
  push_cast
  field_simp

theorem deg2rad_rad2deg (x : ℝ) : deg2rad (rad2deg x) = x := by
  simp only [deg2rad, rad2deg, pi_real]
  have := Real.pi_ne_zero
  push_cast
  field_simp

theorem deg2rad_le {x y : ℝ} (h : x ≤ y) : deg2rad x ≤ deg2rad y := by
  rw [deg2rad_real, deg2rad_real]
  exact mul_le_mul_of_nonneg_right h (by positivity)

theorem deg2rad_lt {x y : ℝ} (h : x < y) : deg2rad x < deg2rad y := by
  rw [deg2rad_real, deg2rad_real]
  exact mul_lt_mul_of_pos_right h (by positivity)

theorem deg2rad_90 : deg2rad (90 : ℝ) = π / 2 := by rw [deg2rad_real]; ring
theorem deg2rad_neg90 : deg2rad (-90 : ℝ) = -(π / 2) := by rw [deg2rad_real]; ring
theorem deg2rad_180 : deg2rad (180 : ℝ) = π := by rw [deg2rad_real]; ring
theorem deg2rad_neg180 : deg2rad (-180 : ℝ) = -π := by rw [deg2rad_real]; ring
theorem deg2rad_360_mul (k : ℤ) : deg2rad (360 * (k : ℝ)) = (k : ℝ) * (2 * π) := by rw [deg2rad_real]; ring

/-! ### trigonometric cores -/

theorem sin_half_sq (x : ℝ) : Real.sin (x / 2) * Real.sin (x / 2) = (1 - Real.cos x) / 2 := by
  have h1 : Real.cos x = 2 * Real.cos (x / 2) ^ 2 - 1 := by
    rw [← Real.cos_two_mul]; congr 1; ring
  have h2 := Real.sin_sq_add_cos_sq (x / 2)
  nlinarith [h1, h2]

/-- pure-trig core of `on_sphere` -/
theorem sphere_trig (R a b : ℝ) :
    (R * Real.cos a * Real.cos b) * (R * Real.cos a * Real.cos b)
      + (R * Real.cos a * Real.sin b) * (R * Real.cos a * Real.sin b)
      + (R * Real.sin a * 1) * (R * Real.sin a * 1) = R * R := by
  have h1 := Real.sin_sq_add_cos_sq a
  have h2 := Real.sin_sq_add_cos_sq b
  linear_combination (R * R * Real.cos a ^ 2) * h2 + (R * R) * h1

/-- pure-trig core of `chord_is_haversine` -/
theorem chord_trig (R a1 b1 a2 b2 : ℝ) :
    (R * Real.cos a1 * Real.cos b1 - R * Real.cos a2 * Real.cos b2) * (R * Real.cos a1 * Real.cos b1 - R * Real.cos a2 * Real.cos b2)
    + (R * Real.cos a1 * Real.sin b1 - R * Real.cos a2 * Real.sin b2) * (R * Real.cos a1 * Real.sin b1 - R * Real.cos a2 * Real.sin b2)
    + (R * Real.sin a1 * 1 - R * Real.sin a2 * 1) * (R * Real.sin a1 * 1 - R * Real.sin a2 * 1)
    = 4 * (R * R) * (Real.sin ((a2 - a1) / 2) * Real.sin ((a2 - a1) / 2)
        + Real.cos a1 * Real.cos a2 * (Real.sin ((b2 - b1) / 2) * Real.sin ((b2 - b1) / 2))) := by
  rw [sin_half_sq, sin_half_sq, Real.cos_sub, Real.cos_sub]
  have h1 := Real.sin_sq_add_cos_sq a1
  have h2 := Real.sin_sq_add_cos_sq a2
  have h3 := Real.sin_sq_add_cos_sq b1
  have h4 := Real.sin_sq_add_cos_sq b2
  linear_combination (R * R * Real.cos a1 ^ 2) * h3 + (R * R * Real.cos a2 ^ 2) * h4 + (R * R) * h1 + (R * R) * h2

/-! ### unfolding the model at ℝ -/

theorem latlon2pos_real (R lat lon : ℝ) :
    latlon2pos R lat lon = ⟨R * Real.cos (deg2rad lat) * Real.cos (deg2rad lon),
      R * Real.cos (deg2rad lat) * Real.sin (deg2rad lon), R * Real.sin (deg2rad lat) * 1⟩ := by
  simp [latlon2pos]

theorem havArg_real (lat1 lon1 lat2 lon2 : ℝ) :
    havArg lat1 lon1 lat2 lon2 =
      Real.sin ((deg2rad lat2 - deg2rad lat1) / 2) * Real.sin ((deg2rad lat2 - deg2rad lat1) / 2)
      + Real.cos (deg2rad lat1) * Real.cos (deg2rad lat2)
        * (Real.sin ((deg2rad lon2 - deg2rad lon1) / 2) * Real.sin ((deg2rad lon2 - deg2rad lon1) / 2)) := by
  simp [havArg, deg2rad_sub]

/-- the squared chord between two lat-lon points is `4R²·a` -/
theorem chord_sq (R lat1 lon1 lat2 lon2 : ℝ) :
    P3.normSq (P3.sub (latlon2pos R lat1 lon1) (latlon2pos R lat2 lon2)) = 4 * (R * R) * havArg lat1 lon1 lat2 lon2 := by
  rw [latlon2pos_real, latlon2pos_real, havArg_real]
  simp only [P3.sub, P3.normSq]
  exact chord_trig R _ _ _ _

theorem sphere_sq (R lat lon : ℝ) : P3.normSq (latlon2pos R lat lon) = R * R := by
  rw [latlon2pos_real]
  simp only [P3.normSq]
  exact sphere_trig R _ _

/-! ### the generated haversine kernel -/

/-- `GSV.Estimator.dist_haversine` on two points is `2·atan2(√a, √(1−a))` with `a = havArg` -/
theorem haversine_eq (lat1 lon1 lat2 lon2 : ℝ) :
    haversine lat1 lon1 lat2 lon2 =
      2 * Complex.arg ⟨Real.sqrt (1 - havArg lat1 lon1 lat2 lon2), Real.sqrt (havArg lat1 lon1 lat2 lon2)⟩ := by
  unfold haversine Estimator.dist_haversine havArg deg2rad
  simp only [rpow_real, sqrt_real, atan2_real, sin_real, cos_real, pi_real, Real.rpow_natCast]
  norm_num [sq]

/-- `atan2(√a, √(1−a)) = arcsin √a` on `[0, 1]` -/
theorem arg_unit {a : ℝ} (h0 : 0 ≤ a) (h1 : a ≤ 1) :
    Complex.arg ⟨Real.sqrt (1 - a), Real.sqrt a⟩ = Real.arcsin (Real.sqrt a) := by
  rw [Complex.arg_of_re_nonneg (by simp [Real.sqrt_nonneg])]
  have : ‖(⟨Real.sqrt (1 - a), Real.sqrt a⟩ : ℂ)‖ = 1 := by
    rw [Complex.norm_def, Complex.normSq_mk, Real.mul_self_sqrt (by linarith), Real.mul_self_sqrt h0]
    simp
  rw [this]; simp

/-! ### orthogonal maps of 3-space -/

/-- the linear map of 3-space with columns `c1 c2 c3` -/
def linMap (c1 c2 c3 p : P3 ℝ) : P3 ℝ :=
  ⟨p.x * c1.x + p.y * c2.x + p.z * c3.x, p.x * c1.y + p.y * c2.y + p.z * c3.y, p.x * c1.z + p.y * c2.z + p.z * c3.z⟩

/-- `QᵀQ = 1` -/
def Orthonormal3 (c1 c2 c3 : P3 ℝ) : Prop :=
  P3.dot c1 c1 = 1 ∧ P3.dot c2 c2 = 1 ∧ P3.dot c3 c3 = 1 ∧ P3.dot c1 c2 = 0 ∧ P3.dot c1 c3 = 0 ∧ P3.dot c2 c3 = 0

theorem linMap_isometry {c1 c2 c3 : P3 ℝ} (h : Orthonormal3 c1 c2 c3) (p q : P3 ℝ) :
    P3.normSq (P3.sub (linMap c1 c2 c3 p) (linMap c1 c2 c3 q)) = P3.normSq (P3.sub p q) := by
  obtain ⟨h1, h2, h3, h12, h13, h23⟩ := h
  simp only [P3.dot] at h1 h2 h3 h12 h13 h23
  simp only [linMap, P3.sub, P3.normSq]
  linear_combination (p.x - q.x) ^ 2 * h1 + (p.y - q.y) ^ 2 * h2 + (p.z - q.z) ^ 2 * h3
    + 2 * (p.x - q.x) * (p.y - q.y) * h12 + 2 * (p.x - q.x) * (p.z - q.z) * h13 + 2 * (p.y - q.y) * (p.z - q.z) * h23

/-- rotation about the polar axis by `δ` degrees -/
noncomputable def rotZ (δ : ℝ) : P3 ℝ × P3 ℝ × P3 ℝ :=
  (⟨Real.cos (deg2rad δ), Real.sin (deg2rad δ), 0⟩, ⟨-Real.sin (deg2rad δ), Real.cos (deg2rad δ), 0⟩, ⟨0, 0, 1⟩)

theorem rotZ_orthonormal (δ : ℝ) : Orthonormal3 (rotZ δ).1 (rotZ δ).2.1 (rotZ δ).2.2 := by
  have h := Real.sin_sq_add_cos_sq (deg2rad δ)
  simp only [Orthonormal3, rotZ, P3.dot]
  refine ⟨by nlinarith, by nlinarith, by ring, by ring, by ring, by ring⟩

theorem latlon2pos_lon_shift (R lat lon δ : ℝ) :
    latlon2pos R lat (lon + δ) = linMap (rotZ δ).1 (rotZ δ).2.1 (rotZ δ).2.2 (latlon2pos R lat lon) := by
  rw [latlon2pos_real, latlon2pos_real, deg2rad_add, Real.cos_add, Real.sin_add]
  simp only [linMap, rotZ, P3.mk.injEq]
  refine ⟨by ring, by ring, by ring⟩

/-! ### rotation matrices in general dimension -/

theorem matmul_real (d : ℕ) (A B : Mat ℝ) (i j : ℕ) :
    matmul d A B i j = ∑ k ∈ Finset.range d, A i k * B k j := by
  unfold matmul
  exact forRange_cast_zero_add_eq_sum d _

theorem eye_real (i j : ℕ) : (eye : Mat ℝ) i j = if i = j then 1 else 0 := by
  simp [eye]

theorem givens_zero {p : ℕ × ℕ} (hp : p.1 ≠ p.2) : givens p (0:ℝ) = eye := by
  funext i j
  simp only [givens, cos_real, sin_real, Real.cos_zero, Real.sin_zero, neg_zero, eye_real]
  by_cases h1 : i = p.1 <;> by_cases h2 : j = p.1 <;> by_cases h3 : i = p.2 <;> by_cases h4 : j = p.2 <;>
    simp_all

theorem altSign_mul_neg_zero (i : ℕ) : altSign i * (-(0:ℝ)) = 0 := by simp

/-- one step of the `matrix_derotate` loop -/
noncomputable def rotStep (d : ℕ) (res : Mat ℝ) (q : (ℝ × (ℕ × ℕ)) × ℕ) : Mat ℝ :=
  matmul d res (givens q.1.2 (altSign q.2 * (-q.1.1)))

theorem derotate_eq (d : ℕ) (angles : List ℝ) :
    derotate d angles = ((angles.zip (planes d)).zipIdx).foldl (rotStep d) eye := rfl

/-- the plane of the step lies inside the first `m` axes, or the step is a rotation by 0 -/
def GoodStep (m : ℕ) (q : (ℝ × (ℕ × ℕ)) × ℕ) : Prop :=
  (q.1.2.1 < q.1.2.2 ∧ q.1.2.2 < m) ∨ (q.1.1 = 0 ∧ q.1.2.1 ≠ q.1.2.2)

/-- row and column `m` of `M` are those of the identity (inside the first `m+1` axes) -/
def TimeFixed (m : ℕ) (M : Mat ℝ) : Prop :=
  (∀ j, j ≤ m → M m j = if j = m then 1 else 0) ∧ (∀ i, i ≤ m → M i m = if i = m then 1 else 0)

theorem timeFixed_eye (m : ℕ) : TimeFixed m eye := by
  constructor
  · intro k _; rw [eye_real]; by_cases h : k = m
    · simp [h]
    · simp [h, Ne.symm h]
  · intro k _; rw [eye_real]

theorem givens_outside {p : ℕ × ℕ} (θ : ℝ) {i j : ℕ} (h : (i ≠ p.1 ∧ i ≠ p.2) ∨ (j ≠ p.1 ∧ j ≠ p.2)) :
    givens p θ i j = eye i j := by
  simp only [givens]
  rcases h with ⟨h1, h2⟩ | ⟨h1, h2⟩ <;> simp [h1, h2]

theorem timeFixed_givens {m : ℕ} {q : (ℝ × (ℕ × ℕ)) × ℕ} (hq : GoodStep m q) :
    TimeFixed m (givens q.1.2 (altSign q.2 * (-q.1.1))) := by
  rcases hq with ⟨h1, h2⟩ | ⟨h1, h2⟩
  · have hm : m ≠ q.1.2.1 ∧ m ≠ q.1.2.2 := ⟨by omega, by omega⟩
    constructor <;> intro k _
    · rw [givens_outside _ (Or.inl hm)]; exact (timeFixed_eye m).1 k ‹_›
    · rw [givens_outside _ (Or.inr hm)]; exact (timeFixed_eye m).2 k ‹_›
  · rw [h1, altSign_mul_neg_zero, givens_zero h2]; exact timeFixed_eye m

theorem timeFixed_matmul {m : ℕ} {A B : Mat ℝ} (hA : TimeFixed m A) (hB : TimeFixed m B) :
    TimeFixed m (matmul (m + 1) A B) := by
  constructor
  · intro j hj
    rw [matmul_real, Finset.sum_eq_single m]
    · rw [hA.1 m le_rfl, hB.1 j hj]; simp
    · intro k hk hkm
      rw [hA.1 k (by have := Finset.mem_range.mp hk; omega)]; simp [hkm]
    · intro h; exact absurd (Finset.mem_range.mpr (Nat.lt_succ_self m)) h
  · intro i hi
    rw [matmul_real, Finset.sum_eq_single m]
    · rw [hB.2 m le_rfl, hA.2 i hi]; simp
    · intro k hk hkm
      rw [hB.2 k (by have := Finset.mem_range.mp hk; omega)]; simp [hkm]
    · intro h; exact absurd (Finset.mem_range.mpr (Nat.lt_succ_self m)) h

theorem timeFixed_fold {m : ℕ} (L : List ((ℝ × (ℕ × ℕ)) × ℕ)) (hL : ∀ q ∈ L, GoodStep m q)
    {M : Mat ℝ} (hM : TimeFixed m M) : TimeFixed m (L.foldl (rotStep (m + 1)) M) := by
  induction L generalizing M with
  | nil => exact hM
  | cons q L ih =>
    simp only [List.foldl_cons]
    exact ih (fun q' h => hL q' (List.mem_cons_of_mem _ h))
      (timeFixed_matmul hM (timeFixed_givens (hL q List.mem_cons_self)))

/-! ### structure of `rotation_planes` and of the zeroed angle list -/

theorem planes_succ (d : ℕ) : planes (d + 1) = planes d ++ (List.range d).map fun i => (i, d) := by
  cases d with
  | zero => simp [planes]
  | succ e =>
    unfold planes
    have : e + 1 + 1 - 1 = (e + 1 - 1) + 1 := by omega
    rw [this, List.range'_concat, List.flatMap_append]
    simp [Nat.add_comm]

theorem mem_planes {d : ℕ} {p : ℕ × ℕ} : p ∈ planes d ↔ p.1 < p.2 ∧ p.2 < d := by
  induction d with
  | zero => simp [planes]
  | succ d ih =>
    rw [planes_succ, List.mem_append, ih]
    obtain ⟨i, j⟩ := p
    simp only [List.mem_map, List.mem_range, Prod.mk.injEq]
    constructor
    · rintro (⟨h1, h2⟩ | ⟨a, ha, rfl, rfl⟩)
      · exact ⟨h1, by omega⟩
      · exact ⟨ha, by omega⟩
    · rintro ⟨h1, h2⟩
      by_cases hj : j < d
      · exact Or.inl ⟨h1, hj⟩
      · exact Or.inr ⟨i, by omega, rfl, by omega⟩

theorem noa_succ (d : ℕ) : noa (d + 1) = noa d + d := by
  unfold noa
  cases d with
  | zero => simp
  | succ e =>
    have : (e + 1 + 1) * (e + 1 + 1 - 1) = (e + 1) * (e + 1 - 1) + 2 * (e + 1) := by
      simp only [Nat.add_sub_cancel]; ring
    rw [this, Nat.add_mul_div_left _ _ (by norm_num : 0 < 2)]

theorem length_planes (d : ℕ) : (planes d).length = noa d := by
  induction d with
  | zero => simp [planes, noa]
  | succ d ih => rw [planes_succ, List.length_append, ih, noa_succ]; simp

/-- `set_model_angles(temporal=True)` keeps the first `no_of_angles(d-1)` angles and zeroes the rest -/
theorem modelAngles_temporal (d : ℕ) (angles : List ℝ) :
    modelAngles false true d angles
      = angles.take (noa (d - 1)) ++ List.replicate (angles.length - noa (d - 1)) 0 := by
  apply List.ext_getElem?
  intro k
  simp only [modelAngles, Bool.false_eq_true, if_false, if_true, List.getElem?_map, List.getElem?_zipIdx]
  rcases lt_or_ge k angles.length with hka | hka
  · rw [List.getElem?_eq_getElem hka]
    simp only [Option.map_some, Nat.zero_add]
    by_cases hk : k < noa (d - 1)
    · rw [List.getElem?_append_left (by rw [List.length_take]; omega), List.getElem?_take_of_lt hk,
        List.getElem?_eq_getElem hka]
      simp [hk]
    · rw [List.getElem?_append_right (by rw [List.length_take]; omega), List.length_take,
        List.getElem?_replicate]
      have : k - min (noa (d - 1)) angles.length < angles.length - noa (d - 1) := by omega
      simp [hk, this]
  · rw [List.getElem?_eq_none hka, List.getElem?_eq_none (by simp; omega)]
    simp

/-! ### decomposition of the rotation steps of a spatio-temporal model -/

/-- the list the `matrix_derotate` loop runs over -/
def steps (d : ℕ) (angles : List ℝ) : List ((ℝ × (ℕ × ℕ)) × ℕ) := ((angles.zip (planes d)).zipIdx)

theorem derotate_steps (d : ℕ) (angles : List ℝ) : derotate d angles = (steps d angles).foldl (rotStep d) eye := rfl

theorem steps_temporal (m : ℕ) (angles : List ℝ) (hlen : noa m ≤ angles.length) :
    steps (m + 1) (modelAngles false true (m + 1) angles)
      = steps m (angles.take (noa m))
        ++ ((List.replicate (angles.length - noa m) (0:ℝ)).zip ((List.range m).map fun i => (i, m))).zipIdx (noa m) := by
  unfold steps
  rw [modelAngles_temporal, Nat.add_sub_cancel, planes_succ,
    List.zip_append (by rw [List.length_take, length_planes]; omega), List.zipIdx_append]
  congr 2
  rw [List.length_zip, List.length_take, length_planes]; omega

theorem good_steps_spatial (m : ℕ) (angles : List ℝ) : ∀ q ∈ steps m angles, GoodStep m q := by
  intro q hq
  have h1 := List.fst_mem_of_mem_zipIdx hq
  have h2 := (List.of_mem_zip (a := q.1.1) (b := q.1.2) (by simpa using h1)).2
  exact Or.inl (mem_planes.mp h2)

theorem good_steps_time (m n k : ℕ) :
    ∀ q ∈ ((List.replicate n (0:ℝ)).zip ((List.range m).map fun i => (i, m))).zipIdx k,
      q.1.1 = 0 ∧ q.1.2.1 ≠ q.1.2.2 := by
  intro q hq
  have h1 := List.fst_mem_of_mem_zipIdx hq
  obtain ⟨ha, hp⟩ := List.of_mem_zip (a := q.1.1) (b := q.1.2) (by simpa using h1)
  refine ⟨List.eq_of_mem_replicate ha, ?_⟩
  simp only [List.mem_map, List.mem_range] at hp
  obtain ⟨i, hi, hq2⟩ := hp
  rw [← hq2]; simp; omega

/-- `derotate` of a spatio-temporal model leaves the time axis alone -/
theorem timeFixed_derotate (m : ℕ) (angles : List ℝ) (hlen : noa m ≤ angles.length) :
    TimeFixed m (derotate (m + 1) (modelAngles false true (m + 1) angles)) := by
  rw [derotate_steps, steps_temporal m angles hlen]
  apply timeFixed_fold _ _ (timeFixed_eye m)
  intro q hq
  rcases List.mem_append.mp hq with h | h
  · exact good_steps_spatial m _ q h
  · exact Or.inr (good_steps_time m _ _ q h)

/-- agreement on the leading `m × m` block -/
def Agree (m : ℕ) (M M' : Mat ℝ) : Prop := ∀ i j, i < m → j < m → M i j = M' i j

theorem agree_step {m : ℕ} {q : (ℝ × (ℕ × ℕ)) × ℕ} (hq : GoodStep m q) {M M' : Mat ℝ} (h : Agree m M M') :
    Agree m (rotStep (m + 1) M q) (rotStep m M' q) := by
  intro i j hi hj
  simp only [rotStep, matmul_real, Finset.sum_range_succ]
  have hG := (timeFixed_givens hq).1 j hj.le
  rw [hG, if_neg (by omega), mul_zero, add_zero]
  exact Finset.sum_congr rfl fun k hk => by rw [h i k hi (Finset.mem_range.mp hk)]

theorem agree_fold {m : ℕ} (L : List ((ℝ × (ℕ × ℕ)) × ℕ)) (hL : ∀ q ∈ L, GoodStep m q) {M M' : Mat ℝ}
    (h : Agree m M M') : Agree m (L.foldl (rotStep (m + 1)) M) (L.foldl (rotStep m) M') := by
  induction L generalizing M M' with
  | nil => exact h
  | cons q L ih =>
    simp only [List.foldl_cons]
    exact ih (fun q' h' => hL q' (List.mem_cons_of_mem _ h')) (agree_step (hL q List.mem_cons_self) h)

theorem agree_zero_step {m : ℕ} {q : (ℝ × (ℕ × ℕ)) × ℕ} (hq : q.1.1 = 0 ∧ q.1.2.1 ≠ q.1.2.2) (M : Mat ℝ) :
    Agree m (rotStep m M q) M := by
  intro i j _ hj
  simp only [rotStep, matmul_real]
  rw [hq.1, altSign_mul_neg_zero, givens_zero hq.2, Finset.sum_eq_single j]
  · rw [eye_real]; simp
  · intro k _ hkj; rw [eye_real]; simp [hkj]
  · intro h; exact absurd (Finset.mem_range.mpr hj) h

theorem agree_zero_fold {m : ℕ} (L : List ((ℝ × (ℕ × ℕ)) × ℕ)) (hL : ∀ q ∈ L, q.1.1 = 0 ∧ q.1.2.1 ≠ q.1.2.2)
    (M : Mat ℝ) : Agree m (L.foldl (rotStep m) M) M := by
  induction L generalizing M with
  | nil => intro i j _ _; rfl
  | cons q L ih =>
    simp only [List.foldl_cons]
    intro i j hi hj
    rw [ih (fun q' h' => hL q' (List.mem_cons_of_mem _ h')) _ i j hi hj]
    exact agree_zero_step (hL q List.mem_cons_self) M i j hi hj

/-- the spatial block of `derotate` is the `derotate` of the purely spatial model -/
theorem agree_derotate (m : ℕ) (angles : List ℝ) (hlen : noa m ≤ angles.length) :
    Agree m (derotate (m + 1) (modelAngles false true (m + 1) angles)) (derotate m (angles.take (noa m))) := by
  rw [derotate_steps, derotate_steps, steps_temporal m angles hlen]
  intro i j hi hj
  have hgood : ∀ q ∈ steps m (angles.take (noa m))
        ++ ((List.replicate (angles.length - noa m) (0:ℝ)).zip ((List.range m).map fun i => (i, m))).zipIdx (noa m),
      GoodStep m q := by
    intro q hq
    rcases List.mem_append.mp hq with h | h
    · exact good_steps_spatial m _ q h
    · exact Or.inr (good_steps_time m _ _ q h)
  rw [agree_fold _ hgood (M' := eye) (fun _ _ _ _ => rfl) i j hi hj, List.foldl_append]
  exact agree_zero_fold _ (good_steps_time m _ _) _ i j hi hj

theorem isotropify_real (anis : List ℝ) (i j : ℕ) :
    isotropify anis i j = if i = j then (if i = 0 then 1 else 1 / anis.getD (i - 1) 1) else 0 := by
  simp [isotropify]

theorem applyMat_real (d : ℕ) (M : Mat ℝ) (x : ℕ → ℝ) (i : ℕ) :
    applyMat d M x i = ∑ k ∈ Finset.range d, M i k * x k := by
  unfold applyMat
  exact forRange_cast_zero_add_eq_sum d _

/-- `isotropify · D` scales row `i` of `D` -/
theorem isotropify_matmul (d : ℕ) (anis : List ℝ) (D : Mat ℝ) {i : ℕ} (hi : i < d) (j : ℕ) :
    matmul d (isotropify anis) D i j = isotropify anis i i * D i j := by
  rw [matmul_real, Finset.sum_eq_single i]
  · intro k _ hk; rw [isotropify_real, if_neg (Ne.symm hk)]; simp
  · intro h; exact absurd (Finset.mem_range.mpr hi) h

/-! ### `standard_bins`: units

`geo_scale = R > 0` enters the lat-lon branch only as a common factor of every length: the automatic cut-off
computed on the sphere of radius `R` is `R` times the one computed on the unit sphere, and a given `max_dist`
is used as it is.  Hence the same call in another unit gives the same bins, scaled. -/

theorem minList_scale {R : ℝ} (hR : 0 < R) (xs : List ℝ) (d : ℝ) :
    minList (xs.map (R * ·)) (R * d) = R * minList xs d := by
  unfold minList
  induction xs generalizing d with
  | nil => rfl
  | cons b xs ih =>
    simp only [List.map_cons, List.foldl_cons]
    have : (if R * b < R * d then R * b else R * d) = R * (if b < d then b else d) := by
      by_cases h : b < d
      · rw [if_pos h, if_pos (mul_lt_mul_of_pos_left h hR)]
      · rw [if_neg h, if_neg (fun h' => h (lt_of_mul_lt_mul_left h' hR.le))]
    rw [this, ih]

theorem maxList_scale {R : ℝ} (hR : 0 < R) (xs : List ℝ) (d : ℝ) :
    maxList (xs.map (R * ·)) (R * d) = R * maxList xs d := by
  unfold maxList
  induction xs generalizing d with
  | nil => rfl
  | cons b xs ih =>
    simp only [List.map_cons, List.foldl_cons]
    have : (if R * d < R * b then R * b else R * d) = R * (if d < b then b else d) := by
      by_cases h : d < b
      · rw [if_pos h, if_pos (mul_lt_mul_of_pos_left h hR)]
      · rw [if_neg h, if_neg (fun h' => h (lt_of_mul_lt_mul_left h' hR.le))]
    rw [this, ih]

theorem axisExt_scale {R : ℝ} (hR : 0 < R) (xs : List ℝ) : axisExt (xs.map (R * ·)) = R * axisExt xs := by
  have hh : (xs.map (R * ·)).headD ((0:ℕ):ℝ) = R * xs.headD ((0:ℕ):ℝ) := by
    cases xs <;> simp
  simp only [axisExt, hh, minList_scale hR, maxList_scale hR]
  ring

theorem foldl_add_scale (c : ℝ) (l : List ℝ) (a : ℝ) :
    (l.map (c * ·)).foldl (fun a b => a + b) (c * a) = c * l.foldl (fun a b => a + b) a := by
  induction l generalizing a with
  | nil => rfl
  | cons b l ih =>
    simp only [List.map_cons, List.foldl_cons]
    rw [← mul_add, ih]

theorem boxDiam_scale {R : ℝ} (hR : 0 < R) (axes : List (List ℝ)) :
    boxDiam (axes.map fun xs => xs.map (R * ·)) = R * boxDiam axes := by
  unfold boxDiam
  simp only [sqrt_real, List.map_map]
  have h1 : (fun xs : List ℝ => axisExt xs * axisExt xs) ∘ (fun xs : List ℝ => xs.map (R * ·))
      = (fun x : ℝ => (R * R) * x) ∘ (fun xs : List ℝ => axisExt xs * axisExt xs) := by
    funext xs
    simp only [Function.comp, axisExt_scale hR]
    ring
  rw [h1, ← List.map_map]
  have key := foldl_add_scale (R * R) (axes.map fun xs => axisExt xs * axisExt xs) 0
  rw [mul_zero] at key
  simp only [Nat.cast_zero]
  rw [key, Real.sqrt_mul (mul_self_nonneg R), Real.sqrt_mul_self hR.le]

theorem latlon2pos_scale (R lat lon : ℝ) :
    latlon2pos R lat lon = ⟨R * (latlon2pos 1 lat lon).x, R * (latlon2pos 1 lat lon).y, R * (latlon2pos 1 lat lon).z⟩ := by
  rw [latlon2pos_real, latlon2pos_real]
  simp only [P3.mk.injEq]
  refine ⟨by ring, by ring, by ring⟩

theorem sphereAxes_scale (R : ℝ) (axes : List (List ℝ)) :
    sphereAxes R axes = (sphereAxes 1 axes).map fun xs => xs.map (R * ·) := by
  simp only [sphereAxes, List.map_map, List.map_cons, List.map_nil]
  refine congrArg₂ _ ?_ (congrArg₂ _ ?_ (congrArg₂ _ ?_ rfl)) <;>
  · refine List.map_congr_left fun q _ => ?_
    simp only [Function.comp]
    rw [latlon2pos_scale]

theorem c2g_scale {R : ℝ} (hR : 0 < R) (d : ℝ) :
    chordal_to_great_circle R (R * d) = R * chordal_to_great_circle 1 d := by
  simp only [chordal_to_great_circle, asin_real]
  have : R * d / (((2:ℕ):ℝ) * R) = d / (((2:ℕ):ℝ) * 1) := by
    push_cast; field_simp
  rw [this]; ring

/-- the automatic cut-off of the lat-lon branch is in the unit of `geo_scale` -/
theorem stdDiam_latlon_scale {R : ℝ} (hR : 0 < R) (axes : List (List ℝ)) :
    stdDiam true R axes = R * stdDiam true 1 axes := by
  simp only [stdDiam, if_true]
  rw [sphereAxes_scale, boxDiam_scale hR, c2g_scale hR]

theorem linspace0_scale (R m : ℝ) (n : ℕ) : linspace0 (R * m) n = (linspace0 m n).map (R * ·) := by
  unfold linspace0
  by_cases h : n = 0
  · simp [h]
  · simp only [h, if_false, List.map_map]
    refine List.map_congr_left fun i _ => ?_
    simp only [Function.comp]
    by_cases hi : i = n
    · simp [hi]
    · simp only [hi, if_false]; ring

/-- **unit change of `standard_bins`**: with `geo_scale = R` and the cut-off given in that unit (`R·m`) the edges
    are `R` times the edges of the radian call with cut-off `m`; likewise when the cut-off is derived from the points -/
theorem standardBins_geo_scale {R : ℝ} (hR : 0 < R) (pos : Option (List (List ℝ))) (binNo : Option ℕ) (maxDist : Option ℝ) :
    standardBins true R pos binNo (maxDist.map (R * ·))
      = (standardBins true 1 pos binNo maxDist).map (fun e => e.map (R * ·)) := by
  cases binNo <;> cases maxDist <;> cases pos <;>
    simp only [standardBins, Option.map_some, Option.map_none, Except.map, linspace0_scale,
      stdDiam_latlon_scale hR, mul_div_assoc]

/-- the old single-purpose model of the fully automatic lat-lon cut-off is the general one -/
theorem stdMaxDist_eq (R : ℝ) (lats lons : List ℝ) :
    stdMaxDist R lats lons = stdDiam true R [lats, lons] / ((3:ℕ):ℝ) := by
  simp [stdMaxDist, stdDiam, sphereAxes, boxDiam, axisExt]

/-! ### materialised rotation loops agree with the closure forms on the `d × d` block -/

theorem ofArr_tabArr {d : ℕ} (f : Mat ℝ) {i j : ℕ} (hi : i < d) (hj : j < d) :
    ofArr d (tabArr d f) i j = f i j := by
  have hsz : (tabArr d f).size = d * d := by simp [tabArr]
  have hlt : j + i * d < d * d := by
    calc j + i * d < d + i * d := by omega
      _ = (i + 1) * d := by ring
      _ ≤ d * d := Nat.mul_le_mul_right d (by omega)
  have hd : 0 < d := by omega
  unfold ofArr
  rw [dif_pos ⟨hj, by rw [hsz]; exact hlt⟩]
  simp only [tabArr, Array.getElem_ofFn]
  rw [Nat.add_mul_div_right _ _ hd, Nat.add_mul_mod_self_right, Nat.div_eq_of_lt hj, Nat.mod_eq_of_lt hj,
    Nat.zero_add]

theorem agree_tab (d : ℕ) (f : Mat ℝ) : Agree d (ofArr d (tabArr d f)) f :=
  fun _ _ hi hj => ofArr_tabArr f hi hj

theorem agree_matmul {d : ℕ} {A A' B B' : Mat ℝ} (hA : Agree d A A') (hB : Agree d B B') :
    Agree d (matmul d A B) (matmul d A' B') := by
  intro i j hi hj
  rw [matmul_real, matmul_real]
  exact Finset.sum_congr rfl fun k hk => by
    rw [hA i k hi (Finset.mem_range.mp hk), hB k j (Finset.mem_range.mp hk) hj]

theorem agree_refl (d : ℕ) (M : Mat ℝ) : Agree d M M := fun _ _ _ _ => rfl

theorem agree_trans {d : ℕ} {A B C : Mat ℝ} (h1 : Agree d A B) (h2 : Agree d B C) : Agree d A C :=
  fun i j hi hj => (h1 i j hi hj).trans (h2 i j hi hj)

theorem agree_derotateA_fold (d : ℕ) (L : List ((ℝ × (ℕ × ℕ)) × ℕ)) (r : Array ℝ) (M : Mat ℝ)
    (h : Agree d (ofArr d r) M) :
    Agree d (ofArr d (L.foldl (fun (res : Array ℝ) (q : (ℝ × (ℕ × ℕ)) × ℕ) =>
        tabArr d (matmul d (ofArr d res) (givens q.1.2 (altSign q.2 * (-q.1.1))))) r))
      (L.foldl (rotStep d) M) := by
  induction L generalizing r M with
  | nil => exact h
  | cons q L ih =>
    simp only [List.foldl_cons]
    exact ih _ _ (agree_trans (agree_tab d _) (agree_matmul h (agree_refl d _)))

/-- the loop of `matrix_derotate` with a materialised running result is `derotate` -/
theorem agree_derotateA (d : ℕ) (angles : List ℝ) : Agree d (ofArr d (derotateA d angles)) (derotate d angles) := by
  rw [derotate_eq]
  exact agree_derotateA_fold d _ _ _ (agree_tab d eye)

theorem agree_rotateA_fold (d : ℕ) (L : List ((ℝ × (ℕ × ℕ)) × ℕ)) (r : Array ℝ) (M : Mat ℝ)
    (h : Agree d (ofArr d r) M) :
    Agree d (ofArr d (L.foldl (fun (res : Array ℝ) (q : (ℝ × (ℕ × ℕ)) × ℕ) =>
        tabArr d (matmul d (givens q.1.2 (altSign q.2 * q.1.1)) (ofArr d res))) r))
      (L.foldl (fun (res : Mat ℝ) (q : (ℝ × (ℕ × ℕ)) × ℕ) => matmul d (givens q.1.2 (altSign q.2 * q.1.1)) res) M) := by
  induction L generalizing r M with
  | nil => exact h
  | cons q L ih =>
    simp only [List.foldl_cons]
    exact ih _ _ (agree_trans (agree_tab d _) (agree_matmul (agree_refl d _) h))

theorem agree_rotateA (d : ℕ) (angles : List ℝ) : Agree d (ofArr d (rotateA d angles)) (rotate d angles) :=
  agree_rotateA_fold d _ _ _ (agree_tab d eye)

/-- what the driver computes for `matrix_isometrize` is `matIsometrize` -/
theorem agree_matIsometrizeA (d : ℕ) (angles anis : List ℝ) :
    Agree d (ofArr d (matIsometrizeA d angles anis)) (matIsometrize d angles anis) :=
  agree_trans (agree_tab d _) (agree_matmul (agree_refl d _) (agree_derotateA d angles))

theorem agree_matAnisometrizeA (d : ℕ) (angles anis : List ℝ) :
    Agree d (ofArr d (matAnisometrizeA d angles anis)) (matAnisometrize d angles anis) :=
  agree_trans (agree_tab d _) (agree_matmul (agree_rotateA d angles) (agree_refl d _))

theorem applyMat_agree {d : ℕ} {M M' : Mat ℝ} (h : Agree d M M') (x : ℕ → ℝ) {i : ℕ} (hi : i < d) :
    applyMat d M x i = applyMat d M' x i := by
  rw [applyMat_real, applyMat_real]
  exact Finset.sum_congr rfl fun k hk => by rw [h i k hi (Finset.mem_range.mp hk)]

/-! ### the setters -/

theorem length_setAngles (d : ℕ) (as : List ℝ) : (setAngles d as).length = noa d := by
  simp only [setAngles, List.length_append, List.length_take, List.length_replicate]; omega

theorem length_setAnis (d : ℕ) (an : List ℝ) : (setAnis d an).length = d - 1 := by
  simp only [setAnis, List.length_append, List.length_take, List.length_replicate]; omega

theorem setAnis_id {d : ℕ} {an : List ℝ} (h : an.length = d - 1) : setAnis d an = an := by
  simp [setAnis, List.take_of_length_le (le_of_eq h), h]

theorem setAnis_pos {d : ℕ} {an : List ℝ} (h : ∀ a ∈ an, 0 < a) : ∀ a ∈ setAnis d an, 0 < a := by
  intro a ha
  simp only [setAnis, List.mem_append, List.mem_replicate] at ha
  rcases ha with ⟨_, rfl⟩ | ha
  · norm_num
  · exact h a (List.mem_of_mem_take ha)

theorem length_modelAnis (latlon : Bool) (an : List ℝ) : (modelAnis latlon an).length = an.length := by
  cases latlon <;> simp [modelAnis]

theorem modelAnis_pos (latlon : Bool) {an : List ℝ} (h : ∀ a ∈ an, 0 < a) : ∀ a ∈ modelAnis latlon an, 0 < a := by
  cases latlon with
  | false => simpa [modelAnis] using h
  | true =>
    intro a ha
    simp only [modelAnis, if_true, List.mem_map] at ha
    obtain ⟨⟨b, k⟩, hb, rfl⟩ := ha
    by_cases hk : k < 2
    · simp [hk]
    · simp only [hk, if_false]
      exact h b (List.fst_mem_of_mem_zipIdx hb)

/-- lat-lon: the two spatial ratios are 1 -/
theorem modelAnis_latlon_take (an : List ℝ) (h : 2 ≤ an.length) : (modelAnis true an).take 2 = [1, 1] := by
  match an, h with
  | a :: b :: t, _ => simp [modelAnis, List.zipIdx_cons]

/-- the time ratio (any ratio after the first two) is kept -/
theorem modelAnis_latlon_getD (an : List ℝ) {k : ℕ} (hk : 2 ≤ k) (dflt : ℝ) :
    (modelAnis true an).getD k dflt = an.getD k dflt := by
  simp only [modelAnis, if_true, List.getD_eq_getElem?_getD, List.getElem?_map, List.getElem?_zipIdx]
  cases h : an[k]? with
  | none => rfl
  | some v =>
    simp only [Option.map_some, Option.getD_some, Nat.zero_add]
    rw [if_neg (by omega)]

/-- whatever `set_len_anis` accepts: `dim - 1` positive ratios; lat-lon: the first two are 1 -/
theorem setLenAnis_ok {latlon : Bool} {d : ℕ} {ls anis : List ℝ} {l0 : ℝ} {an : List ℝ}
    (h : setLenAnis latlon d ls anis = .ok (l0, an)) :
    an.length = d - 1 ∧ (∀ a ∈ an, 0 < a) ∧ (latlon = true → 3 ≤ d → an.take 2 = [1, 1]) := by
  unfold setLenAnis at h
  cases ht : List.take d ls with
  | nil => rw [ht] at h; exact absurd h (by simp)
  | cons l0' rest =>
    rw [ht] at h
    simp only at h
    have key : ∀ O : List ℝ, O.length = d - 1 →
        (if (O.all fun a => decide (((0:Nat):ℝ) < a)) = true then Except.ok (l0', modelAnis latlon O)
          else (Except.error "ValueError" : Except String (ℝ × List ℝ))) = .ok (l0, an) →
        an.length = d - 1 ∧ (∀ a ∈ an, 0 < a) ∧ (latlon = true → 3 ≤ d → an.take 2 = [1, 1]) := by
      intro O hlen hO
      by_cases hall : (O.all fun a => decide (((0:Nat):ℝ) < a)) = true
      · rw [if_pos hall] at hO
        simp only [Except.ok.injEq, Prod.mk.injEq] at hO
        obtain ⟨_, rfl⟩ := hO
        have hpos : ∀ a ∈ O, 0 < a := fun a ha => by simpa using List.all_eq_true.1 hall a ha
        refine ⟨by rw [length_modelAnis, hlen], modelAnis_pos latlon hpos, ?_⟩
        intro hl hd
        subst hl
        exact modelAnis_latlon_take _ (by rw [hlen]; omega)
      · rw [if_neg hall] at hO; exact absurd hO (by simp)
    by_cases hr : rest.length = 0
    · simp only [hr, if_true] at h
      exact key _ (length_setAnis d anis) h
    · simp only [hr, if_false] at h
      exact key _ (by simp) h

theorem setLenAnis_single {d : ℕ} (hd : 1 ≤ d) (l : ℝ) {anis : List ℝ} (hlen : anis.length = d - 1) (h : ∀ a ∈ anis, 0 < a) :
    setLenAnis false d [l] anis = .ok (l, anis) := by
  have ht : List.take d [l] = [l] := by
    obtain ⟨e, rfl⟩ : ∃ e, d = e + 1 := ⟨d - 1, by omega⟩
    simp
  simp only [setLenAnis, ht, List.length_nil, if_true, setAnis_id hlen, modelAnis, Bool.false_eq_true, if_false]
  rw [if_pos]
  simp only [List.all_eq_true, decide_eq_true_eq, Nat.cast_zero]
  exact h

/-! ### `set_model_angles` -/

theorem length_modelAngles (latlon temporal : Bool) (d : ℕ) (as : List ℝ) (h : as.length = noa d) :
    (modelAngles latlon temporal d as).length = noa d := by
  cases latlon <;> cases temporal <;> simp [modelAngles, h]

theorem length_setModelAngles (latlon temporal : Bool) (d : ℕ) (v : List ℝ) :
    (setModelAngles latlon temporal d v).length = noa d :=
  length_modelAngles _ _ _ _ (length_setAngles d v)

theorem setModelAngles_latlon (temporal : Bool) (d : ℕ) (v : List ℝ) :
    ∀ a ∈ setModelAngles true temporal d v, a = 0 := by
  intro a ha
  simp only [setModelAngles, modelAngles, if_true, List.mem_replicate] at ha
  simpa using ha.2

/-- temporal: every angle whose plane contains the time axis is zero -/
theorem setModelAngles_temporal_zero (d : ℕ) (v : List ℝ) {k : ℕ} (hk : noa (d - 1) ≤ k) :
    (setModelAngles false true d v).getD k 0 = 0 := by
  simp only [setModelAngles, modelAngles, Bool.false_eq_true, if_false, if_true, List.getD_eq_getElem?_getD,
    List.getElem?_map, List.getElem?_zipIdx]
  cases h : (setAngles d v)[k]? with
  | none => simp
  | some a => simp; omega

/-- normalising twice changes nothing -/
theorem modelAngles_idem (latlon temporal : Bool) (d : ℕ) (as : List ℝ) :
    modelAngles latlon temporal d (modelAngles latlon temporal d as) = modelAngles latlon temporal d as := by
  cases latlon with
  | true => simp [modelAngles]
  | false =>
    cases temporal with
    | false => simp [modelAngles]
    | true =>
      simp only [modelAngles, Bool.false_eq_true, if_false, if_true]
      apply List.ext_getElem
      · simp
      · intro n h1 h2
        simp only [List.getElem_map, List.getElem_zipIdx, Nat.zero_add]
        split <;> rfl

end GSV.Model.LatLon
