/-
  Helper lemmas for C13 (lat-lon / spatio-temporal geometry): the ℝ instance of the local `Asin`
  operation, clipping, degree/radian conversion, the pure-trigonometric cores of the sphere identities
  and the reduction of the generated haversine kernel to `2·arcsin √a`.
-/
import GSV.RealInst
import GSV.Model.LatLon
import Mathlib.Analysis.SpecialFunctions.Trigonometric.Complex
import Mathlib.Tactic.Ring
import Mathlib.Tactic.Linarith
import Mathlib.Tactic.LinearCombination
import Mathlib.Tactic.FieldSimp
import Mathlib.Tactic.Positivity
namespace GSV.Model.LatLon
open scoped Real

noncomputable instance instAsinReal : Asin ℝ := ⟨Real.arcsin⟩
@[simp] theorem asin_real (x : ℝ) : Asin.asin x = Real.arcsin x := rfl

/-! ### clipping -/

theorem clip_eq (lo hi x : ℝ) : clip lo hi x = max (min x hi) lo := by
  unfold clip
  simp only
  split_ifs with h1 h2 h2
  · rw [min_eq_right h1.le, max_eq_right h2.le]
  · rw [min_eq_right h1.le, max_eq_left (not_lt.mp h2)]
  · rw [min_eq_left (not_lt.mp h1), max_eq_right h2.le]
  · rw [min_eq_left (not_lt.mp h1), max_eq_left (not_lt.mp h2)]

theorem clip_of_mem {lo hi x : ℝ} (h1 : lo ≤ x) (h2 : x ≤ hi) : clip lo hi x = x := by
  rw [clip_eq, min_eq_left h2, max_eq_left h1]

theorem clip_mem {lo hi : ℝ} (h : lo ≤ hi) (x : ℝ) : lo ≤ clip lo hi x ∧ clip lo hi x ≤ hi := by
  rw [clip_eq]
  exact ⟨le_max_right _ _, max_le (min_le_right _ _) h⟩

/-! ### degrees and radians -/

theorem deg2rad_real (x : ℝ) : deg2rad x = x * (π / 180) := by
  simp [deg2rad]

theorem deg2rad_sub (x y : ℝ) : deg2rad (x - y) = deg2rad x - deg2rad y := by
  simp only [deg2rad]; ring

theorem deg2rad_add (x y : ℝ) : deg2rad (x + y) = deg2rad x + deg2rad y := by
  simp only [deg2rad]; ring

theorem rad2deg_deg2rad (x : ℝ) : rad2deg (deg2rad x) = x := by
  simp only [deg2rad, rad2deg, pi_real]
  have := Real.pi_ne_zero
  push_cast
  field_simp

theorem deg2rad_rad2deg (x : ℝ) : deg2rad (rad2deg x) = x := by
  simp only [deg2rad, rad2deg, pi_real]
  have := Real.pi_ne_zero
  push_cast
  field_simp

theorem deg2rad_le {x y : ℝ} (h : x ≤ y) : deg2rad x ≤ deg2rad y := by
  rw [deg2rad_real, deg2rad_real]
  exact mul_le_mul_of_nonneg_right h (by positivity)

theorem deg2rad_lt {x y : ℝ} (h : x < y) : deg2rad x < deg2rad y := by
  rw [deg2rad_real, deg2rad_real]
  exact mul_lt_mul_of_pos_right h (by positivity)

theorem deg2rad_90 : deg2rad (90 : ℝ) = π / 2 := by rw [deg2rad_real]; ring
theorem deg2rad_neg90 : deg2rad (-90 : ℝ) = -(π / 2) := by rw [deg2rad_real]; ring
theorem deg2rad_180 : deg2rad (180 : ℝ) = π := by rw [deg2rad_real]; ring
theorem deg2rad_neg180 : deg2rad (-180 : ℝ) = -π := by rw [deg2rad_real]; ring
theorem deg2rad_360_mul (k : ℤ) : deg2rad (360 * (k : ℝ)) = (k : ℝ) * (2 * π) := by rw [deg2rad_real]; ring

/-! ### trigonometric cores -/

theorem sin_half_sq (x : ℝ) : Real.sin (x / 2) * Real.sin (x / 2) = (1 - Real.cos x) / 2 := by
  have h1 : Real.cos x = 2 * Real.cos (x / 2) ^ 2 - 1 := by
    rw [← Real.cos_two_mul]; congr 1; ring
  have h2 := Real.sin_sq_add_cos_sq (x / 2)
  nlinarith [h1, h2]

/-- pure-trig core of `on_sphere` -/
theorem sphere_trig (R a b : ℝ) :
    (R * Real.cos a * Real.cos b) * (R * Real.cos a * Real.cos b)
      + (R * Real.cos a * Real.sin b) * (R * Real.cos a * Real.sin b)
      + (R * Real.sin a * 1) * (R * Real.sin a * 1) = R * R := by
  have h1 := Real.sin_sq_add_cos_sq a
  have h2 := Real.sin_sq_add_cos_sq b
  linear_combination (R * R * Real.cos a ^ 2) * h2 + (R * R) * h1

/-- pure-trig core of `chord_is_haversine` -/
theorem chord_trig (R a1 b1 a2 b2 : ℝ) :
    (R * Real.cos a1 * Real.cos b1 - R * Real.cos a2 * Real.cos b2) * (R * Real.cos a1 * Real.cos b1 - R * Real.cos a2 * Real.cos b2)
    + (R * Real.cos a1 * Real.sin b1 - R * Real.cos a2 * Real.sin b2) * (R * Real.cos a1 * Real.sin b1 - R * Real.cos a2 * Real.sin b2)
    + (R * Real.sin a1 * 1 - R * Real.sin a2 * 1) * (R * Real.sin a1 * 1 - R * Real.sin a2 * 1)
    = 4 * (R * R) * (Real.sin ((a2 - a1) / 2) * Real.sin ((a2 - a1) / 2)
        + Real.cos a1 * Real.cos a2 * (Real.sin ((b2 - b1) / 2) * Real.sin ((b2 - b1) / 2))) := by
  rw [sin_half_sq, sin_half_sq, Real.cos_sub, Real.cos_sub]
  have h1 := Real.sin_sq_add_cos_sq a1
  have h2 := Real.sin_sq_add_cos_sq a2
  have h3 := Real.sin_sq_add_cos_sq b1
  have h4 := Real.sin_sq_add_cos_sq b2
  linear_combination (R * R * Real.cos a1 ^ 2) * h3 + (R * R * Real.cos a2 ^ 2) * h4 + (R * R) * h1 + (R * R) * h2

/-! ### unfolding the model at ℝ -/

theorem latlon2pos_real (R lat lon : ℝ) :
    latlon2pos R lat lon = ⟨R * Real.cos (deg2rad lat) * Real.cos (deg2rad lon),
      R * Real.cos (deg2rad lat) * Real.sin (deg2rad lon), R * Real.sin (deg2rad lat) * 1⟩ := by
  simp [latlon2pos]

theorem havArg_real (lat1 lon1 lat2 lon2 : ℝ) :
    havArg lat1 lon1 lat2 lon2 =
      Real.sin ((deg2rad lat2 - deg2rad lat1) / 2) * Real.sin ((deg2rad lat2 - deg2rad lat1) / 2)
      + Real.cos (deg2rad lat1) * Real.cos (deg2rad lat2)
        * (Real.sin ((deg2rad lon2 - deg2rad lon1) / 2) * Real.sin ((deg2rad lon2 - deg2rad lon1) / 2)) := by
  simp [havArg, deg2rad_sub]

/-- the squared chord between two lat-lon points is `4R²·a` -/
theorem chord_sq (R lat1 lon1 lat2 lon2 : ℝ) :
    P3.normSq (P3.sub (latlon2pos R lat1 lon1) (latlon2pos R lat2 lon2)) = 4 * (R * R) * havArg lat1 lon1 lat2 lon2 := by
  rw [latlon2pos_real, latlon2pos_real, havArg_real]
  simp only [P3.sub, P3.normSq]
  exact chord_trig R _ _ _ _

theorem sphere_sq (R lat lon : ℝ) : P3.normSq (latlon2pos R lat lon) = R * R := by
  rw [latlon2pos_real]
  simp only [P3.normSq]
  exact sphere_trig R _ _

/-! ### the generated haversine kernel -/

/-- `GSV.Estimator.dist_haversine` on two points is `2·atan2(√a, √(1−a))` with `a = havArg` -/
theorem haversine_eq (lat1 lon1 lat2 lon2 : ℝ) :
    haversine lat1 lon1 lat2 lon2 =
      2 * Complex.arg ⟨Real.sqrt (1 - havArg lat1 lon1 lat2 lon2), Real.sqrt (havArg lat1 lon1 lat2 lon2)⟩ := by
  unfold haversine Estimator.dist_haversine havArg deg2rad
  simp only [rpow_real, sqrt_real, atan2_real, sin_real, cos_real, pi_real, Real.rpow_natCast]
  norm_num [sq]

/-- `atan2(√a, √(1−a)) = arcsin √a` on `[0, 1]` -/
theorem arg_unit {a : ℝ} (h0 : 0 ≤ a) (h1 : a ≤ 1) :
    Complex.arg ⟨Real.sqrt (1 - a), Real.sqrt a⟩ = Real.arcsin (Real.sqrt a) := by
  rw [Complex.arg_of_re_nonneg (by simp [Real.sqrt_nonneg])]
  have : ‖(⟨Real.sqrt (1 - a), Real.sqrt a⟩ : ℂ)‖ = 1 := by
    rw [Complex.norm_def, Complex.normSq_mk, Real.mul_self_sqrt (by linarith), Real.mul_self_sqrt h0]
    simp
  rw [this]; simp

end GSV.Model.LatLon
