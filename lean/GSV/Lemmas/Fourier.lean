/-
  Helper lemmas for C17 (exact periodicity of Fourier-generated fields): the kernel's loops as finite sums
  over ℝ, the effect of a shift of the points on the phases, and invariance of one Fourier cell when every
  phase moves by an integer multiple of 2π.
-/
import GSV.Props.KernelSummate
import GSV.Model.Fourier
import GSV.Lemmas.Sum
import GSV.RealInst
import Mathlib.Analysis.SpecialFunctions.Trigonometric.Basic
import Mathlib.Algebra.BigOperators.Field
import Mathlib.Algebra.BigOperators.Ring.Finset
import Mathlib.Tactic.IntervalCases
import Mathlib.Tactic.Linarith
namespace GSV.Fourier
open GSV GSV.Props GSV.Model.Fourier Finset

/-! ### loops as sums -/

theorem phaseOf_real (k x : Nat → Nat → ℝ) (dim j i : Nat) :
    phaseOf k x dim j i = ∑ d ∈ range dim, k d j * x d i := by
  unfold phaseOf
  exact forRange_cast_zero_add_eq_sum dim (fun d => k d j * x d i)

theorem isometrize_real (Q : Nat → Nat → ℝ) (anis : Nat → ℝ) (dim : Nat) (x : Nat → Nat → ℝ) (d i : Nat) :
    isometrize Q anis dim x d i = ∑ e ∈ range dim, (1 / anisP anis d * Q d e) * x e i := by
  unfold isometrize isoMat
  rw [forRange_cast_zero_add_eq_sum]
  simp

theorem fourierCell_real (sf : Nat → ℝ) (modes : Nat → Nat → ℝ) (z1 z2 : Nat → ℝ) (x : Nat → Nat → ℝ)
    (dim N i : Nat) :
    fourierCell sf modes z1 z2 x dim N i ((0:Nat):ℝ) =
      ∑ j ∈ range N, sf j * (z1 j * Real.cos (phaseOf modes x dim j i) + z2 j * Real.sin (phaseOf modes x dim j i)) := by
  unfold fourierCell
  exact forRange_cast_zero_add_eq_sum N _

/-! ### the mode grid on ℝ -/

theorem anisP_zero (anis : Nat → ℝ) : anisP anis 0 = 1 := by simp [anisP]

theorem anisP_succ (anis : Nat → ℝ) (d : Nat) : anisP anis (d + 1) = anis d := by simp [anisP]

theorem deltaK_real (period anis : Nat → ℝ) (d : Nat) :
    deltaK period anis d = 2 * Real.pi / period d * anisP anis d := by
  simp [deltaK]

/-- a 1-D mode is its integer mode number times the spacing -/
theorem mode1d_real (m : Nat) (dk : ℝ) (n : Nat) :
    mode1d m dk n = (((n:ℤ) - ((m / 2 : ℕ) : ℤ) : ℤ) : ℝ) * dk := rfl

theorem modeLen_even {m : Nat} (h : Even m) : modeLen m = m := by
  unfold modeLen; obtain ⟨k, rfl⟩ := h; omega

theorem modeLen_half (m : Nat) : modeLen m / 2 = m / 2 := by
  unfold modeLen; omega

theorem even_modeLen (m : Nat) : Even (modeLen m) := ⟨m / 2, by unfold modeLen; omega⟩

/-- asking again for the measured number of modes reproduces the same 1-D modes -/
theorem mode1d_modeLen {α : Type} [Arith α] (m : Nat) (dk : α) (n : Nat) : mode1d (modeLen m) dk n = mode1d m dk n := by
  unfold mode1d; rw [modeLen_half]

theorem gridIdx_lt (lens : Nat → Nat) (dim d j : Nat) (h : 0 < lens d) : gridIdx lens dim d j < lens d := by
  unfold gridIdx; exact Nat.mod_lt _ h

/-! ### phases under a shift of the points -/

/-- shifting point `i` by the vector `s` adds `⟨k_j, s⟩` to the phase of mode `j` -/
theorem phaseOf_shift (k x x' : Nat → Nat → ℝ) (s : Nat → ℝ) (dim j i : Nat)
    (hx : ∀ d < dim, x' d i = x d i + s d) :
    phaseOf k x' dim j i = phaseOf k x dim j i + ∑ d ∈ range dim, k d j * s d := by
  rw [phaseOf_real, phaseOf_real, ← sum_add_distrib]
  refine sum_congr rfl fun d hd => ?_
  rw [hx d (mem_range.mp hd)]; ring

/-- integer mode numbers times `2π/L·a` against a lattice shift `c·L/a`: the phase moves by `(Σ n_d c_d)·2π` -/
theorem lattice_phase (k : Nat → Nat → ℝ) (L a : Nat → ℝ) (n c : Nat → ℤ) (s : Nat → ℝ) (dim j : Nat)
    (hL : ∀ d < dim, L d ≠ 0) (ha : ∀ d < dim, a d ≠ 0)
    (hk : ∀ d < dim, k d j = (n d : ℝ) * (2 * Real.pi / L d * a d))
    (hs : ∀ d < dim, s d = (c d : ℝ) * L d / a d) :
    ∑ d ∈ range dim, k d j * s d = ((∑ d ∈ range dim, n d * c d : ℤ) : ℝ) * (2 * Real.pi) := by
  push_cast
  rw [sum_mul]
  refine sum_congr rfl fun d hd => ?_
  have hd' := mem_range.mp hd
  rw [hk d hd', hs d hd']
  have := hL d hd'; have := ha d hd'
  field_simp

/-- one Fourier cell does not change when every phase moves by an integer multiple of `2π` -/
theorem fourierCell_congr_phase (sf : Nat → ℝ) (modes : Nat → Nat → ℝ) (z1 z2 : Nat → ℝ) (x x' : Nat → Nat → ℝ)
    (dim N i : Nat) (v0 : ℝ)
    (h : ∀ j < N, ∃ t : ℤ, phaseOf modes x' dim j i = phaseOf modes x dim j i + (t : ℝ) * (2 * Real.pi)) :
    fourierCell sf modes z1 z2 x' dim N i v0 = fourierCell sf modes z1 z2 x dim N i v0 := by
  unfold fourierCell
  apply forRange_congr
  intro j _ hj acc
  obtain ⟨t, ht⟩ := h j hj
  simp only [cos_real, sin_real, ht, Real.cos_add_int_mul_two_pi, Real.sin_add_int_mul_two_pi]

/-- modes that are integer multiples of `2π/L_d·a_d` make every cell invariant under the lattice shifts `c_d·L_d/a_d` -/
theorem fourierCell_lattice_shift (sf : Nat → ℝ) (modes : Nat → Nat → ℝ) (z1 z2 : Nat → ℝ) (x x' : Nat → Nat → ℝ)
    (L a : Nat → ℝ) (c : Nat → ℤ) (dim N i : Nat) (v0 : ℝ)
    (hL : ∀ d < dim, L d ≠ 0) (ha : ∀ d < dim, a d ≠ 0)
    (hk : ∀ j < N, ∀ d < dim, ∃ n : ℤ, modes d j = (n : ℝ) * (2 * Real.pi / L d * a d))
    (hx : ∀ d < dim, x' d i = x d i + (c d : ℝ) * L d / a d) :
    fourierCell sf modes z1 z2 x' dim N i v0 = fourierCell sf modes z1 z2 x dim N i v0 := by
  apply fourierCell_congr_phase
  intro j hj
  classical
  let n : Nat → ℤ := fun d => if h : d < dim then (hk j hj d h).choose else 0
  have hn : ∀ d < dim, modes d j = (n d : ℝ) * (2 * Real.pi / L d * a d) := by
    intro d hd
    simp only [n, hd, dif_pos]
    exact (hk j hj d hd).choose_spec
  refine ⟨∑ d ∈ range dim, n d * c d, ?_⟩
  rw [phaseOf_shift modes x x' (fun d => (c d : ℝ) * L d / a d) dim j i hx,
    lattice_phase modes L a n c _ dim j hL ha hn (fun _ _ => rfl)]

/-- `isometrize` is linear: a shift `t` of point `i` moves coordinate `d` by `(Σ_e Q d e · t e) / anis'[d]` -/
theorem isometrize_shift (Q : Nat → Nat → ℝ) (anis : Nat → ℝ) (dim : Nat) (x x' : Nat → Nat → ℝ) (t : Nat → ℝ)
    (d i : Nat) (hx : ∀ e < dim, x' e i = x e i + t e) :
    isometrize Q anis dim x' d i = isometrize Q anis dim x d i + (∑ e ∈ range dim, Q d e * t e) / anisP anis d := by
  rw [isometrize_real, isometrize_real, sum_div, ← sum_add_distrib]
  refine sum_congr rfl fun e he => ?_
  rw [hx e (mem_range.mp he)]; ring

/-! ### the derotation matrices have orthonormal rows -/

/-- rows `d < n` of `Q` are orthonormal (`Q Qᵀ = I`) -/
def RowsON (n : Nat) (Q : Nat → Nat → ℝ) : Prop :=
  ∀ d < n, ∀ d' < n, ∑ e ∈ range n, Q d e * Q d' e = if d = d' then 1 else 0

theorem mulM_real (n : Nat) (A B : Nat → Nat → ℝ) (d e : Nat) :
    mulM n A B d e = ∑ f ∈ range n, A d f * B f e := by
  unfold mulM; exact forRange_cast_zero_add_eq_sum n _

theorem rowsON_mul (n : Nat) (A B : Nat → Nat → ℝ) (hA : RowsON n A) (hB : RowsON n B) : RowsON n (mulM n A B) := by
  intro d hd d' hd'
  simp only [mulM_real]
  calc ∑ e ∈ range n, (∑ f ∈ range n, A d f * B f e) * (∑ f' ∈ range n, A d' f' * B f' e)
      = ∑ f ∈ range n, ∑ f' ∈ range n, A d f * A d' f' * ∑ e ∈ range n, B f e * B f' e := by
        have h : ∀ e, (∑ f ∈ range n, A d f * B f e) * (∑ f' ∈ range n, A d' f' * B f' e) =
            ∑ f ∈ range n, ∑ f' ∈ range n, A d f * A d' f' * (B f e * B f' e) := by
          intro e
          rw [sum_mul_sum]
          exact sum_congr rfl fun f _ => sum_congr rfl fun f' _ => by ring
        simp only [h]
        rw [sum_comm]
        refine sum_congr rfl fun f _ => ?_
        rw [sum_comm]
        refine sum_congr rfl fun f' _ => ?_
        rw [mul_sum]
    _ = ∑ f ∈ range n, A d f * A d' f := by
        refine sum_congr rfl fun f hf => ?_
        rw [sum_eq_single f]
        · rw [hB f (mem_range.mp hf) f (mem_range.mp hf)]; simp
        · intro f' hf' hne
          rw [hB f (mem_range.mp hf) f' (mem_range.mp hf'), if_neg (Ne.symm hne)]; simp
        · intro h; exact absurd hf h
    _ = _ := hA d hd d' hd'

theorem rowsON_givens3 (p q : Nat) (hpq : p < q) (hq : q < 3) (a : ℝ) : RowsON 3 (givens p q a) := by
  intro d hd d' hd'
  have hs := Real.sin_sq_add_cos_sq a
  interval_cases q <;> interval_cases p <;> interval_cases d <;> interval_cases d' <;>
    simp [givens, sum_range_succ] <;> nlinarith [hs]

theorem rowsON_givens2 (a : ℝ) : RowsON 2 (givens 0 1 a) := by
  intro d hd d' hd'
  have hs := Real.sin_sq_add_cos_sq a
  interval_cases d <;> interval_cases d' <;> simp [givens, sum_range_succ] <;> nlinarith [hs]

theorem rowsON_id (n : Nat) : RowsON n (fun d e => if d = e then (1:ℝ) else 0) := by
  intro d hd d' hd'
  simp only [mul_ite, mul_one, mul_zero]
  rw [sum_ite_eq (range n) d' fun e => if d = e then (1:ℝ) else 0]
  simp [hd']

/-- `matrix_derotate(dim, angles)` has orthonormal rows (`dim ≤ 3`, every angle) -/
theorem rowsON_derot (dim : Nat) (hdim : dim ≤ 3) (angles : Nat → ℝ) : RowsON dim (derot dim angles) := by
  unfold derot
  split
  · rename_i h; subst h; exact rowsON_givens2 _
  · split
    · rename_i h; subst h
      exact rowsON_mul 3 _ _ (rowsON_mul 3 _ _ (rowsON_givens3 0 1 (by norm_num) (by norm_num) _)
        (rowsON_givens3 0 2 (by norm_num) (by norm_num) _)) (rowsON_givens3 1 2 (by norm_num) (by norm_num) _)
    · simpa using rowsON_id dim

/-! ### `Fourier.update` as a state machine: coherence of the derived grid
   (law-free: stated for an arbitrary carrier, so the invariants also hold on doubles, bit for bit) -/

section machine
set_option linter.unusedSectionVars false
variable {α : Type} [Arith α] [Transc α] [DecidableLT α] [DecidableLE α]

/-- the code's model comparison is exact on the anisotropy ratios (it is NOT: `compare` uses `np.isclose`) -/
def EqvExact (eqv : Mdl α → Mdl α → Bool) : Prop := ∀ a b, eqv a b = true → ∀ d, a.anis d = b.anis d

/-- the grid of a state is the one derived from its period, the anisotropy `anis` and its mode counts -/
structure GridOK (st : St α) (anis : Nat → α) : Prop where
  dk : ∀ d, st.deltaK d = deltaK st.period anis d
  modes : ∀ d n, st.modes1d d n = mode1d (st.modeNo d) (st.deltaK d) n
  even : ∀ d, modeLen (st.modeNo d) = st.modeNo d

structure Coherent (st : St α) : Prop where
  grid : GridOK st st.model.anis
  fresh : st.fresh = true
  zlen : st.zLen = gridN st.modeNo st.model.dim
  hasModel : st.hasModel = true

def Inv (st : St α) : Prop := st.hasPeriod = true → Coherent st

theorem modeLen_modeLen (m : Nat) : modeLen (modeLen m) = modeLen m := by unfold modeLen; omega

theorem setModes_modes (st : St α) (mreq : Nat → Nat) :
    (∀ d n, (setModes st mreq).modes1d d n = mode1d ((setModes st mreq).modeNo d) ((setModes st mreq).deltaK d) n) ∧
    (∀ d, modeLen ((setModes st mreq).modeNo d) = (setModes st mreq).modeNo d) ∧
    (setModes st mreq).deltaK = st.deltaK ∧ (setModes st mreq).period = st.period ∧
    (setModes st mreq).hasPeriod = st.hasPeriod ∧ (setModes st mreq).model = st.model ∧
    (setModes st mreq).hasModel = st.hasModel := by
  refine ⟨fun d n => ?_, fun d => ?_, rfl, rfl, rfl, rfl, rfl⟩
  · show mode1d (mreq d) (st.deltaK d) n = mode1d (modeLen (mreq d)) (st.deltaK d) n
    rw [mode1d_modeLen]
  · exact modeLen_modeLen _

theorem resetSeed_coherent (st : St α) (seed : Option Nat) (hg : GridOK st st.model.anis) (hm : st.hasModel = true) :
    Coherent (resetSeed st seed) :=
  ⟨⟨hg.dk, hg.modes, hg.even⟩, rfl, rfl, hm⟩

theorem setSeed_coherent (st : St α) (s : Nat) (h : Coherent st) : Coherent (setSeed st s) := by
  unfold setSeed
  split
  · exact resetSeed_coherent st _ h.grid h.hasModel
  · exact h

theorem gridOK_setModes (st : St α) (mreq : Nat → Nat) (anis : Nat → α)
    (hdk : ∀ d, st.deltaK d = deltaK st.period anis d) : GridOK (setModes st mreq) anis :=
  ⟨hdk, (setModes_modes st mreq).1, (setModes_modes st mreq).2.1⟩

theorem resetSeed_model_coherent (st : St α) (m : Mdl α) (seed : Option Nat) (hg : GridOK st m.anis) :
    Coherent (resetSeed { st with model := m, hasModel := true } seed) :=
  ⟨⟨hg.dk, hg.modes, hg.even⟩, rfl, rfl, rfl⟩

end machine

end GSV.Fourier
