/-
  Helper lemmas about the CovModel parameter state machine (`GSV/Model/CovState.lean`).
  Part 1 is law-free (any carrier with the operations); part 2 works over an arbitrary linearly
  ordered field `F` (so it covers both `ℚ`, on which the driver executes the model, and `ℝ`).
-/
import GSV.Model.CovState
import Mathlib.Algebra.Order.Field.Basic
import Mathlib.Data.List.Basic
import Mathlib.Tactic.Linarith
import Mathlib.Tactic.FieldSimp
import Mathlib.Tactic.NormNum

set_option linter.unusedSectionVars false
namespace GSV.Lemmas.CovState
open GSV GSV.Model.CovState

/-! ## Part 1: law-free structure -/
section lawfree
variable {α : Type} [Arith α] [DecidableLT α] [DecidableLE α] [DecidableEq α] [HasRPow α]

theorem setAnisL_length (d : Nat) (l : List α) : (setAnisL d l).length = d - 1 := by
  simp only [setAnisL, List.length_append, List.length_replicate, List.length_take]
  omega

theorem setAnglesL_length (d : Nat) (l : List α) : (setAnglesL d l).length = noOfAngles d := by
  simp only [setAnglesL, List.length_append, List.length_replicate, List.length_take]
  omega

theorem setModelAngles_length (d : Nat) (l : List α) (ll t : Bool) :
    (setModelAngles d l ll t).length = noOfAngles d := by
  unfold setModelAngles
  split
  · simp
  · split
    · simp only [List.length_append, List.length_replicate, List.length_take, setAnglesL_length]
      omega
    · exact setAnglesL_length d l

/-- `set_anis` is the identity on a ratio list of the right length -/
theorem setAnisL_of_length {d : Nat} {l : List α} (h : l.length = d - 1) : setAnisL d l = l := by
  simp [setAnisL, List.take_of_length_le (le_of_eq h), h]

/-- `set_angles` is the identity on an angle list of the right length -/
theorem setAnglesL_of_length {d : Nat} {l : List α} (h : l.length = noOfAngles d) : setAnglesL d l = l := by
  simp [setAnglesL, List.take_of_length_le (le_of_eq h), h]

/-- pad rule of `set_anis`: too few ratios are filled up IN FRONT with ones -/
theorem setAnisL_pad {d : Nat} {l : List α} (h : l.length ≤ d - 1) :
    setAnisL d l = List.replicate (d - 1 - l.length) (one : α) ++ l := by
  simp [setAnisL, List.take_of_length_le h]

/-- truncation rule of `set_anis`: only the first `d-1` ratios are kept -/
theorem setAnisL_trunc {d : Nat} {l : List α} (h : d - 1 ≤ l.length) : setAnisL d l = l.take (d - 1) := by
  simp [setAnisL, List.length_take, Nat.min_eq_left h]

/-- pad rule of `set_angles`: too few angles are filled up AT THE END with zeros -/
theorem setAnglesL_pad {d : Nat} {l : List α} (h : l.length ≤ noOfAngles d) :
    setAnglesL d l = l ++ List.replicate (noOfAngles d - l.length) (zero : α) := by
  simp [setAnglesL, List.take_of_length_le h]

theorem setAnglesL_trunc {d : Nat} {l : List α} (h : noOfAngles d ≤ l.length) :
    setAnglesL d l = l.take (noOfAngles d) := by
  simp [setAnglesL, List.length_take, Nat.min_eq_left h]

theorem eq_replicate_of_all {z : α} {l : List α} (h : ∀ a ∈ l, a = z) : l = List.replicate l.length z :=
  List.eq_replicate_iff.mpr ⟨rfl, h⟩

/-- the structural invariant of a model state (everything except "values are inside their bounds") -/
structure WF (s : State α) : Prop where
  dim_pos : 1 ≤ s.dim
  anis_len : s.anis.length = s.dim - 1
  angles_len : s.angles.length = noOfAngles s.dim
  anis_pos : ∀ a ∈ s.anis, (zero : α) < a
  latlon_dim : s.latlon = true → s.dim = 3 + tNat s.temporal
  latlon_iso : s.latlon = true → s.anis.take 2 = List.replicate (min 2 s.anis.length) (one : α)
  latlon_ang : s.latlon = true → ∀ a ∈ s.angles, a = (zero : α)
  temporal_ang : s.temporal = true → ∀ a ∈ s.angles.drop (noOfAngles (s.dim - 1)), a = (zero : α)
  rescale_pos : (zero : α) < s.rescale

/-- `set_model_angles` reproduces an angle list that already has the model's structure -/
theorem setModelAngles_fixed {d : Nat} {l : List α} {ll t : Bool} (hlen : l.length = noOfAngles d)
    (hll : ll = true → ∀ a ∈ l, a = (zero : α))
    (ht : t = true → ∀ a ∈ l.drop (noOfAngles (d - 1)), a = (zero : α)) :
    setModelAngles d l ll t = l := by
  unfold setModelAngles
  split
  · rename_i h
    rw [← hlen]; exact (eq_replicate_of_all (hll h)).symm
  · split
    · rename_i h
      rw [setAnglesL_of_length hlen]
      have h2 := eq_replicate_of_all (ht h)
      rw [List.length_drop] at h2
      conv_rhs => rw [← List.take_append_drop (noOfAngles (d - 1)) l, h2]
    · exact setAnglesL_of_length hlen

/-- the angles produced by `set_model_angles` have the model's structure -/
theorem setModelAngles_latlon (d : Nat) (l : List α) (t : Bool) :
    ∀ a ∈ setModelAngles d l true t, a = (zero : α) := by
  intro a ha
  simp only [setModelAngles, if_true] at ha
  exact (List.mem_replicate.mp ha).2

theorem setModelAngles_temporal (d : Nat) (l : List α) (ll : Bool) :
    ∀ a ∈ (setModelAngles d l ll true).drop (noOfAngles (d - 1)), a = (zero : α) := by
  intro a ha
  unfold setModelAngles at ha
  split at ha
  · exact (List.mem_replicate.mp (List.mem_of_mem_drop ha)).2
  · simp only [if_true] at ha
    rw [List.drop_append] at ha
    rcases List.mem_append.mp ha with h | h
    · rw [List.drop_take] at h
      simp at h
    · exact (List.mem_replicate.mp (List.mem_of_mem_drop h)).2

theorem isoFirst2_length (a : List α) : (isoFirst2 a).length = a.length := by
  simp only [isoFirst2, List.length_append, List.length_replicate, List.length_drop]
  omega

theorem isoFirst2_take (a : List α) :
    (isoFirst2 a).take 2 = List.replicate (min 2 (isoFirst2 a).length) (one : α) := by
  rw [isoFirst2_length]
  simp only [isoFirst2]
  rw [List.take_append]
  simp only [List.length_replicate, List.take_replicate]
  have : 2 - min 2 a.length = 0 ∨ a.drop 2 = [] := by
    by_cases h : 2 ≤ a.length
    · left; omega
    · right; exact List.drop_eq_nil_of_le (by omega)
  rcases this with h | h
  · rw [h]; simp
  · rw [h]; simp

theorem isoFirst2_fixed {a : List α} (h : a.take 2 = List.replicate (min 2 a.length) (one : α)) :
    isoFirst2 a = a := by
  conv_rhs => rw [← List.take_append_drop 2 a, h]
  rfl

theorem mem_isoFirst2 {a : List α} {x : α} (hx : x ∈ isoFirst2 a) : x = (one : α) ∨ x ∈ a := by
  simp only [isoFirst2] at hx
  rcases List.mem_append.mp hx with h | h
  · exact Or.inl (List.mem_replicate.mp h).2
  · exact Or.inr (List.mem_of_mem_drop h)

/-- what a successful `finishAnis` returns -/
theorem finishAnis_ok {l : α} {a : List α} {ll : Bool} {l' : α} {a' : List α}
    (h : finishAnis l a ll = .ok (l', a')) :
    l' = l ∧ (∀ x ∈ a, (zero : α) < x) ∧ a' = (if ll then isoFirst2 a else a) := by
  unfold finishAnis at h
  split at h
  · rename_i hall
    injection h with h
    injection h with h1 h2
    refine ⟨h1.symm, ?_, h2.symm⟩
    intro x hx
    have := List.all_eq_true.mp hall x hx
    simpa using this
  · cases h

theorem finishAnis_of_pos {l : α} {a : List α} (ll : Bool) (h : ∀ x ∈ a, (zero : α) < x) :
    finishAnis l a ll = .ok (l, if ll then isoFirst2 a else a) := by
  unfold finishAnis
  rw [if_pos]
  exact List.all_eq_true.mpr (fun x hx => by simpa using h x hx)

/-- states reachable by ANY history: successful construction, then arbitrary setter calls, including
    calls that raise (Python: `try: m.x = v  except ValueError: pass`) -/
inductive Reach (sp : ClassSpec α) : State α → Prop where
  | init {cfg : Cfg α} {s : State α} {w : Bool} : construct sp cfg = .ok (s, w) → Reach sp s
  | step {s : State α} (op : Op α) : Reach sp s → Reach sp (step sp s op).st

/-- setters that are neither bounds operations nor (for TPL classes, whose variance factor depends on it) the
    unchecked `rescale` setter -/
def Op.plain (sp : ClassSpec α) : Op α → Bool
  | .setArgBounds _ _ => false
  | .setBoundsProp _ _ => false
  | .setRescale _ => !sp.tpl
  | _ => true

/-- states reachable by histories of plain setters none of which raised -/
inductive ReachOk (sp : ClassSpec α) : State α → Prop where
  | init {cfg : Cfg α} {s : State α} {w : Bool} : construct sp cfg = .ok (s, w) → ReachOk sp s
  | step {s : State α} (op : Op α) : ReachOk sp s → Op.plain sp op = true → (step sp s op).err = none →
      ReachOk sp (step sp s op).st

/-- `error_case = 0` means: every value is inside the interval (stated with the comparisons the code makes) -/
def InBnd (b : Bnd α) (v : α) : Prop :=
  (match b.lo with
    | none => True
    | some l => if b.loC then ¬ v < l else ¬ v ≤ l) ∧
  (match b.hi with
    | none => True
    | some h => if b.hiC then ¬ h < v else ¬ h ≤ v)

theorem ite2_zero {p q : Prop} [Decidable p] [Decidable q] {a b : Nat} (ha : a ≠ 0) (hb : b ≠ 0) :
    (if p then a else if q then b else 0) = 0 ↔ ¬ q ∧ ¬ p := by
  by_cases hp : p <;> by_cases hq : q <;> simp [hp, hq, ha, hb]

theorem ite1_zero {p : Prop} [Decidable p] {a : Nat} (ha : a ≠ 0) :
    (if p then a else 0) = 0 ↔ ¬ p := by
  by_cases hp : p <;> simp [hp, ha]

theorem errorCase_eq_zero_iff (b : Bnd α) (vals : List α) :
    errorCase b vals = 0 ↔ ∀ v ∈ vals, InBnd b v := by
  obtain ⟨lo, hi, loC, hiC⟩ := b
  cases lo <;> cases hi <;> cases loC <;> cases hiC <;>
    simp only [errorCase, InBnd, List.any_eq_true, decide_eq_true_eq, Bool.false_eq_true, if_true, if_false,
      true_and, and_true, implies_true] <;>
    first
    | (rw [ite2_zero (by decide) (by decide)]; push Not
       exact ⟨fun h v hv => ⟨h.1 v hv, h.2 v hv⟩, fun h => ⟨fun v hv => (h v hv).1, fun v hv => (h v hv).2⟩⟩)
    | (rw [ite1_zero (by decide)]; push Not; exact Iff.rfl)

/-- all arguments inside their bounds -/
def InBounds (sp : ClassSpec α) (s : State α) : Prop :=
  InBnd s.varB (var sp s) ∧ InBnd s.lenB s.lenScale ∧ InBnd s.nugB s.nugget ∧
    (∀ a ∈ s.anis, InBnd s.anisB a) ∧ ∀ o ∈ s.opt, InBnd o.bnd o.val

theorem checkArgBounds_eq_none_iff (sp : ClassSpec α) (s : State α) :
    checkArgBounds sp s = none ↔ InBounds sp s := by
  unfold checkArgBounds InBounds
  rw [List.findSome?_eq_none_iff]
  simp only [argList, List.mem_append, List.mem_cons, List.mem_map, List.not_mem_nil, or_false]
  constructor
  · intro h
    have hv := h ("var", s.varB, [var sp s]) (Or.inl (Or.inl rfl))
    have hl := h ("len_scale", s.lenB, [s.lenScale]) (Or.inl (Or.inr (Or.inl rfl)))
    have hn := h ("nugget", s.nugB, [s.nugget]) (Or.inl (Or.inr (Or.inr (Or.inl rfl))))
    have ha := h ("anis", s.anisB, s.anis) (Or.inl (Or.inr (Or.inr (Or.inr rfl))))
    simp only [ite_eq_left_iff, reduceCtorEq, imp_false, not_not] at hv hl hn ha
    rw [errorCase_eq_zero_iff] at hv hl hn ha
    refine ⟨hv _ (List.mem_singleton.mpr rfl), hl _ (List.mem_singleton.mpr rfl),
      hn _ (List.mem_singleton.mpr rfl), ha, ?_⟩
    intro o ho
    have hopt := h (o.name, o.bnd, [o.val]) (Or.inr ⟨o, ho, rfl⟩)
    simp only [ite_eq_left_iff, reduceCtorEq, imp_false, not_not] at hopt
    rw [errorCase_eq_zero_iff] at hopt
    exact hopt _ (List.mem_singleton.mpr rfl)
  · rintro ⟨hv, hl, hn, ha, hopt⟩ e he
    have key : errorCase e.2.1 e.2.2 = 0 := by
      rw [errorCase_eq_zero_iff]
      rcases he with (he | he | he | he) | ⟨o, ho, he⟩ <;> subst he <;> simp only [List.mem_singleton]
      · intro v hv'; subst hv'; exact hv
      · intro v hv'; subst hv'; exact hl
      · intro v hv'; subst hv'; exact hn
      · exact ha
      · intro v hv'; subst hv'; exact hopt o ho
    simp [key]

/-- the end of every checking setter: no error means all arguments are inside their bounds -/
theorem chk_ok {sp : ClassSpec α} {s : State α} {w : Bool} (h : (chk sp s w).err = none) :
    InBounds sp (chk sp s w).st :=
  (checkArgBounds_eq_none_iff sp s).mp h

theorem doSetLenScale_ok {sp : ClassSpec α} {s : State α} {ls : List α} (h : (doSetLenScale sp s ls).err = none) :
    InBounds sp (doSetLenScale sp s ls).st := by
  unfold doSetLenScale at h ⊢
  split at h
  · cases h
  · rename_i l a heq
    exact chk_ok h

theorem doSetAnis_ok {sp : ClassSpec α} {s : State α} {vs : List α} (h : (doSetAnis sp s vs).err = none) :
    InBounds sp (doSetAnis sp s vs).st := by
  unfold doSetAnis at h ⊢
  split at h
  · cases h
  · rename_i l a heq
    exact chk_ok h

theorem doSetVar_ok {sp : ClassSpec α} {s : State α} {v : α} (h : (doSetVar sp s v).err = none) :
    InBounds sp (doSetVar sp s v).st := by
  unfold doSetVar at h ⊢
  split at h
  · cases h
  · rename_i hne
    simp only [if_neg hne]
    exact chk_ok h

theorem doSetOpt_ok {sp : ClassSpec α} {s : State α} {n : String} {v : α} (h : (doSetOpt sp s n v).err = none) :
    InBounds sp (doSetOpt sp s n v).st := by
  unfold doSetOpt at h ⊢
  split at h
  · cases h
  · split at h
    · cases h
    · rename_i h1 h2
      simp only [if_neg h1, if_neg h2]
      exact chk_ok h

theorem doSetDim_ok {sp : ClassSpec α} {s : State α} {d : Int} (h : (doSetDim sp s d).err = none) :
    InBounds sp (doSetDim sp s d).st := by
  unfold doSetDim at h ⊢
  split at h
  · cases h
  · rename_i n w heq
    split at h
    · cases h
    · rename_i l a heq2
      exact chk_ok h

theorem doSetIntegralScale_ok {sp : ClassSpec α} {s : State α} {vs : List α}
    (h : (doSetIntegralScale sp s vs).err = none) : InBounds sp (doSetIntegralScale sp s vs).st := by
  unfold doSetIntegralScale at h ⊢
  split at h
  · cases h
  · simp only at h ⊢
    by_cases h1 : (doSetLenScale sp s vs).err.isSome = true
    · rw [if_pos h1] at h; rw [h] at h1; cases h1
    · rw [if_neg h1] at h ⊢
      by_cases h2 : (doSetLenScale sp (doSetLenScale sp s vs).st [one]).err.isSome = true
      · rw [if_pos h2] at h; rw [h] at h2; cases h2
      · rw [if_neg h2] at h ⊢
        split at h
        · cases h
        · rename_i h3
          rw [if_neg h3]
          exact doSetLenScale_ok h

/-- the state carries the bounds a freshly constructed model of its dimension has, and its optional
    arguments are those of the class -/
def DefaultBounds (sp : ClassSpec α) (s : State α) : Prop :=
  s.varB = defVarB ∧ s.lenB = defLenB ∧ s.nugB = defNugB ∧ s.anisB = defAnisB ∧
  s.opt.map (fun o => (o.name, o.bnd)) = (sp.opts s.dim).map (fun o => (o.name, o.bnd)) ∧
  (s.opt.map (·.name)).Nodup

theorem find_of_mem {C : List (OptArg α)} (hn : (C.map (·.name)).Nodup) {o : OptArg α} (ho : o ∈ C) :
    (C.map (fun o => (o.name, o.val))).find? (fun p => p.1 == o.name) = some (o.name, o.val) := by
  induction C with
  | nil => cases ho
  | cons b C' ih =>
    simp only [List.map_cons, List.nodup_cons] at hn
    simp only [List.map_cons, List.find?_cons]
    rcases List.mem_cons.mp ho with h | h
    · subst h; simp
    · have hne : (b.name == o.name) = false := by
        rw [beq_eq_false_iff_ne]
        intro heq
        exact hn.1 (heq ▸ List.mem_map_of_mem (f := (·.name)) h)
      simp only [hne]
      exact ih hn.2 h

theorem merge_aux (C : List (OptArg α)) (hn : (C.map (·.name)).Nodup) :
    ∀ (A B : List (OptArg α)), (∀ o ∈ B, o ∈ C) →
      B.map (fun o => (o.name, o.bnd)) = A.map (fun o => (o.name, o.bnd)) →
      A.map (mergeOpt (C.map (fun o => (o.name, o.val)))) = B := by
  intro A
  induction A with
  | nil => intro B _ h; simpa using h
  | cons a A' ih =>
    intro B hB h
    cases B with
    | nil => simp at h
    | cons b B' =>
      simp only [List.map_cons, List.cons.injEq, Prod.mk.injEq] at h
      obtain ⟨⟨hname, hbnd⟩, hrest⟩ := h
      have hb : b ∈ C := hB b (List.mem_cons_self ..)
      have hf := find_of_mem hn hb
      rw [hname] at hf
      simp only [List.map_cons, mergeOpt, hf]
      congr 1
      · obtain ⟨n1, v1, b1⟩ := a
        obtain ⟨n2, v2, b2⟩ := b
        simp only at hname hbnd
        subst hname hbnd
        rfl
      · exact ih B' (fun o ho => hB o (List.mem_cons_of_mem _ ho)) hrest

/-- reading the optional arguments off a model and passing them to the constructor gives them back -/
theorem merge_opts {A B : List (OptArg α)} (h : B.map (fun o => (o.name, o.bnd)) = A.map (fun o => (o.name, o.bnd)))
    (hn : (B.map (·.name)).Nodup) :
    A.map (mergeOpt (B.map (fun o => (o.name, o.val)))) = B :=
  merge_aux B hn A B (fun _ ho => ho) h

theorem no_unknown_opts {A B : List (OptArg α)} (h : B.map (fun o => (o.name, o.bnd)) = A.map (fun o => (o.name, o.bnd))) :
    (B.map (fun o => (o.name, o.val))).any (fun p => !A.any (fun o => o.name == p.1)) = false := by
  rw [List.any_eq_false]
  intro p hp
  obtain ⟨o, ho, rfl⟩ := List.mem_map.mp hp
  have hmem : (o.name, o.bnd) ∈ A.map (fun o => (o.name, o.bnd)) := h ▸ List.mem_map_of_mem ho
  obtain ⟨a, ha, hae⟩ := List.mem_map.mp hmem
  simp only [Prod.mk.injEq] at hae
  simp only [Bool.not_eq_true, Bool.not_eq_false', List.any_eq_true]
  exact ⟨a, ha, by simp [hae.1]⟩

/-- the bounds (and the names of the optional arguments) of `s'` are those of `s` -/
def SameBounds (s s' : State α) : Prop :=
  s'.varB = s.varB ∧ s'.lenB = s.lenB ∧ s'.nugB = s.nugB ∧ s'.anisB = s.anisB ∧
  s'.opt.map (fun o => (o.name, o.bnd)) = s.opt.map (fun o => (o.name, o.bnd))

theorem SameBounds.refl (s : State α) : SameBounds s s := ⟨rfl, rfl, rfl, rfl, rfl⟩

theorem SameBounds.trans {s1 s2 s3 : State α} (h1 : SameBounds s1 s2) (h2 : SameBounds s2 s3) : SameBounds s1 s3 :=
  ⟨h2.1.trans h1.1, h2.2.1.trans h1.2.1, h2.2.2.1.trans h1.2.2.1, h2.2.2.2.1.trans h1.2.2.2.1,
    h2.2.2.2.2.trans h1.2.2.2.2⟩

theorem sameBounds_doSetLenScale (sp : ClassSpec α) (s : State α) (ls : List α) :
    SameBounds s (doSetLenScale sp s ls).st := by
  unfold doSetLenScale; split <;> exact ⟨rfl, rfl, rfl, rfl, rfl⟩

theorem sameBounds_doSetAnis (sp : ClassSpec α) (s : State α) (ls : List α) :
    SameBounds s (doSetAnis sp s ls).st := by
  unfold doSetAnis; split <;> exact ⟨rfl, rfl, rfl, rfl, rfl⟩

theorem sameBounds_doSetVar (sp : ClassSpec α) (s : State α) (v : α) :
    SameBounds s (doSetVar sp s v).st := by
  unfold doSetVar; split <;> exact ⟨rfl, rfl, rfl, rfl, rfl⟩

theorem sameBounds_doSetRescale (sp : ClassSpec α) (s : State α) (v : Option α) :
    SameBounds s (doSetRescale sp s v).st := by
  unfold doSetRescale; split
  · exact ⟨rfl, rfl, rfl, rfl, rfl⟩
  · split <;> exact ⟨rfl, rfl, rfl, rfl, rfl⟩

theorem sameBounds_doSetDim (sp : ClassSpec α) (s : State α) (d : Int) :
    SameBounds s (doSetDim sp s d).st := by
  unfold doSetDim; split
  · exact ⟨rfl, rfl, rfl, rfl, rfl⟩
  · split <;> exact ⟨rfl, rfl, rfl, rfl, rfl⟩

theorem sameBounds_doSetOpt (sp : ClassSpec α) (s : State α) (n : String) (v : α) :
    SameBounds s (doSetOpt sp s n v).st := by
  unfold doSetOpt; split
  · exact ⟨rfl, rfl, rfl, rfl, rfl⟩
  · split
    · exact ⟨rfl, rfl, rfl, rfl, rfl⟩
    · refine ⟨rfl, rfl, rfl, rfl, ?_⟩
      simp only [chk, List.map_map]
      apply List.map_congr_left
      intro o _
      simp only [Function.comp]
      split <;> rfl

theorem sameBounds_doSetIntegralScale (sp : ClassSpec α) (s : State α) (vs : List α) :
    SameBounds s (doSetIntegralScale sp s vs).st := by
  unfold doSetIntegralScale
  split
  · exact SameBounds.refl s
  · simp only
    have h1 := sameBounds_doSetLenScale sp s vs
    split
    · exact h1
    · have h2 := h1.trans (sameBounds_doSetLenScale sp (doSetLenScale sp s vs).st [one])
      split
      · exact h2
      · split
        · exact h2
        · exact h2.trans (sameBounds_doSetLenScale sp _ _)

/-- plain setters never touch the bounds -/
theorem sameBounds_step (sp : ClassSpec α) (s : State α) (op : Op α) (hp : Op.plain sp op = true) :
    SameBounds s (step sp s op).st := by
  cases op with
  | setDim d => exact sameBounds_doSetDim sp s d
  | setVar v => exact sameBounds_doSetVar sp s v
  | setVarRaw v => exact ⟨rfl, rfl, rfl, rfl, rfl⟩
  | setNugget v => exact ⟨rfl, rfl, rfl, rfl, rfl⟩
  | setLenScale vs => exact sameBounds_doSetLenScale sp s vs
  | setAnis vs => exact sameBounds_doSetAnis sp s vs
  | setAngles vs => exact ⟨rfl, rfl, rfl, rfl, rfl⟩
  | setRescale v => exact sameBounds_doSetRescale sp s v
  | setOpt n v => exact sameBounds_doSetOpt sp s n v
  | setIntegralScale vs => exact sameBounds_doSetIntegralScale sp s vs
  | setArgBounds check bs => cases hp
  | setBoundsProp arg b => cases hp

/-- plain setters that do not raise end inside all bounds (the TPL `rescale` setter is not plain) -/
theorem step_ok_inBounds (sp : ClassSpec α) (s : State α) (op : Op α) (hp : Op.plain sp op = true)
    (hr : ∀ v, op ≠ .setRescale v) (h : (step sp s op).err = none) : InBounds sp (step sp s op).st := by
  cases op with
  | setDim d => exact doSetDim_ok h
  | setVar v => exact doSetVar_ok h
  | setVarRaw v => exact chk_ok h
  | setNugget v => exact chk_ok h
  | setLenScale vs => exact doSetLenScale_ok h
  | setAnis vs => exact doSetAnis_ok h
  | setAngles vs => exact chk_ok h
  | setRescale v => exact absurd rfl (hr v)
  | setOpt n v => exact doSetOpt_ok h
  | setIntegralScale vs => exact doSetIntegralScale_ok h
  | setArgBounds check bs => cases hp
  | setBoundsProp arg b => cases hp

theorem mergeOpt_name_bnd (g : List (String × α)) (o : OptArg α) :
    ((mergeOpt g o).name, (mergeOpt g o).bnd) = (o.name, o.bnd) := by
  unfold mergeOpt; split <;> rfl

/-! ### `set_arg_bounds(check_args=True)` keeps a model inside the (new) bounds -/

/-- optional-argument names are distinct and none of them shadows a standard argument
    (`set_opt_args` raises for names already present in the class) -/
def OptNamesOK (s : State α) : Prop :=
  (s.opt.map (·.name)).Nodup ∧ ∀ o ∈ s.opt, o.name ≠ "var" ∧ o.name ≠ "len_scale" ∧ o.name ≠ "nugget" ∧ o.name ≠ "anis"

theorem optGet_of_mem {s : State α} (hn : (s.opt.map (·.name)).Nodup) {o : OptArg α} (ho : o ∈ s.opt) :
    optGet s o.name = o.val := by
  unfold optGet
  generalize s.opt = l at hn ho
  induction l with
  | nil => cases ho
  | cons b l ih =>
    simp only [List.map_cons, List.nodup_cons] at hn
    simp only [List.find?_cons]
    rcases List.mem_cons.mp ho with h | h
    · subst h; simp
    · have hne : (b.name == o.name) = false := by
        rw [beq_eq_false_iff_ne]
        intro heq
        exact hn.1 (heq ▸ List.mem_map_of_mem (f := (·.name)) h)
      simp only [hne]
      exact ih hn.2 h

/-- replacing the bounds of one optional argument does not change any value -/
def setBndOf (arg : String) (b : Bnd α) (o : OptArg α) : OptArg α :=
  if o.name == arg then { o with bnd := b } else o

theorem setBndOf_name (arg : String) (b : Bnd α) (o : OptArg α) : (setBndOf arg b o).name = o.name := by
  unfold setBndOf; split <;> rfl

theorem setBndOf_val (arg : String) (b : Bnd α) (o : OptArg α) : (setBndOf arg b o).val = o.val := by
  unfold setBndOf; split <;> rfl

theorem optGet_setBnd (s : State α) (arg : String) (b : Bnd α) (n : String) :
    optGet ({ s with opt := s.opt.map (setBndOf arg b) } : State α) n = optGet s n := by
  unfold optGet
  simp only [List.find?_map]
  have : ((fun o : OptArg α => o.name == n) ∘ setBndOf arg b) = (fun o : OptArg α => o.name == n) := by
    funext o; simp [Function.comp, setBndOf_name]
  rw [this]
  cases h : List.find? (fun o : OptArg α => o.name == n) s.opt with
  | none => rfl
  | some o => simp [setBndOf_val]

theorem var_setBnd (sp : ClassSpec α) (s : State α) (arg : String) (b : Bnd α) :
    var sp ({ s with opt := s.opt.map (setBndOf arg b) } : State α) = var sp s := by
  simp only [var, varFactor, optGet_setBnd]

theorem storeBnd_opt {s : State α} {arg : String} {b : Bnd α} (h : hasOpt s arg = true) :
    storeBnd s arg b = some { s with opt := s.opt.map (setBndOf arg b) } := by
  unfold storeBnd
  rw [if_pos h]
  rfl

theorem getVals_opt {sp : ClassSpec α} {s : State α} {arg : String}
    (h : arg ≠ "var" ∧ arg ≠ "len_scale" ∧ arg ≠ "nugget" ∧ arg ≠ "anis") :
    getVals sp s arg = [optGet s arg] := by
  unfold getVals
  split <;> simp_all

theorem hasOpt_iff {s : State α} {n : String} : hasOpt s n = true ↔ ∃ o ∈ s.opt, o.name = n := by
  simp [hasOpt, List.any_eq_true]

/-- storing new bounds for an argument whose value lies inside them keeps the model inside its bounds -/
theorem inBounds_storeBnd {sp : ClassSpec α} {s s1 : State α} {arg : String} {b : Bnd α}
    (hs : storeBnd s arg b = some s1) (hok : OptNamesOK s) (hin : InBounds sp s)
    (hc : errorCase b (getVals sp s1 arg) = 0) : InBounds sp s1 := by
  obtain ⟨hv, hl, hn, ha, ho⟩ := hin
  by_cases hopt : hasOpt s arg = true
  · rw [storeBnd_opt hopt] at hs
    injection hs with hs
    subst hs
    obtain ⟨o0, ho0, hname⟩ := hasOpt_iff.mp hopt
    have hres := hname ▸ hok.2 o0 ho0
    rw [getVals_opt hres, errorCase_eq_zero_iff] at hc
    have hc' := hc _ (List.mem_singleton.mpr rfl)
    rw [optGet_setBnd] at hc'
    refine ⟨?_, hl, hn, ha, ?_⟩
    · show InBnd s.varB (var sp _)
      rw [var_setBnd]; exact hv
    · intro o' ho'
      obtain ⟨o, hmem, rfl⟩ := List.mem_map.mp ho'
      unfold setBndOf
      split
      · rename_i heq
        have heq' : o.name = arg := by simpa using heq
        have : optGet s arg = o.val := heq' ▸ optGet_of_mem hok.1 hmem
        rw [this] at hc'
        exact hc'
      · exact ho o hmem
  · unfold storeBnd at hs
    rw [if_neg hopt] at hs
    split at hs
    · injection hs with hs; subst hs
      rw [errorCase_eq_zero_iff] at hc
      exact ⟨hv, hc _ (List.mem_singleton.mpr rfl), hn, ha, ho⟩
    · injection hs with hs; subst hs
      rw [errorCase_eq_zero_iff] at hc
      exact ⟨hv, hl, hc _ (List.mem_singleton.mpr rfl), ha, ho⟩
    · injection hs with hs; subst hs
      rw [errorCase_eq_zero_iff] at hc
      exact ⟨hv, hl, hn, hc, ho⟩
    · cases hs

theorem optNamesOK_of_sameBounds {s s' : State α} (h : SameBounds s s') (hok : OptNamesOK s) : OptNamesOK s' := by
  have hnames : s'.opt.map (·.name) = s.opt.map (·.name) := by
    have := congrArg (List.map Prod.fst) h.2.2.2.2
    rw [List.map_map, List.map_map] at this
    exact this
  refine ⟨hnames ▸ hok.1, ?_⟩
  intro o ho
  have : o.name ∈ s.opt.map (·.name) := hnames ▸ List.mem_map_of_mem (f := (·.name)) ho
  obtain ⟨o2, ho2, hn2⟩ := List.mem_map.mp this
  rw [← hn2]; exact hok.2 o2 ho2

theorem optNamesOK_storeBnd {s s1 : State α} {arg : String} {b : Bnd α} (hs : storeBnd s arg b = some s1)
    (hok : OptNamesOK s) : OptNamesOK s1 := by
  have hnames : s1.opt.map (·.name) = s.opt.map (·.name) := by
    unfold storeBnd at hs
    split at hs
    · injection hs with hs; subst hs
      simp only [List.map_map]
      apply List.map_congr_left
      intro o _
      simp only [Function.comp]
      split <;> rfl
    · split at hs <;> first | (injection hs with hs; subst hs; rfl) | cases hs
  refine ⟨hnames ▸ hok.1, ?_⟩
  intro o ho
  have : o.name ∈ s.opt.map (·.name) := hnames ▸ List.mem_map_of_mem (f := (·.name)) ho
  obtain ⟨o2, ho2, hn2⟩ := List.mem_map.mp this
  rw [← hn2]; exact hok.2 o2 ho2

theorem assignDefault_ok {sp : ClassSpec α} {s : State α} {arg : String} {b : Bnd α} :
    (assignDefault sp s arg b).err = none → InBounds sp (assignDefault sp s arg b).st := by
  unfold assignDefault
  split
  · exact doSetVar_ok
  · exact doSetLenScale_ok
  · exact chk_ok
  · exact doSetAnis_ok
  · exact doSetOpt_ok

theorem sameBounds_assignDefault (sp : ClassSpec α) (s : State α) (arg : String) (b : Bnd α) :
    SameBounds s (assignDefault sp s arg b).st := by
  unfold assignDefault
  split
  · exact sameBounds_doSetVar sp s _
  · exact sameBounds_doSetLenScale sp s _
  · exact ⟨rfl, rfl, rfl, rfl, rfl⟩
  · exact sameBounds_doSetAnis sp s _
  · exact sameBounds_doSetOpt sp s _ _

/-- `set_arg_bounds(check_args=True, …)` that does not raise, started inside the bounds, ends inside the new
    bounds (values outside new bounds were replaced by defaults through the checking setters) -/
theorem argBoundsLoop_ok (sp : ClassSpec α) (bs : List (String × RawBnd α)) :
    ∀ (s : State α) (vb : Option (Bnd α)), OptNamesOK s → InBounds sp s →
      (argBoundsLoop sp true bs s vb).err = none → InBounds sp (argBoundsLoop sp true bs s vb).st := by
  induction bs with
  | nil =>
    intro s vb hok hin herr
    unfold argBoundsLoop at herr ⊢
    split
    · exact hin
    · rename_i b
      simp only [Bool.true_and] at herr ⊢
      by_cases hc : (errorCase b [var sp ({ s with varB := b } : State α)] != 0) = true
      · rw [if_pos hc] at herr ⊢
        exact assignDefault_ok herr
      · rw [if_neg hc]
        have hc0 : errorCase b [var sp ({ s with varB := b } : State α)] = 0 := by simpa using hc
        rw [errorCase_eq_zero_iff] at hc0
        obtain ⟨_, hl, hn, ha, ho⟩ := hin
        exact ⟨hc0 _ (List.mem_singleton.mpr rfl), hl, hn, ha, ho⟩
  | cons p rest ih =>
    intro s vb hok hin herr
    obtain ⟨arg, raw⟩ := p
    unfold argBoundsLoop at herr ⊢
    split
    · rename_i hraw
      simp only [hraw] at herr
      cases herr
    · rename_i b hraw
      simp only [hraw] at herr
      split
      · rename_i hvar
        rw [if_pos hvar] at herr
        exact ih _ _ hok hin herr
      · rename_i hvar
        rw [if_neg hvar] at herr
        split
        · rename_i hst
          simp only [hst] at herr
          cases herr
        · rename_i s1 hst
          simp only [hst, Bool.true_and] at herr ⊢
          have hok1 := optNamesOK_storeBnd hst hok
          by_cases hc : (errorCase b (getVals sp s1 arg) != 0) = true
          · rw [if_pos hc] at herr ⊢
            by_cases he : (assignDefault sp s1 arg b).err.isSome = true
            · rw [if_pos he] at herr
              rw [herr] at he; cases he
            · rw [if_neg he] at herr ⊢
              have he' : (assignDefault sp s1 arg b).err = none := by
                cases h : (assignDefault sp s1 arg b).err with
                | none => rfl
                | some e => rw [h] at he; simp at he
              exact ih _ _ (optNamesOK_of_sameBounds (sameBounds_assignDefault sp s1 arg b) hok1)
                (assignDefault_ok he') herr
          · rw [if_neg hc] at herr ⊢
            have hc0 : errorCase b (getVals sp s1 arg) = 0 := by simpa using hc
            exact ih _ _ hok1 (inBounds_storeBnd hst hok hin hc0) herr

theorem optNamesOK_argBoundsLoop (sp : ClassSpec α) (check : Bool) (bs : List (String × RawBnd α)) :
    ∀ (s : State α) (vb : Option (Bnd α)), OptNamesOK s → OptNamesOK (argBoundsLoop sp check bs s vb).st := by
  induction bs with
  | nil =>
    intro s vb hok
    unfold argBoundsLoop
    split
    · exact hok
    · rename_i b
      have h1 : OptNamesOK ({ s with varB := b } : State α) := hok
      simp only
      split
      · exact optNamesOK_of_sameBounds (sameBounds_assignDefault sp _ _ _) h1
      · exact h1
  | cons p rest ih =>
    intro s vb hok
    obtain ⟨arg, raw⟩ := p
    unfold argBoundsLoop
    split
    · exact hok
    · rename_i b _
      split
      · exact ih _ _ hok
      · split
        · exact hok
        · rename_i s1 hs1
          have h1 := optNamesOK_storeBnd hs1 hok
          split
          · have h2 := optNamesOK_of_sameBounds (sameBounds_assignDefault sp s1 arg b) h1
            simp only
            split
            · exact h2
            · exact ih _ _ h2
          · exact ih _ _ h1

/-- histories of plain setters and `set_arg_bounds(check_args=True, …)` calls none of which raised -/
inductive ReachOkB (sp : ClassSpec α) : State α → Prop where
  | init {cfg : Cfg α} {s : State α} {w : Bool} : construct sp cfg = .ok (s, w) → ReachOkB sp s
  | step {s : State α} (op : Op α) : ReachOkB sp s → Op.plain sp op = true → (∀ v, op ≠ .setRescale v) →
      (step sp s op).err = none → ReachOkB sp (step sp s op).st
  | bounds {s : State α} (bs : List (String × RawBnd α)) : ReachOkB sp s →
      (step sp s (.setArgBounds true bs)).err = none → ReachOkB sp (step sp s (.setArgBounds true bs)).st

end lawfree

/-! ## Part 2: over a linearly ordered field -/
section field
variable {F : Type} [Field F] [LinearOrder F] [IsStrictOrderedRing F] [HasRPow F]

/-- the operation bundle of the model, filled with the field's own operations -/
@[reducible] def arithOfField : Arith F := {}
attribute [local instance] arithOfField

theorem zero_eq : (zero : F) = 0 := by simp [zero]
theorem one_eq : (one : F) = 1 := by simp [one]
theorem two_eq : (two : F) = 2 := by simp [two]

theorem zero_lt_one' : (zero : F) < (one : F) := by rw [zero_eq, one_eq]; exact zero_lt_one

theorem absA_eq_abs (x : F) : absA x = |x| := by
  unfold absA
  rw [zero_eq]
  split
  · rename_i h; exact (abs_of_neg h).symm
  · rename_i h; exact (abs_of_nonneg (not_lt.mp h)).symm

theorem absA_pos {x : F} (h : absA x ≠ (zero : F)) : (zero : F) < absA x := by
  rw [absA_eq_abs, zero_eq] at *
  exact lt_of_le_of_ne (abs_nonneg x) (Ne.symm h)

theorem absA_of_pos {x : F} (h : (zero : F) < x) : absA x = x := by
  rw [absA_eq_abs]; rw [zero_eq] at h; exact abs_of_pos h

theorem setAnisL_pos {d : Nat} {l : List F} (h : ∀ x ∈ l, (zero : F) < x) : ∀ x ∈ setAnisL d l, (zero : F) < x := by
  intro x hx
  simp only [setAnisL] at hx
  rcases List.mem_append.mp hx with h1 | h1
  · rw [(List.mem_replicate.mp h1).2]; exact zero_lt_one'
  · exact h x (List.mem_of_mem_take h1)

/-- successful `finishAnis` on a list of length `n`: shape of the result -/
theorem finishAnis_wf {l0 l : F} {b a : List F} {ll : Bool} {n : Nat} (hb : b.length = n)
    (h : finishAnis l0 b ll = .ok (l, a)) :
    l = l0 ∧ a.length = n ∧ (∀ x ∈ a, (zero : F) < x) ∧
      (ll = true → a.take 2 = List.replicate (min 2 a.length) (one : F)) := by
  obtain ⟨h1, h2, h3⟩ := finishAnis_ok h
  subst h3
  refine ⟨h1, ?_, ?_, ?_⟩
  · split
    · rw [isoFirst2_length]; exact hb
    · exact hb
  · intro x hx
    split at hx
    · rcases mem_isoFirst2 hx with h | h
      · rw [h]; exact zero_lt_one'
      · exact h2 x h
    · exact h2 x hx
  · intro hll
    rw [if_pos hll]
    exact isoFirst2_take b

theorem setLenAnis_single {d : Nat} (hd : 1 ≤ d) (l : F) (anis : List F) (ll : Bool) :
    setLenAnis d [l] anis ll = finishAnis l (setAnisL d anis) ll := by
  unfold setLenAnis
  have : List.take d [l] = [l] := List.take_of_length_le (by simpa using hd)
  rw [this]

/-- successful `set_len_anis`: `d-1` positive ratios, isotropic in space for lat-lon models -/
theorem setLenAnis_ok {d : Nat} {ls anis : List F} {ll : Bool} {l : F} {a : List F}
    (h : setLenAnis d ls anis ll = .ok (l, a)) :
    a.length = d - 1 ∧ (∀ x ∈ a, (zero : F) < x) ∧
      (ll = true → a.take 2 = List.replicate (min 2 a.length) (one : F)) := by
  unfold setLenAnis at h
  split at h
  · cases h
  · exact (finishAnis_wf (setAnisL_length d anis) h).2
  · rename_i l0 l2 rest heq
    split at h
    · cases h
    · have hlen : rest.length + 2 ≤ d := by
        have := congrArg List.length heq
        simp only [List.length_take, List.length_cons] at this
        omega
      refine (finishAnis_wf ?_ h).2
      simp only [List.length_map, List.length_append, List.length_replicate, List.length_cons]
      omega

/-- `set_len_anis` with a single length scale keeps a well-formed anisotropy (also the time ratio of a
    lat-lon + temporal model: D7) -/
theorem setLenAnis_scalar {s : State F} (h : WF s) (l : F) :
    setLenAnis s.dim [l] s.anis s.latlon = .ok (l, s.anis) := by
  rw [setLenAnis_single h.dim_pos, setAnisL_of_length h.anis_len, finishAnis_of_pos _ h.anis_pos]
  cases hl : s.latlon
  · rfl
  · rw [if_pos rfl, isoFirst2_fixed (h.latlon_iso hl)]

theorem setLenAnis_fixed {s : State F} (h : WF s) :
    setLenAnis s.dim [s.lenScale] s.anis s.latlon = .ok (s.lenScale, s.anis) := setLenAnis_scalar h _

/-- the dimension rule: what a successful result looks like -/
theorem dimRule_ok {sp : ClassSpec F} {ll t : Bool} {d : Int} {n : Nat} {w : Bool}
    (h : dimRule sp ll t d = .ok (n, w)) : 1 ≤ n ∧ (ll = true → n = 3 + tNat t) := by
  unfold dimRule at h
  cases hfd : sp.fixDim <;> simp only [hfd] at h <;> split_ifs at h <;>
    simp only [Except.ok.injEq, Prod.mk.injEq] at h <;> obtain ⟨hn, _⟩ := h <;> subst hn <;>
    (constructor
     · omega
     · intro hll; simp_all; try omega)

theorem wf_doSetLenScale (sp : ClassSpec F) {s : State F} (ls : List F) (h : WF s) :
    WF (doSetLenScale sp s ls).st := by
  unfold doSetLenScale
  split
  · exact h
  · rename_i l a heq
    obtain ⟨h1, h2, h3⟩ := setLenAnis_ok heq
    exact ⟨h.dim_pos, h1, h.angles_len, h2, h.latlon_dim, h3, h.latlon_ang, h.temporal_ang, h.rescale_pos⟩

theorem wf_doSetAnis (sp : ClassSpec F) {s : State F} (vs : List F) (h : WF s) :
    WF (doSetAnis sp s vs).st := by
  unfold doSetAnis
  split
  · exact h
  · rename_i l a heq
    obtain ⟨h1, h2, h3⟩ := setLenAnis_ok heq
    exact ⟨h.dim_pos, h1, h.angles_len, h2, h.latlon_dim, h3, h.latlon_ang, h.temporal_ang, h.rescale_pos⟩

theorem wf_doSetVar (sp : ClassSpec F) {s : State F} (v : F) (h : WF s) : WF (doSetVar sp s v).st := by
  unfold doSetVar
  split
  · exact h
  · exact ⟨h.dim_pos, h.anis_len, h.angles_len, h.anis_pos, h.latlon_dim, h.latlon_iso, h.latlon_ang,
      h.temporal_ang, h.rescale_pos⟩

theorem wf_doSetOpt (sp : ClassSpec F) {s : State F} (n : String) (v : F) (h : WF s) :
    WF (doSetOpt sp s n v).st := by
  unfold doSetOpt
  split
  · exact h
  · split
    · exact h
    · exact ⟨h.dim_pos, h.anis_len, h.angles_len, h.anis_pos, h.latlon_dim, h.latlon_iso, h.latlon_ang,
        h.temporal_ang, h.rescale_pos⟩

theorem wf_doSetRescale (sp : ClassSpec F) {s : State F} (v : Option F) (h : WF s) :
    WF (doSetRescale sp s v).st := by
  unfold doSetRescale
  split
  · exact h
  · split
    · exact h
    · rename_i hne
      exact ⟨h.dim_pos, h.anis_len, h.angles_len, h.anis_pos, h.latlon_dim, h.latlon_iso, h.latlon_ang,
        h.temporal_ang, absA_pos hne⟩

theorem wf_setAngles (sp : ClassSpec F) {s : State F} (vs : List F) (h : WF s) :
    WF ({ s with angles := setModelAngles s.dim vs s.latlon s.temporal } : State F) := by
  refine ⟨h.dim_pos, h.anis_len, setModelAngles_length _ _ _ _, h.anis_pos, h.latlon_dim, h.latlon_iso, ?_, ?_,
    h.rescale_pos⟩
  · intro hl a ha
    have hl' : s.latlon = true := hl
    rw [hl'] at ha
    exact setModelAngles_latlon s.dim vs s.temporal a ha
  · intro ht a ha
    have ht' : s.temporal = true := ht
    rw [ht'] at ha
    exact setModelAngles_temporal s.dim vs s.latlon a ha

theorem wf_doSetDim (sp : ClassSpec F) {s : State F} (d : Int) (h : WF s) : WF (doSetDim sp s d).st := by
  unfold doSetDim
  split
  · exact h
  · rename_i n w heq
    obtain ⟨hn, hll⟩ := dimRule_ok heq
    have hsingle := setLenAnis_single hn s.lenScale s.anis false
    have hfin : finishAnis s.lenScale (setAnisL n s.anis) false = .ok (s.lenScale, setAnisL n s.anis) := by
      rw [finishAnis_of_pos _ (setAnisL_pos h.anis_pos)]; rfl
    rw [hsingle, hfin]
    simp only [chk]
    refine ⟨hn, setAnisL_length _ _, setModelAngles_length _ _ _ _, setAnisL_pos h.anis_pos, hll, ?_, ?_, ?_,
      h.rescale_pos⟩
    · intro hl
      have hnd : n = s.dim := by rw [hll hl, h.latlon_dim hl]
      simp only [hnd, setAnisL_of_length h.anis_len]
      exact h.latlon_iso hl
    · intro hl a ha
      have hl' : s.latlon = true := hl
      rw [hl'] at ha
      exact setModelAngles_latlon n s.angles s.temporal a ha
    · intro ht a ha
      have ht' : s.temporal = true := ht
      rw [ht'] at ha
      exact setModelAngles_temporal n s.angles s.latlon a ha

theorem wf_doSetIntegralScale (sp : ClassSpec F) {s : State F} (vs : List F) (h : WF s) :
    WF (doSetIntegralScale sp s vs).st := by
  unfold doSetIntegralScale
  split
  · exact h
  · simp only
    have h1 := wf_doSetLenScale sp vs h
    split
    · exact h1
    · have h2 := wf_doSetLenScale sp [(one : F)] h1
      split
      · exact h2
      · split
        · exact h2
        · exact wf_doSetLenScale sp _ h2

/-- `WF` only looks at dim, ratios, angles, flags and rescale -/
theorem WF.congr {s s' : State F} (h : WF s) (hd : s'.dim = s.dim) (ha : s'.anis = s.anis)
    (hang : s'.angles = s.angles) (hl : s'.latlon = s.latlon) (ht : s'.temporal = s.temporal)
    (hr : s'.rescale = s.rescale) : WF s' := by
  obtain ⟨d, l, t, vr, ls, an, ang, ng, rs, op, b1, b2, b3, b4⟩ := s'
  simp only at hd ha hang hl ht hr
  subst hd ha hang hl ht hr
  exact ⟨h.dim_pos, h.anis_len, h.angles_len, h.anis_pos, h.latlon_dim, h.latlon_iso, h.latlon_ang,
    h.temporal_ang, h.rescale_pos⟩

theorem wf_storeBnd {s s1 : State F} {arg : String} {b : Bnd F} (hs : storeBnd s arg b = some s1) (h : WF s) :
    WF s1 := by
  unfold storeBnd at hs
  split at hs
  · injection hs with hs; subst hs; exact h.congr rfl rfl rfl rfl rfl rfl
  · split at hs <;> first
      | (injection hs with hs; subst hs; exact h.congr rfl rfl rfl rfl rfl rfl)
      | cases hs

theorem wf_assignDefault (sp : ClassSpec F) {s : State F} (arg : String) (b : Bnd F) (h : WF s) :
    WF (assignDefault sp s arg b).st := by
  unfold assignDefault
  split
  · exact wf_doSetVar sp _ h
  · exact wf_doSetLenScale sp _ h
  · exact h.congr rfl rfl rfl rfl rfl rfl
  · exact wf_doSetAnis sp _ h
  · exact wf_doSetOpt sp _ _ h

theorem wf_argBoundsLoop (sp : ClassSpec F) (check : Bool) (bs : List (String × RawBnd F)) :
    ∀ (s : State F) (vb : Option (Bnd F)), WF s → WF (argBoundsLoop sp check bs s vb).st := by
  induction bs with
  | nil =>
    intro s vb h
    unfold argBoundsLoop
    split
    · exact h
    · rename_i b
      have h1 : WF ({ s with varB := b } : State F) := h.congr rfl rfl rfl rfl rfl rfl
      simp only
      split
      · exact wf_assignDefault sp _ _ h1
      · exact h1
  | cons p rest ih =>
    intro s vb h
    obtain ⟨arg, raw⟩ := p
    unfold argBoundsLoop
    split
    · exact h
    · rename_i b _
      split
      · exact ih _ _ h
      · split
        · exact h
        · rename_i s1 hs1
          have h1 := wf_storeBnd hs1 h
          split
          · have h2 := wf_assignDefault sp arg b h1
            simp only
            split
            · exact h2
            · exact ih _ _ h2
          · exact ih _ _ h1

theorem wf_doSetBoundsProp {s : State F} (arg : String) (raw : RawBnd F) (h : WF s) :
    WF (doSetBoundsProp s arg raw).st := by
  unfold doSetBoundsProp
  split
  · exact h
  · split <;> first | exact h.congr rfl rfl rfl rfl rfl rfl | exact h

/-- every setter — also one that raises — leaves a structurally well-formed state -/
theorem wf_step (sp : ClassSpec F) {s : State F} (op : Op F) (h : WF s) : WF (step sp s op).st := by
  cases op with
  | setDim d => exact wf_doSetDim sp d h
  | setVar v => exact wf_doSetVar sp v h
  | setVarRaw v => exact h.congr rfl rfl rfl rfl rfl rfl
  | setNugget v => exact h.congr rfl rfl rfl rfl rfl rfl
  | setLenScale vs => exact wf_doSetLenScale sp vs h
  | setAnis vs => exact wf_doSetAnis sp vs h
  | setAngles vs => exact wf_setAngles sp vs h
  | setRescale v => exact wf_doSetRescale sp v h
  | setOpt n v => exact wf_doSetOpt sp n v h
  | setIntegralScale vs => exact wf_doSetIntegralScale sp vs h
  | setArgBounds check bs => exact wf_argBoundsLoop sp check bs s none h
  | setBoundsProp arg b => exact wf_doSetBoundsProp arg b h

theorem initVar_ok {sp : ClassSpec F} {cfg : Cfg F} {s s' : State F} (h : initVar sp cfg s = .ok s') :
    (∃ v, s' = { s with varRaw := v }) ∧ (cfg.varRaw = none → checkArgBounds sp s' = none) := by
  unfold initVar at h
  split at h
  · injection h with h; subst h
    rename_i r hr
    exact ⟨⟨r, rfl⟩, fun hn => by rw [hr] at hn; cases hn⟩
  · split at h
    · cases h
    · split at h
      · cases h
      · rename_i hc
        injection h with h; subst h
        exact ⟨⟨_, rfl⟩, fun _ => hc⟩

/-- a successfully constructed model is structurally well-formed and inside its bounds -/
theorem construct_ok {sp : ClassSpec F} {cfg : Cfg F} {s : State F} {w : Bool}
    (h : construct sp cfg = .ok (s, w)) : WF s ∧ checkArgBounds sp s = none := by
  unfold construct at h
  simp only at h
  split at h
  · cases h
  · rename_i d w1 hdim
    obtain ⟨hd, hll⟩ := dimRule_ok hdim
    split at h
    · cases h
    · split at h
      · cases h
      · rename_i r hr
        split at h
        · cases h
        · rename_i hr0
          split at h
          · cases h
          · rename_i l a hla
            obtain ⟨ha1, ha2, ha3⟩ := setLenAnis_ok hla
            split at h
            · cases h
            · split at h
              · cases h
              · rename_i s1 hs1
                obtain ⟨⟨v1, hv1⟩, _⟩ := initVar_ok hs1
                split at h
                · cases h
                · rename_i hr2
                  split at h
                  · cases h
                  · rename_i s3 hs3
                    obtain ⟨⟨v3, hv3⟩, _⟩ := initVar_ok hs3
                    split at h
                    · cases h
                    · rename_i hc
                      injection h with h
                      injection h with h _
                      subst h
                      refine ⟨?_, hc⟩
                      have hwf0 : WF s1 := by
                        subst hv1
                        refine ⟨hd, ha1, setModelAngles_length _ _ _ _, ha2, hll, ha3, ?_, ?_, absA_pos hr0⟩
                        · intro hl a ha
                          have hl' : cfg.latlon = true := hl
                          rw [hl'] at ha
                          exact setModelAngles_latlon d cfg.angles cfg.temporal a ha
                        · intro ht a ha
                          have ht' : cfg.temporal = true := ht
                          rw [ht'] at ha
                          exact setModelAngles_temporal d cfg.angles cfg.latlon a ha
                      have hwf2 : WF (match cfg.integralScale with
                          | none => (⟨s1, none, false⟩ : Res F)
                          | some v => doSetIntegralScale sp s1 v).st := by
                        split
                        · exact hwf0
                        · exact wf_doSetIntegralScale sp _ hwf0
                      subst hv3
                      exact hwf2.congr rfl rfl rfl rfl rfl rfl

theorem dimRule_self {sp : ClassSpec F} {s : State F} (h : WF s)
    (hfix : sp.fixDim = none ∨ sp.fixDim = some s.dim) :
    dimRule sp s.latlon s.temporal (s.dim : Int) = .ok (s.dim, !sp.checkDim s.dim) := by
  have hd := h.dim_pos
  unfold dimRule
  rcases hfix with hf | hf <;> simp only [hf] <;> cases hl : s.latlon
  · simp; omega
  · have := h.latlon_dim hl
    simp [← this]; omega
  · simp; omega
  · have := h.latlon_dim hl
    simp [← this]; omega

theorem initVar_cfgOf {sp : ClassSpec F} {s : State F} (v0 : F) (hvf : varFactor sp s ≠ 0)
    (hin : checkArgBounds sp s = none) :
    initVar sp (cfgOf sp s) { s with varRaw := v0 } = .ok s := by
  have hvf' : ¬ (varFactor sp ({ s with varRaw := v0 } : State F) = (zero : F)) := by
    rw [zero_eq]; exact hvf
  have hs : ({ s with varRaw := var sp s / varFactor sp s } : State F) = s := by
    have : var sp s / varFactor sp s = s.varRaw := by
      unfold var; exact mul_div_cancel_right₀ _ hvf
    rw [this]
  unfold initVar
  simp only [cfgOf]
  rw [if_neg hvf']
  have h2 : ({ ({ s with varRaw := v0 } : State F) with
      varRaw := var sp s / varFactor sp ({ s with varRaw := v0 } : State F) } : State F) = s := hs
  rw [h2, hin]

/-- the model equals one constructed directly with the values read off it -/
theorem construct_cfgOf {sp : ClassSpec F} {s : State F} (h : WF s)
    (hfix : sp.fixDim = none ∨ sp.fixDim = some s.dim) (hb : DefaultBounds sp s)
    (hin : checkArgBounds sp s = none) (hvf : varFactor sp s ≠ 0)
    (hh : sp.tpl = true → optGet s "hurst" ≠ 0) :
    construct sp (cfgOf sp s) = .ok (s, !sp.checkDim s.dim || optWarn sp s) := by
  obtain ⟨hb1, hb2, hb3, hb4, hb5, hb6⟩ := hb
  have hmerge := merge_opts hb5 hb6
  have hunk := no_unknown_opts hb5
  have hs0 : (⟨s.dim, s.latlon, s.temporal, (zero : F), s.lenScale, s.anis, s.angles, s.nugget, s.rescale,
      s.opt, defVarB, defLenB, defNugB, defAnisB⟩ : State F) = { s with varRaw := (zero : F) } := by
    rw [← hb1, ← hb2, ← hb3, ← hb4]
  have hhurst : (sp.tpl && decide (optGet ({ s with varRaw := (zero : F) } : State F) "hurst" = (zero : F))) = false := by
    cases ht : sp.tpl
    · rfl
    · have := hh ht
      rw [← zero_eq] at this
      simp only [Bool.true_and, decide_eq_false_iff_not]
      exact this
  have hresc : ¬ (s.rescale = (zero : F)) := ne_of_gt h.rescale_pos
  unfold construct
  simp only [cfgOf]
  rw [dimRule_self h hfix]
  simp only [hunk, Bool.false_eq_true, if_false, hmerge, if_neg hresc, setLenAnis_fixed h,
    setModelAngles_fixed h.angles_len h.latlon_ang h.temporal_ang, absA_of_pos h.rescale_pos, hs0, hhurst]
  have hi := initVar_cfgOf (sp := sp) (s := s) (zero : F) hvf hin
  simp only [cfgOf] at hi
  rw [hi]
  simp only
  have hi2 := initVar_cfgOf (sp := sp) (s := s) s.varRaw hvf hin
  simp only [cfgOf] at hi2
  rw [hi2]
  simp only [hin]

/-- class tables whose optional-argument names are distinct and whose default bounds do not depend on
    the dimension (all shipped classes except JBessel, SuperSpherical, TPLSimple — D8) -/
def SpecOK (sp : ClassSpec F) : Prop :=
  (∀ d d', (sp.opts d).map (fun o => (o.name, o.bnd)) = (sp.opts d').map (fun o => (o.name, o.bnd))) ∧
  ∀ d, ((sp.opts d).map (·.name)).Nodup

theorem initVar_sameBounds {sp : ClassSpec F} {cfg : Cfg F} {s s' : State F} (h : initVar sp cfg s = .ok s') :
    SameBounds s s' := by
  obtain ⟨⟨v, hv⟩, _⟩ := initVar_ok h
  subst hv
  exact ⟨rfl, rfl, rfl, rfl, rfl⟩

/-- a freshly constructed model carries the default bounds of its class -/
theorem construct_bounds {sp : ClassSpec F} {cfg : Cfg F} {s : State F} {w : Bool}
    (h : construct sp cfg = .ok (s, w)) :
    ∃ d, s.varB = defVarB ∧ s.lenB = defLenB ∧ s.nugB = defNugB ∧ s.anisB = defAnisB ∧
      s.opt.map (fun o => (o.name, o.bnd)) = (sp.opts d).map (fun o => (o.name, o.bnd)) := by
  unfold construct at h
  simp only at h
  split at h
  · cases h
  · rename_i d w1 hdim
    refine ⟨d, ?_⟩
    split at h
    · cases h
    · split at h
      · cases h
      · split at h
        · cases h
        · split at h
          · cases h
          · split at h
            · cases h
            · split at h
              · cases h
              · rename_i s1 hs1
                have hb1 := initVar_sameBounds hs1
                split at h
                · cases h
                · split at h
                  · cases h
                  · rename_i s3 hs3
                    have hb3 := initVar_sameBounds hs3
                    split at h
                    · cases h
                    · injection h with h
                      injection h with h _
                      subst h
                      have hb2 : SameBounds s1 (match cfg.integralScale with
                          | none => (⟨s1, none, false⟩ : Res F)
                          | some v => doSetIntegralScale sp s1 v).st := by
                        split
                        · exact SameBounds.refl s1
                        · exact sameBounds_doSetIntegralScale sp s1 _
                      obtain ⟨e1, e2, e3, e4, e5⟩ := (hb1.trans hb2).trans hb3
                      refine ⟨e1, e2, e3, e4, ?_⟩
                      rw [e5]
                      simp only [List.map_map]
                      apply List.map_congr_left
                      intro o _
                      exact mergeOpt_name_bnd _ o

theorem checkArgBounds_rescale {sp : ClassSpec F} (htpl : sp.tpl = false) (s : State F) (r : F) :
    checkArgBounds sp ({ s with rescale := r } : State F) = checkArgBounds sp s := by
  simp only [checkArgBounds, argList, var, varFactor, htpl, Bool.false_eq_true, if_false]

theorem varFactor_nontpl {sp : ClassSpec F} (htpl : sp.tpl = false) (s : State F) : varFactor sp s = 1 := by
  simp [varFactor, htpl, one_eq]

/-- what holds in every state reached by a history of plain setters none of which raised
    (dimension-independent bounds; for TPL classes the unchecked `rescale` setter is not plain) -/
theorem reachOk_invariants {sp : ClassSpec F} (hsp : SpecOK sp) {s : State F}
    (h : ReachOk sp s) : WF s ∧ checkArgBounds sp s = none ∧ DefaultBounds sp s := by
  induction h with
  | init hc =>
    obtain ⟨hw, hin⟩ := construct_ok hc
    obtain ⟨d, e1, e2, e3, e4, e5⟩ := construct_bounds hc
    refine ⟨hw, hin, e1, e2, e3, e4, e5.trans (hsp.1 _ _), ?_⟩
    rename_i cfg s1 w1
    have : List.map (fun o : OptArg F => o.name) s1.opt = List.map (fun o : OptArg F => o.name) (sp.opts d) := by
      have := congrArg (List.map Prod.fst) e5
      rw [List.map_map, List.map_map] at this
      exact this
    rw [this]; exact hsp.2 d
  | @step s0 op _ hp herr ih =>
    obtain ⟨hw, hin, hdb⟩ := ih
    have hw' := wf_step sp op hw
    obtain ⟨e1, e2, e3, e4, e5⟩ := sameBounds_step sp s0 op hp
    have hdb' : DefaultBounds sp (step sp s0 op).st := by
      obtain ⟨d1, d2, d3, d4, d5, d6⟩ := hdb
      refine ⟨e1.trans d1, e2.trans d2, e3.trans d3, e4.trans d4, (e5.trans d5).trans (hsp.1 _ _), ?_⟩
      have : List.map (fun o : OptArg F => o.name) (step sp s0 op).st.opt
          = List.map (fun o : OptArg F => o.name) s0.opt := by
        have := congrArg (List.map Prod.fst) e5
        rw [List.map_map, List.map_map] at this
        exact this
      rw [this]; exact d6
    refine ⟨hw', ?_, hdb'⟩
    by_cases hr : ∃ v, op = .setRescale v
    · obtain ⟨v, rfl⟩ := hr
      have htpl : sp.tpl = false := by
        simp only [Op.plain, Bool.not_eq_true'] at hp
        exact hp
      simp only [step, doSetRescale] at herr ⊢
      split at herr
      · cases herr
      · split at herr
        · cases herr
        · rename_i x hx hne
          simp only [if_neg hne]
          rw [checkArgBounds_rescale htpl]; exact hin
    · exact (checkArgBounds_eq_none_iff sp _).mpr
        (step_ok_inBounds sp s0 op hp (fun v hv => hr ⟨v, hv⟩) herr)

/-- optional-argument names of the class table are distinct and do not shadow a standard argument -/
def SpecNamesOK (sp : ClassSpec F) : Prop :=
  ∀ d, ((sp.opts d).map (·.name)).Nodup ∧
    ∀ o ∈ sp.opts d, o.name ≠ "var" ∧ o.name ≠ "len_scale" ∧ o.name ≠ "nugget" ∧ o.name ≠ "anis"

theorem construct_optNamesOK {sp : ClassSpec F} (hsp : SpecNamesOK sp) {cfg : Cfg F} {s : State F} {w : Bool}
    (h : construct sp cfg = .ok (s, w)) : OptNamesOK s := by
  obtain ⟨d, _, _, _, _, e5⟩ := construct_bounds h
  have hnames : s.opt.map (·.name) = (sp.opts d).map (·.name) := by
    have := congrArg (List.map Prod.fst) e5
    rw [List.map_map, List.map_map] at this
    exact this
  refine ⟨hnames ▸ (hsp d).1, ?_⟩
  intro o ho
  have : o.name ∈ (sp.opts d).map (·.name) := hnames ▸ List.mem_map_of_mem (f := (·.name)) ho
  obtain ⟨o2, ho2, hn2⟩ := List.mem_map.mp this
  rw [← hn2]; exact (hsp d).2 o2 ho2

/-- bounds invariant along histories that also contain `set_arg_bounds(check_args=True)` calls -/
theorem reachOkB_inBounds {sp : ClassSpec F} (hsp : SpecNamesOK sp) {s : State F} (h : ReachOkB sp s) :
    OptNamesOK s ∧ InBounds sp s := by
  induction h with
  | init hc =>
    exact ⟨construct_optNamesOK hsp hc, (checkArgBounds_eq_none_iff sp _).mp (construct_ok hc).2⟩
  | @step s0 op _ hp hr herr ih =>
    exact ⟨optNamesOK_of_sameBounds (sameBounds_step sp s0 op hp) ih.1, step_ok_inBounds sp s0 op hp hr herr⟩
  | @bounds s0 bs _ herr ih =>
    exact ⟨optNamesOK_argBoundsLoop sp true bs s0 none ih.1, argBoundsLoop_ok sp bs s0 none ih.1 ih.2 herr⟩

end field

end GSV.Lemmas.CovState
