/-
  Helper lemmas about the CovModel parameter state machine (`GSV/Model/CovState.lean`).
  Part 1 is law-free (any carrier with the operations); part 2 works over an arbitrary linearly
  ordered field `F` (so it covers both `ℚ`, on which the driver executes the model, and `ℝ`).
-/
import GSV.Model.CovState
import Mathlib.Algebra.Order.Field.Basic
import Mathlib.Data.List.Basic
import Mathlib.Tactic.Linarith
import Mathlib.Tactic.FieldSimp
import Mathlib.Tactic.NormNum

set_option linter.unusedSectionVars false
namespace GSV.Lemmas.CovState
open GSV GSV.Model.CovState

/-! ## Part 1: law-free structure -/
section lawfree
variable {α : Type} [Arith α] [DecidableLT α] [DecidableLE α] [DecidableEq α] [HasRPow α]

theorem setAnisL_length (d : Nat) (l : List α) : (setAnisL d l).length = d - 1 := by
  simp only [setAnisL, List.length_append, List.length_replicate, List.length_take]
  omega

theorem setAnglesL_length (d : Nat) (l : List α) : (setAnglesL d l).length = noOfAngles d := by
  simp only [setAnglesL, List.length_append, List.length_replicate, List.length_take]
  omega

theorem setModelAngles_length (d : Nat) (l : List α) (ll t : Bool) :
    (setModelAngles d l ll t).length = noOfAngles d := by
  unfold setModelAngles
  split
  · simp
  · split
    · simp only [List.length_append, List.length_replicate, List.length_take, setAnglesL_length]
      omega
    · exact setAnglesL_length d l

/-- `set_anis` is the identity on a ratio list of the right length -/
theorem setAnisL_of_length {d : Nat} {l : List α} (h : l.length = d - 1) : setAnisL d l = l := by
  simp [setAnisL, List.take_of_length_le (le_of_eq h), h]

/-- `set_angles` is the identity on an angle list of the right length -/
theorem setAnglesL_of_length {d : Nat} {l : List α} (h : l.length = noOfAngles d) : setAnglesL d l = l := by
  simp [setAnglesL, List.take_of_length_le (le_of_eq h), h]

/-- pad rule of `set_anis`: too few ratios are filled up IN FRONT with ones -/
theorem setAnisL_pad {d : Nat} {l : List α} (h : l.length ≤ d - 1) :
    setAnisL d l = List.replicate (d - 1 - l.length) (one : α) ++ l := by
  simp [setAnisL, List.take_of_length_le h]

/-- truncation rule of `set_anis`: only the first `d-1` ratios are kept -/
theorem setAnisL_trunc {d : Nat} {l : List α} (h : d - 1 ≤ l.length) : setAnisL d l = l.take (d - 1) := by
  simp [setAnisL, List.length_take, Nat.min_eq_left h]

/-- pad rule of `set_angles`: too few angles are filled up AT THE END with zeros -/
theorem setAnglesL_pad {d : Nat} {l : List α} (h : l.length ≤ noOfAngles d) :
    setAnglesL d l = l ++ List.replicate (noOfAngles d - l.length) (zero : α) := by
  simp [setAnglesL, List.take_of_length_le h]

theorem setAnglesL_trunc {d : Nat} {l : List α} (h : noOfAngles d ≤ l.length) :
    setAnglesL d l = l.take (noOfAngles d) := by
  simp [setAnglesL, List.length_take, Nat.min_eq_left h]

theorem eq_replicate_of_all {z : α} {l : List α} (h : ∀ a ∈ l, a = z) : l = List.replicate l.length z :=
  List.eq_replicate_iff.mpr ⟨rfl, h⟩

/-- the structural invariant of a model state (everything except "values are inside their bounds") -/
structure WF (s : State α) : Prop where
  dim_pos : 1 ≤ s.dim
  anis_len : s.anis.length = s.dim - 1
  angles_len : s.angles.length = noOfAngles s.dim
  anis_pos : ∀ a ∈ s.anis, (zero : α) < a
  latlon_dim : s.latlon = true → s.dim = 3 + tNat s.temporal
  latlon_iso : s.latlon = true → s.anis.take 2 = List.replicate (min 2 s.anis.length) (one : α)
  latlon_ang : s.latlon = true → ∀ a ∈ s.angles, a = (zero : α)
  temporal_ang : s.temporal = true → ∀ a ∈ s.angles.drop (noOfAngles (s.dim - 1)), a = (zero : α)
  rescale_pos : (zero : α) < s.rescale

/-- `set_model_angles` reproduces an angle list that already has the model's structure -/
theorem setModelAngles_fixed {d : Nat} {l : List α} {ll t : Bool} (hlen : l.length = noOfAngles d)
    (hll : ll = true → ∀ a ∈ l, a = (zero : α))
    (ht : t = true → ∀ a ∈ l.drop (noOfAngles (d - 1)), a = (zero : α)) :
    setModelAngles d l ll t = l := by
  unfold setModelAngles
  split
  · rename_i h
    rw [← hlen]; exact (eq_replicate_of_all (hll h)).symm
  · split
    · rename_i h
      rw [setAnglesL_of_length hlen]
      have h2 := eq_replicate_of_all (ht h)
      rw [List.length_drop] at h2
      conv_rhs => rw [← List.take_append_drop (noOfAngles (d - 1)) l, h2]
    · exact setAnglesL_of_length hlen

/-- the angles produced by `set_model_angles` have the model's structure -/
theorem setModelAngles_latlon (d : Nat) (l : List α) (t : Bool) :
    ∀ a ∈ setModelAngles d l true t, a = (zero : α) := by
  intro a ha
  simp only [setModelAngles, if_true] at ha
  exact (List.mem_replicate.mp ha).2

theorem setModelAngles_temporal (d : Nat) (l : List α) (ll : Bool) :
    ∀ a ∈ (setModelAngles d l ll true).drop (noOfAngles (d - 1)), a = (zero : α) := by
  intro a ha
  unfold setModelAngles at ha
  split at ha
  · exact (List.mem_replicate.mp (List.mem_of_mem_drop ha)).2
  · simp only [if_true] at ha
    rw [List.drop_append] at ha
    rcases List.mem_append.mp ha with h | h
    · rw [List.drop_take] at h
      simp at h
    · exact (List.mem_replicate.mp (List.mem_of_mem_drop h)).2

theorem isoFirst2_length (a : List α) : (isoFirst2 a).length = a.length := by
  simp only [isoFirst2, List.length_append, List.length_replicate, List.length_drop]
  omega

theorem isoFirst2_take (a : List α) :
    (isoFirst2 a).take 2 = List.replicate (min 2 (isoFirst2 a).length) (one : α) := by
  rw [isoFirst2_length]
  simp only [isoFirst2]
  rw [List.take_append]
  simp only [List.length_replicate, List.take_replicate]
  have : 2 - min 2 a.length = 0 ∨ a.drop 2 = [] := by
    by_cases h : 2 ≤ a.length
    · left; omega
    · right; exact List.drop_eq_nil_of_le (by omega)
  rcases this with h | h
  · rw [h]; simp
  · rw [h]; simp

theorem isoFirst2_fixed {a : List α} (h : a.take 2 = List.replicate (min 2 a.length) (one : α)) :
    isoFirst2 a = a := by
  conv_rhs => rw [← List.take_append_drop 2 a, h]
  rfl

theorem mem_isoFirst2 {a : List α} {x : α} (hx : x ∈ isoFirst2 a) : x = (one : α) ∨ x ∈ a := by
  simp only [isoFirst2] at hx
  rcases List.mem_append.mp hx with h | h
  · exact Or.inl (List.mem_replicate.mp h).2
  · exact Or.inr (List.mem_of_mem_drop h)

/-- what a successful `finishAnis` returns -/
theorem finishAnis_ok {l : α} {a : List α} {ll : Bool} {l' : α} {a' : List α}
    (h : finishAnis l a ll = .ok (l', a')) :
    l' = l ∧ (∀ x ∈ a, (zero : α) < x) ∧ a' = (if ll then isoFirst2 a else a) := by
  unfold finishAnis at h
  split at h
  · rename_i hall
    injection h with h
    injection h with h1 h2
    refine ⟨h1.symm, ?_, h2.symm⟩
    intro x hx
    have := List.all_eq_true.mp hall x hx
    simpa using this
  · cases h

theorem finishAnis_of_pos {l : α} {a : List α} (ll : Bool) (h : ∀ x ∈ a, (zero : α) < x) :
    finishAnis l a ll = .ok (l, if ll then isoFirst2 a else a) := by
  unfold finishAnis
  rw [if_pos]
  exact List.all_eq_true.mpr (fun x hx => by simpa using h x hx)

/-- `error_case = 0` means: every value is inside the interval (stated with the comparisons the code makes) -/
def InBnd (b : Bnd α) (v : α) : Prop :=
  (match b.lo with
    | none => True
    | some l => if b.loC then ¬ v < l else ¬ v ≤ l) ∧
  (match b.hi with
    | none => True
    | some h => if b.hiC then ¬ h < v else ¬ h ≤ v)

theorem errorCase_eq_zero_iff (b : Bnd α) (vals : List α) :
    errorCase b vals = 0 ↔ ∀ v ∈ vals, InBnd b v := by
  obtain ⟨lo, hi, loC, hiC⟩ := b
  cases lo <;> cases hi <;> cases loC <;> cases hiC <;>
    simp only [errorCase, InBnd, List.any_eq_true, decide_eq_true_eq, Bool.false_eq_true, if_true, if_false,
      true_and, and_true] <;>
    (try simp) <;>
    (try (constructor
          · intro h
            split_ifs at h <;> simp_all
          · intro h
            split_ifs <;> simp_all))

end lawfree

end GSV.Lemmas.CovState
