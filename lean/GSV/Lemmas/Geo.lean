/-
  Helper lemmas for C12: the bridge from the executable `Nat → Nat → ℝ` matrices of `GSV.Model.Geo`
  to Mathlib's `Matrix (Fin d) (Fin d) ℝ`, the algebra of Givens rotations, and list facts about
  `rotation_planes` / padding.
-/
import GSV.Model.Geo
import GSV.Lemmas.Sum
import GSV.RealInst
import Mathlib.LinearAlgebra.UnitaryGroup
import Mathlib.LinearAlgebra.Matrix.NonsingularInverse
import Mathlib.Analysis.SpecialFunctions.Trigonometric.Basic
import Mathlib.Tactic.Ring
import Mathlib.Tactic.Linarith
import Mathlib.Tactic.FieldSimp
namespace GSV.Lemmas.Geo
open GSV GSV.Model.Geo Matrix

set_option linter.unusedSimpArgs false

/-- the `d × d` block of a model matrix as a Mathlib matrix -/
def toM (d : Nat) (A : Nat → Nat → ℝ) : Matrix (Fin d) (Fin d) ℝ := Matrix.of fun i j => A i j

/-- the first `d` entries of a model vector -/
def toV (d : Nat) (x : Nat → ℝ) : Fin d → ℝ := fun i => x i

@[simp] theorem toM_apply (d : Nat) (A : Nat → Nat → ℝ) (i j : Fin d) : toM d A i j = A i j := rfl
@[simp] theorem toV_apply (d : Nat) (x : Nat → ℝ) (i : Fin d) : toV d x i = x i := rfl

theorem toM_eye (d : Nat) : toM d (eye : Nat → Nat → ℝ) = 1 := by
  ext i j
  simp [eye, Matrix.one_apply, Fin.ext_iff]

theorem toM_matmul (d : Nat) (A B : Nat → Nat → ℝ) :
    toM d (matmul d A B) = toM d A * toM d B := by
  ext i j
  simp only [toM_apply, matmul, Matrix.mul_apply]
  rw [forRange_cast_zero_add_eq_sum, Fin.sum_univ_eq_sum_range (fun k => A i k * B k j)]

theorem toM_transpose (d : Nat) (A : Nat → Nat → ℝ) :
    toM d (Model.Geo.transpose A) = (toM d A)ᵀ := by
  ext i j; rfl

theorem toV_applyMat (d : Nat) (M : Nat → Nat → ℝ) (x : Nat → ℝ) :
    toV d (applyMat d M x) = toM d M *ᵥ toV d x := by
  ext i
  simp only [toV_apply, applyMat, Matrix.mulVec, dotProduct, toM_apply]
  rw [forRange_cast_zero_add_eq_sum, Fin.sum_univ_eq_sum_range (fun k => M i k * x k)]

theorem norm2_eq (d : Nat) (v : Nat → ℝ) :
    norm2 d v = Real.sqrt (toV d v ⬝ᵥ toV d v) := by
  simp only [norm2, sqrt_real, dotProduct, toV_apply]
  rw [forRange_cast_zero_add_eq_sum, Fin.sum_univ_eq_sum_range (fun k => v k * v k)]

theorem phase_eq (d : Nat) (k x : Nat → ℝ) : phase d k x = toV d k ⬝ᵥ toV d x := by
  simp only [phase, dotProduct, toV_apply]
  rw [forRange_cast_zero_add_eq_sum, Fin.sum_univ_eq_sum_range (fun i => k i * x i)]

theorem toM_diag (d : Nat) (l : List ℝ) :
    toM d (Model.Geo.diag l) = Matrix.diagonal fun i : Fin d => l[(i : Nat)]?.getD 0 := by
  ext i j
  by_cases h : i = j
  · subst h; simp [Model.Geo.diag]
  · have : (i : Nat) ≠ j := fun e => h (Fin.ext e)
    simp [Model.Geo.diag, Matrix.diagonal_apply_ne _ h, this]

/-! ### Givens rotations as Mathlib matrices -/

/-- the Givens rotation in the plane of the axes `p`, `q`: rows as combinations of unit vectors -/
noncomputable def givM {d : Nat} (p q : Fin d) (a : ℝ) : Matrix (Fin d) (Fin d) ℝ :=
  Matrix.of fun i =>
    if i = p then Real.cos a • Pi.single p (1:ℝ) - Real.sin a • Pi.single q (1:ℝ)
    else if i = q then Real.sin a • Pi.single p (1:ℝ) + Real.cos a • Pi.single q (1:ℝ)
    else Pi.single i (1:ℝ)

theorem toM_givens {d p q : Nat} (hp : p < d) (hq : q < d) (hpq : p ≠ q) (a : ℝ) :
    toM d (givens (p, q) a) = givM ⟨p, hp⟩ ⟨q, hq⟩ a := by
  ext i j
  obtain ⟨i, hi⟩ := i
  obtain ⟨j, hj⟩ := j
  simp only [toM_apply, givens, upd2, eye, givM, Matrix.of_apply, cos_real, sin_real, Fin.mk.injEq]
  by_cases hip : i = p
  · subst hip
    by_cases hjq : j = q
    · subst hjq; simp [hpq, Ne.symm hpq, Pi.single_apply, Fin.ext_iff]
    · by_cases hji : j = i
      · subst hji; simp [hpq, Pi.single_apply, Fin.ext_iff]
      · have : i ≠ j := fun e => hji e.symm
        simp [hpq, Ne.symm hpq, hjq, hji, this, Pi.single_apply, Fin.ext_iff]
  · by_cases hiq : i = q
    · subst hiq
      by_cases hjp : j = p
      · subst hjp; simp [hpq, Ne.symm hpq, Pi.single_apply, Fin.ext_iff]
      · by_cases hji : j = i
        · subst hji; simp [hpq, Ne.symm hpq, hip, Pi.single_apply, Fin.ext_iff]
        · have : i ≠ j := fun e => hji e.symm
          simp [hpq, Ne.symm hpq, hip, hjp, hji, this, Pi.single_apply, Fin.ext_iff]
    · by_cases hij : i = j
      · subst hij; simp [hip, hiq, Pi.single_apply, Fin.ext_iff]
      · have : j ≠ i := fun e => hij e.symm
        simp [hip, hiq, hij, this, Pi.single_apply, Fin.ext_iff]

theorem givM_zero {d : Nat} (p q : Fin d) : givM p q 0 = 1 := by
  ext i j
  simp only [givM, Matrix.of_apply, Real.cos_zero, Real.sin_zero, one_smul, zero_smul, sub_zero, zero_add]
  by_cases hp : i = p
  · subst hp; simp [Matrix.one_apply, Pi.single_apply, eq_comm]
  · by_cases hq : i = q
    · subst hq; simp [hp, Matrix.one_apply, Pi.single_apply, eq_comm]
    · simp [hp, hq, Matrix.one_apply, Pi.single_apply, eq_comm]

theorem givM_row_p {d : Nat} (p q : Fin d) (a : ℝ) :
    givM p q a p = Real.cos a • Pi.single p (1:ℝ) - Real.sin a • Pi.single q (1:ℝ) := by
  funext j; simp [givM]

theorem givM_row_q {d : Nat} {p q : Fin d} (hpq : p ≠ q) (a : ℝ) :
    givM p q a q = Real.sin a • Pi.single p (1:ℝ) + Real.cos a • Pi.single q (1:ℝ) := by
  funext j; simp [givM, Ne.symm hpq]

theorem givM_row_other {d : Nat} {p q i : Fin d} (hp : i ≠ p) (hq : i ≠ q) (a : ℝ) :
    givM p q a i = Pi.single i (1:ℝ) := by
  funext j; simp [givM, hp, hq]

theorem single_vecMul_one {d : Nat} (k : Fin d) (B : Matrix (Fin d) (Fin d) ℝ) :
    Pi.single k (1:ℝ) ᵥ* B = B k := by
  funext j; simp [Matrix.single_vecMul]

/-- rotations in the same plane compose by adding the angles -/
theorem givM_mul {d : Nat} {p q : Fin d} (hpq : p ≠ q) (a b : ℝ) :
    givM p q a * givM p q b = givM p q (a + b) := by
  ext i j
  rw [Matrix.mul_apply_eq_vecMul]
  by_cases hp : i = p
  · subst hp
    rw [givM_row_p, Matrix.sub_vecMul, Matrix.smul_vecMul, Matrix.smul_vecMul, single_vecMul_one,
      single_vecMul_one, givM_row_p, givM_row_q hpq, givM_row_p, Real.cos_add, Real.sin_add]
    simp only [Pi.sub_apply, Pi.add_apply, Pi.smul_apply, smul_eq_mul]
    ring
  · by_cases hq : i = q
    · subst hq
      rw [givM_row_q hpq, Matrix.add_vecMul, Matrix.smul_vecMul, Matrix.smul_vecMul, single_vecMul_one,
        single_vecMul_one, givM_row_p, givM_row_q hpq, givM_row_q hpq, Real.cos_add, Real.sin_add]
      simp only [Pi.sub_apply, Pi.add_apply, Pi.smul_apply, smul_eq_mul]
      ring
    · rw [givM_row_other hp hq, single_vecMul_one, givM_row_other hp hq, givM_row_other hp hq]

theorem givM_transpose {d : Nat} {p q : Fin d} (hpq : p ≠ q) (a : ℝ) :
    (givM p q a)ᵀ = givM p q (-a) := by
  ext i j
  simp only [Matrix.transpose_apply, givM, Matrix.of_apply, Real.cos_neg, Real.sin_neg]
  by_cases hip : i = p <;> by_cases hiq : i = q <;> by_cases hjp : j = p <;> by_cases hjq : j = q <;>
    by_cases hij : i = j <;>
    simp_all [Pi.single_apply, eq_comm]

theorem givM_mul_transpose {d : Nat} {p q : Fin d} (hpq : p ≠ q) (a : ℝ) :
    givM p q a * (givM p q a)ᵀ = 1 := by
  rw [givM_transpose hpq, givM_mul hpq, add_neg_cancel, givM_zero]

theorem givM_transpose_mul {d : Nat} {p q : Fin d} (hpq : p ≠ q) (a : ℝ) :
    (givM p q a)ᵀ * givM p q a = 1 := by
  rw [givM_transpose hpq, givM_mul hpq, neg_add_cancel, givM_zero]

/-- `det = 1` by the half-angle trick: `G(a) = G(a/2)²` and `det G(a/2)² = det (G Gᵀ) = 1` -/
theorem givM_det {d : Nat} {p q : Fin d} (hpq : p ≠ q) (a : ℝ) : (givM p q a).det = 1 := by
  have h2 : givM p q a = givM p q (a / 2) * givM p q (a / 2) := by
    rw [givM_mul hpq]; congr 1; ring
  have h1 : (givM p q (a / 2)).det * (givM p q (a / 2)).det = 1 := by
    have := congrArg Matrix.det (givM_mul_transpose hpq (a / 2))
    rwa [Matrix.det_mul, Matrix.det_transpose, Matrix.det_one] at this
  rw [h2, Matrix.det_mul, h1]

theorem givM_mem_orthogonal {d : Nat} {p q : Fin d} (hpq : p ≠ q) (a : ℝ) :
    givM p q a ∈ Matrix.orthogonalGroup (Fin d) ℝ := by
  rw [Matrix.mem_orthogonalGroup_iff]
  exact givM_mul_transpose hpq a

theorem givM_mem_special {d : Nat} {p q : Fin d} (hpq : p ≠ q) (a : ℝ) :
    givM p q a ∈ Matrix.specialOrthogonalGroup (Fin d) ℝ :=
  Matrix.mem_specialOrthogonalGroup_iff.2 ⟨givM_mem_orthogonal hpq a, givM_det hpq a⟩

/-! ### rotation planes -/

theorem rotationPlanes_succ {d : Nat} (h : 1 ≤ d) :
    rotationPlanes (d + 1) = rotationPlanes d ++ (idxRange 0 d).map fun i => (i, d) := by
  simp [rotationPlanes, idxRange_succ h, List.flatMap_append]

theorem mem_rotationPlanes {d : Nat} {p : Nat × Nat} :
    p ∈ rotationPlanes d ↔ p.1 < p.2 ∧ p.2 < d := by
  obtain ⟨i, j⟩ := p
  simp only [rotationPlanes, List.mem_flatMap, List.mem_map, mem_idxRange, Prod.mk.injEq]
  constructor
  · rintro ⟨a, ⟨ha1, ha2⟩, b, ⟨_, hb⟩, rfl, rfl⟩; exact ⟨hb, ha2⟩
  · rintro ⟨h1, h2⟩; exact ⟨j, ⟨by omega, h2⟩, i, ⟨Nat.zero_le _, h1⟩, rfl, rfl⟩

theorem length_rotationPlanes_two_mul (d : Nat) : 2 * (rotationPlanes d).length = d * (d - 1) := by
  induction d with
  | zero => simp [rotationPlanes, idxRange]
  | succ d ih =>
    rcases Nat.eq_zero_or_pos d with rfl | hd
    · simp [rotationPlanes, idxRange]
    · rw [rotationPlanes_succ hd, List.length_append, List.length_map, Nat.mul_add, ih]
      have : (idxRange 0 d).length = d := by simp [idxRange]
      rw [this]
      obtain ⟨e, rfl⟩ : ∃ e, d = e + 1 := ⟨d - 1, by omega⟩
      simp only [Nat.add_sub_cancel]
      ring

/-- there are exactly `no_of_angles(dim)` rotation planes, so `zip(angles, planes)` drops nothing -/
theorem length_rotationPlanes (d : Nat) : (rotationPlanes d).length = noOfAngles d := by
  unfold noOfAngles
  rw [← length_rotationPlanes_two_mul, Nat.mul_div_cancel_left _ (by norm_num : 0 < 2)]

theorem nodup_rotationPlanes (d : Nat) : (rotationPlanes d).Nodup := by
  unfold rotationPlanes
  rw [List.nodup_flatMap]
  refine ⟨fun j _ => (nodup_idxRange _ _).map (fun a b h => by simpa using h), ?_⟩
  refine List.Pairwise.imp_of_mem ?_ (nodup_idxRange 1 d)
  intro a b _ _ hab x hx1 hx2
  simp only [List.mem_map] at hx1 hx2
  obtain ⟨_, _, rfl⟩ := hx1
  obtain ⟨_, _, h⟩ := hx2
  exact hab (by simpa using (congrArg Prod.snd h).symm)

/-! ### the two rotation loops -/

/-- a sequence of (plane, angle) pairs all of whose planes are genuine planes of dimension `d` -/
def Valid (d : Nat) (l : List ((Nat × Nat) × ℝ)) : Prop := ∀ p ∈ l, p.1.1 < p.1.2 ∧ p.1.2 < d

/-- the Givens matrix of one loop step -/
noncomputable def gM (d : Nat) (p : (Nat × Nat) × ℝ) : Matrix (Fin d) (Fin d) ℝ := toM d (givens p.1 p.2)

theorem signedSeq_valid (d : Nat) (as : List ℝ) : Valid d (signedSeq d as) := by
  intro p hp
  simp only [signedSeq, List.mem_map] at hp
  obtain ⟨⟨⟨a, pl⟩, i⟩, hmem, rfl⟩ := hp
  have h1 : (a, pl) ∈ as.zip (rotationPlanes d) := List.fst_mem_of_mem_zipIdx hmem
  exact mem_rotationPlanes.1 (List.of_mem_zip h1).2

theorem ofArr_tabArr {d : Nat} (f : Nat → Nat → ℝ) {i j : Nat} (hi : i < d) (hj : j < d) :
    ofArr d (tabArr d f) i j = f i j := by
  have hsz : (tabArr d f).size = d * d := by simp [tabArr]
  have hlt : j + i * d < d * d := by
    calc j + i * d < d + i * d := by omega
      _ = (i + 1) * d := by ring
      _ ≤ d * d := Nat.mul_le_mul_right d (by omega)
  have hd : 0 < d := by omega
  unfold ofArr
  rw [dif_pos ⟨hj, by rw [hsz]; exact hlt⟩]
  simp only [tabArr, Array.getElem_ofFn]
  rw [Nat.add_mul_div_right _ _ hd, Nat.add_mul_mod_self_right, Nat.div_eq_of_lt hj, Nat.mod_eq_of_lt hj,
    Nat.zero_add]

/-- materialising a matrix does not change its `d × d` block -/
theorem toM_ofArr_tabArr (d : Nat) (f : Nat → Nat → ℝ) : toM d (ofArr d (tabArr d f)) = toM d f := by
  ext i j
  exact ofArr_tabArr f i.2 j.2

theorem toM_foldl_rotate (d : Nat) (l : List ((Nat × Nat) × ℝ)) (R0 : Array ℝ) :
    toM d (ofArr d (l.foldl (fun r p => tabArr d (matmul d (givens p.1 p.2) (ofArr d r))) R0))
      = ((l.map (gM d)).reverse).prod * toM d (ofArr d R0) := by
  induction l generalizing R0 with
  | nil => simp
  | cons p l ih =>
    rw [List.foldl_cons, ih, toM_ofArr_tabArr, toM_matmul]
    simp [gM, Matrix.mul_assoc]

theorem toM_foldl_derotate (d : Nat) (l : List ((Nat × Nat) × ℝ)) (D0 : Array ℝ) :
    toM d (ofArr d (l.foldl (fun r p => tabArr d (matmul d (ofArr d r) (givens p.1 p.2))) D0))
      = toM d (ofArr d D0) * (l.map (gM d)).prod := by
  induction l generalizing D0 with
  | nil => simp
  | cons p l ih =>
    rw [List.foldl_cons, ih, toM_ofArr_tabArr, toM_matmul]
    simp [gM, Matrix.mul_assoc]

theorem gM_eq_givM {d : Nat} {p : (Nat × Nat) × ℝ} (h : p.1.1 < p.1.2 ∧ p.1.2 < d) :
    gM d p = givM ⟨p.1.1, by omega⟩ ⟨p.1.2, h.2⟩ p.2 := by
  obtain ⟨⟨i, j⟩, a⟩ := p
  simp only at h
  exact toM_givens (by omega) h.2 (by omega) a

theorem gM_mem_special {d : Nat} {p : (Nat × Nat) × ℝ} (h : p.1.1 < p.1.2 ∧ p.1.2 < d) :
    gM d p ∈ Matrix.specialOrthogonalGroup (Fin d) ℝ := by
  rw [gM_eq_givM h]
  exact givM_mem_special (by intro e; have := congrArg Fin.val e; simp at this; omega) _

theorem gM_neg {d : Nat} {p : (Nat × Nat) × ℝ} (h : p.1.1 < p.1.2 ∧ p.1.2 < d) :
    gM d (p.1, -p.2) = (gM d p)ᵀ := by
  rw [gM_eq_givM h, gM_eq_givM (p := (p.1, -p.2)) h, givM_transpose]
  intro e; have := congrArg Fin.val e; simp at this; omega

theorem signedSeq_neg (d : Nat) (as : List ℝ) :
    signedSeq d (as.map fun a => -a) = (signedSeq d as).map fun p => (p.1, -p.2) := by
  simp only [signedSeq, List.zip_map_left, List.zipIdx_map, List.map_map]
  apply List.map_congr_left
  intro p _
  simp

theorem prod_map_transpose {d : Nat} (l : List (Matrix (Fin d) (Fin d) ℝ)) :
    (l.map Matrix.transpose).prod = (l.reverse.prod)ᵀ := by
  rw [Matrix.transpose_list_prod, List.map_reverse, List.reverse_reverse]

/-! ### padding and stretching -/

theorem length_setAngles (d : Nat) (as : List ℝ) : (setAngles d as).length = noOfAngles d := by
  simp only [setAngles, List.length_append, List.length_take, List.length_replicate]
  omega

theorem length_setAnis (d : Nat) (an : List ℝ) : (setAnis d an).length = d - 1 := by
  unfold setAnis
  simp only [List.length_take]
  split
  · simp only [List.length_append, List.length_replicate, List.length_take]; omega
  · simp only [List.length_take]; omega

theorem mem_setAnis {d : Nat} {an : List ℝ} {a : ℝ} (h : a ∈ setAnis d an) : a = 1 ∨ a ∈ an := by
  simp only [setAnis] at h
  split at h
  · rcases List.mem_append.1 h with h | h
    · left; simpa using (List.mem_replicate.1 h).2
    · right; exact List.mem_of_mem_take h
  · right; exact List.mem_of_mem_take h

theorem setAnis_pos {d : Nat} {an : List ℝ} (h : ∀ a ∈ an, 0 < a) : ∀ a ∈ setAnis d an, 0 < a := by
  intro a ha
  rcases mem_setAnis ha with rfl | ha
  · exact one_pos
  · exact h a ha

/-- the stretching factors `[1] ++ set_anis(dim, anis)` as a function on the axes -/
noncomputable def stretch (d : Nat) (an : List ℝ) : Fin d → ℝ :=
  fun i => (1 :: setAnis d an)[(i : Nat)]?.getD 0

theorem stretch_eq_getElem (d : Nat) (an : List ℝ) (i : Fin d) :
    stretch d an i = (1 :: setAnis d an)[(i : Nat)]'(by
      have := i.2; simp only [List.length_cons, length_setAnis]; omega) := by
  unfold stretch
  rw [List.getElem?_eq_getElem]; rfl

theorem stretch_pos {d : Nat} {an : List ℝ} (h : ∀ a ∈ an, 0 < a) (i : Fin d) : 0 < stretch d an i := by
  rw [stretch_eq_getElem]
  have hm := List.getElem_mem (l := (1 : ℝ) :: setAnis d an) (n := (i : Nat)) (by
      have := i.2; simp only [List.length_cons, length_setAnis]; omega)
  rcases List.mem_cons.1 hm with h1 | h1
  · rw [h1]; exact one_pos
  · exact setAnis_pos h _ h1

theorem toM_anisotropify (d : Nat) (an : List ℝ) :
    toM d (matrixAnisotropify d an) = Matrix.diagonal (stretch d an) := by
  rw [matrixAnisotropify, toM_diag]
  congr 1
  funext i
  simp [stretch]

theorem toM_isotropify (d : Nat) (an : List ℝ) :
    toM d (matrixIsotropify d an) = Matrix.diagonal fun i => 1 / stretch d an i := by
  rw [matrixIsotropify, toM_diag]
  congr 1
  funext i
  obtain ⟨i, hi⟩ := i
  have hlen : i < ((1 : ℝ) :: setAnis d an).length := by
    simp only [List.length_cons, length_setAnis]; omega
  simp only [stretch]
  cases i with
  | zero => simp
  | succ k =>
    have hk : k < (setAnis d an).length := by simpa using hlen
    simp [List.getElem?_eq_getElem hk]

/-! ### ang2dir -/

theorem prodL_eq (l : List ℝ) : prodL l = l.prod := by
  rw [prodL, Nat.cast_one, List.prod_eq_foldl]

/-- the components of `ang2dir` after the first one, by recursion on the angle list -/
noncomputable def dirRest : List ℝ → List ℝ
  | [] => []
  | a :: t => (t.map Real.sin).prod * Real.cos a :: dirRest t

theorem length_dirRest (l : List ℝ) : (dirRest l).length = l.length := by
  induction l with
  | nil => rfl
  | cons a t ih => simp [dirRest, ih]

theorem dirRest_eq (angles : List ℝ) :
    (idxRange 1 (angles.length + 1)).map (fun i =>
        prodL ((angles.map Transc.sin).drop i) * Transc.cos (angles[i - 1]?.getD ((0:Nat):ℝ)))
      = dirRest angles := by
  induction angles with
  | nil => simp [idxRange, dirRest]
  | cons a t ih =>
    have hr : idxRange 1 ((a :: t).length + 1) = 1 :: (idxRange 1 (t.length + 1)).map (· + 1) := by
      simp only [idxRange, List.length_cons, Nat.add_sub_cancel]
      rw [List.range'_succ]
      congr 1
      apply List.ext_getElem
      · simp
      · intro n h1 h2
        simp [List.getElem_range']
        omega
    have hsin : (Transc.sin : ℝ → ℝ) = Real.sin := rfl
    have hcos : (Transc.cos : ℝ → ℝ) = Real.cos := rfl
    rw [hr, List.map_cons, List.map_map, dirRest, ← ih]
    congr 1
    · simp [prodL_eq, hsin, hcos]
    · apply List.map_congr_left
      intro i hi
      have h1 : 1 ≤ i := (mem_idxRange.1 hi).1
      obtain ⟨k, rfl⟩ : ∃ k, i = k + 1 := ⟨i - 1, by omega⟩
      simp

theorem sqSum_dir (l : List ℝ) :
    (((l.map Real.sin).prod :: dirRest l).map fun v => v * v).sum = 1 := by
  induction l with
  | nil => simp [dirRest]
  | cons a t ih =>
    simp only [List.map_cons, List.prod_cons, List.sum_cons, dirRest] at ih ⊢
    have h := Real.sin_sq_add_cos_sq a
    nlinarith [h, ih]

end GSV.Lemmas.Geo
