/-
  Helper lemmas for C14 path independence in the presence of bounds operations
  (`set_arg_bounds`, the `*_bounds` property setters): a state is rebuilt from a directly constructed model by
  setting the same bounds.  Part 1 is law-free; part 2 works over a linearly ordered field.
-/
import GSV.Lemmas.CovState

set_option linter.unusedSectionVars false
namespace GSV.Lemmas.CovState
open GSV GSV.Model.CovState

/-! ## Part 1: law-free -/
section lawfree
variable {α : Type} [Arith α] [DecidableLT α] [DecidableLE α] [DecidableEq α] [HasRPow α]

/-- the lower end lies below the upper end (what `check_bounds` demands of user-given bounds) -/
def BndOrdered (b : Bnd α) : Prop :=
  match b.lo, b.hi with
  | some l, some h => l < h
  | _, _ => True

/-- stored bounds as a user writes them: `[lo, hi, "cc" | "co" | "oc" | "oo"]` -/
def rawOf (b : Bnd α) : RawBnd α :=
  ⟨b.lo, b.hi, if b.loC then (if b.hiC then "cc" else "co") else (if b.hiC then "oc" else "oo")⟩

theorem toBnd_rawOf {b : Bnd α} (h : BndOrdered b) : (rawOf b).toBnd? = some b := by
  obtain ⟨lo, hi, loC, hiC⟩ := b
  cases lo <;> cases hi <;> cases loC <;> cases hiC <;>
    simp_all [BndOrdered, rawOf, RawBnd.toBnd?]

theorem toBnd_typ {lo hi : Option α} {typ : String} {b : Bnd α}
    (h : (match typ with
      | "" => some (⟨lo, hi, true, true⟩ : Bnd α)
      | "cc" => some ⟨lo, hi, true, true⟩
      | "co" => some ⟨lo, hi, true, false⟩
      | "oc" => some ⟨lo, hi, false, true⟩
      | "oo" => some ⟨lo, hi, false, false⟩
      | _ => none) = some b) : b.lo = lo ∧ b.hi = hi := by
  split at h <;> first
    | (simp only [Option.some.injEq] at h; subst h; exact ⟨rfl, rfl⟩)
    | (exact absurd h (by simp))

theorem toBnd_ordered {r : RawBnd α} {b : Bnd α} (h : r.toBnd? = some b) : BndOrdered b := by
  obtain ⟨lo, hi, typ⟩ := r
  unfold RawBnd.toBnd? at h
  simp only at h
  unfold BndOrdered
  rcases lo with _ | l <;> rcases hi with _ | u
  · simp only [Bool.not_true, Bool.false_eq_true, if_false] at h
    rw [(toBnd_typ h).1]; trivial
  · simp only [Bool.not_true, Bool.false_eq_true, if_false] at h
    rw [(toBnd_typ h).1]; trivial
  · simp only [Bool.not_true, Bool.false_eq_true, if_false] at h
    rw [(toBnd_typ h).1, (toBnd_typ h).2]; trivial
  · by_cases hlt : l < u
    · simp only [hlt, decide_true, Bool.not_true, Bool.false_eq_true, if_false] at h
      rw [(toBnd_typ h).1, (toBnd_typ h).2]; exact hlt
    · simp only [hlt, decide_false, Bool.not_false, if_true] at h
      exact absurd h (by simp)

/-- `model.arg_bounds` as keyword arguments of `set_arg_bounds` (dict order) -/
def boundsArgs (s : State α) : List (String × RawBnd α) :=
  [("var", rawOf s.varB), ("len_scale", rawOf s.lenB), ("nugget", rawOf s.nugB), ("anis", rawOf s.anisB)]
    ++ s.opt.map (fun o => (o.name, rawOf o.bnd))

/-- the state a freshly constructed model with the same values carries: default bounds of the standard arguments,
    the class's default bounds of the optional ones -/
def resetBounds (sp : ClassSpec α) (s : State α) : State α :=
  { s with varB := defVarB, lenB := defLenB, nugB := defNugB, anisB := defAnisB,
           opt := List.zipWith (fun o c => { o with bnd := c.bnd }) s.opt (sp.opts s.dim) }

/-- all stored bounds are ordered -/
def AllOrdered (s : State α) : Prop :=
  BndOrdered s.varB ∧ BndOrdered s.lenB ∧ BndOrdered s.nugB ∧ BndOrdered s.anisB ∧ ∀ o ∈ s.opt, BndOrdered o.bnd

theorem names_of_sameBounds {s s' : State α} (h : SameBounds s s') :
    s'.opt.map (·.name) = s.opt.map (·.name) := by
  have := congrArg (List.map Prod.fst) h.2.2.2.2
  rw [List.map_map, List.map_map] at this
  exact this

theorem allOrdered_of_sameBounds {s s' : State α} (h : SameBounds s s') (ho : AllOrdered s) : AllOrdered s' := by
  obtain ⟨e1, e2, e3, e4, e5⟩ := h
  obtain ⟨o1, o2, o3, o4, o5⟩ := ho
  refine ⟨e1 ▸ o1, e2 ▸ o2, e3 ▸ o3, e4 ▸ o4, ?_⟩
  intro o hmem
  have : (o.name, o.bnd) ∈ s.opt.map (fun o => (o.name, o.bnd)) := by
    rw [← e5]; exact List.mem_map.mpr ⟨o, hmem, rfl⟩
  obtain ⟨o2', h2, heq⟩ := List.mem_map.mp this
  have : o2'.bnd = o.bnd := by injection heq
  rw [← this]; exact o5 o2' h2

theorem names_storeBnd {s s1 : State α} {arg : String} {b : Bnd α} (hs : storeBnd s arg b = some s1) :
    s1.opt.map (·.name) = s.opt.map (·.name) := by
  unfold storeBnd at hs
  split at hs
  · injection hs with hs; subst hs
    simp only [List.map_map]
    apply List.map_congr_left
    intro o _
    simp only [Function.comp]
    split <;> rfl
  · split at hs <;> first | (injection hs with hs; subst hs; rfl) | cases hs

theorem allOrdered_storeBnd {s s1 : State α} {arg : String} {b : Bnd α} (hs : storeBnd s arg b = some s1)
    (hb : BndOrdered b) (ho : AllOrdered s) : AllOrdered s1 := by
  obtain ⟨o1, o2, o3, o4, o5⟩ := ho
  unfold storeBnd at hs
  split at hs
  · injection hs with hs; subst hs
    refine ⟨o1, o2, o3, o4, ?_⟩
    intro o hmem
    obtain ⟨o', h', rfl⟩ := List.mem_map.mp hmem
    split
    · exact hb
    · exact o5 o' h'
  · split at hs
    · injection hs with hs; subst hs; exact ⟨o1, hb, o3, o4, o5⟩
    · injection hs with hs; subst hs; exact ⟨o1, o2, hb, o4, o5⟩
    · injection hs with hs; subst hs; exact ⟨o1, o2, o3, hb, o5⟩
    · cases hs

/-- `set_arg_bounds` (either `check_args`) keeps the optional-argument names and the orderedness of all bounds -/
theorem names_ordered_argBoundsLoop (sp : ClassSpec α) (check : Bool) (bs : List (String × RawBnd α)) :
    ∀ (s : State α) (vb : Option (Bnd α)), AllOrdered s → (∀ b, vb = some b → BndOrdered b) →
      (argBoundsLoop sp check bs s vb).st.opt.map (·.name) = s.opt.map (·.name) ∧
      AllOrdered (argBoundsLoop sp check bs s vb).st := by
  induction bs with
  | nil =>
    intro s vb ho hvb
    unfold argBoundsLoop
    split
    · exact ⟨rfl, ho⟩
    · rename_i b
      have hb := hvb b rfl
      have h1 : AllOrdered ({ s with varB := b } : State α) := ⟨hb, ho.2.1, ho.2.2.1, ho.2.2.2.1, ho.2.2.2.2⟩
      simp only
      split
      · have hsb := sameBounds_assignDefault sp ({ s with varB := b } : State α) "var" b
        have hn := names_of_sameBounds hsb
        exact ⟨hn, allOrdered_of_sameBounds hsb h1⟩
      · exact ⟨rfl, h1⟩
  | cons p rest ih =>
    intro s vb ho hvb
    obtain ⟨arg, raw⟩ := p
    unfold argBoundsLoop
    split
    · exact ⟨rfl, ho⟩
    · rename_i b hraw
      have hb := toBnd_ordered hraw
      split
      · exact ih _ _ ho (fun b' hb' => by injection hb' with hb'; subst hb'; exact hb)
      · split
        · exact ⟨rfl, ho⟩
        · rename_i s1 hs1
          have hn1 := names_storeBnd hs1
          have ho1 := allOrdered_storeBnd hs1 hb ho
          split
          · have hsb := sameBounds_assignDefault sp s1 arg b
            have hn2 := (names_of_sameBounds hsb).trans hn1
            have ho2 := allOrdered_of_sameBounds hsb ho1
            simp only
            split
            · exact ⟨hn2, ho2⟩
            · obtain ⟨r1, r2⟩ := ih _ vb ho2 hvb
              exact ⟨r1.trans hn2, r2⟩
          · obtain ⟨r1, r2⟩ := ih _ vb ho1 hvb
            exact ⟨r1.trans hn1, r2⟩

/-- every operation — plain setters, `rescale`, both forms of `set_arg_bounds`, the `*_bounds` properties, raising or
    not — keeps the names of the optional arguments and the orderedness of all stored bounds -/
theorem names_ordered_step (sp : ClassSpec α) (s : State α) (op : Op α) (ho : AllOrdered s) :
    (step sp s op).st.opt.map (·.name) = s.opt.map (·.name) ∧ AllOrdered (step sp s op).st := by
  have plain : ∀ {s' : State α}, SameBounds s s' → s'.opt.map (·.name) = s.opt.map (·.name) ∧ AllOrdered s' :=
    fun h => ⟨names_of_sameBounds h, allOrdered_of_sameBounds h ho⟩
  cases op with
  | setDim d => exact plain (sameBounds_doSetDim sp s d)
  | setVar v => exact plain (sameBounds_doSetVar sp s v)
  | setVarRaw v => exact plain ⟨rfl, rfl, rfl, rfl, rfl⟩
  | setNugget v => exact plain ⟨rfl, rfl, rfl, rfl, rfl⟩
  | setLenScale vs => exact plain (sameBounds_doSetLenScale sp s vs)
  | setAnis vs => exact plain (sameBounds_doSetAnis sp s vs)
  | setAngles vs => exact plain ⟨rfl, rfl, rfl, rfl, rfl⟩
  | setRescale v => exact plain (sameBounds_doSetRescale sp s v)
  | setOpt n v => exact plain (sameBounds_doSetOpt sp s n v)
  | setIntegralScale vs => exact plain (sameBounds_doSetIntegralScale sp s vs)
  | setArgBounds check bs => exact names_ordered_argBoundsLoop sp check bs s none ho (fun _ h => by cases h)
  | setBoundsProp arg raw =>
    obtain ⟨o1, o2, o3, o4, o5⟩ := ho
    simp only [step]
    unfold doSetBoundsProp
    split
    · exact ⟨rfl, o1, o2, o3, o4, o5⟩
    · rename_i b hraw
      have hb := toBnd_ordered hraw
      split
      · exact ⟨rfl, hb, o2, o3, o4, o5⟩
      · exact ⟨rfl, o1, hb, o3, o4, o5⟩
      · exact ⟨rfl, o1, o2, hb, o4, o5⟩
      · exact ⟨rfl, o1, o2, o3, hb, o5⟩
      · exact ⟨rfl, o1, o2, o3, o4, o5⟩

/-- resetting the bounds keeps names and values of the optional arguments … -/
theorem resetBounds_name_val (sp : ClassSpec α) (s : State α) (hlen : (sp.opts s.dim).length = s.opt.length) :
    (resetBounds sp s).opt.map (fun o => (o.name, o.val)) = s.opt.map (fun o => (o.name, o.val)) := by
  unfold resetBounds
  simp only
  generalize sp.opts s.dim = C at hlen
  generalize s.opt = L at hlen
  induction L generalizing C with
  | nil => simp
  | cons a L ih =>
    cases C with
    | nil => simp at hlen
    | cons c C =>
      simp only [List.length_cons, Nat.add_right_cancel_iff] at hlen
      simp [ih C hlen]

/-- … and installs the class's default bounds, name by name -/
theorem resetBounds_name_bnd (sp : ClassSpec α) (s : State α)
    (hnames : s.opt.map (·.name) = (sp.opts s.dim).map (·.name)) :
    (resetBounds sp s).opt.map (fun o => (o.name, o.bnd)) = (sp.opts s.dim).map (fun o => (o.name, o.bnd)) := by
  unfold resetBounds
  simp only
  generalize sp.opts s.dim = C at hnames
  generalize s.opt = L at hnames
  induction L generalizing C with
  | nil =>
    cases C with
    | nil => simp
    | cons c C => simp at hnames
  | cons a L ih =>
    cases C with
    | nil => simp at hnames
    | cons c C =>
      simp only [List.map_cons, List.cons.injEq] at hnames
      simp [ih C hnames.2, hnames.1]

/-! ### evaluating `set_arg_bounds(check_args=False, **bounds)` -/

theorem hasOpt_false_of_names {s : State α} {n : String} (h : ∀ o ∈ s.opt, o.name ≠ n) : hasOpt s n = false := by
  cases hh : hasOpt s n with
  | false => rfl
  | true =>
    obtain ⟨o, ho, hn⟩ := hasOpt_iff.mp hh
    exact absurd hn (h o ho)

/-- the optional-argument part of the loop: bounds are stored one name after the other -/
theorem argBoundsLoop_opts (sp : ClassSpec α) (vb : Option (Bnd α)) :
    ∀ (todo todo' done : List (OptArg α)) (c : State α),
      c.opt = done ++ todo' →
      todo'.map (fun o => (o.name, o.val)) = todo.map (fun o => (o.name, o.val)) →
      ((done ++ todo).map (·.name)).Nodup →
      (∀ o ∈ todo, BndOrdered o.bnd) →
      argBoundsLoop sp false (todo.map (fun o => (o.name, rawOf o.bnd))) c vb
        = argBoundsLoop sp false [] ({ c with opt := done ++ todo } : State α) vb := by
  intro todo
  induction todo with
  | nil =>
    intro todo' done c hc hmap _ _
    have : todo' = [] := by
      cases todo' with
      | nil => rfl
      | cons a l => simp at hmap
    subst this
    have hc' : ({ c with opt := done ++ [] } : State α) = c := by
      rw [← hc]
    simp only [List.map_nil]
    rw [hc']
  | cons o rest ih =>
    intro todo' done c hc hmap hnd hord
    cases todo' with
    | nil => simp at hmap
    | cons o' rest' =>
      simp only [List.map_cons, List.cons.injEq, Prod.mk.injEq] at hmap
      obtain ⟨⟨hname, hval⟩, hrest⟩ := hmap
      have hbo := hord o (List.mem_cons_self ..)
      have hhas : hasOpt c o.name = true := by
        rw [hasOpt_iff]
        exact ⟨o', by rw [hc]; simp, hname⟩
      simp only [List.map_cons]
      rw [argBoundsLoop]
      simp only [toBnd_rawOf hbo, hhas, Bool.not_true, Bool.false_and, Bool.false_eq_true, if_false,
        storeBnd_opt hhas]
      -- names in `done` and in `rest` differ from `o.name`
      have hnd' : ((done ++ o :: rest).map (·.name)).Nodup := hnd
      rw [List.map_append, List.map_cons] at hnd'
      have hdone : ∀ x ∈ done, x.name ≠ o.name := by
        intro x hx heq
        have h1 := (List.nodup_append.mp hnd').2.2 x.name (List.mem_map_of_mem (f := (·.name)) hx) o.name
          (List.mem_cons_self ..)
        exact h1 heq
      have hrestn : ∀ x ∈ rest', x.name ≠ o.name := by
        intro x hx heq
        have h2 : (o.name :: rest.map (·.name)).Nodup := (List.nodup_append.mp hnd').2.1
        have hxn : x.name ∈ rest.map (·.name) := by
          have : x.name ∈ rest'.map (·.name) := List.mem_map_of_mem (f := (·.name)) hx
          have hnm : rest'.map (·.name) = rest.map (·.name) := by
            have := congrArg (List.map Prod.fst) hrest
            rw [List.map_map, List.map_map] at this
            exact this
          rw [hnm] at this; exact this
        exact (List.nodup_cons.mp h2).1 (heq ▸ hxn)
      have hmapped : c.opt.map (setBndOf o.name o.bnd) = (done ++ [o]) ++ rest' := by
        rw [hc, List.map_append, List.map_cons]
        have h1 : done.map (setBndOf o.name o.bnd) = done := by
          conv_rhs => rw [← List.map_id done]
          apply List.map_congr_left
          intro x hx
          have : (x.name == o.name) = false := by rw [beq_eq_false_iff_ne]; exact hdone x hx
          simp [setBndOf, this]
        have h2 : rest'.map (setBndOf o.name o.bnd) = rest' := by
          conv_rhs => rw [← List.map_id rest']
          apply List.map_congr_left
          intro x hx
          have : (x.name == o.name) = false := by rw [beq_eq_false_iff_ne]; exact hrestn x hx
          simp [setBndOf, this]
        have h3 : setBndOf o.name o.bnd o' = o := by
          have : (o'.name == o.name) = true := by rw [beq_iff_eq]; exact hname
          obtain ⟨n', v', b'⟩ := o'
          obtain ⟨n, v, b⟩ := o
          simp only at hname hval
          subst hname hval
          simp [setBndOf]
        rw [h1, h2, h3]; simp
      have hnd2 : (((done ++ [o]) ++ rest).map (·.name)).Nodup := by
        simpa using hnd
      have := ih rest' (done ++ [o]) ({ c with opt := c.opt.map (setBndOf o.name o.bnd) } : State α) hmapped hrest hnd2
        (fun x hx => hord x (List.mem_cons_of_mem _ hx))
      rw [this]
      simp

/-- `set_arg_bounds(check_args=False, **s.arg_bounds)` applied to the freshly constructed counterpart of `s` gives `s` -/
theorem setArgBounds_resetBounds (sp : ClassSpec α) (s : State α) (hok : OptNamesOK s) (ho : AllOrdered s)
    (hlen : (sp.opts s.dim).length = s.opt.length) :
    argBoundsLoop sp false (boundsArgs s) (resetBounds sp s) none = ⟨s, none, false⟩ := by
  obtain ⟨o1, o2, o3, o4, o5⟩ := ho
  have hnames : ∀ n, (∀ o ∈ s.opt, o.name ≠ n) → ∀ (c : State α), c.opt.map (·.name) = s.opt.map (·.name) →
      hasOpt c n = false := by
    intro n hn c hc
    apply hasOpt_false_of_names
    intro o hmem heq
    have : o.name ∈ s.opt.map (·.name) := hc ▸ List.mem_map_of_mem (f := (·.name)) hmem
    obtain ⟨o2', h2, hn2⟩ := List.mem_map.mp this
    exact hn o2' h2 (hn2.trans heq)
  -- names and values of the reset optional arguments are those of `s`
  have hzip : (List.zipWith (fun (o c : OptArg α) => ({ o with bnd := c.bnd } : OptArg α)) s.opt (sp.opts s.dim)).map
      (fun o => (o.name, o.val)) = s.opt.map (fun o => (o.name, o.val)) := by
    generalize sp.opts s.dim = C at hlen
    generalize s.opt = L at hlen
    induction L generalizing C with
    | nil => simp
    | cons a L ih =>
      cases C with
      | nil => simp at hlen
      | cons c C =>
        simp only [List.length_cons, Nat.add_right_cancel_iff] at hlen
        simp [ih C hlen]
  have hzipn : (resetBounds sp s).opt.map (·.name) = s.opt.map (·.name) := by
    have := congrArg (List.map Prod.fst) hzip
    rw [List.map_map, List.map_map] at this
    exact this
  have hv : ∀ (c : State α), c.opt.map (·.name) = s.opt.map (·.name) → hasOpt c "var" = false :=
    hnames "var" (fun o h => (hok.2 o h).1)
  have hl : ∀ (c : State α), c.opt.map (·.name) = s.opt.map (·.name) → hasOpt c "len_scale" = false :=
    hnames "len_scale" (fun o h => (hok.2 o h).2.1)
  have hn : ∀ (c : State α), c.opt.map (·.name) = s.opt.map (·.name) → hasOpt c "nugget" = false :=
    hnames "nugget" (fun o h => (hok.2 o h).2.2.1)
  have ha : ∀ (c : State α), c.opt.map (·.name) = s.opt.map (·.name) → hasOpt c "anis" = false :=
    hnames "anis" (fun o h => (hok.2 o h).2.2.2)
  unfold boundsArgs
  simp only [List.cons_append, List.nil_append]
  -- var: deferred
  rw [argBoundsLoop]
  simp only [toBnd_rawOf o1, hv _ hzipn, Bool.not_false, Bool.true_and, beq_self_eq_true, if_true]
  -- len_scale
  rw [argBoundsLoop]
  simp only [toBnd_rawOf o2, hl _ hzipn, Bool.not_false, Bool.true_and]
  have e1 : (("len_scale" : String) == "var") = false := by decide
  simp only [e1, Bool.false_eq_true, if_false, storeBnd, hl _ hzipn, Bool.false_and]
  -- nugget
  rw [argBoundsLoop]
  have e2 : (("nugget" : String) == "var") = false := by decide
  have hn' := hn ({ resetBounds sp s with lenB := s.lenB } : State α) hzipn
  simp only [toBnd_rawOf o3, hn', Bool.not_false, Bool.true_and, e2, Bool.false_eq_true, if_false, storeBnd,
    Bool.false_and]
  -- anis
  rw [argBoundsLoop]
  have e3 : (("anis" : String) == "var") = false := by decide
  have ha' := ha ({ ({ resetBounds sp s with lenB := s.lenB } : State α) with nugB := s.nugB } : State α) hzipn
  simp only [toBnd_rawOf o4, ha', Bool.not_false, Bool.true_and, e3, Bool.false_eq_true, if_false, storeBnd,
    Bool.false_and]
  -- optional arguments
  rw [argBoundsLoop_opts sp (some s.varB) s.opt (resetBounds sp s).opt [] _ (by simp [resetBounds]) hzip
    (by simpa using hok.1) o5]
  rw [argBoundsLoop]
  simp only [Bool.false_and, Bool.false_eq_true, if_false, List.nil_append, resetBounds]

end lawfree

/-! ## Part 2: over a linearly ordered field -/
section field
variable {F : Type} [Field F] [LinearOrder F] [IsStrictOrderedRing F] [HasRPow F]
attribute [local instance] arithOfField

theorem defBounds_ordered :
    BndOrdered (defVarB : Bnd F) ∧ BndOrdered (defLenB : Bnd F) ∧ BndOrdered (defNugB : Bnd F) ∧
      BndOrdered (defAnisB : Bnd F) := by
  simp [BndOrdered, defVarB, defLenB, defNugB, defAnisB]

/-- class tables whose optional-argument NAMES do not depend on the dimension (all shipped classes) and whose
    default bounds are ordered -/
def SpecBoundsOK (sp : ClassSpec F) : Prop :=
  (∀ d d', (sp.opts d).map (·.name) = (sp.opts d').map (·.name)) ∧ ∀ d, ∀ o ∈ sp.opts d, BndOrdered o.bnd

/-- invariants of EVERY reachable state (any history: plain setters, `rescale`, bounds operations, raising calls) -/
theorem reach_names_ordered {sp : ClassSpec F} (hsp : SpecBoundsOK sp) {s : State F} (h : Reach sp s) :
    s.opt.map (·.name) = (sp.opts s.dim).map (·.name) ∧ AllOrdered s := by
  have key : (∃ d, s.opt.map (·.name) = (sp.opts d).map (·.name)) ∧ AllOrdered s := by
    induction h with
    | init hc =>
      obtain ⟨d, e1, e2, e3, e4, e5⟩ := construct_bounds hc
      obtain ⟨b1, b2, b3, b4⟩ := defBounds_ordered (F := F)
      refine ⟨⟨d, ?_⟩, e1 ▸ b1, e2 ▸ b2, e3 ▸ b3, e4 ▸ b4, ?_⟩
      · have := congrArg (List.map Prod.fst) e5
        rw [List.map_map, List.map_map] at this
        exact this
      · intro o hmem
        rename_i cfg s1 w1
        have : (o.name, o.bnd) ∈ (sp.opts d).map (fun o => (o.name, o.bnd)) := by
          rw [← e5]; exact List.mem_map.mpr ⟨o, hmem, rfl⟩
        obtain ⟨o2, h2, heq⟩ := List.mem_map.mp this
        have : o2.bnd = o.bnd := by injection heq
        rw [← this]; exact hsp.2 d o2 h2
    | @step s0 op _ ih =>
      obtain ⟨⟨d, hd⟩, ho⟩ := ih
      obtain ⟨r1, r2⟩ := names_ordered_step sp s0 op ho
      exact ⟨⟨d, r1.trans hd⟩, r2⟩
  obtain ⟨⟨d, hd⟩, ho⟩ := key
  exact ⟨hd.trans (hsp.1 d s.dim), ho⟩

theorem optGet_congr {s s' : State F} (h : s'.opt.map (fun o => (o.name, o.val)) = s.opt.map (fun o => (o.name, o.val)))
    (n : String) : optGet s' n = optGet s n := by
  unfold optGet
  generalize s.opt = L at h
  generalize s'.opt = L' at h
  induction L generalizing L' with
  | nil =>
    cases L' with
    | nil => rfl
    | cons a l => simp at h
  | cons a L ih =>
    cases L' with
    | nil => simp at h
    | cons a' L' =>
      simp only [List.map_cons, List.cons.injEq, Prod.mk.injEq] at h
      obtain ⟨⟨hn, hv⟩, hr⟩ := h
      simp only [List.find?_cons, hn]
      cases hb : (a.name == n) with
      | true => simpa using hv
      | false => simpa using ih L' hr

end field

end GSV.Lemmas.CovState
