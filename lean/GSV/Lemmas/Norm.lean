/-
  Helper lemmas for C18: the Box–Cox core `T c l u = if c then log u else (u^l - 1)/l` on `(0,∞)`, its
  inverse, range, monotonicity and derivative; gluing of one-sided derivatives at `0`; the bridge between
  the executable model `GSV.Model.Norm` at `ℝ` and `T`.
-/
import GSV.RealInst
import GSV.Model.Norm
import Mathlib.Analysis.SpecialFunctions.Pow.Deriv
import Mathlib.Analysis.SpecialFunctions.Log.Deriv
import Mathlib.Analysis.SpecialFunctions.ExpDeriv
import Mathlib.Analysis.Calculus.Deriv.Shift
import Mathlib.Tactic.NormNum.OfScientific
import Mathlib.Tactic.FieldSimp
import Mathlib.Tactic.Linarith
import Mathlib.Tactic.Ring

namespace GSV.Lemmas.Norm
open Real Set

/-! ### the Box–Cox core -/

/-- `c` = "the code took the `isclose` branch" -/
noncomputable def T (c : Bool) (l u : ℝ) : ℝ := if c then Real.log u else (u ^ l - 1) / l
noncomputable def Tinv (c : Bool) (l y : ℝ) : ℝ := if c then Real.exp y else (1 + y * l) ^ (1 / l)
/-- the image of `T c l` on `(0,∞)` -/
def D (c : Bool) (l y : ℝ) : Prop := c = true ∨ 0 < 1 + y * l

theorem T_true (l : ℝ) : T true l = Real.log := by funext u; simp [T]
theorem T_false (l : ℝ) : T false l = fun u => (u ^ l - 1) / l := by funext u; simp [T]

theorem one_add_T_mul {l u : ℝ} (hl : l ≠ 0) : 1 + T false l u * l = u ^ l := by
  simp only [T, Bool.false_eq_true, if_false]; field_simp; ring

theorem Tinv_T {c : Bool} {l u : ℝ} (h : c = false → l ≠ 0) (hu : 0 < u) : Tinv c l (T c l u) = u := by
  cases c with
  | true => simp [T, Tinv, Real.exp_log hu]
  | false =>
    have hl := h rfl
    have e : Tinv false l (T false l u) = (1 + T false l u * l) ^ (1 / l) := by simp [Tinv]
    rw [e, one_add_T_mul hl, ← Real.rpow_mul hu.le, mul_one_div_cancel hl, Real.rpow_one]

theorem Tinv_pos {c : Bool} {l y : ℝ} (hy : D c l y) : 0 < Tinv c l y := by
  cases c with
  | true => simp [Tinv, Real.exp_pos]
  | false =>
    rcases hy with h | h
    · cases h
    · simp only [Tinv, Bool.false_eq_true, if_false]; exact Real.rpow_pos_of_pos h _

theorem T_Tinv {c : Bool} {l y : ℝ} (h : c = false → l ≠ 0) (hy : D c l y) : T c l (Tinv c l y) = y := by
  cases c with
  | true => simp [T, Tinv]
  | false =>
    have hl := h rfl
    rcases hy with h' | h'
    · cases h'
    · simp only [T, Tinv, Bool.false_eq_true, if_false]
      rw [← Real.rpow_mul h'.le, one_div_mul_cancel hl, Real.rpow_one]
      field_simp; ring

theorem T_D {c : Bool} {l u : ℝ} (h : c = false → l ≠ 0) (hu : 0 < u) : D c l (T c l u) := by
  cases c with
  | true => exact Or.inl rfl
  | false => right; rw [one_add_T_mul (h rfl)]; exact Real.rpow_pos_of_pos hu _

theorem T_one (c : Bool) (l : ℝ) : T c l 1 = 0 := by
  cases c <;> simp [T]

theorem Tinv_zero (c : Bool) (l : ℝ) : Tinv c l 0 = 1 := by
  cases c <;> simp [Tinv]

theorem T_strictMonoOn {c : Bool} {l : ℝ} (h : c = false → l ≠ 0) : StrictMonoOn (T c l) (Ioi 0) := by
  cases c with
  | true => rw [T_true]; exact Real.strictMonoOn_log
  | false =>
    have hl := h rfl
    rw [T_false]
    intro u hu v _ huv
    rcases lt_or_gt_of_ne hl with hneg | hpos
    · have := Real.rpow_lt_rpow_of_neg hu huv hneg
      exact div_lt_div_of_neg_of_lt hneg (by linarith)
    · have := Real.rpow_lt_rpow (le_of_lt hu) huv hpos
      exact div_lt_div_of_pos_right (by linarith) hpos

theorem T_lt {c : Bool} {l u v : ℝ} (h : c = false → l ≠ 0) (hu : 0 < u) (huv : u < v) : T c l u < T c l v :=
  T_strictMonoOn h hu (lt_trans hu huv) huv

theorem T_pos {c : Bool} {l u : ℝ} (h : c = false → l ≠ 0) (hu : 1 < u) : 0 < T c l u := by
  have := T_lt (c := c) h one_pos hu; rwa [T_one] at this

theorem T_nonneg {c : Bool} {l u : ℝ} (h : c = false → l ≠ 0) (hu : 1 ≤ u) : 0 ≤ T c l u := by
  rcases eq_or_lt_of_le hu with rfl | h1
  · rw [T_one]
  · exact (T_pos h h1).le

/-- on the image, non-negative values come from arguments `≥ 1` -/
theorem one_le_Tinv {c : Bool} {l y : ℝ} (h : c = false → l ≠ 0) (hy : D c l y) (h0 : 0 ≤ y) : 1 ≤ Tinv c l y := by
  by_contra hlt
  have hlt := lt_of_not_ge hlt
  have := T_lt (c := c) h (Tinv_pos hy) hlt
  rw [T_Tinv h hy, T_one] at this
  linarith

theorem one_lt_Tinv {c : Bool} {l y : ℝ} (h : c = false → l ≠ 0) (hy : D c l y) (h0 : 0 < y) : 1 < Tinv c l y := by
  rcases eq_or_lt_of_le (one_le_Tinv h hy h0.le) with e | h1
  · have := T_Tinv h hy; rw [← e, T_one] at this; linarith
  · exact h1

/-- the derivative reported by the code, `u^(l-1)`, is the derivative of `T` when the `isclose` branch is
    only taken at `l = 0` exactly -/
theorem T_hasDerivAt {c : Bool} {l u : ℝ} (h : c = false → l ≠ 0) (h' : c = true → l = 0) (hu : 0 < u) :
    HasDerivAt (T c l) (u ^ (l - 1)) u := by
  cases c with
  | true =>
    rw [T_true, h' rfl]
    have : u ^ ((0:ℝ) - 1) = u⁻¹ := by rw [zero_sub, Real.rpow_neg_one]
    rw [this]; exact Real.hasDerivAt_log hu.ne'
  | false =>
    have hl := h rfl
    rw [T_false]
    have h1 : HasDerivAt (fun x : ℝ => x ^ l) (l * u ^ (l - 1)) u := Real.hasDerivAt_rpow_const (Or.inl hu.ne')
    have h2 := (h1.sub_const 1).div_const l
    have e : l * u ^ (l - 1) / l = u ^ (l - 1) := by field_simp
    rw [e] at h2; exact h2

/-- inside the `isclose` band the code normalises with `log` but still reports `u^(l-1)`:
    reported = true derivative × `u^l` -/
theorem T_hasDerivAt_band {l u : ℝ} (hu : 0 < u) : HasDerivAt (T true l) (u ^ (l - 1) / u ^ l) u := by
  rw [T_true, Real.rpow_sub_one hu.ne']
  have : u ^ l / u / u ^ l = u⁻¹ := by
    have := (Real.rpow_pos_of_pos hu l).ne'
    field_simp
  rw [this]; exact Real.hasDerivAt_log hu.ne'

/-! ### gluing one-sided derivatives -/

theorem hasDerivAt_glue {f g h : ℝ → ℝ} {a d : ℝ}
    (hg : HasDerivAt g d a) (hh : HasDerivAt h d a)
    (fg : ∀ x, a ≤ x → f x = g x) (fh : ∀ x, x ≤ a → f x = h x) : HasDerivAt f d a := by
  have h1 : HasDerivWithinAt f d (Ici a) a :=
    hg.hasDerivWithinAt.congr (fun x hx => fg x hx) (fg a le_rfl)
  have h2 : HasDerivWithinAt f d (Iic a) a :=
    hh.hasDerivWithinAt.congr (fun x hx => fh x hx) (fh a le_rfl)
  have := h2.union h1
  rwa [Iic_union_Ici, hasDerivWithinAt_univ] at this

/-! ### two-sided transforms (Yeo–Johnson, Modulus) -/

/-- `T c l (x+1)` on `x ≥ 0`, `-T c' l' (1-x)` on `x < 0` -/
noncomputable def G (c : Bool) (l : ℝ) (c' : Bool) (l' x : ℝ) : ℝ :=
  if 0 ≤ x then T c l (x + 1) else -T c' l' (1 - x)
noncomputable def Ginv (c : Bool) (l : ℝ) (c' : Bool) (l' y : ℝ) : ℝ :=
  if 0 ≤ y then Tinv c l y - 1 else 1 - Tinv c' l' (-y)
/-- the image of `G` -/
def GD (c : Bool) (l : ℝ) (c' : Bool) (l' y : ℝ) : Prop :=
  (0 ≤ y → D c l y) ∧ (y < 0 → D c' l' (-y))
/-- the derivative the code reports for `G` -/
noncomputable def G' (l l' x : ℝ) : ℝ := if 0 ≤ x then (x + 1) ^ (l - 1) else (1 - x) ^ (l' - 1)

section G
set_option linter.unusedSectionVars false
variable {c c' : Bool} {l l' : ℝ} (h : c = false → l ≠ 0) (h' : c' = false → l' ≠ 0)
include h h'

theorem G_nonneg {x : ℝ} (hx : 0 ≤ x) : 0 ≤ G c l c' l' x := by
  simp only [G, hx, if_true]; exact T_nonneg h (by linarith)

theorem G_neg {x : ℝ} (hx : x < 0) : G c l c' l' x < 0 := by
  simp only [G, not_le.mpr hx, if_false]
  have := T_pos (c := c') (l := l') h' (show 1 < 1 - x by linarith); linarith

theorem G_image (x : ℝ) : GD c l c' l' (G c l c' l' x) := by
  rcases le_or_gt 0 x with hx | hx
  · refine ⟨fun _ => ?_, fun hy => absurd (G_nonneg h h' hx) (not_le.mpr hy)⟩
    simp only [G, hx, if_true]; exact T_D h (by linarith)
  · refine ⟨fun hy => absurd (G_neg h h' hx) (not_lt.mpr hy), fun _ => ?_⟩
    simp only [G, not_le.mpr hx, if_false, neg_neg]; exact T_D h' (by linarith)

theorem Ginv_G (x : ℝ) : Ginv c l c' l' (G c l c' l' x) = x := by
  rcases le_or_gt 0 x with hx | hx
  · have h0 := G_nonneg h h' hx
    rw [Ginv, if_pos h0]; simp only [G, hx, if_true]
    rw [Tinv_T h (by linarith)]; ring
  · have h0 := G_neg h h' hx
    rw [Ginv, if_neg (not_le.mpr h0)]; simp only [G, not_le.mpr hx, if_false, neg_neg]
    rw [Tinv_T h' (by linarith)]; ring

theorem G_Ginv {y : ℝ} (hy : GD c l c' l' y) : G c l c' l' (Ginv c l c' l' y) = y := by
  rcases le_or_gt 0 y with h0 | h0
  · have hd := hy.1 h0
    have := one_le_Tinv h hd h0
    simp only [Ginv, h0, if_true]
    rw [G, if_pos (by linarith), sub_add_cancel, T_Tinv h hd]
  · have hd := hy.2 h0
    have := one_lt_Tinv h' hd (show 0 < -y by linarith)
    simp only [Ginv, not_le.mpr h0, if_false]
    rw [G, if_neg (by linarith), sub_sub_cancel, T_Tinv h' hd, neg_neg]

theorem G_strictMono : StrictMono (G c l c' l') := by
  intro x x' hxx
  rcases le_or_gt 0 x with hx | hx
  · have hx' : 0 ≤ x' := by linarith
    simp only [G, hx, hx', if_true]
    exact T_lt h (by linarith) (by linarith)
  · rcases le_or_gt 0 x' with hx' | hx'
    · exact lt_of_lt_of_le (G_neg h h' hx) (G_nonneg h h' hx')
    · simp only [G, not_le.mpr hx, not_le.mpr hx', if_false]
      have := T_lt (c := c') (l := l') h' (show 0 < 1 - x' by linarith) (show 1 - x' < 1 - x by linarith)
      linarith

theorem G_hasDerivAt {x : ℝ} (e : 0 ≤ x → c = true → l = 0) (e' : x ≤ 0 → c' = true → l' = 0) :
    HasDerivAt (G c l c' l') (G' l l' x) x := by
  have hg : ∀ z : ℝ, 0 ≤ z → (c = true → l = 0) → HasDerivAt (fun z => T c l (z + 1)) ((z + 1) ^ (l - 1)) z :=
    fun z hz ec => HasDerivAt.comp_add_const z 1 (T_hasDerivAt h ec (by linarith))
  have hh : ∀ z : ℝ, z ≤ 0 → (c' = true → l' = 0) →
      HasDerivAt (fun z => -T c' l' (1 - z)) ((1 - z) ^ (l' - 1)) z := by
    intro z hz ec
    have := (HasDerivAt.comp_const_sub 1 z (T_hasDerivAt h' ec (show 0 < 1 - z by linarith))).neg
    rwa [neg_neg] at this
  rcases lt_trichotomy x 0 with hx | rfl | hx
  · have : G' l l' x = (1 - x) ^ (l' - 1) := by simp [G', not_le.mpr hx]
    rw [this]
    refine (hh x hx.le (e' hx.le)).congr_of_eventuallyEq ?_
    filter_upwards [Iio_mem_nhds hx] with z hz
    simp [G, not_le.mpr (show z < 0 from hz)]
  · have e1 : G' l l' 0 = (0 + 1) ^ (l - 1) := by simp [G']
    have e2 : G' l l' 0 = (1 - 0) ^ (l' - 1) := by simp [G']
    refine hasDerivAt_glue (g := fun z => T c l (z + 1)) (h := fun z => -T c' l' (1 - z)) ?_ ?_ ?_ ?_
    · rw [e1]; exact hg 0 le_rfl (e le_rfl)
    · rw [e2]; exact hh 0 le_rfl (e' le_rfl)
    · intro z hz; simp [G, hz]
    · intro z hz
      rcases eq_or_lt_of_le hz with rfl | hz'
      · simp [G, T_one]
      · simp [G, not_le.mpr hz']
  · have : G' l l' x = (x + 1) ^ (l - 1) := by simp [G', hx.le]
    rw [this]
    refine (hg x hx.le (e hx.le)).congr_of_eventuallyEq ?_
    filter_upwards [Ioi_mem_nhds hx] with z hz
    simp [G, (show 0 ≤ z from le_of_lt hz)]

end G

/-! ### the model at `ℝ` -/
open GSV.Model.Norm

theorem isclose_iff (a b : ℝ) : isclose a b = true ↔ |a - b| ≤ 1e-8 + 1e-5 * |b| := by
  simp [isclose]

/-- the `isclose(lmbda, 0)` band is `|lmbda| ≤ 1e-8` -/
theorem c0_iff (p : Par ℝ) : c0 p = true ↔ |p.lmbda| ≤ 1e-8 := by
  simp [c0, isclose]

/-- the `isclose(lmbda, 2)` band is `|lmbda - 2| ≤ 1e-8 + 2e-5` -/
theorem c2_iff (p : Par ℝ) : c2 p = true ↔ |p.lmbda - 2| ≤ 1e-8 + 2e-5 := by
  simp [c2, isclose]; norm_num

theorem c0_of_eq {p : Par ℝ} (h : p.lmbda = 0) : c0 p = true := by
  rw [c0_iff, h]; norm_num

theorem c2_of_eq {p : Par ℝ} (h : p.lmbda = 2) : c2 p = true := by
  rw [c2_iff, h]; norm_num

theorem lmbda_ne_zero {p : Par ℝ} (h : c0 p = false) : p.lmbda ≠ 0 := by
  intro e; rw [c0_of_eq e] at h; cases h

theorem two_sub_lmbda_ne_zero {p : Par ℝ} (h : c2 p = false) : 2 - p.lmbda ≠ 0 := by
  intro e; have : p.lmbda = 2 := by linarith
  rw [c2_of_eq this] at h; cases h

theorem sgn_pos {x : ℝ} (h : 0 < x) : sgn x = 1 := by simp [sgn, h]
theorem sgn_neg {x : ℝ} (h : x < 0) : sgn x = -1 := by simp [sgn, h, not_lt.mpr h.le]
theorem sgn_zero : sgn (0:ℝ) = 0 := by simp [sgn]

/-! ### bridge: model functions in terms of `T` / `Tinv` -/

theorem normRaw_identity (p : Par ℝ) (x : ℝ) : normRaw .identity p x = x := rfl
theorem denormRaw_identity (p : Par ℝ) (x : ℝ) : denormRaw .identity p x = x := rfl
theorem normRaw_logNormal (p : Par ℝ) (x : ℝ) : normRaw .logNormal p x = T true 0 x := by
  simp [normRaw, T]
theorem denormRaw_logNormal (p : Par ℝ) (y : ℝ) : denormRaw .logNormal p y = Tinv true 0 y := by
  simp [denormRaw, Tinv]
theorem normRaw_boxCox (p : Par ℝ) (x : ℝ) : normRaw .boxCox p x = T (c0 p) p.lmbda x := by
  simp only [normRaw, T]; cases c0 p <;> simp
theorem denormRaw_boxCox (p : Par ℝ) (y : ℝ) : denormRaw .boxCox p y = Tinv (c0 p) p.lmbda y := by
  simp only [denormRaw, Tinv]; cases c0 p <;> simp
theorem normRaw_boxCoxShift (p : Par ℝ) (x : ℝ) :
    normRaw .boxCoxShift p x = T (c0 p) p.lmbda (x + p.shift) := by
  simp only [normRaw, T]; cases c0 p <;> simp
theorem denormRaw_boxCoxShift (p : Par ℝ) (y : ℝ) :
    denormRaw .boxCoxShift p y = Tinv (c0 p) p.lmbda y - p.shift := by
  simp only [denormRaw, Tinv]; cases c0 p <;> simp
theorem normRaw_yeoJohnson (p : Par ℝ) (x : ℝ) :
    normRaw .yeoJohnson p x =
      if 0 ≤ x then T (c0 p) p.lmbda (x + 1) else -T (c2 p) (2 - p.lmbda) (1 - x) := by
  simp only [normRaw, T]
  by_cases hx : 0 ≤ x
  · cases c0 p <;> simp [hx, add_comm]
  · cases c2 p
    · simp only [ge_iff_le, Nat.cast_zero, hx, if_false, Bool.false_eq_true, Nat.cast_one, Nat.cast_ofNat, rpow_real]
      rw [neg_div]; congr 3; ring_nf
    · simp [hx, sub_eq_add_neg]
theorem denormRaw_yeoJohnson (p : Par ℝ) (y : ℝ) :
    denormRaw .yeoJohnson p y =
      if 0 ≤ y then Tinv (c0 p) p.lmbda y - 1 else 1 - Tinv (c2 p) (2 - p.lmbda) (-y) := by
  simp only [denormRaw, Tinv]
  by_cases hy : 0 ≤ y
  · cases c0 p <;> simp [hy, add_comm]
  · cases c2 p
    · simp only [ge_iff_le, Nat.cast_zero, hy, if_false, Bool.false_eq_true, Nat.cast_one, Nat.cast_ofNat, rpow_real]
      congr 2; ring_nf
    · simp [hy]
theorem normRaw_modulus (p : Par ℝ) (x : ℝ) :
    normRaw .modulus p x = sgn x * T (c0 p) p.lmbda (|x| + 1) := by
  simp only [normRaw, T]; cases c0 p <;> simp [add_comm, mul_div_assoc]
theorem denormRaw_modulus (p : Par ℝ) (y : ℝ) :
    denormRaw .modulus p y = sgn y * (Tinv (c0 p) p.lmbda |y| - 1) := by
  simp only [denormRaw, Tinv]; cases c0 p <;> simp [mul_comm]

/-! ### the two-sided classes in `G` form -/

theorem normRaw_yeoJohnson' (p : Par ℝ) (x : ℝ) :
    normRaw .yeoJohnson p x = G (c0 p) p.lmbda (c2 p) (2 - p.lmbda) x := normRaw_yeoJohnson p x
theorem denormRaw_yeoJohnson' (p : Par ℝ) (y : ℝ) :
    denormRaw .yeoJohnson p y = Ginv (c0 p) p.lmbda (c2 p) (2 - p.lmbda) y := denormRaw_yeoJohnson p y

theorem normRaw_modulus' (p : Par ℝ) (x : ℝ) :
    normRaw .modulus p x = G (c0 p) p.lmbda (c0 p) p.lmbda x := by
  rw [normRaw_modulus, G]
  rcases lt_trichotomy x 0 with hx | rfl | hx
  · rw [sgn_neg hx, if_neg (not_le.mpr hx), abs_of_neg hx]; ring_nf
  · simp [sgn_zero, T_one]
  · rw [sgn_pos hx, if_pos hx.le, abs_of_pos hx]; ring

theorem denormRaw_modulus' (p : Par ℝ) (y : ℝ) :
    denormRaw .modulus p y = Ginv (c0 p) p.lmbda (c0 p) p.lmbda y := by
  rw [denormRaw_modulus, Ginv]
  rcases lt_trichotomy y 0 with hy | rfl | hy
  · rw [sgn_neg hy, if_neg (not_le.mpr hy), abs_of_neg hy]; ring
  · simp [sgn_zero, Tinv_zero]
  · rw [sgn_pos hy, if_pos hy.le, abs_of_pos hy]; ring

theorem derivRaw_yeoJohnson (p : Par ℝ) (x : ℝ) :
    derivRaw .yeoJohnson p x = G' p.lmbda (2 - p.lmbda) x := by
  simp only [derivRaw, G', rpow_real, fabs_real, Nat.cast_one]
  rcases lt_trichotomy x 0 with hx | rfl | hx
  · rw [sgn_neg hx, if_neg (not_le.mpr hx), abs_of_neg hx]; congr 1 <;> ring
  · simp [sgn_zero]
  · rw [sgn_pos hx, if_pos hx.le, abs_of_pos hx]; congr 1; ring

theorem derivRaw_modulus (p : Par ℝ) (x : ℝ) :
    derivRaw .modulus p x = G' p.lmbda p.lmbda x := by
  simp only [derivRaw, G', rpow_real, fabs_real, Nat.cast_one]
  rcases le_or_gt 0 x with hx | hx
  · rw [if_pos hx, abs_of_nonneg hx]
  · rw [if_neg (not_le.mpr hx), abs_of_neg hx]; congr 1; ring

/-! ### ranges at `ℝ` -/

theorem valid_real (r : Rng ℝ) (x : ℝ) :
    valid r x = true ↔ (∀ l, r.lo = some l → l < x) ∧ (∀ h, r.hi = some h → x < h) := by
  rcases r with ⟨_ | l, _ | h⟩ <;> simp [valid, inRange, isinf]

/-- the model's `denormalize_range` text shared by BoxCox, BoxCoxShift and Manly describes exactly `D` -/
theorem valid_bcRange (p : Par ℝ) (y : ℝ) :
    valid (if c0 p then (⟨none, none⟩ : Rng ℝ)
      else if p.lmbda < ((0:Nat):ℝ) then ⟨none, some (-(((1:Nat):ℝ) / p.lmbda))⟩
      else ⟨some (-(((1:Nat):ℝ) / p.lmbda)), none⟩) y = true ↔ D (c0 p) p.lmbda y := by
  by_cases hc : c0 p = true
  · simp [hc, D, valid_real]
  · have hcf : c0 p = false := by simpa using hc
    have hl := lmbda_ne_zero hcf
    simp only [hcf, Bool.false_eq_true, if_false, D, false_or, Nat.cast_zero, Nat.cast_one]
    by_cases hneg : p.lmbda < 0
    · simp only [hneg, if_true, valid_real]
      simp only [reduceCtorEq, false_imp_iff, implies_true, true_and, Option.some.injEq, forall_eq']
      rw [← neg_div, lt_div_iff_of_neg hneg]; constructor <;> intro <;> linarith
    · have hpos : 0 < p.lmbda := lt_of_le_of_ne (not_lt.mp hneg) (Ne.symm hl)
      simp only [hneg, if_false, valid_real]
      simp only [reduceCtorEq, false_imp_iff, implies_true, and_true, Option.some.injEq, forall_eq']
      rw [← neg_div, div_lt_iff₀ hpos]; constructor <;> intro <;> linarith

theorem valid_denorm_boxCox (p : Par ℝ) (y : ℝ) :
    valid (denormRange .boxCox p) y = true ↔ D (c0 p) p.lmbda y := valid_bcRange p y
theorem valid_denorm_boxCoxShift (p : Par ℝ) (y : ℝ) :
    valid (denormRange .boxCoxShift p) y = true ↔ D (c0 p) p.lmbda y := valid_bcRange p y
theorem valid_denorm_manly (p : Par ℝ) (y : ℝ) :
    valid (denormRange .manly p) y = true ↔ D (c0 p) p.lmbda y := valid_bcRange p y

theorem valid_norm_logNormal (p : Par ℝ) (x : ℝ) : valid (normRange .logNormal p) x = true ↔ 0 < x := by
  simp [normRange, valid_real]
theorem valid_norm_boxCox (p : Par ℝ) (x : ℝ) : valid (normRange .boxCox p) x = true ↔ 0 < x := by
  simp [normRange, valid_real]
theorem valid_norm_boxCoxShift (p : Par ℝ) (x : ℝ) :
    valid (normRange .boxCoxShift p) x = true ↔ 0 < x + p.shift := by
  simp [normRange, valid_real]; constructor <;> intro <;> linarith
theorem valid_full (x : ℝ) : valid (⟨none, none⟩ : Rng ℝ) x = true := by simp [valid_real]

/-! ### Manly -/

theorem normRaw_manly (p : Par ℝ) (x : ℝ) :
    normRaw .manly p x = if c0 p then x else (Real.exp (x * p.lmbda) - 1) / p.lmbda := by
  simp [normRaw]
theorem denormRaw_manly (p : Par ℝ) (y : ℝ) :
    denormRaw .manly p y = if c0 p then y else Real.log (1 + y * p.lmbda) / p.lmbda := by
  simp [denormRaw]

theorem manly_image (p : Par ℝ) (x : ℝ) : D (c0 p) p.lmbda (normRaw .manly p x) := by
  rw [normRaw_manly]
  by_cases hc : c0 p = true
  · exact Or.inl hc
  · have hcf : c0 p = false := by simpa using hc
    have hl := lmbda_ne_zero hcf
    right; simp only [hcf, Bool.false_eq_true, if_false]
    have : 1 + (Real.exp (x * p.lmbda) - 1) / p.lmbda * p.lmbda = Real.exp (x * p.lmbda) := by
      field_simp; ring
    rw [this]; exact Real.exp_pos _

theorem manly_denorm_norm (p : Par ℝ) (x : ℝ) : denormRaw .manly p (normRaw .manly p x) = x := by
  rw [denormRaw_manly, normRaw_manly]
  by_cases hc : c0 p = true
  · simp [hc]
  · have hcf : c0 p = false := by simpa using hc
    have hl := lmbda_ne_zero hcf
    simp only [hcf, Bool.false_eq_true, if_false]
    have : 1 + (Real.exp (x * p.lmbda) - 1) / p.lmbda * p.lmbda = Real.exp (x * p.lmbda) := by
      field_simp; ring
    rw [this, Real.log_exp]; field_simp

theorem manly_norm_denorm (p : Par ℝ) (y : ℝ) (hy : D (c0 p) p.lmbda y) :
    normRaw .manly p (denormRaw .manly p y) = y := by
  rw [denormRaw_manly, normRaw_manly]
  by_cases hc : c0 p = true
  · simp [hc]
  · have hcf : c0 p = false := by simpa using hc
    have hl := lmbda_ne_zero hcf
    rcases hy with h | h
    · exact absurd h hc
    · simp only [hcf, Bool.false_eq_true, if_false]
      rw [div_mul_cancel₀ _ hl, Real.exp_log h]; field_simp; ring

theorem manly_strictMono (p : Par ℝ) : StrictMono (normRaw .manly p) := by
  intro x x' hxx
  rw [normRaw_manly, normRaw_manly]
  by_cases hc : c0 p = true
  · simpa [hc] using hxx
  · have hcf : c0 p = false := by simpa using hc
    have hl := lmbda_ne_zero hcf
    simp only [hcf, Bool.false_eq_true, if_false]
    rcases lt_or_gt_of_ne hl with hneg | hpos
    · have : Real.exp (x' * p.lmbda) < Real.exp (x * p.lmbda) :=
        Real.exp_lt_exp.mpr (mul_lt_mul_of_neg_right hxx hneg)
      exact div_lt_div_of_neg_of_lt hneg (by linarith)
    · have : Real.exp (x * p.lmbda) < Real.exp (x' * p.lmbda) :=
        Real.exp_lt_exp.mpr (mul_lt_mul_of_pos_right hxx hpos)
      exact div_lt_div_of_pos_right (by linarith) hpos

theorem manly_hasDerivAt (p : Par ℝ) (x : ℝ) (e : c0 p = true → p.lmbda = 0) :
    HasDerivAt (normRaw .manly p) (derivRaw .manly p x) x := by
  have hf : normRaw .manly p = fun x => if c0 p then x else (Real.exp (x * p.lmbda) - 1) / p.lmbda := by
    funext z; exact normRaw_manly p z
  have hd : derivRaw .manly p x = Real.exp (x * p.lmbda) := by simp [derivRaw]
  rw [hf, hd]
  by_cases hc : c0 p = true
  · simp only [hc, if_true, e hc, mul_zero, Real.exp_zero]; exact hasDerivAt_id x
  · have hcf : c0 p = false := by simpa using hc
    have hl := lmbda_ne_zero hcf
    simp only [hcf, Bool.false_eq_true, if_false]
    have h1 : HasDerivAt (fun x : ℝ => x * p.lmbda) p.lmbda x := by
      simpa using (hasDerivAt_id x).mul_const p.lmbda
    have h2 := ((h1.exp).sub_const 1).div_const p.lmbda
    have : Real.exp (x * p.lmbda) * p.lmbda / p.lmbda = Real.exp (x * p.lmbda) := by field_simp
    rw [this] at h2; exact h2

/-- inside the band (`|lmbda| ≤ 1e-8`, `lmbda ≠ 0` allowed) Manly normalises with the identity but reports
    `exp(lmbda x)`: the true derivative is `1` -/
theorem manly_hasDerivAt_band (p : Par ℝ) (x : ℝ) (hc : c0 p = true) :
    HasDerivAt (normRaw .manly p) 1 x := by
  have hf : normRaw .manly p = fun x => x := by funext z; rw [normRaw_manly]; simp [hc]
  rw [hf]; exact hasDerivAt_id x

/-! ### sums, mean, variance, Gaussian log-likelihood -/

theorem foldl_add (l : List ℝ) (a : ℝ) : l.foldl (· + ·) a = a + l.sum := by
  induction l generalizing a with
  | nil => simp
  | cons x t ih => simp [List.foldl_cons, ih, add_assoc]

theorem sum_eq (l : List ℝ) : Model.Norm.sum l = l.sum := by
  simp [Model.Norm.sum, foldl_add]

theorem mean_eq (l : List ℝ) : Model.Norm.mean l = l.sum / l.length := by
  simp [Model.Norm.mean, sum_eq]

theorem var_eq (l : List ℝ) :
    Model.Norm.var l = (l.map fun y => (y - l.sum / l.length) ^ 2).sum / l.length := by
  simp only [Model.Norm.var, sum_eq, mean_eq]
  congr 2; apply List.map_congr_left; intro y _; ring

theorem fmax_of_le {a b : ℝ} (h : a ≤ b) : fmax a b = b := by
  unfold fmax; split
  · rfl
  · exact le_antisymm h (not_lt.mp ‹_›)

/-- `Σ (c - (f x - μ)²/(2v) + h x) = n c - Σ (f x - μ)² / (2v) + Σ h x` -/
theorem sum_gauss {ι : Type} (d : List ι) (f h : ι → ℝ) (c μ v : ℝ) :
    (d.map fun x => (c - (f x - μ) ^ 2 / (2 * v)) + h x).sum =
      d.length * c - (d.map fun x => (f x - μ) ^ 2).sum / (2 * v) + (d.map h).sum := by
  induction d with
  | nil => simp
  | cons x t ih => simp only [List.map_cons, List.sum_cons, List.length_cons, ih]; push_cast; ring

/-- `Σ (y - μ)² = Σ y² - 2 μ Σ y + n μ²` -/
theorem sum_sq_dev {ι : Type} (d : List ι) (f : ι → ℝ) (μ : ℝ) :
    (d.map fun x => (f x - μ) ^ 2).sum =
      (d.map fun x => f x ^ 2).sum - 2 * μ * (d.map f).sum + d.length * μ ^ 2 := by
  induction d with
  | nil => simp
  | cons x t ih => simp only [List.map_cons, List.sum_cons, List.length_cons, ih]; push_cast; ring

/-- the sample mean minimises the sum of squared deviations -/
theorem sum_sq_dev_mean {ι : Type} (d : List ι) (f : ι → ℝ) (μ : ℝ) (hn : d ≠ []) :
    (d.map fun x => (f x - μ) ^ 2).sum =
      (d.map fun x => (f x - (d.map f).sum / d.length) ^ 2).sum + d.length * ((d.map f).sum / d.length - μ) ^ 2 := by
  have hl : (d.length : ℝ) ≠ 0 := by
    simp only [ne_eq, Nat.cast_eq_zero, List.length_eq_zero_iff]; exact hn
  rw [sum_sq_dev d f μ, sum_sq_dev d f ((d.map f).sum / d.length)]
  field_simp; ring

/-! ### bookkeeping of `Normalizer.fit` (law-free: any carrier, also `Float`) -/

section Fit
open GSV.Model.Norm
variable {α : Type}

theorem setAttr_same (s : Attrs α) (n : String) (v : α) : setAttr s n v n = v := by simp [setAttr]

theorem setAttr_other (s : Attrs α) {n m : String} (v : α) (h : m ≠ n) : setAttr s n v m = s m := by
  simp [setAttr, h]

theorem writeBack_nil (s : Attrs α) (x : List α) : writeBack s [] x = s := by simp [writeBack]

theorem writeBack_nil_right (s : Attrs α) (names : List String) : writeBack s names [] = s := by
  simp [writeBack]

theorem writeBack_cons (s : Attrs α) (n : String) (ns : List String) (v : α) (vs : List α) :
    writeBack s (n :: ns) (v :: vs) = writeBack (setAttr s n v) ns vs := by
  simp [writeBack]

/-- names that are not written keep their value -/
theorem writeBack_of_not_mem (s : Attrs α) (names : List String) (x : List α) {m : String} (h : m ∉ names) :
    writeBack s names x m = s m := by
  induction names generalizing s x with
  | nil => rw [writeBack_nil]
  | cons n ns ih =>
    cases x with
    | nil => rw [writeBack_nil_right]
    | cons v vs =>
      rw [writeBack_cons, ih _ _ (fun hm => h (List.mem_cons_of_mem _ hm))]
      exact setAttr_other s v (fun e => h (e ▸ List.mem_cons_self))

/-- with pairwise distinct names and a vector of the same length the `i`-th name receives the `i`-th value -/
theorem writeBack_get (s : Attrs α) (names : List String) (x : List α) (hnd : names.Nodup)
    (hlen : x.length = names.length) (i : Nat) (hi : i < names.length) :
    writeBack s names x names[i] = x[i]'(hlen ▸ hi) := by
  induction names generalizing s x i with
  | nil => exact absurd hi (Nat.not_lt_zero _)
  | cons n ns ih =>
    cases x with
    | nil => simp at hlen
    | cons v vs =>
      rw [writeBack_cons]
      have hnd' := List.nodup_cons.mp hnd
      cases i with
      | zero =>
        simp only [List.getElem_cons_zero]
        rw [writeBack_of_not_mem _ _ _ hnd'.1, setAttr_same]
      | succ j =>
        simp only [List.getElem_cons_succ]
        exact ih _ _ hnd'.2 (by simpa using hlen) j (by simpa using hi)

/-- writing the values of `b` at the names makes the object agree with `b` there (duplicates allowed) -/
theorem writeBack_map (s b : Attrs α) (names : List String) {m : String} (h : m ∈ names) :
    writeBack s names (names.map b) m = b m := by
  induction names generalizing s with
  | nil => exact absurd h List.not_mem_nil
  | cons n ns ih =>
    rw [List.map_cons, writeBack_cons]
    by_cases hm : m ∈ ns
    · exact ih _ hm
    · have e : m = n := by
        rcases List.mem_cons.mp h with e | e
        · exact e
        · exact absurd e hm
      rw [writeBack_of_not_mem _ _ _ hm, e, setAttr_same]

/-- a full-length vector overwrites every name: the result does not depend on the previous values at the names -/
theorem writeBack_congr (a b : Attrs α) (names : List String) (x : List α) (hlen : names.length ≤ x.length)
    (h : ∀ m, m ∉ names → a m = b m) : writeBack a names x = writeBack b names x := by
  induction names generalizing a b x with
  | nil => rw [writeBack_nil, writeBack_nil]; funext m; exact h m List.not_mem_nil
  | cons n ns ih =>
    cases x with
    | nil => simp at hlen
    | cons v vs =>
      rw [writeBack_cons, writeBack_cons]
      refine ih _ _ _ (by simpa using hlen) (fun m hm => ?_)
      by_cases e : m = n
      · rw [e, setAttr_same, setAttr_same]
      · rw [setAttr_other _ _ e, setAttr_other _ _ e]
        exact h m (fun hc => (List.mem_cons.mp hc).elim e hm)

theorem afterTrials_of_not_mem (s : Attrs α) (free : List String) (trials : List (List α)) {m : String}
    (h : m ∉ free) : afterTrials s free trials m = s m := by
  induction trials generalizing s with
  | nil => rfl
  | cons t ts ih =>
    show afterTrials (writeBack s free t) free ts m = s m
    rw [ih, writeBack_of_not_mem _ _ _ h]

theorem seenStates_of_not_mem (s : Attrs α) (free : List String) (trials : List (List α)) {m : String}
    (h : m ∉ free) : ∀ a ∈ seenStates s free trials, a m = s m := by
  induction trials generalizing s with
  | nil => intro a ha; exact absurd ha List.not_mem_nil
  | cons t ts ih =>
    intro a ha
    rcases List.mem_cons.mp ha with e | e
    · rw [e, writeBack_of_not_mem _ _ _ h]
    · rw [ih _ a e, writeBack_of_not_mem _ _ _ h]

theorem mem_paraNames {all skip : List String} {n : String} : n ∈ paraNames all skip ↔ n ∈ all ∧ n ∉ skip := by
  simp [paraNames, List.mem_filter]

theorem insertName_perm (n : String) (l : List String) : (insertName n l).Perm (n :: l) := by
  induction l with
  | nil => exact List.Perm.refl _
  | cons m ms ih =>
    unfold insertName
    split
    · exact ((List.Perm.cons m ih).trans (List.Perm.swap n m ms))
    · exact List.Perm.refl _

/-- the sorted name list is a rearrangement of the dictionary keys -/
theorem sortNames_perm (l : List String) : (sortNames l).Perm l := by
  induction l with
  | nil => exact List.Perm.refl _
  | cons n ns ih =>
    show (insertName n (sortNames ns)).Perm (n :: ns)
    exact (insertName_perm n _).trans (List.Perm.cons n ih)

theorem mem_sortNames {l : List String} {n : String} : n ∈ sortNames l ↔ n ∈ l := (sortNames_perm l).mem_iff

theorem paraNames_nodup {defaults skip : List String} (h : defaults.Nodup) :
    (paraNames (sortNames defaults) skip).Nodup :=
  List.Nodup.filter _ ((sortNames_perm defaults).nodup_iff.mpr h)

theorem fit_of_nil [Arith α] (defaults skip : List String) (s : Attrs α) (ub : Option (α × α))
    (ux : Option (List α)) (run : OptRun α) (h : paraNames (sortNames defaults) skip = []) :
    fit defaults s skip ub ux run
      = { attrs := s, ret := [], warned := true, route := 0, bracket := none, x0 := none, seen := [] } := by
  simp only [fit, h, List.isEmpty_nil, if_true]

theorem fit_of_ne_nil [Arith α] (defaults skip : List String) (s : Attrs α) (ub : Option (α × α))
    (ux : Option (List α)) (run : OptRun α) (h : paraNames (sortNames defaults) skip ≠ []) :
    fit defaults s skip ub ux run
      = { attrs := writeBack (afterTrials s (paraNames (sortNames defaults) skip) run.trials)
                     (paraNames (sortNames defaults) skip) run.x
          ret := (sortNames defaults).map fun n =>
            (n, writeBack (afterTrials s (paraNames (sortNames defaults) skip) run.trials)
                     (paraNames (sortNames defaults) skip) run.x n)
          warned := false
          route := if (paraNames (sortNames defaults) skip).length = 1 then 1 else 2
          bracket := if (paraNames (sortNames defaults) skip).length = 1
            then some (ub.getD (-((2:Nat):α), ((2:Nat):α))) else none
          x0 := if (paraNames (sortNames defaults) skip).length = 1 then none
            else some (ux.getD ((paraNames (sortNames defaults) skip).map s))
          seen := seenStates s (paraNames (sortNames defaults) skip) run.trials } := by
  have he : (paraNames (sortNames defaults) skip).isEmpty = false := by
    cases hh : paraNames (sortNames defaults) skip with
    | nil => exact absurd hh h
    | cons a l => rfl
  simp only [fit, he, Bool.false_eq_true, if_false]

end Fit

end GSV.Lemmas.Norm
