/-
  Helper lemmas for C04 (spectral representation): the real-number `Special` instance (`erf` *defined* as
  `2/√π ∫₀ˣ e^{-t²}`, `Γ` = `Real.Gamma`), its calculus (derivative by the fundamental theorem, limit at
  infinity from the Gaussian integral), `arg (1 + i x) = arctan x`, `gammaHalf n = Γ(n/2)`, and a
  generic "cdf with non-negative derivative ⇒ its derivative integrates to `limit − cdf 0`" wrapper.
-/
import GSV.RealInst
import GSV.Model.Spectral
import Mathlib.Analysis.SpecialFunctions.Gaussian.GaussianIntegral
import Mathlib.Analysis.SpecialFunctions.Gamma.Basic
import Mathlib.Analysis.SpecialFunctions.Trigonometric.ArctanDeriv
import Mathlib.MeasureTheory.Integral.IntegralEqImproper
import Mathlib.Tactic.Ring
import Mathlib.Tactic.Linarith
import Mathlib.Tactic.FieldSimp

namespace GSV.Lemmas.Spectral
open Real MeasureTheory Filter Topology Set GSV GSV.Model.Spectral

/-- the error function, defined by its integral -/
noncomputable def erfR (x : ℝ) : ℝ := 2 / √π * ∫ t in (0:ℝ)..x, Real.exp (-(t ^ 2))

theorem continuous_gauss : Continuous fun t : ℝ => Real.exp (-(t ^ 2)) := by fun_prop

theorem erfR_zero : erfR 0 = 0 := by simp [erfR]

/-- `erf' x = 2/√π · e^{-x²}` (fundamental theorem of calculus) -/
theorem hasDerivAt_erfR (x : ℝ) : HasDerivAt erfR (2 / √π * Real.exp (-(x ^ 2))) x := by
  have h := intervalIntegral.integral_hasDerivAt_right (continuous_gauss.intervalIntegrable 0 x)
    (continuous_gauss.stronglyMeasurableAtFilter _ _) continuous_gauss.continuousAt
  exact h.const_mul _

theorem continuous_erfR : Continuous erfR :=
  continuous_iff_continuousAt.mpr fun x => (hasDerivAt_erfR x).continuousAt

theorem integral_gauss_Ioi : ∫ t in Ioi (0:ℝ), Real.exp (-(t ^ 2)) = √π / 2 := by
  have := integral_gaussian_Ioi 1
  simpa using this

theorem integrableOn_gauss_Ioi : IntegrableOn (fun t : ℝ => Real.exp (-(t ^ 2))) (Ioi 0) := by
  have := (integrable_exp_neg_mul_sq (b := 1) one_pos).integrableOn (s := Ioi (0:ℝ))
  simpa using this

/-- `erf x → 1` as `x → ∞` (Gaussian integral) -/
theorem tendsto_erfR_atTop : Tendsto erfR atTop (𝓝 1) := by
  have h := intervalIntegral_tendsto_integral_Ioi (0:ℝ) integrableOn_gauss_Ioi tendsto_id
  rw [integral_gauss_Ioi] at h
  have h2 := h.const_mul (2 / √π)
  have hpi : √π ≠ 0 := (Real.sqrt_pos.mpr Real.pi_pos).ne'
  have e : 2 / √π * (√π / 2) = 1 := by field_simp
  rw [e] at h2
  exact h2

theorem erfR_strictMono : StrictMono erfR := by
  apply strictMono_of_deriv_pos
  intro x
  rw [(hasDerivAt_erfR x).deriv]
  have hpi : 0 < √π := Real.sqrt_pos.mpr Real.pi_pos
  positivity

/-- the real `Special` instance: `erf` by its integral, `erfinv` its (abstract) inverse, Mathlib's `Γ` -/
noncomputable def specialR : Special ℝ :=
  ⟨erfR, Function.invFun erfR, Real.Gamma, fun x => Real.log (Real.Gamma x)⟩

@[simp] theorem specialR_erf : specialR.erf = erfR := rfl
@[simp] theorem specialR_erfinv : specialR.erfinv = Function.invFun erfR := rfl
@[simp] theorem specialR_gamma : specialR.gamma = Real.Gamma := rfl
@[simp] theorem specialR_lgamma (x : ℝ) : specialR.lgamma x = Real.log (Real.Gamma x) := rfl

/-- `atan2 x 1 = arctan x` on `ℝ` -/
theorem atan_real (x : ℝ) : (atan x : ℝ) = Real.arctan x := by
  unfold atan
  simp only [atan2_real, Nat.cast_one]
  rw [Complex.arg_of_re_nonneg (by simp), Real.arctan_eq_arcsin]
  congr 1
  have : ‖(⟨1, x⟩ : ℂ)‖ = √(1 + x ^ 2) := by
    rw [Complex.norm_def, Complex.normSq_mk]; congr 1; ring
  rw [this]

/-- `gammaHalf n = Γ(n/2)` -/
theorem gammaHalf_eq : ∀ n : ℕ, 1 ≤ n → (gammaHalf n : ℝ) = Real.Gamma ((n:ℝ) / 2)
  | 0, h => absurd h (by norm_num)
  | 1, _ => by
    have : ((1:ℕ):ℝ) / 2 = 1 / 2 := by norm_num
    rw [this, Real.Gamma_one_half_eq]; simp [gammaHalf]
  | 2, _ => by simp [gammaHalf]
  | n + 3, _ => by
    have ih := gammaHalf_eq (n + 1) (by omega)
    have hpos : ((n + 1 : ℕ) : ℝ) / 2 ≠ 0 := by positivity
    have e : ((n + 3 : ℕ) : ℝ) / 2 = ((n + 1 : ℕ) : ℝ) / 2 + 1 := by push_cast; ring
    show ((n + 1 : ℕ) : ℝ) / ((2:ℕ):ℝ) * gammaHalf (n + 1) = _
    rw [e, Real.Gamma_add_one hpos, ih]
    push_cast; ring

/-- A function that starts at `0`, has a non-negative derivative `p` on `(0, ∞)` and tends to `1` has
    `∫₀^∞ p = 1`. -/
theorem integral_pdf_eq_one {F p : ℝ → ℝ} (h0 : F 0 = 0) (hd : ∀ x, HasDerivAt F (p x) x)
    (hp : ∀ x ∈ Ioi (0:ℝ), 0 ≤ p x) (hlim : Tendsto F atTop (𝓝 1)) :
    IntegrableOn p (Ioi 0) ∧ ∫ x in Ioi (0:ℝ), p x = 1 := by
  refine ⟨integrableOn_Ioi_deriv_of_nonneg' (fun x _ => hd x) hp hlim, ?_⟩
  rw [integral_Ioi_of_hasDerivAt_of_nonneg' (fun x _ => hd x) hp hlim, h0, sub_zero]

end GSV.Lemmas.Spectral
