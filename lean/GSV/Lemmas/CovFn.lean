/-
  Helper lemmas for C03 (model functions): the ℝ-reading of the closed forms of `GSV.Model.CovFn`
  (`fmin/fmax`, values at 0, the expressions inside / outside the support) and the integrals behind
  the integral-scale theorems (unit-interval antiderivatives, Gaussian / exponential / stable
  half-line integrals from Mathlib, scaling of the lag).
-/
import GSV.RealInst
import GSV.Model.CovFn
import GSV.Lemmas.Ctl
import GSV.Lemmas.Sum
import Mathlib.Tactic.Ring
import Mathlib.Tactic.FieldSimp
import Mathlib.Tactic.Linarith
import Mathlib.Tactic.NormNum
import Mathlib.Analysis.SpecialFunctions.Trigonometric.Basic
import Mathlib.Analysis.SpecialFunctions.Gaussian.GaussianIntegral
import Mathlib.Analysis.SpecialFunctions.Integrals.Basic
import Mathlib.MeasureTheory.Integral.Gamma
import Mathlib.MeasureTheory.Integral.IntegralEqImproper
import Mathlib.Analysis.SpecialFunctions.Trigonometric.InverseDeriv
import Mathlib.Analysis.SpecialFunctions.ImproperIntegrals
import Mathlib.Analysis.SpecialFunctions.OrdinaryHypergeometric
import Mathlib.RingTheory.Polynomial.Pochhammer
import Mathlib.Algebra.Order.Round
namespace GSV.Lemmas.CovFn
open GSV GSV.Transc GSV.Model.CovFn MeasureTheory Set Filter Topology Polynomial


theorem fmin_real (a b : ℝ) : fmin a b = min a b := by
  unfold fmin; split_ifs with h
  · exact (min_eq_left h.le).symm
  · exact (min_eq_right (not_lt.mp h)).symm

theorem fmax_real (a b : ℝ) : fmax a b = max a b := by
  unfold fmax; split_ifs with h
  · exact (max_eq_right h.le).symm
  · exact (max_eq_left (not_lt.mp h)).symm

theorem integral_Ioi_eq_unit (f : ℝ → ℝ) (hf : ∀ x, 1 < x → f x = 0) :
    ∫ x in Ioi (0:ℝ), f x = ∫ x in (0:ℝ)..1, f x := by
  rw [intervalIntegral.integral_of_le zero_le_one]
  refine setIntegral_eq_of_subset_of_forall_sdiff_eq_zero measurableSet_Ioi
    (fun x hx => hx.1) (fun x hx => hf x ?_)
  by_contra h
  exact hx.2 ⟨hx.1, not_lt.mp h⟩

/-! support and the expression inside it -/

theorem sphericalPoly_one : sphericalPoly (1:ℝ) = 0 := by simp [sphericalPoly]; norm_num
theorem cubicPoly_one : cubicPoly (1:ℝ) = 0 := by simp [cubicPoly]; norm_num

theorem sphericalCor_inside (h : ℝ) (hh : |h| ≤ 1) : sphericalCor h = 1 - 1.5 * |h| + 0.5 * |h| ^ 3 := by
  simp [sphericalCor, sphericalPoly, fmin_real, min_eq_left hh]
theorem sphericalCor_outside (h : ℝ) (hh : 1 ≤ |h|) : sphericalCor h = 0 := by
  have : sphericalCor h = sphericalPoly 1 := by simp [sphericalCor, fmin_real, min_eq_right hh]
  rw [this, sphericalPoly_one]
theorem cubicCor_inside (h : ℝ) (hh : |h| ≤ 1) :
    cubicCor h = 1 - 7 * |h| ^ 2 + 8.75 * |h| ^ 3 - 3.5 * |h| ^ 5 + 0.75 * |h| ^ 7 := by
  simp [cubicCor, cubicPoly, fmin_real, min_eq_left hh]
theorem cubicCor_outside (h : ℝ) (hh : 1 ≤ |h|) : cubicCor h = 0 := by
  have : cubicCor h = cubicPoly 1 := by simp [cubicCor, fmin_real, min_eq_right hh]
  rw [this, cubicPoly_one]
theorem linearCor_inside (h : ℝ) (hh : |h| ≤ 1) : linearCor h = 1 - |h| := by
  simp [linearCor, fmax_real, hh]
theorem linearCor_outside (h : ℝ) (hh : 1 ≤ |h|) : linearCor h = 0 := by
  simp [linearCor, fmax_real, hh]
theorem tplSimpleCor_inside (nu h : ℝ) (hh : |h| ≤ 1) : tplSimpleCor nu h = (1 - |h|) ^ nu := by
  simp [tplSimpleCor, fmax_real, hh]
theorem tplSimpleCor_outside (nu h : ℝ) (hnu : nu ≠ 0) (hh : 1 ≤ |h|) : tplSimpleCor nu h = 0 := by
  simp [tplSimpleCor, fmax_real, hh, Real.zero_rpow hnu]

/-! integrals on the unit interval -/

theorem integral_spherical_unit : ∫ x in (0:ℝ)..1, sphericalCor x = 3 / 8 := by
  have h1 : ∫ x in (0:ℝ)..1, sphericalCor x = ∫ x in (0:ℝ)..1, (1 - 1.5 * x + 0.5 * x ^ 3) := by
    refine intervalIntegral.integral_congr (fun x hx => ?_)
    rw [uIcc_of_le zero_le_one] at hx
    have : |x| = x := abs_of_nonneg hx.1
    simp only [sphericalCor_inside x (by rw [this]; exact hx.2), this]
  rw [h1]
  have hd : ∀ x ∈ uIcc (0:ℝ) 1, HasDerivAt (fun x : ℝ => x - 0.75 * x ^ 2 + 0.125 * x ^ 4)
      (1 - 1.5 * x + 0.5 * x ^ 3) x := by
    intro x _
    have h := (((hasDerivAt_id' x).fun_sub ((hasDerivAt_pow 2 x).const_mul (0.75:ℝ))).fun_add
      ((hasDerivAt_pow 4 x).const_mul (0.125:ℝ)))
    exact h.congr_deriv (by norm_num; ring)
  rw [intervalIntegral.integral_eq_sub_of_hasDerivAt hd (Continuous.intervalIntegrable (by continuity) _ _)]
  norm_num

theorem integral_cubic_unit : ∫ x in (0:ℝ)..1, cubicCor x = 35 / 96 := by
  have h1 : ∫ x in (0:ℝ)..1, cubicCor x
      = ∫ x in (0:ℝ)..1, (1 - 7 * x ^ 2 + 8.75 * x ^ 3 - 3.5 * x ^ 5 + 0.75 * x ^ 7) := by
    refine intervalIntegral.integral_congr (fun x hx => ?_)
    rw [uIcc_of_le zero_le_one] at hx
    have : |x| = x := abs_of_nonneg hx.1
    simp only [cubicCor_inside x (by rw [this]; exact hx.2), this]
  rw [h1]
  have hd : ∀ x ∈ uIcc (0:ℝ) 1, HasDerivAt
      (fun x : ℝ => x - (7/3) * x ^ 3 + (35/16) * x ^ 4 - (7/12) * x ^ 6 + (3/32) * x ^ 8)
      (1 - 7 * x ^ 2 + 8.75 * x ^ 3 - 3.5 * x ^ 5 + 0.75 * x ^ 7) x := by
    intro x _
    have h := (((((hasDerivAt_id' x).fun_sub ((hasDerivAt_pow 3 x).const_mul (7/3:ℝ))).fun_add
      ((hasDerivAt_pow 4 x).const_mul (35/16:ℝ))).fun_sub ((hasDerivAt_pow 6 x).const_mul (7/12:ℝ))).fun_add
      ((hasDerivAt_pow 8 x).const_mul (3/32:ℝ)))
    exact h.congr_deriv (by norm_num; ring)
  rw [intervalIntegral.integral_eq_sub_of_hasDerivAt hd (Continuous.intervalIntegrable (by continuity) _ _)]
  norm_num

theorem integral_linear_unit : ∫ x in (0:ℝ)..1, linearCor x = 1 / 2 := by
  have h1 : ∫ x in (0:ℝ)..1, linearCor x = ∫ x in (0:ℝ)..1, (1 - x) := by
    refine intervalIntegral.integral_congr (fun x hx => ?_)
    rw [uIcc_of_le zero_le_one] at hx
    have : |x| = x := abs_of_nonneg hx.1
    simp only [linearCor_inside x (by rw [this]; exact hx.2), this]
  rw [h1]
  have hd : ∀ x ∈ uIcc (0:ℝ) 1, HasDerivAt (fun x : ℝ => x - (1/2) * x ^ 2) (1 - x) x := by
    intro x _
    have h := ((hasDerivAt_id' x).fun_sub ((hasDerivAt_pow 2 x).const_mul (1/2:ℝ)))
    exact h.congr_deriv (by norm_num; ring)
  rw [intervalIntegral.integral_eq_sub_of_hasDerivAt hd (Continuous.intervalIntegrable (by continuity) _ _)]
  norm_num

theorem integral_tplSimple_unit (nu : ℝ) (hnu : 0 < nu) :
    ∫ x in (0:ℝ)..1, tplSimpleCor nu x = 1 / (nu + 1) := by
  have h1 : ∫ x in (0:ℝ)..1, tplSimpleCor nu x = ∫ x in (0:ℝ)..1, (1 - x) ^ nu := by
    refine intervalIntegral.integral_congr (fun x hx => ?_)
    rw [uIcc_of_le zero_le_one] at hx
    have : |x| = x := abs_of_nonneg hx.1
    simp only [tplSimpleCor_inside nu x (by rw [this]; exact hx.2), this]
  rw [h1, intervalIntegral.integral_comp_sub_left (fun x : ℝ => x ^ nu) 1,
    integral_rpow (Or.inl (by linarith))]
  have : nu + 1 ≠ 0 := by linarith
  simp [Real.zero_rpow this]

/-! values at lag zero -/

theorem gaussianCor_zero : gaussianCor (0:ℝ) = 1 := by simp [gaussianCor]
theorem exponentialCor_zero : exponentialCor (0:ℝ) = 1 := by simp [exponentialCor]
theorem stableCor_zero (a : ℝ) (ha : a ≠ 0) : stableCor a (0:ℝ) = 1 := by
  simp [stableCor, Real.zero_rpow ha]
theorem rationalCor_zero (a : ℝ) : rationalCor a (0:ℝ) = 1 := by simp [rationalCor]
theorem cubicCor_zero : cubicCor (0:ℝ) = 1 := by
  simp [cubicCor, cubicPoly, fmin_real]
theorem linearCor_zero : linearCor (0:ℝ) = 1 := by simp [linearCor, fmax_real]
theorem circularInner_zero : circularInner (0:ℝ) = 1 := by
  simp [circularInner, Real.arccos_zero]
theorem circularCor_zero : circularCor (0:ℝ) = 1 := by
  have : circularCor (0:ℝ) = circularInner 0 := by simp [circularCor]
  rw [this, circularInner_zero]
theorem sphericalCor_zero : sphericalCor (0:ℝ) = 1 := by
  simp [sphericalCor, sphericalPoly, fmin_real]
theorem tplSimpleCor_zero (nu : ℝ) : tplSimpleCor nu (0:ℝ) = 1 := by
  simp [tplSimpleCor, fmax_real]
theorem superSphericalNatCor_zero (n : ℕ) : superSphericalNatCor n (0:ℝ) = 1 := by
  simp [superSphericalNatCor]
theorem superSphericalHalfCor_zero : superSphericalHalfCor (0:ℝ) = 1 := by
  have : superSphericalHalfCor (0:ℝ) = circularInner 0 := by simp [superSphericalHalfCor]
  rw [this, circularInner_zero]
theorem matern_zero : matern12Cor (0:ℝ) = 1 ∧ matern32Cor (0:ℝ) = 1 ∧ matern52Cor (0:ℝ) = 1 ∧
    maternLimitCor (0:ℝ) = 1 := by
  simp [matern12Cor, matern32Cor, matern52Cor, maternLimitCor]
theorem jbessel_zero : jbessel12Cor (0:ℝ) = 1 ∧ jbessel32Cor (0:ℝ) = 1 := by
  have : isclose0 (0:ℝ) = true := by simp [isclose0]; norm_num
  simp [jbessel12Cor, jbessel32Cor, this]

theorem hyp_zero (x : ℝ) : hyp2f1HalfNegNat 0 x = 1 := by
  simp [hyp2f1HalfNegNat, forRange, foldIdx, idxRange, choose]
theorem hyp_one (x : ℝ) : hyp2f1HalfNegNat 1 x = 1 - x / 3 := by
  simp [hyp2f1HalfNegNat, forRange, foldIdx, idxRange, choose, List.range']
  ring

/-! half-line integrals -/

/-- scaling of the lag: `∫₀^∞ c(|r| / L) dr = L ∫₀^∞ c` -/
theorem integral_scale_lag (c : ℝ → ℝ) (L : ℝ) (hL : 0 < L) :
    ∫ r in Ioi (0:ℝ), c (|r| / L) = L * ∫ h in Ioi (0:ℝ), c h := by
  have h1 : ∫ r in Ioi (0:ℝ), c (|r| / L) = ∫ r in Ioi (0:ℝ), c (L⁻¹ * r) := by
    refine setIntegral_congr_fun measurableSet_Ioi (fun r hr => ?_)
    simp only [abs_of_pos (show (0:ℝ) < r from hr)]
    rw [div_eq_inv_mul]
  rw [h1, integral_comp_mul_left_Ioi c 0 (inv_pos.mpr hL)]
  simp

theorem integral_gaussianCor : ∫ h in Ioi (0:ℝ), gaussianCor h = Real.sqrt Real.pi / 2 := by
  have := integral_gaussian_Ioi 1
  simpa [gaussianCor] using this

theorem integral_exponentialCor : ∫ h in Ioi (0:ℝ), exponentialCor h = 1 := by
  simpa [exponentialCor] using integral_exp_neg_Ioi_zero

theorem integral_stableCor (a : ℝ) (ha : 0 < a) :
    ∫ h in Ioi (0:ℝ), stableCor a h = Real.Gamma (1 + 1 / a) := by
  have := _root_.integral_exp_neg_rpow ha
  rw [add_comm]
  simpa [stableCor] using this

/-! Circular: antiderivative on the unit interval -/

theorem circularInner_real (h : ℝ) :
    circularInner h = 2 / Real.pi * (Real.arccos h - h * Real.sqrt (1 - h ^ 2)) := by
  simp [circularInner]

/-- antiderivative of `arccos x - x √(1-x²)` on `(-1, 1)` -/
theorem hasDerivAt_circular_prim (x : ℝ) (h0 : -1 < x) (h1 : x < 1) :
    HasDerivAt (fun x : ℝ => x * Real.arccos x - Real.sqrt (1 - x ^ 2) + (1 - x ^ 2) * Real.sqrt (1 - x ^ 2) / 3)
      (Real.arccos x - x * Real.sqrt (1 - x ^ 2)) x := by
  have hpos : 0 < 1 - x ^ 2 := by nlinarith
  have hs0 : 0 < Real.sqrt (1 - x ^ 2) := Real.sqrt_pos.mpr hpos
  have hq : HasDerivAt (fun x : ℝ => 1 - x ^ 2) (-(2 * x)) x := by
    simpa using ((hasDerivAt_pow 2 x).const_sub 1)
  have hs : HasDerivAt (fun x : ℝ => Real.sqrt (1 - x ^ 2)) (-(2 * x) / (2 * Real.sqrt (1 - x ^ 2))) x :=
    hq.sqrt hpos.ne'
  have ha := Real.hasDerivAt_arccos (ne_of_gt h0) (ne_of_lt h1)
  have h := (((hasDerivAt_id' x).fun_mul ha).fun_sub hs).fun_add ((hq.fun_mul hs).div_const 3)
  refine h.congr_deriv ?_
  have hsq : Real.sqrt (1 - x ^ 2) * Real.sqrt (1 - x ^ 2) = 1 - x ^ 2 := Real.mul_self_sqrt hpos.le
  field_simp
  nlinarith [hsq]

theorem circularInner_one : circularInner (1:ℝ) = 0 := by simp [circularInner]

theorem circularCor_clamp (h : ℝ) : circularCor h = circularInner (min |h| 1) := by
  by_cases hh : |h| < 1
  · simp [circularCor, hh, min_eq_left hh.le]
  · simp [circularCor, hh, min_eq_right (not_lt.mp hh), circularInner_one]

theorem integral_circular_unit : ∫ x in (0:ℝ)..1, circularCor x = 4 / (3 * Real.pi) := by
  have h1 : ∫ x in (0:ℝ)..1, circularCor x
      = ∫ x in (0:ℝ)..1, 2 / Real.pi * (Real.arccos x - x * Real.sqrt (1 - x ^ 2)) := by
    refine intervalIntegral.integral_congr (fun x hx => ?_)
    rw [uIcc_of_le zero_le_one] at hx
    simp only [circularCor_clamp, abs_of_nonneg hx.1, min_eq_left hx.2, circularInner_real]
  have hc := Real.continuous_arccos
  have hF : Continuous (fun x : ℝ => x * Real.arccos x - Real.sqrt (1 - x ^ 2)
      + (1 - x ^ 2) * Real.sqrt (1 - x ^ 2) / 3) := by fun_prop
  have hf : Continuous (fun x : ℝ => Real.arccos x - x * Real.sqrt (1 - x ^ 2)) := by fun_prop
  have key := intervalIntegral.integral_eq_sub_of_hasDerivAt_of_le zero_le_one hF.continuousOn
    (fun x hx => hasDerivAt_circular_prim x (by linarith [hx.1]) hx.2) (hf.intervalIntegrable _ _)
  rw [h1, intervalIntegral.integral_const_mul, key]
  simp [Real.arccos_zero]
  field_simp
  ring

/-! Matern slices, Rational α = 1 -/

/-- `∫₀^∞ g(a |h|) dh = a⁻¹ ∫₀^∞ g` -/
theorem integral_comp_mul_abs (g : ℝ → ℝ) (a : ℝ) (ha : 0 < a) :
    ∫ h in Ioi (0:ℝ), g (a * |h|) = a⁻¹ * ∫ x in Ioi (0:ℝ), g x := by
  have h1 : ∫ h in Ioi (0:ℝ), g (a * |h|) = ∫ h in Ioi (0:ℝ), g (a * h) := by
    refine setIntegral_congr_fun measurableSet_Ioi (fun r hr => ?_)
    simp only [abs_of_pos (show (0:ℝ) < r from hr)]
  rw [h1, integral_comp_mul_left_Ioi g 0 ha]
  simp

theorem tendsto_poly_exp_neg (c0 c1 c2 : ℝ) :
    Tendsto (fun x : ℝ => -((c0 + c1 * x + c2 * x ^ 2) * Real.exp (-x))) atTop (𝓝 0) := by
  have h0 := Real.tendsto_pow_mul_exp_neg_atTop_nhds_zero 0
  have h1 := Real.tendsto_pow_mul_exp_neg_atTop_nhds_zero 1
  have h2 := Real.tendsto_pow_mul_exp_neg_atTop_nhds_zero 2
  have := (((h0.const_mul c0).add (h1.const_mul c1)).add (h2.const_mul c2)).neg
  simp only [mul_zero, add_zero, neg_zero] at this
  refine this.congr (fun x => ?_)
  ring

theorem integral_matern32_core : ∫ x in Ioi (0:ℝ), (1 + x) * Real.exp (-x) = 2 := by
  have hd : ∀ x ∈ Ici (0:ℝ), HasDerivAt (fun x : ℝ => -((2 + 1 * x + 0 * x ^ 2) * Real.exp (-x)))
      ((1 + x) * Real.exp (-x)) x := by
    intro x _
    have he : HasDerivAt (fun x : ℝ => Real.exp (-x)) (-Real.exp (-x)) x := by
      simpa using (hasDerivAt_neg x).exp
    have hp : HasDerivAt (fun x : ℝ => 2 + 1 * x + 0 * x ^ 2) 1 x := by
      have := (((hasDerivAt_id' x).const_mul (1:ℝ)).const_add 2).fun_add ((hasDerivAt_pow 2 x).const_mul (0:ℝ))
      exact this.congr_deriv (by ring)
    exact ((hp.fun_mul he).fun_neg).congr_deriv (by ring)
  rw [integral_Ioi_of_hasDerivAt_of_nonneg' hd (fun x hx => by have := Real.exp_pos (-x); have : (0:ℝ) < x := hx; positivity)
    (tendsto_poly_exp_neg 2 1 0)]
  simp

theorem integral_matern52_core : ∫ x in Ioi (0:ℝ), (1 + x + x ^ 2 / 3) * Real.exp (-x) = 8 / 3 := by
  have hd : ∀ x ∈ Ici (0:ℝ), HasDerivAt (fun x : ℝ => -((8 / 3 + 5 / 3 * x + 1 / 3 * x ^ 2) * Real.exp (-x)))
      ((1 + x + x ^ 2 / 3) * Real.exp (-x)) x := by
    intro x _
    have he : HasDerivAt (fun x : ℝ => Real.exp (-x)) (-Real.exp (-x)) x := by
      simpa using (hasDerivAt_neg x).exp
    have hp : HasDerivAt (fun x : ℝ => 8 / 3 + 5 / 3 * x + 1 / 3 * x ^ 2) (5 / 3 + 2 / 3 * x) x := by
      have := (((hasDerivAt_id' x).const_mul (5 / 3:ℝ)).const_add (8 / 3)).fun_add ((hasDerivAt_pow 2 x).const_mul (1 / 3:ℝ))
      exact this.congr_deriv (by norm_num; ring)
    exact ((hp.fun_mul he).fun_neg).congr_deriv (by ring)
  rw [integral_Ioi_of_hasDerivAt_of_nonneg' hd (fun x hx => by have := Real.exp_pos (-x); have : (0:ℝ) < x := hx; positivity)
    (tendsto_poly_exp_neg (8 / 3) (5 / 3) (1 / 3))]
  simp

theorem sqrt_lit_pos (c : ℝ) (hc : 0 < c) : 0 < Real.sqrt c := Real.sqrt_pos.mpr hc

theorem integral_matern12Cor : ∫ h in Ioi (0:ℝ), matern12Cor h = 1 / Real.sqrt 0.5 := by
  have := integral_comp_mul_abs (fun x => Real.exp (-x)) (Real.sqrt 0.5) (sqrt_lit_pos _ (by norm_num))
  rw [integral_exp_neg_Ioi_zero] at this
  simpa [matern12Cor] using this

theorem integral_matern32Cor : ∫ h in Ioi (0:ℝ), matern32Cor h = 2 / Real.sqrt 1.5 := by
  have := integral_comp_mul_abs (fun x => (1 + x) * Real.exp (-x)) (Real.sqrt 1.5) (sqrt_lit_pos _ (by norm_num))
  rw [integral_matern32_core] at this
  simp only [matern32Cor, sqrt_real, fabs_real, exp_real]
  push_cast
  rw [this]; ring

theorem integral_matern52Cor : ∫ h in Ioi (0:ℝ), matern52Cor h = 8 / 3 / Real.sqrt 2.5 := by
  have := integral_comp_mul_abs (fun x => (1 + x + x ^ 2 / 3) * Real.exp (-x)) (Real.sqrt 2.5) (sqrt_lit_pos _ (by norm_num))
  rw [integral_matern52_core] at this
  simp only [matern52Cor, sqrt_real, fabs_real, exp_real, npow_real]
  push_cast
  rw [this]; ring

/-- Rational with `alpha = 1`: `∫₀^∞ (1 + h²)⁻¹ = π / 2` -/
theorem integral_rationalCor_one : ∫ h in Ioi (0:ℝ), rationalCor 1 h = Real.pi / 2 := by
  have := integral_Ioi_inv_one_add_sq (i := 0)
  simp only [Real.arctan_zero, sub_zero] at this
  rw [← this]
  refine setIntegral_congr_fun measurableSet_Ioi (fun x _ => ?_)
  simp [rationalCor, Real.rpow_neg_one]

/-! the terminating hypergeometric series of the Super/HyperSpherical slices -/

theorem choose_eq (n k : ℕ) : choose n k = Nat.choose n k := by
  induction n generalizing k with
  | zero => cases k <;> simp [choose]
  | succ n ih => cases k with
    | zero => simp [choose]
    | succ k => simp [choose, ih, Nat.choose_succ_succ]

/-- `(1/2)_k * (2k+1) = (3/2)_k` -/
theorem pochhammer_half (k : ℕ) :
    (ascPochhammer ℝ k).eval (1 / 2) * (2 * (k:ℝ) + 1) = (ascPochhammer ℝ k).eval (3 / 2) := by
  have h1 : (ascPochhammer ℝ (k + 1)).eval (1 / 2) = (ascPochhammer ℝ k).eval (1 / 2) * (1 / 2 + k) :=
    ascPochhammer_succ_eval k _
  have h2 : (ascPochhammer ℝ (k + 1)).eval (1 / 2) = 1 / 2 * (ascPochhammer ℝ k).eval (3 / 2) := by
    rw [ascPochhammer_succ_left]
    simp only [eval_mul, eval_X, eval_comp, eval_add, eval_one]
    norm_num
  have := h1.symm.trans h2
  linarith

theorem pochhammer_three_half_ne (k : ℕ) : (ascPochhammer ℝ k).eval (3 / 2) ≠ 0 := by
  rw [Ne, ascPochhammer_eval_eq_zero_iff]
  rintro ⟨j, _, hj⟩
  have : (0:ℝ) ≤ j := Nat.cast_nonneg j
  linarith

/-- coefficient of `₂F₁(1/2, -n; 3/2; ·)` -/
theorem hyp_coeff (n k : ℕ) :
    ((k.factorial : ℝ)⁻¹ * (ascPochhammer ℝ k).eval (1 / 2) * (ascPochhammer ℝ k).eval (-(n:ℝ)) *
      ((ascPochhammer ℝ k).eval (3 / 2))⁻¹) = (Nat.choose n k : ℝ) * (-1) ^ k / (2 * (k:ℝ) + 1) := by
  have h3 := pochhammer_three_half_ne k
  have h21 : (2 * (k:ℝ) + 1) ≠ 0 := by positivity
  have hfac : (k.factorial : ℝ) ≠ 0 := by positivity
  rw [ascPochhammer_eval_neg_eq_descPochhammer, descPochhammer_eval_eq_descFactorial,
    Nat.descFactorial_eq_factorial_mul_choose, ← pochhammer_half k]
  have h12 : (ascPochhammer ℝ k).eval (1 / 2) ≠ 0 := by
    intro h; rw [← pochhammer_half k, h, zero_mul] at h3; exact h3 rfl
  push_cast
  field_simp

theorem hyp2f1HalfNegNat_eq_sum (n : ℕ) (x : ℝ) :
    hyp2f1HalfNegNat n x = ∑ k ∈ Finset.range (n + 1), (Nat.choose n k : ℝ) * (-x) ^ k / (2 * (k:ℝ) + 1) := by
  unfold hyp2f1HalfNegNat
  rw [forRange_cast_zero_add_eq_sum]
  refine Finset.sum_congr rfl (fun k _ => ?_)
  simp only [npow_real, choose_eq]
  push_cast
  ring

/-- the terminating series of the model *is* Gauss' hypergeometric function `₂F₁(1/2, -n; 3/2; x)` -/
theorem hyp2f1HalfNegNat_eq (n : ℕ) (x : ℝ) :
    hyp2f1HalfNegNat n x = ordinaryHypergeometric (1 / 2 : ℝ) (-(n:ℝ)) (3 / 2) x := by
  rw [hyp2f1HalfNegNat_eq_sum, ordinaryHypergeometric_eq_tsum]
  simp only
  rw [tsum_eq_sum (s := Finset.range (n + 1))]
  · refine Finset.sum_congr rfl (fun k _ => ?_)
    rw [hyp_coeff, smul_eq_mul, neg_pow]
    ring
  · intro k hk
    have hk' : n < k := by simpa using hk
    have : (ascPochhammer ℝ k).eval (-(n:ℝ)) = 0 := by
      rw [ascPochhammer_eval_eq_zero_iff]; exact ⟨n, hk', by simp⟩
    simp [this]


/-! ### `tools/special.py`: reading of the dispatch at `ℝ` -/

/-- at `ℝ` the nearest integer is Mathlib's `round` (ties up; `np.around` ties to even — a tie is never inside an
    `np.isclose` band, so the dispatch is the same) -/
noncomputable instance instHasRoundReal : HasRound ℝ := ⟨fun s => round s⟩

@[simp] theorem around_real (s : ℝ) : (HasRound.around s : ℤ) = round s := rfl

theorem iscloseTo_iff (a b : ℝ) : iscloseTo a b = true ↔ |a - b| ≤ 1e-8 + 1e-5 * |b| := by
  simp [iscloseTo]

theorem iscloseTo_false_iff (a b : ℝ) : iscloseTo a b = false ↔ ¬ |a - b| ≤ 1e-8 + 1e-5 * |b| := by
  rw [← iscloseTo_iff]; simp

theorem round_eq_of_abs_sub_lt {s : ℝ} {m : ℤ} (h : |s - m| < 1 / 2) : round s = m := by
  rw [round_eq_iff]
  have := abs_lt.mp h
  constructor <;> linarith [this.1, this.2]

/-- value of an affine form: the fold is a sum over the terms -/
theorem Aff.eval_eq (E : ℝ → ℝ → ℝ) (c : ℝ) (ts : List (ℝ × ℝ × ℝ)) :
    Aff.eval E ⟨c, ts⟩ = c + (ts.map fun t => t.1 * E t.2.1 t.2.2).sum := by
  unfold Aff.eval
  simp only
  induction ts generalizing c with
  | nil => simp
  | cons t ts ih => simp only [List.foldl_cons, List.map_cons, List.sum_cons]; rw [ih]; ring

end GSV.Lemmas.CovFn
