/-
  Helper lemmas for C03 (model functions): the ℝ-reading of the closed forms of `GSV.Model.CovFn`
  (`fmin/fmax`, values at 0, the expressions inside / outside the support) and the integrals behind
  the integral-scale theorems (unit-interval antiderivatives, Gaussian / exponential / stable
  half-line integrals from Mathlib, scaling of the lag).
-/
import GSV.RealInst
import GSV.Model.CovFn
import GSV.Lemmas.Ctl
import Mathlib.Tactic.Ring
import Mathlib.Tactic.FieldSimp
import Mathlib.Tactic.Linarith
import Mathlib.Tactic.NormNum
import Mathlib.Analysis.SpecialFunctions.Trigonometric.Basic
import Mathlib.Analysis.SpecialFunctions.Gaussian.GaussianIntegral
import Mathlib.Analysis.SpecialFunctions.Integrals.Basic
import Mathlib.MeasureTheory.Integral.Gamma
import Mathlib.MeasureTheory.Integral.IntegralEqImproper
namespace GSV.Lemmas.CovFn
open GSV GSV.Transc GSV.Model.CovFn MeasureTheory Set


theorem fmin_real (a b : ℝ) : fmin a b = min a b := by
  unfold fmin; split_ifs with h
  · exact (min_eq_left h.le).symm
  · exact (min_eq_right (not_lt.mp h)).symm

theorem fmax_real (a b : ℝ) : fmax a b = max a b := by
  unfold fmax; split_ifs with h
  · exact (max_eq_right h.le).symm
  · exact (max_eq_left (not_lt.mp h)).symm

theorem integral_Ioi_eq_unit (f : ℝ → ℝ) (hf : ∀ x, 1 < x → f x = 0) :
    ∫ x in Ioi (0:ℝ), f x = ∫ x in (0:ℝ)..1, f x := by
  rw [intervalIntegral.integral_of_le zero_le_one]
  refine setIntegral_eq_of_subset_of_forall_sdiff_eq_zero measurableSet_Ioi
    (fun x hx => hx.1) (fun x hx => hf x ?_)
  by_contra h
  exact hx.2 ⟨hx.1, not_lt.mp h⟩

/-! support and the expression inside it -/

theorem sphericalPoly_one : sphericalPoly (1:ℝ) = 0 := by simp [sphericalPoly]; norm_num
theorem cubicPoly_one : cubicPoly (1:ℝ) = 0 := by simp [cubicPoly]; norm_num

theorem sphericalCor_inside (h : ℝ) (hh : |h| ≤ 1) : sphericalCor h = 1 - 1.5 * |h| + 0.5 * |h| ^ 3 := by
  simp [sphericalCor, sphericalPoly, fmin_real, min_eq_left hh]
theorem sphericalCor_outside (h : ℝ) (hh : 1 ≤ |h|) : sphericalCor h = 0 := by
  have : sphericalCor h = sphericalPoly 1 := by simp [sphericalCor, fmin_real, min_eq_right hh]
  rw [this, sphericalPoly_one]
theorem cubicCor_inside (h : ℝ) (hh : |h| ≤ 1) :
    cubicCor h = 1 - 7 * |h| ^ 2 + 8.75 * |h| ^ 3 - 3.5 * |h| ^ 5 + 0.75 * |h| ^ 7 := by
  simp [cubicCor, cubicPoly, fmin_real, min_eq_left hh]
theorem cubicCor_outside (h : ℝ) (hh : 1 ≤ |h|) : cubicCor h = 0 := by
  have : cubicCor h = cubicPoly 1 := by simp [cubicCor, fmin_real, min_eq_right hh]
  rw [this, cubicPoly_one]
theorem linearCor_inside (h : ℝ) (hh : |h| ≤ 1) : linearCor h = 1 - |h| := by
  simp [linearCor, fmax_real, hh]
theorem linearCor_outside (h : ℝ) (hh : 1 ≤ |h|) : linearCor h = 0 := by
  simp [linearCor, fmax_real, hh]
theorem tplSimpleCor_inside (nu h : ℝ) (hh : |h| ≤ 1) : tplSimpleCor nu h = (1 - |h|) ^ nu := by
  simp [tplSimpleCor, fmax_real, hh]
theorem tplSimpleCor_outside (nu h : ℝ) (hnu : nu ≠ 0) (hh : 1 ≤ |h|) : tplSimpleCor nu h = 0 := by
  simp [tplSimpleCor, fmax_real, hh, Real.zero_rpow hnu]

/-! integrals on the unit interval -/

theorem integral_spherical_unit : ∫ x in (0:ℝ)..1, sphericalCor x = 3 / 8 := by
  have h1 : ∫ x in (0:ℝ)..1, sphericalCor x = ∫ x in (0:ℝ)..1, (1 - 1.5 * x + 0.5 * x ^ 3) := by
    refine intervalIntegral.integral_congr (fun x hx => ?_)
    rw [uIcc_of_le zero_le_one] at hx
    have : |x| = x := abs_of_nonneg hx.1
    simp only [sphericalCor_inside x (by rw [this]; exact hx.2), this]
  rw [h1]
  have hd : ∀ x ∈ uIcc (0:ℝ) 1, HasDerivAt (fun x : ℝ => x - 0.75 * x ^ 2 + 0.125 * x ^ 4)
      (1 - 1.5 * x + 0.5 * x ^ 3) x := by
    intro x _
    have h := (((hasDerivAt_id' x).fun_sub ((hasDerivAt_pow 2 x).const_mul (0.75:ℝ))).fun_add
      ((hasDerivAt_pow 4 x).const_mul (0.125:ℝ)))
    exact h.congr_deriv (by norm_num; ring)
  rw [intervalIntegral.integral_eq_sub_of_hasDerivAt hd (Continuous.intervalIntegrable (by continuity) _ _)]
  norm_num

theorem integral_cubic_unit : ∫ x in (0:ℝ)..1, cubicCor x = 35 / 96 := by
  have h1 : ∫ x in (0:ℝ)..1, cubicCor x
      = ∫ x in (0:ℝ)..1, (1 - 7 * x ^ 2 + 8.75 * x ^ 3 - 3.5 * x ^ 5 + 0.75 * x ^ 7) := by
    refine intervalIntegral.integral_congr (fun x hx => ?_)
    rw [uIcc_of_le zero_le_one] at hx
    have : |x| = x := abs_of_nonneg hx.1
    simp only [cubicCor_inside x (by rw [this]; exact hx.2), this]
  rw [h1]
  have hd : ∀ x ∈ uIcc (0:ℝ) 1, HasDerivAt
      (fun x : ℝ => x - (7/3) * x ^ 3 + (35/16) * x ^ 4 - (7/12) * x ^ 6 + (3/32) * x ^ 8)
      (1 - 7 * x ^ 2 + 8.75 * x ^ 3 - 3.5 * x ^ 5 + 0.75 * x ^ 7) x := by
    intro x _
    have h := (((((hasDerivAt_id' x).fun_sub ((hasDerivAt_pow 3 x).const_mul (7/3:ℝ))).fun_add
      ((hasDerivAt_pow 4 x).const_mul (35/16:ℝ))).fun_sub ((hasDerivAt_pow 6 x).const_mul (7/12:ℝ))).fun_add
      ((hasDerivAt_pow 8 x).const_mul (3/32:ℝ)))
    exact h.congr_deriv (by norm_num; ring)
  rw [intervalIntegral.integral_eq_sub_of_hasDerivAt hd (Continuous.intervalIntegrable (by continuity) _ _)]
  norm_num

theorem integral_linear_unit : ∫ x in (0:ℝ)..1, linearCor x = 1 / 2 := by
  have h1 : ∫ x in (0:ℝ)..1, linearCor x = ∫ x in (0:ℝ)..1, (1 - x) := by
    refine intervalIntegral.integral_congr (fun x hx => ?_)
    rw [uIcc_of_le zero_le_one] at hx
    have : |x| = x := abs_of_nonneg hx.1
    simp only [linearCor_inside x (by rw [this]; exact hx.2), this]
  rw [h1]
  have hd : ∀ x ∈ uIcc (0:ℝ) 1, HasDerivAt (fun x : ℝ => x - (1/2) * x ^ 2) (1 - x) x := by
    intro x _
    have h := ((hasDerivAt_id' x).fun_sub ((hasDerivAt_pow 2 x).const_mul (1/2:ℝ)))
    exact h.congr_deriv (by norm_num; ring)
  rw [intervalIntegral.integral_eq_sub_of_hasDerivAt hd (Continuous.intervalIntegrable (by continuity) _ _)]
  norm_num

theorem integral_tplSimple_unit (nu : ℝ) (hnu : 0 < nu) :
    ∫ x in (0:ℝ)..1, tplSimpleCor nu x = 1 / (nu + 1) := by
  have h1 : ∫ x in (0:ℝ)..1, tplSimpleCor nu x = ∫ x in (0:ℝ)..1, (1 - x) ^ nu := by
    refine intervalIntegral.integral_congr (fun x hx => ?_)
    rw [uIcc_of_le zero_le_one] at hx
    have : |x| = x := abs_of_nonneg hx.1
    simp only [tplSimpleCor_inside nu x (by rw [this]; exact hx.2), this]
  rw [h1, intervalIntegral.integral_comp_sub_left (fun x : ℝ => x ^ nu) 1,
    integral_rpow (Or.inl (by linarith))]
  have : nu + 1 ≠ 0 := by linarith
  simp [Real.zero_rpow this]

/-! values at lag zero -/

theorem gaussianCor_zero : gaussianCor (0:ℝ) = 1 := by simp [gaussianCor]
theorem exponentialCor_zero : exponentialCor (0:ℝ) = 1 := by simp [exponentialCor]
theorem stableCor_zero (a : ℝ) (ha : a ≠ 0) : stableCor a (0:ℝ) = 1 := by
  simp [stableCor, Real.zero_rpow ha]
theorem rationalCor_zero (a : ℝ) : rationalCor a (0:ℝ) = 1 := by simp [rationalCor]
theorem cubicCor_zero : cubicCor (0:ℝ) = 1 := by
  simp [cubicCor, cubicPoly, fmin_real]
theorem linearCor_zero : linearCor (0:ℝ) = 1 := by simp [linearCor, fmax_real]
theorem circularInner_zero : circularInner (0:ℝ) = 1 := by
  simp [circularInner, Real.arccos_zero]
theorem circularCor_zero : circularCor (0:ℝ) = 1 := by
  have : circularCor (0:ℝ) = circularInner 0 := by simp [circularCor]
  rw [this, circularInner_zero]
theorem sphericalCor_zero : sphericalCor (0:ℝ) = 1 := by
  simp [sphericalCor, sphericalPoly, fmin_real]
theorem tplSimpleCor_zero (nu : ℝ) : tplSimpleCor nu (0:ℝ) = 1 := by
  simp [tplSimpleCor, fmax_real]
theorem superSphericalNatCor_zero (n : ℕ) : superSphericalNatCor n (0:ℝ) = 1 := by
  simp [superSphericalNatCor]
theorem superSphericalHalfCor_zero : superSphericalHalfCor (0:ℝ) = 1 := by
  have : superSphericalHalfCor (0:ℝ) = circularInner 0 := by simp [superSphericalHalfCor]
  rw [this, circularInner_zero]
theorem matern_zero : matern12Cor (0:ℝ) = 1 ∧ matern32Cor (0:ℝ) = 1 ∧ matern52Cor (0:ℝ) = 1 ∧
    maternLimitCor (0:ℝ) = 1 := by
  simp [matern12Cor, matern32Cor, matern52Cor, maternLimitCor]
theorem jbessel_zero : jbessel12Cor (0:ℝ) = 1 ∧ jbessel32Cor (0:ℝ) = 1 := by
  have : isclose0 (0:ℝ) = true := by simp [isclose0]; norm_num
  simp [jbessel12Cor, jbessel32Cor, this]

theorem hyp_zero (x : ℝ) : hyp2f1HalfNegNat 0 x = 1 := by
  simp [hyp2f1HalfNegNat, forRange, foldIdx, idxRange, choose]
theorem hyp_one (x : ℝ) : hyp2f1HalfNegNat 1 x = 1 - x / 3 := by
  simp [hyp2f1HalfNegNat, forRange, foldIdx, idxRange, choose, List.range']
  ring

/-! half-line integrals -/

/-- scaling of the lag: `∫₀^∞ c(|r| / L) dr = L ∫₀^∞ c` -/
theorem integral_scale_lag (c : ℝ → ℝ) (L : ℝ) (hL : 0 < L) :
    ∫ r in Ioi (0:ℝ), c (|r| / L) = L * ∫ h in Ioi (0:ℝ), c h := by
  have h1 : ∫ r in Ioi (0:ℝ), c (|r| / L) = ∫ r in Ioi (0:ℝ), c (L⁻¹ * r) := by
    refine setIntegral_congr_fun measurableSet_Ioi (fun r hr => ?_)
    simp only [abs_of_pos (show (0:ℝ) < r from hr)]
    rw [div_eq_inv_mul]
  rw [h1, integral_comp_mul_left_Ioi c 0 (inv_pos.mpr hL)]
  simp

theorem integral_gaussianCor : ∫ h in Ioi (0:ℝ), gaussianCor h = Real.sqrt Real.pi / 2 := by
  have := integral_gaussian_Ioi 1
  simpa [gaussianCor] using this

theorem integral_exponentialCor : ∫ h in Ioi (0:ℝ), exponentialCor h = 1 := by
  simpa [exponentialCor] using integral_exp_neg_Ioi_zero

theorem integral_stableCor (a : ℝ) (ha : 0 < a) :
    ∫ h in Ioi (0:ℝ), stableCor a h = Real.Gamma (1 + 1 / a) := by
  have := _root_.integral_exp_neg_rpow ha
  rw [add_comm]
  simpa [stableCor] using this

end GSV.Lemmas.CovFn
