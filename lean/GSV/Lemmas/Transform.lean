/-
  Helper lemmas for C19 (field transformations): finite-sample moments as `List.sum`, the masked-write
  loop of `array_discrete`, threshold lists.  All at `ℝ`.
-/
import GSV.RealInst
import GSV.Model.Transform
import Mathlib.Algebra.BigOperators.Group.List.Basic
import Mathlib.Algebra.Order.BigOperators.Group.List
import Mathlib.Data.List.Sort
import Mathlib.MeasureTheory.Measure.Real
import Mathlib.MeasureTheory.Constructions.BorelSpace.Order
import Mathlib.Analysis.SpecialFunctions.Log.Basic
import Mathlib.Analysis.SpecialFunctions.Trigonometric.Inverse
import Mathlib.Analysis.SpecialFunctions.Pow.Real
import Mathlib.Analysis.SpecialFunctions.Integrals.Basic
import Mathlib.Probability.Distributions.Gaussian.Real
import Mathlib.Probability.CDF
import Mathlib.Tactic.Positivity
import Mathlib.Tactic.NormNum.OfScientific
import Mathlib.Tactic.Ring
import Mathlib.Tactic.FieldSimp
import Mathlib.Tactic.Linarith
namespace GSV.Lemmas.Transform
open GSV GSV.Transc GSV.Model.Transform MeasureTheory

/-! ### the decimal literals of the model at `ℝ` -/

theorem lit20 : @OfScientific.ofScientific ℝ instArithReal.toOfScientific 20 true 1 = 2 := by norm_num
theorem lit50 : @OfScientific.ofScientific ℝ instArithReal.toOfScientific 50 true 1 = 5 := by norm_num
theorem lit30 : @OfScientific.ofScientific ℝ instArithReal.toOfScientific 30 true 1 = 3 := by norm_num
theorem lit05 : @OfScientific.ofScientific ℝ instArithReal.toOfScientific 5 true 1 = 1 / 2 := by norm_num
theorem lit00 : @OfScientific.ofScientific ℝ instArithReal.toOfScientific 0 true 1 = 0 := by norm_num
theorem lit10 : @OfScientific.ofScientific ℝ instArithReal.toOfScientific 10 true 1 = 1 := by norm_num
theorem lit1em8 : @OfScientific.ofScientific ℝ instArithReal.toOfScientific 1 true 8 = 1 / 100000000 := by norm_num

/-! ### sample moments -/


theorem foldl_add_eq (l : List ℝ) (a : ℝ) : l.foldl (fun a x => a + x) a = a + l.sum := by
  induction l generalizing a with
  | nil => simp
  | cons x l ih => simp [ih, add_assoc]

theorem lsum_eq (l : List ℝ) : lsum l = l.sum := by
  unfold lsum; rw [foldl_add_eq]; simp

theorem lmean_eq (l : List ℝ) : lmean l = l.sum / (l.length : ℝ) := by
  unfold lmean; rw [lsum_eq]

theorem sum_map_affine (l : List ℝ) (f : ℝ → ℝ) (c d : ℝ) :
    (l.map fun x => c * f x + d).sum = c * (l.map f).sum + l.length * d := by
  induction l with
  | nil => simp
  | cons x l ih => simp [ih]; ring

theorem length_ne_zero {l : List ℝ} (hl : l ≠ []) : (l.length : ℝ) ≠ 0 := by
  have : l.length ≠ 0 := by simpa [List.length_eq_zero_iff] using hl
  exact_mod_cast this

theorem lmean_map_affine (l : List ℝ) (hl : l ≠ []) (f : ℝ → ℝ) (c d : ℝ) :
    lmean (l.map fun x => c * f x + d) = c * lmean (l.map f) + d := by
  have hn := length_ne_zero hl
  rw [lmean_eq, lmean_eq, sum_map_affine, List.length_map, List.length_map]
  field_simp

theorem lmean_forceMoments (l : List ℝ) (hl : l ≠ []) (m v : ℝ) :
    lmean (forceMoments m v l) = m := by
  unfold forceMoments
  have h := lmean_map_affine l hl (fun x => x - lmean l) (sqrt (v / lvar l)) m
  simp only at h ⊢
  rw [h]
  have h2 := lmean_map_affine l hl (fun x => x) 1 (-(lmean l))
  have h3 : (l.map fun x => x - lmean l) = l.map fun x => 1 * x + -(lmean l) := by
    apply List.map_congr_left; intro x _; ring
  rw [h3, h2]; simp

theorem lvar_forceMoments (l : List ℝ) (hl : l ≠ []) (m v : ℝ) (hv : 0 ≤ v) (hvar : lvar l ≠ 0) :
    lvar (forceMoments m v l) = v := by
  have hm := lmean_forceMoments l hl m v
  unfold lvar
  rw [hm]
  unfold forceMoments
  simp only [List.map_map]
  have hpos : 0 ≤ lvar l := by
    unfold lvar; rw [lmean_eq]
    apply div_nonneg _ (Nat.cast_nonneg _)
    apply List.sum_nonneg
    intro x hx
    simp only [List.mem_map] at hx
    obtain ⟨y, _, rfl⟩ := hx
    exact mul_self_nonneg _
  have hc : sqrt (v / lvar l) * sqrt (v / lvar l) = v / lvar l := by
    simp only [sqrt_real]
    exact Real.mul_self_sqrt (div_nonneg hv hpos)
  have h3 : (l.map ((fun x => (x - m) * (x - m)) ∘ fun x => sqrt (v / lvar l) * (x - lmean l) + m))
      = l.map fun x => (v / lvar l) * ((x - lmean l) * (x - lmean l)) + 0 := by
    apply List.map_congr_left; intro x _
    simp only [Function.comp]
    generalize sqrt (v / lvar l) = c at hc
    rw [← hc]; ring
  rw [h3, lmean_map_affine l hl (fun x => (x - lmean l) * (x - lmean l))]
  have : lmean (l.map fun x => (x - lmean l) * (x - lmean l)) = lvar l := rfl
  rw [this]; field_simp; simp


/-! ### the masked writes of `array_discrete` -/


theorem classifyMid_all_ge (mid thr : List ℝ) (x : ℝ) (acc : Option ℝ) (h : ∀ t ∈ thr, x ≤ t) :
    classifyMid mid thr x acc = acc := by
  induction mid generalizing thr acc with
  | nil => simp [classifyMid]
  | cons v vs ih =>
    match thr with
    | [] => simp [classifyMid]
    | [_] => simp [classifyMid]
    | t0 :: t1 :: ts =>
      simp only [classifyMid]
      have h0 : ¬ (t0 < x) := not_lt.mpr (h t0 (by simp))
      rw [ih (t1 :: ts) _ (fun t ht => h t (by simp at ht ⊢; tauto))]
      simp [h0]

theorem classifyMid_all_lt (mid thr : List ℝ) (x : ℝ) (acc : Option ℝ) (h : ∀ t ∈ thr, t < x) :
    classifyMid mid thr x acc = acc := by
  induction mid generalizing thr acc with
  | nil => simp [classifyMid]
  | cons v vs ih =>
    match thr with
    | [] => simp [classifyMid]
    | [_] => simp [classifyMid]
    | t0 :: t1 :: ts =>
      simp only [classifyMid]
      have h1 : ¬ (x ≤ t1) := not_le.mpr (h t1 (by simp))
      rw [ih (t1 :: ts) _ (fun t ht => h t (by simp at ht ⊢; tauto))]
      simp [h1]

theorem classifyMid_hit (mid thr : List ℝ) (x : ℝ) (acc : Option ℝ) (i : ℕ)
    (hi : i + 1 < thr.length) (hm : i < mid.length) (hs : thr.Pairwise (· < ·))
    (h1 : thr[i] < x) (h2 : x ≤ thr[i + 1]) : classifyMid mid thr x acc = some mid[i] := by
  induction i generalizing mid thr acc with
  | zero =>
    match mid, thr, hm, hi with
    | v :: vs, t0 :: t1 :: ts, _, _ =>
      simp only [classifyMid]
      simp only [List.getElem_cons_zero, List.getElem_cons_succ, zero_add] at h1 h2 ⊢
      rw [classifyMid_all_ge]
      · simp [h1, h2]
      · intro t ht
        rcases List.mem_cons.mp ht with rfl | ht
        · exact h2
        · have := (List.pairwise_cons.mp (List.pairwise_cons.mp hs).2).1 t ht
          linarith
  | succ i ih =>
    match mid, thr, hm, hi with
    | v :: vs, t0 :: t1 :: ts, hm, hi =>
      simp only [classifyMid]
      simp only [List.getElem_cons_succ] at h1 h2 ⊢
      exact ih vs (t1 :: ts) _ (by simpa using hi) (by simpa using hm) (List.pairwise_cons.mp hs).2 h1 h2

theorem classifyMid_mem (mid thr : List ℝ) (x : ℝ) (acc : Option ℝ) :
    classifyMid mid thr x acc = acc ∨ ∃ v ∈ mid, classifyMid mid thr x acc = some v := by
  induction mid generalizing thr acc with
  | nil => left; simp [classifyMid]
  | cons v vs ih =>
    match thr with
    | [] => left; simp [classifyMid]
    | [_] => left; simp [classifyMid]
    | t0 :: t1 :: ts =>
      simp only [classifyMid]
      rcases ih (t1 :: ts) (if t0 < x ∧ x ≤ t1 then some v else acc) with h | ⟨w, hw, h⟩
      · by_cases hc : t0 < x ∧ x ≤ t1
        · right; exact ⟨v, by simp, by rw [h]; simp [hc]⟩
        · left; rw [h]; simp [hc]
      · right; exact ⟨w, by simp [hw], h⟩

/-- between the first and the last threshold some adjacent pair brackets `x` -/
theorem exists_bracket (thr : List ℝ) (x : ℝ) (hne : thr ≠ [])
    (h0 : thr.head hne < x) (h1 : x ≤ thr.getLast hne) :
    ∃ i, ∃ (hi : i + 1 < thr.length), thr[i] < x ∧ x ≤ thr[i + 1] := by
  induction thr with
  | nil => exact absurd rfl hne
  | cons t ts ih =>
    match ts with
    | [] => simp at h0 h1; linarith
    | t1 :: ts' =>
      by_cases hx : x ≤ t1
      · exact ⟨0, by simp, by simpa using h0, by simpa using hx⟩
      · have := ih (by simp) (by simpa using lt_of_not_ge hx) (by simpa using h1)
        obtain ⟨i, hi, ha, hb⟩ := this
        exact ⟨i + 1, by simpa using hi, by simpa using ha, by simpa using hb⟩


/-! ### threshold lists -/

theorem ascending_iff_pairwise (thr : List ℝ) : ascending thr = true ↔ thr.Pairwise (· < ·) := by
  induction thr with
  | nil => simp [ascending]
  | cons a t ih =>
    match t with
    | [] => simp [ascending]
    | b :: t' =>
      simp only [ascending, Bool.and_eq_true, decide_eq_true_eq, ih]
      constructor
      · rintro ⟨hab, hp⟩
        refine List.pairwise_cons.mpr ⟨?_, hp⟩
        intro y hy
        rcases List.mem_cons.mp hy with rfl | hy
        · exact hab
        · exact lt_trans hab ((List.pairwise_cons.mp hp).1 y hy)
      · intro h
        exact ⟨(List.pairwise_cons.mp h).1 b (by simp), (List.pairwise_cons.mp h).2⟩

theorem classify_spec (vals thr : List ℝ) (hlen : vals.length = thr.length + 1) (hpos : 0 < thr.length)
    (hasc : thr.Pairwise (· < ·)) (x : ℝ) :
    ∃ y, classify (vals[0]'(by omega)) (vals[thr.length]'(by omega)) vals.tail.dropLast
          (thr[0]'hpos) (thr[thr.length - 1]'(by omega)) thr x = some y ∧ y ∈ vals ∧
      (x ≤ thr[0]'hpos → y = vals[0]'(by omega)) ∧
      (∀ i (hi : i + 1 < thr.length), thr[i] < x → x ≤ thr[i + 1] → y = vals[i + 1]'(by omega)) ∧
      (thr[thr.length - 1]'(by omega) < x → y = vals[thr.length]'(by omega)) := by
  have hidx := List.pairwise_iff_getElem.mp hasc
  have hmono : ∀ i j (hi : i < thr.length) (hj : j < thr.length), i ≤ j → thr[i] ≤ thr[j] := by
    intro i j hi hj hij
    rcases Nat.lt_or_eq_of_le hij with h | h
    · exact le_of_lt (hidx i j hi hj h)
    · subst h; exact le_refl _
  have hmid : ∀ i (hi : i + 1 < thr.length), (vals.tail.dropLast)[i]'(by simp; omega) = vals[i + 1]'(by omega) := by
    intro i hi; simp
  unfold classify
  by_cases h0 : x ≤ thr[0]'hpos
  · have hl : ¬ (thr[thr.length - 1]'(by omega) < x) := by
      have := hmono 0 (thr.length - 1) hpos (by omega) (by omega); linarith
    refine ⟨vals[0]'(by omega), ?_, List.getElem_mem _, fun _ => rfl, ?_, fun h => absurd h hl⟩
    · rw [classifyMid_all_ge]
      · simp [h0, hl]
      · intro t ht
        obtain ⟨i, hi, rfl⟩ := List.getElem_of_mem ht
        have := hmono 0 i hpos hi (by omega); linarith
    · intro i hi h1 _
      have := hmono 0 i hpos (by omega) (by omega); linarith
  · by_cases hl : thr[thr.length - 1]'(by omega) < x
    · refine ⟨vals[thr.length]'(by omega), ?_, List.getElem_mem _, fun h => absurd h h0, ?_, fun _ => rfl⟩
      · rw [classifyMid_all_lt]
        · simp [hl]
        · intro t ht
          obtain ⟨i, hi, rfl⟩ := List.getElem_of_mem ht
          have := hmono i (thr.length - 1) hi (by omega) (by omega); linarith
      · intro i hi _ h2
        have := hmono (i + 1) (thr.length - 1) hi (by omega) (by omega); linarith
    · have hne : thr ≠ [] := by intro h; simp [h] at hpos
      obtain ⟨i, hi, ha, hb⟩ := exists_bracket thr x hne
        (by rw [List.head_eq_getElem]; exact lt_of_not_ge h0)
        (by rw [List.getLast_eq_getElem]; exact le_of_not_gt hl)
      have hit : ∀ i (hi : i + 1 < thr.length), thr[i] < x → x ≤ thr[i + 1] → ∀ acc,
          classifyMid vals.tail.dropLast thr x acc = some (vals[i + 1]'(by omega)) := by
        intro i hi ha hb acc
        rw [classifyMid_hit _ thr x acc i hi (by simp; omega) hasc ha hb, hmid i hi]
      refine ⟨vals[i + 1]'(by omega), hit i hi ha hb _, List.getElem_mem _, fun h => absurd h h0, ?_, fun h => absurd h hl⟩
      intro i' hi' ha' hb'
      have e1 := hit i hi ha hb none
      have e2 := hit i' hi' ha' hb' none
      rw [e1] at e2
      exact Option.some.inj e2



/-! ### the quantile functions `_uniform_to_arcsin`, `_uniform_to_uquad` -/

theorem uniformToArcsin_eq (a b u : ℝ) :
    uniformToArcsin a b u = (b - a) * Real.sin (Real.pi / 2 * u) ^ 2 + a := by
  simp only [uniformToArcsin, npow_real, sin_real, pi_real, lit05]
  congr 3; ring_nf

theorem uniformToArcsin_mem_Ioo {a b u : ℝ} (hab : a < b) (hu0 : 0 < u) (hu1 : u < 1) :
    a < uniformToArcsin a b u ∧ uniformToArcsin a b u ≤ b := by
  rw [uniformToArcsin_eq]
  have hθ0 : 0 < Real.pi / 2 * u := by positivity
  have hθ1 : Real.pi / 2 * u < Real.pi := by nlinarith [Real.pi_pos]
  have hs := Real.sin_pos_of_pos_of_lt_pi hθ0 hθ1
  have hs1 := Real.sin_le_one (Real.pi / 2 * u)
  constructor
  · nlinarith [pow_pos hs 2, sub_pos.mpr hab]
  · have : Real.sin (Real.pi / 2 * u) ^ 2 ≤ 1 := by nlinarith
    nlinarith [sub_pos.mpr hab]

theorem uniformToArcsin_le_iff {a b u y : ℝ} (hab : a < b) (hu0 : 0 < u) (hu1 : u < 1) (hy0 : a < y) (hy1 : y < b) :
    uniformToArcsin a b u ≤ y ↔ u ≤ 2 / Real.pi * Real.arcsin (Real.sqrt ((y - a) / (b - a))) := by
  rw [uniformToArcsin_eq]
  have hba : 0 < b - a := sub_pos.mpr hab
  set w := (y - a) / (b - a) with hw
  have hw0 : 0 < w := div_pos (sub_pos.mpr hy0) hba
  have hw1 : w < 1 := by rw [hw, div_lt_one hba]; linarith
  have hθ0 : 0 < Real.pi / 2 * u := by positivity
  have hθ1 : Real.pi / 2 * u < Real.pi / 2 := by nlinarith [Real.pi_pos]
  have hs := Real.sin_pos_of_pos_of_lt_pi hθ0 (by linarith [Real.pi_pos])
  have hsq0 : 0 ≤ Real.sqrt w := Real.sqrt_nonneg w
  have hsq1 : Real.sqrt w ≤ 1 := by
    rw [show (1:ℝ) = Real.sqrt 1 by simp]; exact Real.sqrt_le_sqrt (le_of_lt hw1)
  have step1 : (b - a) * Real.sin (Real.pi / 2 * u) ^ 2 + a ≤ y ↔ Real.sin (Real.pi / 2 * u) ^ 2 ≤ w := by
    rw [hw, le_div_iff₀ hba]
    constructor <;> intro hh <;> linarith
  rw [step1, ← Real.le_sqrt' hs,
    ← Real.le_arcsin_iff_sin_le ⟨by linarith, le_of_lt hθ1⟩ ⟨by linarith, hsq1⟩]
  have hpi : 0 < Real.pi := Real.pi_pos
  constructor
  · intro hh
    rw [div_mul_eq_mul_div, le_div_iff₀ hpi]; linarith
  · intro hh
    rw [div_mul_eq_mul_div, le_div_iff₀ hpi] at hh; linarith

theorem arcsinCdf_mem_Ioo {a b y : ℝ} (hab : a < b) (hy0 : a < y) (hy1 : y < b) :
    0 < 2 / Real.pi * Real.arcsin (Real.sqrt ((y - a) / (b - a))) ∧
      2 / Real.pi * Real.arcsin (Real.sqrt ((y - a) / (b - a))) < 1 := by
  have hba : 0 < b - a := sub_pos.mpr hab
  have hw0 : 0 < (y - a) / (b - a) := div_pos (sub_pos.mpr hy0) hba
  have hw1 : (y - a) / (b - a) < 1 := by rw [div_lt_one hba]; linarith
  have h0 : 0 < Real.arcsin (Real.sqrt ((y - a) / (b - a))) := Real.arcsin_pos.mpr (Real.sqrt_pos.mpr hw0)
  have h1 : Real.arcsin (Real.sqrt ((y - a) / (b - a))) < Real.pi / 2 := by
    rw [Real.arcsin_lt_pi_div_two, show (1:ℝ) = Real.sqrt 1 by simp]
    exact Real.sqrt_lt_sqrt (le_of_lt hw0) hw1
  have hpi : 0 < Real.pi := Real.pi_pos
  constructor
  · positivity
  · rw [div_mul_eq_mul_div, div_lt_one hpi]; linarith

/-- the signed cube root the code builds from two masked `** (1/3)` -/
noncomputable def scbrt (t : ℝ) : ℝ :=
  if 0 < t then t ^ ((1:ℝ) / 3) else if t < 0 then -((-t) ^ ((1:ℝ) / 3)) else 0

theorem rpow_third_cube {t : ℝ} (ht : 0 ≤ t) : (t ^ ((1:ℝ) / 3)) ^ 3 = t := by
  rw [← Real.rpow_natCast, ← Real.rpow_mul ht]
  norm_num

theorem scbrt_cube (t : ℝ) : scbrt t ^ 3 = t := by
  unfold scbrt
  split_ifs with h1 h2
  · exact rpow_third_cube (le_of_lt h1)
  · have := rpow_third_cube (t := -t) (by linarith)
    calc (-((-t) ^ ((1:ℝ) / 3))) ^ 3 = -(((-t) ^ ((1:ℝ) / 3)) ^ 3) := by ring
      _ = t := by rw [this]; ring
  · have : t = 0 := le_antisymm (not_lt.mp h1) (not_lt.mp h2)
    simp [this]

theorem cube_le_cube {x y : ℝ} : x ^ 3 ≤ y ^ 3 ↔ x ≤ y :=
  (Odd.strictMono_pow (by decide : Odd 3)).le_iff_le

theorem cube_lt_cube {x y : ℝ} : x ^ 3 < y ^ 3 ↔ x < y :=
  (Odd.strictMono_pow (by decide : Odd 3)).lt_iff_lt

theorem uniformToUquad_eq (a b u : ℝ) :
    uniformToUquad a b u = scbrt (3 * u / (12 / (b - a) ^ 3) + (a - b) ^ 3 / 8) + (a + b) / 2 := by
  simp only [uniformToUquad, scbrt, npow_real, rpow_real]
  push_cast
  rfl

theorem uniformToUquad_le_iff {a b u y : ℝ} (hab : a < b) :
    uniformToUquad a b u ≤ y ↔ u ≤ 4 * (y - (a + b) / 2) ^ 3 / (b - a) ^ 3 + 1 / 2 := by
  rw [uniformToUquad_eq]
  have hba : 0 < b - a := sub_pos.mpr hab
  have h3 : 0 < (b - a) ^ 3 := pow_pos hba 3
  have e : 3 * u / (12 / (b - a) ^ 3) + (a - b) ^ 3 / 8 = (b - a) ^ 3 * (u / 4 - 1 / 8) := by
    field_simp; ring
  rw [e]
  have step : scbrt ((b - a) ^ 3 * (u / 4 - 1 / 8)) + (a + b) / 2 ≤ y ↔
      (b - a) ^ 3 * (u / 4 - 1 / 8) ≤ (y - (a + b) / 2) ^ 3 := by
    rw [← scbrt_cube ((b - a) ^ 3 * (u / 4 - 1 / 8)), cube_le_cube, scbrt_cube]
    constructor <;> intro hh <;> linarith
  rw [step, div_add' _ _ _ (ne_of_gt h3), le_div_iff₀ h3]
  constructor <;> intro hh <;> nlinarith

theorem uquadCdf_mem_Ioo {a b y : ℝ} (hab : a < b) (hy0 : a < y) (hy1 : y < b) :
    0 < 4 * (y - (a + b) / 2) ^ 3 / (b - a) ^ 3 + 1 / 2 ∧ 4 * (y - (a + b) / 2) ^ 3 / (b - a) ^ 3 + 1 / 2 < 1 := by
  have hba : 0 < b - a := sub_pos.mpr hab
  have h3 : 0 < (b - a) ^ 3 := pow_pos hba 3
  have lo : (-(b - a) / 2) ^ 3 < (y - (a + b) / 2) ^ 3 := cube_lt_cube.mpr (by linarith)
  have hi : (y - (a + b) / 2) ^ 3 < ((b - a) / 2) ^ 3 := cube_lt_cube.mpr (by linarith)
  constructor
  · rw [div_add' _ _ _ (ne_of_gt h3)]
    apply div_pos _ h3
    nlinarith
  · rw [div_add' _ _ _ (ne_of_gt h3), div_lt_one h3]
    nlinarith



/-! ### the abstract standard normal cdf -/

/-- What the theorems use about the standard normal cdf `Φ` and its quantile function `Q`:
    `Φ` is a strictly increasing map `ℝ → (0,1)`, onto (`Φ (Q p) = p` on `(0,1)`), and symmetric. -/
structure IsStdNormalCdf (Φ Q : ℝ → ℝ) : Prop where
  strictMono : StrictMono Φ
  pos : ∀ x, 0 < Φ x
  lt_one : ∀ x, Φ x < 1
  right_inv : ∀ p, 0 < p → p < 1 → Φ (Q p) = p
  symm : ∀ x, Φ (-x) = 1 - Φ x

namespace IsStdNormalCdf
variable {Φ Q : ℝ → ℝ} (h : IsStdNormalCdf Φ Q)
include h

theorem left_inv (x : ℝ) : Q (Φ x) = x :=
  h.strictMono.injective (h.right_inv _ (h.pos x) (h.lt_one x))

theorem le_iff_le_Q {x p : ℝ} (hp0 : 0 < p) (hp1 : p < 1) : Φ x ≤ p ↔ x ≤ Q p := by
  rw [← h.strictMono.le_iff_le (a := x) (b := Q p), h.right_inv p hp0 hp1]

theorem lt_iff_lt_Q {x p : ℝ} (hp0 : 0 < p) (hp1 : p < 1) : Φ x < p ↔ x < Q p := by
  rw [← h.strictMono.lt_iff_lt (a := x) (b := Q p), h.right_inv p hp0 hp1]

theorem Q_le_iff {x p : ℝ} (hp0 : 0 < p) (hp1 : p < 1) : Q p ≤ x ↔ p ≤ Φ x := by
  rw [← h.strictMono.le_iff_le (a := Q p) (b := x), h.right_inv p hp0 hp1]

theorem Q_lt_Q {p q : ℝ} (hp0 : 0 < p) (hpq : p < q) (hq1 : q < 1) : Q p < Q q := by
  rw [← h.strictMono.lt_iff_lt, h.right_inv p hp0 (hpq.trans hq1), h.right_inv q (hp0.trans hpq) hq1]
  exact hpq

theorem at_zero : Φ 0 = 1 / 2 := by
  have := h.symm 0
  simp only [neg_zero] at this
  linarith

theorem Q_half : Q (1 / 2) = 0 := by rw [← h.at_zero, h.left_inv]

theorem half_lt_of_pos {x : ℝ} (hx : 0 < x) : 1 / 2 < Φ x := by
  rw [← h.at_zero]; exact h.strictMono hx

end IsStdNormalCdf

/-- the hypotheses are satisfiable: the logistic cdf `1/(1+e^{-x})` with quantile `log(p/(1-p))` -/
theorem logistic_isStdNormalCdf :
    IsStdNormalCdf (fun x => 1 / (1 + Real.exp (-x))) (fun p => Real.log (p / (1 - p))) where
  strictMono := by
    intro x y hxy
    have hx : 0 < 1 + Real.exp (-x) := by positivity
    have hy : 0 < 1 + Real.exp (-y) := by positivity
    simp only
    rw [div_lt_div_iff₀ hx hy]
    have : Real.exp (-y) < Real.exp (-x) := Real.exp_lt_exp.mpr (by linarith)
    linarith
  pos := fun x => by positivity
  lt_one := fun x => by
    have hx : 0 < Real.exp (-x) := Real.exp_pos _
    rw [div_lt_one (by positivity)]; linarith
  right_inv := by
    intro p hp0 hp1
    have h1 : 0 < 1 - p := by linarith
    have ht : 0 < p / (1 - p) := div_pos hp0 h1
    rw [Real.exp_neg, Real.exp_log ht]
    field_simp
    ring
  symm := by
    intro x
    simp only [neg_neg]
    have hx : 0 < Real.exp x := Real.exp_pos _
    rw [Real.exp_neg]
    field_simp
    ring

/-! ### normal marginals and push-forward cdfs -/

variable {Ω : Type*} [MeasurableSpace Ω]

/-- `X` has the normal marginal with mean `m` and standard deviation `s` (relative to the cdf `Φ`):
    `P(X ≤ x) = Φ((x - m)/s)` for all `x` -/
def NormalMarginal (P : Measure Ω) (X : Ω → ℝ) (Φ : ℝ → ℝ) (m s : ℝ) : Prop :=
  ∀ x, P.real {ω | X ω ≤ x} = Φ ((x - m) / s)

variable {P : Measure Ω} {X : Ω → ℝ} {Φ Q : ℝ → ℝ} {m s : ℝ}

/-- the probability integral transform: `Φ((X - m)/s)` is uniform on `(0,1)` -/
theorem prob_cdf_le (h : IsStdNormalCdf Φ Q) (hX : NormalMarginal P X Φ m s) (hs : 0 < s)
    {p : ℝ} (hp0 : 0 < p) (hp1 : p < 1) : P.real {ω | Φ ((X ω - m) / s) ≤ p} = p := by
  have hset : {ω | Φ ((X ω - m) / s) ≤ p} = {ω | X ω ≤ m + s * Q p} := by
    ext ω
    simp only [Set.mem_ofPred_eq]
    rw [h.le_iff_le_Q hp0 hp1, div_le_iff₀ hs]
    constructor <;> intro hh <;> linarith
  rw [hset, hX]
  have : (m + s * Q p - m) / s = Q p := by field_simp; ring
  rw [this, h.right_inv p hp0 hp1]

/-- **push-forward lemma**: if `g` (a quantile function evaluated at `u = Φ(z)`) and `F` satisfy `g u ≤ y ↔ u ≤ F y`
    on `u ∈ (0,1)` (or `y` is below / above the whole range of `g`), then `P(g(Φ((X-m)/s)) ≤ y) = F y` -/
theorem pushforward_cdf (h : IsStdNormalCdf Φ Q) [IsProbabilityMeasure P] (hX : NormalMarginal P X Φ m s)
    (hs : 0 < s) (g : ℝ → ℝ) (Fy y : ℝ)
    (hcase : ((∀ u, 0 < u → u < 1 → y < g u) ∧ Fy = 0) ∨ ((∀ u, 0 < u → u < 1 → g u ≤ y) ∧ Fy = 1) ∨
      (0 < Fy ∧ Fy < 1 ∧ ∀ u, 0 < u → u < 1 → (g u ≤ y ↔ u ≤ Fy))) :
    P.real {ω | g (Φ ((X ω - m) / s)) ≤ y} = Fy := by
  rcases hcase with ⟨hlt, rfl⟩ | ⟨hle, rfl⟩ | ⟨h0, h1, hiff⟩
  · have : {ω | g (Φ ((X ω - m) / s)) ≤ y} = ∅ := by
      ext ω
      simp only [Set.mem_ofPred_eq, Set.mem_empty_iff_false, iff_false, not_le]
      exact hlt _ (h.pos _) (h.lt_one _)
    rw [this]; simp
  · have : {ω | g (Φ ((X ω - m) / s)) ≤ y} = Set.univ := by
      ext ω
      simp only [Set.mem_ofPred_eq, Set.mem_univ, iff_true]
      exact hle _ (h.pos _) (h.lt_one _)
    rw [this]; simp
  · have : {ω | g (Φ ((X ω - m) / s)) ≤ y} = {ω | Φ ((X ω - m) / s) ≤ Fy} := by
      ext ω
      simp only [Set.mem_ofPred_eq]
      exact hiff _ (h.pos _) (h.lt_one _)
    rw [this, prob_cdf_le h hX hs h0 h1]



variable {Ω : Type*} [MeasurableSpace Ω] {P : Measure Ω} {X : Ω → ℝ} {Φ Q : ℝ → ℝ} {m s : ℝ}

theorem measurableSet_le_const (hm : Measurable X) (c : ℝ) : MeasurableSet {ω | X ω ≤ c} :=
  measurableSet_le hm measurable_const

/-- half-open interval probabilities of a normal marginal -/
theorem prob_Ioc [IsFiniteMeasure P] (hX : NormalMarginal P X Φ m s) (hm : Measurable X) {a b : ℝ} (hab : a ≤ b) :
    P.real {ω | a < X ω ∧ X ω ≤ b} = Φ ((b - m) / s) - Φ ((a - m) / s) := by
  have hset : {ω | a < X ω ∧ X ω ≤ b} = {ω | X ω ≤ b} \ {ω | X ω ≤ a} := by
    ext ω; simp only [Set.mem_ofPred_eq, Set.mem_sdiff, not_le]; tauto
  have hsub : {ω | X ω ≤ a} ⊆ {ω | X ω ≤ b} := fun ω (h : X ω ≤ a) => le_trans h hab
  have := measureReal_sdiff (μ := P) hsub (measurableSet_le_const hm a)
  rw [hset, this, hX, hX]

/-- a normal marginal (relative to a cdf that is onto `(0,1)`) has no atoms -/
theorem no_atom (h : IsStdNormalCdf Φ Q) [IsFiniteMeasure P] (hX : NormalMarginal P X Φ m s) (hm : Measurable X)
    (hs : 0 < s) (c : ℝ) : P.real {ω | X ω = c} = 0 := by
  by_contra hne
  have hδ : 0 < P.real {ω | X ω = c} := lt_of_le_of_ne measureReal_nonneg (Ne.symm hne)
  set δ := P.real {ω | X ω = c} with hδdef
  set zc := (c - m) / s with hzc
  -- for every ε > 0 the atom sits inside (c - ε, c]
  have key : ∀ ε, 0 < ε → δ ≤ Φ zc - Φ ((c - ε - m) / s) := by
    intro ε hε
    have hsub : {ω | X ω = c} ⊆ {ω | c - ε < X ω ∧ X ω ≤ c} := by
      intro ω hω
      simp only [Set.mem_ofPred_eq] at hω ⊢
      rw [hω]; constructor <;> linarith
    have := measureReal_mono (μ := P) hsub
    rw [prob_Ioc hX hm (by linarith : c - ε ≤ c)] at this
    exact this
  have k1 := key s hs
  have e1 : (c - s - m) / s = zc - 1 := by rw [hzc]; field_simp; ring
  rw [e1] at k1
  have hp0 : 0 < Φ zc - δ / 2 := by linarith [h.pos (zc - 1)]
  have hp1 : Φ zc - δ / 2 < 1 := by linarith [h.lt_one zc]
  have hq := h.right_inv _ hp0 hp1
  set q := Q (Φ zc - δ / 2) with hqdef
  rcases lt_or_ge q zc with hlt | hge
  · have k2 := key (s * (zc - q)) (mul_pos hs (sub_pos.mpr hlt))
    have e2 : (c - s * (zc - q) - m) / s = q := by rw [hzc]; field_simp; ring
    rw [e2, hq] at k2
    linarith
  · have := h.strictMono.monotone hge
    rw [hq] at this
    linarith

/-- strict inequalities have the same probability -/
theorem prob_lt (h : IsStdNormalCdf Φ Q) [IsFiniteMeasure P] (hX : NormalMarginal P X Φ m s) (hm : Measurable X)
    (hs : 0 < s) (c : ℝ) : P.real {ω | X ω < c} = Φ ((c - m) / s) := by
  have hset : {ω | X ω < c} = {ω | X ω ≤ c} \ {ω | X ω = c} := by
    ext ω; simp only [Set.mem_ofPred_eq, Set.mem_sdiff]
    constructor
    · intro hh; exact ⟨le_of_lt hh, ne_of_lt hh⟩
    · rintro ⟨h1, h2⟩; exact lt_of_le_of_ne h1 h2
  have := measureReal_sdiff_null (μ := P) (s₁ := {ω | X ω ≤ c}) (no_atom h hX hm hs c)
  rw [hset, this, hX]

/-- the standardised variable has the standard normal marginal -/
theorem NormalMarginal.standardize (hX : NormalMarginal P X Φ m s) (hs : 0 < s) :
    NormalMarginal P (fun ω => (X ω - m) / s) Φ 0 1 := by
  intro z
  have hset : {ω | (X ω - m) / s ≤ z} = {ω | X ω ≤ m + s * z} := by
    ext ω; simp only [Set.mem_ofPred_eq]; rw [div_le_iff₀ hs]
    constructor <;> intro hh <;> linarith
  rw [hset, hX]
  congr 1; field_simp; ring

/-- `P(|Z| ≤ r) = 2Φ(r) − 1` for a standard normal marginal -/
theorem prob_abs_le (h : IsStdNormalCdf Φ Q) [IsFiniteMeasure P] {Z : Ω → ℝ} (hZ : NormalMarginal P Z Φ 0 1)
    (hm : Measurable Z) {r : ℝ} (hr : 0 ≤ r) : P.real {ω | |Z ω| ≤ r} = 2 * Φ r - 1 := by
  have hset : {ω | |Z ω| ≤ r} = {ω | Z ω ≤ r} \ {ω | Z ω < -r} := by
    ext ω; simp only [Set.mem_ofPred_eq, Set.mem_sdiff, not_lt, abs_le]; tauto
  have hsub : {ω | Z ω < -r} ⊆ {ω | Z ω ≤ r} := fun ω (hω : Z ω < -r) => by
    simp only [Set.mem_ofPred_eq]; linarith
  have := measureReal_sdiff (μ := P) hsub (measurableSet_lt hm measurable_const)
  rw [hset, this, hZ, prob_lt h hZ hm one_pos]
  simp only [sub_zero, div_one]
  rw [h.symm]; ring

/-- `P(|Z| < r) = 2Φ(r) − 1` -/
theorem prob_abs_lt (h : IsStdNormalCdf Φ Q) [IsFiniteMeasure P] {Z : Ω → ℝ} (hZ : NormalMarginal P Z Φ 0 1)
    (hm : Measurable Z) {r : ℝ} (hr : 0 < r) : P.real {ω | |Z ω| < r} = 2 * Φ r - 1 := by
  have hset : {ω | |Z ω| < r} = {ω | Z ω < r} \ {ω | Z ω ≤ -r} := by
    ext ω; simp only [Set.mem_ofPred_eq, Set.mem_sdiff, not_le, abs_lt]; tauto
  have hsub : {ω | Z ω ≤ -r} ⊆ {ω | Z ω < r} := by
    intro ω (hω : Z ω ≤ -r)
    simp only [Set.mem_ofPred_eq]; linarith
  have := measureReal_sdiff (μ := P) hsub (measurableSet_le_const hm (-r))
  rw [hset, this, hZ, prob_lt h hZ hm one_pos]
  simp only [sub_zero, div_one]
  rw [h.symm]; ring

/-! ### Zinn–Harvey -/

theorem zhCore_eq (z : ℝ) : zhCore Φ Q z = Q (2 * Φ |z| - 1) := by
  simp only [zhCore, fabs_real]; push_cast; rfl

/-- for `z ≠ 0`: `Φ⁻¹(2Φ(|z|) − 1) ≤ w ↔ |z| ≤ Φ⁻¹((1 + Φ w)/2)` -/
theorem zhCore_le_iff (h : IsStdNormalCdf Φ Q) {z : ℝ} (hz : z ≠ 0) (w : ℝ) :
    zhCore Φ Q z ≤ w ↔ |z| ≤ Q ((1 + Φ w) / 2) := by
  rw [zhCore_eq]
  have ha : 0 < |z| := abs_pos.mpr hz
  have h1 := h.half_lt_of_pos ha
  have h2 := h.lt_one |z|
  have hw0 := h.pos w
  have hw1 := h.lt_one w
  rw [h.Q_le_iff (by linarith) (by linarith), ← h.le_iff_le_Q (by linarith) (by linarith)]
  constructor <;> intro hh <;> linarith

/-- for `z ≠ 0`: `−Φ⁻¹(2Φ(|z|) − 1) ≤ w ↔ Φ⁻¹((1 + Φ(−w))/2) ≤ |z|` -/
theorem neg_zhCore_le_iff (h : IsStdNormalCdf Φ Q) {z : ℝ} (hz : z ≠ 0) (w : ℝ) :
    -zhCore Φ Q z ≤ w ↔ Q ((1 + Φ (-w)) / 2) ≤ |z| := by
  rw [zhCore_eq]
  have ha : 0 < |z| := abs_pos.mpr hz
  have h1 := h.half_lt_of_pos ha
  have h2 := h.lt_one |z|
  have hw0 := h.pos (-w)
  have hw1 := h.lt_one (-w)
  rw [neg_le, ← h.strictMono.le_iff_le, h.right_inv _ (by linarith) (by linarith),
    h.Q_le_iff (by linarith) (by linarith)]
  constructor <;> intro hh <;> linarith

/-- strictly larger `|z|` gives a strictly larger `Φ⁻¹(2Φ(|z|) − 1)`: the order of the absolute deviations is kept
    (`conn = "low"`) or reversed (`conn = "high"`, after the sign flip) -/
theorem zhCore_strictMono_abs (h : IsStdNormalCdf Φ Q) {z₁ z₂ : ℝ} (hz : z₁ ≠ 0) (h12 : |z₁| < |z₂|) :
    zhCore Φ Q z₁ < zhCore Φ Q z₂ := by
  rw [zhCore_eq, zhCore_eq]
  have ha : 0 < |z₁| := abs_pos.mpr hz
  have h1 := h.half_lt_of_pos ha
  have h2 := h.lt_one |z₂|
  have := h.strictMono h12
  exact h.Q_lt_Q (by linarith) (by linarith) (by linarith)

/-- `P(Φ⁻¹(2Φ(|Z|) − 1) ≤ w) = Φ(w)` for a standard normal marginal `Z` -/
theorem prob_zhCore_le (h : IsStdNormalCdf Φ Q) [IsProbabilityMeasure P] {Z : Ω → ℝ}
    (hZ : NormalMarginal P Z Φ 0 1) (hm : Measurable Z) (w : ℝ) :
    P.real {ω | zhCore Φ Q (Z ω) ≤ w} = Φ w := by
  have hw0 := h.pos w
  have hw1 := h.lt_one w
  set r := Q ((1 + Φ w) / 2) with hr
  have hΦr : Φ r = (1 + Φ w) / 2 := h.right_inv _ (by linarith) (by linarith)
  have hrpos : 0 < r := by
    rw [← h.strictMono.lt_iff_lt, hΦr, h.at_zero]; linarith
  have hN : P.real {ω | Z ω = 0} = 0 := no_atom h hZ hm one_pos 0
  have hA : P.real {ω | |Z ω| ≤ r} = Φ w := by
    rw [prob_abs_le h hZ hm (le_of_lt hrpos), hΦr]; ring
  have hup : {ω | zhCore Φ Q (Z ω) ≤ w} ⊆ {ω | |Z ω| ≤ r} := by
    intro ω hω
    simp only [Set.mem_ofPred_eq] at hω ⊢
    by_cases hz : Z ω = 0
    · rw [hz, abs_zero]; exact le_of_lt hrpos
    · exact (zhCore_le_iff h hz w).mp hω
  have hlo : {ω | |Z ω| ≤ r} \ {ω | Z ω = 0} ⊆ {ω | zhCore Φ Q (Z ω) ≤ w} := by
    rintro ω ⟨h1, h2⟩
    exact (zhCore_le_iff h h2 w).mpr h1
  have e1 := measureReal_sdiff_null (μ := P) (s₁ := {ω | |Z ω| ≤ r}) hN
  have l1 := measureReal_mono (μ := P) hlo
  have l2 := measureReal_mono (μ := P) hup
  rw [e1] at l1
  linarith

/-- `P(−Φ⁻¹(2Φ(|Z|) − 1) ≤ w) = Φ(w)` -/
theorem prob_neg_zhCore_le (h : IsStdNormalCdf Φ Q) [IsProbabilityMeasure P] {Z : Ω → ℝ}
    (hZ : NormalMarginal P Z Φ 0 1) (hm : Measurable Z) (w : ℝ) :
    P.real {ω | -zhCore Φ Q (Z ω) ≤ w} = Φ w := by
  have hw0 := h.pos (-w)
  have hw1 := h.lt_one (-w)
  set r := Q ((1 + Φ (-w)) / 2) with hr
  have hΦr : Φ r = (1 + Φ (-w)) / 2 := h.right_inv _ (by linarith) (by linarith)
  have hrpos : 0 < r := by
    rw [← h.strictMono.lt_iff_lt, hΦr, h.at_zero]; linarith
  have hN : P.real {ω | Z ω = 0} = 0 := no_atom h hZ hm one_pos 0
  have hmeas : MeasurableSet {ω | |Z ω| < r} :=
    measurableSet_lt (continuous_abs.measurable.comp hm) measurable_const
  have hB : P.real {ω | |Z ω| < r}ᶜ = Φ w := by
    rw [measureReal_compl hmeas, probReal_univ, prob_abs_lt h hZ hm hrpos, hΦr, h.symm]; ring
  have hlo : {ω | |Z ω| < r}ᶜ ⊆ {ω | -zhCore Φ Q (Z ω) ≤ w} := by
    intro ω hω
    simp only [Set.mem_compl_iff, Set.mem_ofPred_eq, not_lt] at hω ⊢
    have hz : Z ω ≠ 0 := by
      intro h0; rw [h0, abs_zero] at hω; linarith
    exact (neg_zhCore_le_iff h hz w).mpr hω
  have hup : {ω | -zhCore Φ Q (Z ω) ≤ w} ⊆ {ω | |Z ω| < r}ᶜ ∪ {ω | Z ω = 0} := by
    intro ω hω
    simp only [Set.mem_ofPred_eq, Set.mem_union, Set.mem_compl_iff, not_lt] at hω ⊢
    by_cases hz : Z ω = 0
    · right; exact hz
    · left; exact (neg_zhCore_le_iff h hz w).mp hω
  have l1 := measureReal_mono (μ := P) hlo
  have l2 := measureReal_mono (μ := P) hup
  have l3 := measureReal_union_le (μ := P) {ω | |Z ω| < r}ᶜ {ω | Z ω = 0}
  rw [hB] at l1
  rw [hB, hN] at l3
  linarith


/-! ### Box-Cox, threshold lists, unfolding lemmas, stored-field maps (helpers of `Props/C19`) -/

section
variable {Φ Q : ℝ → ℝ}

theorem lmbda_ne_zero {l : ℝ} (h : lmbdaIsZero l = false) : l ≠ 0 := by
  intro h0
  simp only [lmbdaIsZero, fabs_real, lit1em8, decide_eq_false_iff_not, not_le, h0, abs_zero] at h
  norm_num at h

theorem maxZero_of_nonneg {x : ℝ} (h : 0 ≤ x) : maxZero x = x := by
  simp only [maxZero, Nat.cast_zero]
  rw [if_neg (not_lt.mpr h)]

theorem sortVals_perm (vals : List ℝ) : (sortVals vals).Perm vals := List.mergeSort_perm _ _

theorem sortVals_sorted (vals : List ℝ) : (sortVals vals).Pairwise (· ≤ ·) := by
  have := List.pairwise_mergeSort (le := fun a b : ℝ => decide (a ≤ b))
    (fun a b c hab hbc => by simp only [decide_eq_true_eq] at *; exact le_trans hab hbc)
    (fun a b => by simp only [Bool.or_eq_true, decide_eq_true_eq]; exact le_total a b) vals
  exact this.imp (fun hab => by simpa using hab)

theorem midpoints_length (l : List ℝ) : (midpoints l).length = l.length - 1 := by
  induction l with
  | nil => rfl
  | cons a t ih =>
    match t with
    | [] => rfl
    | b :: t' => simp only [midpoints, List.length_cons, ih]; omega

theorem midpoints_getElem (l : List ℝ) (i : ℕ) (hi : i < (midpoints l).length) :
    (midpoints l)[i] = (l[i + 1]'(by rw [midpoints_length] at hi; omega) + l[i]'(by rw [midpoints_length] at hi; omega)) / 2 := by
  induction l generalizing i with
  | nil => simp [midpoints] at hi
  | cons a t ih =>
    match t with
    | [] => simp [midpoints] at hi
    | b :: t' =>
      cases i with
      | zero => simp [midpoints]
      | succ j =>
        simp only [midpoints, List.getElem_cons_succ]
        rw [ih j (by simpa [midpoints] using hi)]
        rfl

theorem midpoints_gt_head {b : ℝ} {t : List ℝ} (hs : (b :: t).Pairwise (· < ·)) : ∀ y ∈ midpoints (b :: t), b < y := by
  induction t generalizing b with
  | nil => intro y hy; simp [midpoints] at hy
  | cons c t' ih =>
    intro y hy
    have hbc : b < c := (List.pairwise_cons.mp hs).1 c (by simp)
    simp only [midpoints, List.mem_cons, Nat.cast_ofNat] at hy
    rcases hy with rfl | hy
    · linarith
    · exact lt_trans hbc (ih (List.pairwise_cons.mp hs).2 y hy)

theorem midpoints_ascending {l : List ℝ} (hs : l.Pairwise (· < ·)) : (midpoints l).Pairwise (· < ·) := by
  induction l with
  | nil => simp [midpoints]
  | cons a t ih =>
    match t with
    | [] => simp [midpoints]
    | b :: t' =>
      simp only [midpoints, Nat.cast_ofNat]
      have hab : a < b := (List.pairwise_cons.mp hs).1 b (by simp)
      refine List.pairwise_cons.mpr ⟨?_, ih (List.pairwise_cons.mp hs).2⟩
      intro y hy
      have := midpoints_gt_head (List.pairwise_cons.mp hs).2 y hy
      linarith

theorem toUniform_eq (m v low high x : ℝ) :
    toUniform Φ m v low high x = Φ ((x - m) / Real.sqrt v) * (high - low) + low := by
  simp [toUniform, standardize]

theorem toArcsin_eq (m v : ℝ) (a b : Option ℝ) (x : ℝ) :
    toArcsin Φ m v a b x = uniformToArcsin (a.getD (arcsinDefaultA m v)) (b.getD (arcsinDefaultB m v))
      (Φ ((x - m) / Real.sqrt v)) := by
  simp [toArcsin, toUniform, standardize, lit00, lit10]

theorem toUquad_eq (m v : ℝ) (a b : Option ℝ) (x : ℝ) :
    toUquad Φ m v a b x = uniformToUquad (a.getD (uquadDefaultA m v)) (b.getD (uquadDefaultB m v))
      (Φ ((x - m) / Real.sqrt v)) := by
  simp [toUquad, toUniform, standardize, lit00, lit10]

theorem equalThresholds_length (m v : ℝ) (n : ℕ) : (equalThresholds Q m v n).length = n - 1 := by
  simp [equalThresholds]

theorem equalThresholds_getElem (m v : ℝ) (n i : ℕ) (hi : i < (equalThresholds Q m v n).length) :
    (equalThresholds Q m v n)[i] = m + Real.sqrt v * Q (((i + 1 : ℕ) : ℝ) / (n : ℝ)) := by
  simp [equalThresholds]

theorem lookup_set_self (st : FState ℝ) (n : String) (d : List ℝ) : (st.set n d).lookup n = some d := by
  induction st with
  | nil => simp [FState.set, FState.lookup]
  | cons p t ih =>
    obtain ⟨k, v⟩ := p
    by_cases hk : (k == n) = true
    · simp [FState.set, FState.lookup, hk]
    · simp [FState.set, FState.lookup, hk, ih]

theorem lookup_set_other (st : FState ℝ) (n n' : String) (d : List ℝ) (hne : n' ≠ n) :
    (st.set n d).lookup n' = st.lookup n' := by
  have hnn : (n == n') = false := by simpa using (Ne.symm hne)
  induction st with
  | nil => simp [FState.set, FState.lookup, hnn]
  | cons p t ih =>
    obtain ⟨k, v⟩ := p
    by_cases hk : (k == n) = true
    · have hkn : k = n := by simpa using hk
      have : (k == n') = false := by rw [hkn]; exact hnn
      simp [FState.set, FState.lookup, hk, hnn, this]
    · by_cases hk' : (k == n') = true
      · simp [FState.set, FState.lookup, hk, hk']
      · simp [FState.set, FState.lookup, hk, hk', ih]

theorem commit_spec (reserved : List String) (st : FState ℝ) (store : Store) (field : String) (out : List ℝ) :
    let r := commit reserved st store field out
    (∀ e, r.2 = .error e → r.1 = st) ∧
    (∀ o, r.2 = .ok o → o = out ∧
      match store with
      | .no => r.1 = st
      | .yes => r.1.lookup field = some out ∧ ∀ n', n' ≠ field → r.1.lookup n' = st.lookup n'
      | .name n => r.1.lookup n = some out ∧ ∀ n', n' ≠ n → r.1.lookup n' = st.lookup n') := by
  have key : ∀ (b : Bool) (n : String),
      let r : FState ℝ × Except String (List ℝ) := if b = true then (st, .error "ValueError") else (st.set n out, .ok out)
      (∀ e, r.2 = .error e → r.1 = st) ∧
      (∀ o, r.2 = .ok o → o = out ∧ r.1.lookup n = some out ∧ ∀ n', n' ≠ n → r.1.lookup n' = st.lookup n') := by
    intro b n
    cases b
    · simp only [Bool.false_eq_true, ↓reduceIte, reduceCtorEq, false_implies, implies_true, Except.ok.injEq, true_and]
      intro o ho
      exact ⟨ho.symm, lookup_set_self _ _ _, fun n' hn' => lookup_set_other _ _ _ _ hn'⟩
    · simp
  cases store with
  | no => simp [commit, storeConfig]
  | yes => exact key _ field
  | name n => exact key _ n

end

/-! ### integrals for the target moments -/

open intervalIntegral in
theorem integral_cos_pi : ∫ u in (0:ℝ)..1, Real.cos (Real.pi * u) = 0 := by
  have h := mul_integral_comp_mul_left (a := 0) (b := 1) (f := Real.cos) (c := Real.pi)
  rw [integral_cos] at h
  simp only [mul_zero, mul_one, Real.sin_pi, Real.sin_zero, sub_zero] at h
  exact (mul_eq_zero.mp h).resolve_left Real.pi_ne_zero

open intervalIntegral in
theorem integral_cos_sq_pi : ∫ u in (0:ℝ)..1, Real.cos (Real.pi * u) ^ 2 = 1 / 2 := by
  have h := mul_integral_comp_mul_left (a := 0) (b := 1) (f := fun x => Real.cos x ^ 2) (c := Real.pi)
  rw [integral_cos_sq] at h
  simp only [mul_zero, mul_one, Real.sin_pi, Real.sin_zero, Real.cos_pi, Real.cos_zero, sub_zero] at h
  have hpi : Real.pi ≠ 0 := Real.pi_ne_zero
  have h2 : Real.pi * (∫ u in (0:ℝ)..1, Real.cos (Real.pi * u) ^ 2) = Real.pi * (1 / 2) := by
    rw [h]; ring
  exact mul_left_cancel₀ hpi h2

theorem uniformToArcsin_cos (a b u : ℝ) :
    uniformToArcsin a b u = (a + b) / 2 - (b - a) / 2 * Real.cos (Real.pi * u) := by
  rw [uniformToArcsin_eq, Real.sin_sq_eq_half_sub]
  have : 2 * (Real.pi / 2 * u) = Real.pi * u := by ring
  rw [this]; ring


open intervalIntegral in
theorem integral_sub_pow (a b : ℝ) (n : ℕ) :
    ∫ y in a..b, (y - (a + b) / 2) ^ n = (((b - a) / 2) ^ (n + 1) - (-((b - a) / 2)) ^ (n + 1)) / (n + 1) := by
  rw [intervalIntegral.integral_comp_sub_right (fun t => t ^ n) ((a + b) / 2), integral_pow]
  congr 2 <;> ring


/-! ### the true standard normal cdf (Mathlib's `gaussianReal 0 1`) -/

section Gauss
open ProbabilityTheory Set Filter Topology

/-- the standard normal law -/
noncomputable abbrev stdGauss : Measure ℝ := gaussianReal 0 1

/-- the true standard normal cdf `Φ(x) = N(0,1)((-∞, x])` -/
noncomputable def gaussΦ (x : ℝ) : ℝ := cdf stdGauss x

instance : NullSingletonClass stdGauss := nullSingletonClass_gaussianReal one_ne_zero

theorem gaussΦ_eq (x : ℝ) : gaussΦ x = stdGauss.real (Iic x) := cdf_eq_real _ x

theorem stdGauss_pos_of_volume_pos {s : Set ℝ} (hs : volume s ≠ 0) : 0 < stdGauss.real s := by
  have h1 : stdGauss s ≠ 0 := fun h => hs (gaussianReal_absolutelyContinuous' 0 one_ne_zero h)
  exact ENNReal.toReal_pos h1 (measure_ne_top _ _)

theorem gaussΦ_strictMono : StrictMono gaussΦ := by
  intro x y hxy
  have hsub : Iic x ⊆ Iic y := Iic_subset_Iic.mpr (le_of_lt hxy)
  have hd : Iic y \ Iic x = Ioc x y := by ext z; simp [and_comm]
  have h1 := measureReal_sdiff (μ := stdGauss) hsub measurableSet_Iic
  rw [hd] at h1
  have h2 : 0 < stdGauss.real (Ioc x y) :=
    stdGauss_pos_of_volume_pos (by rw [Real.volume_Ioc]; simp [hxy])
  rw [gaussΦ_eq, gaussΦ_eq]; linarith

theorem gaussΦ_pos (x : ℝ) : 0 < gaussΦ x := by
  rw [gaussΦ_eq]; exact stdGauss_pos_of_volume_pos (by simp)

theorem gaussΦ_lt_one (x : ℝ) : gaussΦ x < 1 := by
  have h1 := measureReal_compl (μ := stdGauss) (measurableSet_Iic (a := x))
  rw [probReal_univ] at h1
  have h2 : 0 < stdGauss.real (Iic x)ᶜ := stdGauss_pos_of_volume_pos (by rw [compl_Iic]; simp)
  rw [gaussΦ_eq]; linarith

theorem gaussΦ_continuous : Continuous gaussΦ := by
  rw [continuous_iff_continuousAt]
  intro x
  have hmono : Monotone gaussΦ := gaussΦ_strictMono.monotone
  rw [hmono.continuousAt_iff_leftLim_eq_rightLim]
  have hs := StieltjesFunction.measure_singleton (cdf stdGauss) x
  rw [measure_cdf, measure_singleton] at hs
  have hr : Function.rightLim gaussΦ x = gaussΦ x := (cdf stdGauss).rightLim_eq x
  have hle : Function.leftLim gaussΦ x ≤ gaussΦ x := hmono.leftLim_le (le_refl x)
  have : gaussΦ x - Function.leftLim gaussΦ x ≤ 0 := by
    have := hs.symm
    rw [ENNReal.ofReal_eq_zero] at this
    exact this
  rw [hr]; linarith

theorem gaussΦ_surj {p : ℝ} (hp0 : 0 < p) (hp1 : p < 1) : ∃ x, gaussΦ x = p := by
  have h1 : ∃ a, gaussΦ a ≤ p := by
    have := (tendsto_cdf_atBot stdGauss).eventually (gt_mem_nhds hp0)
    obtain ⟨a, ha⟩ := this.exists
    exact ⟨a, le_of_lt ha⟩
  have h2 : ∃ b, p ≤ gaussΦ b := by
    have := (tendsto_cdf_atTop stdGauss).eventually (lt_mem_nhds hp1)
    obtain ⟨b, hb⟩ := this.exists
    exact ⟨b, le_of_lt hb⟩
  exact mem_range_of_exists_le_of_exists_ge gaussΦ_continuous h1 h2

open Classical in
/-- the standard normal quantile function -/
noncomputable def gaussQ (p : ℝ) : ℝ := if h : ∃ x, gaussΦ x = p then h.choose else 0

theorem gaussΦ_symm (x : ℝ) : gaussΦ (-x) = 1 - gaussΦ x := by
  have hmap : stdGauss.map (fun x => -x) = stdGauss := by
    have := gaussianReal_map_neg (μ := 0) (v := 1)
    simpa using this
  have h1 : stdGauss (Iic (-x)) = stdGauss (Ici x) := by
    conv_lhs => rw [← hmap]
    rw [Measure.map_apply (by fun_prop) measurableSet_Iic]
    congr 1; ext z; simp
  have h2 : stdGauss.real (Ici x) = stdGauss.real (Ioi x) := by
    have : Ici x = Ioi x ∪ {x} := by ext z; simp [le_iff_lt_or_eq]
    rw [this]
    exact measureReal_congr (union_ae_eq_left_of_ae_eq_empty (by simp [ae_eq_empty]))
  have h3 := measureReal_compl (μ := stdGauss) (measurableSet_Iic (a := x))
  rw [probReal_univ, compl_Iic] at h3
  rw [gaussΦ_eq, gaussΦ_eq, measureReal_def, h1, ← measureReal_def, h2, h3]

/-- `N(m, v)` is the image of `N(0,1)` under `z ↦ m + √v·z` -/
theorem gaussianReal_eq_map_std (m : ℝ) (v : NNReal) :
    gaussianReal m v = (stdGauss.map (fun z => Real.sqrt v * z)).map (fun z => z + m) := by
  rw [gaussianReal_map_const_mul, gaussianReal_map_add_const]
  congr 1
  · simp
  · apply NNReal.eq; simp


end Gauss

end GSV.Lemmas.Transform
