/-
  Helper lemmas for C19 (field transformations): finite-sample moments as `List.sum`, the masked-write
  loop of `array_discrete`, threshold lists.  All at `ℝ`.
-/
import GSV.RealInst
import GSV.Model.Transform
import Mathlib.Algebra.BigOperators.Group.List.Basic
import Mathlib.Algebra.Order.BigOperators.Group.List
import Mathlib.Data.List.Sort
import Mathlib.Tactic.NormNum.OfScientific
import Mathlib.Tactic.Ring
import Mathlib.Tactic.FieldSimp
import Mathlib.Tactic.Linarith
namespace GSV.Lemmas.Transform
open GSV GSV.Transc GSV.Model.Transform

/-! ### the decimal literals of the model at `ℝ` -/

theorem lit20 : @OfScientific.ofScientific ℝ instArithReal.toOfScientific 20 true 1 = 2 := by norm_num
theorem lit50 : @OfScientific.ofScientific ℝ instArithReal.toOfScientific 50 true 1 = 5 := by norm_num
theorem lit30 : @OfScientific.ofScientific ℝ instArithReal.toOfScientific 30 true 1 = 3 := by norm_num
theorem lit05 : @OfScientific.ofScientific ℝ instArithReal.toOfScientific 5 true 1 = 1 / 2 := by norm_num
theorem lit00 : @OfScientific.ofScientific ℝ instArithReal.toOfScientific 0 true 1 = 0 := by norm_num
theorem lit10 : @OfScientific.ofScientific ℝ instArithReal.toOfScientific 10 true 1 = 1 := by norm_num
theorem lit1em8 : @OfScientific.ofScientific ℝ instArithReal.toOfScientific 1 true 8 = 1 / 100000000 := by norm_num

/-! ### sample moments -/


theorem foldl_add_eq (l : List ℝ) (a : ℝ) : l.foldl (fun a x => a + x) a = a + l.sum := by
  induction l generalizing a with
  | nil => simp
  | cons x l ih => simp [ih, add_assoc]

theorem lsum_eq (l : List ℝ) : lsum l = l.sum := by
  unfold lsum; rw [foldl_add_eq]; simp

theorem lmean_eq (l : List ℝ) : lmean l = l.sum / (l.length : ℝ) := by
  unfold lmean; rw [lsum_eq]

theorem sum_map_affine (l : List ℝ) (f : ℝ → ℝ) (c d : ℝ) :
    (l.map fun x => c * f x + d).sum = c * (l.map f).sum + l.length * d := by
  induction l with
  | nil => simp
  | cons x l ih => simp [ih]; ring

theorem length_ne_zero {l : List ℝ} (hl : l ≠ []) : (l.length : ℝ) ≠ 0 := by
  have : l.length ≠ 0 := by simpa [List.length_eq_zero_iff] using hl
  exact_mod_cast this

theorem lmean_map_affine (l : List ℝ) (hl : l ≠ []) (f : ℝ → ℝ) (c d : ℝ) :
    lmean (l.map fun x => c * f x + d) = c * lmean (l.map f) + d := by
  have hn := length_ne_zero hl
  rw [lmean_eq, lmean_eq, sum_map_affine, List.length_map, List.length_map]
  field_simp

theorem lmean_forceMoments (l : List ℝ) (hl : l ≠ []) (m v : ℝ) :
    lmean (forceMoments m v l) = m := by
  unfold forceMoments
  have h := lmean_map_affine l hl (fun x => x - lmean l) (sqrt (v / lvar l)) m
  simp only at h ⊢
  rw [h]
  have h2 := lmean_map_affine l hl (fun x => x) 1 (-(lmean l))
  have h3 : (l.map fun x => x - lmean l) = l.map fun x => 1 * x + -(lmean l) := by
    apply List.map_congr_left; intro x _; ring
  rw [h3, h2]; simp

theorem lvar_forceMoments (l : List ℝ) (hl : l ≠ []) (m v : ℝ) (hv : 0 ≤ v) (hvar : lvar l ≠ 0) :
    lvar (forceMoments m v l) = v := by
  have hm := lmean_forceMoments l hl m v
  unfold lvar
  rw [hm]
  unfold forceMoments
  simp only [List.map_map]
  have hpos : 0 ≤ lvar l := by
    unfold lvar; rw [lmean_eq]
    apply div_nonneg _ (Nat.cast_nonneg _)
    apply List.sum_nonneg
    intro x hx
    simp only [List.mem_map] at hx
    obtain ⟨y, _, rfl⟩ := hx
    exact mul_self_nonneg _
  have hc : sqrt (v / lvar l) * sqrt (v / lvar l) = v / lvar l := by
    simp only [sqrt_real]
    exact Real.mul_self_sqrt (div_nonneg hv hpos)
  have h3 : (l.map ((fun x => (x - m) * (x - m)) ∘ fun x => sqrt (v / lvar l) * (x - lmean l) + m))
      = l.map fun x => (v / lvar l) * ((x - lmean l) * (x - lmean l)) + 0 := by
    apply List.map_congr_left; intro x _
    simp only [Function.comp]
    generalize sqrt (v / lvar l) = c at hc
    rw [← hc]; ring
  rw [h3, lmean_map_affine l hl (fun x => (x - lmean l) * (x - lmean l))]
  have : lmean (l.map fun x => (x - lmean l) * (x - lmean l)) = lvar l := rfl
  rw [this]; field_simp; simp


/-! ### the masked writes of `array_discrete` -/


theorem classifyMid_all_ge (mid thr : List ℝ) (x : ℝ) (acc : Option ℝ) (h : ∀ t ∈ thr, x ≤ t) :
    classifyMid mid thr x acc = acc := by
  induction mid generalizing thr acc with
  | nil => simp [classifyMid]
  | cons v vs ih =>
    match thr with
    | [] => simp [classifyMid]
    | [_] => simp [classifyMid]
    | t0 :: t1 :: ts =>
      simp only [classifyMid]
      have h0 : ¬ (t0 < x) := not_lt.mpr (h t0 (by simp))
      rw [ih (t1 :: ts) _ (fun t ht => h t (by simp at ht ⊢; tauto))]
      simp [h0]

theorem classifyMid_all_lt (mid thr : List ℝ) (x : ℝ) (acc : Option ℝ) (h : ∀ t ∈ thr, t < x) :
    classifyMid mid thr x acc = acc := by
  induction mid generalizing thr acc with
  | nil => simp [classifyMid]
  | cons v vs ih =>
    match thr with
    | [] => simp [classifyMid]
    | [_] => simp [classifyMid]
    | t0 :: t1 :: ts =>
      simp only [classifyMid]
      have h1 : ¬ (x ≤ t1) := not_le.mpr (h t1 (by simp))
      rw [ih (t1 :: ts) _ (fun t ht => h t (by simp at ht ⊢; tauto))]
      simp [h1]

theorem classifyMid_hit (mid thr : List ℝ) (x : ℝ) (acc : Option ℝ) (i : ℕ)
    (hi : i + 1 < thr.length) (hm : i < mid.length) (hs : thr.Pairwise (· < ·))
    (h1 : thr[i] < x) (h2 : x ≤ thr[i + 1]) : classifyMid mid thr x acc = some mid[i] := by
  induction i generalizing mid thr acc with
  | zero =>
    match mid, thr, hm, hi with
    | v :: vs, t0 :: t1 :: ts, _, _ =>
      simp only [classifyMid]
      simp only [List.getElem_cons_zero, List.getElem_cons_succ, zero_add] at h1 h2 ⊢
      rw [classifyMid_all_ge]
      · simp [h1, h2]
      · intro t ht
        rcases List.mem_cons.mp ht with rfl | ht
        · exact h2
        · have := (List.pairwise_cons.mp (List.pairwise_cons.mp hs).2).1 t ht
          linarith
  | succ i ih =>
    match mid, thr, hm, hi with
    | v :: vs, t0 :: t1 :: ts, hm, hi =>
      simp only [classifyMid]
      simp only [List.getElem_cons_succ] at h1 h2 ⊢
      exact ih vs (t1 :: ts) _ (by simpa using hi) (by simpa using hm) (List.pairwise_cons.mp hs).2 h1 h2

theorem classifyMid_mem (mid thr : List ℝ) (x : ℝ) (acc : Option ℝ) :
    classifyMid mid thr x acc = acc ∨ ∃ v ∈ mid, classifyMid mid thr x acc = some v := by
  induction mid generalizing thr acc with
  | nil => left; simp [classifyMid]
  | cons v vs ih =>
    match thr with
    | [] => left; simp [classifyMid]
    | [_] => left; simp [classifyMid]
    | t0 :: t1 :: ts =>
      simp only [classifyMid]
      rcases ih (t1 :: ts) (if t0 < x ∧ x ≤ t1 then some v else acc) with h | ⟨w, hw, h⟩
      · by_cases hc : t0 < x ∧ x ≤ t1
        · right; exact ⟨v, by simp, by rw [h]; simp [hc]⟩
        · left; rw [h]; simp [hc]
      · right; exact ⟨w, by simp [hw], h⟩

/-- between the first and the last threshold some adjacent pair brackets `x` -/
theorem exists_bracket (thr : List ℝ) (x : ℝ) (hne : thr ≠ [])
    (h0 : thr.head hne < x) (h1 : x ≤ thr.getLast hne) :
    ∃ i, ∃ (hi : i + 1 < thr.length), thr[i] < x ∧ x ≤ thr[i + 1] := by
  induction thr with
  | nil => exact absurd rfl hne
  | cons t ts ih =>
    match ts with
    | [] => simp at h0 h1; linarith
    | t1 :: ts' =>
      by_cases hx : x ≤ t1
      · exact ⟨0, by simp, by simpa using h0, by simpa using hx⟩
      · have := ih (by simp) (by simpa using lt_of_not_ge hx) (by simpa using h1)
        obtain ⟨i, hi, ha, hb⟩ := this
        exact ⟨i + 1, by simpa using hi, by simpa using ha, by simpa using hb⟩


/-! ### threshold lists -/

theorem ascending_iff_pairwise (thr : List ℝ) : ascending thr = true ↔ thr.Pairwise (· < ·) := by
  induction thr with
  | nil => simp [ascending]
  | cons a t ih =>
    match t with
    | [] => simp [ascending]
    | b :: t' =>
      simp only [ascending, Bool.and_eq_true, decide_eq_true_eq, ih]
      constructor
      · rintro ⟨hab, hp⟩
        refine List.pairwise_cons.mpr ⟨?_, hp⟩
        intro y hy
        rcases List.mem_cons.mp hy with rfl | hy
        · exact hab
        · exact lt_trans hab ((List.pairwise_cons.mp hp).1 y hy)
      · intro h
        exact ⟨(List.pairwise_cons.mp h).1 b (by simp), (List.pairwise_cons.mp h).2⟩

theorem classify_spec (vals thr : List ℝ) (hlen : vals.length = thr.length + 1) (hpos : 0 < thr.length)
    (hasc : thr.Pairwise (· < ·)) (x : ℝ) :
    ∃ y, classify (vals[0]'(by omega)) (vals[thr.length]'(by omega)) vals.tail.dropLast
          (thr[0]'hpos) (thr[thr.length - 1]'(by omega)) thr x = some y ∧ y ∈ vals ∧
      (x ≤ thr[0]'hpos → y = vals[0]'(by omega)) ∧
      (∀ i (hi : i + 1 < thr.length), thr[i] < x → x ≤ thr[i + 1] → y = vals[i + 1]'(by omega)) ∧
      (thr[thr.length - 1]'(by omega) < x → y = vals[thr.length]'(by omega)) := by
  have hidx := List.pairwise_iff_getElem.mp hasc
  have hmono : ∀ i j (hi : i < thr.length) (hj : j < thr.length), i ≤ j → thr[i] ≤ thr[j] := by
    intro i j hi hj hij
    rcases Nat.lt_or_eq_of_le hij with h | h
    · exact le_of_lt (hidx i j hi hj h)
    · subst h; exact le_refl _
  have hmid : ∀ i (hi : i + 1 < thr.length), (vals.tail.dropLast)[i]'(by simp; omega) = vals[i + 1]'(by omega) := by
    intro i hi; simp
  unfold classify
  by_cases h0 : x ≤ thr[0]'hpos
  · have hl : ¬ (thr[thr.length - 1]'(by omega) < x) := by
      have := hmono 0 (thr.length - 1) hpos (by omega) (by omega); linarith
    refine ⟨vals[0]'(by omega), ?_, List.getElem_mem _, fun _ => rfl, ?_, fun h => absurd h hl⟩
    · rw [classifyMid_all_ge]
      · simp [h0, hl]
      · intro t ht
        obtain ⟨i, hi, rfl⟩ := List.getElem_of_mem ht
        have := hmono 0 i hpos hi (by omega); linarith
    · intro i hi h1 _
      have := hmono 0 i hpos (by omega) (by omega); linarith
  · by_cases hl : thr[thr.length - 1]'(by omega) < x
    · refine ⟨vals[thr.length]'(by omega), ?_, List.getElem_mem _, fun h => absurd h h0, ?_, fun _ => rfl⟩
      · rw [classifyMid_all_lt]
        · simp [h0, hl]
        · intro t ht
          obtain ⟨i, hi, rfl⟩ := List.getElem_of_mem ht
          have := hmono i (thr.length - 1) hi (by omega) (by omega); linarith
      · intro i hi _ h2
        have := hmono (i + 1) (thr.length - 1) hi (by omega) (by omega); linarith
    · have hne : thr ≠ [] := by intro h; simp [h] at hpos
      obtain ⟨i, hi, ha, hb⟩ := exists_bracket thr x hne
        (by rw [List.head_eq_getElem]; exact lt_of_not_ge h0)
        (by rw [List.getLast_eq_getElem]; exact le_of_not_gt hl)
      have hit : ∀ i (hi : i + 1 < thr.length), thr[i] < x → x ≤ thr[i + 1] → ∀ acc,
          classifyMid vals.tail.dropLast thr x acc = some (vals[i + 1]'(by omega)) := by
        intro i hi ha hb acc
        rw [classifyMid_hit _ thr x acc i hi (by simp; omega) hasc ha hb, hmid i hi]
      refine ⟨vals[i + 1]'(by omega), hit i hi ha hb _, List.getElem_mem _, fun h => absurd h h0, ?_, fun h => absurd h hl⟩
      intro i' hi' ha' hb'
      have e1 := hit i hi ha hb none
      have e2 := hit i' hi' ha' hb' none
      rw [e1] at e2
      exact Option.some.inj e2


end GSV.Lemmas.Transform
