/-
  Line protocol helpers for the correspondence driver (core Lean only).
  One JSON object per input line, one JSON value per output line.
  Doubles travel as their IEEE-754 bit patterns (JSON integers), rationals as [num, den].
-/
import Lean.Data.Json
import GSV.Scalar
import GSV.Ctl
open Lean

namespace GSV.Proto

def getNat (j : Json) (k : String) : Except String Nat := do
  let v ← j.getObjVal? k
  v.getNat?

def getStr (j : Json) (k : String) : Except String String := do
  let v ← j.getObjVal? k
  v.getStr?

def getBool (j : Json) (k : String) : Except String Bool := do
  let v ← j.getObjVal? k
  v.getBool?

def jsonToFloat (v : Json) : Except String Float := do
  let n ← v.getNat?
  return Float.ofBits n.toUInt64

def getFloat (j : Json) (k : String) : Except String Float := do
  let v ← j.getObjVal? k
  jsonToFloat v

def getFloats (j : Json) (k : String) : Except String (Array Float) := do
  let v ← j.getObjVal? k
  let a ← v.getArr?
  a.mapM jsonToFloat

def getNats (j : Json) (k : String) : Except String (Array Nat) := do
  let v ← j.getObjVal? k
  let a ← v.getArr?
  a.mapM (·.getNat?)

def getInts (j : Json) (k : String) : Except String (Array Int) := do
  let v ← j.getObjVal? k
  let a ← v.getArr?
  a.mapM (·.getInt?)

def jsonToRat (v : Json) : Except String Rat := do
  let a ← v.getArr?
  if a.size != 2 then throw "rat" else
  let p ← a[0]!.getInt?
  let q ← a[1]!.getNat?
  if q == 0 then throw "rat: zero denominator" else
  return mkRat p q

def getRat (j : Json) (k : String) : Except String Rat := do
  let v ← j.getObjVal? k
  jsonToRat v

def getRats (j : Json) (k : String) : Except String (Array Rat) := do
  let v ← j.getObjVal? k
  let a ← v.getArr?
  a.mapM jsonToRat

def fbits (x : Float) : Json := Json.num (JsonNumber.fromNat x.toBits.toNat)
def fl (xs : List Float) : Json := Json.arr (xs.map fbits).toArray
def fl2 (xs : List (List Float)) : Json := Json.arr (xs.map fl).toArray
def il (xs : List Int) : Json := Json.arr (xs.map fun (i : Int) => Json.num (JsonNumber.fromInt i)).toArray
def il2 (xs : List (List Int)) : Json := Json.arr (xs.map il).toArray
def rat (q : Rat) : Json := Json.arr #[Json.num (JsonNumber.fromInt q.num), Json.num (JsonNumber.fromNat q.den)]
def rl (xs : List Rat) : Json := Json.arr (xs.map rat).toArray
def rl2 (xs : List (List Rat)) : Json := Json.arr (xs.map rl).toArray

end GSV.Proto
