/-
  The real-number instance of the scalar interface.  Arithmetic is Mathlib's `Field ℝ` (the `Arith`
  bundle is filled by instance inference, so `ring`/`field_simp`/`linarith`/`norm_num` see the usual
  operations); the non-algebraic operations are Mathlib's.
-/
import GSV.Scalar
import Mathlib.Analysis.SpecialFunctions.Pow.Real
import Mathlib.Analysis.SpecialFunctions.Trigonometric.Inverse
import Mathlib.Analysis.SpecialFunctions.Complex.Arg
import Mathlib.Analysis.SpecialFunctions.Sqrt

namespace GSV
open Real

noncomputable instance instArithReal : Arith ℝ := {}

noncomputable instance instTranscReal : Transc ℝ where
  sqrt := Real.sqrt
  exp := Real.exp
  log := Real.log
  sin := Real.sin
  cos := Real.cos
  acos := Real.arccos
  atan2 := fun y x => Complex.arg ⟨x, y⟩
  rpow := fun x y => x ^ y
  npow := fun x n => x ^ n
  fabs := fun x => |x|
  pi := Real.pi
  isnan := fun _ => false

@[simp] theorem sqrt_real (x : ℝ) : Transc.sqrt x = Real.sqrt x := rfl
@[simp] theorem exp_real (x : ℝ) : Transc.exp x = Real.exp x := rfl
@[simp] theorem log_real (x : ℝ) : Transc.log x = Real.log x := rfl
@[simp] theorem sin_real (x : ℝ) : Transc.sin x = Real.sin x := rfl
@[simp] theorem cos_real (x : ℝ) : Transc.cos x = Real.cos x := rfl
@[simp] theorem acos_real (x : ℝ) : Transc.acos x = Real.arccos x := rfl
@[simp] theorem atan2_real (y x : ℝ) : Transc.atan2 y x = Complex.arg ⟨x, y⟩ := rfl
@[simp] theorem rpow_real (x y : ℝ) : Transc.rpow x y = x ^ y := rfl
@[simp] theorem npow_real (x : ℝ) (n : ℕ) : Transc.npow x n = x ^ n := rfl
@[simp] theorem fabs_real (x : ℝ) : Transc.fabs x = |x| := rfl
@[simp] theorem pi_real : (Transc.pi : ℝ) = Real.pi := rfl
@[simp] theorem isnan_real (x : ℝ) : Transc.isnan x = false := rfl

end GSV
