/-
  Meaning of the numpy vocabulary used by the definitions that `vlib/pyexpr2lean.py` generates
  (`GSV/Gen/NormFormulas.lean`, `GSV/Gen/CorFormulas.lean`, …) from the one-line formulas of GSTools.
  Hand-written, core Lean only.  Together with the translator this file *defines* what an element-wise
  numpy expression means (trusted base, like `GSV/Ctl.lean` for the Cython kernels):

  * every array argument stands for ONE element (all supported operations are element-wise; a boolean-mask
    assignment `res[m] = f(x[m])` is the element-wise `if m then f x else res`);
  * NaN handling of `np.minimum / np.maximum / np.sign` is not modelled (non-NaN data);
  * `np.log1p`, `np.expm1` are their mathematical definitions (not the accuracy-preserving algorithms).
-/
import GSV.Scalar

namespace GSV.PyExpr
open GSV GSV.Transc

variable {α : Type} [Arith α] [Transc α] [DecidableLT α] [DecidableLE α]

/-- `np.isclose(a, b)` with the default `rtol=1e-5, atol=1e-8`: `|a - b| <= atol + rtol * |b|` -/
def isclose (a b : α) : Bool := decide (fabs (a - b) ≤ (1e-8:α) + (1e-5:α) * fabs b)

/-- `np.sign` -/
def sign (x : α) : α :=
  if x > ((0:Nat):α) then ((1:Nat):α) else if x < ((0:Nat):α) then -((1:Nat):α) else ((0:Nat):α)

/-- `np.log1p` -/
def log1p (x : α) : α := log (((1:Nat):α) + x)

/-- `np.expm1` -/
def expm1 (x : α) : α := exp x - ((1:Nat):α)

/-- `np.minimum` -/
def minimum (a b : α) : α := if a < b then a else b

/-- `np.maximum` -/
def maximum (a b : α) : α := if a < b then b else a

/-- `np.arctan` -/
def arctan (x : α) : α := atan2 x ((1:Nat):α)

/-- `np.tan` -/
def tan (x : α) : α := sin x / cos x

/-- an end of a range tuple: a number or `∓np.inf` -/
inductive Ext (α : Type) where
  | negInf
  | fin (x : α)
  | posInf

/-- `scipy.special` functions: uninterpreted parameters of the generated definitions that call them -/
structure Sps (α : Type) where
  erf : α → α
  erfinv : α → α
  gamma : α → α
  loggamma : α → α
  beta : α → α → α
  kv : α → α → α
  jv : α → α → α
  hyp2f1 : α → α → α → α → α

end GSV.PyExpr
