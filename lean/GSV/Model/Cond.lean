/- Hand-written executable model (tie B): Cond — the kriging cache of CondSRF (field/cond_srf.py) and the
   refresh protocol of Krige.set_condition (krige/base.py).  Values are abstract identifiers (`Nat`);
   what matters is *under which settings* a stored kriging result was computed, *where* it is stored
   (`raw_krige` lives in the CondSRF object, `krige_var` in the Krige object, each under a field name) and
   *which kriging run* it stems from (stored arrays carry an object identity).  `XState` adds the names of all other
   stored fields (`field_names` of both objects) so that deletions / position changes can be checked to remove
   everything.  Core Lean only. -/
import GSV.Proto
open Lean GSV GSV.Proto
namespace GSV.Model.Cond

/-- what a raw kriging field / variance depends on -/
structure KrigeTok where
  matCond : Nat      -- conditions the kriging matrix was built from
  matModel : Nat     -- model the kriging matrix was built from
  rhsModel : Nat     -- model used for the right-hand sides / sill (the *current* model at call time)
  mean : Nat         -- mean / trend / normaliser used for the conditions at call time
  pos : Nat          -- target positions (incl. mesh type)
deriving DecidableEq, Repr, Inhabited

/-- a stored array: what it holds and which Python object it is (`is`-identity) -/
structure Stored where
  tok : KrigeTok
  obj : Nat
deriving DecidableEq, Repr, Inhabited

/-- stored fields of one object, by field name (`0` = the default name, other numbers = custom names) -/
abbrev FieldStore := Nat → Option Stored

def FieldStore.empty : FieldStore := fun _ => none
def FieldStore.set (m : FieldStore) (n : Nat) (v : Stored) : FieldStore := fun k => if k = n then some v else m k

structure State where
  pos : Option Nat          -- current positions; ONE tuple shared by the CondSRF and its Krige object (`CondSRF.pos` delegates)
  cond : Nat                -- current conditioning data
  model : Nat               -- current model value
  mean : Nat                -- current mean / trend / normaliser value
  matCond : Nat             -- conditions used by the stored kriging matrix
  matModel : Nat            -- model used by the stored kriging matrix
  raw : FieldStore               -- `raw_krige` fields stored in the CondSRF object
  var : FieldStore               -- `krige_var` fields stored in the Krige object
  ref : Option (Nat × Nat)  -- `_krige_ref`: identities of the (raw_krige, krige_var) arrays stored by the last kriging run of CondSRF
  nextObj : Nat             -- next unused object identity
deriving Inhabited

inductive Op where
  /-- `crf(pos, store=…, krige_store=…)`; `pos = none`: reuse stored positions; `rawName`/`store`: name and save flag of
      the third CondSRF slot (`raw_krige`), `varName`/`krigeStore`: of the second Krige slot (`krige_var`) -/
  | call (pos : Option Nat) (rawName : Nat) (store : Bool) (varName : Nat) (krigeStore : Bool)
  /-- a direct `crf.krige(pos, store=…)` on the underlying Krige object; `store = some n`: the variance is stored under name `n` -/
  | krigeCall (pos : Option Nat) (store : Option Nat)
  | setPos (pos : Nat)               -- `crf.set_pos`
  | krigeSetPos (pos : Nat)          -- `crf.krige.set_pos`
  | setCondition (cond : Option Nat) -- `krige.set_condition(...)`: new data or plain refresh
  | modelChange (m : Nat)            -- in-place change / re-assignment of the model
  | setMean (v : Nat)                -- mean / trend / normaliser re-assignment
  | deleteFields                     -- `crf.delete_fields()`
  | krigeDeleteFields                -- `crf.krige.delete_fields()`
deriving DecidableEq, Repr, Inhabited

/-- when `CondSRF.__call__` reuses stored kriging results:
    * `present`  — both fields merely present under the requested names (the unrepaired code),
    * `varRef`   — additionally the stored variance is the remembered variance object (insufficient with custom names),
    * `bothRef`  — both stored arrays are the remembered pair of one kriging run (the repaired code). -/
inductive Rule where
  | present | varRef | bothRef
deriving DecidableEq, Repr, Inhabited

def init (cond model mean : Nat) : State :=
  { pos := none, cond, model, mean, matCond := cond, matModel := model,
    raw := FieldStore.empty, var := FieldStore.empty, ref := none, nextObj := 0 }

/-- the kriging result a freshly built object (current conditions, model, mean) returns at `p` -/
def freshTok (s : State) (p : Nat) : KrigeTok :=
  { matCond := s.cond, matModel := s.model, rhsModel := s.model, mean := s.mean, pos := p }

/-- what `self.krige(pos)` computes now -/
def computeTok (s : State) (p : Nat) : KrigeTok :=
  { matCond := s.matCond, matModel := s.matModel, rhsModel := s.model, mean := s.mean, pos := p }

/-- diagnostic (driver): the kriging matrix was built from the current conditions and model, and the variances
    stored under the names `< k` are what a fresh object would compute -/
def syncedUpTo (k : Nat) (s : State) : Bool :=
  decide (s.matCond = s.cond) && decide (s.matModel = s.model) &&
  (List.range k).all fun n => match s.var n with
    | none => true
    | some v => decide (s.pos = some v.tok.pos) && decide (v.tok = freshTok s v.tok.pos)

/-- `CondSRF.set_pos`: a position tuple different from the stored one deletes all stored fields of the
    CondSRF object and of its Krige object (`_krige_ref` is left alone) -/
def setPos (s : State) (p : Nat) : State :=
  if s.pos = some p then s else { s with pos := some p, raw := FieldStore.empty, var := FieldStore.empty }

/-- `Field.set_pos` on the Krige object (also what `krige(pos)` does first): the SHARED positions change, only the
    Krige object's stored fields are deleted -/
def krigeSetPos (s : State) (p : Nat) : State :=
  if s.pos = some p then s else { s with pos := some p, var := FieldStore.empty }

/-- positions a call works on: the given ones, else the stored ones -/
def targetPos (s : State) (p? : Option Nat) : Option Nat :=
  match p? with
  | some p => some p
  | none => s.pos

/-- the reuse test of `CondSRF.__call__` under a rule: the stored pair that is reused, if any -/
def reusable (rule : Rule) (s : State) (rn vn : Nat) : Option (Stored × Stored) :=
  match s.raw rn, s.var vn with
  | some r, some v =>
    let ok : Bool := match rule with
      | .present => true
      | .varRef => match s.ref with
        | some (_, j) => decide (v.obj = j)
        | none => false
      | .bothRef => match s.ref with
        | some (i, j) => decide (r.obj = i) && decide (v.obj = j)
        | none => false
    if ok then some (r, v) else none
  | _, _ => none

/-- output of a CondSRF call: (raw-kriging token used, kriging-variance token used, were they reused) -/
abbrev CallOut := Option (KrigeTok × KrigeTok × Bool)

/-- a fresh kriging run of `CondSRF.__call__` at the (already set) positions `p`: the variance is stored in the Krige
    object iff `kst`, the raw field in the CondSRF object iff `st`, and the stored pair is remembered iff both -/
def freshRun (s : State) (p rn : Nat) (st : Bool) (vn : Nat) (kst : Bool) : State :=
  { s with var := if kst then s.var.set vn ⟨computeTok s p, s.nextObj + 1⟩ else s.var,
           raw := if st then s.raw.set rn ⟨computeTok s p, s.nextObj⟩ else s.raw,
           ref := if st && kst then some (s.nextObj, s.nextObj + 1) else none,
           nextObj := s.nextObj + 2 }

/-- a CondSRF call at positions `p`.  (`info["deleted"]` needs no separate flag: when `set_pos` deleted, both stores
    are empty and nothing is reusable.) -/
def callAt (rule : Rule) (s : State) (p rn : Nat) (st : Bool) (vn : Nat) (kst : Bool) : State × CallOut :=
  match reusable rule (setPos s p) rn vn with
  | some (r, v) => (setPos s p, some (r.tok, v.tok, true))
  | none => (freshRun (setPos s p) p rn st vn kst, some (computeTok (setPos s p) p, computeTok (setPos s p) p, false))

/-- a direct kriging call at positions `p` -/
def krigeCallAt (s : State) (p : Nat) (store : Option Nat) : State :=
  let s := krigeSetPos s p
  match store with
  | some vn => { s with var := s.var.set vn ⟨computeTok s p, s.nextObj⟩, nextObj := s.nextObj + 1 }
  | none => s

/-- one operation; output `none` = not a CondSRF call, or the call raises (no positions) -/
def stepWith (rule : Rule) (s : State) : Op → State × CallOut
  | .call p? rn st vn kst =>
    match targetPos s p? with
    | none => (s, none)
    | some p => callAt rule s p rn st vn kst
  | .krigeCall p? store =>
    match targetPos s p? with
    | none => (s, none)
    | some p => (krigeCallAt s p store, none)
  | .setPos p => (setPos s p, none)
  | .krigeSetPos p => (krigeSetPos s p, none)
  | .setCondition c? =>
    let c := c?.getD s.cond
    ({ s with cond := c, matCond := c, matModel := s.model, var := FieldStore.empty }, none)
  | .modelChange m => ({ s with model := m }, none)
  | .setMean v => ({ s with mean := v }, none)
  | .deleteFields => ({ s with raw := FieldStore.empty }, none)
  | .krigeDeleteFields => ({ s with var := FieldStore.empty }, none)

/-- the repaired code -/
def step (s : State) (op : Op) : State × CallOut := stepWith .bothRef s op

def runWith (rule : Rule) (s : State) : List Op → State × List CallOut
  | [] => (s, [])
  | op :: ops =>
    let (s', o) := stepWith rule s op
    let (s'', os) := runWith rule s' ops
    (s'', o :: os)

def run (s : State) (ops : List Op) : State × List CallOut := runWith .bothRef s ops

/-! ### the names of ALL stored fields (`field_names` of both objects)

  Besides `raw_krige` (CondSRF slot 2) and `krige_var` (Krige slot 1), whose contents feed later results and are tracked in
  `State`, a call stores the conditioned field (CondSRF slot 0, `field`), the unconditional field (CondSRF slot 1,
  `raw_field`) and the kriging field (Krige slot 0, `field`), each under a default or custom name.  Their contents are
  never read back, but `delete_fields()` / a position change must remove them together with the others. -/

abbrev NameSet := Nat → Bool
def NameSet.empty : NameSet := fun _ => false
def NameSet.add (m : NameSet) (n : Nat) : NameSet := fun k => if k = n then true else m k

structure Names where
  fld : NameSet      -- conditioned fields stored in the CondSRF object (slot 0)
  rawf : NameSet     -- unconditional fields stored in the CondSRF object (slot 1)
  kfld : NameSet     -- kriging fields stored in the Krige object (slot 0)
deriving Inhabited

def Names.empty : Names := { fld := NameSet.empty, rawf := NameSet.empty, kfld := NameSet.empty }

/-- names and save flags of the slots an `Op` does not mention: `f*` / `rf*` = CondSRF slots 0 / 1 (`store=` of a CondSRF
    call), `kf*` = Krige slot 0 (`krige_store=` of a CondSRF call, `store=` of a direct kriging call) -/
structure Aux where
  fName : Nat := 0
  fSave : Bool := true
  rfName : Nat := 0
  rfSave : Bool := true
  kfName : Nat := 0
  kfSave : Bool := true
deriving DecidableEq, Repr, Inhabited

/-- the cache state together with the names of all other stored fields -/
structure XState where
  core : State
  names : Names
deriving Inhabited

def xinit (cond model mean : Nat) : XState := { core := init cond model mean, names := Names.empty }

def saveName (m : NameSet) (save : Bool) (n : Nat) : NameSet := if save then m.add n else m

/-- bookkeeping of the other names under one operation (`s` = cache state BEFORE the operation) -/
def namesStep (s : State) (n : Names) (a : Aux) : Op → Names
  | .call p? _ _ _ _ =>
    match targetPos s p? with
    | none => n                                        -- the call raises before anything is stored
    | some p =>
      let n1 := if s.pos = some p then n else Names.empty   -- `CondSRF.set_pos`: new positions delete everything
      { fld := saveName n1.fld a.fSave a.fName, rawf := saveName n1.rawf a.rfSave a.rfName,
        kfld := saveName n1.kfld a.kfSave a.kfName }
  | .krigeCall p? _ =>
    match targetPos s p? with
    | none => n
    | some p =>
      let k1 := if s.pos = some p then n.kfld else NameSet.empty   -- `Field.set_pos` of the Krige object
      { n with kfld := saveName k1 a.kfSave a.kfName }
  | .setPos p => if s.pos = some p then n else Names.empty
  | .krigeSetPos p => if s.pos = some p then n else { n with kfld := NameSet.empty }
  | .setCondition _ => { n with kfld := NameSet.empty }
  | .modelChange _ => n
  | .setMean _ => n
  | .deleteFields => { n with fld := NameSet.empty, rawf := NameSet.empty }
  | .krigeDeleteFields => { n with kfld := NameSet.empty }

def xstepWith (rule : Rule) (x : XState) (op : Op) (a : Aux) : XState × CallOut :=
  ({ core := (stepWith rule x.core op).1, names := namesStep x.core x.names a op }, (stepWith rule x.core op).2)

def xstep (x : XState) (op : Op) (a : Aux) : XState × CallOut := xstepWith .bothRef x op a

def xrun (x : XState) : List (Op × Aux) → XState
  | [] => x
  | (op, a) :: ops => xrun (xstep x op a).1 ops

/-- is a field stored in slot `slot` of the CondSRF object under name `n` (`field_names` of the CondSRF object) -/
def crfStored (x : XState) (slot n : Nat) : Bool :=
  match slot with
  | 0 => x.names.fld n
  | 1 => x.names.rawf n
  | 2 => (x.core.raw n).isSome
  | _ => false

/-- is a field stored in slot `slot` of the Krige object under name `n` (`field_names` of the Krige object) -/
def krigeStored (x : XState) (slot n : Nat) : Bool :=
  match slot with
  | 0 => x.names.kfld n
  | 1 => (x.core.var n).isSome
  | _ => false

/-! ### the generator of the unconditional part

  `CondSRF.__call__` starts with `self.generator.update(self.model, seed)` (`RandMeth.update`, field/generator.py).  The
  generator keeps a PRIVATE deep copy of the model and the random modes drawn for it; `update` is the only place where that
  copy is synchronised with the (re-assigned or in-place changed) model of the kriging setup.  `seed` omitted / `np.nan`
  means "keep the present seed".  Values are identifiers as above. -/

/-- the `seed` argument of a CondSRF call: omitted / `np.nan` (keep the generator's seed) or a seed -/
inductive SeedReq where
  | keep
  | set (s : Nat)
deriving DecidableEq, Repr, Inhabited

structure GenState where
  seed : Nat         -- the generator's seed
  model : Nat        -- value of its private model copy (`sqrt(var / mode_no)`, nugget)
  modesSeed : Nat    -- seed the present modes (`_z_1`, `_z_2`, `_cov_sample`) were drawn with
  modesModel : Nat   -- model whose spectrum the present wave vectors were sampled from
deriving DecidableEq, Repr, Inhabited

/-- `RandMeth(model, seed=…)` -/
def genInit (seed model : Nat) : GenState := { seed, model, modesSeed := seed, modesModel := model }

/-- the seed in force after a call with request `req` -/
def seedInForce (g : GenState) : SeedReq → Nat
  | .keep => g.seed
  | .set s => s

/-- `RandMeth.update(model, seed)`: a model that differs from the private copy is copied and the modes are redrawn with
    the requested (else the present) seed; otherwise only a seed that differs from the present one redraws (`seed` setter) -/
def genUpdate (g : GenState) (m : Nat) (req : SeedReq) : GenState :=
  if g.model = m then
    match req with
    | .keep => g
    | .set s => if s = g.seed then g else { g with seed := s, modesSeed := s }
  else
    { seed := seedInForce g req, model := m, modesSeed := seedInForce g req, modesModel := m }

/-- when `CondSRF.__call__` synchronises its generator: at every call (the code), or only when a seed is passed
    (insufficient, see `Props/C07Gen.lean`) -/
inductive GenRule where
  | always | onSeedOnly
deriving DecidableEq, Repr, Inhabited

def genCall (rule : GenRule) (g : GenState) (m : Nat) (req : SeedReq) : GenState :=
  match rule, req with
  | .onSeedOnly, .keep => g
  | _, _ => genUpdate g m req

/-- what an unconditional field depends on -/
structure GenTok where
  seed : Nat         -- seed of the modes
  specModel : Nat    -- model the wave vectors were sampled for
  scaleModel : Nat   -- model whose variance scales the sum
  pos : Nat          -- target positions
deriving DecidableEq, Repr, Inhabited

/-- the unconditional field the generator produces at `p` -/
def genTok (g : GenState) (p : Nat) : GenTok :=
  { seed := g.modesSeed, specModel := g.modesModel, scaleModel := g.model, pos := p }

/-- the unconditional field of a freshly built object (model `m`, seed `sd`) at `p` — also that of an independent
    `SRF(m, seed=sd)` -/
def genFreshTok (sd m p : Nat) : GenTok := { seed := sd, specModel := m, scaleModel := m, pos := p }

/-- cache state + generator -/
structure GState where
  core : State
  gen : GenState
deriving Inhabited

def ginit (cond model mean seed : Nat) : GState := { core := init cond model mean, gen := genInit seed model }

/-- one operation with its seed request (only looked at by CondSRF calls).  The generator is updated BEFORE the positions
    are looked at: a call that raises for lack of positions has already taken over the model and the seed.  Output: the
    kriging tokens and the unconditional token of a call that returns. -/
def gstepWith (grule : GenRule) (rule : Rule) (s : GState) (op : Op) (req : SeedReq) : GState × CallOut × Option GenTok :=
  let g' : GenState := match op with
    | .call .. => genCall grule s.gen s.core.model req
    | _ => s.gen
  let r := stepWith rule s.core op
  ({ core := r.1, gen := g' }, r.2, match r.2 with
    | some _ => r.1.pos.map (genTok g')
    | none => none)

/-- the code: repaired reuse rule, generator synchronised at every call -/
def gstep (s : GState) (op : Op) (req : SeedReq) : GState × CallOut × Option GenTok := gstepWith .always .bothRef s op req

def grunWith (grule : GenRule) (rule : Rule) (s : GState) : List (Op × SeedReq) → GState
  | [] => s
  | (op, req) :: ops => grunWith grule rule (gstepWith grule rule s op req).1 ops

def grun (s : GState) (ops : List (Op × SeedReq)) : GState := grunWith .always .bothRef s ops

/-! ### the conditioning formula (`get_scaling` and the final sum) -/
section formula
open GSV.Transc
variable {α : Type} [Arith α] [Transc α] [DecidableLT α] [DecidableLE α]

def maxz (x : α) : α := if x < ((0:Nat):α) then ((0:Nat):α) else x   -- np.maximum(x, 0)

/-- `(var_scale, nug_scale)` of `CondSRF.get_scaling` -/
def scaling (kvar var nugget : α) : α × α :=
  if nugget > ((0:Nat):α) then
    let vs := maxz (kvar - nugget)
    (sqrt (vs / var), sqrt ((kvar - vs) / nugget))
  else (sqrt (kvar / var), ((0:Nat):α))

/-- conditioned value = kriging estimate + scaled unconditional field + scaled nugget noise -/
def condValue (krige kvar raw var nugget noise : α) : α :=
  krige + (scaling kvar var nugget).1 * raw + (scaling kvar var nugget).2 * noise

end formula

/-! ### driver -/

def condOptNat (j : Json) (k : String) : Option Nat :=
  match j.getObjVal? k with
  | .ok (Json.num n) => some n.mantissa.toNat
  | _ => none

def condOptBool (j : Json) (k : String) (dflt : Bool) : Bool :=
  match j.getObjVal? k with
  | .ok (Json.bool b) => b
  | _ => dflt

def parseOp (j : Json) : Except String Op := do
  let k ← getStr j "k"
  match k with
  | "call" =>
    let rn := (condOptNat j "rn").getD 0
    let vn := (condOptNat j "vn").getD 0
    return Op.call (condOptNat j "pos") rn (condOptBool j "store" true) vn (condOptBool j "kstore" true)
  | "krige_call" =>
    let st : Option Nat := if condOptBool j "store" true then some ((condOptNat j "vn").getD 0) else none
    return Op.krigeCall (condOptNat j "pos") st
  | "set_pos" => return .setPos (← getNat j "pos")
  | "krige_set_pos" => return .krigeSetPos (← getNat j "pos")
  | "set_condition" => return .setCondition (condOptNat j "cond")
  | "model" => return .modelChange (← getNat j "v")
  | "mean" => return .setMean (← getNat j "v")
  | "delete" => return .deleteFields
  | "krige_delete" => return .krigeDeleteFields
  | _ => throw s!"unknown cond op {k}"

def parseAux (j : Json) : Aux :=
  { fName := (condOptNat j "fn").getD 0, fSave := condOptBool j "fs" true,
    rfName := (condOptNat j "rfn").getD 0, rfSave := condOptBool j "rfs" true,
    kfName := (condOptNat j "kfn").getD 0, kfSave := condOptBool j "kfs" true }

/-- the stored fields `[slot, name]` with name ids `< 4` of the first `slots` slots -/
def storedJson (stored : Nat → Nat → Bool) (slots : Nat) : Json :=
  Json.arr (((List.range slots).flatMap fun sl => ((List.range 4).filter fun n => stored sl n).map fun n =>
    Json.arr #[Json.num (JsonNumber.fromNat sl), Json.num (JsonNumber.fromNat n)]).toArray)

def parseRule (j : Json) : Rule :=
  match j.getObjVal? "rule" with
  | .ok (Json.str "present") => .present
  | .ok (Json.str "var_ref") => .varRef
  | _ => .bothRef

/-- seed request of an operation: `"seed": n` = that seed, absent = keep -/
def parseSeed (j : Json) : SeedReq :=
  match condOptNat j "seed" with
  | some n => .set n
  | none => .keep

def parseGenRule (j : Json) : GenRule :=
  match j.getObjVal? "genrule" with
  | .ok (Json.str "on_seed_only") => .onSeedOnly
  | _ => .always

def genTokJson (t : GenTok) : Json :=
  Json.arr ((#[t.seed, t.specModel, t.scaleModel, t.pos] : Array Nat).map fun n => Json.num (JsonNumber.fromNat n))

def tokJson (t : KrigeTok) : Json :=
  Json.arr ((#[t.matCond, t.matModel, t.rhsModel, t.mean, t.pos] : Array Nat).map fun n => Json.num (JsonNumber.fromNat n))

def ops (op : String) (j : Json) : Option (Except String Json) :=
  match op with
  | "cond_history" => some (do
      let c ← getNat j "cond"; let m ← getNat j "model"; let mu ← getNat j "mean"
      let rule := parseRule j
      let grule := parseGenRule j
      let arr ← (← j.getObjVal? "ops").getArr?
      let opl ← arr.toList.mapM fun o => do return (← parseOp o, parseAux o, parseSeed o)
      -- replay step by step so that the fresh token of the state *at each call* is reported
      let mut x := xinit c m mu
      let mut g := genInit ((condOptNat j "seed").getD 0) m
      let mut out : Array Json := #[]
      let mut names : Array Json := #[]
      for (o, a, req) in opl do
        let s := x.core
        let (x', r) := xstepWith rule x o a
        let (gs', _, gt) := gstepWith grule rule { core := s, gen := g } o req
        let s' := x'.core
        match o, r with
        | .call .., some (tr, tv, reused) =>
          let p := s'.pos.getD 0
          let gtok := gt.getD (genTok gs'.gen p)
          let gfresh := genFreshTok (seedInForce g req) s'.model p
          out := out.push (Json.mkObj [("tok", tokJson tr), ("vtok", tokJson tv), ("fresh", tokJson (freshTok s' p)),
            ("reused", Json.bool reused),
            ("eq_fresh", Json.bool (decide (tr = freshTok s' p) && decide (tv = freshTok s' p))),
            ("same_run", Json.bool (decide (tr = tv))), ("synced_before", Json.bool (syncedUpTo 4 s)),
            ("gen", genTokJson gtok), ("gen_fresh", genTokJson gfresh), ("gen_eq_fresh", Json.bool (decide (gtok = gfresh))),
            ("seed", Json.num (JsonNumber.fromNat gs'.gen.seed))])
        | .call .., none => out := out.push (Json.str "ValueError")
        | _, _ => pure ()
        names := names.push (Json.mkObj [("crf", storedJson (crfStored x') 3), ("krige", storedJson (krigeStored x') 2)])
        x := x'
        g := gs'.gen
      return Json.mkObj [("calls", Json.arr out), ("names", Json.arr names), ("final_seed", Json.num (JsonNumber.fromNat g.seed))])
  | "cond_value" => some (do
      let kr ← getFloats j "krige"; let kv ← getFloats j "kvar"; let raw ← getFloats j "raw"; let nz ← getFloats j "noise"
      let var ← getFloat j "var"; let nug ← getFloat j "nugget"
      let out := (List.range kr.size).map fun i => condValue kr[i]! kv[i]! raw[i]! var nug nz[i]!
      return fl out)
  | _ => none

end GSV.Model.Cond
