/- Hand-written executable model (tie B): Cond — the kriging cache of CondSRF (field/cond_srf.py) and the
   refresh protocol of Krige.set_condition (krige/base.py).  Values are abstract identifiers (`Nat`);
   what matters is *under which settings* a stored kriging result was computed.  Core Lean only. -/
import GSV.Proto
open Lean GSV GSV.Proto
namespace GSV.Model.Cond

/-- what a raw kriging field / variance depends on -/
structure KrigeTok where
  matCond : Nat      -- conditions the kriging matrix was built from
  matModel : Nat     -- model the kriging matrix was built from
  rhsModel : Nat     -- model used for the right-hand sides / sill (the *current* model at call time)
  mean : Nat         -- mean / trend / normaliser used for the conditions at call time
  pos : Nat          -- target positions (incl. mesh type)
deriving DecidableEq, Repr, Inhabited

structure State where
  pos : Option Nat          -- current positions of the field object
  cond : Nat                -- current conditioning data
  model : Nat               -- current model value
  mean : Nat                -- current mean / trend / normaliser value
  matCond : Nat             -- conditions used by the stored kriging matrix
  matModel : Nat            -- model used by the stored kriging matrix
  cache : Option KrigeTok   -- stored `raw_krige` + `krige_var` (both present or both absent)
deriving DecidableEq, Repr, Inhabited

inductive Op where
  | call (pos : Option Nat)          -- `crf(pos)`; `none` = reuse stored positions
  | setPos (pos : Nat)
  | setCondition (cond : Option Nat) -- `krige.set_condition(...)`: new data or plain refresh
  | modelChange (m : Nat)            -- in-place change / re-assignment of the model
  | setMean (v : Nat)                -- mean / trend / normaliser re-assignment
  | deleteFields
deriving DecidableEq, Repr, Inhabited

def init (cond model mean : Nat) : State :=
  { pos := none, cond, model, mean, matCond := cond, matModel := model, cache := none }

/-- the kriging result a freshly built object (current conditions, model, mean) returns at `p` -/
def freshTok (s : State) (p : Nat) : KrigeTok :=
  { matCond := s.cond, matModel := s.model, rhsModel := s.model, mean := s.mean, pos := p }

/-- what `self.krige(pos)` computes now -/
def computeTok (s : State) (p : Nat) : KrigeTok :=
  { matCond := s.matCond, matModel := s.matModel, rhsModel := s.model, mean := s.mean, pos := p }

/-- the object is in sync with its settings: the kriging matrix was built from the current conditions and
    model, and a stored kriging result (if any) is the one a fresh object would compute -/
def synced (s : State) : Bool :=
  decide (s.matCond = s.cond) && decide (s.matModel = s.model) &&
  (match s.cache with | none => true | some t => decide (t = freshTok s t.pos))

/-- `set_pos`: a position tuple different from the stored one deletes all stored fields -/
def setPos (s : State) (p : Nat) : State :=
  if s.pos = some p then s else { s with pos := some p, cache := none }

/-- positions a call works on: the given ones, else the stored ones -/
def targetPos (s : State) (p? : Option Nat) : Option Nat :=
  match p? with
  | some p => some p
  | none => s.pos

/-- a call at positions `p`: (new state, (kriging token used, was it reused)) -/
def callAt (s : State) (p : Nat) : State × Option (KrigeTok × Bool) :=
  let s := setPos s p
  match s.cache with
  | some t => (s, some (t, true))
  | none =>
    let t := computeTok s p
    ({ s with cache := some t }, some (t, false))

/-- output of a call: `none` = raises (no positions), else (token used, was it reused) -/
def step (s : State) : Op → State × Option (KrigeTok × Bool)
  | .call p? =>
    match targetPos s p? with
    | none => (s, none)
    | some p => callAt s p
  | .setPos p => (setPos s p, none)
  | .setCondition c? =>
    let c := c?.getD s.cond
    ({ s with cond := c, matCond := c, matModel := s.model, cache := none }, none)
  | .modelChange m => ({ s with model := m }, none)
  | .setMean v => ({ s with mean := v }, none)
  | .deleteFields => ({ s with cache := none }, none)

def run (s : State) : List Op → State × List (Option (KrigeTok × Bool))
  | [] => (s, [])
  | op :: ops =>
    let (s', o) := step s op
    let (s'', os) := run s' ops
    (s'', o :: os)

/-! ### the conditioning formula (`get_scaling` and the final sum) -/
section formula
open GSV.Transc
variable {α : Type} [Arith α] [Transc α] [DecidableLT α] [DecidableLE α]

def maxz (x : α) : α := if x < ((0:Nat):α) then ((0:Nat):α) else x   -- np.maximum(x, 0)

/-- `(var_scale, nug_scale)` of `CondSRF.get_scaling` -/
def scaling (kvar var nugget : α) : α × α :=
  if nugget > ((0:Nat):α) then
    let vs := maxz (kvar - nugget)
    (sqrt (vs / var), sqrt ((kvar - vs) / nugget))
  else (sqrt (kvar / var), ((0:Nat):α))

/-- conditioned value = kriging estimate + scaled unconditional field + scaled nugget noise -/
def condValue (krige kvar raw var nugget noise : α) : α :=
  krige + (scaling kvar var nugget).1 * raw + (scaling kvar var nugget).2 * noise

end formula

/-! ### driver -/

def parseOp (j : Json) : Except String Op := do
  let k ← getStr j "k"
  match k with
  | "call" => match j.getObjVal? "pos" with
    | .ok (Json.num n) => return .call (some n.mantissa.toNat)
    | _ => return .call none
  | "set_pos" => return .setPos (← getNat j "pos")
  | "set_condition" => match j.getObjVal? "cond" with
    | .ok (Json.num n) => return .setCondition (some n.mantissa.toNat)
    | _ => return .setCondition none
  | "model" => return .modelChange (← getNat j "v")
  | "mean" => return .setMean (← getNat j "v")
  | "delete" => return .deleteFields
  | _ => throw s!"unknown cond op {k}"

def tokJson (t : KrigeTok) : Json :=
  Json.arr ((#[t.matCond, t.matModel, t.rhsModel, t.mean, t.pos] : Array Nat).map fun n => Json.num (JsonNumber.fromNat n))

def ops (op : String) (j : Json) : Option (Except String Json) :=
  match op with
  | "cond_history" => some (do
      let c ← getNat j "cond"; let m ← getNat j "model"; let mu ← getNat j "mean"
      let arr ← (← j.getObjVal? "ops").getArr?
      let opl ← arr.toList.mapM parseOp
      -- replay step by step so that the fresh token of the state *at each call* is reported
      let mut s := init c m mu
      let mut out : Array Json := #[]
      for o in opl do
        let (s', r) := step s o
        match o, r with
        | .call _, some (t, reused) =>
          let p := s'.pos.getD 0
          out := out.push (Json.mkObj [("tok", tokJson t), ("fresh", tokJson (freshTok s' p)),
            ("reused", Json.bool reused), ("eq_fresh", Json.bool (decide (t = freshTok s' p))), ("synced_before", Json.bool (synced s))])
        | .call _, none => out := out.push (Json.str "ValueError")
        | _, _ => pure ()
        s := s'
      return Json.arr out)
  | "cond_value" => some (do
      let kr ← getFloats j "krige"; let kv ← getFloats j "kvar"; let raw ← getFloats j "raw"; let nz ← getFloats j "noise"
      let var ← getFloat j "var"; let nug ← getFloat j "nugget"
      let out := (List.range kr.size).map fun i => condValue kr[i]! kv[i]! raw[i]! var nug nz[i]!
      return fl out)
  | _ => none

end GSV.Model.Cond
