/- Dispatch table of the hand-written models (tie B).  Core Lean only. -/
import GSV.Proto
open Lean GSV GSV.Proto
namespace GSV.Model

def modelOp (op : String) (j : Json) : Option (Except String Json) :=
  none

end GSV.Model
