/- Dispatch table of the hand-written models (tie B).  Core Lean only.
   Every model file exports `ops : String → Json → Option (Except String Json)` (none = not my op). -/
import GSV.Proto
import GSV.Model.Geo
import GSV.Model.Norm
import GSV.Model.CovState
import GSV.Model.Transform
import GSV.Model.Krige
import GSV.Model.Gen
import GSV.Model.Cond
import GSV.Model.Fit
import GSV.Model.Heap
import GSV.Model.Vario
import GSV.Model.CovFn
import GSV.Model.LatLon
import GSV.Model.Fourier
import GSV.Model.Validity
import GSV.Model.Spectral
import GSV.Model.Grid
import GSV.Model.Pipe
open Lean GSV GSV.Proto
namespace GSV.Model

def modelOps : List (String → Json → Option (Except String Json)) := [
  Geo.ops, Norm.ops, CovState.ops, Transform.ops, Krige.ops, Gen.ops, Cond.ops, Fit.ops, Heap.ops, Vario.ops, CovFn.ops, LatLon.ops, Fourier.ops, Validity.ops, Spectral.ops, Grid.ops, Pipe.ops
]

def modelOp (op : String) (j : Json) : Option (Except String Json) :=
  modelOps.findSome? fun f => f op j

end GSV.Model
