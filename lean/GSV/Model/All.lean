/- Dispatch table of the hand-written models (tie B).  Core Lean only.
   Every model file exports `ops : String → Json → Option (Except String Json)` (none = not my op). -/
import GSV.Proto
open Lean GSV GSV.Proto
namespace GSV.Model

def modelOps : List (String → Json → Option (Except String Json)) := [
]

def modelOp (op : String) (j : Json) : Option (Except String Json) :=
  modelOps.findSome? fun f => f op j

end GSV.Model
