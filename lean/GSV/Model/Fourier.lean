/- Hand-written executable model (tie B): Fourier.  Core Lean only — no Mathlib import in this file.

   Models `gstools.field.generator.Fourier` (update / _set_modes / _fill_to_dim / reset_seed / __call__),
   `np.arange` as numpy implements it for doubles, `generate_grid` (meshgrid 'ij', C order) and the part of
   `CovModel.isometrize` that `SRF.__call__` applies before it calls the generator.
   The same text runs on `Float` in the driver and is reasoned about on `ℝ` in `GSV/Props/C17.lean`. -/
import GSV.Proto
import GSV.Gen.Summator
open Lean GSV GSV.Proto GSV.Transc
namespace GSV.Model.Fourier

section defs
variable {α : Type} [Arith α] [Transc α] [DecidableLT α] [DecidableLE α]

/-! ### the mode grid (`Fourier.update`, `Fourier._set_modes`) -/

/-- `np.insert(model.anis.copy(), 0, 1.0)[d]` -/
def anisP (anis : Nat → α) (d : Nat) : α := if d = 0 then ((1:Nat):α) else anis (d - 1)

/-- `self._delta_k[d] = 2.0 * np.pi / self._period[d] * anis[d]` -/
def deltaK (period anis : Nat → α) (d : Nat) : α :=
  ((2:Nat):α) * Transc.pi / period d * anisP anis d

/-- number of modes `_set_modes` produces on axis `d` when asked for `m`:
    `len(np.arange(-(int(m) // 2), int(m) // 2))` -/
def modeLen (m : Nat) : Nat := 2 * (m / 2)

/-- the `n`-th 1-D mode on an axis with requested count `m` and spacing `dk`:
    `(np.arange(-(int(m) // 2), int(m) // 2) * self._delta_k[d])[n]` (integer mode number, converted, times spacing) -/
def mode1d (m : Nat) (dk : α) (n : Nat) : α := ((((n:Int) - ((m / 2 : Nat) : Int) : Int)) : α) * dk

/-- C-order stride of axis `d` in a grid of shape `lens[0..dim)` -/
def stride (lens : Nat → Nat) (dim d : Nat) : Nat := forRange (d + 1) dim 1 fun e acc => acc * lens e

/-- multi-index component `d` of the flat index `j` (`np.meshgrid(..., indexing="ij")` flattened in C order) -/
def gridIdx (lens : Nat → Nat) (dim d j : Nat) : Nat := (j / stride lens dim d) % lens d

/-- `np.prod(self._mode_no)` -/
def gridN (lens : Nat → Nat) (dim : Nat) : Nat := forRange 0 dim 1 fun e acc => acc * lens e

/-- `generate_grid(modes)[d, j]` for 1-D arrays `m1 d` of lengths `lens d` -/
def gridOf (m1 : Nat → Nat → α) (lens : Nat → Nat) (dim d j : Nat) : α := m1 d (gridIdx lens dim d j)

/-- `self._modes[d, j]` right after `_set_modes(mreq, dim)` with spacings `dk` -/
def modesGrid (mreq : Nat → Nat) (dk : Nat → α) (dim d j : Nat) : α :=
  gridOf (fun d n => mode1d (mreq d) (dk d) n) (fun d => modeLen (mreq d)) dim d j

/-! ### spectrum factor (`reset_seed`) -/

/-- `np.linalg.norm(self._modes, axis=0)[j]` -/
def kNorm (modes : Nat → Nat → α) (dim j : Nat) : α :=
  sqrt (forRange 0 dim ((0:Nat):α) fun d acc => acc + modes d j * modes d j)

/-- `np.prod(self._delta_k)` -/
def prodDk (dk : Nat → α) (dim : Nat) : α := forRange 0 dim ((1:Nat):α) fun d acc => acc * dk d

/-- `np.sqrt(spectrum_values * np.prod(self._delta_k))[j]` -/
def specFactorOf (sv : Nat → α) (dk : Nat → α) (dim j : Nat) : α := sqrt (sv j * prodDk dk dim)

/-- `self._spectrum_factor[j]` for a model with spectrum `spec` -/
def specFactor (spec : α → α) (modes : Nat → Nat → α) (dk : Nat → α) (dim j : Nat) : α :=
  specFactorOf (fun j => spec (kNorm modes dim j)) dk dim j

/-! ### `_fill_to_dim` -/

/-- `_fill_to_dim(values, dim)[d]` for a non-empty `values`: cut to `dim`, pad with the last entry -/
def fillToDim {β : Type} [Inhabited β] (v : Array β) (d : Nat) : β := v[min d (v.size - 1)]!

/-! ### what `SRF.__call__` does before the generator sees the points -/

/-- `matrix_isometrize = matrix_isotropify · matrix_derotate`: row `d` of the derotation `Q` divided by `anis'[d]` -/
def isoMat (Q : Nat → Nat → α) (anis : Nat → α) (d e : Nat) : α := ((1:Nat):α) / anisP anis d * Q d e

/-- `model.isometrize(pos)[d, i] = Σ_e M[d,e] · pos[e,i]` -/
def isometrize (Q : Nat → Nat → α) (anis : Nat → α) (dim : Nat) (pos : Nat → Nat → α) (d i : Nat) : α :=
  forRange 0 dim ((0:Nat):α) fun e acc => acc + isoMat Q anis d e * pos e i

/-- `givens_rotation(dim, (p, q), a)[d, e]` -/
def givens (p q : Nat) (a : α) (d e : Nat) : α :=
  if d = p ∧ e = p then cos a
  else if d = q ∧ e = q then cos a
  else if d = p ∧ e = q then -sin a
  else if d = q ∧ e = p then sin a
  else if d = e then ((1:Nat):α) else ((0:Nat):α)

/-- `np.matmul(A, B)[d, e]` for `n × n` matrices -/
def mulM (n : Nat) (A B : Nat → Nat → α) (d e : Nat) : α :=
  forRange 0 n ((0:Nat):α) fun f acc => acc + A d f * B f e

/-- `matrix_derotate(dim, angles)` for `dim ≤ 3`: the product over `rotation_planes(dim)` of the Givens rotations by
    `(-1)^i · (-angles[i])` — one rotation in 2-D, `G₀₁(−α)·G₀₂(β)·G₁₂(−γ)` in 3-D, the identity in 1-D -/
def derot (dim : Nat) (angles : Nat → α) : Nat → Nat → α :=
  if dim = 2 then givens 0 1 (-(angles 0))
  else if dim = 3 then
    mulM 3 (mulM 3 (givens 0 1 (-(angles 0))) (givens 0 2 (angles 1))) (givens 1 2 (-(angles 2)))
  else fun d e => if d = e then ((1:Nat):α) else ((0:Nat):α)

/-- `Fourier.__call__(pos, add_nugget=False)`: the generated kernel on the generator's own arrays -/
def genField (sched : Sched) (sf : Nat → α) (modes : Nat → Nat → α) (z1 z2 : Nat → α) (N : Nat)
    (pos : Nat → Nat → α) (dim X : Nat) : Nat → α :=
  Summator.summate_fourier sched sf N modes dim N z1 N z2 N pos dim X

/-- `SRF(model, generator="Fourier")(pos)` without mean/nugget: isometrize, then the generator -/
def srfField (sched : Sched) (Q : Nat → Nat → α) (anis : Nat → α) (sf : Nat → α) (modes : Nat → Nat → α)
    (z1 z2 : Nat → α) (N : Nat) (pos : Nat → Nat → α) (dim X : Nat) : Nat → α :=
  genField sched sf modes z1 z2 N (isometrize Q anis dim pos) dim X

/-! ### `Fourier.update` as a state machine -/

/-- what the generator uses of a `CovModel`: its dimension, the anisotropy ratios, and a token `tag`
    standing for everything else that enters the comparison `!=` and the spectrum -/
structure Mdl (α : Type) where
  dim : Nat
  anis : Nat → α
  tag : Nat

/-- private attributes of a `Fourier` object that the grid depends on, plus two bookkeeping fields -/
structure St (α : Type) where
  hasModel : Bool
  model : Mdl α
  hasPeriod : Bool
  period : Nat → α
  /-- `self._mode_no`: the lengths `_set_modes` measured (NOT the requested counts) -/
  modeNo : Nat → Nat
  deltaK : Nat → α
  /-- the 1-D `np.arange` arrays; `self._modes = generate_grid` of them with shape `modeNo` -/
  modes1d : Nat → Nat → α
  seed : Nat
  /-- `len(self._z_1)` -/
  zLen : Nat
  /-- bookkeeping: `reset_seed` ran after the last change of the grid / `_delta_k` -/
  fresh : Bool
  /-- bookkeeping: number of `reset_seed` calls -/
  resets : Nat

/-- arguments of `update(model=None, seed=np.nan, period=None, mode_no=None)`;
    `seed = none` is `np.nan` (keep); a random seed (`None`) is not modelled -/
structure Upd (α : Type) where
  model : Option (Mdl α)
  seed : Option Nat
  period : Option (Array α)
  modeNo : Option (Array Nat)

inductive Out where
  | ok
  | oddModeNo      -- ValueError("Fourier: Odd mode_no not supported.")
  | neither        -- ValueError("... neither 'model' nor 'seed' given!")
  | unsupported    -- outside the model (dimension change, no model at all)
deriving DecidableEq, Repr

def blank [Inhabited α] : St α :=
  { hasModel := false, model := ⟨0, fun _ => default, 0⟩, hasPeriod := false, period := fun _ => default,
    modeNo := fun _ => 0, deltaK := fun _ => default, modes1d := fun _ _ => default, seed := 0, zLen := 0,
    fresh := false, resets := 0 }

/-- `_set_modes(mode_no, dim)` -/
def setModes (st : St α) (mreq : Nat → Nat) : St α :=
  { st with
    modes1d := fun d n => mode1d (mreq d) (st.deltaK d) n
    modeNo := fun d => modeLen (mreq d)
    fresh := false }

/-- `reset_seed(seed)` -/
def resetSeed (st : St α) (seed : Option Nat) : St α :=
  { st with seed := seed.getD st.seed, zLen := gridN st.modeNo st.model.dim, fresh := true, resets := st.resets + 1 }

/-- the `seed` property setter: `if new_seed != self._seed: self.reset_seed(new_seed)` -/
def setSeed (st : St α) (s : Nat) : St α := if s ≠ st.seed then resetSeed st (some s) else st

/-- `new_model = isinstance(model, CovModel) and self._model != model`;
    `eqv a b` is the code's `a == b` on models (`compare`, built on `np.isclose`) -/
def isNewModel (eqv : Mdl α → Mdl α → Bool) (st : St α) (um : Option (Mdl α)) : Bool :=
  match um with
  | some m => !(st.hasModel && eqv st.model m)
  | none => false

/-- first block of `update`: the mode grid depends on the period and the model's anisotropy -/
def gridStep [Inhabited α] (st : St α) (tmpAnis : Nat → α) (newModel : Bool) (up : Option (Array α))
    (umn : Option (Array Nat)) : St α :=
  if up.isSome || (newModel && st.hasPeriod) then
    let st : St α := match up with
      | some p => { st with period := fillToDim p, hasPeriod := true }
      | none => st
    let st : St α := { st with deltaK := fun d => deltaK st.period tmpAnis d, fresh := false }
    if umn.isNone then setModes st st.modeNo else st
  else st

/-- `if mode_no is not None: self._set_modes(mode_no, dim)` -/
def modesStep (st : St α) (umn : Option (Array Nat)) : St α :=
  match umn with
  | some mn => setModes st (fillToDim mn)
  | none => st

/-- last block of `update`: store the model, reseed -/
def seedStep (st : St α) (newModel : Bool) (u : Upd α) : St α × Out :=
  match u.model with
  | some m =>
    -- also update when the mode mesh was modified
    if newModel || u.modeNo.isSome || u.period.isSome then
      (resetSeed { st with model := m, hasModel := true } u.seed, Out.ok)
    else match u.seed with
      | some s => (setSeed st s, Out.ok)
      | none => (st, Out.ok)
  | none =>
    if u.modeNo.isSome || u.period.isSome then (resetSeed st u.seed, Out.ok)
    else match u.seed with
      | some s => (setSeed st s, Out.ok)
      | none => (st, Out.neither)

/-- `mode_no` after `_fill_to_dim` has an odd entry -/
def oddModeNo (dim : Nat) (umn : Option (Array Nat)) : Bool :=
  match umn with
  | some mn => (List.range dim).any fun d => (fillToDim mn d) % 2 != 0
  | none => false

/-- `Fourier.update(model, seed, period, mode_no)` -/
def update [Inhabited α] (eqv : Mdl α → Mdl α → Bool) (st : St α) (u : Upd α) : St α × Out :=
  if !st.hasModel && u.model.isNone then (st, Out.unsupported) else
  let tmp : Mdl α := u.model.getD st.model
  if st.hasModel && tmp.dim ≠ st.model.dim then (st, Out.unsupported) else
  if !st.hasPeriod && (u.period.isNone || u.modeNo.isNone) then (st, Out.unsupported) else
  -- mode_no is validated first; an odd count raises before anything is written
  if oddModeNo tmp.dim u.modeNo then (st, Out.oddModeNo) else
  let newModel : Bool := isNewModel eqv st u.model
  seedStep (modesStep (gridStep st tmp.anis newModel u.period u.modeNo) u.modeNo) newModel u

/-- `Fourier(model, period, mode_no, seed)` -/
def init [Inhabited α] (eqv : Mdl α → Mdl α → Bool) (m : Mdl α) (seed : Nat) (period : Array α) (modeNo : Array Nat) :
    St α × Out :=
  update eqv blank ⟨some m, some seed, some period, some modeNo⟩

/-- run a history of `update` calls; a call that raises leaves whatever it had already written -/
def run [Inhabited α] (eqv : Mdl α → Mdl α → Bool) (st : St α) : List (Upd α) → St α
  | [] => st
  | u :: us => run eqv (update eqv st u).1 us

/-- `self._modes[d, j]` of a state -/
def St.modes (st : St α) (d j : Nat) : α := gridOf st.modes1d st.modeNo st.model.dim d j

/-- `np.isclose(a, b)` with the default tolerances, as `compare` uses it (`a` = stored model, `b` = given one) -/
def isclose (a b : α) : Bool := decide (fabs (a - b) ≤ (1e-8:α) + (1e-5:α) * fabs b)

/-- the code's model comparison restricted to what `Mdl` carries: same `tag`, same `dim`, anisotropies `isclose` -/
def mdlClose (a b : Mdl α) : Bool :=
  a.dim == b.dim && a.tag == b.tag && (List.range (a.dim - 1)).all fun d => isclose (a.anis d) (b.anis d)

end defs

/-! ### driver operations -/

private def optField (j : Json) (k : String) : Option Json :=
  match j.getObjVal? k with
  | .ok Json.null => none
  | .ok v => some v
  | .error _ => none

private def jFloats (v : Json) : Except String (Array Float) := do
  let a ← v.getArr?
  a.mapM jsonToFloat

private def jNats (v : Json) : Except String (Array Nat) := do
  let a ← v.getArr?
  a.mapM (·.getNat?)

private def parseMdl (dim : Nat) (v : Json) : Except String (Mdl Float) := do
  let an ← getFloats v "anis"
  let tag ← getNat v "tag"
  let d := match optField v "dim" with
    | some dj => (dj.getNat?).toOption.getD dim
    | none => dim
  return ⟨d, ofList an, tag⟩

private def parseUpd (dim : Nat) (v : Json) : Except String (Upd Float) := do
  let model ← match optField v "model" with
    | some m => (parseMdl dim m).map some
    | none => pure none
  let seed ← match optField v "seed" with
    | some s => s.getNat?.map some
    | none => pure none
  let period ← match optField v "period" with
    | some p => (jFloats p).map some
    | none => pure none
  let modeNo ← match optField v "mode_no" with
    | some p => (jNats p).map some
    | none => pure none
  return ⟨model, seed, period, modeNo⟩

private def outStr : Out → String
  | .ok => "ok"
  | .oddModeNo => "ValueError:odd"
  | .neither => "ValueError:neither"
  | .unsupported => "unsupported"

private def stJson (st : St Float) (o : Out) : Json :=
  let dim := st.model.dim
  Json.mkObj [
    ("out", Json.str (outStr o)),
    ("period", fl (tab st.period dim)),
    ("mode_no", Json.arr ((tab st.modeNo dim).map fun (n : Nat) => Json.num (JsonNumber.fromNat n)).toArray),
    ("delta_k", fl (tab st.deltaK dim)),
    ("modes1d", Json.arr ((List.range dim).map fun d => fl (tab (st.modes1d d) (st.modeNo d))).toArray),
    ("anis", fl (tab st.model.anis (dim - 1))),
    ("tag", Json.num (JsonNumber.fromNat st.model.tag)),
    ("seed", Json.num (JsonNumber.fromNat st.seed)),
    ("zlen", Json.num (JsonNumber.fromNat st.zLen)),
    ("fresh", Json.bool st.fresh),
    ("dk_coherent", Json.bool ((List.range dim).all fun d => st.deltaK d == deltaK st.period st.model.anis d)),
    ("resets", Json.num (JsonNumber.fromNat st.resets))]

/-- line-protocol operations of this model; `none` = not one of mine -/
def ops (op : String) (j : Json) : Option (Except String Json) :=
  match op with
  | "fourier_grid" => some (do
      -- delta_k, measured lengths and the flattened mode grid for (period, anis, mode_no)
      let dim ← getNat j "dim"
      let period ← getFloats j "period"; let anis ← getFloats j "anis"; let mreq ← getNats j "mode_no"
      let dk : Nat → Float := deltaK (ofList period) (ofList anis)
      let lens : Nat → Nat := fun d => modeLen (ofList mreq d)
      let n := gridN lens dim
      let grid := modesGrid (ofList mreq) dk dim
      return Json.mkObj [
        ("delta_k", fl (tab dk dim)),
        ("lens", Json.arr ((tab lens dim).map fun (n : Nat) => Json.num (JsonNumber.fromNat n)).toArray),
        ("N", Json.num (JsonNumber.fromNat n)),
        ("modes", fl2 (tab2 grid dim n))])
  | "fourier_sf" => some (do
      -- k_norm and spectrum factor from a mode grid, delta_k and the spectrum values
      let dim ← getNat j "dim"; let n ← getNat j "N"
      let modes ← getFloats j "modes"; let dk ← getFloats j "delta_k"; let sv ← getFloats j "spec"
      let md := ofList2 modes n
      return Json.mkObj [
        ("k_norm", fl (tab (kNorm md dim) n)),
        ("sf", fl (tab (specFactorOf (ofList sv) (ofList dk) dim) n))])
  | "fourier_fill" => some (do
      let dim ← getNat j "dim"; let v ← getFloats j "values"
      if v.size == 0 then throw "ValueError" else
      return fl (tab (fillToDim v) dim))
  | "fourier_iso" => some (do
      let dim ← getNat j "dim"; let x ← getNat j "X"
      let q ← getFloats j "Q"; let anis ← getFloats j "anis"; let pos ← getFloats j "pos"
      return fl2 (tab2 (isometrize (ofList2 q dim) (ofList anis) dim (ofList2 pos x)) dim x))
  | "fourier_derot" => some (do
      let dim ← getNat j "dim"; let ang ← getFloats j "angles"
      return fl2 (tab2 (derot dim (ofList ang)) dim dim))
  | "fourier_gen" => some (do
      -- whole generator: grid from (period, anis, mode_no), spectrum factor from spectrum values, kernel
      let dim ← getNat j "dim"; let x ← getNat j "X"
      let period ← getFloats j "period"; let anis ← getFloats j "anis"; let mreq ← getNats j "mode_no"
      let sv ← getFloats j "spec"; let z1 ← getFloats j "z1"; let z2 ← getFloats j "z2"; let pos ← getFloats j "pos"
      let dk : Nat → Float := deltaK (ofList period) (ofList anis)
      let lens : Nat → Nat := fun d => modeLen (ofList mreq d)
      let n := gridN lens dim
      -- tabulate the grid once (the closure would otherwise recompute it per access)
      let gridArr : Array Float := ((tab2 (modesGrid (ofList mreq) dk dim) dim n).flatten).toArray
      let grid := ofList2 gridArr n
      let sfArr : Array Float := (tab (specFactorOf (ofList sv) dk dim) n).toArray
      let p := ofList2 pos x
      -- SRF level: isometrize first, with the derotation built here from the angles (or a given matrix)
      let pp : Nat → Nat → Float := match optField j "angles", optField j "Q" with
        | some aj, _ => match jFloats aj with
          | .ok a => isometrize (derot dim (ofList a)) (ofList anis) dim p
          | .error _ => p
        | none, some qj => match jFloats qj with
          | .ok q => isometrize (ofList2 q dim) (ofList anis) dim p
          | .error _ => p
        | none, none => p
      let ppArr : Array Float := ((tab2 pp dim x).flatten).toArray
      let r := genField id (ofList sfArr) grid (ofList z1) (ofList z2) n (ofList2 ppArr x) dim x
      return fl (tab r x))
  | "fourier_hist" => some (do
      -- a history of update calls starting with the constructor; state after every call
      let dim ← getNat j "dim"
      let opsJ ← (← j.getObjVal? "ops").getArr?
      let exact := (getBool j "exact_eq").toOption.getD false
      let eqv : Mdl Float → Mdl Float → Bool :=
        if exact then fun a b => a.dim == b.dim && a.tag == b.tag &&
          (List.range (a.dim - 1)).all fun d => a.anis d == b.anis d
        else mdlClose
      let mut st : St Float := blank
      let mut outs : Array Json := #[]
      for oj in opsJ do
        let u ← parseUpd dim oj
        let (st', o) := update eqv st u
        st := st'
        outs := outs.push (stJson st o)
      return Json.arr outs)
  | _ => none

end GSV.Model.Fourier
