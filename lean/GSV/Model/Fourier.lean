/- Hand-written executable model (tie B): Fourier.  Core Lean only — no Mathlib import in this file. -/
import GSV.Proto
open Lean GSV GSV.Proto GSV.Transc
namespace GSV.Model.Fourier

/-- line-protocol operations of this model; `none` = not one of mine -/
def ops (op : String) (j : Json) : Option (Except String Json) :=
  match op with
  | _ => none

end GSV.Model.Fourier
