/- Hand-written executable model (tie B): Geo — the geometric helpers of `gstools/tools/geometric.py`
   (rotation planes, Givens rotations, (de)rotation, stretching, (an)isometrize matrices, main axes,
   padding rules of `set_angles` / `set_anis` / `set_len_anis`, `ang2dir`) and the way `CovModel`
   uses them (`isometrize`, `anisometrize`, `main_axes`, `_get_iso_rad`, `pre_pos`).
   Core Lean only — no Mathlib import in this file.

   Matrices are total functions `Nat → Nat → α` with the dimension travelling separately, vectors are
   `Nat → α`, angle / anisotropy vectors are lists.  The definitions follow the code statement by
   statement (sequential writes of `givens_rotation`, `matmul` order of the loops, `(-1) ** i`). -/
import GSV.Proto
open Lean GSV GSV.Proto GSV.Transc
namespace GSV.Model.Geo

variable {α : Type} [Arith α] [Transc α] [DecidableLT α] [DecidableLE α]

/-! ### sizes and planes -/

/-- `no_of_angles(dim) = (dim * (dim - 1)) // 2` -/
def noOfAngles (dim : Nat) : Nat := (dim * (dim - 1)) / 2

/-- `rotation_planes(dim) = [(i, j) for j in range(1, dim) for i in range(j)]` -/
def rotationPlanes (dim : Nat) : List (Nat × Nat) :=
  (idxRange 1 dim).flatMap fun j => (idxRange 0 j).map fun i => (i, j)

/-! ### padding rules -/

/-- `set_angles(dim, angles)`: cut to `no_of_angles(dim)` entries, pad *behind* with `0.0` -/
def setAngles (dim : Nat) (angles : List α) : List α :=
  let a := angles.take (noOfAngles dim)
  a ++ List.replicate (noOfAngles dim - a.length) ((0:Nat):α)

/-- `set_anis(dim, anis)`: cut to `dim - 1` entries, pad *in front* with `1.0` -/
def setAnis (dim : Nat) (anis : List α) : List α :=
  let a := anis.take (dim - 1)
  if a.length < dim - 1 then List.replicate (dim - a.length - 1) ((1:Nat):α) ++ a else a

/-- `np.pad(ls, (0, dim - len(ls)), "edge")` on a non-empty list -/
def padEdge (dim : Nat) (ls : List α) (last : α) : List α :=
  ls ++ List.replicate (dim - ls.length) last

/-- `set_len_anis(dim, len_scale, anis)` (without the lat-lon branch, which belongs to C13):
    one length scale → `set_anis`; several → ratios `ls[i] / ls[0]` after edge padding;
    `ValueError` unless every ratio is `> 0`; `IndexError` on an empty `len_scale`. -/
def setLenAnis (dim : Nat) (lenScale anis : List α) : Except String (α × List α) :=
  match lenScale.take dim with
  | [] => .error "IndexError"
  | l0 :: rest =>
    let outAnis :=
      if rest.length = 0 then setAnis dim anis
      else
        let ls := padEdge dim (l0 :: rest) ((l0 :: rest).getLast?.getD l0)
        (idxRange 1 dim).map fun i => ls[i]?.getD l0 / l0
    if outAnis.all (fun a => decide (a > ((0:Nat):α))) then .ok (l0, outAnis) else .error "ValueError"

/-! ### matrices -/

/-- `np.eye(dim)` -/
def eye : Nat → Nat → α := fun i j => if i = j then ((1:Nat):α) else ((0:Nat):α)

/-- `np.matmul(A, B)` for `dim × dim` matrices -/
def matmul (dim : Nat) (A B : Nat → Nat → α) : Nat → Nat → α :=
  fun i j => forRange 0 dim ((0:Nat):α) fun k acc => acc + A i k * B k j

/-- materialise the `d × d` block of `f` row-major (numpy arrays are data, not closures; the
    rotation loops below keep their running `result` as such a table) -/
def tabArr (d : Nat) (f : Nat → Nat → α) : Array α :=
  Array.ofFn (n := d * d) fun k => f (k.val / d) (k.val % d)

/-- read a `d × d` row-major table -/
def ofArr (d : Nat) (a : Array α) : Nat → Nat → α :=
  fun i j => if h : j < d ∧ j + i * d < a.size then a[j + i * d]'h.2 else ((0:Nat):α)

/-- `A.T` -/
def transpose (A : Nat → Nat → α) : Nat → Nat → α := fun i j => A j i

/-- `np.dot(M, x)` for one position vector -/
def applyMat (dim : Nat) (M : Nat → Nat → α) (x : Nat → α) : Nat → α :=
  fun i => forRange 0 dim ((0:Nat):α) fun k acc => acc + M i k * x k

/-- `np.linalg.norm(v)` of one column -/
def norm2 (dim : Nat) (v : Nat → α) : α :=
  Transc.sqrt (forRange 0 dim ((0:Nat):α) fun k acc => acc + v k * v k)

/-- `np.diag(l)` -/
def diag (l : List α) : Nat → Nat → α :=
  fun i j => if i = j then l[i]?.getD ((0:Nat):α) else ((0:Nat):α)

/-- `givens_rotation(dim, plane, angle)`: four sequential writes into the identity -/
def givens (plane : Nat × Nat) (angle : α) : Nat → Nat → α :=
  let r := upd2 eye plane.1 plane.1 (Transc.cos angle)
  let r := upd2 r plane.2 plane.2 (Transc.cos angle)
  let r := upd2 r plane.1 plane.2 (-(Transc.sin angle))
  upd2 r plane.2 plane.1 (Transc.sin angle)

/-- the `(plane, (-1) ** i * angle)` sequence both rotation loops run over
    (`enumerate(zip(angles, planes))`; `angles` is already padded) -/
def signedSeq (dim : Nat) (angles : List α) : List ((Nat × Nat) × α) :=
  ((angles.zip (rotationPlanes dim)).zipIdx).map fun p => (p.1.2, ((((-1:Int) ^ p.2 : Int)) : α) * p.1.1)

/-- `matrix_rotate(dim, angles)`: `result = G_i · result` -/
def matrixRotate (dim : Nat) (angles : List α) : Nat → Nat → α :=
  ofArr dim <| (signedSeq dim (setAngles dim angles)).foldl
    (fun r p => tabArr dim (matmul dim (givens p.1 p.2) (ofArr dim r))) (tabArr dim eye)

/-- `matrix_derotate(dim, angles)`: negated padded angles, `result = result · G_i` -/
def matrixDerotate (dim : Nat) (angles : List α) : Nat → Nat → α :=
  ofArr dim <| (signedSeq dim ((setAngles dim angles).map fun a => -a)).foldl
    (fun r p => tabArr dim (matmul dim (ofArr dim r) (givens p.1 p.2))) (tabArr dim eye)

/-- `matrix_isotropify(dim, anis) = diag([1] ++ 1 / set_anis)` -/
def matrixIsotropify (dim : Nat) (anis : List α) : Nat → Nat → α :=
  diag (((1:Nat):α) :: (setAnis dim anis).map fun a => ((1:Nat):α) / a)

/-- `matrix_anisotropify(dim, anis) = diag([1] ++ set_anis)` -/
def matrixAnisotropify (dim : Nat) (anis : List α) : Nat → Nat → α :=
  diag (((1:Nat):α) :: setAnis dim anis)

/-- `matrix_isometrize = isotropify · derotate` -/
def matrixIsometrize (dim : Nat) (angles anis : List α) : Nat → Nat → α :=
  matmul dim (matrixIsotropify dim anis) (matrixDerotate dim angles)

/-- `matrix_anisometrize = rotate · anisotropify` -/
def matrixAnisometrize (dim : Nat) (angles anis : List α) : Nat → Nat → α :=
  matmul dim (matrixRotate dim angles) (matrixAnisotropify dim anis)

/-- `rotated_main_axes(dim, angles) = matrix_rotate(dim, angles).T` (row `i` = `i`-th main axis) -/
def mainAxes (dim : Nat) (angles : List α) : Nat → Nat → α :=
  transpose (matrixRotate dim angles)

/-! ### how the model / pipelines use them -/

/-- `CovModel.isometrize` of one position (non lat-lon) -/
def isometrize (dim : Nat) (angles anis : List α) (x : Nat → α) : Nat → α :=
  applyMat dim (matrixIsometrize dim angles anis) x

/-- `CovModel.anisometrize` of one position (non lat-lon) -/
def anisometrize (dim : Nat) (angles anis : List α) (x : Nat → α) : Nat → α :=
  applyMat dim (matrixAnisometrize dim angles anis) x

/-- `CovModel._get_iso_rad` of one position -/
def isoRad (dim : Nat) (angles anis : List α) (x : Nat → α) : α :=
  norm2 dim (isometrize dim angles anis x)

/-- `Field.pre_pos`: every pipeline (SRF, Krige, CondSRF) isometrizes its positions once -/
def prePos (dim : Nat) (angles anis : List α) (xs : List (Nat → α)) : List (Nat → α) :=
  xs.map (isometrize dim angles anis)

/-- Euclidean distance of two (isometrized) positions: `Krige._get_dists` -/
def dist (dim : Nat) (u v : Nat → α) : α := norm2 dim fun k => u k - v k

/-- `CovModel.cov_spatial` / `vario_spatial` / `cor_spatial` with radial profile `f` -/
def covSpatial (f : α → α) (dim : Nat) (angles anis : List α) (h : Nat → α) : α :=
  f (isoRad dim angles anis h)

/-- phase of one Fourier mode `k` at position `x` (what `summate` evaluates) -/
def phase (dim : Nat) (k x : Nat → α) : α :=
  forRange 0 dim ((0:Nat):α) fun d acc => acc + k d * x d

/-! ### ang2dir -/

/-- `np.prod` of a list -/
def prodL (l : List α) : α := l.foldl (fun a b => a * b) ((1:Nat):α)

/-- `ang2dir(angles)` for one direction given by `n ≥ 1` spherical angles (`dim = n + 1`) -/
def ang2dir (angles : List α) : Except String (List α) :=
  let n := angles.length
  if n = 0 then .error "ValueError" else
  let s := angles.map Transc.sin
  let v0 := prodL s
  let rest := (idxRange 1 (n + 1)).map fun i =>
    prodL (s.drop i) * Transc.cos (angles[i - 1]?.getD ((0:Nat):α))
  let vec := v0 :: rest
  if n + 1 = 2 ∨ n + 1 = 3 then
    match vec with
    | a :: b :: t => .ok (b :: a :: t)
    | _ => .ok vec
  else .ok vec

/-- the direction vector of one row of `n ≥ 1` spherical angles (what `ang2dir` writes into `vec[r, :]`) -/
def dirVec (angles : List α) : List α :=
  let n := angles.length
  let s := angles.map Transc.sin
  let v0 := prodL s
  let rest := (idxRange 1 (n + 1)).map fun i =>
    prodL (s.drop i) * Transc.cos (angles[i - 1]?.getD ((0:Nat):α))
  let vec := v0 :: rest
  if n + 1 = 2 ∨ n + 1 = 3 then
    match vec with
    | a :: b :: t => b :: a :: t
    | _ => vec
  else vec

/-- the whole call `ang2dir(angles, dim=dim)` with several directions at once.
    `preDim = np.asanyarray(angles).ndim` (0 scalar, 1 flat sequence, 2 nested, more → `ValueError`),
    `rows` / `ncols` = the array after `np.atleast_2d` (`ncols` travels separately for arrays without rows; ragged
    input is a `ValueError` of `np.asarray`).  `dim` defaults to `ncols + 1`; for `dim = 2`, one row and flat input the
    array is transposed (one angle per direction); then `dim` must equal `ncols + 1` and not be `1`.  Every row is
    converted on its own (`np.prod(..., axis=1)`): row `r` of the result depends on row `r` of the input only. -/
def ang2dirCall (preDim ncols : Nat) (rows : List (List α)) (dim : Option Nat) : Except String (List (List α)) :=
  if 2 < preDim ∨ (rows.any fun r => r.length != ncols) = true then .error "ValueError" else
  let d := dim.getD (ncols + 1)
  let tr : Bool := decide (d = 2) && decide (rows.length = 1) && decide (preDim < 2)
  let rows' := if tr then (rows.headD []).map (fun a => [a]) else rows
  let ncols' := if tr then 1 else ncols
  if d ≠ ncols' + 1 ∨ d = 1 then .error "ValueError" else .ok (rows'.map dirVec)

/-! ### in-place histories of a (plain) `CovModel`: `dim`, `len_scale`, `anis`, `angles` setters

Only what the geometry depends on is carried.  A setter that raises (`set_len_anis` rejecting a ratio, `dim < 1`)
leaves the state as it was.  Every geometric method (`isometrize`, `anisometrize`, `main_axes`, `_get_iso_rad`,
`cov_spatial`) is a function of the *current* `(dim, angles, anis)` — there is no other state. -/

structure MState (α : Type) where
  dim : Nat
  lenScale : α
  anis : List α
  angles : List α

inductive MOp (α : Type) where
  /-- `model.anis = v` (a scalar is a one-element list) -/
  | setAnis (v : List α)
  /-- `model.angles = v` -/
  | setAngles (v : List α)
  /-- `model.len_scale = v`: one value keeps the ratios, several redefine them -/
  | setLenScale (v : List α)
  /-- `model.dim = d` -/
  | setDim (d : Nat)

/-- `CovModel.__init__` of a plain model: `set_dim`, `set_len_anis(dim, len_scale, anis)`, `set_model_angles` -/
def mInit (dim : Nat) (ls anis angles : List α) : Except String (MState α) :=
  if dim < 1 then .error "ValueError" else
  match setLenAnis dim ls anis with
  | .error e => .error e
  | .ok (l0, an) => .ok ⟨dim, l0, an, setAngles dim angles⟩

/-- one setter call -/
def mStep (s : MState α) : MOp α → Except String (MState α)
  | .setAnis v =>
    match setLenAnis s.dim [s.lenScale] v with
    | .error e => .error e
    | .ok (l0, an) => .ok { s with lenScale := l0, anis := an }
  | .setAngles v => .ok { s with angles := setAngles s.dim v }
  | .setLenScale v =>
    match setLenAnis s.dim v s.anis with
    | .error e => .error e
    | .ok (l0, an) => .ok { s with lenScale := l0, anis := an }
  | .setDim d =>
    if d < 1 then .error "ValueError" else
    match setLenAnis d [s.lenScale] s.anis with
    | .error e => .error e
    | .ok (l0, an) => .ok ⟨d, l0, an, setAngles d s.angles⟩

/-- a setter that raises leaves the model as it was -/
def mStepKeep (s : MState α) (op : MOp α) : MState α × String :=
  match mStep s op with
  | .ok s' => (s', "ok")
  | .error e => (s, e)

/-- the states a history walks through (after the constructor and after every setter), with the status of the call -/
def mRun (s : MState α) : List (MOp α) → List (MState α × String)
  | [] => []
  | op :: rest => let r := mStepKeep s op; r :: mRun r.1 rest

/-- the final state of a history -/
def mFinal (s : MState α) (ops : List (MOp α)) : MState α := ops.foldl (fun st op => (mStepKeep st op).1) s

/-- the tables the driver keeps per model state (numpy computes each matrix once per call; the closure forms above
    would recompute the rotation loop for every entry): `S⁻¹·Rᵀ` and `R·S`, block-equal to `matrixIsometrize` /
    `matrixAnisometrize` (`Props/C12.lean: isoTab_eq`, `anisoTab_eq`) -/
def isoTab (dim : Nat) (angles anis : List α) : Array α :=
  tabArr dim (matmul dim (matrixIsotropify dim anis) (ofArr dim (tabArr dim (matrixDerotate dim angles))))

def anisoTab (dim : Nat) (angles anis : List α) : Array α :=
  tabArr dim (matmul dim (ofArr dim (tabArr dim (matrixRotate dim angles))) (matrixAnisotropify dim anis))

/-! ### driver -/

def matOut (dim : Nat) (m : Nat → Nat → Float) : Json := fl2 (tab2 m dim dim)

def vecOfArr (a : Array Float) (n col : Nat) : Nat → Float := fun i => a[i * n + col]!

/-- line-protocol operations of this model; `none` = not one of mine -/
def ops (op : String) (j : Json) : Option (Except String Json) :=
  match op with
  | "geo_no_angles" => some (do
      let dim ← getNat j "dim"
      return il [((noOfAngles dim : Nat) : Int)])
  | "geo_planes" => some (do
      let dim ← getNat j "dim"
      return il2 ((rotationPlanes dim).map fun p => [((p.1 : Nat) : Int), ((p.2 : Nat) : Int)]))
  | "geo_set_angles" => some (do
      let dim ← getNat j "dim"; let a ← getFloats j "angles"
      return fl (setAngles dim a.toList))
  | "geo_set_anis" => some (do
      let dim ← getNat j "dim"; let a ← getFloats j "anis"
      return fl (setAnis dim a.toList))
  | "geo_set_len_anis" => some (do
      let dim ← getNat j "dim"; let l ← getFloats j "len_scale"; let a ← getFloats j "anis"
      match setLenAnis dim l.toList a.toList with
      | .ok (l0, an) => return Json.arr #[fbits l0, fl an]
      | .error e => return Json.str e)
  | "geo_givens" => some (do
      let dim ← getNat j "dim"; let p ← getNat j "p"; let q ← getNat j "q"; let a ← getFloat j "angle"
      return matOut dim (givens (p, q) a))
  | "geo_rotate" => some (do
      let dim ← getNat j "dim"; let a ← getFloats j "angles"
      return matOut dim (matrixRotate dim a.toList))
  | "geo_derotate" => some (do
      let dim ← getNat j "dim"; let a ← getFloats j "angles"
      return matOut dim (matrixDerotate dim a.toList))
  | "geo_main_axes" => some (do
      let dim ← getNat j "dim"; let a ← getFloats j "angles"
      return matOut dim (mainAxes dim a.toList))
  | "geo_isotropify" => some (do
      let dim ← getNat j "dim"; let a ← getFloats j "anis"
      return matOut dim (matrixIsotropify dim a.toList))
  | "geo_anisotropify" => some (do
      let dim ← getNat j "dim"; let a ← getFloats j "anis"
      return matOut dim (matrixAnisotropify dim a.toList))
  | "geo_isometrize" => some (do
      let dim ← getNat j "dim"; let a ← getFloats j "angles"; let s ← getFloats j "anis"
      return matOut dim (matrixIsometrize dim a.toList s.toList))
  | "geo_anisometrize" => some (do
      let dim ← getNat j "dim"; let a ← getFloats j "angles"; let s ← getFloats j "anis"
      return matOut dim (matrixAnisometrize dim a.toList s.toList))
  | "geo_model_pos" => some (do
      -- CovModel.isometrize / anisometrize / _get_iso_rad on a (dim × n) position tuple (row-major)
      let dim ← getNat j "dim"; let n ← getNat j "n"
      let a ← getFloats j "angles"; let s ← getFloats j "anis"; let pos ← getFloats j "pos"
      let cols := (List.range n).map fun c => vecOfArr pos n c
      let Mi := isoTab dim a.toList s.toList
      let Ma := anisoTab dim a.toList s.toList
      let iso := cols.map fun x => tab (applyMat dim (ofArr dim Mi) x) dim
      let ani := cols.map fun x => tab (applyMat dim (ofArr dim Ma) x) dim
      let rad := cols.map fun x => norm2 dim (applyMat dim (ofArr dim Mi) x)
      return Json.arr #[fl2 iso, fl2 ani, fl rad])
  | "geo_ang2dir" => some (do
      let a ← getFloats j "angles"
      match ang2dir a.toList with
      | .ok v => return fl v
      | .error e => return Json.str e)
  | "geo_ang2dir_call" => some (do
      -- the whole ang2dir call: rows (list of angle rows), ncols, pre_dim, optional dim
      let preDim ← getNat j "pre_dim"; let ncols ← getNat j "ncols"
      let rv ← j.getObjVal? "rows"
      let ra ← rv.getArr?
      let rows ← ra.mapM fun r => do
        let a ← r.getArr?
        let fs ← a.mapM jsonToFloat
        pure fs.toList
      let dim : Option Nat ← match j.getObjVal? "dim" with
        | .ok (Json.num _) => do let n ← getNat j "dim"; pure (some n)
        | _ => pure none
      match ang2dirCall preDim ncols rows.toList dim with
      | .ok v => return fl2 v
      | .error e => return Json.str e)
  | "geo_hist" => some (do
      -- constructor + setter history of a plain CovModel; after every step: status, state and the geometry of the
      -- CURRENT state on the first `dim` rows of a (4 × n) position table
      let dim ← getNat j "dim"; let ls ← getFloats j "len_scale"
      let a ← getFloats j "angles"; let s ← getFloats j "anis"
      let n ← getNat j "n"; let pos ← getFloats j "pos"
      let ov ← j.getObjVal? "ops"
      let oa ← ov.getArr?
      let ops ← oa.mapM fun o => do
        let k ← getStr o "k"
        match k with
        | "anis" => do let v ← getFloats o "v"; pure (MOp.setAnis v.toList)
        | "angles" => do let v ← getFloats o "v"; pure (MOp.setAngles v.toList)
        | "len" => do let v ← getFloats o "v"; pure (MOp.setLenScale v.toList)
        | "dim" => do let d ← getNat o "d"; pure (MOp.setDim d)
        | _ => throw s!"unknown history op {k}"
      match mInit dim ls.toList s.toList a.toList with
      | .error e => return Json.str e
      | .ok s0 =>
        let obs (st : MState Float) (status : String) : Json :=
          let cols := (List.range n).map fun c => vecOfArr pos n c
          let Mi := isoTab st.dim st.angles st.anis
          let Ma := anisoTab st.dim st.angles st.anis
          let iso := cols.map fun x => tab (applyMat st.dim (ofArr st.dim Mi) x) st.dim
          let ani := cols.map fun x => tab (applyMat st.dim (ofArr st.dim Ma) x) st.dim
          let rad := cols.map fun x => norm2 st.dim (applyMat st.dim (ofArr st.dim Mi) x)
          Json.arr #[Json.str status, Json.num (JsonNumber.fromNat st.dim), fbits st.lenScale, fl st.anis, fl st.angles,
            fl2 iso, fl2 ani, fl rad, matOut st.dim (mainAxes st.dim st.angles)]
        return Json.arr ((obs s0 "ok") :: (mRun s0 ops.toList).map fun r => obs r.1 r.2).toArray)
  | _ => none

end GSV.Model.Geo
