/- Hand-written executable model (tie B): Validity.  Core Lean only — no Mathlib import in this file. -/
import GSV.Proto
open Lean GSV GSV.Proto GSV.Transc
namespace GSV.Model.Validity

/-- line-protocol operations of this model; `none` = not one of mine -/
def ops (op : String) (j : Json) : Option (Except String Json) :=
  match op with
  | _ => none

end GSV.Model.Validity
