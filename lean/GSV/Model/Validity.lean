/- Hand-written executable model (tie B): Validity — the *decision table* by which GSTools admits a
   covariance model: `check_dim` of the 17 shipped classes, their `default_opt_arg`,
   `default_opt_arg_bounds` (with the dimension-dependent lower bounds of SuperSpherical, JBessel,
   TPLSimple evaluated with the dimension AT CONSTRUCTION), `default_arg_bounds` of `CovModel`,
   the interval test `check_arg_in_bounds` / `check_arg_bounds` of `covmodel/tools.py`, and the
   dimension rule of `set_dim` (lat-lon forces 3, `+1` when temporal, `spatial_dim`).
   In-place histories of one model object (evaluations, `model.dim = d`, `model.<arg> = v`) are the state
   machine `HState` / `HOp` / `hStep`: setters store first and check against the bounds stored at construction.
   Beside it the *literature* validity condition `litValid` of every family, written out from the class
   docstrings / standard references.  Core Lean only — no Mathlib import in this file.

   Everything is polymorphic over the scalar: run on `Rat` by the driver (python doubles are sent as
   their exact rationals, so the comparison with the real constructor is exact), reasoned about over an
   arbitrary linearly ordered field in `GSV/Props/C02.lean`. -/
import GSV.Proto
open Lean GSV GSV.Proto
namespace GSV.Model.Validity

/-- the 17 shipped model classes (`covmodel/models.py`, `covmodel/tpl_models.py`) -/
inductive Cls
  | Gaussian | Exponential | Matern | Integral | Stable | Rational | Cubic | Linear | Circular
  | Spherical | HyperSpherical | SuperSpherical | JBessel | TPLGaussian | TPLExponential | TPLStable
  | TPLSimple
  deriving DecidableEq, Repr, Inhabited

def Cls.all : List Cls :=
  [.Gaussian, .Exponential, .Matern, .Integral, .Stable, .Rational, .Cubic, .Linear, .Circular,
   .Spherical, .HyperSpherical, .SuperSpherical, .JBessel, .TPLGaussian, .TPLExponential, .TPLStable,
   .TPLSimple]

def Cls.name : Cls → String
  | .Gaussian => "Gaussian" | .Exponential => "Exponential" | .Matern => "Matern"
  | .Integral => "Integral" | .Stable => "Stable" | .Rational => "Rational" | .Cubic => "Cubic"
  | .Linear => "Linear" | .Circular => "Circular" | .Spherical => "Spherical"
  | .HyperSpherical => "HyperSpherical" | .SuperSpherical => "SuperSpherical" | .JBessel => "JBessel"
  | .TPLGaussian => "TPLGaussian" | .TPLExponential => "TPLExponential" | .TPLStable => "TPLStable"
  | .TPLSimple => "TPLSimple"

def Cls.ofName (s : String) : Option Cls := Cls.all.find? fun c => c.name == s

/-- interval types of `check_bounds`: first letter = lower end, second = upper end; `c`losed / `o`pen -/
inductive Iv | oo | cc | oc | co
  deriving DecidableEq, Repr

def Iv.name : Iv → String | .oo => "oo" | .cc => "cc" | .oc => "oc" | .co => "co"
def Iv.lowerClosed : Iv → Bool | .cc => true | .co => true | _ => false
def Iv.upperClosed : Iv → Bool | .cc => true | .oc => true | _ => false

/-- argument names subject to `check_arg_bounds` (anisotropy ratios are handled by `set_len_anis`
    and belong to C12/C14) -/
inductive Arg | var | lenScale | nugget | nu | alpha | hurst | lenLow
  deriving DecidableEq, Repr

def Arg.name : Arg → String
  | .var => "var" | .lenScale => "len_scale" | .nugget => "nugget" | .nu => "nu" | .alpha => "alpha"
  | .hurst => "hurst" | .lenLow => "len_low"

/-- `Cubic.check_dim`, `Linear.check_dim`, `Circular.check_dim`, `Spherical.check_dim`; every other class
    inherits `CovModel.check_dim = True` -/
def checkDim : Cls → Nat → Bool
  | .Cubic, d => d < 4
  | .Linear, d => d < 2
  | .Circular, d => d < 3
  | .Spherical, d => d < 4
  | _, _ => true

/-- The model dimension chosen by `CovModel.__init__` + `set_dim` (no class fixes its dimension):
    `dim` or `spatial_dim + temporal`; lat-lon forces `3 + temporal`; `ValueError` below 1. -/
def modelDim (dim : Nat) (spatialDim : Option Nat) (latlon temporal : Bool) : Except String Nat :=
  let t := if temporal then 1 else 0
  let d := match spatialDim with | none => dim | some s => s + t
  let d := if latlon then 3 + t else d
  if d < 1 then .error "ValueError" else .ok d

section scalar
variable {α : Type} [Arith α] [DecidableLT α] [DecidableLE α]

/-- a bound triple `[lo, hi, type]`; `hi = none` is `np.inf` -/
structure Bound (α : Type) where
  lo : α
  hi : Option α
  iv : Iv

/-- values of every argument `check_arg_bounds` looks at (a class only reads its own optional ones) -/
structure Params (α : Type) where
  var : α
  lenScale : α
  nugget : α
  nu : α
  alpha : α
  hurst : α
  lenLow : α

def Params.get (p : Params α) : Arg → α
  | .var => p.var | .lenScale => p.lenScale | .nugget => p.nugget | .nu => p.nu | .alpha => p.alpha
  | .hurst => p.hurst | .lenLow => p.lenLow

/-- the double nearest to 0.1 (lower end of the `hurst` interval of the TPL models), exactly -/
def dbl01 : α := ((3602879701896397 : Nat) : α) / ((36028797018963968 : Nat) : α)
/-- the double nearest to 0.2 (lower end of Matern's `nu`), exactly -/
def dbl02 : α := ((3602879701896397 : Nat) : α) / ((18014398509481984 : Nat) : α)

/-- `check_arg_in_bounds`: error case 0 (inside) … 4, the upper test overriding the lower one. -/
def errCase (b : Bound α) (v : α) : Nat :=
  let e := if b.iv.lowerClosed then (if v < b.lo then 1 else 0) else (if v ≤ b.lo then 2 else 0)
  match b.hi with
  | none => e
  | some hi => if b.iv.upperClosed then (if v > hi then 3 else e) else (if v ≥ hi then 4 else e)

/-- `CovModel.default_arg_bounds` without `anis` -/
def baseBounds : List (Arg × Bound α) :=
  [(.var, ⟨((0:Nat):α), none, .oo⟩), (.lenScale, ⟨((0:Nat):α), none, .oo⟩),
   (.nugget, ⟨((0:Nat):α), none, .co⟩)]

/-- `default_opt_arg_bounds()` of each class, in the order of the returned dict, with `self.dim = d`.
    Two-element bounds mean `"cc"` (`check_arg_in_bounds`). -/
def optBounds (c : Cls) (d : Nat) : List (Arg × Bound α) :=
  let two : α := ((2:Nat):α)
  let fifty : α := ((50:Nat):α)
  match c with
  | .Stable => [(.alpha, ⟨((0:Nat):α), some two, .oc⟩)]
  | .Matern => [(.nu, ⟨dbl02, some ((30:Nat):α), .cc⟩)]
  | .Integral => [(.nu, ⟨((0:Nat):α), some fifty, .oc⟩)]
  | .Rational => [(.alpha, ⟨((1:Nat):α) / two, some fifty, .cc⟩)]
  | .SuperSpherical => [(.nu, ⟨(((d:Nat):α) - ((1:Nat):α)) / two, some fifty, .cc⟩)]
  | .JBessel => [(.nu, ⟨((d:Nat):α) / two - ((1:Nat):α), some fifty, .cc⟩)]
  | .TPLSimple => [(.nu, ⟨(((d:Nat):α) + ((1:Nat):α)) / two, some fifty, .cc⟩)]
  | .TPLGaussian => [(.hurst, ⟨dbl01, some ((1:Nat):α), .oo⟩), (.lenLow, ⟨((0:Nat):α), none, .co⟩)]
  | .TPLExponential => [(.hurst, ⟨dbl01, some ((1:Nat):α), .oo⟩), (.lenLow, ⟨((0:Nat):α), none, .co⟩)]
  | .TPLStable => [(.hurst, ⟨dbl01, some ((1:Nat):α), .oo⟩), (.alpha, ⟨((0:Nat):α), some two, .oc⟩),
                   (.lenLow, ⟨((0:Nat):α), none, .co⟩)]
  | _ => []

/-- `default_opt_arg()` of each class with `self.dim = d` (sorted by name as `model.opt_arg`) -/
def optDefaults (c : Cls) (d : Nat) : List (Arg × α) :=
  let two : α := ((2:Nat):α)
  match c with
  | .Stable => [(.alpha, ((3:Nat):α) / two)]
  | .Matern => [(.nu, ((1:Nat):α))]
  | .Integral => [(.nu, ((1:Nat):α))]
  | .Rational => [(.alpha, ((1:Nat):α))]
  | .SuperSpherical => [(.nu, (((d:Nat):α) - ((1:Nat):α)) / two)]
  | .JBessel => [(.nu, ((d:Nat):α) / two)]
  | .TPLSimple => [(.nu, (((d:Nat):α) + ((1:Nat):α)) / two)]
  | .TPLGaussian => [(.hurst, ((1:Nat):α) / two), (.lenLow, ((0:Nat):α))]
  | .TPLExponential => [(.hurst, ((1:Nat):α) / ((4:Nat):α)), (.lenLow, ((0:Nat):α))]
  | .TPLStable => [(.alpha, ((3:Nat):α) / two), (.hurst, ((1:Nat):α) / two), (.lenLow, ((0:Nat):α))]
  | _ => []

/-- all bounds in the order `model.arg_bounds` is iterated by `check_arg_bounds` -/
def allBounds (c : Cls) (d : Nat) : List (Arg × Bound α) := baseBounds ++ optBounds c d

/-- `check_arg_bounds`: the first argument outside its interval raises (argument, error case) -/
def firstError (bs : List (Arg × Bound α)) (p : Params α) : Option (Arg × Nat) :=
  bs.findSome? fun (a, b) => let e := errCase b (p.get a); if e = 0 then none else some (a, e)

/-- every argument outside its interval (diagnostics: the TPL classes compute `var` through a `var_factor`
    that is NaN / 0 for degenerate `len_scale`, `hurst`, which can hide the `var` error behind a later one) -/
def allErrors (bs : List (Arg × Bound α)) (p : Params α) : List (Arg × Nat) :=
  bs.filterMap fun (a, b) => let e := errCase b (p.get a); if e = 0 then none else some (a, e)

/-- default parameters of class `c` in dimension `d` (`var = len_scale = 1`, `nugget = 0`) -/
def defaultParams (c : Cls) (d : Nat) : Params α :=
  let get (a : Arg) : α := ((optDefaults (α := α) c d).find? (fun x => x.1 == a)).elim ((0:Nat):α) (·.2)
  ⟨((1:Nat):α), ((1:Nat):α), ((0:Nat):α), get .nu, get .alpha, get .hurst, get .lenLow⟩

/-- **The code's acceptance predicate**: a model of class `c` constructed in dimension `d` with
    parameters `p` raises nothing and emits no invalid-dimension warning. -/
def accepts (c : Cls) (d : Nat) (p : Params α) : Bool :=
  checkDim c d && (firstError (allBounds c d) p).isNone

/-- Acceptance after `model.dim = d1` on a model constructed with dimension `d0`: `set_dim` re-runs
    `check_dim(d1)` and `check_arg_bounds()`, but the bounds are the ones stored at construction. -/
def acceptsAfterSetDim (c : Cls) (d0 d1 : Nat) (p : Params α) : Bool :=
  checkDim c d1 && (firstError (allBounds c d0) p).isNone

/-! ### literature validity -/

/-- The validity condition of each family as a covariance in `ℝ^d` (class docstrings; Matérn 1960,
    Schoenberg 1938, Askey 1973, Golubov 1981, Gneiting 1999, Chilès & Delfiner, Di Federico & Neuman 1997):
    * Gaussian, Exponential: every `d`;  Matern, Integral `ν > 0`;  Stable `0 < α ≤ 2`;  Rational `α > 0`;
    * Cubic `d ≤ 3`, Linear `d ≤ 1`, Circular `d ≤ 2`, Spherical `d ≤ 3`;
    * HyperSpherical: the `d`-ball intersection model in its own dimension — every `d`;
    * SuperSpherical `ν ≥ (d−1)/2`;  JBessel `ν ≥ d/2 − 1`;  TPLSimple `ν ≥ (d+1)/2`;
    * TPLGaussian / TPLExponential `0 < H < 1`, `ℓ_low ≥ 0`;  TPLStable additionally `0 < α ≤ 2`. -/
def litValidShape (c : Cls) (d : Nat) (p : Params α) : Prop :=
  let two : α := ((2:Nat):α)
  match c with
  | .Gaussian => True
  | .Exponential => True
  | .Matern => ((0:Nat):α) < p.nu
  | .Integral => ((0:Nat):α) < p.nu
  | .Stable => ((0:Nat):α) < p.alpha ∧ p.alpha ≤ two
  | .Rational => ((0:Nat):α) < p.alpha
  | .Cubic => d ≤ 3
  | .Linear => d ≤ 1
  | .Circular => d ≤ 2
  | .Spherical => d ≤ 3
  | .HyperSpherical => True
  | .SuperSpherical => (((d:Nat):α) - ((1:Nat):α)) / two ≤ p.nu
  | .JBessel => ((d:Nat):α) / two - ((1:Nat):α) ≤ p.nu
  | .TPLSimple => (((d:Nat):α) + ((1:Nat):α)) / two ≤ p.nu
  | .TPLGaussian => ((0:Nat):α) < p.hurst ∧ p.hurst < ((1:Nat):α) ∧ ((0:Nat):α) ≤ p.lenLow
  | .TPLExponential => ((0:Nat):α) < p.hurst ∧ p.hurst < ((1:Nat):α) ∧ ((0:Nat):α) ≤ p.lenLow
  | .TPLStable => ((0:Nat):α) < p.hurst ∧ p.hurst < ((1:Nat):α) ∧ ((0:Nat):α) ≤ p.lenLow ∧
                  ((0:Nat):α) < p.alpha ∧ p.alpha ≤ two

/-- shape condition + `var ≥ 0`, `len_scale > 0`, `nugget ≥ 0` -/
def litValid (c : Cls) (d : Nat) (p : Params α) : Prop :=
  ((0:Nat):α) ≤ p.var ∧ ((0:Nat):α) < p.lenScale ∧ ((0:Nat):α) ≤ p.nugget ∧ litValidShape c d p

end scalar

/-! ### in-place histories of one model object

`CovModel` keeps no cache: every evaluator (`cor`, `correlation`, `variogram`, `covariance`, `spectral_density`,
`cov_spatial`, …) reads `self.dim` and the parameter attributes at the time of the call.  The setters
(`covmodel/base.py`, `covmodel/tools.py: set_dim`) store the new value FIRST and then run `check_arg_bounds()` against
the bounds stored by `__init__` (`default_opt_arg_bounds()` evaluated with the dimension at construction, never
recomputed — finding D8); `set_dim` raises for `dim < 1` before anything is stored, forces `3 (+1)` on a lat-lon model
and warns when `check_dim` fails. -/

section history
variable {α : Type} [Arith α] [DecidableLT α] [DecidableLE α]

/-- `setattr(model, a, v)` on the parameter record -/
def Params.set (p : Params α) : Arg → α → Params α
  | .var, v => { p with var := v }
  | .lenScale, v => { p with lenScale := v }
  | .nugget, v => { p with nugget := v }
  | .nu, v => { p with nu := v }
  | .alpha, v => { p with alpha := v }
  | .hurst, v => { p with hurst := v }
  | .lenLow, v => { p with lenLow := v }

/-- state of one model object: class, the dimension whose `default_opt_arg_bounds` were stored at construction,
    the current dimension, the dimension forced by lat-lon (`none`: free), the current parameter values -/
structure HState (α : Type) where
  cls : Cls
  boundsDim : Nat
  dim : Nat
  forced : Option Nat
  p : Params α

/-- public operations on a model object -/
inductive HOp (α : Type)
  | eval                          -- any read access (variogram, covariance, spectrum, plot, fit residual, …)
  | setDim (d : Nat)              -- `model.dim = d`
  | setArg (a : Arg) (v : α)      -- `model.var = v`, `model.len_scale = v`, `model.nugget = v`, `model.<opt_arg> = v`

def HOp.isEval : HOp α → Bool
  | .eval => true
  | _ => false

/-- what the caller sees of one operation: invalid-dimension warning, the `(argument, error case)` raised by
    `check_arg_bounds`, `ValueError` for a dimension below 1 -/
structure HOut where
  warn : Bool
  err : Option (Arg × Nat)
  dimErr : Bool

def hInit (c : Cls) (d : Nat) (forced : Option Nat) (p : Params α) : HState α := ⟨c, d, d, forced, p⟩

def hStep (s : HState α) : HOp α → HState α × HOut
  | .eval => (s, ⟨false, none, false⟩)
  | .setDim d =>
      let d' := s.forced.getD d
      if d' < 1 then (s, ⟨false, none, true⟩)
      else
        let s' : HState α := { s with dim := d' }
        (s', ⟨!checkDim s.cls d', firstError (allBounds s.cls s.boundsDim) s.p, false⟩)
  | .setArg a v =>
      let s' : HState α := { s with p := s.p.set a v }
      (s', ⟨false, firstError (allBounds s.cls s.boundsDim) s'.p, false⟩)

def hRun (s : HState α) (ops : List (HOp α)) : HState α := ops.foldl (fun st o => (hStep st o).1) s

/-- state and the outputs of every operation -/
def hTrace (s : HState α) : List (HOp α) → HState α × List HOut
  | [] => (s, [])
  | o :: os =>
      let r := hStep s o
      let t := hTrace r.1 os
      (t.1, r.2 :: t.2)

/-- the state is one the object itself accepts: current dimension passes `check_dim`, current values pass the STORED
    bounds (what `check_arg_bounds()` would say now) -/
def hAccepted (s : HState α) : Bool := acceptsAfterSetDim s.cls s.boundsDim s.dim s.p

/-- a freshly constructed model with the same dimension and values is accepted -/
def hFreshAccepted (s : HState α) : Bool := accepts s.cls s.dim s.p

/-- the classes whose optional-argument bounds do not depend on the dimension -/
def dimIndepBounds : Cls → Bool
  | .SuperSpherical => false
  | .JBessel => false
  | .TPLSimple => false
  | _ => true

end history

/-! ### the truncated power-law (TPL) classes: truncation scales and two-term correlation

`TPLCovModel` (`covmodel/tpl_models.py`): every length that enters the correlation is a *rescaled* one —
`len_low_rescaled = len_low / rescale`, `len_up_rescaled = (len_low + len_scale) / rescale`,
`len_rescaled = len_scale / rescale` — and `TPLGaussian/TPLExponential/TPLStable.correlation` is
```
if np.isclose(len_low_rescaled, 0.0):  tplstable_cor(r, len_rescaled, H, α)
else: (up**(2H) * tplstable_cor(r, up, H, α) - lo**(2H) * tplstable_cor(r, lo, H, α)) / (up**(2H) - lo**(2H))
```
with `lo = len_low_rescaled`, `up = len_up_rescaled`.  `tplstable_cor(r, ℓ, H, α)` is the `len_low = 0` model at
upper scale `ℓ`; its value enters here as a number (`tUp`, `tLo`), the part modelled is which scales and which
weights the class combines them with.  `GSV/Props/C02.lean` proves that this is the normalised superposition
`∫_{lo}^{up} w(λ) φ(r/λ) dλ`, `w ≥ 0`, `∫ w = 1`. -/

section tpl
variable {α : Type} [Arith α] [Transc α] [DecidableLE α]

/-- the truncation scales `correlation` works with; `snap` = the `np.isclose(len_low_rescaled, 0)` branch -/
structure TplScales (α : Type) where
  lo : α
  up : α
  snap : Bool

/-- `np.isclose(x, 0.0)` is `|x| ≤ atol = 1e-8` -/
def tplScales (lenScale lenLow rescale : α) : TplScales α :=
  let lo := lenLow / rescale
  if Transc.fabs lo ≤ (1e-8 : α) then ⟨((0:Nat):α), lenScale / rescale, true⟩
  else ⟨lo, (lenLow + lenScale) / rescale, false⟩

/-- weight of the upper-scale term `up^{2H} / (up^{2H} − lo^{2H})` -/
def tplWeightUp (s : TplScales α) (H : α) : α :=
  let a := Transc.rpow s.up (((2:Nat):α) * H)
  let b := Transc.rpow s.lo (((2:Nat):α) * H)
  a / (a - b)

/-- weight of the (subtracted) lower-scale term `lo^{2H} / (up^{2H} − lo^{2H})` -/
def tplWeightLow (s : TplScales α) (H : α) : α :=
  let a := Transc.rpow s.up (((2:Nat):α) * H)
  let b := Transc.rpow s.lo (((2:Nat):α) * H)
  b / (a - b)

/-- `correlation(r)` of a TPL class, given the values `tUp = tplstable_cor(r, s.up, H, α)` and
    `tLo = tplstable_cor(r, s.lo, H, α)` of the two untruncated terms -/
def tplCor (s : TplScales α) (H tUp tLo : α) : α :=
  if s.snap then tUp else
  let a := Transc.rpow s.up (((2:Nat):α) * H)
  let b := Transc.rpow s.lo (((2:Nat):α) * H)
  (a * tUp - b * tLo) / (a - b)

/-- `TPLCovModel.var_factor` = `(up^{2H} − lo^{2H}) / (2H)` with the plain rescaled lengths (no snap) -/
def tplVarFactor (lenScale lenLow rescale H : α) : α :=
  (Transc.rpow ((lenLow + lenScale) / rescale) (((2:Nat):α) * H)
    - Transc.rpow (lenLow / rescale) (((2:Nat):α) * H)) / (((2:Nat):α) * H)

end tpl

/-! ### driver operations (scalar = `Rat`; the TPL scales / weights on `Float`) -/

def boundJson (b : Bound Rat) : Json :=
  Json.arr #[rat b.lo, (match b.hi with | none => Json.null | some h => rat h), Json.str b.iv.name]

def getRatD (j : Json) (k : String) (dflt : Rat) : Rat :=
  match getRat j k with | .ok v => v | .error _ => dflt

def getCls (j : Json) : Except String Cls := do
  let s ← getStr j "cls"
  match Cls.ofName s with | some c => pure c | none => throw s!"unknown class {s}"

def getDims (j : Json) : Except String (Except String Nat) := do
  let dim ← getNat j "dim"
  let sd := match getNat j "spatial_dim" with | .ok s => some s | .error _ => none
  let latlon := match getBool j "latlon" with | .ok b => b | .error _ => false
  let temporal := match getBool j "temporal" with | .ok b => b | .error _ => false
  return modelDim dim sd latlon temporal

def getParams (j : Json) (c : Cls) (d : Nat) : Params Rat :=
  let dp : Params Rat := defaultParams c d
  ⟨getRatD j "var" dp.var, getRatD j "len_scale" dp.lenScale, getRatD j "nugget" dp.nugget,
   getRatD j "nu" dp.nu, getRatD j "alpha" dp.alpha, getRatD j "hurst" dp.hurst, getRatD j "len_low" dp.lenLow⟩

def errJson : Option (Arg × Nat) → Json
  | none => Json.str "ok"
  | some (a, e) => Json.arr #[Json.str a.name, Json.num (JsonNumber.fromNat e)]

/-- line-protocol operations of this model; `none` = not one of mine -/
def ops (op : String) (j : Json) : Option (Except String Json) :=
  match op with
  | "c02_table" => some (do
      let c ← getCls j
      match (← getDims j) with
      | .error e => return Json.mkObj [("error_kind", Json.str e)]
      | .ok d =>
        return Json.mkObj [
          ("dim", Json.num (JsonNumber.fromNat d)),
          ("check_dim", Json.bool (checkDim c d)),
          ("opt_arg", Json.arr ((optDefaults (α := Rat) c d).map fun x => Json.str x.1.name).toArray),
          ("defaults", Json.arr ((optDefaults (α := Rat) c d).map fun x => rat x.2).toArray),
          ("bounds", Json.mkObj ((optBounds (α := Rat) c d).map fun x => (x.1.name, boundJson x.2))),
          ("default_accepted", Json.bool (accepts c d (defaultParams (α := Rat) c d)))])
  | "c02_accepts" => some (do
      let c ← getCls j
      match (← getDims j) with
      | .error e => return Json.mkObj [("error_kind", Json.str e)]
      | .ok d =>
        let p := getParams j c d
        return Json.mkObj [
          ("dim", Json.num (JsonNumber.fromNat d)),
          ("warn", Json.bool (!checkDim c d)),
          ("result", errJson (firstError (allBounds c d) p)),
          ("all_errors", Json.arr ((allErrors (allBounds c d) p).map fun e => errJson (some e)).toArray),
          ("accepts", Json.bool (accepts c d p))])
  | "c02_setdim" => some (do
      let c ← getCls j
      let d0 ← getNat j "dim"
      let d1 ← getNat j "new_dim"
      if d0 < 1 || d1 < 1 then return Json.mkObj [("error_kind", Json.str "ValueError")] else
      let p := getParams j c d0
      return Json.mkObj [
        ("construct", errJson (firstError (allBounds c d0) p)),
        ("warn", Json.bool (!checkDim c d1)),
        ("result", errJson (firstError (allBounds c d0) p)),
        ("accepts", Json.bool (acceptsAfterSetDim c d0 d1 p)),
        ("fresh_accepts", Json.bool (accepts c d1 p))])
  | "c02_history" => some (do
      let c ← getCls j
      let latlon := match getBool j "latlon" with | .ok b => b | .error _ => false
      let temporal := match getBool j "temporal" with | .ok b => b | .error _ => false
      match (← getDims j) with
      | .error e => return Json.mkObj [("error_kind", Json.str e)]
      | .ok d =>
        let p := getParams j c d
        let kinds ← getNats j "kinds"
        let args ← getNats j "args"
        let vals ← getRats j "vals"
        let argOf : Nat → Arg := fun i => ([Arg.var, .lenScale, .nugget, .nu, .alpha, .hurst, .lenLow][i]?).getD .var
        let ops : List (HOp Rat) := (List.range kinds.size).map fun i =>
          match kinds[i]! with
          | 0 => HOp.eval
          | 1 => HOp.setDim (args[i]?.getD 0)
          | _ => HOp.setArg (argOf (args[i]?.getD 0)) (vals[i]?.getD 0)
        let s0 : HState Rat := hInit c d (if latlon then some (3 + (if temporal then 1 else 0)) else none) p
        let t := hTrace s0 ops
        let s := t.1
        return Json.mkObj [
          ("construct", errJson (firstError (allBounds c d) p)),
          ("construct_warn", Json.bool (!checkDim c d)),
          ("warn", Json.arr (t.2.map fun o => Json.bool o.warn).toArray),
          ("err", Json.arr (t.2.map fun o => if o.dimErr then Json.str "ValueError" else errJson o.err).toArray),
          ("dim", Json.num (JsonNumber.fromNat s.dim)),
          ("bounds_dim", Json.num (JsonNumber.fromNat s.boundsDim)),
          ("params", rl [s.p.var, s.p.lenScale, s.p.nugget, s.p.nu, s.p.alpha, s.p.hurst, s.p.lenLow]),
          ("accepted", Json.bool (hAccepted s)),
          ("fresh_accepted", Json.bool (hFreshAccepted s))])
  | "c02_tpl_mix" => some (do
      let ls ← getFloat j "len_scale"
      let ll ← getFloat j "len_low"
      let rs ← getFloat j "rescale"
      let h ← getFloat j "hurst"
      let tu ← getFloats j "t_up"
      let tl ← getFloats j "t_lo"
      let s : TplScales Float := tplScales ls ll rs
      let cor := (List.range tu.size).map fun i => tplCor s h tu[i]! (tl[i]?.getD 1.0)
      return Json.mkObj [
        ("lo", fbits s.lo), ("up", fbits s.up), ("snap", Json.bool s.snap),
        ("len_low_rescaled", fbits (ll / rs)), ("len_up_rescaled", fbits ((ll + ls) / rs)),
        ("w_up", fbits (tplWeightUp s h)), ("w_low", fbits (tplWeightLow s h)),
        ("var_factor", fbits (tplVarFactor ls ll rs h)),
        ("cor", fl cor)])
  | _ => none

end GSV.Model.Validity
