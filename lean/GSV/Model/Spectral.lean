/- Hand-written executable model (tie B): Spectral.  Core Lean only — no Mathlib import in this file. -/
import GSV.Proto
open Lean GSV GSV.Proto GSV.Transc
namespace GSV.Model.Spectral

/-- line-protocol operations of this model; `none` = not one of mine -/
def ops (op : String) (j : Json) : Option (Except String Json) :=
  match op with
  | _ => none

end GSV.Model.Spectral
