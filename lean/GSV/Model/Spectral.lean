/- Hand-written executable model (tie B): Spectral — the spectral side of `gstools/covmodel`:
   `rad_fac`, `spectral_rad_pdf` (tools.py), `CovModel.spectrum / ln_spectral_rad_pdf / has_cdf / has_ppf /
   dist_func` (base.py) and the analytic overrides of `Gaussian`, `Exponential` (density, radial cdf, radial
   ppf), `Matern` (both branches) and `JBessel` (models.py).
   Core Lean only — no Mathlib import in this file.

   Every formula is written expression by expression as in the code (same operation order, so the `Float`
   run differs from numpy only by libm rounding).  Functions that are not in `Transc` (`erf`, `erfinv`,
   `gamma`, `loggamma`) are *parameters* (`Special α`): the driver supplies series implementations on `Float`
   (bottom of this file), `GSV/Lemmas/Spectral.lean` supplies the real ones (`erf x = 2/√π ∫₀ˣ e^{-t²}`).
   `sps.gamma` at the half-integers the code uses (`Γ((d+1)/2)`, `Γ(d/2+1)`) is the recursion `gammaHalf`.
   Where the code offers nothing (`return None`) the model returns `PpfOut.notOffered` / `none`. -/
import GSV.Proto
open Lean GSV GSV.Proto GSV.Transc
namespace GSV.Model.Spectral

variable {α : Type} [Arith α] [Transc α] [DecidableLT α] [DecidableLE α]

/-- special functions outside `Transc`, supplied by the carrier -/
structure Special (α : Type) where
  erf : α → α
  erfinv : α → α
  gamma : α → α
  lgamma : α → α

/-- `Γ(n/2)` for `n ≥ 1` by `Γ(1/2)=√π`, `Γ(1)=1`, `Γ(x+1)=xΓ(x)` (`gammaHalf 0` is a dummy `0`) -/
def gammaHalf : Nat → α
  | 0 => ((0:Nat):α)
  | 1 => sqrt Transc.pi
  | 2 => ((1:Nat):α)
  | n + 2 => ((n:Nat):α) / ((2:Nat):α) * gammaHalf n

/-- `model.len_rescaled = len_scale / rescale` -/
def lenRescaled (len rescale : α) : α := len / rescale

/-- `tools.rad_fac(dim, r)` -/
def radFac (d : Nat) (r : α) : α :=
  match d with
  | 1 => ((2:Nat):α)
  | 2 => ((2:Nat):α) * Transc.pi * r
  | 3 => ((4:Nat):α) * Transc.pi * npow r 2
  | _ => ((d:Nat):α) * npow r (d - 1) * npow (sqrt Transc.pi) d / gammaHalf (d + 2)

/-- `np.isclose(r, 0)` with default tolerances: `|r| <= 1e-8` -/
def isclose0 (r : α) : Bool := decide (fabs r ≤ (1e-8:α))

/-- the two repair lines at the end of `spectral_rad_pdf`: non-finite → 0, then `np.maximum(res, 0)` -/
def finish (res : α) : α :=
  if isnan (res - res) then ((0:Nat):α) else if res < ((0:Nat):α) then ((0:Nat):α) else res

/-- `tools.spectral_rad_pdf(model, r)` for a model of dimension `d` with spectral density `dens` -/
def radPdf (d : Nat) (dens : α → α) (r : α) : α :=
  let r := fabs r
  if d > 1 then
    (if isclose0 r then ((0:Nat):α) else finish (radFac d r * fabs (dens r)))
  else finish (radFac d r * fabs (dens r))

/-- `CovModel.ln_spectral_rad_pdf` -/
def lnRadPdf (d : Nat) (dens : α → α) (r : α) : α := log (radPdf d dens r)

/-- `CovModel.spectrum(k) = spectral_density(k) * var` -/
def spectrum (var : α) (dens : α → α) (k : α) : α := dens k * var

/-- `CovModel.correlation(r) = cor(r / len_rescaled)` -/
def correlation (cor : α → α) (ℓ r : α) : α := cor (r / ℓ)

/-! ### Gaussian -/

def gauCor (h : α) : α := exp (-(npow h 2))

/-- `Gaussian.spectral_density` (`ℓ = len_rescaled`) -/
def gauDensity (d : Nat) (ℓ k : α) : α :=
  npow (ℓ / ((2:Nat):α) / sqrt Transc.pi) d * exp (-(npow (k * ℓ / ((2:Nat):α)) 2))

/-- `Gaussian.spectral_rad_cdf`; `none` = `return None` -/
def gauCdf (sp : Special α) (d : Nat) (ℓ r : α) : Option α :=
  match d with
  | 1 => some (sp.erf (r * ℓ / ((2:Nat):α)))
  | 2 => some (((1:Nat):α) - exp (-(npow (r * ℓ / ((2:Nat):α)) 2)))
  | 3 => some (sp.erf (r * ℓ / ((2:Nat):α)) - r * ℓ / sqrt Transc.pi * exp (-(npow (r * ℓ / ((2:Nat):α)) 2)))
  | _ => none

/-- `Gaussian.spectral_rad_ppf` -/
def gauPpf (sp : Special α) (d : Nat) (ℓ u : α) : Option α :=
  match d with
  | 1 => some (((2:Nat):α) / ℓ * sp.erfinv u)
  | 2 => some (((2:Nat):α) / ℓ * sqrt (-(log (((1:Nat):α) - u))))
  | _ => none

/-! ### Exponential -/

def expCor (h : α) : α := exp (-h)

/-- `np.arctan` through the scalar interface -/
def atan (x : α) : α := atan2 x ((1:Nat):α)

/-- `Exponential.spectral_density` -/
def expDensity (d : Nat) (ℓ k : α) : α :=
  npow ℓ d * gammaHalf (d + 1)
    / rpow (Transc.pi * (((1:Nat):α) + npow (k * ℓ) 2)) (((d + 1 : Nat):α) / ((2:Nat):α))

/-- `Exponential.spectral_rad_cdf` -/
def expCdf (d : Nat) (ℓ r : α) : Option α :=
  match d with
  | 1 => some (atan (r * ℓ) * ((2:Nat):α) / Transc.pi)
  | 2 => some (((1:Nat):α) - ((1:Nat):α) / sqrt (((1:Nat):α) + npow (r * ℓ) 2))
  | 3 => some ((atan (r * ℓ) - r * ℓ / (((1:Nat):α) + npow (r * ℓ) 2)) * ((2:Nat):α) / Transc.pi)
  | _ => none

/-- result of a ppf: the code returns `None`, `inf`, or a number -/
inductive PpfOut (α : Type) where
  | notOffered
  | infinite
  | value (x : α)

/-- `Exponential.spectral_rad_ppf` (`np.divide(1, u**2, out=inf, where=not isclose(u, 0))`) -/
def expPpf (d : Nat) (ℓ u : α) : PpfOut α :=
  match d with
  | 1 => .value (sin (Transc.pi / ((2:Nat):α) * u) / cos (Transc.pi / ((2:Nat):α) * u) / ℓ)
  | 2 => if isclose0 u then .infinite
         else .value (sqrt (((1:Nat):α) / npow u 2 - ((1:Nat):α)) / ℓ)
  | _ => .notOffered

/-! ### Matern, JBessel -/

/-- `Matern.cor` for `nu > 20` (the Gaussian limit the code switches to) -/
def maternBigCor (h : α) : α := exp (-(npow (h / ((2:Nat):α)) 2))

/-- `Matern.spectral_density` -/
def maternDensity (sp : Special α) (d : Nat) (ℓ ν k : α) : α :=
  let x := npow (k * ℓ) 2
  if ν > ((20:Nat):α) then
    npow (ℓ / sqrt Transc.pi) d * exp (-x) * (((1:Nat):α) + (0.5:α) * npow x 2 / ν)
      * rpow (sqrt (((1:Nat):α) + x / ν)) (-((d:Nat):α))
  else
    npow (ℓ / sqrt Transc.pi) d * exp (
      -(ν + ((d:Nat):α) / ((2:Nat):α)) * log (((1:Nat):α) + x / ν)
      + sp.lgamma (ν + ((d:Nat):α) / ((2:Nat):α))
      - sp.lgamma ν
      - ((d:Nat):α) * log (sqrt ν))

/-- what the transform of `maternBigCor` really is: the Gaussian density with doubled length -/
def maternBigExact (d : Nat) (ℓ k : α) : α := gauDensity d (((2:Nat):α) * ℓ) k

/-- `JBessel.spectral_density`: the divisor `gamma(nu - d/2 + 1)` is cut at `100` only near its pole
    (`nu - d/2 + 1 < 1`), as in the code after the D19 repair -/
def jbesselDensity (sp : Special α) (d : Nat) (ℓ ν k : α) : α :=
  if k < ((1:Nat):α) / ℓ then
    let a := ν - ((d:Nat):α) / ((2:Nat):α) + ((1:Nat):α)
    let g := sp.gamma a
    let divisor := if a < ((1:Nat):α) then (if ((100:Nat):α) < g then ((100:Nat):α) else g) else g
    npow (ℓ / sqrt Transc.pi) d * sp.gamma (ν + ((1:Nat):α))
      / divisor
      * rpow (((1:Nat):α) - npow (k * ℓ) 2) (ν - ((d:Nat):α) / ((2:Nat):α))
  else ((0:Nat):α)

/-! ### which classes offer what -/

/-- the 17 shipped model classes -/
def classes : List String :=
  ["Gaussian", "Exponential", "Matern", "Integral", "Stable", "Rational", "Cubic", "Linear", "Circular",
   "Spherical", "HyperSpherical", "SuperSpherical", "JBessel", "TPLGaussian", "TPLExponential", "TPLStable",
   "TPLSimple"]

/-- `model.has_cdf` -/
def hasCdf (cls : String) (d : Nat) : Bool :=
  (cls == "Gaussian" || cls == "Exponential") && (d == 1 || d == 2 || d == 3)

/-- `model.has_ppf` -/
def hasPpf (cls : String) (d : Nat) : Bool :=
  (cls == "Gaussian" || cls == "Exponential") && (d == 1 || d == 2)

/-- the class overrides `spectral_density` (otherwise: numerical Hankel default) -/
def analyticDensity (cls : String) : Bool :=
  ["Gaussian", "Exponential", "Matern", "Integral", "HyperSpherical", "JBessel", "TPLGaussian",
   "TPLExponential"].contains cls

/-- shape of `model.dist_func`: (pdf, cdf-or-None, ppf-or-None) -/
def distFuncShape (cls : String) (d : Nat) : Bool × Bool × Bool := (true, hasCdf cls d, hasPpf cls d)

/-! ### `Float` special functions (driver side only) -/

namespace F

/-- `erf` for `|x| ≤ 3`: `2/√π · e^{-x²} Σ 2ⁿ x^{2n+1}/(2n+1)!!` (positive terms) -/
def erfSeries (x : Float) : Float := Id.run do
  let x2 := x * x
  let mut term := x
  let mut s := x
  for n in [1:200] do
    term := term * 2.0 * x2 / (2.0 * n.toFloat + 1.0)
    s := s + term
  return 2.0 / Float.sqrt 3.141592653589793 * Float.exp (-x2) * s

/-- `erfc` for `x > 3` by the continued fraction `e^{-x²}/√π · 1/(x+ (1/2)/(x+ 1/(x+ (3/2)/(x+ …))))` -/
def erfcCF (x : Float) : Float := Id.run do
  let mut f := x
  for i in [0:120] do
    let k := (120 - i).toFloat
    f := x + (k / 2.0) / f
  return Float.exp (-(x * x)) / Float.sqrt 3.141592653589793 / f

def erf (x : Float) : Float :=
  if x.isNaN then x
  else if x < 0.0 then -(if -x ≤ 3.0 then erfSeries (-x) else 1.0 - erfcCF (-x))
  else if x ≤ 3.0 then erfSeries x else 1.0 - erfcCF x

/-- `log Γ(x)` for `x > 0`: shift to `x ≥ 16` (`Γ(x) = Γ(x+n) / (x (x+1) … (x+n-1))`, the product stays below
    `16^16`), then Stirling's series -/
def lgamma (x : Float) : Float := Id.run do
  if x.isNaN then return x
  if x ≤ 0.0 then return (1.0 / 0.0)
  let mut y := x
  let mut p := 1.0
  for _ in [0:16] do
    if y < 16.0 then
      p := p * y
      y := y + 1.0
  let z := 1.0 / (y * y)
  let ser := (1.0 / 12.0 - z * (1.0 / 360.0 - z * (1.0 / 1260.0 - z * (1.0 / 1680.0 - z * (1.0 / 1188.0
    - z * (691.0 / 360360.0 - z * (1.0 / 156.0))))))) / y
  return (y - 0.5) * Float.log y - y + 0.9189385332046727 + ser - Float.log p

/-- `Γ(x)` for `x ≥ 0` (`Γ(0) = +inf` as in scipy) -/
def gamma (x : Float) : Float := if x == 0.0 then 1.0 / 0.0 else Float.exp (lgamma x)

/-- `erfinv` on `(-1, 1)`: Winitzki start + Newton/Halley steps on `erf` -/
def erfinv (u : Float) : Float := Id.run do
  if u.isNaN then return u
  if u ≥ 1.0 then return (if u == 1.0 then 1.0 / 0.0 else 0.0 / 0.0)
  if u ≤ -1.0 then return (if u == -1.0 then -(1.0 / 0.0) else 0.0 / 0.0)
  let a := 0.147
  let l := Float.log (1.0 - u * u)
  let t := 2.0 / (3.141592653589793 * a) + l / 2.0
  let mut x := Float.sqrt (Float.sqrt (t * t - l / a) - t)
  if u < 0.0 then x := -x
  for _ in [0:6] do
    let e := erf x - u
    let d := 2.0 / Float.sqrt 3.141592653589793 * Float.exp (-(x * x))
    let s := e / d
    x := x - s / (1.0 + x * s)
  return x

def special : Special Float := ⟨erf, erfinv, gamma, lgamma⟩

end F

/-! ### driver -/

private def optF : Option Float → Float
  | some x => x
  | none => 0.0 / 0.0

private def ppfJ : PpfOut Float → Json
  | .notOffered => Json.null
  | .infinite => fbits (1.0 / 0.0)
  | .value x => fbits x

/-- density of one of the modelled classes; `none` = class not modelled -/
def densityOf (cls : String) (d : Nat) (ℓ ν : Float) : Option (Float → Float) :=
  match cls with
  | "Gaussian" => some (gauDensity d ℓ)
  | "Exponential" => some (expDensity d ℓ)
  | "Matern" => some (maternDensity F.special d ℓ ν)
  | "JBessel" => some (jbesselDensity F.special d ℓ ν)
  | _ => none

/-- line-protocol operations of this model; `none` = not one of mine -/
def ops (op : String) (j : Json) : Option (Except String Json) :=
  match op with
  | "spec_radfac" => some (do
      let d ← getNat j "dim"
      let rs ← getFloats j "r"
      return fl (rs.toList.map (radFac d)))
  | "spec_eval" => some (do
      let cls ← getStr j "cls"
      let d ← getNat j "dim"
      let len ← getFloat j "len"
      let resc ← getFloat j "rescale"
      let var ← getFloat j "var"
      let ν ← getFloat j "nu"
      let xs ← getFloats j "x"
      let what ← getStr j "what"
      let ℓ := lenRescaled len resc
      match densityOf cls d ℓ ν with
      | none => throw s!"spec_eval: class {cls} not modelled"
      | some dens =>
        match what with
        | "density" => return fl (xs.toList.map dens)
        | "spectrum" => return fl (xs.toList.map (spectrum var dens))
        | "rad_pdf" => return fl (xs.toList.map (radPdf d dens))
        | "ln_rad_pdf" => return fl (xs.toList.map (lnRadPdf d dens))
        | "cdf" =>
          match cls with
          | "Gaussian" =>
            if (gauCdf F.special d ℓ 0.0).isNone then return Json.null
            else return fl (xs.toList.map fun r => optF (gauCdf F.special d ℓ r))
          | "Exponential" =>
            if (expCdf d ℓ (0.0:Float)).isNone then return Json.null
            else return fl (xs.toList.map fun r => optF (expCdf d ℓ r))
          | _ => return Json.null
        | "ppf" =>
          match cls with
          | "Gaussian" =>
            if (gauPpf F.special d ℓ 0.5).isNone then return Json.null
            else return fl (xs.toList.map fun u => optF (gauPpf F.special d ℓ u))
          | "Exponential" =>
            match expPpf d ℓ (0.5:Float) with
            | .notOffered => return Json.null
            | _ => return Json.arr (xs.toList.map fun u => ppfJ (expPpf d ℓ u)).toArray
          | _ => return Json.null
        | _ => throw s!"spec_eval: unknown what {what}")
  | "spec_tables" => some (do
      let cls ← getStr j "cls"
      let d ← getNat j "dim"
      let (a, b, c) := distFuncShape cls d
      return Json.arr #[Json.bool (hasCdf cls d), Json.bool (hasPpf cls d), Json.bool (analyticDensity cls),
                        Json.bool a, Json.bool b, Json.bool c, Json.bool (classes.contains cls)])
  | "spec_special" => some (do
      let f ← getStr j "f"
      let xs ← getFloats j "x"
      match f with
      | "erf" => return fl (xs.toList.map F.erf)
      | "erfinv" => return fl (xs.toList.map F.erfinv)
      | "gamma" => return fl (xs.toList.map F.gamma)
      | "lgamma" => return fl (xs.toList.map F.lgamma)
      | "gammaHalf" => return fl (xs.toList.map fun x => (gammaHalf x.toUInt64.toNat : Float))
      | _ => throw s!"spec_special: unknown {f}")
  | _ => none

end GSV.Model.Spectral
