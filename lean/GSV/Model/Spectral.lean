/- Hand-written executable model (tie B): Spectral — the spectral side of `gstools/covmodel`:
   `rad_fac`, `spectral_rad_pdf` (tools.py), `CovModel.spectrum / ln_spectral_rad_pdf / has_cdf / has_ppf /
   dist_func` (base.py) and the analytic overrides of `Gaussian`, `Exponential` (density, radial cdf, radial
   ppf), `Matern` (both branches) and `JBessel` (models.py).
   Core Lean only — no Mathlib import in this file.

   Every formula is written expression by expression as in the code (same operation order, so the `Float`
   run differs from numpy only by libm rounding).  Functions that are not in `Transc` (`erf`, `erfinv`,
   `gamma`, `loggamma`) are *parameters* (`Special α`): the driver supplies series implementations on `Float`
   (bottom of this file), `GSV/Lemmas/Spectral.lean` supplies the real ones (`erf x = 2/√π ∫₀ˣ e^{-t²}`).
   `sps.gamma` at the half-integers the code uses (`Γ((d+1)/2)`, `Γ(d/2+1)`) is the recursion `gammaHalf`.
   Where the code offers nothing (`return None`) the model returns `PpfOut.notOffered` / `none`.
   Also: the two-scale combination of the truncated power law densities / correlations (`tplMix`, `tplDensity`,
   `tplCorrelation`) and the state machine of the settings a spectral evaluation reads (`Settings`, `Op`, `step`,
   `construct`: dimension, lengths, shape, `hankel_kw` and the transform object `_sft` built from them). -/
import GSV.Proto
open Lean GSV GSV.Proto GSV.Transc
namespace GSV.Model.Spectral

variable {α : Type} [Arith α] [Transc α] [DecidableLT α] [DecidableLE α]

/-- special functions outside `Transc`, supplied by the carrier -/
structure Special (α : Type) where
  erf : α → α
  erfinv : α → α
  gamma : α → α
  lgamma : α → α

/-- `Γ(n/2)` for `n ≥ 1` by `Γ(1/2)=√π`, `Γ(1)=1`, `Γ(x+1)=xΓ(x)` (`gammaHalf 0` is a dummy `0`) -/
def gammaHalf : Nat → α
  | 0 => ((0:Nat):α)
  | 1 => sqrt Transc.pi
  | 2 => ((1:Nat):α)
  | n + 2 => ((n:Nat):α) / ((2:Nat):α) * gammaHalf n

/-- `model.len_rescaled = len_scale / rescale` -/
def lenRescaled (len rescale : α) : α := len / rescale

/-- `tools.rad_fac(dim, r)` -/
def radFac (d : Nat) (r : α) : α :=
  match d with
  | 1 => ((2:Nat):α)
  | 2 => ((2:Nat):α) * Transc.pi * r
  | 3 => ((4:Nat):α) * Transc.pi * npow r 2
  | _ => ((d:Nat):α) * npow r (d - 1) * npow (sqrt Transc.pi) d / gammaHalf (d + 2)

/-- `np.isclose(r, 0)` with default tolerances: `|r| <= 1e-8` -/
def isclose0 (r : α) : Bool := decide (fabs r ≤ (1e-8:α))

/-- the two repair lines at the end of `spectral_rad_pdf`: non-finite → 0, then `np.maximum(res, 0)` -/
def finish (res : α) : α :=
  if isnan (res - res) then ((0:Nat):α) else if res < ((0:Nat):α) then ((0:Nat):α) else res

/-- `tools.spectral_rad_pdf(model, r)` for a model of dimension `d` with spectral density `dens` -/
def radPdf (d : Nat) (dens : α → α) (r : α) : α :=
  let r := fabs r
  if d > 1 then
    (if isclose0 r then ((0:Nat):α) else finish (radFac d r * fabs (dens r)))
  else finish (radFac d r * fabs (dens r))

/-- `CovModel.ln_spectral_rad_pdf` -/
def lnRadPdf (d : Nat) (dens : α → α) (r : α) : α := log (radPdf d dens r)

/-- `CovModel.spectrum(k) = spectral_density(k) * var` -/
def spectrum (var : α) (dens : α → α) (k : α) : α := dens k * var

/-- `CovModel.correlation(r) = cor(r / len_rescaled)` -/
def correlation (cor : α → α) (ℓ r : α) : α := cor (r / ℓ)

/-! ### Gaussian -/

def gauCor (h : α) : α := exp (-(npow h 2))

/-- `Gaussian.spectral_density` (`ℓ = len_rescaled`) -/
def gauDensity (d : Nat) (ℓ k : α) : α :=
  npow (ℓ / ((2:Nat):α) / sqrt Transc.pi) d * exp (-(npow (k * ℓ / ((2:Nat):α)) 2))

/-- `Gaussian.spectral_rad_cdf`; `none` = `return None` -/
def gauCdf (sp : Special α) (d : Nat) (ℓ r : α) : Option α :=
  match d with
  | 1 => some (sp.erf (r * ℓ / ((2:Nat):α)))
  | 2 => some (((1:Nat):α) - exp (-(npow (r * ℓ / ((2:Nat):α)) 2)))
  | 3 => some (sp.erf (r * ℓ / ((2:Nat):α)) - r * ℓ / sqrt Transc.pi * exp (-(npow (r * ℓ / ((2:Nat):α)) 2)))
  | _ => none

/-- `Gaussian.spectral_rad_ppf` -/
def gauPpf (sp : Special α) (d : Nat) (ℓ u : α) : Option α :=
  match d with
  | 1 => some (((2:Nat):α) / ℓ * sp.erfinv u)
  | 2 => some (((2:Nat):α) / ℓ * sqrt (-(log (((1:Nat):α) - u))))
  | _ => none

/-! ### Exponential -/

def expCor (h : α) : α := exp (-h)

/-- `np.arctan` through the scalar interface -/
def atan (x : α) : α := atan2 x ((1:Nat):α)

/-- `Exponential.spectral_density` -/
def expDensity (d : Nat) (ℓ k : α) : α :=
  npow ℓ d * gammaHalf (d + 1)
    / rpow (Transc.pi * (((1:Nat):α) + npow (k * ℓ) 2)) (((d + 1 : Nat):α) / ((2:Nat):α))

/-- `Exponential.spectral_rad_cdf` -/
def expCdf (d : Nat) (ℓ r : α) : Option α :=
  match d with
  | 1 => some (atan (r * ℓ) * ((2:Nat):α) / Transc.pi)
  | 2 => some (((1:Nat):α) - ((1:Nat):α) / sqrt (((1:Nat):α) + npow (r * ℓ) 2))
  | 3 => some ((atan (r * ℓ) - r * ℓ / (((1:Nat):α) + npow (r * ℓ) 2)) * ((2:Nat):α) / Transc.pi)
  | _ => none

/-- result of a ppf: the code returns `None`, `inf`, or a number -/
inductive PpfOut (α : Type) where
  | notOffered
  | infinite
  | value (x : α)

/-- `Exponential.spectral_rad_ppf` (`np.divide(1, u**2, out=inf, where=not isclose(u, 0))`) -/
def expPpf (d : Nat) (ℓ u : α) : PpfOut α :=
  match d with
  | 1 => .value (sin (Transc.pi / ((2:Nat):α) * u) / cos (Transc.pi / ((2:Nat):α) * u) / ℓ)
  | 2 => if isclose0 u then .infinite
         else .value (sqrt (((1:Nat):α) / npow u 2 - ((1:Nat):α)) / ℓ)
  | _ => .notOffered

/-! ### Matern, JBessel -/

/-- `Matern.cor` for `nu > 20` (the Gaussian limit the code switches to) -/
def maternBigCor (h : α) : α := exp (-(npow (h / ((2:Nat):α)) 2))

/-- `Matern.spectral_density` -/
def maternDensity (sp : Special α) (d : Nat) (ℓ ν k : α) : α :=
  let x := npow (k * ℓ) 2
  if ν > ((20:Nat):α) then
    npow (ℓ / sqrt Transc.pi) d * exp (-x) * (((1:Nat):α) + (0.5:α) * npow x 2 / ν)
      * rpow (sqrt (((1:Nat):α) + x / ν)) (-((d:Nat):α))
  else
    npow (ℓ / sqrt Transc.pi) d * exp (
      -(ν + ((d:Nat):α) / ((2:Nat):α)) * log (((1:Nat):α) + x / ν)
      + sp.lgamma (ν + ((d:Nat):α) / ((2:Nat):α))
      - sp.lgamma ν
      - ((d:Nat):α) * log (sqrt ν))

/-- what the transform of `maternBigCor` really is: the Gaussian density with doubled length -/
def maternBigExact (d : Nat) (ℓ k : α) : α := gauDensity d (((2:Nat):α) * ℓ) k

/-- `JBessel.spectral_density`: the divisor `gamma(nu - d/2 + 1)` is cut at `100` only near its pole
    (`nu - d/2 + 1 < 1`), as in the code after the D19 repair -/
def jbesselDensity (sp : Special α) (d : Nat) (ℓ ν k : α) : α :=
  if k < ((1:Nat):α) / ℓ then
    let a := ν - ((d:Nat):α) / ((2:Nat):α) + ((1:Nat):α)
    let g := sp.gamma a
    let divisor := if a < ((1:Nat):α) then (if ((100:Nat):α) < g then ((100:Nat):α) else g) else g
    npow (ℓ / sqrt Transc.pi) d * sp.gamma (ν + ((1:Nat):α))
      / divisor
      * rpow (((1:Nat):α) - npow (k * ℓ) 2) (ν - ((d:Nat):α) / ((2:Nat):α))
  else ((0:Nat):α)

/-! ### which classes offer what -/

/-- the 17 shipped model classes -/
def classes : List String :=
  ["Gaussian", "Exponential", "Matern", "Integral", "Stable", "Rational", "Cubic", "Linear", "Circular",
   "Spherical", "HyperSpherical", "SuperSpherical", "JBessel", "TPLGaussian", "TPLExponential", "TPLStable",
   "TPLSimple"]

/-- `model.has_cdf` -/
def hasCdf (cls : String) (d : Nat) : Bool :=
  (cls == "Gaussian" || cls == "Exponential") && (d == 1 || d == 2 || d == 3)

/-- `model.has_ppf` -/
def hasPpf (cls : String) (d : Nat) : Bool :=
  (cls == "Gaussian" || cls == "Exponential") && (d == 1 || d == 2)

/-- the class overrides `spectral_density` (otherwise: numerical Hankel default) -/
def analyticDensity (cls : String) : Bool :=
  ["Gaussian", "Exponential", "Matern", "Integral", "HyperSpherical", "JBessel", "TPLGaussian",
   "TPLExponential"].contains cls

/-- shape of `model.dist_func`: (pdf, cdf-or-None, ppf-or-None) -/
def distFuncShape (cls : String) (d : Nat) : Bool × Bool × Bool := (true, hasCdf cls d, hasPpf cls d)

/-! ### truncated power law models: two-scale combination of a single-scale density / correlation

`tools/special.py: tpl_exp_spec_dens / tpl_gau_spec_dens` and `TPLGaussian / TPLExponential.correlation`.  The
single-scale functions (`hyp2f1`, incomplete gamma) are parameters `one L k`, `corOne L r`; what is modelled is
WHICH lengths are combined (`len_rescaled`, `len_low_rescaled`, `len_up_rescaled`) and with which weights. -/

/-- `TPLCovModel.len_low_rescaled = len_low / rescale` -/
def lenLowRescaled (lenLow rescale : α) : α := lenLow / rescale

/-- `TPLCovModel.len_up_rescaled = (len_low + len_scale) / rescale` -/
def lenUpRescaled (len lenLow rescale : α) : α := (lenLow + len) / rescale

/-- `tpl_exp_spec_dens(k, dim, len_scale = ℓ, hurst = H, len_low = ℓlow)` (same text as `tpl_gau_spec_dens`) with the
    single-scale branch `one L k` (the `np.isclose(len_low, 0)` case of the same function) -/
def tplMix (one : α → α → α) (H ℓ ℓlow k : α) : α :=
  if isclose0 ℓlow then one ℓ k
  else
    let facUp := rpow (ℓ + ℓlow) (((2:Nat):α) * H)
    let specUp := one (ℓ + ℓlow) k
    let facLow := rpow ℓlow (((2:Nat):α) * H)
    let specLow := one ℓlow k
    (facUp * specUp - facLow * specLow) / (facUp - facLow)

/-- `TPLGaussian / TPLExponential.spectral_density`: the arguments handed over are `len_rescaled` and
    `len_low_rescaled` -/
def tplDensity (one : α → α → α) (H len lenLow rescale k : α) : α :=
  tplMix one H (lenRescaled len rescale) (lenLowRescaled lenLow rescale) k

/-- `TPLGaussian / TPLExponential.correlation` with the single-scale correlation `corOne L r`
    (`tplstable_cor(r, L, hurst, alpha)`) -/
def tplCorrelation (corOne : α → α → α) (H len lenLow rescale r : α) : α :=
  if isclose0 (lenLowRescaled lenLow rescale) then corOne (lenRescaled len rescale) r
  else
    (rpow (lenUpRescaled len lenLow rescale) (((2:Nat):α) * H) * corOne (lenUpRescaled len lenLow rescale) r
      - rpow (lenLowRescaled lenLow rescale) (((2:Nat):α) * H) * corOne (lenLowRescaled lenLow rescale) r)
    / (rpow (lenUpRescaled len lenLow rescale) (((2:Nat):α) * H)
      - rpow (lenLowRescaled lenLow rescale) (((2:Nat):α) * H))

/-! ### the settings a spectral evaluation reads, changed in place

`CovModel.__init__`, the setters `dim` (`tools.set_dim`), `len_scale`, `rescale`, `var`, optional arguments,
`hankel_kw`, and the transform object `model._sft` that `set_dim` and the `hankel_kw` setter (re)build. -/

/-- the keyword arguments of `hankel.SymmetricFourierTransform` kept in `model.hankel_kw` -/
structure HankelKw (α : Type) where
  a : α
  b : α
  N : Nat
  h : α
  alt : Bool

/-- `base.HANKEL_DEFAULT` -/
def hankelDefault : HankelKw α := ⟨-((1:Nat):α), ((1:Nat):α), 200, (0.001:α), true⟩

/-- a (possibly partial) dictionary given as `hankel_kw` -/
structure HankelUpd (α : Type) where
  a : Option α
  b : Option α
  N : Option Nat
  h : Option α
  alt : Option Bool

/-- `dict.update` -/
def HankelKw.update (kw : HankelKw α) (u : HankelUpd α) : HankelKw α :=
  ⟨u.a.getD kw.a, u.b.getD kw.b, u.N.getD kw.N, u.h.getD kw.h, u.alt.getD kw.alt⟩

/-- a complete dictionary -/
def HankelKw.full (kw : HankelKw α) : HankelUpd α := ⟨some kw.a, some kw.b, some kw.N, some kw.h, some kw.alt⟩

/-- the object in `model._sft`: the dimension and the settings it was BUILT with -/
structure Sft (α : Type) where
  ndim : Nat
  kw : HankelKw α

/-- `SFT(ndim=model.dim, **model.hankel_kw)` -/
structure Settings (α : Type) where
  dim : Nat
  len : α
  rescale : α
  var : α
  /-- the optional shape argument (`nu`, `alpha`, `hurst`) -/
  nu : α
  kw : HankelKw α
  sft : Sft α

/-- in-place changes through the public setters -/
inductive Op (α : Type) where
  | setDim (d : Nat)
  | setLen (x : α)
  | setRescale (x : α)
  | setVar (x : α)
  | setNu (x : α)
  /-- `model.hankel_kw = None` (reset to the defaults) or a dictionary merged over the CURRENT settings -/
  | setHankel (u : Option (HankelUpd α))

/-- one setter call.  `set_dim` raises for `dim < 1` before anything is changed (state kept); otherwise it stores the
    dimension and rebuilds the transform for it; the `hankel_kw` setter rebuilds it for the current dimension -/
def step (s : Settings α) : Op α → Settings α
  | .setDim d => if d < 1 then s else { s with dim := d, sft := ⟨d, s.kw⟩ }
  | .setLen x => { s with len := x }
  | .setRescale x => { s with rescale := fabs x }
  | .setVar x => { s with var := x }
  | .setNu x => { s with nu := x }
  | .setHankel none => { s with kw := hankelDefault, sft := ⟨s.dim, hankelDefault⟩ }
  | .setHankel (some u) => { s with kw := s.kw.update u, sft := ⟨s.dim, s.kw.update u⟩ }

def run (s : Settings α) (ops : List (Op α)) : Settings α := ops.foldl step s

/-- `CovModel.__init__` (valid `dim ≥ 1`): `hankel_kw` first, then the dimension (which builds the transform) -/
def construct (dim : Nat) (len rescale var nu : α) (hk : Option (HankelUpd α)) : Settings α :=
  let kw : HankelKw α := match hk with
    | none => hankelDefault
    | some u => (hankelDefault : HankelKw α).update u
  ⟨dim, len, fabs rescale, var, nu, kw, ⟨dim, kw⟩⟩

/-- `CovModel.spectral_density` (numerical default): `self._sft.transform(self.correlation, |k|)`, where
    `T ndim kw f k` stands for `SymmetricFourierTransform(ndim, **kw).transform(f, k)` -/
def defaultDensity (T : Nat → HankelKw α → (α → α) → α → α) (cor : α → α) (s : Settings α) (k : α) : α :=
  T s.sft.ndim s.sft.kw (correlation cor (lenRescaled s.len s.rescale)) (fabs k)

/-- `Gaussian.spectral_density` of a model object in state `s` -/
def gauDensityOf (s : Settings α) (k : α) : α := gauDensity s.dim (lenRescaled s.len s.rescale) k

/-! ### `Float` special functions (driver side only) -/

namespace F

/-- `erf` for `|x| ≤ 3`: `2/√π · e^{-x²} Σ 2ⁿ x^{2n+1}/(2n+1)!!` (positive terms) -/
def erfSeries (x : Float) : Float := Id.run do
  let x2 := x * x
  let mut term := x
  let mut s := x
  for n in [1:200] do
    term := term * 2.0 * x2 / (2.0 * n.toFloat + 1.0)
    s := s + term
  return 2.0 / Float.sqrt 3.141592653589793 * Float.exp (-x2) * s

/-- `erfc` for `x > 3` by the continued fraction `e^{-x²}/√π · 1/(x+ (1/2)/(x+ 1/(x+ (3/2)/(x+ …))))` -/
def erfcCF (x : Float) : Float := Id.run do
  let mut f := x
  for i in [0:120] do
    let k := (120 - i).toFloat
    f := x + (k / 2.0) / f
  return Float.exp (-(x * x)) / Float.sqrt 3.141592653589793 / f

def erf (x : Float) : Float :=
  if x.isNaN then x
  else if x < 0.0 then -(if -x ≤ 3.0 then erfSeries (-x) else 1.0 - erfcCF (-x))
  else if x ≤ 3.0 then erfSeries x else 1.0 - erfcCF x

/-- `log Γ(x)` for `x > 0`: shift to `x ≥ 16` (`Γ(x) = Γ(x+n) / (x (x+1) … (x+n-1))`, the product stays below
    `16^16`), then Stirling's series -/
def lgamma (x : Float) : Float := Id.run do
  if x.isNaN then return x
  if x ≤ 0.0 then return (1.0 / 0.0)
  let mut y := x
  let mut p := 1.0
  for _ in [0:16] do
    if y < 16.0 then
      p := p * y
      y := y + 1.0
  let z := 1.0 / (y * y)
  let ser := (1.0 / 12.0 - z * (1.0 / 360.0 - z * (1.0 / 1260.0 - z * (1.0 / 1680.0 - z * (1.0 / 1188.0
    - z * (691.0 / 360360.0 - z * (1.0 / 156.0))))))) / y
  return (y - 0.5) * Float.log y - y + 0.9189385332046727 + ser - Float.log p

/-- `Γ(x)` for `x ≥ 0` (`Γ(0) = +inf` as in scipy) -/
def gamma (x : Float) : Float := if x == 0.0 then 1.0 / 0.0 else Float.exp (lgamma x)

/-- `erfinv` on `(-1, 1)`: Winitzki start + Newton/Halley steps on `erf` -/
def erfinv (u : Float) : Float := Id.run do
  if u.isNaN then return u
  if u ≥ 1.0 then return (if u == 1.0 then 1.0 / 0.0 else 0.0 / 0.0)
  if u ≤ -1.0 then return (if u == -1.0 then -(1.0 / 0.0) else 0.0 / 0.0)
  let a := 0.147
  let l := Float.log (1.0 - u * u)
  let t := 2.0 / (3.141592653589793 * a) + l / 2.0
  let mut x := Float.sqrt (Float.sqrt (t * t - l / a) - t)
  if u < 0.0 then x := -x
  for _ in [0:6] do
    let e := erf x - u
    let d := 2.0 / Float.sqrt 3.141592653589793 * Float.exp (-(x * x))
    let s := e / d
    x := x - s / (1.0 + x * s)
  return x

def special : Special Float := ⟨erf, erfinv, gamma, lgamma⟩

end F

/-! ### driver -/

private def optF : Option Float → Float
  | some x => x
  | none => 0.0 / 0.0

private def ppfJ : PpfOut Float → Json
  | .notOffered => Json.null
  | .infinite => fbits (1.0 / 0.0)
  | .value x => fbits x

/-- density of one of the modelled classes; `none` = class not modelled -/
def densityOf (cls : String) (d : Nat) (ℓ ν : Float) : Option (Float → Float) :=
  match cls with
  | "Gaussian" => some (gauDensity d ℓ)
  | "Exponential" => some (expDensity d ℓ)
  | "Matern" => some (maternDensity F.special d ℓ ν)
  | "JBessel" => some (jbesselDensity F.special d ℓ ν)
  | _ => none

/-- line-protocol operations of this model; `none` = not one of mine -/
def ops (op : String) (j : Json) : Option (Except String Json) :=
  match op with
  | "spec_radfac" => some (do
      let d ← getNat j "dim"
      let rs ← getFloats j "r"
      return fl (rs.toList.map (radFac d)))
  | "spec_eval" => some (do
      let cls ← getStr j "cls"
      let d ← getNat j "dim"
      let len ← getFloat j "len"
      let resc ← getFloat j "rescale"
      let var ← getFloat j "var"
      let ν ← getFloat j "nu"
      let xs ← getFloats j "x"
      let what ← getStr j "what"
      let ℓ := lenRescaled len resc
      match densityOf cls d ℓ ν with
      | none => throw s!"spec_eval: class {cls} not modelled"
      | some dens =>
        match what with
        | "density" => return fl (xs.toList.map dens)
        | "spectrum" => return fl (xs.toList.map (spectrum var dens))
        | "rad_pdf" => return fl (xs.toList.map (radPdf d dens))
        | "ln_rad_pdf" => return fl (xs.toList.map (lnRadPdf d dens))
        | "cdf" =>
          match cls with
          | "Gaussian" =>
            if (gauCdf F.special d ℓ 0.0).isNone then return Json.null
            else return fl (xs.toList.map fun r => optF (gauCdf F.special d ℓ r))
          | "Exponential" =>
            if (expCdf d ℓ (0.0:Float)).isNone then return Json.null
            else return fl (xs.toList.map fun r => optF (expCdf d ℓ r))
          | _ => return Json.null
        | "ppf" =>
          match cls with
          | "Gaussian" =>
            if (gauPpf F.special d ℓ 0.5).isNone then return Json.null
            else return fl (xs.toList.map fun u => optF (gauPpf F.special d ℓ u))
          | "Exponential" =>
            match expPpf d ℓ (0.5:Float) with
            | .notOffered => return Json.null
            | _ => return Json.arr (xs.toList.map fun u => ppfJ (expPpf d ℓ u)).toArray
          | _ => return Json.null
        | _ => throw s!"spec_eval: unknown what {what}")
  | "spec_tables" => some (do
      let cls ← getStr j "cls"
      let d ← getNat j "dim"
      let (a, b, c) := distFuncShape cls d
      return Json.arr #[Json.bool (hasCdf cls d), Json.bool (hasPpf cls d), Json.bool (analyticDensity cls),
                        Json.bool a, Json.bool b, Json.bool c, Json.bool (classes.contains cls)])
  | "spec_special" => some (do
      let f ← getStr j "f"
      let xs ← getFloats j "x"
      match f with
      | "erf" => return fl (xs.toList.map F.erf)
      | "erfinv" => return fl (xs.toList.map F.erfinv)
      | "gamma" => return fl (xs.toList.map F.gamma)
      | "lgamma" => return fl (xs.toList.map F.lgamma)
      | "gammaHalf" => return fl (xs.toList.map fun x => (gammaHalf x.toUInt64.toNat : Float))
      | _ => throw s!"spec_special: unknown {f}")
  | "spec_tpl_lengths" => some (do
      let len ← getFloat j "len"
      let lenLow ← getFloat j "len_low"
      let resc ← getFloat j "rescale"
      let ℓ := lenRescaled len resc
      let ℓlow := lenLowRescaled lenLow resc
      return fl [ℓ, ℓlow, ℓ + ℓlow, if isclose0 ℓlow then 1.0 else 0.0, lenUpRescaled len lenLow resc])
  | "spec_tpl_mix" => some (do
      -- single-scale values supplied by the caller: `base` at `len_rescaled`, `up` at `len_rescaled + len_low_rescaled`,
      -- `low` at `len_low_rescaled` (one entry per wave number)
      let len ← getFloat j "len"
      let lenLow ← getFloat j "len_low"
      let resc ← getFloat j "rescale"
      let H ← getFloat j "hurst"
      let base ← getFloats j "base"
      let up ← getFloats j "up"
      let low ← getFloats j "low"
      let ℓ := lenRescaled len resc
      let ℓlow := lenLowRescaled lenLow resc
      let n := base.size
      if up.size != n || low.size != n then throw "spec_tpl_mix: sizes differ"
      return fl ((List.range n).map fun i =>
        let one : Float → Float → Float := fun L _ =>
          if L == ℓ + ℓlow then up[i]! else if L == ℓlow then low[i]! else base[i]!
        tplDensity one H len lenLow resc 0.0))
  | "spec_hist" => some (do
      -- a construct / change in place history; returns one row per state (initial state first):
      -- [dim, len, rescale, var, nu, kw.a, kw.b, kw.N, kw.h, kw.alt, sft.ndim, sft.a, sft.b, sft.N, sft.h, sft.alt]
      let dim ← getNat j "dim"
      let len ← getFloat j "len"
      let resc ← getFloat j "rescale"
      let var ← getFloat j "var"
      let ν ← getFloat j "nu"
      let kinds ← getNats j "kinds"
      let vals ← getFloats j "vals"
      let masks ← getNats j "masks"      -- 5 entries per state-changing item (item 0 = constructor argument)
      let hvals ← getFloats j "hvals"
      let hasInit ← getBool j "init_hankel"
      let upd : Nat → HankelUpd Float := fun i =>
        let g : Nat → Option Float := fun c => if masks[5 * i + c]! == 1 then some hvals[5 * i + c]! else none
        ⟨g 0, g 1, (g 2).map (fun x => x.toUInt64.toNat), g 3, (g 4).map (fun x => x != 0.0)⟩
      let s0 := construct dim len resc var ν (if hasInit then some (upd 0) else none)
      let row : Settings Float → List Float := fun s =>
        let kwl : HankelKw Float → List Float := fun kw =>
          [kw.a, kw.b, kw.N.toFloat, kw.h, if kw.alt then 1.0 else 0.0]
        [s.dim.toFloat, s.len, s.rescale, s.var, s.nu] ++ kwl s.kw ++ [s.sft.ndim.toFloat] ++ kwl s.sft.kw
      let mut s := s0
      let mut rows := [row s0]
      for i in [0:kinds.size] do
        let v := vals[i]!
        let op : Op Float := match kinds[i]! with
          | 0 => .setDim v.toUInt64.toNat
          | 1 => .setLen v
          | 2 => .setRescale v
          | 3 => .setVar v
          | 4 => .setNu v
          | 5 => .setHankel none
          | _ => .setHankel (some (upd (i + 1)))
        s := step s op
        rows := rows ++ [row s]
      return fl2 rows)
  | _ => none

end GSV.Model.Spectral
