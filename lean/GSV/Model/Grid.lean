/- Hand-written executable model (tie B): Grid — `tools/geometric.py generate_grid`
   (`np.meshgrid(*pos, indexing="ij")` flattened in C order) and the C-order `reshape` that `Field.structured`
   applies to the flat result: the bookkeeping between a structured call and the unstructured call on the
   expanded point list (C05 `structured_eq_unstructured`, C11 mesh-type independence).  Core Lean only. -/
import GSV.Proto
open Lean GSV GSV.Proto
namespace GSV.Model.Grid

/-- C-order (row-major) decoding of a flat index into a multi-index of the shape `dims` -/
def decode : List Nat → Nat → List Nat
  | [], _ => []
  | _ :: ds, n => n / ds.prod :: decode ds (n % ds.prod)

/-- C-order encoding of a multi-index -/
def encode : List Nat → List Nat → Nat
  | _ :: ds, i :: is => i * ds.prod + encode ds is
  | _, _ => 0

/-- multi-index within the shape -/
def Valid : List Nat → List Nat → Prop
  | [], [] => True
  | d :: ds, i :: is => i < d ∧ Valid ds is
  | _, _ => False

variable {α : Type}

/-- the point with multi-index `is` of the tensor grid spanned by `axes` -/
def pointAt [Inhabited α] (axes : List (List α)) (is : List Nat) : List α :=
  List.zipWith (fun ax i => ax.getD i default) axes is

/-- `generate_grid(pos)`: column `n` of the `(dim, prod shape)` array, for every flat index `n` -/
def genGrid [Inhabited α] (axes : List (List α)) : List (List α) :=
  let dims := axes.map List.length
  (List.range dims.prod).map fun n => pointAt axes (decode dims n)

/-- rows of the `(dim, N)` array numpy returns (`genGrid` transposed) -/
def genGridRows [Inhabited α] (axes : List (List α)) : List (List α) :=
  let pts := genGrid axes
  (List.range axes.length).map fun k => pts.map fun p => p.getD k default

def ops (op : String) (j : Json) : Option (Except String Json) :=
  match op with
  | "grid_generate" => some (do
      let v ← j.getObjVal? "axes"
      let a ← v.getArr?
      let axes ← a.toList.mapM fun ax => do
        let xs ← ax.getArr?
        let ys ← xs.mapM jsonToFloat
        pure ys.toList
      return fl2 (genGridRows axes))
  | "grid_decode" => some (do
      let dims ← getNats j "dims"; let n ← getNat j "n"
      return Json.arr ((decode dims.toList n).map fun (x : Nat) => Json.num (JsonNumber.fromNat x)).toArray)
  | _ => none

end GSV.Model.Grid
