/- Hand-written executable model (tie B): CovState — the parameter state machine of `CovModel`
   (covmodel/base.py setters, covmodel/tools.py set_len_anis / set_model_angles / set_dim /
   set_arg_bounds / check_arg_bounds / default_arg_from_bounds, tools/geometric.py set_anis /
   set_angles / no_of_angles, tpl_models.py var_factor, and the class tables of models.py /
   tpl_models.py).  Core Lean only — no Mathlib import in this file.

   The model mirrors what the code DOES, including "store, then check, then raise" (D13) and bounds of
   dimension-dependent optional arguments that are fixed at construction (D8).
   It only needs arithmetic and comparisons, so it runs on `Rat` in the driver (exact) and is reasoned
   about over ordered fields in `GSV/Props/C14.lean`. -/
import GSV.Proto
open Lean GSV GSV.Proto
namespace GSV.Model.CovState

/-- the one non-algebraic operation (`**` with a float exponent in `TPLCovModel.var_factor`) -/
class HasRPow (α : Type) where
  rpow : α → α → α

/-- canonical error kinds (every one is a `ValueError` in Python except `unmodelled`, which marks inputs
    outside the modelled domain: numpy inf/nan arithmetic, unknown names) -/
inductive Err where
  /-- `check_arg_bounds`: argument name and `error_case` 1..4 of `check_arg_in_bounds` -/
  | bound (arg : String) (case : Nat)
  /-- `set_len_anis`: "anisotropy-ratios needs to be > 0" -/
  | anisNonPos
  /-- `set_dim`: "Only dimensions of d >= 1 are supported." -/
  | dimLt1
  /-- `set_dim`: fixed dimension not compatible with a latlon model -/
  | fixDimLatlon
  /-- `check_bounds` failed -/
  | badBounds (arg : String)
  /-- `set_arg_bounds: unknown argument` -/
  | unknownArg (arg : String)
  | unmodelled (why : String)
  deriving DecidableEq, Repr, Inhabited

/-- an interval with optional infinite ends (`none` = ∓inf) and open/closed flags (`"oc"` etc.) -/
structure Bnd (α : Type) where
  lo : Option α
  hi : Option α
  loC : Bool
  hiC : Bool
  deriving DecidableEq, Repr, Inhabited

/-- bounds as a user passes them: `[a, b]` (typ = "") or `[a, b, typ]` -/
structure RawBnd (α : Type) where
  lo : Option α
  hi : Option α
  typ : String
  deriving DecidableEq, Repr

/-- an optional argument: name, value, bounds (dict order of `default_opt_arg_bounds`) -/
structure OptArg (α : Type) where
  name : String
  val : α
  bnd : Bnd α
  deriving DecidableEq, Repr

inductive WarnKind where
  | none
  /-- Stable / TPLStable `check_opt_arg`: alpha < 0.3 -/
  | alphaSmall
  /-- JBessel `check_opt_arg`: |nu - dim/2 + 1| < 0.01 -/
  | nuNearBound
  deriving DecidableEq, Repr

inductive IntKind where
  /-- `calc_integral_scale = len_rescaled` (Exponential) -/
  | lenRescaled
  /-- numerical or transcendental integral scale: not modelled -/
  | unmodelled
  deriving DecidableEq, Repr

/-- what a concrete `CovModel` subclass contributes to the parameter state machine -/
structure ClassSpec (α : Type) where
  name : String
  /-- `default_opt_arg()` and `default_opt_arg_bounds()` at model dimension `d` -/
  opts : Nat → List (OptArg α)
  checkDim : Nat → Bool
  fixDim : Option Nat
  /-- `TPLCovModel.var_factor` -/
  tpl : Bool
  /-- `default_rescale()`; `none` when it is irrational (Gaussian) -/
  defaultRescale : Option α
  intKind : IntKind
  warnKind : WarnKind

/-- public parameter state of a constructed `CovModel` -/
structure State (α : Type) where
  dim : Nat
  latlon : Bool
  temporal : Bool
  varRaw : α
  lenScale : α
  anis : List α
  angles : List α
  nugget : α
  rescale : α
  opt : List (OptArg α)
  varB : Bnd α
  lenB : Bnd α
  nugB : Bnd α
  anisB : Bnd α
  deriving DecidableEq, Repr

/-- constructor arguments -/
structure Cfg (α : Type) where
  dim : Int
  spatialDim : Option Int
  latlon : Bool
  temporal : Bool
  var : α
  varRaw : Option α
  lenScale : List α
  anis : List α
  angles : List α
  nugget : α
  rescale : Option α
  opt : List (String × α)
  integralScale : Option (List α)
  deriving Repr

/-- setter operations on a constructed model (scalar forms are one-element lists) -/
inductive Op (α : Type) where
  | setDim (d : Int)
  | setVar (v : α)
  | setVarRaw (v : α)
  | setNugget (v : α)
  | setLenScale (vs : List α)
  | setAnis (vs : List α)
  | setAngles (vs : List α)
  | setRescale (v : Option α)
  | setOpt (name : String) (v : α)
  | setIntegralScale (vs : List α)
  /-- `model.set_arg_bounds(check_args, **{arg: bounds, ...})` -/
  | setArgBounds (check : Bool) (bs : List (String × RawBnd α))
  /-- `model.var_bounds = b` etc. (no argument check) -/
  | setBoundsProp (arg : String) (b : RawBnd α)
  deriving Repr

/-- result of an operation: the state afterwards (also when it raised!), the error, whether an
    `AttributeWarning` was issued -/
structure Res (α : Type) where
  st : State α
  err : Option Err
  warn : Bool

section defs
variable {α : Type} [Arith α] [DecidableLT α] [DecidableLE α] [DecidableEq α] [HasRPow α]

def zero : α := ((0 : Nat) : α)
def one : α := ((1 : Nat) : α)
def two : α := ((2 : Nat) : α)

def absA (x : α) : α := if x < (zero : α) then -x else x

/-- `no_of_angles` -/
def noOfAngles (d : Nat) : Nat := d * (d - 1) / 2

/-- `set_anis`: keep the first `d-1` ratios, fill up IN FRONT with ones -/
def setAnisL (d : Nat) (anis : List α) : List α :=
  List.replicate (d - 1 - (anis.take (d - 1)).length) (one : α) ++ anis.take (d - 1)

/-- `set_angles`: keep the first `no_of_angles(d)` angles, fill up at the END with zeros -/
def setAnglesL (d : Nat) (ang : List α) : List α :=
  ang.take (noOfAngles d) ++ List.replicate (noOfAngles d - (ang.take (noOfAngles d)).length) (zero : α)

/-- `out_anis[:2] = 1.0` -/
def isoFirst2 (a : List α) : List α :=
  List.replicate (min 2 a.length) (one : α) ++ a.drop 2

/-- the common tail of `set_len_anis`: sanity check, lat-lon override -/
def finishAnis (l : α) (a : List α) (latlon : Bool) : Except Err (α × List α) :=
  if a.all (fun x => decide ((zero : α) < x)) then
    .ok (l, if latlon then isoFirst2 a else a)
  else .error .anisNonPos

/-- `set_len_anis(dim, len_scale, anis, latlon)` -/
def setLenAnis (d : Nat) (ls anis : List α) (latlon : Bool) : Except Err (α × List α) :=
  match ls.take d with
  | [] => .error (.unmodelled "empty len_scale")
  | [l] => finishAnis l (setAnisL d anis) latlon
  | l :: l2 :: rest =>
    if l = (zero : α) then .error (.unmodelled "main length scale 0 in a list") else
    -- np.pad(..., "edge"), then ratios to the first entry
    let tail := (l2 :: rest) ++ List.replicate (d - 1 - (l2 :: rest).length) ((l2 :: rest).getLast (by simp))
    finishAnis l (tail.map (fun x => x / l)) latlon

/-- `set_model_angles(dim, angles, latlon, temporal)` -/
def setModelAngles (d : Nat) (ang : List α) (latlon temporal : Bool) : List α :=
  if latlon then List.replicate (noOfAngles d) (zero : α)
  else if temporal then
    (setAnglesL d ang).take (noOfAngles (d - 1))
      ++ List.replicate ((setAnglesL d ang).length - noOfAngles (d - 1)) (zero : α)
  else setAnglesL d ang

/-- `check_arg_in_bounds`: the `error_case` (0 = inside) -/
def errorCase (b : Bnd α) (vals : List α) : Nat :=
  let c : Nat := match b.lo with
    | none => 0
    | some l =>
      if b.loC then (if vals.any (fun v => decide (v < l)) then 1 else 0)
      else (if vals.any (fun v => decide (v ≤ l)) then 2 else 0)
  match b.hi with
  | none => c
  | some h =>
    if b.hiC then (if vals.any (fun v => decide (h < v)) then 3 else c)
    else (if vals.any (fun v => decide (h ≤ v)) then 4 else c)

/-- `check_bounds` and conversion to the stored form -/
def RawBnd.toBnd? (r : RawBnd α) : Option (Bnd α) :=
  let okOrder : Bool := match r.lo, r.hi with
    | some l, some h => decide (l < h)
    | _, _ => true
  if !okOrder then none else
  match r.typ with
  | "" => some ⟨r.lo, r.hi, true, true⟩
  | "cc" => some ⟨r.lo, r.hi, true, true⟩
  | "co" => some ⟨r.lo, r.hi, true, false⟩
  | "oc" => some ⟨r.lo, r.hi, false, true⟩
  | "oo" => some ⟨r.lo, r.hi, false, false⟩
  | _ => none

/-- `default_arg_from_bounds` -/
def defaultFromBounds (b : Bnd α) : α :=
  match b.lo, b.hi with
  | some l, some h => (l + h) / (two : α)
  | some l, none => l + (one : α)
  | none, some h => h - (one : α)
  | none, none => (zero : α)

def optGet (s : State α) (n : String) : α :=
  match s.opt.find? (fun o => o.name == n) with
  | some o => o.val
  | none => (zero : α)

/-- `var_factor()` -/
def varFactor (sp : ClassSpec α) (s : State α) : α :=
  if sp.tpl then
    let h := optGet s "hurst"
    let low := optGet s "len_low"
    (HasRPow.rpow ((low + s.lenScale) / s.rescale) ((two : α) * h)
      - HasRPow.rpow (low / s.rescale) ((two : α) * h)) / ((two : α) * h)
  else (one : α)

/-- the `var` property -/
def var (sp : ClassSpec α) (s : State α) : α := s.varRaw * varFactor sp s

/-- `sill` -/
def sill (sp : ClassSpec α) (s : State α) : α := var sp s + s.nugget

/-- `len_scale_vec` -/
def lenScaleVec (s : State α) : List α := s.lenScale :: s.anis.map (fun a => s.lenScale * a)

def tNat (temporal : Bool) : Nat := if temporal then 1 else 0

/-- `field_dim` -/
def fieldDim (s : State α) : Nat := if s.latlon then 2 + tNat s.temporal else s.dim

/-- `spatial_dim` -/
def spatialDim (s : State α) : Nat := if s.latlon then 2 else s.dim - tNat s.temporal

/-- `arg_bounds` in dict order with the values `check_arg_bounds` looks at -/
def argList (sp : ClassSpec α) (s : State α) : List (String × Bnd α × List α) :=
  [("var", s.varB, [var sp s]), ("len_scale", s.lenB, [s.lenScale]),
   ("nugget", s.nugB, [s.nugget]), ("anis", s.anisB, s.anis)]
  ++ s.opt.map (fun o => (o.name, o.bnd, [o.val]))

/-- `check_arg_bounds`: the first argument (dict order) outside its bounds raises -/
def checkArgBounds (sp : ClassSpec α) (s : State α) : Option Err :=
  (argList sp s).findSome? fun e =>
    if errorCase e.2.1 e.2.2 = 0 then none else some (Err.bound e.1 (errorCase e.2.1 e.2.2))

/-- end of every checking setter: the new state is ALREADY stored when the check raises (D13) -/
def chk (sp : ClassSpec α) (s : State α) (w : Bool := false) : Res α := ⟨s, checkArgBounds sp s, w⟩

def doSetLenScale (sp : ClassSpec α) (s : State α) (ls : List α) : Res α :=
  match setLenAnis s.dim ls s.anis s.latlon with
  | .error e => ⟨s, some e, false⟩
  | .ok (l, a) => chk sp { s with lenScale := l, anis := a }

def doSetAnis (sp : ClassSpec α) (s : State α) (vs : List α) : Res α :=
  match setLenAnis s.dim [s.lenScale] vs s.latlon with
  | .error e => ⟨s, some e, false⟩
  | .ok (l, a) => chk sp { s with lenScale := l, anis := a }

def doSetVar (sp : ClassSpec α) (s : State α) (v : α) : Res α :=
  if varFactor sp s = (zero : α) then ⟨s, some (.unmodelled "var_factor 0"), false⟩
  else chk sp { s with varRaw := v / varFactor sp s }

def hasOpt (s : State α) (n : String) : Bool := s.opt.any (fun o => o.name == n)

def doSetOpt (sp : ClassSpec α) (s : State α) (n : String) (v : α) : Res α :=
  if !hasOpt s n then ⟨s, some (.unmodelled "unknown optional argument"), false⟩
  else if sp.tpl && n == "hurst" && decide (v = (zero : α)) then ⟨s, some (.unmodelled "hurst 0"), false⟩
  else chk sp { s with opt := s.opt.map (fun o => if o.name == n then { o with val := v } else o) }

def doSetRescale (sp : ClassSpec α) (s : State α) (v : Option α) : Res α :=
  match (match v with | some x => some x | none => sp.defaultRescale) with
  | none => ⟨s, some (.unmodelled "irrational default rescale"), false⟩
  | some x =>
    if absA x = (zero : α) then ⟨s, some (.unmodelled "rescale 0"), false⟩
    else ⟨{ s with rescale := absA x }, none, false⟩   -- no bounds check in the rescale setter

/-- the dimension rule of `set_dim`: fixed dimension, lat-lon forcing, `d >= 1`, `check_dim` warning -/
def dimRule (sp : ClassSpec α) (latlon temporal : Bool) (d : Int) : Except Err (Nat × Bool) :=
  let fixed : Bool := match sp.fixDim with
    | some f => decide ((f : Int) ≠ d)
    | none => false
  let d1 : Int := match sp.fixDim with
    | some f => if (f : Int) ≠ d then (f : Int) else d
    | none => d
  if fixed && latlon && decide (d1 ≠ ((3 + tNat temporal : Nat) : Int)) then .error .fixDimLatlon else
  let d2 : Int := if latlon then ((3 + tNat temporal : Nat) : Int) else d1
  if d2 < 1 then .error .dimLt1 else
  .ok (d2.toNat, fixed || !sp.checkDim d2.toNat)

/-- `set_dim` on a constructed model -/
def doSetDim (sp : ClassSpec α) (s : State α) (d : Int) : Res α :=
  match dimRule sp s.latlon s.temporal d with
  | .error e => ⟨s, some e, decide (e = .fixDimLatlon)⟩   -- the fixed-dimension warning precedes that error
  | .ok (n, w) =>
    -- `_dim` is assigned first; `set_len_anis` is called WITHOUT the latlon flag here
    match setLenAnis n [s.lenScale] s.anis false with
    | .error e => ⟨{ s with dim := n }, some e, w⟩
    | .ok (l, a) =>
      chk sp { s with dim := n, lenScale := l, anis := a,
                      angles := setModelAngles n s.angles s.latlon s.temporal } w

/-- the `integral_scale` setter (for `calc_integral_scale = len_rescaled`) -/
def doSetIntegralScale (sp : ClassSpec α) (s : State α) (vs : List α) : Res α :=
  match sp.intKind with
  | .unmodelled => ⟨s, some (.unmodelled "integral scale of this class"), false⟩
  | .lenRescaled =>
    let r1 := doSetLenScale sp s vs
    if r1.err.isSome then r1 else
    let v := r1.st.lenScale
    let r2 := doSetLenScale sp r1.st [(one : α)]
    if r2.err.isSome then r2 else
    let intTmp := r2.st.lenScale / r2.st.rescale
    if intTmp = (zero : α) then ⟨r2.st, some (.unmodelled "integral scale 0"), false⟩ else
    doSetLenScale sp r2.st [v / intTmp]

def getBnd (s : State α) (arg : String) : Option (Bnd α) :=
  match arg with
  | "var" => some s.varB
  | "len_scale" => some s.lenB
  | "nugget" => some s.nugB
  | "anis" => some s.anisB
  | _ => (s.opt.find? (fun o => o.name == arg)).map (·.bnd)

def getVals (sp : ClassSpec α) (s : State α) (arg : String) : List α :=
  match arg with
  | "var" => [var sp s]
  | "len_scale" => [s.lenScale]
  | "nugget" => [s.nugget]
  | "anis" => s.anis
  | _ => [optGet s arg]

/-- store bounds for a non-`var` argument (`none`: unknown argument) -/
def storeBnd (s : State α) (arg : String) (b : Bnd α) : Option (State α) :=
  if hasOpt s arg then
    some { s with opt := s.opt.map (fun o => if o.name == arg then { o with bnd := b } else o) }
  else match arg with
    | "len_scale" => some { s with lenB := b }
    | "nugget" => some { s with nugB := b }
    | "anis" => some { s with anisB := b }
    | _ => none

/-- `setattr(model, arg, default)` inside `set_arg_bounds` -/
def assignDefault (sp : ClassSpec α) (s : State α) (arg : String) (b : Bnd α) : Res α :=
  match arg with
  | "var" => doSetVar sp s (defaultFromBounds b)
  | "len_scale" => doSetLenScale sp s [defaultFromBounds b]
  | "nugget" => chk sp { s with nugget := defaultFromBounds b }
  | "anis" => doSetAnis sp s (List.replicate (s.dim - 1) (defaultFromBounds b))
  | _ => doSetOpt sp s arg (defaultFromBounds b)

/-- the loop of `set_arg_bounds`; `vb` collects the `var` bounds, which are applied last -/
def argBoundsLoop (sp : ClassSpec α) (check : Bool) :
    List (String × RawBnd α) → State α → Option (Bnd α) → Res α
  | [], s, vb =>
    match vb with
    | none => ⟨s, none, false⟩
    | some b =>
      let s1 := { s with varB := b }
      if check && errorCase b [var sp s1] != 0 then assignDefault sp s1 "var" b else ⟨s1, none, false⟩
  | (arg, raw) :: rest, s, vb =>
    match raw.toBnd? with
    | none => ⟨s, some (.badBounds arg), false⟩
    | some b =>
      if !hasOpt s arg && arg == "var" then argBoundsLoop sp check rest s (some b) else
      match storeBnd s arg b with
      | none => ⟨s, some (.unknownArg arg), false⟩
      | some s1 =>
        if check && errorCase b (getVals sp s1 arg) != 0 then
          let r := assignDefault sp s1 arg b
          if r.err.isSome then r else argBoundsLoop sp check rest r.st vb
        else argBoundsLoop sp check rest s1 vb

def doSetBoundsProp (s : State α) (arg : String) (raw : RawBnd α) : Res α :=
  match raw.toBnd? with
  | none => ⟨s, some (.badBounds arg), false⟩
  | some b =>
    match arg with
    | "var" => ⟨{ s with varB := b }, none, false⟩
    | "len_scale" => ⟨{ s with lenB := b }, none, false⟩
    | "nugget" => ⟨{ s with nugB := b }, none, false⟩
    | "anis" => ⟨{ s with anisB := b }, none, false⟩
    | _ => ⟨s, some (.unmodelled "no bounds property of that name"), false⟩

/-- one setter operation on a constructed model -/
def step (sp : ClassSpec α) (s : State α) : Op α → Res α
  | .setDim d => doSetDim sp s d
  | .setVar v => doSetVar sp s v
  | .setVarRaw v => chk sp { s with varRaw := v }
  | .setNugget v => chk sp { s with nugget := v }
  | .setLenScale vs => doSetLenScale sp s vs
  | .setAnis vs => doSetAnis sp s vs
  | .setAngles vs => chk sp { s with angles := setModelAngles s.dim vs s.latlon s.temporal }
  | .setRescale v => doSetRescale sp s v
  | .setOpt n v => doSetOpt sp s n v
  | .setIntegralScale vs => doSetIntegralScale sp s vs
  | .setArgBounds check bs => argBoundsLoop sp check bs s none
  | .setBoundsProp arg b => doSetBoundsProp s arg b

/-- `default_arg_bounds()` -/
def defVarB : Bnd α := ⟨some (zero : α), none, false, false⟩
def defLenB : Bnd α := ⟨some (zero : α), none, false, false⟩
def defNugB : Bnd α := ⟨some (zero : α), none, true, false⟩
def defAnisB : Bnd α := ⟨some (zero : α), none, false, false⟩

/-- `check_opt_arg` warnings of the shipped classes -/
def optWarn (sp : ClassSpec α) (s : State α) : Bool :=
  match sp.warnKind with
  | .none => false
  | .alphaSmall => decide (optGet s "alpha" < (0.3 : α))
  | .nuNearBound =>
    decide (absA (optGet s "nu" - ((s.dim : Nat) : α) / (two : α) + (one : α)) < (0.01 : α))

/-- `set_opt_args`: the constructor keyword if given, else the default -/
def mergeOpt (given : List (String × α)) (o : OptArg α) : OptArg α :=
  match given.find? (fun p => p.1 == o.name) with
  | some p => { o with val := p.2 }
  | none => o

/-- the `var` / `var_raw` step of `__init__` (done before and after `integral_scale`) -/
def initVar (sp : ClassSpec α) (cfg : Cfg α) (s : State α) : Except Err (State α) :=
  match cfg.varRaw with
  | some r => .ok { s with varRaw := r }
  | none =>
    if varFactor sp s = (zero : α) then .error (.unmodelled "var_factor 0") else
    match checkArgBounds sp { s with varRaw := cfg.var / varFactor sp s } with
    | some e => .error e
    | none => .ok { s with varRaw := cfg.var / varFactor sp s }

/-- `CovModel.__init__` in its order of effects; returns the state and whether a warning was issued -/
def construct (sp : ClassSpec α) (cfg : Cfg α) : Except Err (State α × Bool) :=
  let d0 : Int := match cfg.spatialDim with
    | some sd => sd + ((tNat cfg.temporal : Nat) : Int)
    | none => cfg.dim
  match dimRule sp cfg.latlon cfg.temporal d0 with
  | .error e => .error e
  | .ok (d, w1) =>
    if cfg.opt.any (fun p => !(sp.opts d).any (fun o => o.name == p.1)) then
      .error (.unmodelled "unknown optional argument") else
    let opts := (sp.opts d).map (mergeOpt cfg.opt)
    match (match cfg.rescale with | some x => some x | none => sp.defaultRescale) with
    | none => .error (.unmodelled "irrational default rescale")
    | some r =>
      if absA r = (zero : α) then .error (.unmodelled "rescale 0") else
      match setLenAnis d cfg.lenScale cfg.anis cfg.latlon with
      | .error e => .error e
      | .ok (l, a) =>
        let s0 : State α :=
          { dim := d, latlon := cfg.latlon, temporal := cfg.temporal, varRaw := (zero : α),
            lenScale := l, anis := a,
            angles := setModelAngles d cfg.angles cfg.latlon cfg.temporal,
            nugget := cfg.nugget, rescale := absA r, opt := opts,
            varB := defVarB, lenB := defLenB, nugB := defNugB, anisB := defAnisB }
        if sp.tpl && decide (optGet s0 "hurst" = (zero : α)) then .error (.unmodelled "hurst 0") else
        match initVar sp cfg s0 with
        | .error e => .error e
        | .ok s1 =>
          let r2 : Res α := match cfg.integralScale with
            | none => ⟨s1, none, false⟩
            | some v => doSetIntegralScale sp s1 v
          match r2.err with
          | some e => .error e
          | none =>
            match initVar sp cfg r2.st with
            | .error e => .error e
            | .ok s3 =>
              match checkArgBounds sp s3 with
              | some e => .error e
              | none => .ok (s3, w1 || optWarn sp s3)

/-- the constructor arguments one reads off a model ("the resulting values") -/
def cfgOf (sp : ClassSpec α) (s : State α) : Cfg α :=
  { dim := (s.dim : Int), spatialDim := none, latlon := s.latlon, temporal := s.temporal,
    var := var sp s, varRaw := none, lenScale := [s.lenScale], anis := s.anis, angles := s.angles,
    nugget := s.nugget, rescale := some s.rescale, opt := s.opt.map (fun o => (o.name, o.val)),
    integralScale := none }

/-- run a history; stops nowhere: like Python after `except ValueError: pass` -/
def runOps (sp : ClassSpec α) (s : State α) : List (Op α) → State α
  | [] => s
  | op :: rest => runOps sp (step sp s op).st rest

/-! ### class table (models.py / tpl_models.py) -/

def bcc (l h : α) : Bnd α := ⟨some l, some h, true, true⟩
def fifty : α := ((50 : Nat) : α)

def plainSpec (name : String) (chk : Nat → Bool) (ik : IntKind := .unmodelled) : ClassSpec α :=
  { name := name, opts := fun _ => [], checkDim := chk, fixDim := none, tpl := false,
    defaultRescale := some (one : α), intKind := ik, warnKind := .none }

def tplHurst (dflt : α) : OptArg α := ⟨"hurst", dflt, ⟨some (0.1 : α), some (one : α), false, false⟩⟩
def tplLenLow : OptArg α := ⟨"len_low", (zero : α), ⟨some (zero : α), none, true, false⟩⟩
def alphaArg : OptArg α := ⟨"alpha", (1.5 : α), ⟨some (zero : α), some (two : α), false, true⟩⟩

def specOf (name : String) : Option (ClassSpec α) :=
  match name with
  | "Gaussian" => some { plainSpec "Gaussian" (fun _ => true) with defaultRescale := none }
  | "Exponential" => some (plainSpec "Exponential" (fun _ => true) .lenRescaled)
  | "Stable" => some { plainSpec "Stable" (fun _ => true) with
      opts := fun _ => [alphaArg], warnKind := .alphaSmall }
  | "Matern" => some { plainSpec "Matern" (fun _ => true) with
      opts := fun _ => [⟨"nu", (one : α), bcc (0.2 : α) ((30 : Nat) : α)⟩] }
  | "Integral" => some { plainSpec "Integral" (fun _ => true) with
      opts := fun _ => [⟨"nu", (one : α), ⟨some (zero : α), some (fifty : α), false, true⟩⟩] }
  | "Rational" => some { plainSpec "Rational" (fun _ => true) with
      opts := fun _ => [⟨"alpha", (one : α), bcc (0.5 : α) (fifty : α)⟩] }
  | "Cubic" => some (plainSpec "Cubic" (fun d => decide (d < 4)))
  | "Linear" => some (plainSpec "Linear" (fun d => decide (d < 2)))
  | "Circular" => some (plainSpec "Circular" (fun d => decide (d < 3)))
  | "Spherical" => some (plainSpec "Spherical" (fun d => decide (d < 4)))
  | "HyperSpherical" => some (plainSpec "HyperSpherical" (fun _ => true))
  | "SuperSpherical" => some { plainSpec "SuperSpherical" (fun _ => true) with
      opts := fun d => [⟨"nu", (((d : Nat) : α) - (one : α)) / (two : α),
                          bcc ((((d : Nat) : α) - (one : α)) / (two : α)) (fifty : α)⟩] }
  | "JBessel" => some { plainSpec "JBessel" (fun _ => true) with
      opts := fun d => [⟨"nu", ((d : Nat) : α) / (two : α),
                          bcc (((d : Nat) : α) / (two : α) - (one : α)) (fifty : α)⟩],
      warnKind := .nuNearBound }
  | "TPLGaussian" => some { plainSpec "TPLGaussian" (fun _ => true) with
      opts := fun _ => [tplHurst (0.5 : α), tplLenLow], tpl := true }
  | "TPLExponential" => some { plainSpec "TPLExponential" (fun _ => true) with
      opts := fun _ => [tplHurst (0.25 : α), tplLenLow], tpl := true }
  | "TPLStable" => some { plainSpec "TPLStable" (fun _ => true) with
      opts := fun _ => [tplHurst (0.5 : α), alphaArg, tplLenLow], tpl := true, warnKind := .alphaSmall }
  | "TPLSimple" => some { plainSpec "TPLSimple" (fun _ => true) with
      opts := fun d => [⟨"nu", (((d : Nat) : α) + (one : α)) / (two : α),
                          bcc ((((d : Nat) : α) + (one : α)) / (two : α)) (fifty : α)⟩] }
  -- user-defined classes of the harness (CovModel is an extension point)
  | "UserFix2" => some { plainSpec "UserFix2" (fun _ => true) .lenRescaled with fixDim := some 2 }
  | "UserFix3" => some { plainSpec "UserFix3" (fun _ => true) .lenRescaled with fixDim := some 3 }
  | _ => none

end defs

/-! ### `Rat` instance used by the driver -/

instance instArithRatCovState : Arith Rat := {}

/-- integer square root test for exact rational `x ** 0.5` -/
def ratSqrt? (x : Rat) : Option Rat :=
  if x < 0 then none else
  let n := x.num.toNat
  let d := x.den
  if Nat.sqrt n * Nat.sqrt n == n && Nat.sqrt d * Nat.sqrt d == d then
    some (mkRat (Nat.sqrt n : Int) (Nat.sqrt d)) else none

/-- `x ** y` on rationals where it is rational: natural exponents and perfect-square roots; `0` marks
    the unsupported cases (the harness never generates them) -/
def ratPow (x y : Rat) : Rat :=
  if y.den == 1 && decide (0 ≤ y.num) then x ^ y.num.toNat
  else if y == (1 : Rat) / 2 then (ratSqrt? x).getD 0
  else 0

instance instHasRPowRat : HasRPow Rat := ⟨ratPow⟩

/-! ### line protocol -/

def optRat? (j : Json) (k : String) : Except String (Option Rat) :=
  match j.getObjVal? k with
  | .error _ => .ok none
  | .ok Json.null => .ok none
  | .ok v => do let r ← jsonToRat v; return some r

def ratList (j : Json) (k : String) : Except String (List Rat) := do
  let a ← getRats j k
  return a.toList

def optRatList? (j : Json) (k : String) : Except String (Option (List Rat)) :=
  match j.getObjVal? k with
  | .error _ => .ok none
  | .ok Json.null => .ok none
  | .ok v => do
    let a ← v.getArr?
    let l ← a.mapM jsonToRat
    return some l.toList

def getIntK (j : Json) (k : String) : Except String Int := do
  let v ← j.getObjVal? k
  v.getInt?

def optInt? (j : Json) (k : String) : Except String (Option Int) :=
  match j.getObjVal? k with
  | .error _ => .ok none
  | .ok Json.null => .ok none
  | .ok v => do let r ← v.getInt?; return some r

def parseRaw (v : Json) : Except String (RawBnd Rat) := do
  let lo ← optRat? v "lo"
  let hi ← optRat? v "hi"
  let typ ← getStr v "typ"
  return ⟨lo, hi, typ⟩

def parseOptPairs (j : Json) (k : String) : Except String (List (String × Rat)) := do
  let v ← j.getObjVal? k
  let a ← v.getArr?
  let l ← a.mapM fun e => do
    let n ← getStr e "name"
    let x ← getRat e "val"
    return (n, x)
  return l.toList

def parseCfg (j : Json) : Except String (Cfg Rat) := do
  let dim ← getIntK j "dim"
  let sd ← optInt? j "spatial_dim"
  let latlon ← getBool j "latlon"
  let temporal ← getBool j "temporal"
  let var ← getRat j "var"
  let varRaw ← optRat? j "var_raw"
  let ls ← ratList j "len_scale"
  let anis ← ratList j "anis"
  let angles ← ratList j "angles"
  let nugget ← getRat j "nugget"
  let rescale ← optRat? j "rescale"
  let opt ← parseOptPairs j "opt"
  let isc ← optRatList? j "integral_scale"
  return { dim := dim, spatialDim := sd, latlon := latlon, temporal := temporal, var := var,
           varRaw := varRaw, lenScale := ls, anis := anis, angles := angles, nugget := nugget,
           rescale := rescale, opt := opt, integralScale := isc }

def parseOp (j : Json) : Except String (Op Rat) := do
  let k ← getStr j "k"
  match k with
  | "dim" => return .setDim (← getIntK j "d")
  | "var" => return .setVar (← getRat j "v")
  | "var_raw" => return .setVarRaw (← getRat j "v")
  | "nugget" => return .setNugget (← getRat j "v")
  | "len_scale" => return .setLenScale (← ratList j "vs")
  | "anis" => return .setAnis (← ratList j "vs")
  | "angles" => return .setAngles (← ratList j "vs")
  | "rescale" => return .setRescale (← optRat? j "v")
  | "opt" => return .setOpt (← getStr j "name") (← getRat j "v")
  | "integral_scale" => return .setIntegralScale (← ratList j "vs")
  | "arg_bounds" =>
    let check ← getBool j "check"
    let v ← j.getObjVal? "bs"
    let a ← v.getArr?
    let l ← a.mapM fun e => do
      let n ← getStr e "arg"
      let r ← parseRaw e
      return (n, r)
    return .setArgBounds check l.toList
  | "bounds_prop" => return .setBoundsProp (← getStr j "arg") (← parseRaw j)
  | _ => throw s!"unknown setter {k}"

def errJson : Err → Json
  | .bound a c => Json.mkObj [("e", "bound"), ("arg", Json.str a), ("case", Json.num (JsonNumber.fromNat c))]
  | .anisNonPos => Json.mkObj [("e", "anis_nonpos")]
  | .dimLt1 => Json.mkObj [("e", "dim_lt_1")]
  | .fixDimLatlon => Json.mkObj [("e", "fixdim_latlon")]
  | .badBounds a => Json.mkObj [("e", "bad_bounds"), ("arg", Json.str a)]
  | .unknownArg a => Json.mkObj [("e", "unknown_arg"), ("arg", Json.str a)]
  | .unmodelled w => Json.mkObj [("e", "unmodelled"), ("why", Json.str w)]

def optRatJson : Option Rat → Json
  | none => Json.null
  | some x => rat x

def bndJson (b : Bnd Rat) : Json :=
  Json.arr #[optRatJson b.lo, optRatJson b.hi,
    Json.str ((if b.loC then "c" else "o") ++ (if b.hiC then "c" else "o"))]

def natJ (n : Nat) : Json := Json.num (JsonNumber.fromNat n)

/-- is the state a fixed point of the constructor ("equals a model constructed directly with the
    resulting values")?  0 = yes, 1 = constructor raises, 2 = differs -/
def fixedPoint (sp : ClassSpec Rat) (s : State Rat) : Nat :=
  match construct sp (cfgOf sp s) with
  | .error _ => 1
  | .ok (s', _) => if s' = s then 0 else 2

def obsJson (sp : ClassSpec Rat) (s : State Rat) : Json :=
  Json.mkObj [
    ("dim", natJ s.dim), ("latlon", Json.bool s.latlon), ("temporal", Json.bool s.temporal),
    ("var", rat (var sp s)), ("var_raw", rat s.varRaw), ("len_scale", rat s.lenScale),
    ("anis", rl s.anis), ("angles", rl s.angles), ("nugget", rat s.nugget), ("rescale", rat s.rescale),
    ("opt", Json.arr (s.opt.map fun o => Json.arr #[Json.str o.name, rat o.val, bndJson o.bnd]).toArray),
    ("var_bounds", bndJson s.varB), ("len_scale_bounds", bndJson s.lenB),
    ("nugget_bounds", bndJson s.nugB), ("anis_bounds", bndJson s.anisB),
    ("sill", rat (sill sp s)), ("len_scale_vec", rl (lenScaleVec s)),
    ("field_dim", natJ (fieldDim s)), ("spatial_dim", natJ (spatialDim s)),
    ("in_bounds", Json.bool (checkArgBounds sp s).isNone),
    ("fixed_point", natJ (fixedPoint sp s))]

def resJson (sp : ClassSpec Rat) (r : Res Rat) : Json :=
  Json.mkObj [("err", match r.err with | none => Json.null | some e => errJson e),
              ("warn", Json.bool r.warn), ("obs", obsJson sp r.st)]

/-- construct, then apply the setters one after the other (continuing after errors, like a Python
    session that catches `ValueError`), reporting the observable state after every operation -/
def runHistory (j : Json) : Except String Json := do
  let cls ← getStr j "cls"
  match (specOf cls : Option (ClassSpec Rat)) with
  | none => throw s!"unknown class {cls}"
  | some sp =>
    let cfg ← parseCfg (← j.getObjVal? "cfg")
    let opsJ ← (← j.getObjVal? "ops").getArr?
    let ops ← opsJ.mapM parseOp
    match construct sp cfg with
    | .error e => return Json.mkObj [("construct", errJson e), ("steps", Json.arr #[])]
    | .ok (s0, w0) =>
      let (_, out) := ops.foldl (fun (acc : State Rat × Array Json) op =>
        let r := step sp acc.1 op
        (r.st, acc.2.push (resJson sp r))) (s0, #[])
      return Json.mkObj [("construct", Json.null), ("warn", Json.bool w0), ("obs", obsJson sp s0),
                         ("steps", Json.arr out)]

/-- line-protocol operations of this model; `none` = not one of mine -/
def ops (op : String) (j : Json) : Option (Except String Json) :=
  match op with
  | "c14_history" => some (runHistory j)
  | _ => none

end GSV.Model.CovState
