/- Hand-written executable model (tie B): Norm — the normalizers of `gstools/normalizer/methods.py`
   (LogNormal, BoxCox, BoxCoxShift, YeoJohnson, Modulus, Manly and the identity base class), the masking
   logic of `Normalizer._check_input` / `normalize` / `denormalize` / `derivative`, the (kernel)
   log-likelihood of `normalizer/base.py`, and the element-wise meaning of `apply_mean_norm_trend` /
   `remove_trend_norm_mean` (`normalizer/tools.py`, used by `Field.post_field` and `Krige._krige_cond`).
   Core Lean only — no Mathlib import in this file.

   Every `_normalize/_denormalize/_derivative` is written expression by expression as in the code; the
   `np.isclose(self.lmbda, c)` tests are the Booleans `c0` (c = 0) and `c2` (c = 2) computed by `isclose`.
   `np.log1p(x)` / `np.expm1(x)` are modelled as `log (1 + x)` / `exp x - 1` (same real functions).
   Infinite range ends are `none`; NaN results of the masking are `none`. -/
import GSV.Proto
open Lean GSV GSV.Proto GSV.Transc
namespace GSV.Model.Norm

variable {α : Type} [Arith α] [Transc α] [DecidableLT α] [DecidableLE α]

/-- the normalizer classes; `identity` is the base class `Normalizer` (what `normalizer=None` means) -/
inductive Kind where
  | identity | logNormal | boxCox | boxCoxShift | yeoJohnson | modulus | manly
  deriving DecidableEq, Repr, Inhabited

/-- parameters (`lmbda`, `shift`); classes ignore the ones they do not have -/
structure Par (α : Type) where
  lmbda : α
  shift : α

/-- an open interval with possibly infinite ends (`none` = `∓inf`) -/
structure Rng (α : Type) where
  lo : Option α
  hi : Option α

/-- `np.isclose(a, b)` with the default `rtol=1e-5, atol=1e-8`: `|a - b| <= atol + rtol * |b|` -/
def isclose (a b : α) : Bool := decide (fabs (a - b) ≤ (1e-8:α) + (1e-5:α) * fabs b)

/-- `np.sign` on non-NaN data -/
def sgn (x : α) : α :=
  if x > ((0:Nat):α) then ((1:Nat):α) else if x < ((0:Nat):α) then -((1:Nat):α) else ((0:Nat):α)

/-- `np.isclose(self.lmbda, 0)` -/
def c0 (p : Par α) : Bool := isclose p.lmbda ((0:Nat):α)
/-- `np.isclose(self.lmbda, 2)` -/
def c2 (p : Par α) : Bool := isclose p.lmbda ((2:Nat):α)

/-! ### `_normalize`, `_denormalize`, `_derivative` (no masking) -/

/-- `_normalize(data)` on one datum -/
def normRaw (k : Kind) (p : Par α) (x : α) : α :=
  match k with
  | .identity => x
  | .logNormal => log x
  | .boxCox =>
    if c0 p then log x else (rpow x p.lmbda - ((1:Nat):α)) / p.lmbda
  | .boxCoxShift =>
    if c0 p then log (x + p.shift) else (rpow (x + p.shift) p.lmbda - ((1:Nat):α)) / p.lmbda
  | .yeoJohnson =>
    if x ≥ ((0:Nat):α) then
      (if c0 p then log (((1:Nat):α) + x) else (rpow (x + ((1:Nat):α)) p.lmbda - ((1:Nat):α)) / p.lmbda)
    else
      (if c2 p then -(log (((1:Nat):α) + (-x)))
       else -(rpow (-x + ((1:Nat):α)) (((2:Nat):α) - p.lmbda) - ((1:Nat):α)) / (((2:Nat):α) - p.lmbda))
  | .modulus =>
    if c0 p then sgn x * log (((1:Nat):α) + fabs x)
    else sgn x * (rpow (fabs x + ((1:Nat):α)) p.lmbda - ((1:Nat):α)) / p.lmbda
  | .manly =>
    if c0 p then x else (exp (x * p.lmbda) - ((1:Nat):α)) / p.lmbda

/-- `_denormalize(data)` on one datum -/
def denormRaw (k : Kind) (p : Par α) (y : α) : α :=
  match k with
  | .identity => y
  | .logNormal => exp y
  | .boxCox =>
    if c0 p then exp y else rpow (((1:Nat):α) + y * p.lmbda) (((1:Nat):α) / p.lmbda)
  | .boxCoxShift =>
    if c0 p then exp y - p.shift else rpow (((1:Nat):α) + y * p.lmbda) (((1:Nat):α) / p.lmbda) - p.shift
  | .yeoJohnson =>
    if y ≥ ((0:Nat):α) then
      (if c0 p then exp y - ((1:Nat):α)
       else rpow (y * p.lmbda + ((1:Nat):α)) (((1:Nat):α) / p.lmbda) - ((1:Nat):α))
    else
      (if c2 p then -(exp (-y) - ((1:Nat):α))
       else ((1:Nat):α) - rpow (-(((2:Nat):α) - p.lmbda) * y + ((1:Nat):α)) (((1:Nat):α) / (((2:Nat):α) - p.lmbda)))
  | .modulus =>
    if c0 p then sgn y * (exp (fabs y) - ((1:Nat):α))
    else sgn y * (rpow (((1:Nat):α) + p.lmbda * fabs y) (((1:Nat):α) / p.lmbda) - ((1:Nat):α))
  | .manly =>
    if c0 p then y else log (((1:Nat):α) + y * p.lmbda) / p.lmbda

/-- `_derivative(data)` on one datum (the base class uses a central difference with `dx = 1e-6`) -/
def derivRaw (k : Kind) (p : Par α) (x : α) : α :=
  match k with
  | .identity => ((x + (1e-6:α)) - (x - (1e-6:α))) / (((2:Nat):α) * (1e-6:α))
  | .logNormal => rpow x (-((1:Nat):α))
  | .boxCox => rpow x (p.lmbda - ((1:Nat):α))
  | .boxCoxShift => rpow (x + p.shift) (p.lmbda - ((1:Nat):α))
  | .yeoJohnson => rpow (fabs x + ((1:Nat):α)) (sgn x * (p.lmbda - ((1:Nat):α)))
  | .modulus => rpow (fabs x + ((1:Nat):α)) (p.lmbda - ((1:Nat):α))
  | .manly => exp (x * p.lmbda)

/-! ### ranges -/

/-- `normalize_range` -/
def normRange (k : Kind) (p : Par α) : Rng α :=
  match k with
  | .logNormal | .boxCox => ⟨some ((0:Nat):α), none⟩
  | .boxCoxShift => ⟨some (-p.shift), none⟩
  | _ => ⟨none, none⟩

/-- `denormalize_range` (BoxCox, BoxCoxShift, Manly share the text; D1 fixed: `-1/lmbda` in both branches) -/
def denormRange (k : Kind) (p : Par α) : Rng α :=
  match k with
  | .boxCox | .boxCoxShift | .manly =>
    if c0 p then ⟨none, none⟩
    else if p.lmbda < ((0:Nat):α) then ⟨none, some (-(((1:Nat):α) / p.lmbda))⟩
    else ⟨some (-(((1:Nat):α) / p.lmbda)), none⟩
  | _ => ⟨none, none⟩

/-! ### `_check_input` -/

/-- `±inf` (only exists on `Float`): `x - x` is NaN but `x` is not -/
def isinf (x : α) : Bool := isnan (x - x) && !isnan x

/-- the range test of `_check_input` on a non-NaN datum: skipped when both ends are infinite, otherwise
    `lo < x < hi` with strict comparisons (so `±inf` data never pass when a test is made) -/
def inRange (r : Rng α) (x : α) : Bool :=
  match r.lo, r.hi with
  | none, none => true
  | lo, hi =>
    !isinf x
    && (match lo with | none => true | some l => decide (x > l))
    && (match hi with | none => true | some h => decide (x < h))

/-- datum survives `_check_input` -/
def valid (r : Rng α) (x : α) : Bool := !isnan x && inRange r x

/-- the "out of range" warning of `_check_input`: some non-NaN datum fails the range test -/
def warns (r : Rng α) (xs : List α) : Bool := xs.any fun x => !isnan x && !inRange r x

/-- `Normalizer.normalize` on one datum; `none` = NaN in the output -/
def normalize (k : Kind) (p : Par α) (x : α) : Option α :=
  if valid (normRange k p) x then some (normRaw k p x) else none

/-- `Normalizer.denormalize` on one datum -/
def denormalize (k : Kind) (p : Par α) (y : α) : Option α :=
  if valid (denormRange k p) y then some (denormRaw k p y) else none

/-- `Normalizer.derivative` on one datum -/
def derivative (k : Kind) (p : Par α) (x : α) : Option α :=
  if valid (normRange k p) x then some (derivRaw k p x) else none

/-! ### likelihood -/

def sum (l : List α) : α := l.foldl (· + ·) ((0:Nat):α)
def mean (l : List α) : α := sum l / ((l.length : Nat) : α)
/-- `np.var` (population variance) -/
def var (l : List α) : α :=
  let m := mean l
  sum (l.map fun y => (y - m) * (y - m)) / ((l.length : Nat) : α)
/-- `np.maximum(a, b)` on non-NaN data -/
def fmax (a b : α) : α := if a < b then b else a

/-- `_kernel_loglikelihood` on already checked data -/
def kernelLLRaw (k : Kind) (p : Par α) (d : List α) : α :=
  -(0.5:α) * ((d.length : Nat) : α) * log (var (d.map (normRaw k p)))
    + sum (d.map fun x => log (fmax (1e-16:α) (derivRaw k p x)))

/-- `_loglikelihood` on already checked data -/
def logLikRaw (k : Kind) (p : Par α) (d : List α) : α :=
  kernelLLRaw k p d + -(0.5:α) * ((d.length : Nat) : α) * (log (((2:Nat):α) * Transc.pi) + ((1:Nat):α))

/-- data kept by `_check_input(data, normalize_range, False)` -/
def checked (k : Kind) (p : Par α) (xs : List α) : List α := xs.filter (valid (normRange k p))

/-- `Normalizer.kernel_loglikelihood` -/
def kernelLL (k : Kind) (p : Par α) (xs : List α) : α := kernelLLRaw k p (checked k p xs)
/-- `Normalizer.loglikelihood` -/
def logLik (k : Kind) (p : Par α) (xs : List α) : α := logLikRaw k p (checked k p xs)

/-! ### mean / normalizer / trend pipeline (one cell of the field) -/

/-- `apply_mean_norm_trend`: `field += mean; field = denormalize(field); field += trend` -/
def applyMNT (k : Kind) (p : Par α) (mean trend raw : α) : Option α :=
  (denormalize k p (raw + mean)).map (· + trend)

/-- `remove_trend_norm_mean` (also `Krige._krige_cond`): `field -= trend; normalize; field -= mean` -/
def removeTNM (k : Kind) (p : Par α) (mean trend v : α) : Option α :=
  (normalize k p (v - trend)).map (· - mean)

/-! ### the pipeline slots of the field classes

  Every field class hands its constructor arguments `mean`, `normalizer`, `trend` to `Field.__init__`
  (krige/methods.py: `Simple`, `Ordinary`, `Universal`, `ExtDrift`, `Detrended` → `Krige.__init__` → `Field.__init__`;
  field/srf.py; a `CondSRF` uses the slots of its Krige object).  An argument a class does not have is `None`:
  mean / trend 0, identity normalizer. -/

inductive FieldClass where
  | simple | ordinary | universal | extDrift | detrended | krige | srf
  deriving DecidableEq, Repr, Inhabited

/-- does the constructor take a `mean` -/
def FieldClass.hasMean : FieldClass → Bool
  | .simple | .krige | .srf => true
  | .ordinary | .universal | .extDrift | .detrended => false

/-- does the constructor take a `normalizer` -/
def FieldClass.hasNorm : FieldClass → Bool
  | .detrended => false
  | _ => true

/-- the slots `(normalizer, mean, trend)` of the object built from the caller's arguments (cell values) -/
def slots (c : FieldClass) (k : Kind) (mean trend : α) : Kind × α × α :=
  (if c.hasNorm then k else .identity, if c.hasMean then mean else ((0:Nat):α), trend)

/-- a cell of the object's output for the raw (kriged / generated / conditioned) value `raw` -/
def classOutput (c : FieldClass) (k : Kind) (p : Par α) (mean trend raw : α) : Option α :=
  applyMNT (slots c k mean trend).1 p (slots c k mean trend).2.1 (slots c k mean trend).2.2 raw

/-- a conditioning value as the kriging system sees it (`Krige._krige_cond`) -/
def classCond (c : FieldClass) (k : Kind) (p : Par α) (mean trend v : α) : Option α :=
  removeTNM (slots c k mean trend).1 p (slots c k mean trend).2.1 (slots c k mean trend).2.2 v

/-! ### `Normalizer.__init__(data, **parameter)` and `Normalizer.fit(data, skip, **kwargs)`: parameter bookkeeping

   The optimiser (`scipy.optimize.minimize_scalar` / `minimize`) is a parameter of the model: all that `fit`
   can observe of it is the sequence of points at which it evaluates the objective `_neg_kllf` (every
   evaluation writes the trial values into the object) and the `x` of the result it returns (`OptRun`).
   Parameter names are arbitrary strings (`default_parameter` of a user-defined subclass may hold any). -/

/-- the parameter attributes of a normalizer object: `getattr(self, name)` -/
abbrev Attrs (α : Type) := String → α

/-- `setattr(self, n, v)` -/
def setAttr (s : Attrs α) (n : String) (v : α) : Attrs α := fun m => if m = n then v else s m

/-- `for name, val in zip(names, np.atleast_1d(x)): setattr(self, name, val)` -/
def writeBack (s : Attrs α) (names : List String) (x : List α) : Attrs α :=
  (names.zip x).foldl (fun s nv => setAttr s nv.1 nv.2) s

def insertName (n : String) : List String → List String
  | [] => [n]
  | m :: ms => if m < n then m :: insertName n ms else n :: m :: ms

/-- `sorted(self.default_parameter)` (dictionary keys: pairwise distinct) -/
def sortNames (l : List String) : List String := l.foldr insertName []

/-- `[name for name in all_names if name not in skip]` -/
def paraNames (all skip : List String) : List String := all.filter fun n => !skip.contains n

/-- `Normalizer.__init__` before fitting: every default parameter is set to the given value if one was given
    by name, else to its default; keyword arguments that are no default parameter are ignored -/
def initAttrs (defaults given : List (String × α)) : Attrs α :=
  defaults.foldl (fun s kv => setAttr s kv.1 ((given.lookup kv.1).getD kv.2)) (fun _ => ((0:Nat):α))

/-- one run of the optimiser as seen by `fit`: the trial points handed to the objective, in order, and `out.x` -/
structure OptRun (α : Type) where
  trials : List (List α)
  x : List α

/-- the object state at every evaluation of `_neg_kllf` -/
def seenStates (s : Attrs α) (free : List String) : List (List α) → List (Attrs α)
  | [] => []
  | t :: ts => writeBack s free t :: seenStates (writeBack s free t) free ts

/-- the object state after all evaluations of `_neg_kllf` -/
def afterTrials (s : Attrs α) (free : List String) (trials : List (List α)) : Attrs α :=
  trials.foldl (fun s t => writeBack s free t) s

structure FitRes (α : Type) where
  /-- parameters of the object after the call -/
  attrs : Attrs α
  /-- the returned dictionary (insertion order) -/
  ret : List (String × α)
  /-- the "no parameters!" warning -/
  warned : Bool
  /-- 0: optimiser not called, 1: `minimize_scalar`, 2: `minimize` -/
  route : Nat
  /-- `bracket` received by `minimize_scalar` (`kwargs.setdefault("bracket", (-2, 2))`) -/
  bracket : Option (α × α)
  /-- `x0` received by `minimize` (`kwargs.setdefault("x0", current values of the fitted parameters)`) -/
  x0 : Option (List α)
  /-- object state at each objective evaluation -/
  seen : List (Attrs α)

/-- `Normalizer.fit`: `defaults` are the keys of `default_parameter`, `s` the object's parameters, `skip` the
    names not to fit, `userBracket` / `userX0` the keyword arguments given by the caller (if any) -/
def fit (defaults : List String) (s : Attrs α) (skip : List String)
    (userBracket : Option (α × α)) (userX0 : Option (List α)) (run : OptRun α) : FitRes α :=
  let all := sortNames defaults
  let free := paraNames all skip
  if free.isEmpty then
    { attrs := s, ret := [], warned := true, route := 0, bracket := none, x0 := none, seen := [] }
  else
    let s2 := writeBack (afterTrials s free run.trials) free run.x
    { attrs := s2
      ret := all.map fun n => (n, s2 n)
      warned := false
      route := if free.length = 1 then 1 else 2
      bracket := if free.length = 1 then some (userBracket.getD (-((2:Nat):α), ((2:Nat):α))) else none
      x0 := if free.length = 1 then none else some (userX0.getD (free.map s))
      seen := seenStates s free run.trials }

/-- an optimiser: from the objective and the start vector to what it does -/
abbrev Optimiser (α : Type) := (List α → α) → List α → OptRun α

/-- the objective handed to the optimiser, for an arbitrary function `J` of the object's parameters
    (`_neg_kllf`: write the trial values into the object, evaluate).  As a function of the trial vector alone
    this is what the optimiser sees when it hands over full-length vectors, as scipy does. -/
def objective (J : Attrs α → α) (s : Attrs α) (free : List String) (t : List α) : α := J (writeBack s free t)

/-- `fit` with the optimiser applied to the objective -/
def fitWith (defaults : List String) (s : Attrs α) (skip : List String) (J : Attrs α → α) (opt : Optimiser α) :
    FitRes α :=
  let free := paraNames (sortNames defaults) skip
  fit defaults s skip none none (opt (objective J s free) (free.map s))

/-- keys of `default_parameter` of the seven classes, in the order of the source text -/
def paramNames : Kind → List String
  | .identity | .logNormal => []
  | .boxCoxShift => ["shift", "lmbda"]
  | _ => ["lmbda"]

/-- the `Par` read off the attributes -/
def parOf (a : Attrs α) : Par α := ⟨a "lmbda", a "shift"⟩

/-- `_neg_kllf` of class `k` on `data`: minus the kernel log-likelihood at the object's current parameters -/
def negKLL (k : Kind) (data : List α) (a : Attrs α) : α := -(kernelLL k (parOf a) data)

/-! ### driver -/

def kindOf (s : String) : Except String Kind :=
  match s with
  | "Normalizer" => .ok .identity
  | "LogNormal" => .ok .logNormal
  | "BoxCox" => .ok .boxCox
  | "BoxCoxShift" => .ok .boxCoxShift
  | "YeoJohnson" => .ok .yeoJohnson
  | "Modulus" => .ok .modulus
  | "Manly" => .ok .manly
  | _ => .error s!"unknown normalizer {s}"

def classOf (s : String) : Except String FieldClass :=
  match s with
  | "Simple" => .ok .simple
  | "Ordinary" => .ok .ordinary
  | "Universal" => .ok .universal
  | "ExtDrift" => .ok .extDrift
  | "Detrended" => .ok .detrended
  | "Krige" => .ok .krige
  | "SRF" => .ok .srf
  | _ => .error s!"unknown field class {s}"

def fnan : Float := Float.ofBits 0x7FF8000000000000
def finf : Float := Float.ofBits 0x7FF0000000000000
def optF (o : Option Float) : Float := o.getD fnan
def rngJ (r : Rng Float) : Json := fl [r.lo.getD (-finf), r.hi.getD finf]

def getPar (j : Json) : Except String (Kind × Par Float) := do
  let k ← kindOf (← getStr j "kind")
  let l ← getFloat j "lmbda"
  let s ← getFloat j "shift"
  return (k, ⟨l, s⟩)

def getStrs (j : Json) (k : String) : Except String (List String) := do
  let v ← j.getObjVal? k
  let a ← v.getArr?
  let r ← a.mapM Json.getStr?
  return r.toList

def getFloats2 (j : Json) (k : String) : Except String (List (List Float)) := do
  let v ← j.getObjVal? k
  let a ← v.getArr?
  let r ← a.mapM fun (row : Json) => do
    let b ← row.getArr?
    let c ← b.mapM jsonToFloat
    return c.toList
  return r.toList

/-- line-protocol operations of this model; `none` = not one of mine -/
def ops (op : String) (j : Json) : Option (Except String Json) :=
  match op with
  | "norm_eval" => some (do
      let (k, p) ← getPar j
      let what ← getStr j "what"
      let xs ← getFloats j "data"
      match what with
      | "normalize" =>
        return Json.arr #[fl (xs.toList.map fun x => optF (normalize k p x)), Json.bool (warns (normRange k p) xs.toList)]
      | "denormalize" =>
        return Json.arr #[fl (xs.toList.map fun x => optF (denormalize k p x)), Json.bool (warns (denormRange k p) xs.toList)]
      | "derivative" =>
        return Json.arr #[fl (xs.toList.map fun x => optF (derivative k p x)), Json.bool (warns (normRange k p) xs.toList)]
      | _ => throw s!"norm_eval: unknown what {what}")
  | "norm_ranges" => some (do
      let (k, p) ← getPar j
      return Json.arr #[rngJ (normRange k p), rngJ (denormRange k p), Json.bool (c0 p), Json.bool (c2 p)])
  | "norm_isclose" => some (do
      let a ← getFloat j "a"
      let b ← getFloat j "b"
      return Json.bool (isclose a b))
  | "norm_loglik" => some (do
      let (k, p) ← getPar j
      let xs ← getFloats j "data"
      return Json.arr #[fl [kernelLL k p xs.toList, logLik k p xs.toList],
                        Json.num (JsonNumber.fromNat (checked k p xs.toList).length)])
  | "norm_pipeline" => some (do
      let (k, p) ← getPar j
      let raw ← getFloats j "raw"
      let mean ← getFloats j "mean"
      let trend ← getFloats j "trend"
      if mean.size != raw.size || trend.size != raw.size then throw "norm_pipeline: sizes" else
      let idx := List.range raw.size
      let app := idx.map fun i => optF (applyMNT k p mean[i]! trend[i]! raw[i]!)
      let back := idx.map fun i =>
        optF ((applyMNT k p mean[i]! trend[i]! raw[i]!).bind (removeTNM k p mean[i]! trend[i]!))
      let rem := idx.map fun i => optF (removeTNM k p mean[i]! trend[i]! raw[i]!)
      return Json.arr #[fl app, fl back, fl rem])
  | "norm_class_pipeline" => some (do
      -- output cells and prepared conditioning values of a field class from the CALLER's mean / trend values
      let (k, p) ← getPar j
      let c ← classOf (← getStr j "class")
      let raw ← getFloats j "raw"
      let mean ← getFloats j "mean"
      let trend ← getFloats j "trend"
      let cval ← getFloats j "cval"
      let cmean ← getFloats j "cmean"
      let ctrend ← getFloats j "ctrend"
      if mean.size != raw.size || trend.size != raw.size then throw "norm_class_pipeline: sizes" else
      if cmean.size != cval.size || ctrend.size != cval.size then throw "norm_class_pipeline: cond sizes" else
      let out := (List.range raw.size).map fun i => optF (classOutput c k p mean[i]! trend[i]! raw[i]!)
      let cond := (List.range cval.size).map fun i => optF (classCond c k p cmean[i]! ctrend[i]! cval[i]!)
      return Json.arr #[fl out, fl cond])
  | "norm_fit" => some (do
      -- bookkeeping of Normalizer.__init__ / fit with a scripted optimiser
      let names ← getStrs j "names"
      let vals ← getFloats j "values"
      if names.length != vals.size then throw "norm_fit: names/values" else
      let skip ← getStrs j "skip"
      let trials ← getFloats2 j "trials"
      let x ← getFloats j "x"
      let given : List (String × Float) := match (getStrs j "given_names", getFloats j "given_values") with
        | (.ok gn, .ok gv) => gn.zip gv.toList
        | _ => []
      let s : Attrs Float := initAttrs (names.zip vals.toList) given
      let ub : Option (Float × Float) := match getFloats j "bracket" with
        | .ok b => if b.size == 2 then some (b[0]!, b[1]!) else none
        | _ => none
      let ux : Option (List Float) := match getFloats j "x0" with
        | .ok b => some b.toList
        | _ => none
      let r := fit names s skip ub ux ⟨trials, x.toList⟩
      let all := sortNames names
      let obj : List Float ← match getStr j "kind" with
        | .ok ks => do
          let k ← kindOf ks
          let data ← getFloats j "data"
          let trend ← getFloats j "trend"
          if trend.size != data.size then throw "norm_fit: trend size" else
          let d := (List.range data.size).map fun i => data[i]! - trend[i]!
          pure (r.seen.map fun a => negKLL k d a)
        | _ => pure []
      return Json.mkObj [
        ("all", Json.arr (all.map Json.str).toArray),
        ("attrs", fl (all.map r.attrs)),
        ("ret_names", Json.arr (r.ret.map fun nv => Json.str nv.1).toArray),
        ("ret_values", fl (r.ret.map fun nv => nv.2)),
        ("warned", Json.bool r.warned),
        ("route", Json.num (JsonNumber.fromNat r.route)),
        ("bracket", match r.bracket with | some (a, b) => fl [a, b] | none => Json.null),
        ("x0", match r.x0 with | some v => fl v | none => Json.null),
        ("seen", fl2 (r.seen.map fun a => all.map a)),
        ("objective", fl obj)])
  | _ => none

end GSV.Model.Norm
