/- Hand-written executable model (tie B): Heap.  Core Lean only — no Mathlib import in this file.

   A tiny heap semantics for numpy aliasing (property C20): buffers with ids, objects that
   reference buffers (ndarray = one data buffer, MaskedArray = data + mask buffer, python list of
   arrays = several buffers, python scalar / None = none), the conversion / view / copy primitives
   GSTools uses, in-place operators and slice assignment that write *through* a reference, named
   attributes (`setattr(self, name, field)`), and the straight-line data flow of every public entry
   point that reaches an in-place operator, parametrised by the aliasing-enabling configuration.

   `safeFrom` is a static ownership analysis ("every write goes through a variable that only
   references buffers allocated during this call"); its soundness for *every* program and *every*
   initial heap is proved in GSV/Lemmas/Heap.lean, the per-entry-point instances in GSV/Props/C20.lean. -/
import GSV.Proto
open Lean GSV GSV.Proto
namespace GSV.Model.Heap

abbrev BufId := Nat
abbrev Var := Nat
abbrev Name := Nat

/-- what a python value references -/
structure Obj where
  /-- data buffers reachable through the object (ndarray: one; list of arrays: several; scalar: none) -/
  bufs : List BufId
  /-- mask buffer of a MaskedArray (`[]` = `nomask` / not a MaskedArray) -/
  mask : List BufId
  /-- an ndarray of dtype float64: `np.asarray(x, dtype=np.double)` is `x` itself -/
  f64  : Bool
  /-- `x.reshape(target shape)` is a view (already that shape, or contiguous) -/
  view : Bool
  deriving Repr, DecidableEq, Inhabited

namespace Obj
def all (o : Obj) : List BufId := o.bufs ++ o.mask
/-- python float / None / anything that owns no array memory -/
def scalar : Obj := ⟨[], [], false, false⟩
/-- a newly allocated float64 C-contiguous ndarray -/
def arr (b : BufId) : Obj := ⟨[b], [], true, true⟩
/-- a newly allocated float64 MaskedArray with its own mask -/
def marr (b m : BufId) : Obj := ⟨[b], [m], true, true⟩
end Obj

structure St where
  /-- next unused buffer id; every buffer that exists has a smaller id -/
  next : BufId
  /-- local variables of the running call (arguments are bound here by the caller) -/
  env : List (Var × Obj)
  /-- attributes of the objects involved (stored fields, conditions, …) -/
  attrs : List (Name × Obj)
  /-- values returned to the caller, latest first -/
  rets : List Obj
  /-- log of buffers written through, latest first -/
  written : List BufId
  /-- abstract contents: a version counter per buffer, bumped by every write -/
  ver : BufId → Nat

def get : List (Nat × Obj) → Nat → Obj
  | [], _ => Obj.scalar
  | (k, o) :: t, x => if x = k then o else get t x

def St.bind (σ : St) (x : Var) (o : Obj) : St := { σ with env := (x, o) :: σ.env }

/-- allocate a fresh array (and a fresh mask if `masked`) and bind it to `x` -/
def St.alloc (σ : St) (x : Var) (masked : Bool := false) : St :=
  if masked then { σ with next := σ.next + 2, env := (x, Obj.marr σ.next (σ.next + 1)) :: σ.env }
  else { σ with next := σ.next + 1, env := (x, Obj.arr σ.next) :: σ.env }

def St.write (σ : St) (bs : List BufId) : St :=
  { σ with written := bs ++ σ.written,
           ver := fun b => if b ∈ bs then σ.ver b + 1 else σ.ver b }

inductive Op
  /-- `dst = np.asarray(src, dtype=np.double)` (also `np.asanyarray`, `np.atleast_nd(np.asarray(..))`):
      the same data buffer iff `src` is a float64 ndarray, otherwise a new array; the mask is dropped -/
  | asarray (dst src : Var)
  /-- `dst = src.reshape(shape)` / `np.reshape(src, shape)`: a view when possible, else a copy -/
  | reshape (dst src : Var)
  /-- `dst = src[basic index]`, `src.T`, `src.swapaxes`, `np.atleast_nd(src)`; `contig` = result still reshapes as a view -/
  | view (dst src : Var) (contig : Bool)
  /-- `dst = np.array(src, dtype=np.double)` (copy=True is numpy's default), `src.copy()` -/
  | copy (dst src : Var)
  /-- `dst =` result of arithmetic, a ufunc, boolean / fancy indexing, `np.empty`, `np.zeros_like`, … -/
  | fresh (dst : Var)
  /-- `dst =` python float / None -/
  | scalar (dst : Var)
  /-- `dst = [src]` : a python list holding the same array -/
  | wrapList (dst src : Var)
  /-- `dst = np.ma.array(src, dtype=np.double)` (copy=False): float64 input → data *and mask* shared -/
  | maArray (dst src : Var)
  /-- `dst = np.ma.array(src, dtype=np.double, copy=True)` -/
  | maCopy (dst src : Var)
  /-- `dst = src.filled()`: the data itself when there is no mask, else a filled copy -/
  | filled (dst src : Var)
  /-- `x op= array` on a *name*: in place on an ndarray, a re-binding to a new array on a python scalar -/
  | augName (x : Var)
  /-- `x[sel] = v`, `x[i] op= v` (for a python list `x`: in place on its element arrays) -/
  | setItem (x : Var)
  /-- `x.mask = m`: written *into* the existing mask buffer; a new mask if there was none -/
  | setMask (x : Var)
  /-- `setattr(self, name, src)` -/
  | store (n : Name) (src : Var)
  /-- `dst = self[name]` -/
  | load (dst : Var) (n : Name)
  /-- `return src` (one component of the returned tuple) -/
  | ret (src : Var)
  deriving Repr, DecidableEq, Inhabited

def step (σ : St) : Op → St
  | .asarray d s =>
    let o := get σ.env s
    if o.f64 then σ.bind d { o with mask := [] } else σ.alloc d
  | .reshape d s =>
    let o := get σ.env s
    if o.view then σ.bind d o else σ.alloc d (!o.mask.isEmpty)
  | .view d s c =>
    let o := get σ.env s
    σ.bind d { o with view := o.view && c }
  | .copy d _ => σ.alloc d
  | .fresh d => σ.alloc d
  | .scalar d => σ.bind d Obj.scalar
  | .wrapList d s =>
    let o := get σ.env s
    σ.bind d { o with f64 := false, view := false }
  | .maArray d s =>
    let o := get σ.env s
    if o.f64 then σ.bind d o else σ.alloc d (!o.mask.isEmpty)
  | .maCopy d s => σ.alloc d (!(get σ.env s).mask.isEmpty)
  | .filled d s =>
    let o := get σ.env s
    if o.mask.isEmpty then σ.bind d o else σ.alloc d
  | .augName x =>
    let o := get σ.env x
    if o.all.isEmpty then σ.alloc x else σ.write o.bufs
  | .setItem x => σ.write (get σ.env x).bufs
  | .setMask x =>
    let o := get σ.env x
    if o.mask.isEmpty then { σ with next := σ.next + 1, env := (x, { o with mask := [σ.next] }) :: σ.env }
    else σ.write o.mask
  | .store n s => { σ with attrs := (n, get σ.env s) :: σ.attrs }
  | .load d n => σ.bind d (get σ.attrs n)
  | .ret s => { σ with rets := get σ.env s :: σ.rets }

def run (σ : St) (p : List Op) : St := p.foldl step σ

/-- names assigned by `setattr` in a program -/
def storesOf : List Op → List Name
  | [] => []
  | .store n _ :: t => n :: storesOf t
  | _ :: t => storesOf t

/-! ### static ownership analysis -/

def drop (A : List Var) (x : Var) : List Var := A.filter (· != x)

/-- effect of one operation on the set `A` of variables known to reference only buffers allocated during
    this call; `none` = the operation writes through a variable that is not in `A` -/
def transfer (A : List Var) : Op → Option (List Var)
  | .asarray d s | .reshape d s | .view d s _ | .wrapList d s | .maArray d s | .filled d s =>
    some (if A.contains s then d :: A else drop A d)
  | .copy d _ | .maCopy d _ | .fresh d | .scalar d => some (d :: A)
  | .augName x | .setItem x | .setMask x => if A.contains x then some A else none
  | .store _ _ | .ret _ => some A
  | .load d _ => some (drop A d)

/-- straight-line programs -/
def safeFrom : List Var → List Op → Bool
  | _, [] => true
  | A, op :: t => match transfer A op with
    | some A' => safeFrom A' t
    | none => false

/-- a program is safe when, starting with *no* variable owned (all arguments and all attributes
    belong to the caller / to earlier calls), every write goes through an owned variable -/
def safe (p : List Op) : Bool := safeFrom [] p

/-! ### structured programs (branches and loops), used for the data flow extracted from the python source -/

inductive Stmt where
  | op (o : Op)
  /-- either branch may run -/
  | ite (a b : List Stmt)
  /-- the body runs zero or more times -/
  | loop (body : List Stmt)
  deriving Repr, Inhabited

def inter (A B : List Var) : List Var := A.filter (B.contains ·)
def subsetB (A B : List Var) : Bool := A.all (B.contains ·)

mutual
/-- ownership analysis of one statement: the owned set afterwards, `none` = possible foreign write -/
def anaS (A : List Var) : Stmt → Option (List Var)
  | .op o => transfer A o
  | .ite a b =>
    match anaL A a, anaL A b with
    | some A1, some A2 => some (inter A1 A2)
    | _, _ => none
  | .loop b =>
    -- candidate invariant: what is owned before the loop and still owned after one iteration
    match anaL A b with
    | none => none
    | some A1 =>
      let I := inter A A1
      match anaL I b with
      | none => none
      | some A2 =>
        if subsetB I A2 then some I
        else match anaL [] b with      -- fall back to the trivial invariant
          | some _ => some []
          | none => none
def anaL (A : List Var) : List Stmt → Option (List Var)
  | [] => some A
  | s :: t => match anaS A s with
    | some A1 => anaL A1 t
    | none => none
end

/-- structured program accepted from the initial owned set `A0` -/
def safeB (A0 : List Var) (b : List Stmt) : Bool := (anaL A0 b).isSome

/-! big-step semantics of structured programs: every possible execution
   (one inductive family for statements `.inl s` and statement lists `.inr l`) -/
inductive Exec : Stmt ⊕ List Stmt → St → St → Prop
  | op (o : Op) (σ : St) : Exec (.inl (.op o)) σ (step σ o)
  | iteL {a b : List Stmt} {σ σ' : St} : Exec (.inr a) σ σ' → Exec (.inl (.ite a b)) σ σ'
  | iteR {a b : List Stmt} {σ σ' : St} : Exec (.inr b) σ σ' → Exec (.inl (.ite a b)) σ σ'
  | loopDone {b : List Stmt} {σ : St} : Exec (.inl (.loop b)) σ σ
  | loopStep {b : List Stmt} {σ σ1 σ2 : St} :
      Exec (.inr b) σ σ1 → Exec (.inl (.loop b)) σ1 σ2 → Exec (.inl (.loop b)) σ σ2
  | nil {σ : St} : Exec (.inr []) σ σ
  | cons {s : Stmt} {t : List Stmt} {σ σ1 σ2 : St} :
      Exec (.inl s) σ σ1 → Exec (.inr t) σ1 σ2 → Exec (.inr (s :: t)) σ σ2

abbrev ExecS (s : Stmt) (σ σ' : St) : Prop := Exec (.inl s) σ σ'
abbrev ExecL (l : List Stmt) (σ σ' : St) : Prop := Exec (.inr l) σ σ'

/-! ### variables (roles bound by the caller are < 20) and attribute names -/
namespace V
abbrev pos : Var := 0
abbrev field : Var := 1
abbrev bins : Var := 2
abbrev mask : Var := 3
abbrev direction : Var := 4
abbrev extDrift : Var := 5
abbrev condPos : Var := 6
abbrev condVal : Var := 7
abbrev condErr : Var := 8
abbrev xData : Var := 9
abbrev yData : Var := 10
abbrev weights : Var := 11
abbrev pointVol : Var := 12
abbrev data : Var := 13
abbrev anis : Var := 14
abbrev angles : Var := 15
abbrev lenScale : Var := 16
abbrev f : Var := 20
abbrev p : Var := 21
abbrev be : Var := 22
abbrev bc : Var := 23
abbrev tmp : Var := 24
abbrev out : Var := 25
abbrev isData : Var := 26
abbrev d : Var := 27
abbrev kv : Var := 28
abbrev ed : Var := 29
abbrev est : Var := 30
abbrev cnt : Var := 31
abbrev raw : Var := 32
abbrev rk : Var := 33
abbrev res : Var := 34
abbrev m : Var := 35
abbrev x : Var := 36
abbrev y : Var := 37
abbrev w : Var := 38
abbrev c : Var := 39
end V
namespace N
abbrev field : Name := 0
abbrev rawField : Name := 1
abbrev rawKrige : Name := 2
abbrev krigeField : Name := 3
abbrev krigeVar : Name := 4
abbrev meanField : Name := 5
abbrev new : Name := 6
abbrev pos : Name := 7
abbrev condPos : Name := 8
abbrev condVal : Name := 9
abbrev condErr : Name := 10
abbrev condExt : Name := 11
abbrev krigePos : Name := 12
abbrev krigeMat : Name := 13
abbrev anis : Name := 14
abbrev angles : Name := 15
end N

/-- aliasing-enabling configuration (each entry point reads only the flags that concern it) -/
structure Cfg where
  checkShape : Bool := false
  stacked : Bool := false
  process : Bool := false
  save : Bool := false
  storeNew : Bool := false
  fitNorm : Bool := false
  masked : Bool := false
  allMasked : Bool := false
  missing : Bool := false
  noData : Bool := false
  binsGiven : Bool := false
  latlon : Bool := false
  directional : Bool := false
  oneDir : Bool := false
  sampling : Bool := false
  structured : Bool := false
  fieldGiven : Bool := false
  returnVar : Bool := false
  onlyMean : Bool := false
  extDrift : Bool := false
  condErrArr : Bool := false
  fitVario : Bool := false
  reuse : Bool := false
  keepKrige : Bool := false
  upscale : Bool := false
  fnIdentity : Bool := false
  weightsArr : Bool := false
  pad : Bool := false
  deriving Repr, DecidableEq, Inhabited

def opt (b : Bool) (l : List Op) : List Op := if b then l else []

/-! ### data flow of the building blocks (normalizer/tools.py, field/base.py) -/

/-- `Normalizer.normalize/denormalize/derivative(data)` on variable `x`; result in `x`.
    `_check_input`: `is_data = ~isnan(data)`, `out = full_like(data)`, `data = asarray(data)[is_data]`,
    `is_data[is_data] &= dat_in`, `out[is_data] = f(data)` -/
def normCall (x : Var) : List Op :=
  [.fresh V.isData, .fresh V.out, .asarray V.tmp x, .fresh V.tmp, .setItem V.isData, .fresh V.tmp,
   .setItem V.out, .view x V.out true]

/-- `apply_mean_norm_trend` (current code: works on `np.array(field)`) on variable `x` -/
def applyMNT (x : Var) (checkShape stacked : Bool) : List Op :=
  opt checkShape [.asarray V.p V.pos, .view V.p V.p true, .reshape V.p V.p, .asarray x x, .reshape x x]
  ++ [.copy x x] ++ opt (!stacked) [.wrapList x x]
  ++ [.setItem x] ++ normCall x ++ [.setItem x] ++ opt (!stacked) [.view x x true]

/-- `remove_trend_norm_mean` on variable `x` (`normalizer.fit(field)` only reads) -/
def removeTNM (x : Var) (checkShape stacked : Bool) : List Op :=
  opt checkShape [.asarray V.p V.pos, .view V.p V.p true, .reshape V.p V.p, .asarray x x, .reshape x x]
  ++ [.copy x x] ++ opt (!stacked) [.wrapList x x]
  ++ [.setItem x] ++ normCall x ++ [.setItem x] ++ opt (!stacked) [.view x x true]

/-- the code before commit da1c68c (defect D3): no defensive copy -/
def applyMNT_old (x : Var) (checkShape stacked : Bool) : List Op :=
  opt checkShape [.asarray x x, .reshape x x] ++ opt (!stacked) [.wrapList x x]
  ++ [.setItem x] ++ normCall x ++ [.setItem x] ++ opt (!stacked) [.view x x true]

/-- `Field.post_field(field, name, process, save)` on variable `x` -/
def postField (x : Var) (n : Name) (process save : Bool) : List Op :=
  [.asarray x x, .reshape x x] ++ opt process (applyMNT x false false) ++ opt save [.store n x]

def postField_old (x : Var) (n : Name) (process save : Bool) : List Op :=
  [.asarray x x, .reshape x x] ++ opt process (applyMNT_old x false false) ++ opt save [.store n x]

/-- `Field.set_pos`: `self._pos = np.atleast_2d(np.asarray(pos, dtype=double)).reshape(dim, -1)` -/
def setPos : List Op := [.asarray V.p V.pos, .view V.p V.p true, .reshape V.p V.p, .store N.pos V.p]

/-! ### entry points -/

inductive EP
  | applyMNT | removeTNM | normalizerCall | normalizerFit
  | fieldCall | srfCall | condSrfCall | krigeCall | krigeSetCond
  | varioEstimate | varioAxis | standardBins | fitVariogram | transform | pureFn | covModelInit
  deriving Repr, DecidableEq, Inhabited

def EP.all : List EP :=
  [.applyMNT, .removeTNM, .normalizerCall, .normalizerFit, .fieldCall, .srfCall, .condSrfCall, .krigeCall,
   .krigeSetCond, .varioEstimate, .varioAxis, .standardBins, .fitVariogram, .transform, .pureFn, .covModelInit]

def EP.ofString : String → Option EP
  | "applyMNT" => some .applyMNT | "removeTNM" => some .removeTNM
  | "normalizerCall" => some .normalizerCall | "normalizerFit" => some .normalizerFit
  | "fieldCall" => some .fieldCall | "srfCall" => some .srfCall | "condSrfCall" => some .condSrfCall
  | "krigeCall" => some .krigeCall | "krigeSetCond" => some .krigeSetCond
  | "varioEstimate" => some .varioEstimate | "varioAxis" => some .varioAxis
  | "standardBins" => some .standardBins | "fitVariogram" => some .fitVariogram
  | "transform" => some .transform | "pureFn" => some .pureFn | "covModelInit" => some .covModelInit
  | _ => none

/-- `Krige.__call__` body after `pre_pos` (field in `V.f`, variance in `V.kv`) -/
def krigeCore (returnVar onlyMean extDrift process save0 save1 : Bool) (n0 n1 : Name) : List Op :=
  [.fresh V.f] ++ opt returnVar [.fresh V.kv]
  ++ (if onlyMean && !extDrift then [.setItem V.f]
      else opt extDrift [.copy V.ed V.extDrift, .view V.ed V.ed true, .asarray V.ed V.ed, .reshape V.ed V.ed]
        ++ [.fresh V.res, .setItem V.res, .setItem V.res, .fresh V.tmp, .setItem V.f] ++ opt returnVar [.setItem V.kv])
  ++ [.reshape V.f V.f] ++ postField V.f n0 process save0
  ++ opt returnVar ([.fresh V.kv, .reshape V.kv V.kv] ++ postField V.kv n1 false save1)

/-- `vario_estimate`; `latlonInPlace := true` is the code before commit 84a0bfc (defect D2: `bin_edges /= geo_scale`) -/
def pVarioEstimate (binsGiven allMasked masked structured noData directional oneDir sampling latlon : Bool)
    (latlonInPlace : Bool := false) : List Op :=
  opt binsGiven [.asarray V.be V.bins, .view V.be V.be true, .fresh V.bc]
  ++ [.maCopy V.f V.field]
  ++ (if allMasked then
        opt (!binsGiven) [.fresh V.bc] ++ [.fresh V.est, .fresh V.cnt, .ret V.bc, .ret V.est, .ret V.cnt]
      else
        opt (!masked) [.filled V.f V.f]
        ++ [.asarray V.p V.pos, .view V.p V.p true, .reshape V.p V.p] ++ opt structured [.fresh V.p]
        ++ [.reshape V.f V.f]
        ++ opt masked [.reshape V.m V.mask, .fresh V.m, .fresh V.p, .fresh V.f]
        ++ opt noData [.setItem V.f]
        ++ opt directional [.asarray V.d V.direction, .view V.d V.d true, .fresh V.d]
        ++ opt sampling [.fresh V.f, .fresh V.p]
        ++ opt (!binsGiven) [.fresh V.be, .fresh V.bc]
        ++ opt latlon (if latlonInPlace then [.augName V.be] else [.fresh V.be])
        ++ removeTNM V.f false true
        ++ [.fresh V.est, .fresh V.cnt] ++ opt oneDir [.view V.est V.est true, .view V.cnt V.cnt true]
        ++ [.ret V.bc, .ret V.est, .ret V.cnt])

/-- `vario_estimate_axis` (current code: `np.ma.array(field, ndmin=1, dtype=double, copy=True)`);
    `copyMask := false` is the code before commit 7b774f4 (copy=False: a float64 MaskedArray input shares
    its mask, and `field.mask = …` then wrote into the caller's mask) -/
def pVarioAxis (masked missing : Bool) (copyMask : Bool := true) : List Op :=
  [.fresh V.m]
  ++ (if masked || missing then
        [if copyMask then .maCopy V.f V.field else .maArray V.f V.field]
        ++ opt missing [.setMask V.f] ++ [.fresh V.m]
      else [.asarray V.f V.field, .view V.f V.f true])
  ++ [.view V.f V.f false, .reshape V.f V.f, .fresh V.est, .ret V.est]

/-- `apply_function(fld, function, field, store, process)` behind all `transform.*` wrappers;
    `old := true` is the code before commit da1c68c (defect D3) -/
def pTransform (process fnIdentity storeNew save : Bool) (old : Bool := false) : List Op :=
  [.load V.f N.field]
  ++ opt process (if old then applyMNT_old V.f false false else removeTNM V.f false false)
  ++ [if fnIdentity then .view V.f V.f true else .fresh V.f]
  ++ opt process (if old then applyMNT_old V.f false false else applyMNT V.f false false)
  ++ postField V.f (if storeNew then N.new else N.field) false save
  ++ [.ret V.f]

def pApplyMNT (checkShape stacked : Bool) : List Op := applyMNT V.field checkShape stacked ++ [.ret V.field]
def pRemoveTNM (checkShape stacked : Bool) : List Op := removeTNM V.field checkShape stacked ++ [.ret V.field]
def pNormCall : List Op := normCall V.data ++ [.ret V.data]
/-- `Normalizer.fit`: `_check_input(data, return_output_template=False)`, then a scalar optimisation (reads only) -/
def pNormFit : List Op :=
  [.fresh V.isData, .asarray V.tmp V.data, .fresh V.tmp, .setItem V.isData, .fresh V.tmp, .scalar V.out]

/-- `Field.__call__(pos, field=…, post_process, store)`; `old` = before da1c68c -/
def pFieldCall (fieldGiven storeNew process save : Bool) (old : Bool := false) : List Op :=
  setPos ++ (if fieldGiven then [.asarray V.f V.field, .reshape V.f V.f] else [.fresh V.f])
  ++ (if old then postField_old V.f (if storeNew then N.new else N.field) process save
      else postField V.f (if storeNew then N.new else N.field) process save) ++ [.ret V.f]

/-- `SRF.__call__(pos, point_volumes, post_process, store)` -/
def pSrfCall (upscale storeNew process save : Bool) : List Op :=
  setPos ++ [.fresh V.tmp, .reshape V.f V.tmp]
  ++ opt upscale [.fresh V.tmp, .reshape V.tmp V.tmp, .augName V.f]
  ++ postField V.f (if storeNew then N.new else N.field) process save ++ [.ret V.f]

/-- `Krige.__call__(pos, ext_drift, only_mean, return_var, post_process, store)` -/
def pKrigeCall (returnVar onlyMean extDrift process save : Bool) : List Op :=
  setPos ++ krigeCore (returnVar && !onlyMean) onlyMean extDrift process save save
    (if onlyMean then N.meanField else N.krigeField) N.krigeVar
  ++ [.ret V.f] ++ opt (returnVar && !onlyMean) [.ret V.kv]

/-- `CondSRF.__call__` -/
def pCondSrf (reuse keepKrige extDrift process save : Bool) : List Op :=
  setPos ++ [.fresh V.tmp, .reshape V.raw V.tmp]
  ++ (if reuse then [.load V.rk N.rawKrige, .load V.kv N.krigeVar]
      else krigeCore true false extDrift false false save N.krigeField N.krigeVar ++ [.view V.rk V.f true])
  ++ [.fresh V.w, .fresh V.y]
  ++ opt (!reuse || !keepKrige) ([.copy V.c V.rk] ++ postField V.c N.krigeField process save)
  ++ opt (!reuse) (postField V.rk N.rawKrige false save)
  ++ postField V.raw N.rawField false save
  ++ [.fresh V.x] ++ postField V.x N.field process save ++ [.ret V.x]

/-- `Krige.set_condition(cond_pos, cond_val, ext_drift, cond_err, fit_normalizer, fit_variogram)` -/
def pKrigeSetCond (fitNorm fitVario condErrArr extDrift : Bool) : List Op :=
  [.asarray V.y V.condVal, .reshape V.y V.y, .asarray V.x V.condPos, .reshape V.x V.x, .fresh V.m,
   .fresh V.x, .fresh V.y, .store N.condPos V.x, .store N.condVal V.y]
  ++ opt fitNorm [.fresh V.tmp, .fresh V.isData, .asarray V.tmp V.tmp, .fresh V.tmp]
  ++ opt fitVario ([.fresh V.f] ++ normCall V.f ++ [.augName V.f, .view V.field V.f true, .view V.pos V.x true]
      ++ pVarioEstimate false false false false false false false false false)
  ++ opt condErrArr [.copy V.w V.condErr, .reshape V.w V.w, .store N.condErr V.w]      -- np.array(...): copies (fix AL1)
  ++ (if extDrift then [.copy V.ed V.extDrift, .view V.ed V.ed true, .store N.condExt V.ed]
      else [.fresh V.ed, .store N.condExt V.ed])
  ++ [.fresh V.p, .store N.krigePos V.p, .fresh V.res, .setItem V.res, .setItem V.res, .setItem V.res,
      .fresh V.tmp, .store N.krigeMat V.tmp]

def pStandardBins (structured latlon : Bool) : List Op :=
  (if structured then [.fresh V.p] else [.asarray V.p V.pos, .reshape V.p V.p]) ++ opt latlon [.fresh V.p]
  ++ [.fresh V.tmp, .fresh V.be, .ret V.be]

/-- `fit_variogram(x_data, y_data, weights=…)`: `np.asarray(x).reshape(-1)` (views), `np.tile`, `1/weights` -/
def pFitVariogram (directional latlon weightsArr : Bool) : List Op :=
  [.view V.x V.xData true, .reshape V.x V.x, .view V.y V.yData true, .reshape V.y V.y]
  ++ opt directional [.fresh V.x] ++ opt latlon [.fresh V.x]
  ++ opt weightsArr [.view V.w V.weights true, .reshape V.w V.w, .fresh V.w]
  ++ [.fresh V.res, .scalar V.out, .ret V.res]

/-- CovModel functions, geometric helpers, array transforms, special functions:
    `x = np.asarray(arg)`, the result is built (possibly with `res[sel] = …`, `res *= …`) in a new array -/
def pPureFn : List Op :=
  [.asarray V.x V.data, .fresh V.x, .fresh V.res, .setItem V.res, .augName V.res, .ret V.res]

/-- `CovModel(dim, len_scale=…, anis=…, angles=…, latlon=…)` and the `anis` / `angles` / `len_scale` setters:
    `set_anis` = `np.array(anis)` (a copy since commit 9340584; `np.asarray` before: `old := true`), cut to `dim-1`
    entries (a view) or padded (new array); lat-lon models then do `out_anis[:2] = 1.0`.
    `set_angles` always pads (new array); `len_scale` is copied by `np.array`. -/
def pCovModelInit (pad latlon : Bool) (old : Bool := false) : List Op :=
  [.copy V.tmp V.lenScale, .view V.tmp V.tmp false,
   if old then .asarray V.x V.anis else .copy V.x V.anis, .view V.x V.x false]
  ++ opt pad [.fresh V.x] ++ opt latlon [.setItem V.x]
  ++ [.store N.anis V.x, .asarray V.y V.angles, .view V.y V.y false, .fresh V.y, .store N.angles V.y]

def prog : EP → Cfg → List Op
  | .applyMNT, c => pApplyMNT c.checkShape c.stacked
  | .removeTNM, c => pRemoveTNM c.checkShape c.stacked
  | .normalizerCall, _ => pNormCall
  | .normalizerFit, _ => pNormFit
  | .fieldCall, c => pFieldCall c.fieldGiven c.storeNew c.process c.save
  | .srfCall, c => pSrfCall c.upscale c.storeNew c.process c.save
  | .krigeCall, c => pKrigeCall c.returnVar c.onlyMean c.extDrift c.process c.save
  | .condSrfCall, c => pCondSrf c.reuse c.keepKrige c.extDrift c.process c.save
  | .krigeSetCond, c => pKrigeSetCond c.fitNorm c.fitVario c.condErrArr c.extDrift
  | .varioEstimate, c =>
    pVarioEstimate c.binsGiven c.allMasked c.masked c.structured c.noData c.directional c.oneDir c.sampling c.latlon
  | .varioAxis, c => pVarioAxis c.masked c.missing
  | .standardBins, c => pStandardBins c.structured c.latlon
  | .fitVariogram, c => pFitVariogram c.directional c.latlon c.weightsArr
  | .transform, c => pTransform c.process c.fnIdentity c.storeNew c.save
  | .pureFn, _ => pPureFn
  | .covModelInit, c => pCovModelInit c.pad c.latlon

/-- the same entry points with the data flow they had before the repairs (regression witnesses) -/
def progOld : EP → Cfg → List Op
  | .varioEstimate, c =>
    pVarioEstimate c.binsGiven c.allMasked c.masked c.structured c.noData c.directional c.oneDir c.sampling c.latlon true
  | .varioAxis, c => pVarioAxis c.masked c.missing false
  | .transform, c => pTransform c.process c.fnIdentity c.storeNew c.save true
  | .fieldCall, c => pFieldCall c.fieldGiven c.storeNew c.process c.save true
  | .covModelInit, c => pCovModelInit c.pad c.latlon true
  | ep, c => prog ep c

/-! ### driver: run an entry point on a heap described by the harness -/

def flag (j : Json) (k : String) : Bool := match getBool j k with | .ok b => b | _ => false

def cfgOfJson (j : Json) : Cfg :=
  { checkShape := flag j "checkShape", stacked := flag j "stacked", process := flag j "process",
    save := flag j "save", storeNew := flag j "storeNew", fitNorm := flag j "fitNorm",
    masked := flag j "masked", allMasked := flag j "allMasked", missing := flag j "missing",
    noData := flag j "noData", binsGiven := flag j "binsGiven", latlon := flag j "latlon",
    directional := flag j "directional", oneDir := flag j "oneDir", sampling := flag j "sampling",
    structured := flag j "structured", fieldGiven := flag j "fieldGiven", returnVar := flag j "returnVar",
    onlyMean := flag j "onlyMean", extDrift := flag j "extDrift", condErrArr := flag j "condErrArr",
    fitVario := flag j "fitVario", reuse := flag j "reuse", keepKrige := flag j "keepKrige",
    upscale := flag j "upscale", fnIdentity := flag j "fnIdentity", weightsArr := flag j "weightsArr",
    pad := flag j "pad" }

def natsJson (l : List Nat) : Json := Json.arr (l.map fun n => Json.num (JsonNumber.fromNat n)).toArray

def objJson (o : Obj) : Json := Json.mkObj [("bufs", natsJson o.bufs), ("mask", natsJson o.mask)]

/-- `[[key, bufs, mask (0 = none, else id+1), f64, view], …]` → association list -/
def bindingsOf (j : Json) (k : String) : Except String (List (Nat × Obj)) := do
  let v ← j.getObjVal? k
  let a ← v.getArr?
  a.toList.mapM fun e => do
    let key ← getNat e "key"
    let bufs ← getNats e "bufs"
    let mask ← getNats e "mask"
    return (key, { bufs := bufs.toList, mask := mask.toList, f64 := flag e "f64", view := flag e "view" })

def dedup (l : List Nat) : List Nat := l.foldl (fun acc x => if acc.contains x then acc else acc ++ [x]) []

def opOfJson (e : Json) : Except String Op := do
  let k ← getStr e "k"
  let a := (getNat e "a").toOption.getD 0
  let b := (getNat e "b").toOption.getD 0
  match k with
  | "asarray" => return .asarray a b | "reshape" => return .reshape a b
  | "view" => return .view a b (flag e "c") | "copy" => return .copy a b
  | "fresh" => return .fresh a | "scalar" => return .scalar a | "wrapList" => return .wrapList a b
  | "maArray" => return .maArray a b | "maCopy" => return .maCopy a b | "filled" => return .filled a b
  | "augName" => return .augName a | "setItem" => return .setItem a | "setMask" => return .setMask a
  | "store" => return .store a b | "load" => return .load a b | "ret" => return .ret a
  | _ => throw s!"heap: unknown op kind {k}"

def report (σ0 σ : St) (p : List Op) : Json :=
  Json.mkObj [
    ("written", natsJson (dedup (σ.written.filter (· < σ0.next)))),
    ("written_new", natsJson (dedup (σ.written.filter (σ0.next ≤ ·)))),
    ("rets", Json.arr (σ.rets.reverse.map objJson).toArray),
    ("attrs", Json.arr ((dedup (σ.attrs.map (·.1))).map fun n =>
        Json.mkObj [("name", Json.num (JsonNumber.fromNat n)), ("obj", objJson (get σ.attrs n))]).toArray),
    ("safe", Json.bool (safe p)),
    ("len", Json.num (JsonNumber.fromNat p.length))]

/-- `{"k":"ite","a":[…],"b":[…]}`, `{"k":"loop","a":[…]}`, or an operation (optionally tagged `"sid": n`:
    a write site, kept only when `n ∈ enable`) -/
partial def stmtsOfJson (enable : List Nat) (j : Json) : Except String (List Stmt) := do
  let a ← j.getArr?
  let mut out : List Stmt := []
  for e in a.toList do
    let k ← getStr e "k"
    if k == "ite" then
      let x ← stmtsOfJson enable (← e.getObjVal? "a")
      let y ← stmtsOfJson enable (← e.getObjVal? "b")
      out := out ++ [Stmt.ite x y]
    else if k == "loop" then
      let x ← stmtsOfJson enable (← e.getObjVal? "a")
      out := out ++ [Stmt.loop x]
    else
      match getNat e "sid" with
      | .ok sid => if enable.contains sid then out := out ++ [Stmt.op (← opOfJson e)]
      | .error _ => out := out ++ [Stmt.op (← opOfJson e)]
  return out

/-- line-protocol operations of this model; `none` = not one of mine -/
def ops (op : String) (j : Json) : Option (Except String Json) :=
  match op with
  | "heap_ep" => some (do
      -- run a modelled entry point: {"ep", "cfg":{flags}, "next", "env":[bindings], "attrs":[bindings], "variant"}
      let eps ← getStr j "ep"
      let cfgj := (j.getObjVal? "cfg").toOption.getD (Json.mkObj [])
      let c := cfgOfJson cfgj
      let variant := (getStr j "variant").toOption.getD ""
      let p ← match EP.ofString eps with
        | some ep => pure (if variant == "old" then progOld ep c else prog ep c)
        | none => throw s!"heap: unknown entry point {eps}"
      let next ← getNat j "next"
      let env ← bindingsOf j "env"
      let attrs ← bindingsOf j "attrs"
      let σ0 : St := { next := next, env := env, attrs := attrs, rets := [], written := [], ver := fun _ => 0 }
      return report σ0 (run σ0 p) p)
  | "heap_prog" => some (do
      -- run an explicit op list (primitive correspondence / programs extracted from the source)
      let v ← j.getObjVal? "prog"
      let a ← v.getArr?
      let p ← a.toList.mapM opOfJson
      let next ← getNat j "next"
      let env ← bindingsOf j "env"
      let attrs ← bindingsOf j "attrs"
      let σ0 : St := { next := next, env := env, attrs := attrs, rets := [], written := [], ver := fun _ => 0 }
      return report σ0 (run σ0 p) p)
  | "heap_safeB" => some (do
      -- ownership analysis of a structured program extracted from the python source:
      -- {"body":[stmts], "queries":[{"owned":[vars], "enable":[site ids]}, …]} → [bool, …]
      let body ← j.getObjVal? "body"
      let qs ← (← j.getObjVal? "queries").getArr?
      let rs ← qs.toList.mapM fun q => do
        let owned ← getNats q "owned"
        let enable ← getNats q "enable"
        let b ← stmtsOfJson enable.toList body
        return Json.bool (safeB owned.toList b)
      return Json.arr rs.toArray)
  | "heap_safe_all" => some (do
      -- the static verdict for every entry point over every configuration the harness lists
      let v ← j.getObjVal? "cfgs"
      let a ← v.getArr?
      let cs := a.toList.map cfgOfJson
      return Json.arr (EP.all.map fun ep =>
        Json.mkObj [("ep", Json.str (reprStr ep)), ("rejected", natsJson ((cs.zipIdx.filter fun (c, _) => !safe (prog ep c)).map (·.2)))]).toArray)
  | _ => none

end GSV.Model.Heap
