/- Hand-written executable model (tie B): Fit — `gstools.covmodel.fit.fit_variogram` and the parameter
   setters of `covmodel/base.py` it drives (`var`, `len_scale`, `nugget`, `anis`, optional arguments, each
   "store, then `check_arg_bounds`").  Core Lean only — no Mathlib import in this file.

   What is modelled (same order of effects and errors as the code):
     `prePara`           = `_pre_para`      fixed values, deselection, sill bookkeeping and its error cases
     `checkVario`        = `_check_vario`   isotropic / directional decision, its two errors
     `preInitGuess`      = `_pre_init_guess`
     `setWeights`        = `_set_weights`
     `initCurveFitPara`  = `_init_curve_fit_para` + `_init_guess` + `default_arg_from_bounds`
     `curveState/curveOut` = the closure built by `_get_curve` (state effect / returned values)
     `postFitting`       = `_post_fitting`
     `r2Score`           = `_r2_score`
   The optimiser is NOT modelled: `fit` takes an arbitrary finite list of evaluation points (`script`) and an
   arbitrary `popt`; `scipy.optimize.curve_fit` is replaced by exactly that in the correspondence harness.

   The model class enters through `Cfg`: bounds, `rescale`, the variance factor `fac len_scale opt`
   (`var = var_raw * var_factor()`, constant 1 except for the TPL models) and the normalised correlation
   `corr len_scale opt r` (`variogram r = var - var * correlation r + nugget`); both are uninterpreted
   functions for the theorems and concrete rational functions in the driver. -/
import GSV.Proto
open Lean GSV GSV.Proto GSV.Transc
namespace GSV.Model.Fit

/-- canonical error kinds; every one is a `ValueError` in Python -/
inductive Err where
  /-- `check_arg_bounds`: "<arg> needs to be >= / > / <= / < …" -/
  | bounds
  /-- `set_len_anis`: "anisotropy-ratios needs to be > 0" -/
  | anisNonPos
  /-- "fit: unknown parameter in selection" -/
  | unknownPar
  /-- "fit: sill out of bounds." -/
  | sillBounds
  /-- "fit: if sill is fixed and variance deselected, the set variance should be less than the given sill." -/
  | varGtSill
  /-- "fit: if sill is fixed and nugget deselected, the set nugget should be less than the given sill." -/
  | nugGtSill
  /-- "fit: method needs to be either 'trf' or 'dogbox'" -/
  | method
  /-- "CovModel.fit_variogram: Wrong number of empirical variograms!" -/
  | nData
  /-- "CovModel.fit_variogram: lat-lon models don't support anisotropy." -/
  | latlonDir
  /-- "fit_variogram: unknown def. guess" -/
  | guessDefault
  /-- "fit_variogram: unknown init guess" -/
  | guessName
  /-- `TypeError: curve() missing 1 required positional argument: 'arg1'` — nothing left to fit, `popt = []` -/
  | noParams
  /-- inputs outside the modelled domain (infinite values written into the model) -/
  | unmodelled
  deriving DecidableEq, Repr, Inhabited

def Err.toString : Err → String
  | .bounds => "bounds" | .anisNonPos => "anisNonPos" | .unknownPar => "unknownPar"
  | .sillBounds => "sillBounds" | .varGtSill => "varGtSill" | .nugGtSill => "nugGtSill"
  | .method => "method" | .nData => "nData" | .latlonDir => "latlonDir"
  | .guessDefault => "guessDefault" | .guessName => "guessName" | .noParams => "noParams"
  | .unmodelled => "unmodelled"

/-- a bound value: a number or ∓inf -/
inductive Ext (α : Type) where
  | ninf
  | fin (x : α)
  | pinf
  deriving Repr, Inhabited

/-- an interval with open/closed flags (`"oo"`, `"oc"`, `"co"`, `"cc"`; two-element bounds mean `"cc"`) -/
structure Bnd (α : Type) where
  lo : Ext α
  hi : Ext α
  loC : Bool
  hiC : Bool
  deriving Repr, Inhabited

/-- what a concrete `CovModel` object contributes that the fit does not change -/
structure Cfg (α : Type) where
  /-- `model.dim` (3 for a lat-lon model) -/
  dim : Nat
  latlon : Bool
  rescale : α
  varB : Bnd α
  lenB : Bnd α
  nugB : Bnd α
  anisB : Bnd α
  /-- bounds of the optional arguments, in the order of `model.opt_arg` -/
  optB : List (Bnd α)
  /-- `var_factor()` as a function of `len_scale` and the optional arguments -/
  fac : α → List α → α
  /-- `correlation(r)` as a function of `len_scale`, the optional arguments and `r` -/
  corr : α → List α → α → α

/-- the mutable parameter state of the model object as the fit sees it -/
structure St (α : Type) where
  /-- `model._var` -/
  varRaw : α
  len : α
  nug : α
  anis : List α
  opt : List α
  deriving Repr, Inhabited

/-- names in `**para_select` -/
inductive Par where
  | var | len | nug
  | opt (i : Nat)
  /-- a name that is not in `model.arg_bounds` -/
  | unknown
  deriving DecidableEq, Repr, Inhabited

/-- value given for a name in `**para_select`: a bool, or a number to be fixed -/
inductive Sel (α : Type) where
  | flag (b : Bool)
  | fix (v : α)
  deriving Repr

/-- which parameters are fitted (`para` dictionary of the code) -/
structure Para where
  var : Bool
  len : Bool
  nug : Bool
  opt : List Bool
  deriving DecidableEq, Repr, Inhabited

/-- the `sill` argument: `None`/`True`, `False` (= current sill), a number -/
inductive SillArg (α : Type) where
  | none
  | current
  | value (v : α)
  deriving Repr

/-- the `anis` argument: a bool, or values to be fixed -/
inductive AnisArg (α : Type) where
  | flag (b : Bool)
  | fix (a : List α)
  deriving Repr

/-- the `init_guess` argument after `{"default": …}` normalisation -/
structure IG (α : Type) where
  /-- 0 = "default", 1 = "current", anything else = an unknown string -/
  dflt : Nat
  /-- a key that is neither an isotropic argument nor "anis" -/
  badName : Bool
  var : Option α
  len : Option α
  nug : Option α
  anis : Option (List α)
  opt : List (Option α)
  deriving Repr

structure Guess (α : Type) where
  var : α
  len : α
  nug : α
  anis : List α
  opt : List α
  deriving Repr

/-- the `weights` argument -/
inductive Weights (α : Type) where
  | none
  | inv
  /-- a callable, given by its values on the (tiled, converted) `x_data` -/
  | callable (w : List α)
  | arr (w : List α)
  deriving Repr

/-- the returned `fit_para` dictionary -/
structure Dict (α : Type) where
  var : α
  len : α
  nug : α
  opt : List α
  /-- present for directional data only -/
  anis : Option (List α)
  deriving Repr, Inhabited

/-- result of `_pre_para` -/
structure Pre (α : Type) where
  st : St α
  para : Para
  /-- `some s` iff `constrain_sill` -/
  sill : Option α
  anisFit : Bool
  deriving Repr

section defs
variable {α : Type} [Arith α] [DecidableLT α] [DecidableLE α]

def zero : α := ((0 : Nat) : α)
def one : α := ((1 : Nat) : α)

def absA (x : α) : α := if x < (zero : α) then -x else x

/-- `v < e` -/
def ltE (v : α) : Ext α → Bool
  | .ninf => false | .fin x => decide (v < x) | .pinf => true
/-- `v ≤ e` -/
def leE (v : α) : Ext α → Bool
  | .ninf => false | .fin x => decide (v ≤ x) | .pinf => true
/-- `e < v` -/
def eLt (e : Ext α) (v : α) : Bool :=
  match e with | .ninf => true | .fin x => decide (x < v) | .pinf => false
/-- `e ≤ v` -/
def eLe (e : Ext α) (v : α) : Bool :=
  match e with | .ninf => true | .fin x => decide (x ≤ v) | .pinf => false

/-- `check_arg_in_bounds(...) == 0` for a scalar -/
def inBnd (b : Bnd α) (v : α) : Bool :=
  (if b.loC then !(ltE v b.lo) else !(leE v b.lo)) &&
  (if b.hiC then !(eLt b.hi v) else !(eLe b.hi v))

/-- float addition on bound values; `none` = nan -/
def Ext.add : Ext α → Ext α → Option (Ext α)
  | .fin a, .fin b => some (.fin (a + b))
  | .ninf, .pinf => none
  | .pinf, .ninf => none
  | .ninf, _ => some .ninf
  | _, .ninf => some .ninf
  | .pinf, _ => some .pinf
  | _, .pinf => some .pinf

/-- `default_arg_from_bounds([lo, hi])` (for `lo < hi`, `lo ≠ +inf`, `hi ≠ -inf`) -/
def defaultFromBounds (lo hi : Ext α) : α :=
  match lo, hi with
  | .fin a, .fin b => (a + b) / ((2 : Nat) : α)
  | .fin a, _ => a + one
  | _, .fin b => b - one
  | _, _ => zero

/-- `model.var` -/
def St.var (c : Cfg α) (s : St α) : α := s.varRaw * c.fac s.len s.opt

def optsIn : List (Bnd α) → List α → Bool
  | b :: bs, v :: vs => inBnd b v && optsIn bs vs
  | _, _ => true

/-- `check_arg_bounds` does not raise -/
def checkAll (c : Cfg α) (s : St α) : Bool :=
  inBnd c.varB (s.var c) && inBnd c.lenB s.len && inBnd c.nugB s.nug &&
  s.anis.all (inBnd c.anisB) && optsIn c.optB s.opt

def chk (c : Cfg α) (s : St α) : Except Err (St α) :=
  if checkAll c s then .ok s else .error .bounds

/-- `set_anis(dim, anis)`: cut to `dim - 1` entries, fill up *in front* with ones -/
def padAnis (dim : Nat) (a : List α) : List α :=
  let t := a.take (dim - 1)
  List.replicate (dim - 1 - t.length) (one : α) ++ t

/-- `out_anis[:n] = 1.0` -/
def forceOnes : Nat → List α → List α
  | 0, l => l
  | _, [] => []
  | n + 1, _ :: l => (one : α) :: forceOnes n l

/-- `set_len_anis(dim, len_scale, anis, latlon)` for a scalar `len_scale`, followed by `check_arg_bounds` -/
def setLenAnis (c : Cfg α) (s : St α) (len : α) (anis : List α) : Except Err (St α) :=
  let p := padAnis c.dim anis
  if p.all (fun x => decide ((zero : α) < x)) then
    chk c { s with len := len, anis := if c.latlon then forceOnes 2 p else p }
  else .error .anisNonPos

/-- `model.len_scale = v` -/
def setLen (c : Cfg α) (s : St α) (v : α) : Except Err (St α) := setLenAnis c s v s.anis
/-- `model.anis = a` -/
def setAnis (c : Cfg α) (s : St α) (a : List α) : Except Err (St α) := setLenAnis c s s.len a
/-- `model.nugget = v` -/
def setNug (c : Cfg α) (s : St α) (v : α) : Except Err (St α) := chk c { s with nug := v }
/-- `model.var = v`  (`_var = v / var_factor()`) -/
def setVar (c : Cfg α) (s : St α) (v : α) : Except Err (St α) :=
  chk c { s with varRaw := v / c.fac s.len s.opt }
/-- `setattr(model, opt_i, v)` -/
def setOpt (c : Cfg α) (s : St α) (i : Nat) (v : α) : Except Err (St α) :=
  chk c { s with opt := s.opt.set i v }

def validPar (s : St α) : Par → Bool
  | .var => true | .len => true | .nug => true
  | .opt i => decide (i < s.opt.length)
  | .unknown => false

/-- `setattr(model, par, v)` for `par ≠ "var"` -/
def setPar (c : Cfg α) (s : St α) : Par → α → Except Err (St α)
  | .var, v => setVar c s v
  | .len, v => setLen c s v
  | .nug, v => setNug c s v
  | .opt i, v => setOpt c s i v
  | .unknown, _ => .error .unknownPar

/-- first loop of `_pre_para`: fixed values are written into the model in keyword order, `var` is remembered
    and written last -/
def preLoop (c : Cfg α) : St α → Option α → List (Par × Sel α) → Except Err (St α × Option α)
  | s, vl, [] => .ok (s, vl)
  | s, vl, (p, sel) :: rest =>
    if validPar s p then
      match sel with
      | .flag _ => preLoop c s vl rest
      | .fix v =>
        match p with
        | .var => preLoop c s (some v) rest
        | _ => (setPar c s p v).bind fun s' => preLoop c s' vl rest
    else .error .unknownPar

/-- the names left in `para_select` after "remove those that were set to True" -/
def deselected (sel : List (Par × Sel α)) : List Par :=
  sel.filterMap fun ps => match ps.2 with
    | .flag true => none
    | _ => some ps.1

def Para.desel (p : Para) : Par → Para
  | .var => { p with var := false }
  | .len => { p with len := false }
  | .nug => { p with nug := false }
  | .opt i => { p with opt := p.opt.set i false }
  | .unknown => p

/-- `sill_low <= sill <= sill_up` with float semantics of `inf` / `nan` -/
def sillInRange (c : Cfg α) (sill : α) : Bool :=
  match Ext.add c.varB.lo c.nugB.lo, Ext.add c.varB.hi c.nugB.hi with
  | some lo, some hi => eLe lo sill && leE sill hi
  | _, _ => false

/-- the sill part of `_pre_para`; returns the new state and the enlarged deselection list -/
def preSill (c : Cfg α) (s : St α) (des : List Par) (sill : α) : Except Err (St α × List Par) :=
  if sillInRange c sill then
    if des.contains .var && des.contains .nug then
      if sill < s.var c then
        match c.nugB.lo with
        | .fin nl => (setNug c s nl).bind fun s1 => (setVar c s1 (sill - s1.nug)).bind fun s2 => .ok (s2, des)
        | _ => .error .unmodelled
      else (setNug c s (sill - s.var c)).bind fun s1 => .ok (s1, des)
    else if des.contains .var then
      if sill < s.var c then .error .varGtSill
      else (setNug c s (sill - s.var c)).bind fun s1 => .ok (s1, des ++ [.nug])
    else if des.contains .nug then
      if sill < s.nug then .error .nugGtSill
      else (setVar c s (sill - s.nug)).bind fun s1 => .ok (s1, des ++ [.var])
    else .ok (s, des ++ [.nug])
  else .error .sillBounds

/-- the sill to constrain to: `None`/`True` → none, `False` → the current sill, else the given number -/
def sillValue (sill : SillArg α) (cur : α) : Option α :=
  match sill with
  | .none => none
  | .current => some cur
  | .value v => some v

/-- `_pre_para` -/
def prePara (c : Cfg α) (s0 : St α) (sel : List (Par × Sel α)) (sill : SillArg α) (anis : AnisArg α) :
    Except Err (Pre α) :=
  (preLoop c s0 none sel).bind fun (s1, vl) =>
  (match vl with | some v => setVar c s1 v | none => .ok s1).bind fun s2 =>
  let des := deselected sel
  let sillV : Option α := sillValue sill (s2.var c + s2.nug)
  (match sillV with
    | some sl => preSill c s2 des sl
    | none => .ok (s2, des)).bind fun (s3, des') =>
  let para := des'.foldl Para.desel { var := true, len := true, nug := true, opt := s3.opt.map fun _ => true }
  match anis with
  | .flag b => .ok { st := s3, para := para, sill := sillV, anisFit := b }
  | .fix a => (setAnis c s3 a).bind fun s4 => .ok { st := s4, para := para, sill := sillV, anisFit := false }

/-- `_check_vario`: is the data directional?  (`nx`, `ny` = sizes of `x_data`, `y_data`) -/
def checkVario (c : Cfg α) (nx ny : Nat) : Except Err Bool :=
  if decide (1 < c.dim) && nx * c.dim == ny then
    if c.latlon then .error .latlonDir else .ok true
  else if nx != ny then .error .nData
  else .ok false

def tile (n : Nat) (x : List α) : List α := (List.replicate n x).flatten

def sumL (l : List α) : α := l.foldl (· + ·) zero
def meanL (l : List α) : α := sumL l / ((l.length : Nat) : α)

/-- `_pre_init_guess` (`mx`, `my` = means of the prepared x and y data) -/
def preInitGuess (c : Cfg α) (s : St α) (ig : IG α) (mx my : α) : Except Err (Guess α) :=
  if ig.dflt ≥ 2 then .error .guessDefault
  else if ig.badName then .error .guessName
  else
    let d := ig.dflt == 0
    let anis0 : List α := match ig.anis with
      | some a => a
      | none => if d then [defaultFromBounds c.anisB.lo c.anisB.hi] else s.anis
    .ok {
      len := ig.len.getD (if d then mx * c.rescale else s.len)
      var := ig.var.getD (if d then my else s.var c)
      nug := ig.nug.getD (if d then my else s.nug)
      anis := padAnis c.dim anis0
      opt := (List.range s.opt.length).map fun i =>
        ((ig.opt.getD i none).getD
          (if d then (match c.optB[i]? with
                      | some b => defaultFromBounds b.lo b.hi
                      | none => zero)
           else s.opt.getD i zero)) }

/-- `_set_weights`: the `sigma` handed to `curve_fit` (`x` = prepared x data) -/
def setWeights (c : Cfg α) (dir : Bool) (x : List α) : Weights α → Option (List α)
  | .none => none
  | .inv => some (x.map fun v => one + v)
  | .callable w => some (w.map fun v => one / v)
  | .arr w =>
    let w' := if dir && w.length * c.dim == x.length then tile c.dim w else w
    some (w'.map fun v => one / v)

/-- `_init_guess` -/
def initGuess (lo hi : Ext α) (d : α) : α :=
  if eLt lo d && ltE d hi then d else defaultFromBounds lo hi

/-- the optional-argument loop of `_init_curve_fit_para` -/
def initOpts : List Bool → List (Bnd α) → List α → List (Ext α × Ext α × α)
  | true :: fs, b :: bs, g :: gs => (b.lo, b.hi, initGuess b.lo b.hi g) :: initOpts fs bs gs
  | false :: fs, _ :: bs, _ :: gs => initOpts fs bs gs
  | _, _, _ => []

/-- `_init_curve_fit_para`: (low, top, p0) per fitted parameter, in the order of the argument tuple -/
def initCurveFitPara (c : Cfg α) (pa : Para) (g : Guess α) (sill : Option α) (anisFit : Bool) :
    List (Ext α × Ext α × α) :=
  (if pa.var then
    let top : Ext α := match sill with | some sl => .fin sl | none => c.varB.hi
    [(c.varB.lo, top, initGuess c.varB.lo top g.var)] else []) ++
  (if pa.len then [(c.lenB.lo, c.lenB.hi, initGuess c.lenB.lo c.lenB.hi g.len)] else []) ++
  (if pa.nug then [(c.nugB.lo, c.nugB.hi, initGuess c.nugB.lo c.nugB.hi g.nug)] else []) ++
  initOpts pa.opt c.optB g.opt ++
  (if anisFit then
    (List.range (c.dim - 1)).map fun i =>
      (c.anisB.lo, c.anisB.hi, initGuess c.anisB.lo c.anisB.hi (g.anis.getD i zero))
   else [])

/-! ### the curve closure -/

/-- position of `len_scale` / `nugget` / the first optional argument in the argument tuple (`para_skip`) -/
def Para.iLen (p : Para) : Nat := if p.var then 1 else 0
def Para.iNug (p : Para) : Nat := p.iLen + (if p.len then 1 else 0)
def Para.iOpt (p : Para) : Nat := p.iNug + (if p.nug then 1 else 0)
/-- number of isotropic parameters fitted -/
def Para.nIso (p : Para) : Nat := p.iOpt + (p.opt.filter id).length

/-- `for opt in model.opt_arg: if para[opt]: setattr(model, opt, args[para_skip + opt_skip]); opt_skip += 1`
    (`as` = the argument tuple from `para_skip` on) -/
def setOpts (c : Cfg α) : St α → List Bool → Nat → List α → Except Err (St α)
  | s, [], _, _ => .ok s
  | s, false :: fs, i, as => setOpts c s fs (i + 1) as
  | s, true :: fs, i, as => (setOpt c s i (as.headD zero)).bind fun s' => setOpts c s' fs (i + 1) as.tail

/-- `args[1 - model.dim:]` -/
def lastAnis (c : Cfg α) (args : List α) : List α := args.drop (args.length - (c.dim - 1))

/-- does `curve` take the punishment branch (`return np.full_like(x, np.inf)`)? -/
def punished (c : Cfg α) (pa : Para) (sill : Option α) (args : List α) : Bool :=
  pa.var && (match sill with
    | some sl => !inBnd c.nugB (sl - args.getD 0 zero)
    | none => false)

/-- state effect of one call `curve(x, *args)`; `none` = punishment branch (model untouched) -/
def curveState (c : Cfg α) (pa : Para) (sill : Option α) (anisFit dir : Bool) (varSave : α)
    (s : St α) (args : List α) : Except Err (Option (St α)) :=
  if punished c pa sill args then .ok none else
  (if pa.var then
    match sill with
    | some sl => setNug c s (sl - args.getD 0 zero)
    | none => .ok s
   else .ok s).bind fun s1 =>
  (if pa.len then setLen c s1 (args.getD pa.iLen zero) else .ok s1).bind fun s2 =>
  (if pa.nug then setNug c s2 (args.getD pa.iNug zero) else .ok s2).bind fun s3 =>
  (setOpts c s3 pa.opt 0 (args.drop pa.iOpt)).bind fun s4 =>
  (setVar c s4 (if pa.var then args.getD 0 zero else varSave)).bind fun s5 =>
  (if dir && anisFit then setAnis c s5 (lastAnis c args) else .ok s5).bind fun s6 =>
  .ok (some s6)

/-- `model.variogram(r)` -/
def vario (c : Cfg α) (s : St α) (r : α) : α :=
  s.var c - s.var c * c.corr s.len s.opt r + s.nug

/-- `model.vario_axis(r, axis)` -/
def varioAxis (c : Cfg α) (s : St α) (axis : Nat) (r : α) : α :=
  if axis = 0 then vario c s r else vario c s (absA r / s.anis.getD (axis - 1) one)

/-- the values `curve` returns from model state `s` (`x` = prepared x data), also `_r2_score`'s curve -/
def curveOut (c : Cfg α) (dir : Bool) (x : List α) (s : St α) : List α :=
  if dir then
    let xs := x.take (x.length / c.dim)
    (List.range c.dim).flatMap fun i => xs.map (varioAxis c s i)
  else x.map (vario c s)

/-- the scripted optimiser: call the curve at every point of the list, in order -/
def runScript (c : Cfg α) (pa : Para) (sill : Option α) (anisFit dir : Bool) (varSave : α) (x : List α) :
    St α → List (List α) → Except Err (St α × List (Option (List α)))
  | s, [] => .ok (s, [])
  | s, a :: rest =>
    (curveState c pa sill anisFit dir varSave s a).bind fun r =>
      match r with
      | none => (runScript c pa sill anisFit dir varSave x s rest).bind fun (s', o) => .ok (s', none :: o)
      | some s1 =>
        (runScript c pa sill anisFit dir varSave x s1 rest).bind fun (s', o) =>
          .ok (s', some (curveOut c dir x s1) :: o)

/-! ### `_post_fitting` -/

/-- the optional-argument loop of `_post_fitting`; returns the state and the dictionary values -/
def postOpts (c : Cfg α) : St α → List Bool → Nat → List α → Except Err (St α × List α)
  | s, [], _, _ => .ok (s, [])
  | s, false :: fs, i, as =>
    (postOpts c s fs (i + 1) as).bind fun (s', d) => .ok (s', s.opt.getD i zero :: d)
  | s, true :: fs, i, as =>
    (setOpt c s i (as.headD zero)).bind fun s1 =>
      (postOpts c s1 fs (i + 1) as.tail).bind fun (s', d) => .ok (s', as.headD zero :: d)

/-- `_post_fitting` -/
def postFitting (c : Cfg α) (pa : Para) (anisFit dir : Bool) (s : St α) (popt : List α) :
    Except Err (St α × Dict α) :=
  let dVar := if pa.var then popt.getD 0 zero else s.var c
  (if pa.len then setLen c s (popt.getD pa.iLen zero) else .ok s).bind fun s1 =>
  let dLen := if pa.len then popt.getD pa.iLen zero else s1.len
  (if pa.nug then setNug c s1 (popt.getD pa.iNug zero) else .ok s1).bind fun s2 =>
  let dNug := if pa.nug then popt.getD pa.iNug zero else s2.nug
  (postOpts c s2 pa.opt 0 (popt.drop pa.iOpt)).bind fun (s3, dOpt) =>
  (if dir && anisFit then setAnis c s3 (lastAnis c popt) else .ok s3).bind fun s4 =>
  let dAnis := if dir then some s4.anis else none
  (if pa.var then setVar c s4 (popt.getD 0 zero) else .ok s4).bind fun s5 =>
  .ok (s5, { var := dVar, len := dLen, nug := dNug, opt := dOpt, anis := dAnis })

/-! ### `_r2_score` -/

def ssRes (y v : List α) : α := sumL ((List.zip y v).map fun p => (p.1 - p.2) * (p.1 - p.2))
def ssTot (y : List α) : α := let m := meanL y; sumL (y.map fun a => (a - m) * (a - m))
/-- `1 - ss_res / ss_tot` (meaningful for `ss_tot ≠ 0`) -/
def r2Score (c : Cfg α) (dir : Bool) (x y : List α) (s : St α) : α :=
  one - ssRes y (curveOut c dir x s) / ssTot y

/-! ### `fit_variogram` with a scripted optimiser -/

structure Result (α : Type) where
  st : St α
  dict : Dict α
  para : Para
  sill : Option α
  dir : Bool
  anisFit : Bool
  /-- (low, top, p0) handed to `curve_fit` -/
  bp : List (Ext α × Ext α × α)
  sigma : Option (List α)
  /-- prepared x data handed to `curve_fit` -/
  xdata : List α
  /-- curve values per script point (`none` = all `inf`) -/
  outs : List (Option (List α))
  r2 : α
  deriving Repr

/-- `fit_variogram(model, x, y, anis, sill, init_guess, weights, method, …, **sel)` where `curve_fit` evaluates
    the curve at the points of `script` and returns `popt`.  `x` is the raw bin-centre array (for a lat-lon
    model: already converted to chordal distances).
    `evalPopt = true` is the code as it is: after `curve_fit` the curve is evaluated once more at `popt`
    ("bring the model into the state of the optimal parameters").  `evalPopt = false` is the code before that
    repair (defect D9), kept to show what the extra evaluation buys. -/
def fitCore (evalPopt : Bool) (c : Cfg α) (s0 : St α) (sel : List (Par × Sel α)) (sill : SillArg α) (anis : AnisArg α)
    (ig : IG α) (w : Weights α) (methodOk : Bool) (x y : List α)
    (script : List (List α)) (popt : List α) : Except Err (Result α) :=
  (prePara c s0 sel sill anis).bind fun pre =>
  if !methodOk then .error .method else
  (checkVario c x.length y.length).bind fun dir =>
  let xd := if dir then tile c.dim x else x
  (preInitGuess c pre.st ig (meanL xd) (meanL y)).bind fun g =>
  let anisFit := pre.anisFit && dir
  let sigma := setWeights c dir xd w
  let bp := initCurveFitPara c pre.para g pre.sill anisFit
  let varSave := pre.st.var c
  (runScript c pre.para pre.sill anisFit dir varSave xd pre.st script).bind fun (s1, outs) =>
  (if evalPopt then
    (if popt.isEmpty then .error .noParams
     else runScript c pre.para pre.sill anisFit dir varSave xd s1 [popt])
   else .ok (s1, [])).bind fun (s1', _) =>
  (postFitting c pre.para anisFit dir s1' popt).bind fun (s2, d) =>
  .ok { st := s2, dict := d, para := pre.para, sill := pre.sill, dir := dir, anisFit := anisFit,
        bp := bp, sigma := sigma, xdata := xd, outs := outs, r2 := r2Score c dir xd y s2 }

/-- `fit_variogram` as it is (with the final evaluation at `popt`) -/
def fit (c : Cfg α) (s0 : St α) (sel : List (Par × Sel α)) (sill : SillArg α) (anis : AnisArg α)
    (ig : IG α) (w : Weights α) (methodOk : Bool) (x y : List α)
    (script : List (List α)) (popt : List α) : Except Err (Result α) :=
  fitCore true c s0 sel sill anis ig w methodOk x y script popt

end defs

/-! ### the keyword dictionary handed to `curve_fit`

  `curve_fit(**curve_fit_kwargs)`: the caller's `curve_fit_kwargs` are solver OPTIONS; the entries `fit_variogram` owns
  (`f`, `bounds`, `p0`, `xdata`, `ydata`, `loss`, `max_nfev`, `method`, and `sigma` / `absolute_sigma` when weights are given)
  are assigned by the call (`curve_fit_kwargs["bounds"] = bounds`, …), whatever the dictionary held before — e.g. the values an
  earlier call computed when the caller reuses one dictionary.  Dictionaries are association lists, first match wins. -/

/-- the names `fit_variogram` assigns unconditionally -/
def ownedKwargs : List String := ["f", "bounds", "p0", "xdata", "ydata", "loss", "max_nfev", "method"]

/-- `d[k]` -/
def lookupKw {β : Type} (d : List (String × β)) (k : String) : Option β := (d.find? (fun kv => kv.1 == k)).map (·.2)

/-- the dictionary after the assignments `d[k] = v` for every `(k, v)` of `computed` -/
def mergeKwargs {β : Type} (user computed : List (String × β)) : List (String × β) :=
  computed ++ user.filter (fun kv => !(computed.any (fun c => c.1 == kv.1)))

/-! ### `Rat` instance and line protocol -/

instance instArithRatFit : Arith Rat := {}

def maxR (a b : Rat) : Rat := if a < b then b else a

/-- concrete class tables of the driver.  `kind`:
    * `"plain"`   `fac = 1`, correlation not modelled (state comparison only)
    * `"linear"`  `fac = 1`, `cor(h) = max(1 - h, 0)` (gstools `Linear`)
    * `"tent"`    `fac = 1`, `cor(h) = max(1 - opt₀·h, 0)` (harness class with optional arguments)
    * `"factent"` `fac = opt₁ · len_scale / rescale`, same correlation (harness class with a TPL-like variance factor)
    * `"tplhalf"` `fac = (opt[ilow] + len_scale)/rescale − opt[ilow]/rescale` (TPL models at `hurst = 1/2`),
                  correlation not modelled -/
def classFac (kind : String) (rescale : Rat) (ilow : Nat) : Rat → List Rat → Rat :=
  match kind with
  | "factent" => fun len opt => opt.getD 1 0 * (len / rescale)
  | "tplhalf" => fun len opt => (opt.getD ilow 0 + len) / rescale - opt.getD ilow 0 / rescale
  | _ => fun _ _ => 1

def classCorr (kind : String) (rescale : Rat) : Rat → List Rat → Rat → Rat :=
  match kind with
  | "linear" => fun len _ r => maxR (1 - absA r / (len / rescale)) 0
  | "tent" => fun len opt r => maxR (1 - opt.getD 0 0 * (absA r / (len / rescale))) 0
  | "factent" => fun len opt r => maxR (1 - opt.getD 0 0 * (absA r / (len / rescale))) 0
  | _ => fun _ _ _ => 0

def jExt (v : Json) : Except String (Ext Rat) :=
  match v with
  | Json.str "ninf" => .ok .ninf
  | Json.str "pinf" => .ok .pinf
  | _ => do let r ← jsonToRat v; return .fin r

/-- `[lo, hi, "oo"]` -/
def jBnd (v : Json) : Except String (Bnd Rat) := do
  let a ← v.getArr?
  if a.size != 3 then throw "bnd" else
  let lo ← jExt a[0]!
  let hi ← jExt a[1]!
  let t ← a[2]!.getStr?
  return { lo := lo, hi := hi, loC := t.startsWith "c", hiC := t.endsWith "c" }

def jRatList (v : Json) : Except String (List Rat) := do
  let a ← v.getArr?
  let l ← a.mapM jsonToRat
  return l.toList

def jOptRat (v : Json) : Except String (Option Rat) :=
  match v with
  | Json.null => .ok none
  | _ => do let r ← jsonToRat v; return some r

def field (j : Json) (k : String) : Except String Json := j.getObjVal? k

def jPar (v : Json) : Except String Par :=
  match v with
  | Json.str "var" => .ok .var
  | Json.str "len" => .ok .len
  | Json.str "nug" => .ok .nug
  | Json.str _ => .ok .unknown
  | _ => do let n ← v.getNat?; return .opt n

def jSel (v : Json) : Except String (Sel Rat) :=
  match v with
  | Json.bool b => .ok (.flag b)
  | _ => do let r ← jsonToRat v; return .fix r

def eExt : Ext Rat → Json
  | .ninf => Json.str "ninf"
  | .pinf => Json.str "pinf"
  | .fin x => rat x

def eOptList : Option (List Rat) → Json
  | none => Json.null
  | some l => rl l

def eSt (c : Cfg Rat) (s : St Rat) : Json :=
  Json.mkObj [("var", rat (s.var c)), ("var_raw", rat s.varRaw), ("len", rat s.len), ("nug", rat s.nug),
    ("anis", rl s.anis), ("opt", rl s.opt)]

def runFit (j : Json) : Except String Json := do
  let kind ← getStr j "kind"
  let dim ← getNat j "dim"
  let latlon ← getBool j "latlon"
  let rescale ← getRat j "rescale"
  let ilow ← getNat j "ilow"
  let bj ← field j "bounds"
  let varB ← jBnd (← field bj "var")
  let lenB ← jBnd (← field bj "len")
  let nugB ← jBnd (← field bj "nug")
  let anisB ← jBnd (← field bj "anis")
  let optB ← (← (← field bj "opt").getArr?).mapM jBnd
  let c : Cfg Rat := {
    dim := dim
    latlon := latlon
    rescale := rescale
    varB := varB
    lenB := lenB
    nugB := nugB
    anisB := anisB
    optB := optB.toList
    fac := classFac kind rescale ilow
    corr := classCorr kind rescale }
  let sj ← field j "state"
  let sVarRaw ← getRat sj "var_raw"
  let sLen ← getRat sj "len"
  let sNug ← getRat sj "nug"
  let sAnis ← getRats sj "anis"
  let sOpt ← getRats sj "opt"
  let s0 : St Rat := { varRaw := sVarRaw, len := sLen, nug := sNug, anis := sAnis.toList, opt := sOpt.toList }
  let selA ← (← field j "sel").getArr?
  let sel ← selA.toList.mapM fun (e : Json) => do
    let a ← e.getArr?
    if a.size != 2 then throw "sel" else
    let p ← jPar a[0]!
    let s ← jSel a[1]!
    return (p, s)
  let sill : SillArg Rat ← match (← field j "sill") with
    | Json.str "none" => pure SillArg.none
    | Json.str "current" => pure SillArg.current
    | v => do let r ← jsonToRat v; pure (SillArg.value r)
  let anis : AnisArg Rat ← match (← field j "anis") with
    | Json.bool b => pure (AnisArg.flag b)
    | v => do let l ← jRatList v; pure (AnisArg.fix l)
  let gj ← field j "ig"
  let igAnis : Option (List Rat) ← match (← field gj "anis") with
    | Json.null => pure none
    | v => do let l ← jRatList v; pure (some l)
  let igOpt ← (← (← field gj "opt").getArr?).toList.mapM jOptRat
  let gDflt ← getNat gj "dflt"
  let gBad ← getBool gj "bad"
  let gVar ← jOptRat (← field gj "var")
  let gLen ← jOptRat (← field gj "len")
  let gNug ← jOptRat (← field gj "nug")
  let ig : IG Rat := { dflt := gDflt, badName := gBad, var := gVar, len := gLen, nug := gNug, anis := igAnis, opt := igOpt }
  let w : Weights Rat ← match (← field j "weights") with
    | Json.null => pure Weights.none
    | Json.str _ => pure Weights.inv
    | v => match v.getObjVal? "call" with
      | .ok l => do let l ← jRatList l; pure (Weights.callable l)
      | .error _ => do let l ← jRatList (← field v "arr"); pure (Weights.arr l)
  let methodOk ← getBool j "method_ok"
  let x := (← getRats j "x").toList
  let y := (← getRats j "y").toList
  let script ← (← (← field j "script").getArr?).toList.mapM jRatList
  let popt := (← getRats j "popt").toList
  match fit c s0 sel sill anis ig w methodOk x y script popt with
  | .error e => return Json.mkObj [("err", Json.str e.toString)]
  | .ok r =>
    return Json.mkObj [
      ("st", eSt c r.st),
      ("dict", Json.mkObj [("var", rat r.dict.var), ("len", rat r.dict.len), ("nug", rat r.dict.nug),
        ("opt", rl r.dict.opt), ("anis", eOptList r.dict.anis)]),
      ("para", Json.arr (#[Json.bool r.para.var, Json.bool r.para.len, Json.bool r.para.nug] ++
        (r.para.opt.map Json.bool).toArray)),
      ("dir", Json.bool r.dir), ("anis_fit", Json.bool r.anisFit),
      ("low", Json.arr (r.bp.map fun t => eExt t.1).toArray),
      ("top", Json.arr (r.bp.map fun t => eExt t.2.1).toArray),
      ("p0", rl (r.bp.map fun t => t.2.2)),
      ("sigma", eOptList r.sigma),
      ("xdata", rl r.xdata),
      ("outs", Json.arr (r.outs.map eOptList).toArray),
      ("r2", rat r.r2),
      ("ss_tot", rat (ssTot y))]

/-- line-protocol operations of this model; `none` = not one of mine -/
def ops (op : String) (j : Json) : Option (Except String Json) :=
  match op with
  | "c10_fit" => some (runFit j)
  | _ => none

end GSV.Model.Fit
