/- Hand-written executable model (tie B): CovFn — the function layer of `CovModel`:
   * the derivation of `variogram / covariance / correlation / cor` from whichever of them a subclass
     defines (`covmodel/tools.py::_init_subclass`), with `var`, `len_scale`, `nugget`, `rescale`;
   * the `*_nugget`, `*_axis`, `*_spatial`, `*_yadrenko` variants (`covmodel/base.py:259-317`);
   * the elementary closed forms of the shipped `cor` methods (`covmodel/models.py`,
     `covmodel/tpl_models.py`) and the elementary slices of the special-function families;
   * integral scales (closed forms of `calc_integral_scale`, the value of `∫₀^∞ cor`) and the
     `integral_scale` setter.
   Core Lean only — no Mathlib import in this file.  The definitions follow the code statement by
   statement (operation order included) so that the `Float` run agrees with numpy to rounding. -/
import GSV.Proto
import GSV.Model.Geo
open Lean GSV GSV.Proto GSV.Transc
namespace GSV.Model.CovFn

variable {α : Type} [Arith α] [Transc α] [DecidableLT α] [DecidableLE α]

/-! ### parameters -/

/-- the four scalar parameters every function of the model reads -/
structure Par (α : Type) where
  var : α
  lenScale : α
  nugget : α
  rescale : α

/-- `CovModel.len_rescaled = len_scale / rescale` -/
def lenRescaled (p : Par α) : α := p.lenScale / p.rescale

/-- `CovModel.sill = var + nugget` -/
def sill (p : Par α) : α := p.var + p.nugget

/-- `np.minimum(a, b)` / `np.maximum(a, b)` on non-NaN doubles -/
def fmin (a b : α) : α := if a < b then a else b
def fmax (a b : α) : α := if a < b then b else a

/-! ### `_init_subclass`: the installed defaults -/

/-- default `variogram(r) = var - covariance(r) + nugget` -/
def dVariogram (p : Par α) (covariance : α → α) (r : α) : α := p.var - covariance r + p.nugget

/-- default `covariance(r) = var * correlation(r)` -/
def dCovariance (p : Par α) (correlation : α → α) (r : α) : α := p.var * correlation r

/-- default `correlation(r) = 1.0 - (variogram(r) - nugget) / var` -/
def dCorrelation (p : Par α) (variogram : α → α) (r : α) : α :=
  ((1:Nat):α) - (variogram r - p.nugget) / p.var

/-- `correlation_from_cor(r) = cor(|r| / len_rescaled)` -/
def correlationFromCor (p : Par α) (cor : α → α) (r : α) : α := cor (fabs r / lenRescaled p)

/-- `cor_from_correlation(h) = correlation(|h| * len_rescaled)` -/
def corFromCorrelation (p : Par α) (correlation : α → α) (h : α) : α :=
  correlation (fabs h * lenRescaled p)

/-- the four functions a `CovModel` subclass ends up with -/
structure Fns (α : Type) where
  cor : α → α
  correlation : α → α
  covariance : α → α
  variogram : α → α

/-- subclass defines `cor` only -/
def fromCor (p : Par α) (cor : α → α) : Fns α :=
  let correlation := correlationFromCor p cor
  let covariance := dCovariance p correlation
  { cor := cor, correlation := correlation, covariance := covariance,
    variogram := dVariogram p covariance }

/-- subclass defines `correlation` only -/
def fromCorrelation (p : Par α) (correlation : α → α) : Fns α :=
  let covariance := dCovariance p correlation
  { cor := corFromCorrelation p correlation, correlation := correlation, covariance := covariance,
    variogram := dVariogram p covariance }

/-- subclass defines `covariance` only: `variogram` is the default over it, `correlation` the default
    over that `variogram` (divides by `var`), `cor` comes from `correlation` -/
def fromCovariance (p : Par α) (covariance : α → α) : Fns α :=
  let variogram := dVariogram p covariance
  let correlation := dCorrelation p variogram
  { cor := corFromCorrelation p correlation, correlation := correlation, covariance := covariance,
    variogram := variogram }

/-- subclass defines `variogram` only -/
def fromVariogram (p : Par α) (variogram : α → α) : Fns α :=
  let correlation := dCorrelation p variogram
  let covariance := dCovariance p correlation
  { cor := corFromCorrelation p correlation, correlation := correlation, covariance := covariance,
    variogram := variogram }

/-- subclass defines both `cor` and `correlation` (the TPL classes) -/
def fromCorAndCorrelation (p : Par α) (cor correlation : α → α) : Fns α :=
  let covariance := dCovariance p correlation
  { cor := cor, correlation := correlation, covariance := covariance,
    variogram := dVariogram p covariance }

/-- which function the (user) subclass supplies -/
inductive Route where
  | cor | correlation | covariance | variogram
  deriving Repr, DecidableEq, Inhabited

/-- the tiny user subclasses of the harness: kernel `K` of the non-dimensional lag, written out as the
    respective defining function (same operation order as the python classes in `vlib/props/C03.py`) -/
def userFns (route : Route) (K : α → α) (p : Par α) : Fns α :=
  match route with
  | .cor => fromCor p K
  | .correlation => fromCorrelation p fun r => K (fabs r / lenRescaled p)
  | .covariance => fromCovariance p fun r => p.var * K (fabs r / lenRescaled p)
  | .variogram => fromVariogram p fun r => p.var * (((1:Nat):α) - K (fabs r / lenRescaled p)) + p.nugget

/-! ### variants of `base.py` -/

/-- `np.isclose(r, 0)`: `|r - 0| <= atol + rtol * |0|` with the numpy defaults `atol = 1e-8` -/
def isclose0 (r : α) : Bool := decide (fabs r ≤ (1e-8 : α))

/-- `vario_nugget` -/
def varioNugget (F : Fns α) (r : α) : α :=
  if isclose0 (fabs r) then ((0:Nat):α) else F.variogram (fabs r)

/-- `cov_nugget` -/
def covNugget (p : Par α) (F : Fns α) (r : α) : α :=
  if isclose0 (fabs r) then sill p else F.covariance (fabs r)

/-- lag handed to the isotropic function by `vario_axis / cov_axis / cor_axis`
    (`none` = python `IndexError`) -/
def axisLag (anis : List α) (axis : Nat) (r : α) : Option α :=
  match axis with
  | 0 => some r
  | k + 1 => (anis[k]?).map fun a => fabs r / a

/-- `great_circle_to_chordal(zeta, radius) = (2 radius) * sin(zeta / (2 radius))` -/
def chordal (radius zeta : α) : α :=
  let diameter := ((2:Nat):α) * radius
  diameter * sin (zeta / diameter)

/-- lag of the `*_spatial` variants: `_get_iso_rad` (model of `GSV.Model.Geo`) -/
def spatialLag (dim : Nat) (angles anis : List α) (x : Nat → α) : α := Geo.isoRad dim angles anis x

/-! ### elementary closed forms of the shipped `cor` methods (argument: non-dimensional lag `h`) -/

/-- Gaussian: `np.exp(-(h**2))` -/
def gaussianCor (h : α) : α := exp (-(npow h 2))
/-- Gaussian `default_rescale = sqrt(pi) / 2` -/
def gaussianRescale : α := sqrt (pi : α) / ((2:Nat):α)

/-- Exponential: `np.exp(-h)` -/
def exponentialCor (h : α) : α := exp (-h)

/-- Stable: `np.exp(-np.power(h, alpha))` -/
def stableCor (alpha h : α) : α := exp (-(rpow h alpha))

/-- Rational: `np.power(1 + h**2 / alpha, -alpha)` -/
def rationalCor (alpha h : α) : α := rpow (((1:Nat):α) + npow h 2 / alpha) (-alpha)

/-- the polynomial of `Cubic.cor` -/
def cubicPoly (h : α) : α :=
  ((1:Nat):α) - ((7:Nat):α) * npow h 2 + (8.75:α) * npow h 3 - (3.5:α) * npow h 5 + (0.75:α) * npow h 7

/-- Cubic: `h = np.minimum(np.abs(h), 1.0)` then the polynomial -/
def cubicCor (h : α) : α := cubicPoly (fmin (fabs h) ((1:Nat):α))

/-- Linear: `np.maximum(1 - np.abs(h), 0.0)` -/
def linearCor (h : α) : α := fmax (((1:Nat):α) - fabs h) ((0:Nat):α)

/-- the inner expression of `Circular.cor` -/
def circularInner (h : α) : α :=
  ((2:Nat):α) / (pi : α) * (acos h - h * sqrt (((1:Nat):α) - npow h 2))

/-- Circular: zero unless `|h| < 1` -/
def circularCor (h : α) : α :=
  if fabs h < ((1:Nat):α) then circularInner (fabs h) else ((0:Nat):α)

/-- the polynomial of `Spherical.cor` -/
def sphericalPoly (h : α) : α := ((1:Nat):α) - (1.5:α) * h + (0.5:α) * npow h 3

/-- Spherical: `h = np.minimum(np.abs(h), 1.0)` then the polynomial -/
def sphericalCor (h : α) : α := sphericalPoly (fmin (fabs h) ((1:Nat):α))

/-- TPLSimple: `np.maximum(1 - np.abs(h), 0.0) ** nu` -/
def tplSimpleCor (nu h : α) : α := rpow (fmax (((1:Nat):α) - fabs h) ((0:Nat):α)) nu

/-! ### special-function families on the slices where they are elementary -/

/-- binomial coefficient (Pascal recursion; core Lean has no `Nat.choose`) -/
def choose : Nat → Nat → Nat
  | _, 0 => 1
  | 0, _ + 1 => 0
  | n + 1, k + 1 => choose n k + choose n (k + 1)

/-- `₂F₁(1/2, -n; 3/2; x) = Σ_{k ≤ n} C(n,k) (-x)^k / (2k+1)` for a natural `n`
    (the series terminates; `(1/2)_k / (3/2)_k = 1/(2k+1)`, `(-n)_k / k! = (-1)^k C(n,k)`) -/
def hyp2f1HalfNegNat (n : Nat) (x : α) : α :=
  forRange 0 (n + 1) ((0:Nat):α) fun k acc =>
    acc + ((choose n k : Nat) : α) * npow (-x) k / (((2 * k + 1 : Nat)) : α)

/-- SuperSpherical with natural `nu = n`: `1 - h * fac * ₂F₁(1/2, -n; 3/2; h²)` for `h < 1`, else `0`;
    `fac = 1 / ₂F₁(1/2, -n; 3/2; 1)`.  (No `abs`: the code does not take one.) -/
def superSphericalNatCor (n : Nat) (h : α) : α :=
  if h < ((1:Nat):α) then
    ((1:Nat):α) - h * (((1:Nat):α) / hyp2f1HalfNegNat n ((1:Nat):α)) * hyp2f1HalfNegNat n (npow h 2)
  else ((0:Nat):α)

/-- SuperSpherical / HyperSpherical with `nu = 1/2`:
    `₂F₁(1/2, -1/2; 3/2; h²) = (sqrt(1-h²) + asin(h)/h) / 2`, value `π/4` at `1`, hence the circular form
    written with `acos` (`asin h = π/2 - acos h`) -/
def superSphericalHalfCor (h : α) : α :=
  if h < ((1:Nat):α) then circularInner h else ((0:Nat):α)

/-- HyperSpherical: `nu = (dim - 1) / 2`; elementary for `dim = 1, 2, 3` (`none` otherwise) -/
def hyperSphericalCor (dim : Nat) : Option (α → α) :=
  match dim with
  | 1 => some (superSphericalNatCor 0)
  | 2 => some superSphericalHalfCor
  | 3 => some (superSphericalNatCor 1)
  | _ => none

/-- Matern `nu = 1/2`: `exp(-x)`, `x = sqrt(nu) |h|` -/
def matern12Cor (h : α) : α := exp (-(sqrt (0.5:α) * fabs h))
/-- Matern `nu = 3/2`: `(1 + x) exp(-x)` -/
def matern32Cor (h : α) : α :=
  let x := sqrt (1.5:α) * fabs h
  (((1:Nat):α) + x) * exp (-x)
/-- Matern `nu = 5/2`: `(1 + x + x²/3) exp(-x)` -/
def matern52Cor (h : α) : α :=
  let x := sqrt (2.5:α) * fabs h
  (((1:Nat):α) + x + npow x 2 / ((3:Nat):α)) * exp (-x)
/-- Matern `nu > 20`: the code switches to `np.exp(-((h / 2.0) ** 2))` -/
def maternLimitCor (h : α) : α := exp (-(npow (fabs h / ((2:Nat):α)) 2))

/-! Matern at EVERY half-integer order `nu = p + 1/2` (wave 6): the modified Bessel function of half-integer order is
elementary, `2^(1-nu)/Γ(nu) x^nu K_nu(x) = exp(-x) · p!/(2p)! · Σ_{i=0}^{p} (p+i)!/(i!(p-i)!) (2x)^(p-i)` with
`x = sqrt(nu) |h|`.  The coefficients are natural numbers of unbounded size (`(2p)!` exceeds 2^63 from `p = 11` on); the
model keeps them in `Nat` and evaluates the sum by Horner's rule. -/
def fact : Nat → Nat
  | 0 => 1
  | n + 1 => (n + 1) * fact n
/-- `(p+i)! / (i! (p-i)!)` (the division is exact) -/
def maternHalfCoef (p i : Nat) : Nat := fact (p + i) / (fact i * fact (p - i))
/-- `Σ_{i=0}^{p} coef(p,i) y^(p-i)` by Horner's rule -/
def maternHalfSum (p : Nat) (y : α) : α :=
  (List.range (p + 1)).foldl (fun acc i => acc * y + ((maternHalfCoef p i : Nat) : α)) ((0:Nat):α)
/-- Matern `nu = p + 1/2` -/
def maternHalfCor (p : Nat) (h : α) : α :=
  let x := sqrt (((2 * p + 1 : Nat) : α) / ((2:Nat):α)) * fabs h
  exp (-x) * (((fact p : Nat) : α) / ((fact (2 * p) : Nat) : α)) * maternHalfSum p (((2:Nat):α) * x)

/-- JBessel `nu = 1/2`: `Γ(3/2) J_{1/2}(h) / (h/2)^{1/2} = sin h / h`; `1` where `isclose(h, 0)` -/
def jbessel12Cor (h : α) : α := if isclose0 h then ((1:Nat):α) else sin h / h
/-- JBessel `nu = 3/2`: `3 (sin h - h cos h) / h³` -/
def jbessel32Cor (h : α) : α :=
  if isclose0 h then ((1:Nat):α) else ((3:Nat):α) * (sin h - h * cos h) / npow h 3

/-! ### integral scales -/

/-- `∫₀^∞ cor` of the elementary kernels (the theorems of `Props/C03` prove these values) -/
def gaussianCorIntegral : α := sqrt (pi : α) / ((2:Nat):α)
def exponentialCorIntegral : α := ((1:Nat):α)
def linearCorIntegral : α := ((1:Nat):α) / ((2:Nat):α)
def sphericalCorIntegral : α := ((3:Nat):α) / ((8:Nat):α)
def cubicCorIntegral : α := ((35:Nat):α) / ((96:Nat):α)
def tplSimpleCorIntegral (nu : α) : α := ((1:Nat):α) / (nu + ((1:Nat):α))
def circularCorIntegral : α := ((4:Nat):α) / (((3:Nat):α) * (pi : α))
def matern12CorIntegral : α := ((1:Nat):α) / sqrt (0.5:α)
def matern32CorIntegral : α := ((2:Nat):α) / sqrt (1.5:α)
def matern52CorIntegral : α := ((8:Nat):α) / ((3:Nat):α) / sqrt (2.5:α)

/-- integral scale of the model: `len_rescaled *` that of `cor` -/
def integralScale (p : Par α) (corIntegral : α) : α := lenRescaled p * corIntegral

/-- `Gaussian.calc_integral_scale = len_rescaled * sqrt(pi) / 2.0` -/
def gaussianCalcIS (p : Par α) : α := lenRescaled p * sqrt (pi : α) / ((2:Nat):α)
/-- `Exponential.calc_integral_scale = len_rescaled` -/
def exponentialCalcIS (p : Par α) : α := lenRescaled p
/-- `Integral.calc_integral_scale = len_rescaled * nu * sqrt(pi) / (2 nu + 2.0)` -/
def integralCalcIS (nu : α) (p : Par α) : α :=
  lenRescaled p * nu * sqrt (pi : α) / (((2:Nat):α) * nu + ((2:Nat):α))

/-- the `integral_scale` setter on an isotropic model: `len_scale := 1`, measure, `len_scale := I / that` -/
def setIntegralScale (calcIS : Par α → α) (p : Par α) (I : α) : Par α :=
  let p1 : Par α := { p with lenScale := ((1:Nat):α) }
  { p with lenScale := I / calcIS p1 }

/-! ### `tools/special.py`: the plumbing of the exponential-integral families

The scipy primitives (`exp1`, `expn`, `gamma * gammaincc`, `gamma * gammainc`) are parameters of the model
(`Prims`); what is modelled is everything GSTools wraps around them: the `np.isclose` shortcuts to integer
orders, the recursion of `inc_gamma` / `inc_gamma_low` to a base in `[0, 1)`, the small-`x` / large-`x`
branches of `exp_int`, `tplstable_cor` and the `cor` / `correlation` methods built on them. -/

/-- nearest integer of a scalar, as an integer (`np.around`; ties only matter where `np.isclose` fails) -/
class HasRound (α : Type) where
  around : α → Int

/-- `np.around` on doubles: to nearest, ties to even -/
def floatAround (s : Float) : Int :=
  let r := if Float.abs (s - Float.floor s) == 0.5 then 2.0 * Float.round (s / 2.0) else Float.round s
  r.toInt64.toInt

instance : HasRound Float := ⟨floatAround⟩

/-- `np.isclose(a, b)` with the numpy defaults: `|a - b| <= atol + rtol * |b|`, `atol = 1e-8`, `rtol = 1e-5` -/
def iscloseTo (a b : α) : Bool := decide (fabs (a - b) ≤ (1e-8 : α) + (1e-5 : α) * fabs b)

/-- the scipy primitives the helpers bottom out in -/
structure Prims (α : Type) where
  /-- `sps.exp1(x)` -/
  exp1 : α → α
  /-- `sps.expn(n, x)` -/
  expn : Int → α → α
  /-- `sps.gamma(s) * sps.gammaincc(s, x)` -/
  gammaQ : α → α → α
  /-- `sps.gamma(s) * sps.gammainc(s, x)` -/
  gammaP : α → α → α

/-- how `inc_gamma(s, ·)` is evaluated: which primitive, after how many steps of the recurrence -/
inductive GPlan (α : Type) where
  | exp1 : GPlan α
  /-- `x**s * sps.expn(n, x)` -/
  | powExpn (s : α) (n : Int) : GPlan α
  | gammaQ (s : α) : GPlan α
  /-- `(inner(x) - x**s * np.exp(-x)) / s` -/
  | down (s : α) (inner : GPlan α) : GPlan α
  | noFuel : GPlan α
  deriving Inhabited

/-- `inc_gamma(s, x)`: the branch taken depends on `s` only -/
def incGammaPlan [HasRound α] : Nat → α → GPlan α
  | 0, _ => .noFuel
  | fuel + 1, s =>
    if iscloseTo s ((0:Nat):α) then .exp1
    else if iscloseTo s ((HasRound.around s : Int) : α) && decide (s < -(0.5:α)) then
      .powExpn s (1 - HasRound.around s)
    else if s < ((0:Nat):α) then .down s (incGammaPlan fuel (s + ((1:Nat):α)))
    else .gammaQ s

def evalG (P : Prims α) : GPlan α → α → Option α
  | .exp1, x => some (P.exp1 x)
  | .powExpn s n, x => some (rpow x s * P.expn n x)
  | .gammaQ s, x => some (P.gammaQ s x)
  | .down s inner, x => (evalG P inner x).map fun g => (g - rpow x s * exp (-x)) / s
  | .noFuel, _ => none

/-- `inc_gamma(s, x)` (`none`: more than `fuel` recursion steps, i.e. `s < -fuel`) -/
def incGamma [HasRound α] (P : Prims α) (fuel : Nat) (s x : α) : Option α := evalG P (incGammaPlan fuel s) x

/-- how `inc_gamma_low(s, ·)` is evaluated -/
inductive LPlan (α : Type) where
  /-- `np.full_like(x, np.inf)`: a pole of the lower incomplete gamma function -/
  | pole : LPlan α
  | gammaP (s : α) : LPlan α
  /-- `(inner(x) + x**s * np.exp(-x)) / s` -/
  | up (s : α) (inner : LPlan α) : LPlan α
  | noFuel : LPlan α
  deriving Inhabited

def incGammaLowPlan [HasRound α] : Nat → α → LPlan α
  | 0, _ => .noFuel
  | fuel + 1, s =>
    if iscloseTo s ((HasRound.around s : Int) : α) && decide (s < (0.5:α)) then .pole
    else if s < ((0:Nat):α) then .up s (incGammaLowPlan fuel (s + ((1:Nat):α)))
    else .gammaP s

/-- `none`: pole (`inf`) or out of fuel -/
def evalL (P : Prims α) : LPlan α → α → Option α
  | .pole, _ => none
  | .gammaP s, x => some (P.gammaP s x)
  | .up s inner, x => (evalL P inner x).map fun g => (g + rpow x s * exp (-x)) / s
  | .noFuel, _ => none

/-- which evaluation `exp_int(s, ·)` uses (depends on `s` only) -/
inductive EPlan where
  | exp1 : EPlan
  /-- `sps.expn(n, x)` with the integer order `n = int(np.around(s))` -/
  | expn (n : Int) : EPlan
  /-- the per-`x` branches: limit at `+0`, asymptote, `inc_gamma(1 - s, x) * x**(s - 1)` -/
  | general : EPlan
  deriving Repr, DecidableEq, Inhabited

def expIntPlan [HasRound α] (s : α) : EPlan :=
  if iscloseTo s ((1:Nat):α) then .exp1
  else if iscloseTo s ((HasRound.around s : Int) : α) && decide (-(0.5:α) < s) then .expn (HasRound.around s)
  else .general

/-- classes of the argument in the general branch of `exp_int` (in the order the code lets them win) -/
inductive XClass where
  | neg | inf | zero | fin
  deriving Repr, DecidableEq, Inhabited

/-- exponent of `x_compare = x ** min((10, max(((1 - s), 1))))` -/
def xCompareExp (s : α) : α := fmin ((10:Nat):α) (fmax (((1:Nat):α) - s) ((1:Nat):α))

def expIntClass (s x : α) : XClass :=
  let ax := fabs x
  if x < ((0:Nat):α) then .neg
  else if fmax ((30:Nat):α) (-s / ((2:Nat):α)) < ax then .inf
  else if rpow ax (xCompareExp s) ≤ (1e-20 : α) then .zero
  else .fin

/-- value of `exp_int(s, x)`; errors: `"nan"` (`x < 0`), `"inf"` (limit at `+0` for `s <= 1`), `"fuel"` -/
def expInt [HasRound α] (P : Prims α) (fuel : Nat) (s x : α) : Except String α :=
  match expIntPlan s with
  | .exp1 => .ok (P.exp1 x)
  | .expn n => .ok (P.expn n x)
  | .general =>
    let ax := fabs x
    match expIntClass s x with
    | .neg => .error "nan"
    | .inf => .ok (exp (-ax) * (((1:Nat):α) / ax - s * rpow ax (-((2:Nat):α))))
    | .zero => if ((1:Nat):α) < s then .ok (((1:Nat):α) / (s - ((1:Nat):α))) else .error "inf"
    | .fin =>
      match incGamma P fuel (((1:Nat):α) - s) ax with
      | some g => .ok (g * rpow ax (s - ((1:Nat):α)))
      | none => .error "fuel"

/-- What the functions built on `exp_int` do with its values: they are affine in them.  The same generic
    text is evaluated (`evalAlg`, `totalAlg`) and, in the driver, expanded into the list of `exp_int` calls it
    makes with their weights (`affAlg`). -/
structure EAlg (α R : Type) where
  /-- `exp_int(s, x)` -/
  E : α → α → R
  const : α → R
  smul : α → R → R
  sub : R → R → R
  sdiv : R → α → R

/-- `tplstable_cor(r, len_scale, hurst, alpha)`: `r = |r / len_scale|`, `1` where `np.isclose(r, 0)`, else
    `(2 * hurst / alpha) * exp_int(1 + 2 * hurst / alpha, r ** alpha)` -/
def tplstableCorG {R : Type} (A : EAlg α R) (r len hurst alpha : α) : R :=
  let h := fabs (r / len)
  if isclose0 h then A.const ((1:Nat):α)
  else A.smul (((2:Nat):α) * hurst / alpha) (A.E (((1:Nat):α) + ((2:Nat):α) * hurst / alpha) (rpow h alpha))

/-- `TPLStable.correlation` (`TPLGaussian`: `alpha = 2`, `TPLExponential`: `alpha = 1`); `lenLow`, `lenScale`,
    `rescale` as stored on the model -/
def tplCorrelationG {R : Type} (A : EAlg α R) (lenScale lenLow rescale hurst alpha r : α) : R :=
  let lowR := lenLow / rescale
  let upR := (lenLow + lenScale) / rescale
  if iscloseTo lowR ((0:Nat):α) then tplstableCorG A r (lenScale / rescale) hurst alpha
  else
    let wu := rpow upR (((2:Nat):α) * hurst)
    let wl := rpow lowR (((2:Nat):α) * hurst)
    A.sdiv (A.sub (A.smul wu (tplstableCorG A r upR hurst alpha)) (A.smul wl (tplstableCorG A r lowR hurst alpha)))
      (wu - wl)

/-- `Integral.cor(h) = 0.5 * nu * exp_int(1.0 + 0.5 * nu, h**2)` -/
def integralCorG {R : Type} (A : EAlg α R) (nu h : α) : R :=
  A.smul ((0.5:α) * nu) (A.E (((1:Nat):α) + (0.5:α) * nu) (npow h 2))

/-- evaluation with the modelled `exp_int` (`none`: `nan` / `inf` / out of fuel) -/
def evalAlg [HasRound α] (P : Prims α) (fuel : Nat) : EAlg α (Option α) where
  E s x := match expInt P fuel s x with | .ok v => some v | .error _ => none
  const c := some c
  smul a r := r.map fun v => a * v
  sub a b := a.bind fun x => b.map fun y => x - y
  sdiv r a := r.map fun v => v / a

/-- evaluation with any total function in the place of `exp_int` -/
def totalAlg (E : α → α → α) : EAlg α α where
  E := E
  const c := c
  smul a r := a * r
  sub a b := a - b
  sdiv r a := r / a

/-- `const + Σ coef * exp_int(s, x)` -/
structure Aff (α : Type) where
  const : α
  terms : List (α × α × α)      -- (coef, s, x)

def affAlg : EAlg α (Aff α) where
  E s x := ⟨((0:Nat):α), [(((1:Nat):α), s, x)]⟩
  const c := ⟨c, []⟩
  smul a r := ⟨a * r.const, r.terms.map fun t => (a * t.1, t.2)⟩
  sub a b := ⟨a.const - b.const, a.terms ++ b.terms.map fun t => (-t.1, t.2)⟩
  sdiv r a := ⟨r.const / a, r.terms.map fun t => (t.1 / a, t.2)⟩

/-- value of an affine form once `exp_int` is a total function -/
def Aff.eval (E : α → α → α) (f : Aff α) : α :=
  f.terms.foldl (fun acc t => acc + t.1 * E t.2.1 t.2.2) f.const

def tplstableCor [HasRound α] (P : Prims α) (fuel : Nat) (r len hurst alpha : α) : Option α :=
  tplstableCorG (evalAlg P fuel) r len hurst alpha

def tplCorrelation [HasRound α] (P : Prims α) (fuel : Nat) (lenScale lenLow rescale hurst alpha r : α) :
    Option α :=
  tplCorrelationG (evalAlg P fuel) lenScale lenLow rescale hurst alpha r

def integralCor [HasRound α] (P : Prims α) (fuel : Nat) (nu h : α) : Option α :=
  integralCorG (evalAlg P fuel) nu h

/-! ### derived scales after in-place parameter changes

`CovModel.integral_scale` is recomputed from the *current* parameters on every read
(`calc_integral_scale`); the setters only store.  The state below carries what the integral scale depends
on; `ci dim shape` is `∫₀^∞ cor` of the class for the current dimension and optional (shape) argument. -/

structure MState (α : Type) where
  par : Par α
  dim : Nat
  shape : α
  anis : List α

inductive MOp (α : Type) where
  | setVar (v : α) | setLenScale (v : α) | setNugget (v : α) | setRescale (v : α)
  | setShape (v : α)
  /-- `model.dim = d`; the re-padded anisotropy ratios are an input (their rule belongs to C14) -/
  | setDim (d : Nat) (anis : List α)
  | setAnis (anis : List α)
  | setIntegralScale (I : α)

/-- `calc_integral_scale()` of the current state -/
def reportedIS (ci : Nat → α → α) (st : MState α) : α := integralScale st.par (ci st.dim st.shape)

/-- `integral_scale_vec`: `[I, I * anis[0], I * anis[1]]` -/
def reportedISVec (ci : Nat → α → α) (st : MState α) : List α :=
  reportedIS ci st :: st.anis.map fun a => reportedIS ci st * a

def mstep (ci : Nat → α → α) (st : MState α) : MOp α → MState α
  | .setVar v => { st with par := { st.par with var := v } }
  | .setLenScale v => { st with par := { st.par with lenScale := v } }
  | .setNugget v => { st with par := { st.par with nugget := v } }
  | .setRescale v => { st with par := { st.par with rescale := v } }
  | .setShape v => { st with shape := v }
  | .setDim d anis => { st with dim := d, anis := anis }
  | .setAnis anis => { st with anis := anis }
  | .setIntegralScale I =>
    { st with par := setIntegralScale (fun q => integralScale q (ci st.dim st.shape)) st.par I }

def mrun (ci : Nat → α → α) (st : MState α) (ops : List (MOp α)) : MState α := ops.foldl (mstep ci) st

/-! ### list-valued scale arguments (wave 6)

`len_scale` and `integral_scale` are documented as "float or list".  A list goes through `set_len_anis`: it is cut to
the model dimension, padded with its LAST value when too short, its first entry becomes the main scale and the
anisotropy ratios are recomputed as `x_k / x_0` (a single value keeps the stored ratios).  The `integral_scale` setter
first assigns the given value to `len_scale` ("format int-scale right" — this is where a list turns into ratios), then
prescribes the main value as in `setIntegralScale`. -/

/-- first `n` entries of `xs`, padded with the last value seen (`last` when `xs` is empty) -/
def padLast : Nat → α → List α → List α
  | 0, _, _ => []
  | n + 1, last, [] => last :: padLast n last []
  | n + 1, _, x :: xs => x :: padLast n x xs

/-- per-axis scales a list prescribes in dimension `dim` (`[x0, x1]` in 3-D is `[x0, x1, x1]`) -/
def axisScales (dim : Nat) : List α → List α
  | [] => []
  | x0 :: rest => x0 :: padLast (dim - 1) x0 rest

/-- `model.len_scale = xs` (a list; also the `len_scale=` constructor argument) -/
def setLenScaleList (st : MState α) (xs : List α) : MState α :=
  match xs.take st.dim with
  | [] => st
  | [x] => { st with par := { st.par with lenScale := x } }
  | x0 :: x1 :: rest =>
    { st with par := { st.par with lenScale := x0 }, anis := (padLast (st.dim - 1) x0 (x1 :: rest)).map fun x => x / x0 }

/-- `model.integral_scale = Is` (a list; also the `integral_scale=` constructor argument) -/
def setIntegralScaleList (ci : Nat → α → α) (st : MState α) (Is : List α) : MState α :=
  let st1 := setLenScaleList st Is
  mstep ci st1 (.setIntegralScale st1.par.lenScale)

/-- `len_scale_vec`: `[l, l * anis[0], l * anis[1]]` -/
def lenScaleVec (st : MState α) : List α := st.par.lenScale :: st.anis.map fun a => st.par.lenScale * a

/-! ### percentile scale

`tools.percentile_scale(model, per)` hands the curve `1 - correlation(x) - per` to a root finder started at
`per * len_rescaled`.  What it is meant to return is the smallest positive lag at which the correlation has
dropped to `1 - per`.  Because `correlation(r) = cor(|r| / len_rescaled)`, that lag is `len_rescaled` times the
smallest non-negative `h` with `cor h = 1 - per` — for every `rescale`.  Closed forms of that `h` for the
elementary kernels (theorems in `Props/C03Pct`): -/

/-- percentile scale of a model whose `cor` first drops to `1 - per` at the non-dimensional lag `hstar` -/
def percentileScale (p : Par α) (hstar : α) : α := lenRescaled p * hstar

/-- Exponential: `exp(-h) = 1 - per` -/
def exponentialPct (per : α) : α := -(log (((1:Nat):α) - per))
/-- Gaussian: `exp(-h²) = 1 - per` -/
def gaussianPct (per : α) : α := sqrt (-(log (((1:Nat):α) - per)))
/-- Stable: `exp(-h^alpha) = 1 - per` -/
def stablePct (alpha per : α) : α := rpow (-(log (((1:Nat):α) - per))) (((1:Nat):α) / alpha)
/-- Rational: `(1 + h²/alpha)^(-alpha) = 1 - per` -/
def rationalPct (alpha per : α) : α :=
  sqrt (alpha * (rpow (((1:Nat):α) - per) (-(((1:Nat):α) / alpha)) - ((1:Nat):α)))
/-- Linear: `1 - h = 1 - per` -/
def linearPct (per : α) : α := per
/-- TPLSimple: `(1 - h)^nu = 1 - per` -/
def tplSimplePct (nu per : α) : α := ((1:Nat):α) - rpow (((1:Nat):α) - per) (((1:Nat):α) / nu)
/-- Matern `nu = 1/2`: `exp(-sqrt(1/2) h) = 1 - per` -/
def matern12Pct (per : α) : α := -(log (((1:Nat):α) - per)) / sqrt (0.5:α)
/-- Matern `nu > 20` (Gaussian limit of the code): `exp(-(h/2)²) = 1 - per` -/
def maternLimitPct (per : α) : α := ((2:Nat):α) * sqrt (-(log (((1:Nat):α) - per)))

/-! ### driver -/

/-- kernels addressable from the harness: name, dimension, one float optional argument, one natural -/
def kernelByName (name : String) (dim n : Nat) (a : Float) : Option (Float → Float) :=
  match name with
  | "Gaussian" => some gaussianCor
  | "Exponential" => some exponentialCor
  | "Stable" => some (stableCor a)
  | "Rational" => some (rationalCor a)
  | "Cubic" => some cubicCor
  | "Linear" => some linearCor
  | "Circular" => some circularCor
  | "Spherical" => some sphericalCor
  | "TPLSimple" => some (tplSimpleCor a)
  | "HyperSpherical" => hyperSphericalCor dim
  | "SuperSphericalNat" => some (superSphericalNatCor n)
  | "SuperSphericalHalf" => some superSphericalHalfCor
  | "Matern12" => some matern12Cor
  | "Matern32" => some matern32Cor
  | "Matern52" => some matern52Cor
  | "MaternLimit" => some maternLimitCor
  | "MaternHalf" => some (maternHalfCor n)
  | "JBessel12" => some jbessel12Cor
  | "JBessel32" => some jbessel32Cor
  | _ => none

def corIntegralByName (name : String) (dim : Nat) (a : Float) : Option Float :=
  match name with
  | "Gaussian" => some gaussianCorIntegral
  | "Exponential" => some exponentialCorIntegral
  | "Linear" => some linearCorIntegral
  | "Spherical" => some sphericalCorIntegral
  | "Cubic" => some cubicCorIntegral
  | "TPLSimple" => some (tplSimpleCorIntegral a)
  | "Circular" => some circularCorIntegral
  | "Matern12" => some matern12CorIntegral
  | "Matern32" => some matern32CorIntegral
  | "Matern52" => some matern52CorIntegral
  | "HyperSpherical" =>
    match dim with
    | 1 => some linearCorIntegral
    | 2 => some circularCorIntegral
    | 3 => some sphericalCorIntegral
    | _ => none
  | _ => none

def pctByName (name : String) (a per : Float) : Option Float :=
  match name with
  | "Exponential" => some (exponentialPct per)
  | "Gaussian" => some (gaussianPct per)
  | "Stable" => some (stablePct a per)
  | "Rational" => some (rationalPct a per)
  | "Linear" => some (linearPct per)
  | "TPLSimple" => some (tplSimplePct a per)
  | "Matern12" => some (matern12Pct per)
  | "MaternLimit" => some (maternLimitPct per)
  | _ => none

def routeByName (s : String) : Option Route :=
  match s with
  | "cor" => some .cor
  | "correlation" => some .correlation
  | "covariance" => some .covariance
  | "variogram" => some .variogram
  | _ => none

def getPar (j : Json) : Except String (Par Float) := do
  return { var := ← getFloat j "var", lenScale := ← getFloat j "len_scale",
           nugget := ← getFloat j "nugget", rescale := ← getFloat j "rescale" }

/-- evaluate function `fn` of the family `F` on one lag (variants included) -/
def evalFn (fn : String) (p : Par Float) (F : Fns Float) (anis : List Float) (axis : Nat)
    (radius : Float) (r : Float) : Except String Float :=
  let ax (f : Float → Float) : Except String Float :=
    match axisLag anis axis r with
    | some l => .ok (f l)
    | none => .error "IndexError"
  match fn with
  | "cor" => .ok (F.cor r)
  | "correlation" => .ok (F.correlation r)
  | "covariance" => .ok (F.covariance r)
  | "variogram" => .ok (F.variogram r)
  | "vario_nugget" => .ok (varioNugget F r)
  | "cov_nugget" => .ok (covNugget p F r)
  | "vario_axis" => ax F.variogram
  | "cov_axis" => ax F.covariance
  | "cor_axis" => ax F.correlation
  | "vario_yadrenko" => .ok (F.variogram (chordal radius r))
  | "cov_yadrenko" => .ok (F.covariance (chordal radius r))
  | "cor_yadrenko" => .ok (F.correlation (chordal radius r))
  | _ => .error s!"unknown fn {fn}"

def optNat (j : Json) (k : String) (d : Nat) : Nat :=
  match getNat j k with | .ok v => v | .error _ => d
def optFloat (j : Json) (k : String) (d : Float) : Float :=
  match getFloat j k with | .ok v => v | .error _ => d
def optFloats (j : Json) (k : String) : List Float :=
  match getFloats j k with | .ok v => v.toList | .error _ => []

def gplanJson : GPlan Float → Json
  | .exp1 => Json.arr #[Json.str "exp1"]
  | .powExpn s n => Json.arr #[Json.str "powexpn", fbits s, Json.num (JsonNumber.fromInt n)]
  | .gammaQ s => Json.arr #[Json.str "gammaq", fbits s]
  | .down s inner => Json.arr #[Json.str "down", fbits s, gplanJson inner]
  | .noFuel => Json.arr #[Json.str "nofuel"]

def lplanJson : LPlan Float → Json
  | .pole => Json.arr #[Json.str "pole"]
  | .gammaP s => Json.arr #[Json.str "gammap", fbits s]
  | .up s inner => Json.arr #[Json.str "up", fbits s, lplanJson inner]
  | .noFuel => Json.arr #[Json.str "nofuel"]

/-- recursion budget of the driver (`exp_int` documents `s > -100`) -/
def driverFuel : Nat := 400

/-- primitives that are never called on the branches the driver evaluates itself -/
def nanPrims : Prims Float :=
  { exp1 := fun _ => 0.0 / 0.0, expn := fun _ _ => 0.0 / 0.0, gammaQ := fun _ _ => 0.0 / 0.0, gammaP := fun _ _ => 0.0 / 0.0 }

def affJson (f : Aff Float) : Json :=
  Json.mkObj [("c", fbits f.const), ("t", Json.arr (f.terms.map fun t => fl [t.1, t.2.1, t.2.2]).toArray)]

/-- `∫₀^∞ cor` as a function of the dimension and the optional argument, for the history model -/
def corIntegralShape (name : String) (dim : Nat) (a : Float) : Option Float :=
  match name with
  | "Matern" => if a == 0.5 then some matern12CorIntegral else if a == 1.5 then some matern32CorIntegral
                else if a == 2.5 then some matern52CorIntegral else none
  | _ => corIntegralByName name dim a

def mopOfJson (j : Json) : Except String (MOp Float) := do
  match ← getStr j "k" with
  | "var" => return .setVar (← getFloat j "v")
  | "len_scale" => return .setLenScale (← getFloat j "v")
  | "nugget" => return .setNugget (← getFloat j "v")
  | "rescale" => return .setRescale (← getFloat j "v")
  | "shape" => return .setShape (← getFloat j "v")
  | "dim" => return .setDim (← getNat j "d") (optFloats j "anis")
  | "anis" => return .setAnis (optFloats j "anis")
  | "integral_scale" => return .setIntegralScale (← getFloat j "v")
  | k => throw s!"unknown history op {k}"

/-- line-protocol operations of this model; `none` = not one of mine -/
def ops (op : String) (j : Json) : Option (Except String Json) :=
  match op with
  /- closed-form kernel + route → one of the functions / variants on a list of lags -/
  | "covfn_eval" => some (do
      let name ← getStr j "kernel"
      let dim := optNat j "dim" 1
      let some K := kernelByName name dim (optNat j "n" 0) (optFloat j "a" 1.0) | throw s!"no kernel {name}"
      let some route := routeByName (← getStr j "route") | throw "route"
      let p ← getPar j
      let F := userFns route K p
      let fn ← getStr j "fn"
      let lags ← getFloats j "lags"
      let anis := optFloats j "anis"
      let out ← lags.toList.mapM (evalFn fn p F anis (optNat j "axis" 0) (optFloat j "radius" 1.0))
      return fl out)
  /- the class's own `cor` (or `correlation`) is taken as given samples: derive the others by the
     combinators.  `base` = "cor" (values are cor(|r|/len_rescaled)) or "correlation". -/
  | "covfn_derive" => some (do
      let p ← getPar j
      let vals ← getFloats j "vals"
      let out := vals.toList.map fun c =>
        let F := fromCorAndCorrelation p (fun _ => c) (fun _ => c)
        [F.correlation 0, F.covariance 0, F.variogram 0,
         covNugget p F 1, varioNugget F 1, covNugget p F 0, varioNugget F 0]
      return fl2 out)
  /- spatial variants: lag of `_get_iso_rad` through the Geo model, then the closed form -/
  | "covfn_spatial" => some (do
      let name ← getStr j "kernel"
      let dim ← getNat j "dim"
      let some K := kernelByName name dim (optNat j "n" 0) (optFloat j "a" 1.0) | throw s!"no kernel {name}"
      let p ← getPar j
      let F := fromCor p K
      let angles := optFloats j "angles"
      let anis := optFloats j "anis"
      let pos ← getFloats j "pos"       -- row-major (npts, dim)
      let npts := pos.size / dim
      -- `spatialLag = norm2 (applyMat (matrixIsometrize …) x)` with the matrix tabulated once
      let M := Geo.matrixIsometrize dim angles anis
      let arr : Array Float := Array.ofFn (n := dim * dim) fun k => M (k.val / dim) (k.val % dim)
      let Mt : Nat → Nat → Float := fun i j => arr[i * dim + j]!
      let out := (List.range npts).map fun i =>
        let l := Geo.norm2 dim (Geo.applyMat dim Mt (fun k => pos[i * dim + k]!))
        [l, F.variogram l, F.covariance l, F.correlation l]
      return fl2 out)
  /- integral scale of the closed-form kernels, closed forms of calc_integral_scale, setter -/
  | "covfn_intscale" => some (do
      let name ← getStr j "kernel"
      let p ← getPar j
      let a := optFloat j "a" 1.0
      let some ci := corIntegralByName name (optNat j "dim" 1) a | throw s!"no integral {name}"
      let want ← getFloat j "set"
      let p' := setIntegralScale (fun q => integralScale q ci) p want
      return fl [integralScale p ci, p'.lenScale, integralScale p' ci])
  | "covfn_calc_is" => some (do
      let name ← getStr j "kernel"
      let p ← getPar j
      let a := optFloat j "a" 1.0
      match name with
      | "Gaussian" => return fl [gaussianCalcIS p]
      | "Exponential" => return fl [exponentialCalcIS p]
      | "Integral" => return fl [integralCalcIS a p]
      | _ => throw s!"no calc_integral_scale model for {name}")
  /- tools/special.py: how inc_gamma / inc_gamma_low / exp_int evaluate (plans; the scipy leaves are evaluated by the harness) -/
  | "special_inc_gamma" => some (do
      return gplanJson (incGammaPlan driverFuel (← getFloat j "s")))
  | "special_inc_gamma_low" => some (do
      return lplanJson (incGammaLowPlan driverFuel (← getFloat j "s")))
  | "special_exp_int" => some (do
      let s ← getFloat j "s"
      let xs ← getFloats j "x"
      let plan := expIntPlan s
      let planJ := match plan with
        | .exp1 => Json.arr #[Json.str "exp1"]
        | .expn n => Json.arr #[Json.str "expn", Json.num (JsonNumber.fromInt n)]
        | .general => Json.arr #[Json.str "general", gplanJson (incGammaPlan driverFuel (1.0 - s))]
      let per := xs.toList.map fun x =>
        match plan with
        | .general =>
          (match expIntClass s x with
           | .neg => Json.arr #[Json.str "neg"]
           | .fin => Json.arr #[Json.str "fin", fbits (rpow (Float.abs x) (s - 1.0))]
           | c =>
             let tag := if c == .inf then "inf" else "zero"
             match expInt nanPrims driverFuel s x with
             | .ok v => Json.arr #[Json.str tag, fbits v]
             | .error e => Json.arr #[Json.str tag, Json.str e])
        | _ => Json.arr #[Json.str "prim"]
      return Json.mkObj [("plan", planJ), ("x", Json.arr per.toArray)])
  /- the correlation functions built on exp_int, expanded into their exp_int calls: const + Σ coef * exp_int(s, x) -/
  | "special_model" => some (do
      let fn ← getStr j "fn"
      let rs ← getFloats j "r"
      match fn with
      | "tplstable" =>
        let (len, hurst, alpha) := (← getFloat j "len", ← getFloat j "hurst", ← getFloat j "alpha")
        return Json.arr (rs.map fun r => affJson (tplstableCorG affAlg r len hurst alpha))
      | "tpl" =>
        let (ls, ll, rs', hurst, alpha) := (← getFloat j "len_scale", ← getFloat j "len_low", ← getFloat j "rescale",
                                            ← getFloat j "hurst", ← getFloat j "alpha")
        return Json.arr (rs.map fun r => affJson (tplCorrelationG affAlg ls ll rs' hurst alpha r))
      | "integral" =>
        let nu ← getFloat j "nu"
        return Json.arr (rs.map fun h => affJson (integralCorG affAlg nu h))
      | _ => throw s!"unknown special model {fn}")
  /- read / change / read histories: reported integral scale, len_scale, integral_scale_vec after every step -/
  | "covfn_history" => some (do
      let name ← getStr j "kernel"
      let p ← getPar j
      let st0 : MState Float := { par := p, dim := ← getNat j "dim", shape := optFloat j "shape" 1.0, anis := optFloats j "anis" }
      let ci : Nat → Float → Float := fun d a => (corIntegralShape name d a).getD (0.0 / 0.0)
      let opsJ ← match j.getObjVal? "ops" with
        | .ok (Json.arr a) => pure a.toList
        | _ => throw "ops"
      let ops ← opsJ.mapM mopOfJson
      let (_, out) := ops.foldl (fun (acc : MState Float × List (List Float)) op =>
        let st := mstep ci acc.1 op
        (st, acc.2 ++ [[st.par.lenScale] ++ reportedISVec ci st])) (st0, [[st0.par.lenScale] ++ reportedISVec ci st0])
      return fl2 out)
  /- percentile scale of the closed-form kernels after a (possibly empty) history of in-place changes:
     `len_rescaled` of the CURRENT parameters times the kernel's percentile lag -/
  | "covfn_percentile" => some (do
      let name ← getStr j "kernel"
      let p ← getPar j
      let a := optFloat j "a" 1.0
      let pers ← getFloats j "per"
      let st0 : MState Float := { par := p, dim := optNat j "dim" 1, shape := a, anis := [] }
      let ci : Nat → Float → Float := fun d a => (corIntegralShape name d a).getD (0.0 / 0.0)
      let ops ← match j.getObjVal? "ops" with
        | .ok (Json.arr a) => a.toList.mapM mopOfJson
        | _ => pure []
      let st := mrun ci st0 ops
      let out ← pers.toList.mapM fun per =>
        match pctByName name st.shape per with
        | some h => pure (percentileScale st.par h)
        | none => throw s!"no percentile model for {name}"
      return fl ([lenRescaled st.par] ++ out))
  /- list-valued len_scale / integral_scale on a model with stored anisotropy ratios: len_scale, anis, len_scale_vec, integral_scale_vec -/
  | "covfn_list_scale" => some (do
      let name ← getStr j "kernel"
      let p ← getPar j
      let st0 : MState Float := { par := p, dim := ← getNat j "dim", shape := optFloat j "a" 1.0, anis := optFloats j "anis" }
      let ci : Nat → Float → Float := fun d a => (corIntegralShape name d a).getD (0.0 / 0.0)
      let xs := optFloats j "list"
      let st := match ← getStr j "what" with
        | "len_scale" => setLenScaleList st0 xs
        | _ => setIntegralScaleList ci st0 xs
      return fl ([st.par.lenScale] ++ st.anis ++ lenScaleVec st ++ reportedISVec ci st ++ axisScales st0.dim xs))
  | "covfn_default_rescale" => some (do
      let name ← getStr j "kernel"
      return fl [if name == "Gaussian" then gaussianRescale else 1.0])
  | "covfn_isclose0" => some (do
      let lags ← getFloats j "lags"
      return Json.arr (lags.map fun r => Json.bool (isclose0 r)))
  | _ => none

end GSV.Model.CovFn
