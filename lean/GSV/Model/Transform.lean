/- Hand-written executable model (tie B): Transform.  Core Lean only — no Mathlib import in this file.

   Models `gstools/transform/array.py` (scalar maps, discrete classification, force-moments, Box-Cox)
   and the `Field.transform` wrappers of `gstools/transform/field.py` (checks, process / keep_mean
   pipeline, store names).  The standard normal cdf `Φ` and its quantile function are *parameters*
   (`cdf ppf : α → α`) of every definition that needs them; theorems keep them abstract, the driver
   instantiates them on `Float` with the series / continued-fraction `erf`, `erfinv` below
   (`Φ z = (1 + erf (z/√2))/2`; that scipy's `erf` is this function is part of what the
   correspondence checks to 1e-13). -/
import GSV.Proto
open Lean GSV GSV.Proto GSV.Transc
namespace GSV.Model.Transform

variable {α : Type} [Arith α] [Transc α] [DecidableLT α] [DecidableLE α]

/-! ## finite samples: `np.mean`, `np.var` -/

def lsum (l : List α) : α := l.foldl (fun a x => a + x) ((0:Nat):α)
/-- `np.mean` -/
def lmean (l : List α) : α := lsum l / ((l.length : Nat) : α)
/-- `np.var` (population variance, `ddof = 0`) -/
def lvar (l : List α) : α := lmean (l.map fun x => (x - lmean l) * (x - lmean l))

/-! ## scalar maps of `array.py` -/

/-- `(x - mean) / sqrt(var)`: the argument handed to `Φ` (the code hands `(x-mean)/sqrt(2 var)` to `erf`) -/
def standardize (mean var x : α) : α := (x - mean) / sqrt var

/-- `array_to_lognormal` -/
def toLognormal (x : α) : α := exp x

/-- `array_to_uniform` -/
def toUniform (cdf : α → α) (mean var low high x : α) : α :=
  cdf (standardize mean var x) * (high - low) + low

/-- `_uniform_to_arcsin` -/
def uniformToArcsin (a b u : α) : α :=
  (b - a) * npow (sin (Transc.pi * (0.5:α) * u)) 2 + a

/-- `_uniform_to_uquad` -/
def uniformToUquad (a b u : α) : α :=
  let al := ((12:Nat):α) / npow (b - a) 3
  let be := (a + b) / ((2:Nat):α)
  let ga := npow (a - b) 3 / ((8:Nat):α)
  let y := ((3:Nat):α) * u / al + ga
  (if ((0:Nat):α) < y then rpow y (((1:Nat):α) / ((3:Nat):α))
   else if y < ((0:Nat):α) then -(rpow (-y) (((1:Nat):α) / ((3:Nat):α)))
   else ((0:Nat):α)) + be

/-- default bounds of `array_to_arcsin`: `mean ∓ sqrt(2 var)` -/
def arcsinDefaultA (mean var : α) : α := mean - sqrt ((2.0:α) * var)
def arcsinDefaultB (mean var : α) : α := mean + sqrt ((2.0:α) * var)
/-- default bounds of `array_to_uquad`: `mean ∓ sqrt(5/3 var)` -/
def uquadDefaultA (mean var : α) : α := mean - sqrt ((5.0:α) / (3.0:α) * var)
def uquadDefaultB (mean var : α) : α := mean + sqrt ((5.0:α) / (3.0:α) * var)

/-- `array_to_arcsin` (bounds `none` = default) -/
def toArcsin (cdf : α → α) (mean var : α) (a b : Option α) (x : α) : α :=
  uniformToArcsin (a.getD (arcsinDefaultA mean var)) (b.getD (arcsinDefaultB mean var))
    (toUniform cdf mean var (0.0:α) (1.0:α) x)

/-- `array_to_uquad` (bounds `none` = default) -/
def toUquad (cdf : α → α) (mean var : α) (a b : Option α) (x : α) : α :=
  uniformToUquad (a.getD (uquadDefaultA mean var)) (b.getD (uquadDefaultB mean var))
    (toUniform cdf mean var (0.0:α) (1.0:α) x)

/-- the standard-normal part of `array_zinnharvey`: `z ↦ Φ⁻¹(2 Φ(|z|) − 1)`
    (the code writes `√2·erfinv(2·erf(|z|/√2) − 1)`) -/
def zhCore (cdf ppf : α → α) (z : α) : α := ppf (((2:Nat):α) * cdf (fabs z) - ((1:Nat):α))

/-- `array_zinnharvey` -/
def zinnharvey (cdf ppf : α → α) (high : Bool) (mean var x : α) : α :=
  let w := zhCore cdf ppf (standardize mean var x)
  (if high then -w else w) * sqrt var + mean

/-- `array_force_moments` -/
def forceMoments (mean var : α) (l : List α) : List α :=
  let varIn := lvar l
  let meanIn := lmean l
  let rescale := sqrt (var / varIn)
  l.map fun x => rescale * (x - meanIn) + mean

/-- `np.isclose(lmbda, 0)` with the default tolerances: `|λ| ≤ 1e-8` -/
def lmbdaIsZero (lmbda : α) : Bool := decide (fabs lmbda ≤ (1e-8:α))

def maxZero (x : α) : α := if x < ((0:Nat):α) then ((0:Nat):α) else x

/-- `array_boxcox` (value part) -/
def boxcox (lmbda shift x : α) : α :=
  let r := x + shift
  if lmbdaIsZero lmbda then toLognormal r
  else rpow (maxZero (lmbda * r + ((1:Nat):α))) (((1:Nat):α) / lmbda)

/-- `array_boxcox` (does it emit the "cut off" warning?): `min(lmbda * (field + shift) + 1) < 0` -/
def boxcoxWarns (lmbda shift : α) (l : List α) : Bool :=
  !lmbdaIsZero lmbda && l.any fun x => decide (lmbda * (x + shift) + ((1:Nat):α) < ((0:Nat):α))

/-- `BoxCox(lmbda)._normalize` of `gstools.normalizer` -/
def bcNormalize (lmbda y : α) : α :=
  if lmbdaIsZero lmbda then log y else (rpow y lmbda - ((1:Nat):α)) / lmbda

/-- `BoxCox(lmbda)._denormalize` -/
def bcDenormalize (lmbda x : α) : α :=
  if lmbdaIsZero lmbda then exp x else rpow (((1:Nat):α) + x * lmbda) (((1:Nat):α) / lmbda)

/-! ## discrete / binary -/

/-- `(values[1:] + values[:-1]) / 2` -/
def midpoints : List α → List α
  | a :: b :: t => (b + a) / ((2:Nat):α) :: midpoints (b :: t)
  | _ => []

/-- `np.all(thresholds[:-1] < thresholds[1:])` -/
def ascending : List α → Bool
  | a :: b :: t => decide (a < b) && ascending (b :: t)
  | _ => true

/-- `np.sort` -/
def sortVals (l : List α) : List α := l.mergeSort fun a b => decide (a ≤ b)

/-- "equal" thresholds: `mean + sqrt(2 var)·erfinv(2 i/n − 1) = mean + sqrt(var)·Φ⁻¹(i/n)`, `i = 1 … n−1` -/
def equalThresholds (ppf : α → α) (mean var : α) (n : Nat) : List α :=
  (List.range (n - 1)).map fun i => mean + sqrt var * ppf (((i + 1 : Nat) : α) / ((n : Nat) : α))

/-- the loop `for i, value in enumerate(values[1:-1]): result[thr[i] < x <= thr[i+1]] = value`;
    first argument: the remaining middle values, second: the thresholds from position `i` on -/
def classifyMid : List α → List α → α → Option α → Option α
  | v :: vs, t0 :: t1 :: ts, x, acc =>
      classifyMid vs (t1 :: ts) x (if t0 < x ∧ x ≤ t1 then some v else acc)
  | _, _, _, acc => acc

/-- the masked writes of `array_discrete` for one entry `x`, in the order the code performs them;
    `none` = the entry of `np.empty_like` was never written (only possible for NaN) -/
def classify (v0 vlast : α) (mid : List α) (t0 tlast : α) (thr : List α) (x : α) : Option α :=
  let r : Option α := none
  let r := if x ≤ t0 then some v0 else r
  let r := if tlast < x then some vlast else r
  classifyMid mid thr x r

inductive ThrMode (α : Type) where
  | arithmetic
  | equal (mean var : Option α)
  | explicit (thr : List α)

/-- values and thresholds as `array_discrete` prepares them (errors as exception class names) -/
def discreteSetup (ppf : α → α) (field vals : List α) : ThrMode α → Except String (List α × List α)
  | .arithmetic =>
      let v := sortVals vals
      pure (v, midpoints v)
  | .equal mean var =>
      let m := mean.getD (lmean field)
      let s := var.getD (lvar field)
      pure (vals, equalThresholds ppf m s vals.length)
  | .explicit thr =>
      if vals.length ≠ thr.length + 1 then throw "ValueError" else pure (vals, thr)

/-- `array_discrete` -/
def discrete (ppf : α → α) (field vals : List α) (mode : ThrMode α) : Except String (List (Option α)) := do
  let (v, thr) ← discreteSetup ppf field vals mode
  if !ascending thr then throw "ValueError"
  match thr.head?, thr.getLast?, v.head?, v.getLast? with
  | some t0, some tl, some v0, some vl =>
      pure (field.map fun x => classify v0 vl (v.tail.dropLast) t0 tl thr x)
  | _, _, _, _ => throw "IndexError"

/-! ## `Field.transform` wrappers -/

inductive NormKind (α : Type) where
  | none
  | lognormal
  | boxcox (lmbda : α)

/-- what the wrappers read from the `Field` object -/
structure Cfg (α : Type) where
  mean : α
  sill : α
  trend : Option α
  norm : NormKind α

def nan : α := ((0:Nat):α) / ((0:Nat):α)

/-- `x` is neither infinite nor NaN (`x - x` is `0` exactly for finite `x`); always true on `ℝ`.
    The range checks of `Normalizer._check_input` are strict on both sides, so `±inf` is outside `(lo, inf)`. -/
def isFinite (x : α) : Bool := decide (x - x ≤ ((0:Nat):α))

/-- `Normalizer.normalize`: `_normalize` on the open `normalize_range` (here `(0, ∞)`), NaN outside -/
def NormKind.normalize : NormKind α → α → α
  | .none, x => x
  | .lognormal, x => if ((0:Nat):α) < x ∧ isFinite x then log x else nan
  | .boxcox l, x => if ((0:Nat):α) < x ∧ isFinite x then bcNormalize l x else nan

/-- `Normalizer.denormalize`: `_denormalize` on the open `denormalize_range`, NaN outside
    (Box-Cox: `(-1/λ, ∞)` for `λ > 0`, `(-∞, -1/λ)` for `λ < 0`, everything when `isclose(λ, 0)`) -/
def NormKind.denormalize : NormKind α → α → α
  | .none, x => x
  | .lognormal, x => exp x
  | .boxcox l, x =>
      if lmbdaIsZero l then bcDenormalize l x
      else if l < ((0:Nat):α) then
        (if x < -(((1:Nat):α) / l) ∧ isFinite x then bcDenormalize l x else nan)
      else (if -(((1:Nat):α) / l) < x ∧ isFinite x then bcDenormalize l x else nan)

def NormKind.isDefault : NormKind α → Bool
  | .none => true
  | _ => false

def trendVal (c : Cfg α) : α := c.trend.getD ((0:Nat):α)

/-- `_pre_process` = `remove_trend_norm_mean` with `mean=None if keep_mean else fld.mean` -/
def preProcess (c : Cfg α) (keepMean : Bool) (x : α) : α :=
  let y := c.norm.normalize (x - trendVal c)
  if keepMean then y - ((0:Nat):α) else y - c.mean

/-- `_post_process` = `apply_mean_norm_trend` -/
def postProcess (c : Cfg α) (keepMean : Bool) (y : α) : α :=
  let y := if keepMean then y + ((0:Nat):α) else y + c.mean
  c.norm.denormalize y + trendVal c

/-- `mean = 0.0 if process and not keep_mean else fld.mean` -/
def usedMean (c : Cfg α) (process keepMean : Bool) : α :=
  if process && !keepMean then (0.0:α) else c.mean

/-- `apply_function` without the storage part -/
def applyFunction (c : Cfg α) (process keepMean : Bool) (f : List α → Except String (List α))
    (data : List α) : Except String (List α) := do
  if process then
    let r ← f (data.map (preProcess c keepMean))
    pure (r.map (postProcess c keepMean))
  else f data

inductive Method (α : Type) where
  | binary (divide upper lower : Option α)
  | discrete (vals : List α) (mode : ThrMode α)
  | boxcox (lmbda shift : α)
  | zinnharvey (high : Bool)
  | forceMoments
  | lognormal
  | uniform (low high : α)
  | arcsin (a b : Option α)
  | uquad (a b : Option α)

/-- `_check_for_default_normal` (the mean of the modelled configurations is always a constant) -/
def checkDefaultNormal (c : Cfg α) : Except String Unit :=
  if !c.norm.isDefault then throw "ValueError"
  else if c.trend.isSome then throw "ValueError"
  else pure ()

def unwrapDiscrete (r : List (Option α)) : List α := r.map fun o => o.getD (((0:Nat):α) / ((0:Nat):α))

/-- the nine wrappers of `transform/field.py` (checks, keyword construction, `apply_function`) -/
def fieldTransform (cdf ppf : α → α) (c : Cfg α) (process keepMean : Bool) (data : List α) :
    Method α → Except String (List α)
  | .binary divide upper lower => do
      if !process && divide.isNone then checkDefaultNormal c
      let mean : α := if process && !keepMean then (0.0:α) else c.mean
      let divide := divide.getD mean
      let upper := upper.getD (mean + sqrt c.sill)
      let lower := lower.getD (mean - sqrt c.sill)
      applyFunction c process keepMean
        (fun d => (discrete ppf d [lower, upper] (.explicit [divide])).map unwrapDiscrete) data
  | .discrete vals mode => do
      let mode ← match mode with
        | .equal _ _ => do
            if !process then checkDefaultNormal c
            pure (ThrMode.equal (some (usedMean c process keepMean)) (some c.sill))
        | m => pure m
      applyFunction c process keepMean (fun d => (discrete ppf d vals mode).map unwrapDiscrete) data
  | .boxcox lmbda shift =>
      applyFunction c process keepMean (fun d => pure (d.map (boxcox lmbda shift))) data
  | .zinnharvey high => do
      if !process then checkDefaultNormal c
      applyFunction c process keepMean
        (fun d => pure (d.map (zinnharvey cdf ppf high (usedMean c process keepMean) c.sill))) data
  | .forceMoments => do
      if !process then checkDefaultNormal c
      applyFunction c process keepMean
        (fun d => pure (forceMoments (usedMean c process keepMean) c.sill d)) data
  | .lognormal => applyFunction c process keepMean (fun d => pure (d.map toLognormal)) data
  | .uniform low high => do
      if !process then checkDefaultNormal c
      applyFunction c process keepMean
        (fun d => pure (d.map (toUniform cdf (usedMean c process keepMean) c.sill low high))) data
  | .arcsin a b => do
      if !process then checkDefaultNormal c
      applyFunction c process keepMean
        (fun d => pure (d.map (toArcsin cdf (usedMean c process keepMean) c.sill a b))) data
  | .uquad a b => do
      if !process then checkDefaultNormal c
      applyFunction c process keepMean
        (fun d => pure (d.map (toUquad cdf (usedMean c process keepMean) c.sill a b))) data

/-! ### stored fields: a state machine over `fld.field_names` / `fld[name]` -/

/-- `store` argument: `True` / `False` / a name -/
inductive Store where
  | yes
  | no
  | name (n : String)

/-- the stored fields, in `field_names` order -/
abbrev FState (α : Type) := List (String × List α)

def isIdentStart (c : Char) : Bool := c.isAlpha || c == '_'
def isIdentChar (c : Char) : Bool := c.isAlphanum || c == '_'
/-- `str.isidentifier` on ASCII names -/
def isIdentifier (s : String) : Bool :=
  match s.toList with
  | [] => false
  | c :: cs => isIdentStart c && cs.all isIdentChar

def FState.lookup : FState α → String → Option (List α)
  | [], _ => none
  | (k, v) :: t, n => if k == n then some v else FState.lookup t n

/-- `setattr(fld, name, data)` + `field_names.append(name)` if the name is new -/
def FState.set : FState α → String → List α → FState α
  | [], n, d => [(n, d)]
  | (k, v) :: t, n, d => if k == n then (n, d) :: t else (k, v) :: FState.set t n d

def FState.has (st : FState α) (n : String) : Bool := (st.lookup n).isSome

/-- `get_store_config(store, default=field)` -/
def storeConfig (store : Store) (field : String) : String × Bool :=
  match store with
  | .yes => (field, true)
  | .no => (field, false)
  | .name n => (n, true)

/-- the wrapper's own checks (`ValueError`), which run before the field is looked up -/
def preCheck (c : Cfg α) (process : Bool) : Method α → Except String Unit
  | .binary divide _ _ => if !process && divide.isNone then checkDefaultNormal c else pure ()
  | .discrete _ (.equal _ _) => if !process then checkDefaultNormal c else pure ()
  | .discrete _ _ => pure ()
  | .boxcox _ _ => pure ()
  | .lognormal => pure ()
  | _ => if !process then checkDefaultNormal c else pure ()

/-- `fld.post_field(out, name=name, process=False, save=save)` with `name, save = get_store_config(store, field)`.
    `reserved` = the attribute names of the object (`dir(fld)`) that are not stored fields. -/
def commit (reserved : List String) (st : FState α) (store : Store) (field : String) (out : List α) :
    FState α × Except String (List α) :=
  let ns := storeConfig store field
  if ns.2 then
    if !isIdentifier ns.1 || (!st.has ns.1 && reserved.contains ns.1) then (st, .error "ValueError")
    else (st.set ns.1 out, .ok out)
  else (st, .ok out)

/-- one `fld.transform(method, field=…, store=…, process=…, keep_mean=…)` call -/
def step (cdf ppf : α → α) (c : Cfg α) (reserved : List String) (st : FState α)
    (m : Method α) (field : String) (store : Store) (process keepMean : Bool) :
    FState α × Except String (List α) :=
  match preCheck c process m with
  | .error e => (st, .error e)
  | .ok _ =>
    match st.lookup field with
    | none => (st, .error "KeyError")
    | some data =>
      match fieldTransform cdf ppf c process keepMean data m with
      | .error e => (st, .error e)
      | .ok out => commit reserved st store field out

/-! ## `erf`, `erfc`, `erfinv` for the driver (series / continued fraction / Newton; ~1e-15 on `Float`) -/

def zero : α := ((0:Nat):α)
def one : α := ((1:Nat):α)
def two : α := ((2:Nat):α)

/-- `erf x = 2/√π · e^{-x²} · Σ 2ⁿ x^{2n+1} / (2n+1)!!` (all terms of one sign; used for `|x| < 1`) -/
def erfSeries (x : α) : α :=
  let x2 := x * x
  let st := forRange 0 60 (x, x) fun n (st : α × α) =>
    let t := st.2 * (two * x2) / ((2 * n + 3 : Nat) : α)
    (st.1 + t, t)
  two / sqrt Transc.pi * exp (-x2) * st.1

/-- `erfc x` for `x ≥ 1` by the continued fraction `e^{-x²}/√π · 1/(x + (1/2)/(x + 1/(x + (3/2)/(x + …))))` -/
def erfcCF (x : α) : α :=
  let k := forRange 0 300 x fun i (k : α) => x + (((300 - i : Nat) : α) / two) / k
  exp (-(x * x)) / (sqrt Transc.pi * k)

def erfc (x : α) : α :=
  if x < -(one : α) then two - erfcCF (-x)
  else if x < one then one - erfSeries x
  else erfcCF x

def erf (x : α) : α :=
  if x < -(one : α) then erfcCF (-x) - one
  else if x < one then erfSeries x
  else one - erfcCF x

/-- `erfinv` on `[-1, 1]` (`∓∞` at the ends, NaN outside) by Newton iteration -/
def erfinv (y : α) : α :=
  let a := fabs y
  if (one : α) < a then (zero : α) / zero
  else if a < one then
    let w :=
      if a ≤ (0.5:α) then
        -- concave increasing `erf w − a`, start left of the root: monotone Newton
        forRange 0 12 (a * sqrt Transc.pi / two) fun _ (w : α) =>
          w - (erfSeries w - a) / (two / sqrt Transc.pi * exp (-(w * w)))
      else
        -- solve `log erfc w = log q`, `q = 1 − a` (exact), concave decreasing
        let q := one - a
        let lq := log q
        forRange 0 40 (sqrt (-lq)) fun _ (w : α) =>
          let e := erfc w
          w + (log e - lq) * e / (two / sqrt Transc.pi * exp (-(w * w)))
    if y < zero then -w else w
  else if y < zero then -(one / (zero : α)) else one / (zero : α)

/-- `Φ z = (1 + erf(z/√2))/2` as the code composes it -/
def cdfStd (z : α) : α := (0.5:α) * (one + erf (z / sqrt two))
/-- `Φ⁻¹ p = √2·erfinv(2p − 1)` -/
def ppfStd (p : α) : α := sqrt two * erfinv (two * p - one)

/-! ## driver operations -/

def getFloatOpt (j : Json) (k : String) : Except String (Option Float) :=
  match j.getObjVal? k with
  | .ok Json.null => pure none
  | .ok v => do let x ← jsonToFloat v; pure (some x)
  | .error _ => pure none

def getBoolD (j : Json) (k : String) (d : Bool) : Bool :=
  match j.getObjVal? k with
  | .ok (Json.bool b) => b
  | _ => d

def getMode (j : Json) : Except String (ThrMode Float) := do
  let m ← getStr j "mode"
  match m with
  | "arithmetic" => pure .arithmetic
  | "equal" => do
      let mean ← getFloatOpt j "tmean"; let var ← getFloatOpt j "tvar"
      pure (.equal mean var)
  | _ => do
      let thr ← getFloats j "thr"
      pure (.explicit thr.toList)

def getMethod (j : Json) : Except String (Method Float) := do
  let m ← getStr j "method"
  match m with
  | "binary" => do
      pure (.binary (← getFloatOpt j "divide") (← getFloatOpt j "upper") (← getFloatOpt j "lower"))
  | "discrete" => do
      let vals ← getFloats j "vals"
      pure (.discrete vals.toList (← getMode j))
  | "boxcox" => do pure (.boxcox (← getFloat j "lmbda") (← getFloat j "shift"))
  | "zinnharvey" => pure (.zinnharvey (getBoolD j "high" true))
  | "force_moments" => pure .forceMoments
  | "lognormal" => pure .lognormal
  | "uniform" => do pure (.uniform (← getFloat j "low") (← getFloat j "high"))
  | "arcsin" => do pure (.arcsin (← getFloatOpt j "a") (← getFloatOpt j "b"))
  | "uquad" => do pure (.uquad (← getFloatOpt j "a") (← getFloatOpt j "b"))
  | _ => throw s!"unknown method {m}"

def getCfg (j : Json) : Except String (Cfg Float) := do
  let mean ← getFloat j "cmean"
  let sill ← getFloat j "sill"
  let trend ← getFloatOpt j "trend"
  let norm : NormKind Float ← match j.getObjVal? "norm" with
    | .ok (Json.str "lognormal") => pure NormKind.lognormal
    | .ok (Json.str "boxcox") => do pure (NormKind.boxcox (← getFloat j "norm_lmbda"))
    | _ => pure NormKind.none
  pure { mean, sill, trend, norm }

def optOut (r : List (Option Float)) : Json :=
  Json.arr (r.map fun o => match o with | some x => fbits x | none => Json.null).toArray

def errOut (e : String) : Json := Json.mkObj [("exc", Json.str e)]

def getStore (j : Json) : Store :=
  match j.getObjVal? "store" with
  | .ok (Json.bool false) => .no
  | .ok (Json.str s) => .name s
  | _ => .yes

/-- a whole history of `fld.transform` calls on one field object -/
def runHistory (c : Cfg Float) (reserved : List String) (st0 : FState Float) (calls : Array Json) :
    Except String Json := do
  let mut st := st0
  let mut outs : Array Json := #[]
  for cj in calls do
    let m ← getMethod cj
    let field ← getStr cj "field"
    let (st', r) := step cdfStd ppfStd c reserved st m field (getStore cj) (getBoolD cj "process" false)
      (getBoolD cj "keep_mean" true)
    st := st'
    let o := match r with
      | .ok out => fl out
      | .error e => errOut e
    outs := outs.push (Json.mkObj [("ret", o), ("names", Json.arr (st.map fun p => Json.str p.1).toArray),
      ("fields", Json.arr (st.map fun p => fl p.2).toArray)])
  return Json.arr outs

/-- line-protocol operations of this model; `none` = not one of mine -/
def ops (op : String) (j : Json) : Option (Except String Json) :=
  match op with
  | "c19_erf" => some (do
      let x ← getFloats j "x"
      return Json.arr #[fl (x.toList.map erf), fl (x.toList.map erfc)])
  | "c19_erfinv" => some (do
      let x ← getFloats j "x"
      return fl (x.toList.map erfinv))
  | "c19_cdf" => some (do
      let x ← getFloats j "x"
      return Json.arr #[fl (x.toList.map cdfStd), fl (x.toList.map ppfStd)])
  | "c19_moments" => some (do
      let x ← getFloats j "x"
      return fl [lmean x.toList, lvar x.toList])
  | "c19_array" => some (do
      -- an array function called directly: optional mean / var default to the sample moments
      let x ← getFloats j "x"
      let xs := x.toList
      let fn ← getStr j "fn"
      let mean := (← getFloatOpt j "mean").getD (lmean xs)
      let var := (← getFloatOpt j "var").getD (lvar xs)
      match fn with
      | "lognormal" => return fl (xs.map toLognormal)
      | "uniform" => do
          let low ← getFloat j "low"; let high ← getFloat j "high"
          return fl (xs.map (toUniform cdfStd mean var low high))
      | "arcsin" => do
          return fl (xs.map (toArcsin cdfStd mean var (← getFloatOpt j "a") (← getFloatOpt j "b")))
      | "uquad" => do
          return fl (xs.map (toUquad cdfStd mean var (← getFloatOpt j "a") (← getFloatOpt j "b")))
      | "u2arcsin" => do
          let a ← getFloat j "a"; let b ← getFloat j "b"
          return fl (xs.map (uniformToArcsin a b))
      | "u2uquad" => do
          let a ← getFloat j "a"; let b ← getFloat j "b"
          return fl (xs.map (uniformToUquad a b))
      | "zinnharvey" => return fl (xs.map (zinnharvey cdfStd ppfStd (getBoolD j "high" true) mean var))
      | "force_moments" => do
          let m ← getFloat j "tmean"; let v ← getFloat j "tvar"
          return fl (forceMoments m v xs)
      | "boxcox" => do
          let l ← getFloat j "lmbda"; let s ← getFloat j "shift"
          return Json.arr #[fl (xs.map (boxcox l s)), Json.bool (boxcoxWarns l s xs)]
      | "bc_normalize" => do
          let l ← getFloat j "lmbda"
          return fl (xs.map (bcNormalize l))
      | "bc_denormalize" => do
          let l ← getFloat j "lmbda"
          return fl (xs.map (bcDenormalize l))
      | "discrete" => do
          let vals ← getFloats j "vals"
          match discrete ppfStd xs vals.toList (← getMode j) with
          | .ok r => return optOut r
          | .error e => return errOut e
      | "thresholds" => do
          let vals ← getFloats j "vals"
          match discreteSetup ppfStd xs vals.toList (← getMode j) with
          | .ok (v, t) => return Json.arr #[fl v, fl t]
          | .error e => return errOut e
      | _ => throw s!"c19_array: unknown fn {fn}")
  | "c19_field" => some (do
      let c ← getCfg j
      let x ← getFloats j "x"
      let m ← getMethod j
      match fieldTransform cdfStd ppfStd c (getBoolD j "process" false) (getBoolD j "keep_mean" true) x.toList m with
      | .ok r => return fl r
      | .error e => return errOut e)
  | "c19_history" => some (do
      let c ← getCfg j
      let reserved ← (do let v ← j.getObjVal? "reserved"; let a ← v.getArr?; a.mapM (·.getStr?))
      let calls ← (do let v ← j.getObjVal? "calls"; v.getArr?)
      let names ← (do let v ← j.getObjVal? "names"; let a ← v.getArr?; a.mapM (·.getStr?))
      let fields ← (do let v ← j.getObjVal? "fields"; let a ← v.getArr?
                       a.mapM fun f => do let b ← f.getArr?; b.mapM jsonToFloat)
      let st0 : FState Float := (names.toList.zip (fields.toList.map (·.toList)))
      runHistory c reserved.toList st0 calls)
  | _ => none

end GSV.Model.Transform
